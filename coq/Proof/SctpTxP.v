(* C02: no-deadlock invariants of the sender (Model/SctpTx.v) for every input history. *)
From Coq Require Import ZArith List Bool Lia.
From AV Require Import Lib.Bytes Gen.Utils Gen.SctpConst Model.SctpTx.
Import ListNotations.
Local Open Scope Z_scope.

Definition infl (c : sc) : bool := negb (c_acked c) && negb (c_abandoned c) && negb (c_retx c).
Definition w (c : sc) : Z := if infl c then c_book c else 0.
Definition fsum (l : list sc) : Z := fold_right (fun c acc => w c + acc) 0 l.
Definition bok (c : sc) : Prop := 0 <= c_book c.
Definition fresh (c : sc) : Prop := c_acked c = false /\ c_abandoned c = false /\ c_retx c = false.
Definition rxok (c : sc) : Prop := c_retx c = true -> c_abandoned c = false.
Definition abrx (c : sc) : Prop := c_abandoned c = true \/ c_retx c = true.

Lemma fsum_app a b : fsum (a ++ b) = fsum a + fsum b.
Proof. unfold fsum. induction a as [|c a IH]; cbn [app fold_right]; [lia|]. rewrite IH. lia. Qed.
Lemma fsum_cons c a : fsum (c :: a) = w c + fsum a. Proof. reflexivity. Qed.
Lemma fsum_nil : fsum [] = 0. Proof. reflexivity. Qed.
Lemma fsum_rev a : fsum (rev a) = fsum a.
Proof. induction a as [|c a IH]; cbn [rev]; [reflexivity|]. rewrite fsum_app, IH, !fsum_cons, fsum_nil. lia. Qed.
Lemma w_range c : bok c -> 0 <= w c <= c_book c.
Proof. unfold w, bok. destruct (infl c); lia. Qed.
Lemma fsum_nonneg l : Forall bok l -> 0 <= fsum l.
Proof. induction 1 as [|c l Hc Hl IH]; [rewrite fsum_nil; lia|]. rewrite fsum_cons. pose proof (w_range c Hc). lia. Qed.

Lemma MTU_val : MTU = 1200. Proof. reflexivity. Qed.

(* ---------------------------------------------------------------- abandon primitives *)
Lemma abandon_sibling fl c : bok c -> 0 <= fl ->
  let '(fl', c') := abandon_chunk fl c true in
  fl' = Z.max 0 (fl - w c) /\ w c' = 0 /\ c_book c' = c_book c /\ c_abandoned c' = true /\ c_retx c' = false /\
  c_first c' = c_first c /\ c_last c' = c_last c.
Proof.
  intros Hb Hfl. unfold abandon_chunk, w, infl, dec, set_flags. cbn.
  destruct (c_acked c), (c_abandoned c), (c_retx c); cbn; repeat split; try lia.
Qed.

(* a region of the queue processed by a marking loop: flight may only lose what the region loses *)
Definition mark_ok (fl : Z) (l : list sc) (fl' : Z) (l' : list sc) : Prop :=
  0 <= fl' /\ fl' <= Z.max 0 (fl - (fsum l - fsum l')) /\ fsum l' <= fsum l /\
  Forall bok l' /\ Forall rxok l' /\ length l' = length l /\
  (forall P : sc -> Prop, (forall c, abrx c -> P c) -> Forall (fun c => abrx c \/ P c) l -> Forall (fun c => abrx c \/ P c) l').

Lemma abrx_keep (l l' : list sc) :
  Forall2 (fun c c' => abrx c -> abrx c') l l' -> Forall abrx l -> Forall abrx l'.
Proof. induction 1 as [|x y l l' Hxy Hl IH]; intros Ha; inversion Ha; subst; constructor; auto. Qed.

Lemma mark_back_ok : forall pre fl, Forall bok pre -> Forall rxok pre -> 0 <= fl ->
  let '(fl', pre') := mark_back fl pre in
  0 <= fl' /\ fl' <= Z.max 0 (fl - (fsum pre - fsum pre')) /\ fsum pre' <= fsum pre /\
  Forall bok pre' /\ Forall rxok pre' /\
  Forall2 (fun c c' => abrx c -> abrx c') pre pre'.
Proof.
  induction pre as [|c pre IH]; intros fl Hb Hr Hfl; cbn [mark_back].
  - repeat split; try lia; constructor.
  - inversion Hb as [|? ? Hc Hb']; subst. inversion Hr as [|? ? Hrc Hr']; subst.
    pose proof (abandon_sibling fl c Hc Hfl) as Ha. destruct (abandon_chunk fl c true) as [fl1 c1].
    destruct Ha as (E1 & W1 & B1 & A1 & R1 & _).
    pose proof (w_range c Hc) as Hw.
    assert (Hc1 : bok c1) by (unfold bok; lia).
    assert (Hr1 : rxok c1) by (intros X; congruence).
    assert (H2 : Forall2 (fun c c' => abrx c -> abrx c') pre pre).
    { clear. induction pre; constructor; auto. }
    destruct (c_first c).
    + rewrite !fsum_cons, W1. repeat split; try lia; try (constructor; assumption).
      constructor; [intros _; left; exact A1|exact H2].
    + assert (Hfl1 : 0 <= fl1) by lia.
      specialize (IH fl1 Hb' Hr' Hfl1). destruct (mark_back fl1 pre) as [fl2 pre2].
      destruct IH as (I1 & I2 & I3 & I4 & I5 & I6).
      rewrite !fsum_cons, W1. repeat split; try lia; try (constructor; assumption).
      constructor; [intros _; left; exact A1|exact I6].
Qed.

Lemma mark_fwd_ok : forall post fl, Forall bok post -> Forall rxok post -> 0 <= fl ->
  let '(fl', post', found) := mark_fwd fl post in
  0 <= fl' /\ fl' <= Z.max 0 (fl - (fsum post - fsum post')) /\ fsum post' <= fsum post /\
  Forall bok post' /\ Forall rxok post' /\
  Forall2 (fun c c' => abrx c -> abrx c') post post' /\
  (found = false -> Forall abrx post').
Proof.
  induction post as [|c post IH]; intros fl Hb Hr Hfl; cbn [mark_fwd].
  - repeat split; try lia; constructor.
  - inversion Hb as [|? ? Hc Hb']; subst. inversion Hr as [|? ? Hrc Hr']; subst.
    pose proof (abandon_sibling fl c Hc Hfl) as Ha. destruct (abandon_chunk fl c true) as [fl1 c1].
    destruct Ha as (E1 & W1 & B1 & A1 & R1 & _).
    pose proof (w_range c Hc) as Hw.
    assert (Hc1 : bok c1) by (unfold bok; lia).
    assert (Hr1 : rxok c1) by (intros X; congruence).
    assert (H2 : Forall2 (fun c c' => abrx c -> abrx c') post post).
    { clear. induction post; constructor; auto. }
    destruct (c_last c).
    + rewrite !fsum_cons, W1. repeat split; try lia; try (constructor; assumption); try discriminate.
      constructor; [intros _; left; exact A1|exact H2].
    + assert (Hfl1 : 0 <= fl1) by lia.
      specialize (IH fl1 Hb' Hr' Hfl1). destruct (mark_fwd fl1 post) as [[fl2 post2] found].
      destruct IH as (I1 & I2 & I3 & I4 & I5 & I6 & I7).
      rewrite !fsum_cons, W1. repeat split; try lia; try (constructor; assumption).
      * constructor; [intros _; left; exact A1|exact I6].
      * intros Hf. constructor; [left; exact A1|now apply I7].
Qed.

Lemma pull_unsent_ok : forall oq, Forall bok oq -> Forall fresh oq ->
  let '(mv, rest) := pull_unsent oq in
  fsum mv = 0 /\ Forall bok mv /\ Forall rxok mv /\ Forall abrx mv /\ Forall bok rest /\ Forall fresh rest /\
  (length mv + length rest = length oq)%nat.
Proof.
  induction oq as [|c oq IH]; intros Hb Hf; cbn [pull_unsent].
  - repeat split; constructor.
  - inversion Hb as [|? ? Hc Hb']; subst. inversion Hf as [|? ? Hfc Hf']; subst.
    assert (W1 : w (snd (abandon_chunk 0 c false)) = 0) by (unfold abandon_chunk, w, infl, set_flags; cbn; now destruct (c_acked c)).
    assert (B1 : bok (snd (abandon_chunk 0 c false))) by exact Hc.
    assert (R1 : rxok (snd (abandon_chunk 0 c false))) by (intros X; discriminate X).
    assert (A1 : abrx (snd (abandon_chunk 0 c false))) by (left; reflexivity).
    destruct (c_last c).
    + rewrite fsum_cons, W1. repeat split; try (constructor; auto; fail); auto; cbn [length fsum fold_right]; lia.
    + specialize (IH Hb' Hf'). destruct (pull_unsent oq) as [mv rest].
      destruct IH as (I1 & I2 & I3 & I4 & I5 & I6 & I7).
      rewrite fsum_cons, W1, I1. repeat split; try (constructor; auto; fail); auto; cbn [length]; lia.
Qed.

Lemma Forall2_len {A B} (R : A -> B -> Prop) l l' : Forall2 R l l' -> length l = length l'.
Proof. induction 1; cbn [length]; congruence. Qed.

(* the whole _maybe_abandon on a zipper *)
Lemma Forall2_refl_abrx (l : list sc) : Forall2 (fun c c' : sc => abrx c -> abrx c') l l.
Proof. induction l; constructor; auto. Qed.

Lemma maybe_abandon_ok fl pre cur post oq now :
  Forall bok pre -> Forall rxok pre -> bok cur -> rxok cur -> Forall bok post -> Forall rxok post ->
  Forall bok oq -> Forall fresh oq -> 0 <= fl ->
  let '(ab, fl', pre', cur', post', oq') := maybe_abandon fl pre cur post oq now in
  0 <= fl' /\
  fl' <= Z.max 0 (fl - ((fsum pre + fsum post) - (fsum pre' + fsum post'))) /\
  fsum pre' + fsum post' <= fsum pre + fsum post /\
  Forall bok pre' /\ Forall rxok pre' /\ bok cur' /\ rxok cur' /\ Forall bok post' /\ Forall rxok post' /\
  Forall bok oq' /\ Forall fresh oq' /\
  c_book cur' = c_book cur /\
  (ab = true -> c_abandoned cur' = true /\ c_retx cur' = false) /\
  (ab = false -> cur' = cur /\ c_abandoned cur = false) /\
  (Forall abrx pre -> Forall abrx pre') /\
  (Forall2 (fun c c' => abrx c -> abrx c') post (firstn (length post) post')) /\
  Forall abrx (skipn (length post) post') /\
  (length post <= length post')%nat.
Proof.
  intros Hbp Hrp Hbc Hrc Hbq Hrq Hbo Hfo Hfl. unfold maybe_abandon.
  pose proof (Forall2_refl_abrx post) as Hid.
  assert (Hnil : Forall abrx []) by constructor.
  assert (Hle : (length post <= length post)%nat) by lia.
  destruct (c_abandoned cur) eqn:Eab.
  { assert (X : c_retx cur = false).
    { destruct (c_retx cur) eqn:Er; [|reflexivity]. specialize (Hrc Er). congruence. }
    rewrite firstn_all, skipn_all. repeat split; auto; try lia; try congruence. }
  destruct (negb (should_abandon cur now)).
  { rewrite firstn_all, skipn_all. repeat split; auto; try lia; try congruence. }
  cbn [abandon_chunk andb].
  set (cur1 := set_flags cur (c_acked cur) true false (c_misses cur) (c_sent_count cur)).
  assert (Hb1 : bok cur1) by exact Hbc.
  assert (Hr1 : rxok cur1) by (intros X; discriminate X).
  assert (Z1 : c_book cur1 = c_book cur) by reflexivity.
  (* backwards *)
  set (pb := if c_first cur then (fl, pre) else mark_back fl pre).
  assert (Hpb : 0 <= fst pb /\ fst pb <= Z.max 0 (fl - (fsum pre - fsum (snd pb))) /\ fsum (snd pb) <= fsum pre /\
                Forall bok (snd pb) /\ Forall rxok (snd pb) /\ (Forall abrx pre -> Forall abrx (snd pb))).
  { unfold pb. destruct (c_first cur); cbn [fst snd].
    - repeat split; auto; lia.
    - pose proof (mark_back_ok pre fl Hbp Hrp Hfl) as H. destruct (mark_back fl pre) as [f p]. cbn [fst snd].
      destruct H as (H1 & H2 & H3 & H4 & H5 & H6). repeat split; auto. intros Ha. eapply abrx_keep; eauto. }
  destruct pb as [fl1 pre1]. cbn [fst snd] in Hpb. destruct Hpb as (P1 & P2 & P3 & P4 & P5 & P6).
  destruct (c_last cur).
  { rewrite firstn_all, skipn_all. repeat split; auto; try lia; try congruence. }
  pose proof (mark_fwd_ok post fl1 Hbq Hrq P1) as Hf. destruct (mark_fwd fl1 post) as [[fl2 post2] found].
  destruct Hf as (F1 & F2 & F3 & F4 & F5 & F6 & F7).
  assert (Hlen : length post2 = length post) by (symmetry; eapply Forall2_len; eauto).
  assert (Hle2 : (length post <= length post2)%nat) by lia.
  destruct found.
  { rewrite <- Hlen, firstn_all, skipn_all. repeat split; auto; try lia; try congruence. }
  pose proof (pull_unsent_ok oq Hbo Hfo) as Hu. destruct (pull_unsent oq) as [mv rest].
  destruct Hu as (U1 & U2 & U3 & U4 & U5 & U6 & U7).
  assert (A1 : Forall bok (post2 ++ mv)) by (apply Forall_app; split; assumption).
  assert (A2 : Forall rxok (post2 ++ mv)) by (apply Forall_app; split; assumption).
  assert (A3 : (length post <= length (post2 ++ mv))%nat) by (rewrite app_length; lia).
  rewrite fsum_app, U1, <- Hlen, firstn_app, firstn_all, Nat.sub_diag, skipn_app, skipn_all, Nat.sub_diag.
  cbn [firstn skipn app]. rewrite app_nil_r. rewrite Hlen in *.
  repeat split; auto; try lia; try congruence.
Qed.

(* ---------------------------------------------------------------- the strike loop *)
Lemma set_flags_book c a b r m n : c_book (set_flags c a b r m n) = c_book c. Proof. reflexivity. Qed.

Lemma w_same_flags c m n : w (set_flags c (c_acked c) (c_abandoned c) (c_retx c) m n) = w c.
Proof. reflexivity. Qed.

Lemma strike_ok : forall n pre post oq cum last_pos htna gaps fl loss now,
  Forall bok pre -> Forall rxok pre -> Forall bok post -> Forall rxok post -> Forall bok oq -> Forall fresh oq ->
  0 <= fl <= fsum pre + fsum post ->
  let '(sq, oq', fl', loss') := strike n pre post oq cum last_pos htna gaps fl loss now in
  0 <= fl' <= fsum sq /\ Forall bok sq /\ Forall rxok sq /\ Forall bok oq' /\ Forall fresh oq' /\
  (Forall abrx pre -> Forall abrx post -> Forall abrx sq) /\ fl' <= fl.
Proof.
  induction n as [|n IH]; intros pre post oq cum last_pos htna gaps fl loss now Hbp Hrp Hbq Hrq Hbo Hfo Hfl.
  - cbn [strike]. rewrite fsum_app, fsum_rev.
    repeat split; try lia; auto; try (apply Forall_app; split; [apply Forall_rev|]; assumption).
    intros A B. apply Forall_app. split; [now apply Forall_rev|exact B].
  - cbn [strike]. destruct post as [|c post'].
    { rewrite app_nil_r, fsum_rev. cbn [fsum fold_right] in *.
      repeat split; try lia; auto; try (apply Forall_rev; assumption). intros A _. now apply Forall_rev. }
    assert (Hstop : 0 <= fl <= fsum (rev pre ++ c :: post') /\ Forall bok (rev pre ++ c :: post') /\
                    Forall rxok (rev pre ++ c :: post') /\
                    (Forall abrx pre -> Forall abrx (c :: post') -> Forall abrx (rev pre ++ c :: post'))).
    { rewrite fsum_app, fsum_rev. repeat split; try lia;
        try (apply Forall_app; split; [apply Forall_rev|]; assumption).
      intros A B. apply Forall_app. split; [now apply Forall_rev|exact B]. }
    inversion Hbq as [|? ? Hbc Hbq']; subst. inversion Hrq as [|? ? Hrc Hrq']; subst.
    rewrite fsum_cons in Hfl.
    destruct (uint32_gt (c_tsn c) htna).
    { destruct Hstop as (S1 & S2 & S3 & S4). repeat split; auto; lia. }
    destruct (negb (in_gaps gaps last_pos (tsn_off cum (c_tsn c)))).
    + destruct (c_misses c + 1 =? 3).
      * set (c0 := set_flags c (c_acked c) (c_abandoned c) (c_retx c) 0 (c_sent_count c)).
        assert (Hb0 : bok c0) by exact Hbc. assert (Hr0 : rxok c0) by exact Hrc.
        assert (Hfl0 : 0 <= fl) by lia.
        pose proof (maybe_abandon_ok fl pre c0 post' oq now Hbp Hrp Hb0 Hr0 Hbq' Hrq' Hbo Hfo Hfl0) as Hm.
        destruct (maybe_abandon fl pre c0 post' oq now) as [[[[[ab fl1] pre1] c1] post1] oq1].
        destruct Hm as (M1 & M2 & M3 & M4 & M5 & M6 & M7 & M8 & M9 & M10 & M11 & M12 & M13 & M14 & M15 & M16 & M17 & M18).
        set (c2 := set_flags c1 false (c_abandoned c1) (if ab then c_retx c1 else true) (c_misses c1) (c_sent_count c1)).
        assert (Hw2 : w c2 = 0).
        { unfold w, infl, c2, set_flags. cbn. destruct ab.
          - destruct (M13 eq_refl) as [A _]. rewrite A. reflexivity.
          - now rewrite andb_false_r. }
        assert (Hb2 : bok c2) by (unfold bok, c2; rewrite set_flags_book, M12; exact Hbc).
        assert (Hr2 : rxok c2).
        { unfold rxok, c2, set_flags. cbn. destruct ab.
          - destruct (M13 eq_refl) as [_ B]. rewrite B. discriminate.
          - intros _. destruct (M14 eq_refl) as [E1 E2]. rewrite E1. exact E2. }
        assert (Ha2 : abrx c2).
        { unfold abrx, c2, set_flags. cbn. destruct ab; [left; exact (proj1 (M13 eq_refl))|right; reflexivity]. }
        pose proof (w_range c Hbc) as Hwc. change (w c0) with (w c) in *.
        assert (Hd : 0 <= dec fl1 c2 <= fsum (c2 :: pre1) + fsum post1).
        { pose proof (fsum_nonneg _ M4). pose proof (fsum_nonneg _ M8).
          unfold dec. rewrite fsum_cons, Hw2. unfold c2. rewrite set_flags_book, M12. change (c_book c0) with (c_book c). lia. }
        specialize (IH (c2 :: pre1) post1 oq1 cum last_pos htna gaps (dec fl1 c2) true now
                       (Forall_cons _ Hb2 M4) (Forall_cons _ Hr2 M5) M8 M9 M10 M11 Hd).
        destruct (strike n (c2 :: pre1) post1 oq1 cum last_pos htna gaps (dec fl1 c2) true now) as [[[sq oq'] fl'] loss'].
        destruct IH as (I1 & I2 & I3 & I4 & I5 & I6 & I7).
        assert (Hdec : dec fl1 c2 <= fl) by (unfold dec; unfold c2; rewrite set_flags_book, M12; change (c_book c0) with (c_book c); unfold bok in Hbc; lia).
        repeat split; auto; try lia.
        intros A B. inversion B as [|? ? Bc Bp]; subst. apply I6.
        -- constructor; [exact Ha2|now apply M15].
        -- rewrite <- (firstn_skipn (length post') post1). apply Forall_app. split; [|exact M17].
           eapply abrx_keep; eauto.
      * set (c1 := set_flags c (c_acked c) (c_abandoned c) (c_retx c) (c_misses c + 1) (c_sent_count c)).
        assert (Hd : 0 <= fl <= fsum (c1 :: pre) + fsum post') by (rewrite fsum_cons; change (w c1) with (w c); lia).
        assert (Hb1 : bok c1) by exact Hbc. assert (Hr1 : rxok c1) by exact Hrc.
        specialize (IH (c1 :: pre) post' oq cum last_pos htna gaps fl loss now
                       (Forall_cons _ Hb1 Hbp) (Forall_cons _ Hr1 Hrp) Hbq' Hrq' Hbo Hfo Hd).
        destruct (strike n (c1 :: pre) post' oq cum last_pos htna gaps fl loss now) as [[[sq oq'] fl'] loss'].
        destruct IH as (I1 & I2 & I3 & I4 & I5 & I6 & I7).
        repeat split; auto; try lia.
        intros A B. inversion B as [|? ? Bc Bp]; subst. apply I6; [constructor; [exact Bc|exact A]|exact Bp].
    + assert (Hd : 0 <= fl <= fsum (c :: pre) + fsum post') by (rewrite fsum_cons; lia).
      specialize (IH (c :: pre) post' oq cum last_pos htna gaps fl loss now
                     (Forall_cons _ Hbc Hbp) (Forall_cons _ Hrc Hrp) Hbq' Hrq' Hbo Hfo Hd).
      destruct (strike n (c :: pre) post' oq cum last_pos htna gaps fl loss now) as [[[sq oq'] fl'] loss'].
      destruct IH as (I1 & I2 & I3 & I4 & I5 & I6 & I7).
      repeat split; auto; try lia.
      intros A B. inversion B as [|? ? Bc Bp]; subst. apply I6; [constructor; [exact Bc|exact A]|exact Bp].
Qed.

(* ---------------------------------------------------------------- T3 marking *)
Lemma Forall2_skipn {A B} (R : A -> B -> Prop) : forall k l l', Forall2 R l l' -> Forall2 R (skipn k l) (skipn k l').
Proof.
  induction k as [|k IH]; intros l l' H; [exact H|]. destruct H; cbn [skipn]; [constructor|now apply IH].
Qed.

Lemma skipn_firstn_app {A} (k m : nat) (l : list A) : (k <= m)%nat ->
  skipn k l = skipn k (firstn m l) ++ skipn m l.
Proof.
  intros H. destruct (Nat.le_gt_cases m (length l)) as [L|L].
  - rewrite <- (firstn_skipn m l) at 1. rewrite skipn_app, firstn_length, Nat.min_l by lia.
    replace (k - m)%nat with 0%nat by lia. reflexivity.
  - rewrite (firstn_all2 l) by lia. rewrite (skipn_all2 (n := m) l) by lia. now rewrite app_nil_r.
Qed.

(* n = chunks of the snapshot still to visit; everything behind them was appended by
   _maybe_abandon (abandoned unsent fragments) *)
Lemma t3_mark_ok : forall n pre post oq fl now,
  Forall bok pre -> Forall rxok pre -> Forall bok post -> Forall rxok post -> Forall bok oq -> Forall fresh oq ->
  0 <= fl -> Forall abrx pre -> (n <= length post)%nat -> Forall abrx (skipn n post) ->
  let '(sq, oq', fl') := t3_mark n pre post oq fl now in
  Forall bok sq /\ Forall rxok sq /\ Forall bok oq' /\ Forall fresh oq' /\ Forall abrx sq.
Proof.
  induction n as [|n IH]; intros pre post oq fl now Hbp Hrp Hbq Hrq Hbo Hfo Hfl Ha Hn He.
  - cbn [t3_mark]. cbn [skipn] in He.
    repeat split; auto; apply Forall_app; split; try (apply Forall_rev); assumption.
  - cbn [t3_mark]. destruct post as [|c post']; [cbn in Hn; lia|].
    inversion Hbq as [|? ? Hbc Hbq']; subst. inversion Hrq as [|? ? Hrc Hrq']; subst.
    cbn [skipn length] in He, Hn.
    pose proof (maybe_abandon_ok fl pre c post' oq now Hbp Hrp Hbc Hrc Hbq' Hrq' Hbo Hfo Hfl) as Hm.
    destruct (maybe_abandon fl pre c post' oq now) as [[[[[ab fl1] pre1] c1] post1] oq1].
    destruct Hm as (M1 & M2 & M3 & M4 & M5 & M6 & M7 & M8 & M9 & M10 & M11 & M12 & M13 & M14 & M15 & M16 & M17 & M18).
    set (c2 := if ab then c1 else set_flags c1 (c_acked c1) (c_abandoned c1) true (c_misses c1) (c_sent_count c1)).
    assert (Hb2 : bok c2) by (unfold c2; destruct ab; exact M6).
    assert (Hr2 : rxok c2).
    { unfold c2. destruct ab; [exact M7|]. intros _. cbn. destruct (M14 eq_refl) as [E1 E2]. rewrite E1. exact E2. }
    assert (Ha2 : abrx c2).
    { unfold c2. destruct ab; [left; exact (proj1 (M13 eq_refl))|right; reflexivity]. }
    apply IH; auto; try lia.
    rewrite (skipn_firstn_app n (length post') post1) by lia.
    apply Forall_app. split; [|exact M17].
    eapply abrx_keep; [apply Forall2_skipn; exact M16|exact He].
Qed.

(* ---------------------------------------------------------------- SACK: cumulative and gap acks *)
Lemma pop_acked_ok : forall sq cum fl d db, Forall bok sq -> Forall rxok sq -> 0 <= fl <= fsum sq ->
  let '(sq', fl', d', db') := pop_acked sq cum fl d db in
  0 <= fl' <= fsum sq' /\ fl' <= fl /\ Forall bok sq' /\ Forall rxok sq' /\ (Forall abrx sq -> Forall abrx sq') /\ db <= db' /\
  (length sq' <= length sq)%nat.
Proof.
  induction sq as [|c sq IH]; intros cum fl d db Hb Hr Hfl; cbn [pop_acked].
  - repeat split; auto; lia.
  - inversion Hb as [|? ? Hc Hb']; subst. inversion Hr as [|? ? Hrc Hr']; subst.
    rewrite fsum_cons in Hfl. pose proof (w_range c Hc) as Hw. pose proof (fsum_nonneg _ Hb') as Hn.
    destruct (uint32_gte cum (c_tsn c)).
    + destruct (c_acked c) eqn:Ea.
      * assert (w c = 0) by (unfold w, infl; now rewrite Ea).
        assert (Hfl' : 0 <= fl <= fsum sq) by lia.
        specialize (IH cum fl (d + 1) db Hb' Hr' Hfl'). destruct (pop_acked sq cum fl (d + 1) db) as [[[sq' fl'] d'] db'].
        destruct IH as (I1 & I2 & I3 & I4 & I5 & I6 & I7). repeat split; auto; try lia; try (cbn [length]; lia).
        intros A. inversion A; subst. now apply I5.
      * assert (Hfl' : 0 <= dec fl c <= fsum sq) by (unfold dec; lia).
        specialize (IH cum (dec fl c) (d + 1) (db + c_book c) Hb' Hr' Hfl').
        destruct (pop_acked sq cum (dec fl c) (d + 1) (db + c_book c)) as [[[sq' fl'] d'] db'].
        destruct IH as (I1 & I2 & I3 & I4 & I5 & I6 & I7). unfold bok in Hc. repeat split; auto; try lia; try (cbn [length]; lia).
        -- unfold dec in I2. lia.
        -- intros A. inversion A; subst. now apply I5.
    + rewrite fsum_cons. repeat split; auto; lia.
Qed.

Lemma gap_ack_ok : forall sq cum last_pos hs gaps fl db h K, Forall bok sq -> Forall rxok sq ->
  0 <= K -> 0 <= fl <= K + fsum sq ->
  let '(sq', fl', db', h') := gap_ack sq cum last_pos hs gaps fl db h in
  0 <= fl' <= K + fsum sq' /\ fl' <= fl /\ Forall bok sq' /\ Forall rxok sq' /\ (Forall abrx sq -> Forall abrx sq') /\
  length sq' = length sq /\ db <= db'.
Proof.
  induction sq as [|c sq IH]; intros cum last_pos hs gaps fl db h K Hb Hr HK Hfl; cbn [gap_ack].
  - repeat split; auto; lia.
  - inversion Hb as [|? ? Hc Hb']; subst. inversion Hr as [|? ? Hrc Hr']; subst.
    rewrite fsum_cons in Hfl. pose proof (w_range c Hc) as Hw. pose proof (fsum_nonneg _ Hb') as Hn.
    destruct (uint32_gt (c_tsn c) hs).
    { rewrite fsum_cons. repeat split; auto; lia. }
    destruct (in_gaps gaps last_pos (tsn_off cum (c_tsn c)) && negb (c_acked c)).
    + set (c1 := set_flags c true (c_abandoned c) (c_retx c) (c_misses c) (c_sent_count c)).
      assert (Hw1 : w c1 = 0) by reflexivity.
      assert (Hfl' : 0 <= dec fl c <= K + fsum sq) by (unfold dec; lia).
      specialize (IH cum last_pos hs gaps (dec fl c) (db + c_book c) (c_tsn c) K Hb' Hr' HK Hfl').
      destruct (gap_ack sq cum last_pos hs gaps (dec fl c) (db + c_book c) (c_tsn c)) as [[[sq' fl'] db'] h'].
      destruct IH as (I1 & I2 & I3 & I4 & I5 & I6 & I7). rewrite fsum_cons, Hw1.
      assert (Hb1 : bok c1) by exact Hc. assert (Hr1 : rxok c1) by exact Hrc. unfold bok in Hc.
      repeat split; auto; try lia.
      * unfold dec in I2. lia.
      * intros A. inversion A as [|? ? Ac As]; subst. constructor; [exact Ac|now apply I5].
      * cbn [length]. lia.
    + assert (HK' : 0 <= K + w c) by lia.
      assert (Hfl' : 0 <= fl <= (K + w c) + fsum sq) by lia.
      specialize (IH cum last_pos hs gaps fl db h (K + w c) Hb' Hr' HK' Hfl').
      destruct (gap_ack sq cum last_pos hs gaps fl db h) as [[[sq' fl'] db'] h'].
      destruct IH as (I1 & I2 & I3 & I4 & I5 & I6 & I7). rewrite fsum_cons.
      repeat split; auto; try lia.
      * intros A. inversion A as [|? ? Ac As]; subst. constructor; [exact Ac|now apply I5].
      * cbn [length]. lia.
Qed.

(* ---------------------------------------------------------------- _transmit *)
Lemma retx_loop_ok : forall sq fl cw frt earliest t3r, Forall bok sq -> Forall rxok sq ->
  let '(sq', fl', frt', t3r', stop, outs) := retx_loop sq fl cw frt earliest t3r in
  fl' - fl = fsum sq' - fsum sq /\ fl <= fl' /\ Forall bok sq' /\ Forall rxok sq' /\ length sq' = length sq /\
  (t3r = true -> t3r' = true) /\
  (stop = true -> sq' <> []) /\
  (earliest = true -> match sq with c :: _ => c_retx c = true -> (frt = true \/ fl < cw) -> t3r' = true | [] => True end).
Proof.
  induction sq as [|c sq IH]; intros fl cw frt earliest t3r Hb Hr; cbn [retx_loop].
  - repeat split; auto; try lia; discriminate.
  - inversion Hb as [|? ? Hc Hb']; subst. inversion Hr as [|? ? Hrc Hr']; subst.
    destruct (c_retx c) eqn:Er.
    + destruct (negb frt && (cw <=? fl)) eqn:Estop.
      * repeat split; auto; try lia; try discriminate.
        intros _ _ [F|F]; [subst; discriminate|]. apply andb_true_iff in Estop as [_ E]. apply Z.leb_le in E. lia.
      * set (c1 := set_flags c false (c_abandoned c) false 0 (c_sent_count c + 1)).
        assert (Hw : w c = 0) by (unfold w, infl; rewrite Er; now rewrite andb_false_r).
        assert (Hw1 : w c1 = c_book c).
        { unfold w, infl, c1, set_flags. cbn. rewrite (Hrc Er). reflexivity. }
        specialize (IH (fl + c_book c) cw false false (t3r || earliest) Hb' Hr').
        destruct (retx_loop sq (fl + c_book c) cw false false (t3r || earliest)) as [[[[[sq' fl'] frt'] t3r'] stop] outs].
        destruct IH as (I1 & I2 & I3 & I4 & I5 & I6 & I7 & _).
        assert (Hb1 : bok c1) by exact Hc. assert (Hr1 : rxok c1) by (intros X; discriminate X).
        unfold bok in Hc. rewrite !fsum_cons, Hw, Hw1.
        repeat split; auto; try lia; try discriminate.
        -- cbn [length]. lia.
        -- intros ->. apply I6. reflexivity.
        -- intros -> _ _. apply I6. apply orb_true_r.
    + specialize (IH fl cw frt false t3r Hb' Hr').
      destruct (retx_loop sq fl cw frt false t3r) as [[[[[sq' fl'] frt'] t3r'] stop] outs].
      destruct IH as (I1 & I2 & I3 & I4 & I5 & I6 & I7 & _).
      rewrite !fsum_cons. repeat split; auto; try lia; try discriminate; try (cbn [length]; lia); try (intros; congruence).
Qed.

Lemma new_loop_ok : forall oq fl cw, Forall bok oq -> Forall fresh oq ->
  let '(mv, rest, fl', outs) := new_loop oq fl cw in
  fl' = fl + fsum mv /\ Forall bok mv /\ Forall rxok mv /\ Forall bok rest /\ Forall fresh rest /\
  (rest <> [] -> cw <= fl') /\ (oq <> [] -> fl < cw -> mv <> []) /\
  (Forall abrx [] -> True).
Proof.
  induction oq as [|c oq IH]; intros fl cw Hb Hf; cbn [new_loop].
  - rewrite fsum_nil. repeat split; auto; try lia; try constructor; try congruence.
  - inversion Hb as [|? ? Hc Hb']; subst. inversion Hf as [|? ? Hfc Hf']; subst.
    destruct (Z.ltb_spec fl cw) as [Hlt|Hge].
    + set (c1 := set_flags c (c_acked c) (c_abandoned c) (c_retx c) (c_misses c) (c_sent_count c + 1)).
      destruct Hfc as (F1 & F2 & F3).
      assert (Hw1 : w c1 = c_book c) by (unfold w, infl, c1, set_flags; cbn; now rewrite F1, F2, F3).
      specialize (IH (fl + c_book c) cw Hb' Hf').
      destruct (new_loop oq (fl + c_book c) cw) as [[[mv rest] fl'] outs].
      destruct IH as (I1 & I2 & I3 & I4 & I5 & I6 & I7 & _).
      assert (Hb1 : bok c1) by exact Hc. assert (Hr1 : rxok c1) by (intros X; cbn in X; congruence).
      rewrite fsum_cons, Hw1. repeat split; auto; try lia; try discriminate.
    + rewrite fsum_nil. repeat split; auto; try lia; try constructor; try congruence.
Qed.

(* ---------------------------------------------------------------- _update_advanced_peer_ack_point *)
Definition head_live (l : list sc) : Prop := match l with c :: _ => c_abandoned c = false | [] => True end.

Lemma pop_abandoned_ok : forall sq adv strs, Forall bok sq -> Forall rxok sq ->
  let '(sq', adv', strs') := pop_abandoned sq adv strs in
  fsum sq' = fsum sq /\ Forall bok sq' /\ Forall rxok sq' /\ head_live sq' /\ (Forall abrx sq -> Forall abrx sq') /\
  (length sq' <= length sq)%nat.
Proof.
  induction sq as [|c sq IH]; intros adv strs Hb Hr; cbn [pop_abandoned].
  - repeat split; auto.
  - inversion Hb as [|? ? Hc Hb']; subst. inversion Hr as [|? ? Hrc Hr']; subst.
    destruct (c_abandoned c) eqn:Ea.
    + specialize (IH (c_tsn c) (Some (if c_unord c then match strs with Some l => l | None => [] end
                                       else sset match strs with Some l => l | None => [] end (c_sid c) (c_sseq c))) Hb' Hr').
      destruct (pop_abandoned sq _ _) as [[sq' adv'] strs'].
      destruct IH as (I1 & I2 & I3 & I4 & I5 & I6).
      assert (w c = 0) by (unfold w, infl; rewrite Ea; now rewrite andb_false_r).
      rewrite fsum_cons. repeat split; auto; try lia; try (cbn [length]; lia).
      intros A. inversion A; subst. now apply I5.
    + repeat split; auto.
Qed.

Record inv (s : tx) : Prop := mkInv {
  i_bo : Forall bok (outq s);
  i_fo : Forall fresh (outq s);
  i_bs : Forall bok (sentq s);
  i_rs : Forall rxok (sentq s);
  i_cw : MTU <= cwnd s;
  i_fl : 0 <= flight s <= fsum (sentq s);
  i_t3 : sentq s <> [] -> t3 s = true \/
         (pending_tx s = true /\ flight s = 0 /\ Forall abrx (sentq s) /\ head_live (sentq s));
  i_oq : outq s <> [] -> sentq s <> [] \/ pending_tx s = true
}.

(* what _transmit needs and gives *)
Record tpre (s : tx) : Prop := mkTpre {
  p_bo : Forall bok (outq s); p_fo : Forall fresh (outq s);
  p_bs : Forall bok (sentq s); p_rs : Forall rxok (sentq s);
  p_cw : MTU <= cwnd s; p_fl : 0 <= flight s <= fsum (sentq s)
}.

Lemma transmit_ok s : tpre s ->
  let s' := fst (transmit s) in
  tpre s' /\ cwnd s' = cwnd s /\ pending_tx s' = pending_tx s /\
  (t3 s = true -> t3 s' = true) /\
  (fwd_chunk s <> None -> t3 s' = true) /\
  (match sentq s with c :: _ => c_retx c = true /\ flight s = 0 | [] => False end -> t3 s' = true) /\
  (sentq s = [] -> sentq s' <> [] -> t3 s' = true) /\
  (sentq s <> [] -> sentq s' <> []) /\
  (outq s' <> [] -> sentq s' <> []).
Proof.
  intros [Hbo Hfo Hbs Hrs Hcw Hfl]. unfold transmit.
  set (fw := match fwd_chunk s with Some (cum, strs) => ([OFwd cum strs], true) | None => ([], t3 s) end).
  assert (Hfw : (t3 s = true -> snd fw = true) /\ (fwd_chunk s <> None -> snd fw = true)).
  { unfold fw. destruct (fwd_chunk s) as [[cum strs]|]; cbn [snd]; split; auto; congruence. }
  destruct fw as [fwd_out t3a]. cbn [snd] in Hfw. destruct Hfw as [Hfw1 Hfw2].
  set (burst := if match fr_exit s with Some _ => true | None => false end then 2 * MTU else 4 * MTU).
  set (cw := Z.min (flight s + burst) (cwnd s)).
  assert (Hcwpos : MTU <= cw).
  { unfold cw, burst. rewrite MTU_val in *. destruct (match fr_exit s with Some _ => true | None => false end); lia. }
  pose proof (retx_loop_ok (sentq s) (flight s) cw (fr_transmit s) true false Hbs Hrs) as Hr.
  destruct (retx_loop (sentq s) (flight s) cw (fr_transmit s) true false) as [[[[[sq fl] frt] t3r] stop] outs1].
  destruct Hr as (R1 & R2 & R3 & R4 & R5 & R6 & R7 & R8).
  assert (Hhead : match sentq s with c :: _ => c_retx c = true /\ flight s = 0 | [] => False end -> t3r = true).
  { specialize (R8 eq_refl). destruct (sentq s) as [|c rest]; [intros []|]. intros [Hc H0]. apply R8; [exact Hc|].
    right. rewrite H0. rewrite MTU_val in *. lia. }
  assert (Hsq : sentq s <> [] -> sq <> []).
  { intros Hne E. subst sq. cbn [length] in R5. destruct (sentq s); [congruence|cbn in R5; lia]. }
  destruct stop.
  - cbn [fst]. split; [constructor; cbn [outq sentq cwnd flight]; auto; lia|]. cbn [cwnd pending_tx t3 fwd_chunk sentq outq flight].
    repeat split; auto.
    + intros H. rewrite (Hfw1 H). reflexivity.
    + intros H. rewrite (Hfw2 H). reflexivity.
    + intros H. rewrite (Hhead H). apply orb_true_r.
    + intros E Hne. exfalso. rewrite E in R5. destruct sq; [congruence|cbn in R5; lia].
  - pose proof (new_loop_ok (outq s) fl cw Hbo Hfo) as Hn.
    destruct (new_loop (outq s) fl cw) as [[[mv rest] fl2] outs2].
    destruct Hn as (N1 & N2 & N3 & N4 & N5 & N6 & N7 & _).
    cbn [fst].
    assert (Hfs : fsum (sq ++ mv) = fsum sq + fsum mv) by apply fsum_app.
    pose proof (fsum_nonneg _ N2) as Hmv.
    split; [constructor; cbn [outq sentq cwnd flight]; auto; try (apply Forall_app; split; assumption); lia|]. cbn [cwnd pending_tx t3 fwd_chunk sentq outq flight].
    repeat split; auto.
    + intros H. rewrite (Hfw1 H). reflexivity.
    + intros H. rewrite (Hfw2 H). reflexivity.
    + intros H. rewrite (Hhead H). rewrite orb_true_r. reflexivity.
    + intros E Hne. rewrite E in R5. destruct sq; [|cbn in R5; lia]. cbn [app] in Hne.
      destruct mv; [congruence|]. cbn. apply orb_true_r.
    + intros Hne E. apply app_eq_nil in E as [E _]. now apply Hsq.
    + intros Hrest E. apply app_eq_nil in E as [E1 E2]. subst sq mv.
      specialize (N6 Hrest). rewrite fsum_nil in *. cbn [length] in R5.
      rewrite MTU_val in *. lia.
Qed.

Lemma inv_tpre s : inv s -> tpre s.
Proof. intros [A B C D E F _ _]. constructor; assumption. Qed.

Lemma update_adv_ok s : tpre s ->
  let s' := update_adv s in
  tpre s' /\ cwnd s' = cwnd s /\ flight s' = flight s /\ outq s' = outq s /\ t3 s' = t3 s /\
  pending_tx s' = pending_tx s /\ head_live (sentq s') /\ (Forall abrx (sentq s) -> Forall abrx (sentq s')) /\
  (sentq s = [] -> sentq s' = []).
Proof.
  intros [Hbo Hfo Hbs Hrs Hcw Hfl]. unfold update_adv.
  destruct (if uint32_gte (last_sacked s) (adv_ack s) then (last_sacked s, None) else (adv_ack s, fwd_streams s)) as [adv0 strs0].
  pose proof (pop_abandoned_ok (sentq s) adv0 strs0 Hbs Hrs) as Hp.
  destruct (pop_abandoned (sentq s) adv0 strs0) as [[sq adv] strs].
  destruct Hp as (P1 & P2 & P3 & P4 & P5 & P6). cbn [cwnd flight outq t3 pending_tx sentq].
  split; [constructor; cbn [outq sentq cwnd flight]; auto; lia|].
  repeat split; auto. intros E. rewrite E in P6. destruct sq; [reflexivity|cbn in P6; lia].
Qed.

Lemma abrx_head_retx l : Forall abrx l -> head_live l -> match l with c :: _ => c_retx c = true | [] => True end.
Proof.
  destruct l as [|c l]; [auto|]. intros A H. inversion A as [|? ? Ac _]; subst. cbn in H.
  destruct Ac as [X|X]; [congruence|exact X].
Qed.

Lemma inv_of_transmit s (pend : bool) :
  tpre s ->
  (sentq s <> [] -> t3 s = true \/ (flight s = 0 /\ Forall abrx (sentq s) /\ head_live (sentq s))) ->
  let s1 := fst (transmit s) in
  inv (mkTx (cwnd s1) (ssthresh s1) (flight s1) (fr_exit s1) (fr_transmit s1) (fwd_chunk s1) (fwd_streams s1)
            (last_sacked s1) (adv_ack s1) (outq s1) (sentq s1) (pba s1) (t3 s1) pend).
Proof.
  intros Hp Ht. pose proof (transmit_ok s Hp) as H. cbn zeta in H.
  destruct H as ([Hbo Hfo Hbs Hrs Hcw Hfl] & T1 & T2 & T3 & T4 & T5 & T6 & T7 & T8).
  constructor; cbn [outq sentq cwnd flight t3 pending_tx]; auto.
  intros Hne. left.
  destruct (sentq s) as [|c rest] eqn:Es.
  - now apply T6.
  - destruct (Ht ltac:(discriminate)) as [X|(F0 & A & L)]; [now apply T3|].
    apply T5. pose proof (abrx_head_retx _ A L) as R. cbn in R. auto.
Qed.

Lemma inv_pending s p : inv s ->
  (p = false -> (sentq s <> [] -> t3 s = true) /\ (outq s <> [] -> sentq s <> [])) ->
  inv (mkTx (cwnd s) (ssthresh s) (flight s) (fr_exit s) (fr_transmit s) (fwd_chunk s) (fwd_streams s)
            (last_sacked s) (adv_ack s) (outq s) (sentq s) (pba s) (t3 s) p).
Proof.
  intros [A B C D E F G H] Hp. constructor; cbn [outq sentq cwnd flight t3 pending_tx]; auto.
  - intros Hne. destruct p; [|left; now apply (proj1 (Hp eq_refl))].
    destruct (G Hne) as [X|(_ & X2 & X3 & X4)]; [now left|right; auto].
  - intros Hne. destruct p; [now right|left; now apply (proj2 (Hp eq_refl))].
Qed.

Lemma sack_state s cum gaps now :
  inv s -> sack_ignored s cum = false ->
  exists s1, fst (receive_sack s cum gaps now) = fst (transmit s1) /\ tpre s1 /\ pending_tx s1 = pending_tx s /\
    (sentq s1 <> [] -> t3 s1 = true \/ (flight s1 = 0 /\ Forall abrx (sentq s1) /\ head_live (sentq s1))).
Proof.
  intros [Hbo Hfo Hbs Hrs Hcw Hfl Ht3 Hoq] Hgt. unfold receive_sack. rewrite Hgt.
  pose proof (pop_acked_ok (sentq s) cum (flight s) 0 0 Hbs Hrs Hfl) as H1.
  destruct (pop_acked (sentq s) cum (flight s) 0 0) as [[[sq1 fl1] done] db1].
  destruct H1 as (A1 & A2 & A3 & A4 & A5 & A6 & A7).
  set (g := match gaps with
            | [] => (sq1, outq s, fl1, db1, false)
            | _ => let last_pos := match sq1 with [] => 0 | _ => tsn_off cum (last_tsn sq1 0) end in
                   let hs := highest_seen cum last_pos gaps cum in
                   let '(sq2, fl2, db2, htna) := gap_ack sq1 cum last_pos hs gaps fl1 db1 cum in
                   let '(sq3, oq3, fl3, loss) := strike (length sq2) [] sq2 (outq s) cum last_pos htna gaps fl2 false now in
                   (sq3, oq3, fl3, db2, loss)
            end).
  assert (Hg : let '(sq3, oq3, fl3, db3, loss) := g in
               0 <= fl3 <= fsum sq3 /\ fl3 <= fl1 /\ Forall bok sq3 /\ Forall rxok sq3 /\ Forall bok oq3 /\ Forall fresh oq3 /\
               (Forall abrx sq1 -> Forall abrx sq3) /\ 0 <= db3 /\ (sq1 = [] -> sq3 = [])).
  { unfold g. destruct gaps as [|g0 gaps'].
    - repeat split; auto; lia.
    - set (last_pos := match sq1 with [] => 0 | _ => tsn_off cum (last_tsn sq1 0) end).
      set (hs := highest_seen cum last_pos (g0 :: gaps') cum).
      assert (A1' : 0 <= fl1 <= 0 + fsum sq1) by lia.
      pose proof (gap_ack_ok sq1 cum last_pos hs (g0 :: gaps') fl1 db1 cum 0 A3 A4 ltac:(lia) A1') as H2.
      destruct (gap_ack sq1 cum last_pos hs (g0 :: gaps') fl1 db1 cum) as [[[sq2 fl2] db2] htna] eqn:Eg.
      destruct H2 as (B1 & B2 & B3 & B4 & B5 & B6 & B7).
      assert (B1' : 0 <= fl2 <= fsum [] + fsum sq2) by (rewrite fsum_nil; lia).
      pose proof (strike_ok (length sq2) [] sq2 (outq s) cum last_pos htna (g0 :: gaps') fl2 false now
                            (Forall_nil _) (Forall_nil _) B3 B4 Hbo Hfo B1') as H3.
      destruct (strike (length sq2) [] sq2 (outq s) cum last_pos htna (g0 :: gaps') fl2 false now) as [[[sq3 oq3] fl3] loss] eqn:Es.
      destruct H3 as (C1 & C2 & C3 & C4 & C5 & C6 & C7).
      assert (X1 : Forall abrx sq1 -> Forall abrx sq3) by (intros A; apply C6; [constructor|now apply B5]).
      assert (X2 : sq1 = [] -> sq3 = []).
      { intros E. subst sq1. cbn [length] in B6. destruct sq2; [|cbn in B6; lia].
        cbn [length strike rev app] in Es. now injection Es as <- _ _ _. }
      repeat split; auto; lia. }
  destruct g as [[[[sq3 oq3] fl3] db3] loss].
  destruct Hg as (G1 & G2 & G3 & G4 & G5 & G6 & G7 & G8 & G9).
  set (cc := match fr_exit s with
             | None =>
                 let '(cw1, pb1) :=
                   if negb (done =? 0) && (cwnd s <=? flight s) then
                     if cwnd s <=? ssthresh s then (cwnd s + Z.min db3 MTU, pba s)
                     else let pb := pba s + db3 in if cwnd s <=? pb then (cwnd s + MTU, pb - cwnd s) else (cwnd s, pb)
                   else (cwnd s, pba s) in
                 if loss then let ss := Z.max (cw1 / 2) (4 * MTU) in (ss, ss, 0, Some (last_tsn sq3 0), true)
                 else (cw1, ssthresh s, pb1, None, fr_transmit s)
             | Some e => (cwnd s, ssthresh s, pba s, if uint32_gte cum e then None else Some e, fr_transmit s)
             end).
  assert (Hcc : MTU <= fst (fst (fst (fst cc)))).
  { unfold cc. rewrite MTU_val in *. destruct (fr_exit s); [cbn; lia|].
    destruct (negb (done =? 0) && (cwnd s <=? flight s)).
    - destruct (cwnd s <=? ssthresh s).
      + destruct loss; cbn [fst]; lia.
      + destruct (cwnd s <=? pba s + db3); destruct loss; cbn [fst]; lia.
    - destruct loss; cbn [fst]; lia. }
  destruct cc as [[[[cw ss] pb] fre] frt]. cbn [fst] in Hcc.
  set (t3' := match sq3 with [] => false | _ => if done =? 0 then t3 s else true end).
  set (s0 := mkTx cw ss fl3 fre frt (fwd_chunk s) (fwd_streams s) cum (adv_ack s) oq3 sq3 pb t3' (pending_tx s)).
  assert (Hp0 : tpre s0) by (constructor; cbn [outq sentq cwnd flight s0]; auto).
  pose proof (update_adv_ok s0 Hp0) as (U1 & U2 & U3 & U4 & U5 & U6 & U7 & U8 & U9). cbn zeta in *.
  exists (update_adv s0). split; [reflexivity|]. split; [exact U1|]. split; [rewrite U6; reflexivity|].
  intros Hne. rewrite U5, U3. cbn [t3 flight s0].
  assert (Hsq3 : sq3 <> []) by (intros E; apply Hne; apply U9; exact E).
  assert (Hsq1 : sq1 <> []) by (intros E; apply Hsq3; now apply G9).
  assert (Hs : sentq s <> []) by (intros E; rewrite E in A7; destruct sq1; [congruence|cbn in A7; lia]).
  destruct (Ht3 Hs) as [X|(_ & X2 & X3 & X4)].
  - left. unfold t3'. destruct sq3; [congruence|]. rewrite X. now destruct (done =? 0).
  - right. split; [lia|]. split; [|exact U7]. apply U8. cbn [sentq s0]. apply G7. now apply A5.
Qed.

Theorem step_inv s i :
  inv s -> match i with ISendMsg cs => Forall bok cs /\ Forall fresh cs | _ => True end -> inv (fst (step s i)).
Proof.
  intros Hinv Hwf. pose proof (inv_tpre s Hinv) as Hp.
  assert (Hstate : sentq s <> [] -> t3 s = true \/ (flight s = 0 /\ Forall abrx (sentq s) /\ head_live (sentq s))).
  { intros Hne. destruct (i_t3 s Hinv Hne) as [X|(_ & B & C & D)]; auto. }
  destruct i as [cs|cum gaps now|now|]; cbn [step].
  - (* _send *)
    destruct Hwf as [Hbc Hfc]. unfold send.
    set (s0 := with_q s (flight s) (outq s ++ cs) (sentq s)).
    assert (Hp0 : tpre s0).
    { destruct Hp. constructor; cbn [outq sentq cwnd flight s0 with_q]; auto; apply Forall_app; split; assumption. }
    pose proof (inv_of_transmit s0 (pending_tx s) Hp0 Hstate) as H. cbn zeta in H.
    pose proof (transmit_ok s0 Hp0) as (_ & _ & Epend & _). cbn zeta in Epend. cbn [pending_tx s0 with_q] in Epend.
    destruct (fst (transmit s0)) as [a b c d e f g h i j k l m n]. cbn [pending_tx] in *. subst n. exact H.
  - (* _receive_sack_chunk *)
    destruct (sack_ignored s cum) eqn:Egt.
    { unfold receive_sack. rewrite Egt. exact Hinv. }
    destruct (sack_state s cum gaps now Hinv Egt) as (s1 & E1 & P1 & Q1 & R1). rewrite E1.
    pose proof (inv_of_transmit s1 (pending_tx s) P1 R1) as H. cbn zeta in H.
    pose proof (transmit_ok s1 P1) as (_ & _ & Epend & _). cbn zeta in Epend. rewrite Q1 in Epend.
    destruct (fst (transmit s1)) as [a b c d e f g h i j k l m n]. cbn [pending_tx] in *. subst n. exact H.
  - (* T3 *)
    destruct (t3 s); [|exact Hinv]. unfold t3_expired.
    destruct Hinv as [Hbo Hfo Hbs Hrs Hcw Hfl Ht3 Hoq].
    pose proof (t3_mark_ok (length (sentq s)) [] (sentq s) (outq s) (flight s) now (Forall_nil _) (Forall_nil _)
                           Hbs Hrs Hbo Hfo ltac:(lia) (Forall_nil _) ltac:(lia)) as Hm.
    rewrite skipn_all in Hm. specialize (Hm (Forall_nil _)).
    destruct (t3_mark (length (sentq s)) [] (sentq s) (outq s) (flight s) now) as [[sq oq] fl].
    destruct Hm as (M1 & M2 & M3 & M4 & M5).
    set (s0 := mkTx (cwnd s) (ssthresh s) (fsum sq) (fr_exit s) (fr_transmit s) (fwd_chunk s) (fwd_streams s)
                    (last_sacked s) (adv_ack s) oq sq (pba s) false (pending_tx s)).
    (* update_adv does not look at the flight size: run the lemma on a copy whose flight is harmless *)
    pose proof (fsum_nonneg _ M1) as Hn.
    assert (Hp0 : tpre s0) by (constructor; cbn [outq sentq cwnd flight s0]; auto; lia).
    pose proof (update_adv_ok s0 Hp0) as (U1 & U2 & U3 & U4 & U5 & U6 & U7 & U8 & U9). cbn zeta in *.
    assert (Esame : forall f, sentq (update_adv (mkTx (cwnd s) (ssthresh s) f (fr_exit s) (fr_transmit s) (fwd_chunk s)
                       (fwd_streams s) (last_sacked s) (adv_ack s) oq sq (pba s) false (pending_tx s))) = sentq (update_adv s0)
                     /\ outq (update_adv (mkTx (cwnd s) (ssthresh s) f (fr_exit s) (fr_transmit s) (fwd_chunk s)
                       (fwd_streams s) (last_sacked s) (adv_ack s) oq sq (pba s) false (pending_tx s))) = outq (update_adv s0)).
    { intros f. unfold update_adv, s0. cbn [last_sacked adv_ack fwd_streams sentq outq].
      destruct (if uint32_gte (last_sacked s) (adv_ack s) then _ else _) as [adv0 strs0].
      destruct (pop_abandoned sq adv0 strs0) as [[q a] st]. cbn. split; reflexivity. }
    destruct (Esame fl) as [Es Eo]. destruct U1 as [V1 V2 V3 V4 V5 V6].
    cbn [fst]. constructor; cbn [outq sentq cwnd flight t3 pending_tx]; rewrite ?Es, ?Eo; auto.
    + rewrite MTU_val. lia.
    + pose proof (fsum_nonneg _ V3). lia.
    + intros _. right. repeat split; auto; try (apply U8; exact M5).
  - (* deferred _transmit *)
    rewrite (surjective_pairing (transmit s)). cbn [fst].
    pose proof (inv_of_transmit s false Hp Hstate) as H. exact H.
Qed.

Definition wf_input (i : input) : Prop :=
  match i with ISendMsg cs => Forall bok cs /\ Forall fresh cs | _ => True end.

Lemma run_cons s i is :
  run s (i :: is) = (fst (run (fst (step s i)) is), snd (step s i) :: snd (run (fst (step s i)) is)).
Proof.
  cbn [run]. destruct (step s i) as [s1 e]. cbn [fst snd]. destruct (run s1 is) as [s2 es]. reflexivity.
Qed.

Theorem run_inv : forall is s, inv s -> Forall wf_input is -> inv (fst (run s is)).
Proof.
  induction is as [|i is IH]; intros s Hinv Hwf; [exact Hinv|].
  rewrite run_cons. cbn [fst]. inversion Hwf; subst. apply IH; [now apply step_inv|assumption].
Qed.

Lemma inv_init t rw : inv (init t rw).
Proof.
  constructor; cbn; try constructor; try lia; try congruence. rewrite MTU_val. lia.
Qed.
