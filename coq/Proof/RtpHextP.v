(* Proofs about Model/Rtp.v, part 2: HeaderExtensionsMap.get (set v) = v. *)
From Coq Require Import ZArith List Bool Lia.
From AV Require Import Lib.Bytes Lib.BytesP Lib.RtpX Gen.RtpConst Model.Rtp Proof.RtpBitsP Proof.RtpP.
Import ListNotations.
Local Open Scope Z_scope.

Ltac Zify.zify_post_hook ::= Z.to_euclidean_division_equations.

(* ================================================================ the id table *)
Inductive kind := Kmid | Krrid | Krid | Kabs | Ktoff | Kaudio | Ktsn.

Definition kind_id (m : ids) (k : kind) : option Z :=
  match k with
  | Kmid => id_mid m | Krrid => id_rrid m | Krid => id_rid m | Kabs => id_abs m
  | Ktoff => id_toffset m | Kaudio => id_audio m | Ktsn => id_tsn m
  end.

(* configured ids are in 1..255 and pairwise distinct *)
Definition ids_ok (m : ids) : Prop :=
  (forall k i, kind_id m k = Some i -> 1 <= i <= 255) /\
  (forall k1 k2 i, kind_id m k1 = Some i -> kind_id m k2 = Some i -> k1 = k2).

Definition present {T} (o : option T) (id : option Z) (P : T -> Prop) : Prop :=
  match o with None => True | Some x => id <> None /\ P x end.

Definition text_ok (valid : bytes -> bool) (s : bytes) : Prop :=
  valid s = true /\ bytes_ok s /\ (length s <= 255)%nat.

(* every value that is present has a configured id and is in its wire range *)
Definition wf_hext (m : ids) (v : hext) : Prop :=
  present (mid v) (id_mid m) (text_ok utf8_valid) /\
  present (rrid v) (id_rrid m) (text_ok ascii_valid) /\
  present (rid v) (id_rid m) (text_ok ascii_valid) /\
  present (abs_send_time v) (id_abs m) (fun x => 0 <= x < 16777216) /\
  present (toffset v) (id_toffset m) (fun x => -8388608 <= x < 8388608) /\
  present (audio_level v) (id_audio m) (fun a => 0 <= snd a < 128) /\
  present (tsn v) (id_tsn m) (fun x => 0 <= x < 65536).

Ltac kinds m :=
  change (id_mid m) with (kind_id m Kmid) in *;
  change (id_rrid m) with (kind_id m Krrid) in *;
  change (id_rid m) with (kind_id m Krid) in *;
  change (id_abs m) with (kind_id m Kabs) in *;
  change (id_toffset m) with (kind_id m Ktoff) in *;
  change (id_audio m) with (kind_id m Kaudio) in *;
  change (id_tsn m) with (kind_id m Ktsn) in *.

Lemma ideq_same m k i : kind_id m k = Some i -> ideq (kind_id m k) i = true.
Proof. intros ->. cbn [ideq]. apply Z.eqb_refl. Qed.

Lemma ideq_other m k1 k2 i :
  ids_ok m -> kind_id m k2 = Some i -> k1 <> k2 -> ideq (kind_id m k1) i = false.
Proof.
  intros [_ Hd] H2 Hne. destruct (kind_id m k1) as [j|] eqn:E1; cbn [ideq]; [|reflexivity].
  destruct (Z.eqb_spec j i) as [->|]; [|reflexivity]. exfalso. apply Hne. eapply Hd; eauto.
Qed.

Lemma idset_ok m k i : ids_ok m -> kind_id m k = Some i -> idset (kind_id m k) = Some i.
Proof.
  intros [Hr _] H. rewrite H. cbn [idset]. specialize (Hr k i H).
  destruct (Z.eqb_spec i 0); [lia|reflexivity].
Qed.

Lemma get_fold_app m : forall a b acc,
  get_fold m acc (a ++ b) = (do acc' <- get_fold m acc a; get_fold m acc' b).
Proof.
  induction a as [|x a IH]; intros b acc; cbn [app get_fold bind]; [reflexivity|].
  destruct (get_step m acc x); cbn [bind]; auto.
Qed.

(* ================================================================ one kind at a time *)
Definition keep {T} (o old : option T) : option T :=
  match o with Some x => Some x | None => old end.

Lemma keep_none {T} (o : option T) : keep o None = o.
Proof. now destruct o. Qed.

Ltac absent acc := intros _ _; exists []; cbn [opt_ext length get_fold keep];
               repeat split; [constructor|lia|now destruct acc].

Lemma land128 : forall b, 0 <= b < 256 -> (Z.land b 128 =? (if b <? 128 then 0 else 128)) = true.
Proof. byte_fact. Qed.

Lemma el_mid m acc o :
  ids_ok m -> present o (id_mid m) (text_ok utf8_valid) ->
  exists e, opt_ext o (id_mid m) enc_utf8 = Ok e /\ Forall wf_ext e /\ (length e <= 1)%nat /\
    get_fold m acc e = Ok (mkHext (abs_send_time acc) (audio_level acc) (keep o (mid acc)) (rrid acc)
                                  (rid acc) (toffset acc) (tsn acc)).
Proof.
  destruct o as [s|]; cbn [present]; [|absent acc].
  intros Hok [Hid (Hv & Hb & Hl)]. kinds m.
  destruct (kind_id m Kmid) as [i|] eqn:Ei; [|congruence].
  assert (Hr := proj1 Hok Kmid i Ei).
  exists [(i, s)]. unfold opt_ext. rewrite <- Ei at 1. rewrite (idset_ok m Kmid i Hok Ei).
  cbn [enc_utf8 bind]. split; [reflexivity|]. split.
  { constructor; [|constructor]. unfold wf_ext. cbn [fst snd]. auto. }
  split; [cbn; lia|].
  cbn [get_fold]. unfold get_step. kinds m.
  rewrite (ideq_same m Kmid i Ei). rewrite Hv. reflexivity.
Qed.

Lemma ascii_text_wf i s : 1 <= i <= 255 -> text_ok ascii_valid s -> Forall wf_ext [(i, s)].
Proof.
  intros Hi (_ & Hb & Hl). constructor; [|constructor]. unfold wf_ext. cbn [fst snd]. auto.
Qed.

Lemma el_rrid m acc o :
  ids_ok m -> present o (id_rrid m) (text_ok ascii_valid) ->
  exists e, opt_ext o (id_rrid m) enc_ascii = Ok e /\ Forall wf_ext e /\ (length e <= 1)%nat /\
    get_fold m acc e = Ok (mkHext (abs_send_time acc) (audio_level acc) (mid acc) (keep o (rrid acc))
                                  (rid acc) (toffset acc) (tsn acc)).
Proof.
  destruct o as [s|]; cbn [present]; [|absent acc].
  intros Hok [Hid Ht]. assert (Hv := proj1 Ht). kinds m.
  destruct (kind_id m Krrid) as [i|] eqn:Ei; [|congruence].
  assert (Hr := proj1 Hok Krrid i Ei).
  exists [(i, s)]. unfold opt_ext. rewrite <- Ei at 1. rewrite (idset_ok m Krrid i Hok Ei).
  unfold enc_ascii. rewrite Hv. cbn [bind]. split; [reflexivity|].
  split; [now apply ascii_text_wf|]. split; [cbn; lia|].
  cbn [get_fold]. unfold get_step. kinds m.
  rewrite (ideq_other m Kmid Krrid i Hok Ei) by discriminate.
  rewrite (ideq_same m Krrid i Ei). rewrite Hv. reflexivity.
Qed.

Lemma el_rid m acc o :
  ids_ok m -> present o (id_rid m) (text_ok ascii_valid) ->
  exists e, opt_ext o (id_rid m) enc_ascii = Ok e /\ Forall wf_ext e /\ (length e <= 1)%nat /\
    get_fold m acc e = Ok (mkHext (abs_send_time acc) (audio_level acc) (mid acc) (rrid acc)
                                  (keep o (rid acc)) (toffset acc) (tsn acc)).
Proof.
  destruct o as [s|]; cbn [present]; [|absent acc].
  intros Hok [Hid Ht]. assert (Hv := proj1 Ht). kinds m.
  destruct (kind_id m Krid) as [i|] eqn:Ei; [|congruence].
  assert (Hr := proj1 Hok Krid i Ei).
  exists [(i, s)]. unfold opt_ext. rewrite <- Ei at 1. rewrite (idset_ok m Krid i Hok Ei).
  unfold enc_ascii. rewrite Hv. cbn [bind]. split; [reflexivity|].
  split; [now apply ascii_text_wf|]. split; [cbn; lia|].
  cbn [get_fold]. unfold get_step. kinds m.
  rewrite (ideq_other m Kmid Krid i Hok Ei) by discriminate.
  rewrite (ideq_other m Krrid Krid i Hok Ei) by discriminate.
  rewrite (ideq_same m Krid i Ei). rewrite Hv. reflexivity.
Qed.

Lemma wf_ext_bytes i b : 1 <= i <= 255 -> bytes_ok b -> (length b <= 255)%nat -> Forall wf_ext [(i, b)].
Proof. intros. constructor; [|constructor]. unfold wf_ext. cbn [fst snd]. auto. Qed.

Lemma el_abs m acc o :
  ids_ok m -> present o (id_abs m) (fun x => 0 <= x < 16777216) ->
  exists e, opt_ext o (id_abs m) enc_abs = Ok e /\ Forall wf_ext e /\ (length e <= 1)%nat /\
    get_fold m acc e = Ok (mkHext (keep o (abs_send_time acc)) (audio_level acc) (mid acc) (rrid acc)
                                  (rid acc) (toffset acc) (tsn acc)).
Proof.
  destruct o as [x|]; cbn [present]; [|absent acc].
  intros Hok [Hid Hx]. kinds m.
  destruct (kind_id m Kabs) as [i|] eqn:Ei; [|congruence].
  assert (Hr := proj1 Hok Kabs i Ei).
  exists [(i, be24 x)]. unfold opt_ext. rewrite <- Ei at 1. rewrite (idset_ok m Kabs i Hok Ei).
  unfold enc_abs. rewrite u32ok_intro by lia. cbn [bind]. split; [reflexivity|].
  split; [apply wf_ext_bytes; [lia|apply be24_ok|cbn; lia]|]. split; [cbn; lia|].
  cbn [get_fold]. unfold get_step. kinds m.
  rewrite (ideq_other m Kmid Kabs i Hok Ei) by discriminate.
  rewrite (ideq_other m Krrid Kabs i Hok Ei) by discriminate.
  rewrite (ideq_other m Krid Kabs i Hok Ei) by discriminate.
  rewrite (ideq_same m Kabs i Ei). cbn [length be24 Nat.eqb andb].
  rewrite <- (app_nil_r (be24 x)), u24_be24 by lia. reflexivity.
Qed.

Lemma el_toffset m acc o :
  ids_ok m -> present o (id_toffset m) (fun x => -8388608 <= x < 8388608) ->
  exists e, opt_ext o (id_toffset m) enc_toffset = Ok e /\ Forall wf_ext e /\ (length e <= 1)%nat /\
    get_fold m acc e = Ok (mkHext (abs_send_time acc) (audio_level acc) (mid acc) (rrid acc)
                                  (rid acc) (keep o (toffset acc)) (tsn acc)).
Proof.
  destruct o as [x|]; cbn [present]; [|absent acc].
  intros Hok [Hid Hx]. kinds m.
  destruct (kind_id m Ktoff) as [i|] eqn:Ei; [|congruence].
  assert (Hr := proj1 Hok Ktoff i Ei).
  exists [(i, be24 x)]. unfold opt_ext. rewrite <- Ei at 1. rewrite (idset_ok m Ktoff i Hok Ei).
  unfold enc_toffset. rewrite Z.shiftl_mul_pow2 by lia. change (2 ^ 8) with 256.
  rewrite i32ok_intro by lia. cbn [bind]. split; [reflexivity|].
  split; [apply wf_ext_bytes; [lia|apply be24_ok|cbn; lia]|]. split; [cbn; lia|].
  cbn [get_fold]. unfold get_step. kinds m.
  rewrite (ideq_other m Kmid Ktoff i Hok Ei) by discriminate.
  rewrite (ideq_other m Krrid Ktoff i Hok Ei) by discriminate.
  rewrite (ideq_other m Krid Ktoff i Hok Ei) by discriminate.
  rewrite (ideq_other m Kabs Ktoff i Hok Ei) by discriminate.
  rewrite (ideq_same m Ktoff i Ei). cbn [andb length be24 Nat.eqb u24 u16 u8 nth_error bind get_fold].
  f_equal. f_equal. cbn [keep]. f_equal.
  destruct (Z.ltb_spec (((x / 65536) mod 256) * 65536 + (((x / 256) mod 256) * 256 + x mod 256)) 8388608); lia.
Qed.

Lemma el_audio m acc o :
  ids_ok m -> present o (id_audio m) (fun a => 0 <= snd a < 128) ->
  exists e, opt_ext o (id_audio m) enc_audio = Ok e /\ Forall wf_ext e /\ (length e <= 1)%nat /\
    get_fold m acc e = Ok (mkHext (abs_send_time acc) (keep o (audio_level acc)) (mid acc) (rrid acc)
                                  (rid acc) (toffset acc) (tsn acc)).
Proof.
  destruct o as [[vad level]|]; cbn [present]; [|absent acc]. cbn [snd].
  intros Hok [Hid Hx]. kinds m.
  destruct (kind_id m Kaudio) as [i|] eqn:Ei; [|congruence].
  assert (Hr := proj1 Hok Kaudio i Ei).
  assert (Hbyte : Z.lor (if vad then 128 else 0) (Z.land level 127) = (if vad then 128 else 0) + level).
  { rewrite land_127. replace (level mod 128) with level by lia.
    destruct vad; [|now rewrite Z.lor_0_l].
    apply (lor_add 128 level 7); [lia|change (2 ^ 7) with 128; lia|reflexivity]. }
  eexists. unfold opt_ext. rewrite <- Ei at 1. rewrite (idset_ok m Kaudio i Hok Ei).
  unfold enc_audio. cbn [fst snd bind]. rewrite Hbyte. split; [reflexivity|].
  split; [apply wf_ext_bytes; [lia|apply be8_ok|cbn; lia]|]. split; [cbn; lia|].
  cbn [get_fold]. unfold get_step. kinds m.
  rewrite (ideq_other m Kmid Kaudio i Hok Ei) by discriminate.
  rewrite (ideq_other m Krrid Kaudio i Hok Ei) by discriminate.
  rewrite (ideq_other m Krid Kaudio i Hok Ei) by discriminate.
  rewrite (ideq_other m Kabs Kaudio i Hok Ei) by discriminate.
  rewrite (ideq_other m Ktoff Kaudio i Hok Ei) by discriminate.
  rewrite (ideq_same m Kaudio i Ei). cbn [andb length be8 Nat.eqb u8 nth_error bind get_fold].
  set (b := ((if vad then 128 else 0) + level) mod 256).
  assert (Hb : b = (if vad then 128 else 0) + level) by (unfold b; destruct vad; lia).
  assert (E := land128 b ltac:(destruct vad; lia)). apply Z.eqb_eq in E. rewrite E, land_127.
  f_equal. f_equal. cbn [keep]. f_equal. rewrite Hb.
  destruct vad.
  - destruct (Z.ltb_spec (128 + level) 128); [lia|]. f_equal. lia.
  - destruct (Z.ltb_spec (0 + level) 128); [|lia]. f_equal. lia.
Qed.

Lemma el_tsn m acc o :
  ids_ok m -> present o (id_tsn m) (fun x => 0 <= x < 65536) ->
  exists e, opt_ext o (id_tsn m) enc_tsn = Ok e /\ Forall wf_ext e /\ (length e <= 1)%nat /\
    get_fold m acc e = Ok (mkHext (abs_send_time acc) (audio_level acc) (mid acc) (rrid acc)
                                  (rid acc) (toffset acc) (keep o (tsn acc))).
Proof.
  destruct o as [x|]; cbn [present]; [|absent acc].
  intros Hok [Hid Hx]. kinds m.
  destruct (kind_id m Ktsn) as [i|] eqn:Ei; [|congruence].
  assert (Hr := proj1 Hok Ktsn i Ei).
  exists [(i, be16 x)]. unfold opt_ext. rewrite <- Ei at 1. rewrite (idset_ok m Ktsn i Hok Ei).
  unfold enc_tsn. rewrite u16ok_intro by lia. cbn [bind]. split; [reflexivity|].
  split; [apply wf_ext_bytes; [lia|apply be16_ok|cbn; lia]|]. split; [cbn; lia|].
  cbn [get_fold]. unfold get_step. kinds m.
  rewrite (ideq_other m Kmid Ktsn i Hok Ei) by discriminate.
  rewrite (ideq_other m Krrid Ktsn i Hok Ei) by discriminate.
  rewrite (ideq_other m Krid Ktsn i Hok Ei) by discriminate.
  rewrite (ideq_other m Kabs Ktsn i Hok Ei) by discriminate.
  rewrite (ideq_other m Ktoff Ktsn i Hok Ei) by discriminate.
  rewrite (ideq_other m Kaudio Ktsn i Hok Ei) by discriminate.
  rewrite (ideq_same m Ktsn i Ei). cbn [andb length be16 Nat.eqb].
  rewrite <- (app_nil_r (be16 x)), u16_be16 by lia. reflexivity.
Qed.

(* ================================================================ all seven *)
Theorem hext_elements_get m v :
  ids_ok m -> wf_hext m v ->
  exists xs, hext_elements m v = Ok xs /\ Forall wf_ext xs /\ (length xs <= 7)%nat /\
             get_fold m hext_empty xs = Ok v.
Proof.
  intros Hok (H1 & H2 & H3 & H4 & H5 & H6 & H7).
  unfold hext_elements.
  destruct (el_mid m hext_empty _ Hok H1) as (e1 & E1 & W1 & L1 & G1). rewrite E1. cbn [bind].
  unfold hext_empty in G1. cbn [abs_send_time audio_level mid rrid rid toffset tsn] in G1.
  match type of G1 with _ = Ok ?a =>
    destruct (el_rrid m a _ Hok H2) as (e2 & E2 & W2 & L2 & G2) end. rewrite E2. cbn [bind].
  cbn [abs_send_time audio_level mid rrid rid toffset tsn] in G2.
  match type of G2 with _ = Ok ?a =>
    destruct (el_rid m a _ Hok H3) as (e3 & E3 & W3 & L3 & G3) end. rewrite E3. cbn [bind].
  cbn [abs_send_time audio_level mid rrid rid toffset tsn] in G3.
  match type of G3 with _ = Ok ?a =>
    destruct (el_abs m a _ Hok H4) as (e4 & E4 & W4 & L4 & G4) end. rewrite E4. cbn [bind].
  cbn [abs_send_time audio_level mid rrid rid toffset tsn] in G4.
  match type of G4 with _ = Ok ?a =>
    destruct (el_toffset m a _ Hok H5) as (e5 & E5 & W5 & L5 & G5) end. rewrite E5. cbn [bind].
  cbn [abs_send_time audio_level mid rrid rid toffset tsn] in G5.
  match type of G5 with _ = Ok ?a =>
    destruct (el_audio m a _ Hok H6) as (e6 & E6 & W6 & L6 & G6) end. rewrite E6. cbn [bind].
  cbn [abs_send_time audio_level mid rrid rid toffset tsn] in G6.
  match type of G6 with _ = Ok ?a =>
    destruct (el_tsn m a _ Hok H7) as (e7 & E7 & W7 & L7 & G7) end. rewrite E7. cbn [bind].
  cbn [abs_send_time audio_level mid rrid rid toffset tsn] in G7.
  eexists. split; [reflexivity|]. split.
  { repeat (apply Forall_app; split); assumption. }
  split; [rewrite !app_length; lia|].
  unfold hext_empty. rewrite get_fold_app, G1. cbn [bind]. rewrite get_fold_app, G2. cbn [bind].
  rewrite get_fold_app, G3. cbn [bind]. rewrite get_fold_app, G4. cbn [bind].
  rewrite get_fold_app, G5. cbn [bind]. rewrite get_fold_app, G6. cbn [bind]. rewrite G7.
  rewrite !keep_none. now destruct v.
Qed.

(* get (set v) = v, through the wire form *)
Theorem hext_get_set m v :
  ids_ok m -> wf_hext m v ->
  exists profile value,
    hext_set m v = Ok (profile, value) /\ hext_get m profile value = Ok v /\
    bytes_ok value /\ len value mod 4 = 0 /\ (length value <= 1802)%nat /\ 0 <= profile < 65536.
Proof.
  intros Hok Hwf. destruct (hext_elements_get m v Hok Hwf) as (xs & Hx & Hw & Hl & Hg).
  destruct (hdrext_pack_unpack xs Hw) as (profile & value & Hp & Hu & Hb & Hm & Hlen & _ & _ & _ & Hpr).
  exists profile, value. unfold hext_set, hext_get. rewrite Hx. cbn [bind]. rewrite Hp, Hu. cbn [bind].
  repeat split; try assumption; lia.
Qed.
