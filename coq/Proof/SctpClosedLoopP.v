(* C02: the closed loop of sender and receiver in the fault-free suffix.  From ANY reachable
   sender state and a receiver that has received everything before the outstanding chunks:
   the outstanding chunks arrive in order, the receiver answers with the SACK its model
   computes, the sender processes that SACK and runs its pending transmit task, and so on -
   within 2 * (outstanding + queued) such rounds the sender is quiescent (nothing outstanding,
   nothing queued, flight size 0) and the receiver has cumulatively received every TSN that was
   outstanding or queued. *)
From Coq Require Import ZArith List Bool Lia ZifyBool.
From AV Require Import Lib.Bytes Gen.Utils Gen.SctpConst Model.SctpRecv Model.SctpTx Proof.SctpC01P Proof.SctpDupP Proof.SctpTxP
  Proof.SctpTxLiveP Proof.SctpLoopP.
Import ListNotations.
Local Open Scope Z_scope.

Ltac Zify.zify_post_hook ::= Z.to_euclidean_division_equations.

Section Loop.
Variable base N : Z.
Hypothesis Hbase : r32 base.
Hypothesis HN : 0 <= N < 2147483648.

Notation offb := (off base).
Notation inwb := (inw base N).
Notation ord := (ord base N).
Notation floor := SctpTxLiveP.floor.

(* the acknowledgement of everything outstanding leaves the sender's floor exactly there *)
Lemma sack_all_floor s now : ord s -> sentq s <> [] ->
  floor (fst (receive_sack s (highest_assigned s) [] now)) = highest_assigned s.
Proof.
  intros O Hne. destruct (hs_off base N Hbase HN s O) as [Hh Eh]. pose proof O as [Hl Ha Hs Ht].
  destruct (floor_off base N Hbase HN s Hl Ha) as [Hf Ef].
  set (cum := highest_assigned s) in *.
  assert (Hni : sack_ignored s cum = false).
  { unfold sack_ignored. apply orb_false_iff. split.
    - destruct (uint32_gt (last_sacked s) cum) eqn:G; [|reflexivity].
      apply (gt_off base N Hbase HN _ _ Hl Hh) in G. lia.
    - apply negb_false_iff. unfold uint32_gte. now rewrite Z.eqb_refl. }
  unfold receive_sack. rewrite Hni.
  destruct (pop_acked_split (sentq s) cum (flight s) 0 0) as (pre & Esq & Fpre & Hhead).
  destruct (pop_acked (sentq s) cum (flight s) 0 0) as [[[sq1 fl1] done] db1]. cbn [fst] in Esq, Hhead.
  (* everything outstanding is acknowledged *)
  assert (Hsq1 : sq1 = []).
  { destruct sq1 as [|c sq1']; [reflexivity|exfalso].
    unfold qs in Hs. rewrite Esq, <- app_assoc, tsns_app in Hs. apply (seqfrom_app base N HN) in Hs as [_ Hs2].
    cbn [tsns map app seqfrom] in Hs2. destruct Hs2 as (Hr & Ho & _). rewrite tsns_length in Ho.
    rewrite Esq, app_length in Eh. cbn [length] in Eh.
    assert (Hic : inwb (c_tsn c)).
    { split; [exact Hr|]. unfold qs in Ht. rewrite Esq, <- app_assoc, !app_length in Ht. cbn [length] in Ht. lia. }
    assert (G : uint32_gte cum (c_tsn c) = true) by (apply (gte_off base N Hbase HN _ _ Hh Hic); lia).
    congruence. }
  subst sq1.
  destruct (match fr_exit s with None => _ | Some e => _ end) as [[[[cw ss] pb] fre] frt].
  set (s1 := mkTx cw ss fl1 fre frt (fwd_chunk s) (fwd_streams s) cum (adv_ack s) (outq s) [] pb false (pending_tx s)).
  assert (Ef3 : floor (fst (transmit (update_adv s1))) = floor (update_adv s1)).
  { unfold SctpTxLiveP.floor, transmit.
    destruct (match fwd_chunk (update_adv s1) with Some (cum0, strs) => ([OFwd cum0 strs], true) | None => ([], t3 (update_adv s1)) end) as [fo t3a].
    destruct (retx_loop _ _ _ _ _ _) as [[[[[sq fl] frt0] t3r] stop] o1]. destruct stop; [reflexivity|].
    destruct (new_loop _ _ _) as [[[mv rest] fl2] o2]. reflexivity. }
  rewrite Ef3. unfold update_adv. cbn [last_sacked adv_ack sentq s1 pop_abandoned].
  assert (G : uint32_gte cum (adv_ack s) = true) by (apply (gte_off base N Hbase HN _ _ Hh Ha); lia).
  rewrite G. cbn [fst snd]. unfold SctpTxLiveP.floor. cbn [last_sacked adv_ack].
  destruct (uint32_gt cum cum) eqn:G2; reflexivity.
Qed.

(* the ideal SACK at any clock value (SctpTxLiveP.sack_round is the instance now = 0) *)
Lemma sack_round_now s now : SctpTxP.inv s -> ord s -> sentq s <> [] ->
  let s' := fst (step s (ISack (highest_assigned s) [] now)) in
  SctpTxP.inv s' /\ ord s' /\ (length (qs s') <= length (outq s))%nat /\ top base s' = top base s /\
  floor s' = highest_assigned s.
Proof.
  intros I O Hne. cbv zeta. destruct (hs_off base N Hbase HN s O) as [Hh Eh]. pose proof O as [Hl Ha Hs Ht].
  destruct (floor_off base N Hbase HN s Hl Ha) as [Hf Ef].
  assert (Hr : r32 (highest_assigned s)) by (destruct Hh; assumption).
  assert (Hni : sack_ignored s (highest_assigned s) = false).
  { unfold sack_ignored. apply orb_false_iff. split.
    - destruct (uint32_gt (last_sacked s) (highest_assigned s)) eqn:G; [|reflexivity].
      apply (gt_off base N Hbase HN _ _ Hl Hh) in G. lia.
    - apply negb_false_iff. unfold uint32_gte. now rewrite Z.eqb_refl. }
  split; [apply step_inv; [exact I|exact Logic.I]|].
  cbn [step]. destruct (ord_receive_sack base N Hbase HN s (highest_assigned s) [] now O Hr) as (O1 & T1 & F1). split; [exact O1|].
  specialize (F1 Hni). split; [|split; [exact T1|now apply sack_all_floor]].
  unfold top in T1. unfold qs at 2 in T1. rewrite app_length in T1. lia.
Qed.

Lemma transmit_floor s : floor (fst (transmit s)) = floor s.
Proof.
  unfold SctpTxLiveP.floor, transmit.
  destruct (match fwd_chunk s with Some (cum0, strs) => ([OFwd cum0 strs], true) | None => ([], t3 s) end) as [fo t3a].
  destruct (retx_loop _ _ _ _ _ _) as [[[[[sq fl] frt0] t3r] stop] o1]. destruct stop; [reflexivity|].
  destruct (new_loop _ _ _) as [[[mv rest] fl2] o2]. reflexivity.
Qed.

(* ---------------------------------------------------------------- the receiver side *)
Lemma rrun_inv : forall es r, SctpDupP.inv base N r -> Forall (data_ev base N) es -> SctpDupP.inv base N (fst (rrun r es)).
Proof.
  induction es as [|e es IH]; intros r Hi Hes; [exact Hi|]. inversion Hes as [|? ? He Hrest]; subst.
  rewrite rrun_cons. cbn [fst]. destruct e as [c|]; [|destruct He]. cbn [data_ev] in He.
  destruct (rstep_data_inv base N Hbase HN r c Hi He) as (H1 & _). now apply IH.
Qed.

Variable wire : sc -> chunk.                     (* what a queued chunk looks like on the wire *)
Hypothesis wire_tsn : forall c, tsn (wire c) = c_tsn c.
Variable now : Z.                                (* the clock value handed to the SACK handler *)

Definition last_sack (outs : list rout) : option sack :=
  match List.last outs OutAssert with OutOk _ (Some k) => Some k | _ => None end.

(* the receiver has received everything before the sender's outstanding chunks *)
Definition sync (s : tx) (r : rstate) : Prop :=
  SctpDupP.inv base N r /\ last_rx r = floor s /\ misordered r = [].

Definition arrive (s : tx) : list revent := map (fun c => EvData (wire c)) (sentq s).

Fixpoint loop (fuel : nat) (s : tx) (r : rstate) : tx * rstate :=
  match fuel with
  | O => (s, r)
  | S f =>
      match sentq s with
      | _ :: _ =>
          let r' := fst (rrun r (arrive s)) in
          match last_sack (snd (rrun r (arrive s))) with
          | Some k => loop f (fst (step s (ISack (s_cum k) (s_gaps k) now))) r'
          | None => (s, r')
          end
      | [] => match outq s with _ :: _ => loop f (fst (step s IRunTransmit)) r | [] => (s, r) end
      end
  end.

(* one delivery round: everything outstanding arrives in order; the receiver's own last SACK
   acknowledges all of it without gap blocks, and the receiver is in sync with the new sender state *)
Lemma delivery_round s r : SctpTxP.inv s -> ord s -> sync s r -> sentq s <> [] ->
  exists k, last_sack (snd (rrun r (arrive s))) = Some k /\ s_cum k = highest_assigned s /\ s_gaps k = [] /\
    let s' := fst (step s (ISack (s_cum k) (s_gaps k) now)) in
    let r' := fst (rrun r (arrive s)) in
    SctpTxP.inv s' /\ ord s' /\ sync s' r' /\ (length (qs s') <= length (outq s))%nat /\ top base s' = top base s.
Proof.
  intros I O (Ri & Rl & Rm) Hne. pose proof O as [Hl Ha Hs Ht].
  destruct (floor_off base N Hbase HN s Hl Ha) as [Hf Ef].
  unfold qs in Hs, Ht. rewrite tsns_app in Hs. apply (seqfrom_app base N HN) in Hs as [Hs1 _]. rewrite app_length in Ht.
  set (cs := map wire (sentq s)).
  assert (Ecs : map tsn cs = tsns (sentq s)).
  { unfold cs, tsns. rewrite map_map. apply map_ext. intros c. apply wire_tsn. }
  assert (Earr : arrive s = map EvData cs) by (unfold arrive, cs; now rewrite map_map).
  assert (Hr : r32 (last_rx r)) by (rewrite Rl; destruct Hf; assumption).
  assert (Hc : consecutive (last_rx r) (map tsn cs)).
  { rewrite Ecs, Rl. apply (seqfrom_consecutive base N HN); [exact Hf|exact Hs1|rewrite tsns_length; lia]. }
  assert (Hdata : Forall (data_ev base N) (map EvData cs)).
  { apply Forall_forall. intros e He. apply in_map_iff in He as (c & <- & Hc'). cbn [data_ev].
    assert (Hin : In (tsn c) (tsns (sentq s))) by (rewrite <- Ecs; now apply in_map).
    pose proof (seqfrom_inw base N _ _ Hs1 ltac:(rewrite tsns_length; lia) (off_nonneg base _)) as Fw.
    rewrite Forall_forall in Fw. now apply Fw. }
  pose proof (no_assert base N Hbase HN _ r Ri Hdata) as Hna.
  destruct (in_order_sack cs r Hr Rm Hc Hna) as (E1 & E2 & E3). cbv zeta in *.
  assert (Hcs : cs <> []) by (unfold cs; destruct (sentq s); [congruence|discriminate]).
  destruct (E3 Hcs) as (ms & rw & dups & H).
  assert (Elast : last_rx (fst (rrun r (map EvData cs))) = highest_assigned s).
  { rewrite E1, Ecs. unfold highest_assigned. destruct (rev (sentq s)) as [|c rr] eqn:Er.
    - exfalso. apply Hne. rewrite <- (rev_involutive (sentq s)), Er. reflexivity.
    - destruct (rev_last_tsn _ _ _ (last_rx r) Er) as [El _]. exact El. }
  rewrite Earr. exists (mkSack (last_rx (fst (rrun r (map EvData cs)))) rw [] dups).
  split; [unfold last_sack; now rewrite H|]. cbn [s_cum s_gaps]. split; [exact Elast|]. split; [reflexivity|].
  rewrite Elast. destruct (sack_round_now s now I O Hne) as (I1 & O1 & L1 & T1 & F1). cbv zeta in *.
  split; [exact I1|]. split; [exact O1|]. split; [|split; [exact L1|exact T1]].
  split; [apply rrun_inv; assumption|]. split; [rewrite F1; exact Elast|exact E2].
Qed.

Theorem closed_loop : forall fuel s r, SctpTxP.inv s -> ord s -> sync s r -> (measure s <= fuel)%nat ->
  let s' := fst (loop fuel s r) in let r' := snd (loop fuel s r) in
  sentq s' = [] /\ outq s' = [] /\ flight s' = 0 /\
  sync s' r' /\ offb (last_rx r') = top base s.
Proof.
  induction fuel as [|f IH]; intros s r I O Y Hm; cbv zeta.
  - cbn [loop fst snd]. unfold measure, qs in Hm. rewrite app_length in Hm.
    destruct (sentq s) as [|c sq] eqn:Es; destruct (outq s) as [|d oq] eqn:Eo; cbn [length] in Hm; try lia.
    split; [reflexivity|]. split; [reflexivity|]. pose proof (i_fl s I) as F. rewrite Es in F. cbn in F.
    split; [lia|]. split; [exact Y|]. destruct Y as (_ & Rl & _). rewrite Rl. unfold top, qs. rewrite Es, Eo. cbn [app length]. lia.
  - cbn [loop]. destruct (sentq s) as [|c sq] eqn:Es.
    + destruct (outq s) as [|d oq] eqn:Eo.
      * cbn [fst snd]. split; [exact Es|]. split; [exact Eo|]. pose proof (i_fl s I) as F. rewrite Es in F. cbn in F.
        split; [lia|]. split; [exact Y|]. destruct Y as (_ & Rl & _). rewrite Rl. unfold top, qs. rewrite Es, Eo. cbn [app length]. lia.
      * destruct (kick base N Hbase HN s I O Es ltac:(rewrite Eo; discriminate)) as (I1 & O1 & N1 & L1). cbv zeta in *.
        assert (Y1 : sync (fst (step s IRunTransmit)) r).
        { destruct Y as (Ri & Rl & Rm). split; [exact Ri|]. split; [|exact Rm].
          assert (Rl' : last_rx r = floor (fst (transmit s))) by (now rewrite transmit_floor). cbn [step].
          rewrite (pair_eta_tx (transmit s)). cbn [fst]. unfold SctpTxLiveP.floor in Rl' |- *. cbn [last_sacked adv_ack]. exact Rl'. }
        assert (T1 : top base (fst (step s IRunTransmit)) = top base s).
        { cbn [step]. rewrite (pair_eta_tx (transmit s)). cbn [fst]. rewrite <- (proj2 (ord_transmit base N s O)).
          unfold top, SctpTxLiveP.floor, qs. cbn [last_sacked adv_ack sentq outq]. reflexivity. }
        rewrite <- T1. apply IH; auto. unfold measure in *. rewrite L1. rewrite Es in Hm.
        destruct (sentq (fst (step s IRunTransmit))); [congruence|]. unfold qs in Hm |- *. rewrite Es, Eo in *. cbn [app length] in *. lia.
    + assert (Hne : sentq s <> []) by (rewrite Es; discriminate).
      destruct (delivery_round s r I O Y Hne) as (k & Ek & Ec & Eg & I1 & O1 & Y1 & L1 & T1).
      rewrite Ek. rewrite <- T1. apply IH; auto.
      unfold measure in *. rewrite Es in Hm. unfold qs in Hm. rewrite Es, app_length in Hm. cbn [length] in Hm.
      destruct (sentq (fst (step s (ISack (s_cum k) (s_gaps k) now)))); lia.
Qed.
End Loop.

(* From EVERY reachable sender state (any history of sends, SACKs, T3 expiries, transmit runs) and
   a receiver in sync with it. *)
Theorem closed_loop_reachable base N t rw ins wire now r :
  r32 base -> 0 <= N < 2147483648 -> inw base N (tsn_minus_one t) ->
  Forall wf_input ins -> wf_ord_run base N (init t rw) ins ->
  (forall c, tsn (wire c) = c_tsn c) ->
  let s := fst (run (init t rw) ins) in
  sync base N s r ->
  let fin := loop wire now (2 * length (sentq s ++ outq s)) s r in
  sentq (fst fin) = [] /\ outq (fst fin) = [] /\ flight (fst fin) = 0 /\
  sync base N (fst fin) (snd fin) /\ off base (last_rx (snd fin)) = top base s.
Proof.
  intros Hb HN Ht Hw Ho Hwire s Y fin.
  pose proof (run_inv ins (init t rw) (inv_init t rw) Hw) as I. fold s in I.
  pose proof (run_ord base N Hb HN ins (init t rw) (ord_init base N t rw Ht) Ho) as O. fold s in O.
  assert (Hm : (measure s <= 2 * length (sentq s ++ outq s))%nat) by (unfold measure, qs; lia).
  exact (closed_loop base N Hb HN wire Hwire now _ s r I O Y Hm).
Qed.

(* a wire image for examples: payload of the booked size *)
Definition wire_of (c : sc) : chunk :=
  mkChunk (c_tsn c) (c_sid c) (c_sseq c) (c_unord c) (c_first c) (c_last c) 53 (repeat 7 (Z.to_nat (c_book c))).

Definition closed_loop_example_statement : Prop :=
  let c t := mkSc t 1 (t - 10) false true true 3 false false false 0 0 None None in
  let ins := [ISendMsg [c 10; c 11; c 12]; ISendMsg [c 13; c 14]; ISack 10 [(2, 2)] 0; IT3 5] in
  let s := fst (run (init 10 1048576) ins) in
  let r := fst (rrun (rinit 9) [EvData (wire_of (c 10))]) in
  let fin := loop wire_of 0 (2 * length (sentq s ++ outq s)) s r in
  (length (sentq s), length (outq s), last_rx r) = (4%nat, 0%nat, 10) /\
  (sentq (fst fin), outq (fst fin), flight (fst fin), last_rx (snd fin)) = ([], [], 0, 14).
Lemma closed_loop_example : closed_loop_example_statement.
Proof. vm_compute. split; reflexivity. Qed.
