(* Proofs about Model/RateCounter.v and Model/Rbe.v (property C15): nothing
   raises even when the clock goes backwards or jumps (arrival times come from
   the wall clock), for any payload sizes: structural invariant only. *)
From Coq Require Import ZArith List Bool Lia.
From AV Require Import Lib.Sx Lib.Bytes Model.RateCounter Model.Aimd Model.Rbe
  Proof.RateCounterP Proof.AimdP.
Import ListNotations.
Local Open Scope Z_scope.

Definition Struct (s : rc) : Prop :=
  0 < window_size s /\ length (buckets s) = Z.to_nat (window_size s) /\
  0 <= origin_index s < window_size s.

Lemma Struct_reset s : 0 < window_size s -> Struct (reset s).
Proof. intros H. unfold Struct, reset. cbn. rewrite repeat_length. lia. Qed.

Lemma erase_step_struct s om :
  Struct s -> exists s', erase_step s om = Ok s' /\ Struct s' /\ origin_ms s' = Some (om + 1) /\
                         window_size s' = window_size s.
Proof.
  intros (Hw & Hl & Hoi). unfold erase_step.
  destruct (Z.ltb_spec (origin_index s) 0); [lia|].
  destruct (nth_error (buckets s) (Z.to_nat (origin_index s))) as [b|] eqn:En.
  2:{ apply nth_error_None in En. lia. }
  destruct (upd_spec (buckets s) (Z.to_nat (origin_index s)) (fun _ => (0, 0))) as (bs & E & Hlb & _); [lia|].
  rewrite E. destruct (Z.eqb_spec (window_size s) 0); [lia|].
  eexists. split; [reflexivity|]. unfold Struct; cbn.
  pose proof (Z.mod_pos_bound (origin_index s + 1) (window_size s) Hw). repeat split; try lia.
Qed.

Lemma erase_loop_struct fuel : forall s om no,
  Struct s -> origin_ms s = Some om -> (Z.to_nat (no - om) <= fuel)%nat ->
  exists s', erase_loop fuel s no = Ok s' /\ Struct s' /\ origin_ms s' = Some (Z.max om no) /\
             window_size s' = window_size s.
Proof.
  induction fuel as [|fuel IH]; intros s om no HS Hom Hf; cbn [erase_loop]; rewrite Hom.
  - destruct (Z.ltb_spec om no); [lia|]. exists s. rewrite Z.max_l by lia. auto.
  - destruct (Z.ltb_spec om no).
    + destruct (erase_step_struct s om HS) as (s1 & E1 & S1 & O1 & W1). rewrite E1.
      destruct (IH s1 (om + 1) no S1 O1) as (s2 & E2 & S2 & O2 & W2); [lia|].
      exists s2. rewrite E2. replace (Z.max om no) with (Z.max (om + 1) no) by lia.
      repeat split; try assumption; try apply S2. congruence.
    + exists s. rewrite Z.max_l by lia. auto.
Qed.

Lemma erase_old_struct s om now :
  Struct s -> origin_ms s = Some om ->
  exists s' om', erase_old s now = Ok s' /\ Struct s' /\ origin_ms s' = Some om' /\
                 window_size s' = window_size s.
Proof.
  intros HS Hom. unfold erase_old, erase_fuel. rewrite Hom.
  destruct (erase_loop_struct (Z.to_nat (now - window_size s + 1 - om)) s om (now - window_size s + 1) HS Hom)
    as (s' & E & S' & O' & W'); [lia|]. eauto 8.
Qed.

Lemma add_tail_struct s om value now :
  Struct s -> origin_ms s = Some om ->
  exists s', add_tail s value now = Ok s' /\ Struct s' /\ window_size s' = window_size s.
Proof.
  intros (Hw & Hl & Hoi) Hom. unfold add_tail. rewrite Hom.
  destruct (Z.eqb_spec (window_size s) 0); [lia|].
  pose proof (Z.mod_pos_bound (origin_index s + now - om) (window_size s) Hw) as Hi.
  destruct (Z.ltb_spec ((origin_index s + now - om) mod window_size s) 0); [lia|].
  destruct (upd_spec (buckets s) (Z.to_nat ((origin_index s + now - om) mod window_size s))
              (fun b => (fst b + 1, snd b + value))) as (bs & E & Hlb & _); [lia|].
  rewrite E. eexists. split; [reflexivity|]. unfold Struct; cbn. repeat split; lia.
Qed.

Lemma add_struct s value now :
  Struct s -> exists s', add s value now = Ok s' /\ Struct s' /\ window_size s' = window_size s.
Proof.
  intros HS. unfold add. destruct (origin_ms s) as [om|] eqn:Hom.
  - destruct (erase_old_struct s om now HS Hom) as (s1 & om1 & E1 & S1 & O1 & W1). rewrite E1.
    destruct (add_tail_struct s1 om1 value now S1 O1) as (s2 & E2 & S2 & W2).
    exists s2. repeat split; try assumption; try apply S2. congruence.
  - destruct (add_tail_struct (mkRc (buckets s) (origin_index s) (Some now) (total s) (window_size s) (scale s))
                now value now) as (s2 & E2 & S2 & W2); [exact HS|reflexivity|].
    exists s2. auto.
Qed.

Lemma rate_struct s now :
  Struct s -> exists s' r, rate s now = Ok (s', r) /\ Struct s' /\ window_size s' = window_size s.
Proof.
  intros HS. unfold rate. destruct (origin_ms s) as [om|] eqn:Hom; [|eauto].
  destruct (erase_old_struct s om now HS Hom) as (s1 & om1 & E1 & S1 & O1 & W1). rewrite E1, O1.
  destruct (_ && _); eauto.
Qed.

(* RateCounter: no call history raises, whatever the clock does *)
Theorem counter_never_raises : forall w sc ops,
  0 < w -> exists s outs, RateCounter.run (init w sc) ops = (s, outs, 0).
Proof.
  intros w sc ops Hw.
  assert (H : forall s, Struct s -> exists s' outs, RateCounter.run s ops = (s', outs, 0)).
  { induction ops as [|o ops IH]; intros s HS; cbn [RateCounter.run]; [eauto|].
    destruct o as [v t|t|]; cbn [step].
    - destruct (add_struct s v t HS) as (s1 & E1 & S1 & _). rewrite E1.
      destruct (IH s1 S1) as (s2 & outs & E2). rewrite E2. eauto.
    - destruct (rate_struct s t HS) as (s1 & r & E1 & S1 & _). rewrite E1.
      destruct (IH s1 S1) as (s2 & outs & E2). rewrite E2. eauto.
    - destruct (IH (reset s) (Struct_reset s (proj1 HS))) as (s2 & outs & E2). rewrite E2. eauto. }
  apply H. unfold init. apply Struct_reset. exact Hw.
Qed.

(* ---------------------------------------------------------------- RemoteBitrateEstimator *)
Definition RS (s : rbe) : Prop := Struct (incoming s) /\ AInv0 (control s).

Lemma rbe_add_total s a : RS s -> exists s' o, rbe_add s a = Ok (s', o) /\ RS s'.
Proof.
  intros (HS & HA). unfold rbe_add.
  destruct (rate_struct (incoming s) (a_time a) HS) as (r1 & x & E1 & S1 & W1). rewrite E1.
  assert (H2 : exists r2 ii,
            (match x with
             | Some _ => (r1, true)
             | None => if incoming_init s then (reset r1, false) else (r1, incoming_init s)
             end) = (r2, ii) /\ Struct r2).
  { destruct x; [eauto|]. destruct (incoming_init s); [|eauto].
    eexists; eexists; split; [reflexivity|]. apply Struct_reset. apply S1. }
  destruct H2 as (r2 & ii & -> & S2).
  destruct (add_struct r2 (a_size a) (a_time a) S2) as (r3 & E3 & S3 & _). rewrite E3.
  destruct (match last_update s with
            | Some lu => (feedback_interval <? a_time a - lu) || is_over (a_verdict a)
            | None => true
            end).
  - destruct (rate_struct r3 (a_time a) S3) as (r4 & et & E4 & S4 & _). rewrite E4.
    destruct (update_never_raises (control s) (a_verdict a) et (a_time a) (a_fl a) HA) as (c' & r & Eu & HA').
    rewrite Eu. destruct r; eexists; eexists; (split; [reflexivity|]); split; assumption.
  - eexists; eexists; split; [reflexivity|]. split; assumption.
Qed.

Theorem rbe_never_raises_any_clock : forall l, exists s outs, Rbe.run rbe_init l = (s, outs, 0).
Proof.
  intros l. assert (H : forall s, RS s -> exists s' outs, Rbe.run s l = (s', outs, 0)).
  { induction l as [|a l IH]; intros s HS; cbn [Rbe.run]; [eauto|].
    destruct (rbe_add_total s a HS) as (s1 & o & E & S1). rewrite E.
    destruct (IH s1 S1) as (s2 & outs & E2). rewrite E2. eauto. }
  apply H. split; [|apply AInv0_init]. unfold rbe_init; cbn [incoming]. unfold init.
  apply Struct_reset. cbn. lia.
Qed.
