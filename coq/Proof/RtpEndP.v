(* C11: the stream produced by the sender model satisfies the hypotheses of the receiver-side
   theorems (Proof/RtpLinkP.v). *)
From Coq Require Import ZArith List Bool Lia.
From AV Require Import Lib.Bytes Lib.RtpX Gen.Utils Model.Rtp Proof.SerialP.
From AV Require Model.RtpSend Model.RtpRecv Proof.RtpSendP Proof.RtpLinkP.
Import ListNotations.
Local Open Scope Z_scope.

Theorem sender_stream_ok s0 ops s outs :
  in16 (RtpSend.s_seq s0) -> RtpSend.s_hist s0 = [] -> RtpSend.run s0 ops = Ok (s, outs) ->
  RtpLinkP.stream_ok (RtpSend.s_pt s0) (RtpSend.s_ssrc s0) (RtpSendP.sent_frames outs) (RtpSend.s_seq s0) /\
  concat (RtpSendP.sent_frames outs) = RtpSend.media outs.
Proof.
  intros Hs Hh ER. destruct (RtpSendP.stream_spec s0 ops s outs Hs Hh ER) as (N & F & E & NE).
  split; [|symmetry; exact E]. split; [exact Hs|]. split.
  - rewrite <- E. exact N.
  - rewrite Forall_forall in *. intros g Hg. split; [exact (NE g Hg)|].
    destruct (F g Hg) as (t & Ht & _). exists t. eapply Forall_impl; [|exact Ht].
    intros p (E1 & E2 & _). split; [exact E1|exact E2].
Qed.
