(* Every description the parser returns satisfies wfp (invariants of the two loops). *)
From Coq Require Import ZArith List Bool Lia.
From AV Require Import Lib.Sx Model.Sdp Proof.SdpP1 Proof.SdpP2 Proof.SdpP3 Proof.SdpP4.
Import ListNotations.
Local Open Scope Z_scope.

Definition inv1 (kind : str) (fmt : list fmt_item) (t : mstate) : Prop :=
  m_kind (t_m t) = kind /\ m_fmt (t_m t) = fmt /\
  NoDup (map s_id (m_ssrc (t_m t))) /\ NoDup (map k_pt (m_codecs (t_m t))) /\
  Forall (wfp_codec kind) (m_codecs (t_m t)) /\ NoDup (map fst (m_sctpmap (t_m t))).

Lemma mem_z_false : forall x l, mem_z x l = false -> ~ In x l.
Proof.
  induction l as [|y l IH]; intros H; cbn [mem_z In] in *; [tauto|].
  apply orb_false_iff in H as [H1 H2]. apply Z.eqb_neq in H1. intros [E|E]; [congruence|now apply IH].
Qed.

Lemma ssrc_upd_nodup : forall l id a v, NoDup (map s_id l) -> NoDup (map s_id (ssrc_upd l id a v)).
Proof.
  intros l id a v H. rewrite ssrc_upd_ids. destruct (mem_z id (map s_id l)) eqn:E; [exact H|].
  apply NoDup_snoc; [exact H|]. now apply mem_z_false.
Qed.

Lemma has_pt_false_inv : forall cs pt, has_pt cs pt = false -> ~ In pt (map k_pt cs).
Proof.
  unfold has_pt. induction cs as [|c cs IH]; intros pt H; cbn [existsb map In] in *; [tauto|].
  apply orb_false_iff in H as [H1 H2]. apply Z.eqb_neq in H1. intros [E|E]; [congruence|now apply (IH pt)].
Qed.

Lemma step1_inv : forall kind fmt t l t', inv1 kind fmt t -> step1 t l = Ok t' -> inv1 kind fmt t'.
Proof.
  intros kind fmt t l t' (Hk & Hf & Hs & Hp & Hc & Hm) H.
  destruct t as [m fps role uf pw]. cbn [t_m] in *.
  destruct l; cbn [step1 t_m] in H;
    try (inversion H; subst t'; unfold inv1; dm m; proj_norm; proj_norm_in Hk; proj_norm_in Hf; proj_norm_in Hs;
         proj_norm_in Hp; proj_norm_in Hc; proj_norm_in Hm; repeat split; assumption).
  - (* Lssrc_group *)
    destruct g; inversion H; subst t'; unfold inv1; dm m; proj_norm; repeat split; assumption.
  - (* Lssrc *)
    inversion H; subst t'. unfold inv1. dm m. proj_norm. proj_norm_in Hs. repeat split; try assumption.
    now apply ssrc_upd_nodup.
  - (* Lrtpmap *)
    apply bind_ok in H as (ch' & Ech & H).
    destruct (has_pt (m_codecs m) pt) eqn:Ept; inversion H; subst t'; clear H.
    + unfold inv1. cbn [t_m]. repeat split; assumption.
    + unfold inv1. dm m. proj_norm. proj_norm_in Hk. proj_norm_in Ept. proj_norm_in Hp. proj_norm_in Hc.
      proj_norm_in Ech. subst k.
      repeat split; try assumption.
      * rewrite map_app. cbn [map k_pt]. apply NoDup_snoc; [exact Hp|]. now apply has_pt_false_inv.
      * apply Forall_app. split; [exact Hc|]. constructor; [|constructor].
        unfold wfp_codec. cbn [k_mime k_channels k_params map]. split; [eauto|]. split; [|constructor].
        intros Ea. rewrite Ea in Ech. now inversion Ech.
  - (* Lsctpmap *)
    inversion H; subst t'. unfold inv1. dm m. proj_norm. proj_norm_in Hm. repeat split; try assumption.
    apply (dset_nodup _ _ Z.eqb Zeqb_iff). exact Hm.
  - (* Lcandidate *)
    apply bind_ok in H as (c & _ & H). inversion H; subst t'. unfold inv1. dm m. proj_norm. repeat split; assumption.
  - (* Lsetup *)
    apply bind_ok in H as (c & _ & H). inversion H; subst t'. unfold inv1. cbn [t_m]. repeat split; assumption.
  - (* Lerr1 *)
    destruct e; discriminate.
Qed.

Definition inv2 (kind : str) (pts : list Z) (cs : list codec) : Prop :=
  map k_pt cs = pts /\ Forall (wfp_codec kind) cs.

Lemma set_params_inv : forall kind cs pt p cs', Forall (wfp_codec kind) cs -> NoDup (map fst p) ->
  set_params cs pt p = Some cs' -> map k_pt cs' = map k_pt cs /\ Forall (wfp_codec kind) cs'.
Proof.
  intros kind. induction cs as [|c cs IH]; intros pt p cs' Hc Hp H; cbn [set_params] in H; [discriminate|].
  inversion Hc as [|? ? Hc1 Hc2]; subst.
  destruct (Z.eqb (k_pt c) pt).
  - inversion H; subst cs'. cbn [map k_pt]. split; [reflexivity|]. constructor; [|exact Hc2].
    destruct Hc1 as (H1 & H2 & _). unfold wfp_codec. cbn [k_mime k_channels k_params]. auto.
  - destruct (set_params cs pt p) as [r|] eqn:E; [|discriminate]. inversion H; subst cs'.
    destruct (IH pt p r Hc2 Hp E) as [E1 E2]. cbn [map]. split; [now rewrite E1|now constructor].
Qed.

Lemma add_fb_inv : forall kind t ty cs cs', Forall (wfp_codec kind) cs ->
  rmap (add_fb t ty) cs = Ok cs' -> map k_pt cs' = map k_pt cs /\ Forall (wfp_codec kind) cs'.
Proof.
  intros kind t ty. induction cs as [|c cs IH]; intros cs' Hc H; cbn [rmap] in H.
  - inversion H; subst. split; [reflexivity|constructor].
  - inversion Hc as [|? ? Hc1 Hc2]; subst.
    apply bind_ok in H as (c' & Ec & H). apply bind_ok in H as (r & Er & H). inversion H; subst cs'.
    destruct (IH r Hc2 Er) as [E1 E2]. cbn [map].
    assert (k_pt c' = k_pt c /\ wfp_codec kind c') as [Ep Ew].
    { unfold add_fb in Ec. destruct (fb_matches t (k_pt c)); [|inversion Ec; subst; auto].
      destruct ty; inversion Ec; subst. cbn [k_pt]. split; [reflexivity|].
      destruct Hc1 as (H1 & H2 & H3). unfold wfp_codec. cbn [k_mime k_channels k_params]. auto. }
    split; [now rewrite Ep, E1|now constructor].
Qed.

Lemma step2_inv : forall kind pts cs l cs', inv2 kind pts cs -> step2 cs l = Ok cs' -> inv2 kind pts cs'.
Proof.
  intros kind pts cs l cs' (Hp & Hc) H.
  destruct l; cbn [step2] in H; try (inversion H; subst cs'; split; assumption).
  - (* Lrtcp_fb *)
    destruct (add_fb_inv kind t ty cs cs' Hc H) as [E1 E2]. split; [now rewrite E1|exact E2].
  - (* Lfmtp *)
    destruct (has_pt cs pt); [|discriminate]. destruct ps as [l|]; [|discriminate].
    destruct (set_params cs pt (params_from l)) as [r|] eqn:E; [|discriminate]. inversion H; subst cs'.
    destruct (set_params_inv kind cs pt (params_from l) r Hc) as [E1 E2]; [|exact E|split; [now rewrite E1|exact E2]].
    unfold params_from. apply (fold_dset_keys_nodup _ _ str_eqb str_eqb_iff). constructor.
  - (* Lerr2 *)
    destruct e; discriminate.
Qed.

Lemma absorb_media_wfp : forall x g m, absorb_media x g = Ok m -> wfp_media m.
Proof.
  intros x [h body] m H. unfold absorb_media in H. cbn [fst snd] in H.
  destruct h; try discriminate; [|destruct e; discriminate].
  apply bind_ok in H as ([] & Echk & H). apply bind_ok in H as (t & E1 & H). apply bind_ok in H as (cs & E2 & H).
  inversion H; subst m; clear H.
  assert (I1 : inv1 kind fmt t).
  { eapply (rfold_inv step1 (inv1 kind fmt)); [|  |exact E1].
    - intros a y a' Pa Hs. eapply step1_inv; eassumption.
    - unfold inv1, media0. cbn [t_m m_kind m_fmt m_ssrc m_codecs m_sctpmap map]. repeat split; constructor. }
  destruct I1 as (Hk & Hf & Hs & Hp & Hc & Hm).
  assert (I2 : inv2 kind (map k_pt (m_codecs (t_m t))) cs).
  { eapply (rfold_inv step2 (inv2 kind (map k_pt (m_codecs (t_m t))))); [| |exact E2].
    - intros a y a' Pa Hs2. eapply step2_inv; eassumption.
    - split; [reflexivity|exact Hc]. }
  destruct I2 as (Hp2 & Hc2).
  destruct t as [m fps role uf pw]. cbn [t_m t_role t_fps t_ufrag t_pwd] in *. dm m. proj_norm.
  proj_norm_in Hk. proj_norm_in Hf. proj_norm_in Hs. proj_norm_in Hp. proj_norm_in Hc. proj_norm_in Hm. proj_norm_in Hp2.
  subst k fm. unfold wfp_media. proj_norm.
  repeat split; try assumption.
  - intro Ef. subst fmt. discriminate.
  - destruct fmt; [discriminate|]. rewrite H in Echk. destruct (fmt_all_int (f :: fmt)); [reflexivity|discriminate].
  - destruct fmt; [discriminate|]. rewrite H in Echk. destruct (fmt_all_int (f :: fmt)); [|discriminate].
    destruct (fmt_pts_ok (f :: fmt)); [reflexivity|discriminate].
  - now rewrite Hp2.
Qed.

Lemma rmap_forall : forall {A B} (f : A -> result B) (P : B -> Prop) l l',
  (forall a b, f a = Ok b -> P b) -> rmap f l = Ok l' -> Forall P l'.
Proof.
  intros A B f P l. induction l as [|a l IH]; intros l' Hf H; cbn [rmap] in H.
  - inversion H. constructor.
  - apply bind_ok in H as (b & Eb & H). apply bind_ok in H as (r & Er & H). inversion H; subst.
    constructor; [eapply Hf; eassumption|]. now apply IH.
Qed.

Lemma absorb_wfp : forall t d, absorb t = Ok d -> wfp d.
Proof.
  intros t d H. unfold absorb in H. destruct (grouplines t) as [s ms].
  apply bind_ok in H as (x & _ & H). apply bind_ok in H as (media & Em & H). inversion H; subst d.
  unfold wfp. cbn [d_media]. eapply rmap_forall; [|exact Em].
  intros g m Hm. eapply absorb_media_wfp. exact Hm.
Qed.
