(* Proofs about Model/Jitter.v, part 3 (for C17): independence of the sequence-number origin.
   Adding any delta (mod 2^16) to every sequence number of an arrival list leaves every returned
   PLI flag and every released frame unchanged.  Proved on the window-level buffer, where the
   shifted run is literally the same computation on shifted packets (the rotation of the ring,
   capacity | 2^16, is absorbed by the window view), then transported with run_refines. *)
From Coq Require Import ZArith List Bool Lia.
From AV Require Import Lib.Sx Lib.Bytes Gen.Utils Gen.JbConst Model.Jitter Proof.JitterP Proof.JitterInvP.
Import ListNotations.
Local Open Scope Z_scope.

Definition shift_pkt (d : Z) (p : pkt) : pkt := mkPkt (uint16_add (pseq p) d) (pts p) (pdata p).
Definition shift_w (d : Z) (w : W) : W := map (option_map (shift_pkt d)) w.
Definition shift_a (d : Z) (a : jb) : jb :=
  mkJb (cap a) (prefetch a) (is_video a) (option_map (fun o => uint16_add o d) (origin a))
       (shift_w d (slots a)).

Ltac Zify.zify_post_hook ::= Z.to_euclidean_division_equations.
Lemma uint16_diff_shift s o d : uint16_add (uint16_add s d) (- uint16_add o d) = uint16_add s (- o).
Proof. rewrite !uint16_add_mod. lia. Qed.
Lemma uint16_add_swap o b d : uint16_add (uint16_add o d) b = uint16_add (uint16_add o b) d.
Proof. rewrite !uint16_add_mod. lia. Qed.
Ltac Zify.zify_post_hook ::= idtac.

Lemma shift_w_length d w : length (shift_w d w) = length w.
Proof. apply map_length. Qed.

Lemma shift_w_repeat d n : shift_w d (repeat None n) = repeat None n.
Proof. induction n as [|n IH]; [reflexivity|]. cbn [repeat shift_w map option_map]. f_equal. exact IH. Qed.

Lemma shift_w_remove d w b : shift_w d (w_remove w b) = w_remove (shift_w d w) b.
Proof.
  unfold w_remove, shift_w. rewrite map_app, skipn_map. f_equal. apply (shift_w_repeat d b).
Qed.

Lemma set_nth_map {A B} (g : A -> B) (l : list A) k x :
  set_nth (map g l) k (g x) = option_map (map g) (set_nth l k x).
Proof.
  revert k. induction l as [|h t IH]; intros k; [destruct k; reflexivity|].
  destruct k as [|k]; [reflexivity|]. cbn [map set_nth]. rewrite IH.
  destruct (set_nth t k x); reflexivity.
Qed.

Lemma shift_w_set d w k p : shift_w d (w_set w k (Some p)) = w_set (shift_w d w) k (Some (shift_pkt d p)).
Proof.
  unfold w_set, shift_w. change (Some (shift_pkt d p)) with (option_map (shift_pkt d) (Some p)).
  rewrite set_nth_map. destruct (set_nth w k (Some p)); reflexivity.
Qed.

Lemma w_smart_shift d w : forall i count tsv, w_smart (shift_w d w) i count tsv = w_smart w i count tsv.
Proof.
  induction w as [|h t IH]; intros i count tsv; [reflexivity|].
  destruct h as [p|]; cbn [shift_w map option_map w_smart shift_pkt pts].
  - fold (shift_w d t). rewrite IH. reflexivity.
  - fold (shift_w d t). rewrite IH. reflexivity.
Qed.

Lemma w_rf_shift d w : forall count pf fr frames packets rem tsv,
  w_rf (shift_w d w) count pf fr frames (map (shift_pkt d) packets) rem tsv =
  w_rf w count pf fr frames packets rem tsv.
Proof.
  induction w as [|h t IH]; intros count pf fr frames packets rem tsv; [reflexivity|].
  destruct h as [p|]; cbn [shift_w map option_map w_rf]; [|reflexivity]. fold (shift_w d t).
  assert (Eapp : map (shift_pkt d) packets ++ [shift_pkt d p] = map (shift_pkt d) (packets ++ [p])).
  { rewrite map_app. reflexivity. }
  assert (Edata : concat (map pdata (map (shift_pkt d) packets)) = concat (map pdata packets)).
  { rewrite map_map. reflexivity. }
  change (pts (shift_pkt d p)) with (pts p).
  destruct tsv as [ts|].
  - destruct (negb (pts p =? ts)).
    + rewrite Edata. destruct (frames + 1 >=? pf); [reflexivity|].
      change [shift_pkt d p] with (map (shift_pkt d) [p]). apply IH.
    + rewrite Eapp. apply IH.
  - rewrite Eapp. apply IH.
Qed.

Lemma a_tail_shift d a a' p o1 w1 pli :
  cap a' = cap a -> prefetch a' = prefetch a -> is_video a' = is_video a ->
  a_tail a' (shift_pkt d p) (uint16_add o1 d) (shift_w d w1) pli =
  (shift_a d (fst (a_tail a p o1 w1 pli)), snd (a_tail a p o1 w1 pli)).
Proof.
  intros Ec Ep Ev. unfold a_tail. rewrite Ec, Ep, Ev.
  change (pseq (shift_pkt d p)) with (uint16_add (pseq p) d). rewrite uint16_diff_shift.
  rewrite <- shift_w_set. unfold w_frame.
  change (@nil pkt) with (map (shift_pkt d) []). rewrite w_rf_shift. cbn [map].
  destruct (w_rf _ 0 (prefetch a) None 0 [] 0 None) as [[f r]|]; cbn [fst snd]; unfold shift_a;
    cbn [cap prefetch is_video origin slots option_map].
  - rewrite shift_w_remove, uint16_add_swap. reflexivity.
  - reflexivity.
Qed.

Lemma a_place_shift d a a' p o delta w pli :
  cap a' = cap a -> prefetch a' = prefetch a -> is_video a' = is_video a ->
  a_place a' (shift_pkt d p) (uint16_add o d) delta (shift_w d w) pli =
  (shift_a d (fst (a_place a p o delta w pli)), snd (a_place a p o delta w pli)).
Proof.
  intros Ec Ep Ev. unfold a_place. rewrite Ec, Ev, w_smart_shift, shift_w_length.
  destruct (delta >=? cap a).
  - destruct (w_smart w 0 (delta - cap a + 1) None) as [b|].
    + rewrite uint16_add_swap, <- shift_w_remove. apply a_tail_shift; assumption.
    + rewrite <- (shift_w_repeat d) at 1. apply (a_tail_shift d a a' p (pseq p)); assumption.
  - apply a_tail_shift; assumption.
Qed.

Theorem a_add_shift d a p :
  a_add (shift_a d a) (shift_pkt d p) = (shift_a d (fst (a_add a p)), snd (a_add a p)).
Proof.
  unfold a_add. cbn [shift_a origin slots is_video].
  destruct (origin a) as [o|]; cbn [option_map].
  - change (pseq (shift_pkt d p)) with (uint16_add (pseq p) d). rewrite !uint16_diff_shift.
    destruct (uint16_add o (- pseq p) <? uint16_add (pseq p) (- o)).
    + destruct (uint16_add o (- pseq p) >=? MAX_MISORDER).
      * rewrite shift_w_length. rewrite <- (shift_w_repeat d) at 1.
        apply (a_place_shift d a (shift_a d a) p (pseq p)); reflexivity.
      * reflexivity.
    + apply a_place_shift; reflexivity.
  - apply (a_place_shift d a (shift_a d a) p (pseq p)); reflexivity.
Qed.

Lemma a_run_shift d l : forall a,
  a_run (shift_a d a) (map (shift_pkt d) l) = (shift_a d (fst (a_run a l)), snd (a_run a l)).
Proof.
  induction l as [|p l IH]; intros a; [reflexivity|].
  cbn [map a_run]. rewrite a_add_shift. cbn [fst snd]. rewrite IH. reflexivity.
Qed.

Lemma shift_a_init d c pf v : shift_a d (a_init c pf v) = a_init c pf v.
Proof. unfold shift_a, a_init. cbn [cap prefetch is_video origin slots option_map]. rewrite shift_w_repeat. reflexivity. Qed.

(* C17 for the jitter buffer: shifting every sequence number of ANY arrival list by ANY delta
   (mod 2^16), starting from the empty buffer, yields the same PLI flags and the same released
   frames (timestamps and data); the final origin is shifted by delta. *)
Theorem jitter_shift_invariant c pf v l d s outs :
  cap_ok c -> Forall seq16 l -> reaches c pf v l s outs ->
  exists s', reaches c pf v (map (shift_pkt d) l) s' outs /\
             origin s' = option_map (fun o => uint16_add o d) (origin s).
Proof.
  intros Hc HF HR. destruct (reaches_abs c pf v l s outs Hc HF HR) as [-> R].
  assert (HF' : Forall seq16 (map (shift_pkt d) l)).
  { apply Forall_forall. intros q Hq. apply in_map_iff in Hq. destruct Hq as (q0 & <- & _).
    unfold seq16, shift_pkt. cbn [pseq]. apply uint16_add_range. }
  destruct (reach_abs c pf v _ Hc HF') as (s' & HR' & R').
  rewrite <- (shift_a_init d c pf v) in HR', R' at 1. rewrite a_run_shift in HR', R'. cbn [fst snd] in HR', R'.
  exists s'. split; [exact HR'|].
  destruct R' as (_ & _ & _ & Eo' & _). destruct R as (_ & _ & _ & Eo & _).
  rewrite <- Eo', <- Eo. reflexivity.
Qed.

(* ---------------------------------------------------------------- timestamps (mod 2^32) *)
(* The buffer only compares timestamps for equality, so adding any delta (mod 2^32) to every
   timestamp shifts the released frames' timestamps by the same delta and changes nothing else. *)
Definition ts32 (p : pkt) : Prop := 0 <= pts p < 4294967296.
Definition tshift_pkt (e : Z) (p : pkt) : pkt := mkPkt (pseq p) (uint32_add (pts p) e) (pdata p).
Definition tshift_frame (e : Z) (f : frame) : frame := mkFrame (uint32_add (fts f) e) (fdata f).
Definition tshift_out (e : Z) (o : out) : out := (fst o, option_map (tshift_frame e) (snd o)).
Definition tshift_w (e : Z) (w : W) : W := map (option_map (tshift_pkt e)) w.
Definition tshift_a (e : Z) (a : jb) : jb :=
  mkJb (cap a) (prefetch a) (is_video a) (origin a) (tshift_w e (slots a)).
Definition Wts (w : W) : Prop := forall q, In (Some q) w -> ts32 q.
Definition ts_in (t : option Z) : Prop := forall x, t = Some x -> 0 <= x < 4294967296.

Lemma uint32_add_mod a b : uint32_add a b = (a + b) mod 4294967296.
Proof. unfold uint32_add. change 4294967295 with (Z.ones 32). rewrite Z.land_ones by lia. reflexivity. Qed.

Ltac Zify.zify_post_hook ::= Z.to_euclidean_division_equations.
Lemma uint32_add_inj a b e : 0 <= a < 4294967296 -> 0 <= b < 4294967296 ->
  (uint32_add a e =? uint32_add b e) = (a =? b).
Proof.
  intros Ha Hb. rewrite !uint32_add_mod.
  destruct (Z.eqb_spec a b) as [->|Hne]; [apply Z.eqb_refl|]. apply Z.eqb_neq. lia.
Qed.
Ltac Zify.zify_post_hook ::= idtac.

Lemma tshift_w_length e w : length (tshift_w e w) = length w.
Proof. apply map_length. Qed.
Lemma tshift_w_repeat e n : tshift_w e (repeat None n) = repeat None n.
Proof. induction n as [|n IH]; [reflexivity|]. cbn [repeat tshift_w map option_map]. f_equal. exact IH. Qed.
Lemma tshift_w_remove e w b : tshift_w e (w_remove w b) = w_remove (tshift_w e w) b.
Proof. unfold w_remove, tshift_w. rewrite map_app, skipn_map. f_equal. apply (tshift_w_repeat e b). Qed.
Lemma tshift_w_set e w k p : tshift_w e (w_set w k (Some p)) = w_set (tshift_w e w) k (Some (tshift_pkt e p)).
Proof.
  unfold w_set, tshift_w. change (Some (tshift_pkt e p)) with (option_map (tshift_pkt e) (Some p)).
  rewrite set_nth_map. destruct (set_nth w k (Some p)); reflexivity.
Qed.

Lemma Wts_cons_inv h t : Wts (h :: t) -> Wts t.
Proof. intros H q Hq. apply H. right. exact Hq. Qed.
Lemma Wts_repeat n : Wts (repeat None n).
Proof. intros q Hq. apply repeat_spec in Hq. discriminate. Qed.
Lemma Wts_remove w b : Wts w -> Wts (w_remove w b).
Proof.
  intros H q Hq. unfold w_remove in Hq. apply in_app_or in Hq. destruct Hq as [Hq|Hq].
  - apply H. rewrite <- (firstn_skipn b w). apply in_or_app. right. exact Hq.
  - apply repeat_spec in Hq. discriminate.
Qed.
Lemma Wts_set w k p : ts32 p -> Wts w -> Wts (w_set w k (Some p)).
Proof.
  intros Hp H q Hq. apply In_nth_error in Hq. destruct Hq as [j Ej]. rewrite w_set_nth in Ej.
  destruct (Nat.eqb j k && Nat.ltb k (length w))%bool.
  - injection Ej as <-. exact Hp.
  - apply H. eapply nth_error_In. exact Ej.
Qed.

Lemma ts_differs_shift e tsv x : ts_in tsv -> 0 <= x < 4294967296 ->
  ts_differs (option_map (fun t => uint32_add t e) tsv) (uint32_add x e) = ts_differs tsv x.
Proof.
  intros Ht Hx. destruct tsv as [t|]; cbn [option_map ts_differs]; [|reflexivity].
  rewrite uint32_add_inj; [reflexivity|apply Ht; reflexivity|exact Hx].
Qed.

Lemma w_smart_tshift e w : forall i count tsv, Wts w -> ts_in tsv ->
  w_smart (tshift_w e w) i count (option_map (fun t => uint32_add t e) tsv) = w_smart w i count tsv.
Proof.
  induction w as [|h t IH]; intros i count tsv HW Ht; [reflexivity|].
  pose proof (Wts_cons_inv _ _ HW) as HW'.
  destruct h as [p|]; cbn [tshift_w map option_map w_smart]; fold (tshift_w e t).
  - assert (Hp : ts32 p) by (apply HW; left; reflexivity).
    change (pts (tshift_pkt e p)) with (uint32_add (pts p) e).
    rewrite ts_differs_shift by assumption.
    change (Some (uint32_add (pts p) e)) with (option_map (fun t => uint32_add t e) (Some (pts p))).
    rewrite IH; [reflexivity|exact HW'|]. intros x Hx. injection Hx as <-. exact Hp.
  - rewrite IH by assumption. reflexivity.
Qed.

Definition tshift_res (e : Z) (r : option (frame * Z)) : option (frame * Z) :=
  option_map (fun fr => (tshift_frame e (fst fr), snd fr)) r.

Lemma w_rf_tshift e w : forall count pf fr frames packets rem tsv, Wts w -> ts_in tsv ->
  w_rf (tshift_w e w) count pf (option_map (tshift_frame e) fr) frames (map (tshift_pkt e) packets) rem
       (option_map (fun t => uint32_add t e) tsv) =
  tshift_res e (w_rf w count pf fr frames packets rem tsv).
Proof.
  induction w as [|h t IH]; intros count pf fr frames packets rem tsv HW Ht; [reflexivity|].
  pose proof (Wts_cons_inv _ _ HW) as HW'.
  destruct h as [p|]; cbn [tshift_w map option_map w_rf]; [|reflexivity]. fold (tshift_w e t).
  assert (Hp : ts32 p) by (apply HW; left; reflexivity).
  assert (Htp : ts_in (Some (pts p))) by (intros x Hx; injection Hx as <-; exact Hp).
  assert (Eapp : map (tshift_pkt e) packets ++ [tshift_pkt e p] = map (tshift_pkt e) (packets ++ [p])).
  { rewrite map_app. reflexivity. }
  assert (Edata : concat (map pdata (map (tshift_pkt e) packets)) = concat (map pdata packets)).
  { rewrite map_map. reflexivity. }
  change (pts (tshift_pkt e p)) with (uint32_add (pts p) e).
  change (Some (uint32_add (pts p) e)) with (option_map (fun t => uint32_add t e) (Some (pts p))).
  destruct tsv as [ts|]; cbn [option_map].
  - rewrite uint32_add_inj; [|exact Hp|apply Ht; reflexivity].
    destruct (negb (pts p =? ts)).
    + rewrite Edata.
      assert (Efr : match option_map (tshift_frame e) fr with
                    | Some f => f
                    | None => mkFrame (uint32_add ts e) (concat (map pdata packets))
                    end = tshift_frame e match fr with
                                         | Some f => f
                                         | None => mkFrame ts (concat (map pdata packets))
                                         end).
      { destruct fr; reflexivity. }
      assert (Erem : match option_map (tshift_frame e) fr with None => count | Some _ => rem end =
                     match fr with None => count | Some _ => rem end).
      { destruct fr; reflexivity. }
      rewrite Efr, Erem. destruct (frames + 1 >=? pf); [reflexivity|].
      change [tshift_pkt e p] with (map (tshift_pkt e) [p]).
      change (Some (uint32_add (pts p) e)) with (option_map (fun t => uint32_add t e) (Some (pts p))).
      change (Some (tshift_frame e ?f)) with (option_map (tshift_frame e) (Some f)).
      apply (IH _ _ (Some _)); assumption.
    + rewrite Eapp. change (Some (uint32_add ts e)) with (option_map (fun t => uint32_add t e) (Some ts)).
      apply IH; assumption.
  - rewrite Eapp. change (Some (uint32_add (pts p) e)) with (option_map (fun t => uint32_add t e) (Some (pts p))).
    apply IH; assumption.
Qed.

Lemma a_tail_tshift e a a' p o1 w1 pli :
  cap a' = cap a -> prefetch a' = prefetch a -> is_video a' = is_video a ->
  ts32 p -> Wts w1 ->
  a_tail a' (tshift_pkt e p) o1 (tshift_w e w1) pli =
  (tshift_a e (fst (a_tail a p o1 w1 pli)), tshift_out e (snd (a_tail a p o1 w1 pli))) /\
  Wts (slots (fst (a_tail a p o1 w1 pli))).
Proof.
  intros Ec Ep Ev Hp HW. unfold a_tail. rewrite Ec, Ep, Ev.
  change (pseq (tshift_pkt e p)) with (pseq p). rewrite <- tshift_w_set.
  set (w2 := w_set w1 (Z.to_nat (uint16_add (pseq p) (- o1))) (Some p)).
  assert (HW2 : Wts w2) by (apply Wts_set; assumption).
  unfold w_frame.
  pose proof (w_rf_tshift e w2 0 (prefetch a) None 0 [] 0 None HW2 ltac:(intros x Hx; discriminate)) as E.
  cbn [option_map map] in E. rewrite E.
  destruct (w_rf w2 0 (prefetch a) None 0 [] 0 None) as [[f r]|]; cbn [tshift_res option_map fst snd];
    unfold tshift_a, tshift_out; cbn [cap prefetch is_video origin slots option_map fst snd].
  - rewrite tshift_w_remove. split; [reflexivity|]. apply Wts_remove. exact HW2.
  - split; [reflexivity|exact HW2].
Qed.

Lemma a_place_tshift e a a' p o delta w pli :
  cap a' = cap a -> prefetch a' = prefetch a -> is_video a' = is_video a ->
  ts32 p -> Wts w ->
  a_place a' (tshift_pkt e p) o delta (tshift_w e w) pli =
  (tshift_a e (fst (a_place a p o delta w pli)), tshift_out e (snd (a_place a p o delta w pli))) /\
  Wts (slots (fst (a_place a p o delta w pli))).
Proof.
  intros Ec Ep Ev Hp HW. unfold a_place. rewrite Ec, Ev, tshift_w_length.
  change (pseq (tshift_pkt e p)) with (pseq p).
  pose proof (w_smart_tshift e w 0 (delta - cap a + 1) None HW ltac:(intros x Hx; discriminate)) as ES.
  cbn [option_map] in ES. rewrite ES.
  destruct (delta >=? cap a).
  - destruct (w_smart w 0 (delta - cap a + 1) None) as [b|].
    + rewrite <- tshift_w_remove. apply a_tail_tshift; try assumption. apply Wts_remove. exact HW.
    + rewrite <- (tshift_w_repeat e) at 1. apply a_tail_tshift; try assumption. apply Wts_repeat.
  - apply a_tail_tshift; assumption.
Qed.

Theorem a_add_tshift e a p : ts32 p -> Wts (slots a) ->
  a_add (tshift_a e a) (tshift_pkt e p) = (tshift_a e (fst (a_add a p)), tshift_out e (snd (a_add a p))) /\
  Wts (slots (fst (a_add a p))).
Proof.
  intros Hp HW. unfold a_add. cbn [tshift_a origin slots is_video].
  change (pseq (tshift_pkt e p)) with (pseq p).
  destruct (origin a) as [o|].
  - destruct (uint16_add o (- pseq p) <? uint16_add (pseq p) (- o)).
    + destruct (uint16_add o (- pseq p) >=? MAX_MISORDER).
      * rewrite tshift_w_length. rewrite <- (tshift_w_repeat e) at 1.
        apply (a_place_tshift e a (tshift_a e a)); try reflexivity; [exact Hp|apply Wts_repeat].
      * cbn [fst snd]. split; [reflexivity|exact HW].
    + apply (a_place_tshift e a (tshift_a e a)); try reflexivity; assumption.
  - apply (a_place_tshift e a (tshift_a e a)); try reflexivity; assumption.
Qed.

Lemma a_run_tshift e l : forall a, Forall ts32 l -> Wts (slots a) ->
  a_run (tshift_a e a) (map (tshift_pkt e) l) =
  (tshift_a e (fst (a_run a l)), map (tshift_out e) (snd (a_run a l))).
Proof.
  induction l as [|p l IH]; intros a HF HW; [reflexivity|].
  inversion HF as [|? ? Hp HF']; subst.
  cbn [map a_run]. destruct (a_add_tshift e a p Hp HW) as [E HW1]. rewrite E. cbn [fst snd].
  rewrite (IH _ HF' HW1). reflexivity.
Qed.

Lemma tshift_a_init e c pf v : tshift_a e (a_init c pf v) = a_init c pf v.
Proof. unfold tshift_a, a_init. cbn [cap prefetch is_video origin slots]. rewrite tshift_w_repeat. reflexivity. Qed.

(* C17, timestamps: shifting every 32-bit timestamp of ANY arrival list by ANY delta (mod 2^32)
   yields the same PLI flags and the same frames with timestamps shifted by that delta. *)
Theorem jitter_ts_shift_invariant c pf v l e s outs :
  cap_ok c -> Forall seq16 l -> Forall ts32 l -> reaches c pf v l s outs ->
  exists s', reaches c pf v (map (tshift_pkt e) l) s' (map (tshift_out e) outs) /\ origin s' = origin s.
Proof.
  intros Hc HF HT HR. destruct (reaches_abs c pf v l s outs Hc HF HR) as [-> R].
  assert (HF' : Forall seq16 (map (tshift_pkt e) l)).
  { apply Forall_forall. intros q Hq. apply in_map_iff in Hq. destruct Hq as (q0 & <- & Hq0).
    rewrite Forall_forall in HF. exact (HF q0 Hq0). }
  destruct (reach_abs c pf v _ Hc HF') as (s' & HR' & R').
  rewrite <- (tshift_a_init e c pf v) in HR', R' at 1.
  rewrite (a_run_tshift e l (a_init c pf v) HT ltac:(apply Wts_repeat)) in HR', R'. cbn [fst snd] in HR', R'.
  exists s'. split; [exact HR'|].
  destruct R' as (_ & _ & _ & Eo' & _). destruct R as (_ & _ & _ & Eo & _).
  rewrite <- Eo', <- Eo. reflexivity.
Qed.
