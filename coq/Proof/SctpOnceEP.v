(* C01: no sent message is delivered twice -- ordered or unordered channels, end to end. *)
From Coq Require Import ZArith List Bool Lia.
From AV Require Import Lib.Bytes Gen.Utils Gen.SctpConst Model.SctpRecv Model.SctpSend Proof.SctpRecvP Proof.SctpC01P
  Proof.SctpSendP Proof.SctpDupP Proof.SctpOrderP Proof.SctpOrderTP Proof.SctpOnceP.
Import ListNotations.
Local Open Scope Z_scope.

Lemma NoDup_app_r {A} (a b : list A) : NoDup (a ++ b) -> NoDup b.
Proof. induction a as [|x a IH]; cbn [app]; intros H; [exact H|]. inversion H; subst. now apply IH. Qed.

Lemma NoDup_concat_runs (D : list (list chunk)) : NoDup (concat D) -> Forall (fun f => f <> []) D -> NoDup D.
Proof.
  induction D as [|f D IH]; intros Hn Hne; [constructor|]. cbn [concat] in Hn. inversion Hne as [|? ? Hf Hne']; subst.
  pose proof (NoDup_app_r _ _ Hn) as Hn2. constructor; [|now apply IH].
  intros Hin. destruct f as [|c f']; [congruence|].
  cbn [app] in Hn. inversion Hn as [|? ? Hc _]; subst. apply Hc. apply in_or_app. right.
  apply in_concat. exists (c :: f'). split; [exact Hin|now left].
Qed.

Lemma complete_run_nonempty f : complete_run (rev f) -> f <> [].
Proof. intros H E. subst. exact H. Qed.

Lemma hd_rev_last (f : list chunk) d : hd d (rev f) = List.last f d.
Proof.
  induction f as [|c f IH]; [reflexivity|]. cbn [rev]. destruct f as [|b f']; [reflexivity|].
  change (List.last (c :: b :: f') d) with (List.last (b :: f') d). rewrite <- IH.
  cbn [rev]. destruct (rev f' ++ [b]) eqn:E; [destruct (rev f'); discriminate|reflexivity].
Qed.

Theorem at_most_once base N t0 msgs st es :
  r32 base -> 0 <= N < 2147483648 -> in32 t0 ->
  Forall (fun m => o_data m <> []) msgs -> Z.of_nat (total_frags msgs) <= SCTP_TSN_MODULO ->
  Forall (data_ev base N) es ->
  (forall c, In (EvData c) es -> sid c = st -> In c (concat (send_msgs (mkS t0 []) msgs))) ->
  exists D, msgs_on st (rinit base) es = map msgf D /\ NoDup D /\
            Forall (fun f => In f (send_msgs (mkS t0 []) msgs)) D.
Proof.
  intros Hb HN Ht Hd Htot Hes Hin.
  set (sm := sent_of (mkS t0 []) msgs).
  assert (Hall : all_chunks sm = concat (send_msgs (mkS t0 []) msgs)) by (unfold all_chunks, sm; now rewrite sent_of_frags).
  pose proof (sent_of_ok (mkS t0 []) msgs Hd) as Hok. fold sm in Hok.
  pose proof (sent_of_tsn_inj (mkS t0 []) msgs Ht Htot) as Hinj. fold sm in Hinj.
  pose proof (stream_of_transport base N Hb HN st es (rinit base) (inv_rinit base N Hb HN) Hes) as E.
  cbn [rinit streams get_stream reasm sseq_expected] in E.
  set (cs := filter (on_stream st) (accepted_chunks (rinit base) es)) in *.
  assert (Hcs : forall c, In c cs -> In (EvData c) es /\ sid c = st).
  { intros c Hc. apply filter_In in Hc as [Hc Ho]. split; [now apply accepted_chunks_in in Hc|]. now apply Z.eqb_eq in Ho. }
  assert (Ics : Forall (fun x : chunk => inw base N (tsn x)) cs).
  { apply Forall_forall. intros c Hc. destruct (Hcs c Hc) as [He _]. rewrite Forall_forall in Hes. exact (Hes _ He). }
  assert (Hsent : incl cs (all_chunks sm)) by (intros c Hc; rewrite Hall; destruct (Hcs c Hc); auto).
  assert (Hoinj : forall a b, In a cs -> In b cs -> offc base a = offc base b -> a = b).
  { intros a b Ha Hb0 Eo. rewrite Forall_forall in Ics. apply Hinj; [now apply Hsent|now apply Hsent|].
    apply (off_inj base N); auto. }
  assert (Hnd : NoDup cs) by (apply NoDup_filter; apply (accepted_chunks_nodup base N Hb HN); [apply (inv_rinit base N Hb HN)|exact Hes]).
  destruct (stream_no_reuse base N Hb HN cs 0 Ics Hoinj Hnd) as (Qf & D & ED & HnD & HiD & HcD).
  rewrite srun_srunD, ED in E. injection E as E.
  exists D. split; [now symmetry|]. split.
  - apply NoDup_concat_runs; [exact HnD|]. eapply Forall_impl; [|exact HcD]. intros f. apply complete_run_nonempty.
  - apply Forall_forall. intros f Hf. rewrite Forall_forall in HcD. pose proof (HcD f Hf) as Hc.
    destruct (complete_run_is_sent sm (rev f) dchunk Hok Hinj Hc) as (m & Hm & Erev & _).
    + intros x Hx. apply Hsent, HiD. apply in_concat. exists f. split; [exact Hf|]. now apply in_rev.
    + rewrite rev_involutive in Erev. rewrite Erev, <- (sent_of_frags (mkS t0 []) msgs). now apply in_map.
Qed.
