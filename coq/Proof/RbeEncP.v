(* Proofs about Model/Rbe.v (property C15): every estimate reported along a run
   is small enough for REMB, and its SSRC list fits the one-byte count. *)
From Coq Require Import ZArith List Bool Lia.
From AV Require Import Lib.Sx Lib.Bytes Model.RateCounter Model.Aimd Model.Rbe
  Proof.RateCounterP Proof.AimdP Proof.RbeP Proof.RbeRembP.
Import ListNotations.
Local Open Scope Z_scope.

(* ---------------------------------------------------------------- latest_estimated_throughput *)
Lemma bitrate_step_latest s now f s' r : bitrate_step s now f = Ok (s', r) -> latest s' = latest s.
Proof.
  unfold bitrate_step, finish.
  destruct (st s), (near_max s && negb (f_clear f)), (last_change s), (near_max_rate_increase_raises s);
    intros H; try discriminate; injection H as <- _; reflexivity.
Qed.

Lemma update_latest s u et now f s' r :
  update s u et now f = Ok (s', r) -> latest s' = latest s \/ et = Some (latest s').
Proof.
  unfold update. destruct (init_step_keeps s et now) as (_ & _ & T1 & _).
  destruct (negb (cb_init (init_step s et now)) && negb (is_over u)).
  - intros [= <- _]. left. exact T1.
  - intros H. apply bitrate_step_latest in H. rewrite H.
    destruct (helper_step_keeps (state_step (init_step s et now) u now) et) as (_ & _ & _ & _ & _ & _ & T3).
    destruct (state_step_keeps (init_step s et now) u now) as (_ & _ & _ & T2 & _).
    rewrite T3. unfold throughput_of. destruct et as [e|]; [right; reflexivity|left; congruence].
Qed.

(* ---------------------------------------------------------------- SSRC lists *)
Definition u32 (x : Z) : Prop := 0 <= x < 4294967296.

Lemma lastn_length {A} n (l : list A) : (length (lastn n l) <= n)%nat.
Proof. unfold lastn. rewrite skipn_length. lia. Qed.

Lemma Forall_lastn {A} (P : A -> Prop) n l : Forall P l -> Forall P (lastn n l).
Proof.
  intros H. unfold lastn. rewrite <- (firstn_skipn (length l - n) l) in H.
  apply Forall_app in H. apply H.
Qed.

Lemma Forall_note (P : Z -> Prop) seen k : Forall P seen -> P k -> Forall P (note seen k).
Proof.
  intros Hs Hk. unfold note. destruct (existsb (Z.eqb k) seen); [exact Hs|].
  apply Forall_app. split; [exact Hs|]. constructor; [exact Hk|constructor].
Qed.

(* ---------------------------------------------------------------- estimates stay small *)
Definition sum_sizes (l : list arrival) : Z := fold_right (fun a acc => a_size a + acc) 0 l.

Definition good_out {B} (M : Z) (o : option (Z * list Z) * B) : Prop :=
  match fst o with
  | None => True
  | Some (e, ss) => 0 <= e <= M /\ (length ss <= 255)%nat /\ Forall u32 ss
  end.

Lemma sum_sizes_nonneg l : Forall (fun a => 0 <= a_size a) l -> 0 <= sum_sizes l.
Proof.
  induction l as [|a l IH]; intros H; cbn [sum_sizes fold_right]; [lia|].
  apply Forall_cons_iff in H. destruct H as [H1 H2]. specialize (IH H2). unfold sum_sizes in IH. lia.
Qed.

Lemma enc_run M C l : forall s smp last prev seen used,
  30000000 <= M -> C * 24000 + 20002 <= M * 2 ->
  RInv s smp last prev seen -> nondecreasing (ocons last (map a_time l)) ->
  Forall (fun a => 0 <= a_size a) l -> fl_admissible s l ->
  Forall u32 seen -> Forall (fun a => u32 (a_ssrc a)) l ->
  vsum_all smp <= used -> used + sum_sizes l <= C -> latest (control s) <= C * 8000 -> prev <= M ->
  exists s' outs, run s l = (s', outs, 0) /\ Forall (good_out M) outs.
Proof.
  induction l as [|a l IH];
    intros s smp last prev seen used HM HC (H0 & Hv & HA & Hp & Hk) Hm Hsz Hfl Hseen Hss Hused Hsum Hlat Hprev;
    cbn [run]; [eauto|].
  assert (Hle : le_opt last (a_time a)).
  { destruct last as [t|]; cbn [le_opt]; [|exact I]. cbn in Hm. lia. }
  assert (Hm' : nondecreasing (ocons (Some (a_time a)) (map a_time l))).
  { destruct last as [t|]; cbn [ocons map] in Hm |- *; [apply nondecreasing_cons in Hm|]; exact Hm. }
  apply Forall_cons_iff in Hsz. destruct Hsz as [Hs0 Hsz'].
  apply Forall_cons_iff in Hss. destruct Hss as [Hss0 Hss'].
  pose proof (sum_sizes_nonneg l Hsz') as Hsn.
  cbn [sum_sizes fold_right] in Hsum. fold (sum_sizes l) in Hsum.
  destruct (rbe_add_ok s smp last a H0 Hle) as (s1 & o & smp1 & E & H01 & Hk1 & Hv1 & _ & Hc).
  cbn [fl_admissible] in Hfl. rewrite E in *. destruct Hfl as [Hfl1 Hfl].
  destruct (Hv1 Hv Hs0) as [Hv1' Hvs]. clear Hv1. rename Hv1' into Hv1.
  assert (Hseen1 : Forall u32 (keys (ssrcs s1))).
  { rewrite Hk1, Hk. apply Forall_note; assumption. }
  assert (HAt : exists t, t <= a_time a /\ AInv (control s) t).
  { destruct last as [t|]; [exists t; split; [exact Hle|exact HA]|].
    exists (a_time a). split; [lia|]. rewrite HA. apply AInv_init. }
  destruct HAt as (t & Ht & HAt).
  destruct Hc as [[Ec ->]|(et & r & _ & Het & Eu & ->)].
  - destruct (IH s1 smp1 (Some (a_time a)) prev (keys (ssrcs s1)) (used + a_size a) HM HC) as (s2 & outs & E2 & G2);
      try assumption; try lia.
    + split; [exact H01|]. split; [exact Hv1|]. rewrite Ec.
      split; [eapply AInv_mono; eauto|]. split; [exact Hp|reflexivity].
    + rewrite Ec. exact Hlat.
    + rewrite E2. eexists; eexists; split; [reflexivity|]. constructor; [exact I|exact G2].
  - destruct (update_spec (control s) t (a_verdict a) et (a_time a) (a_fl a) HAt Ht
                (fun x Hx => proj1 (Het Hv1 x Hx))) as (c' & r' & Eu' & Hspec).
    rewrite Eu in Eu'. injection Eu' as <- <-.
    assert (Hlat1 : latest (control s1) <= C * 8000).
    { destruct (update_latest _ _ _ _ _ _ _ Eu) as [El|El]; [lia|].
      destruct (Het Hv1 _ El) as [_ Hx]. lia. }
    destruct r as [e|]; cbn [est_out].
    + destruct Hspec as (Hcb & Hlt & Hrest).
      specialize (Hfl1 ltac:(discriminate)). rewrite Hlt in Hfl1.
      destruct (Hrest Hfl1) as (HA1 & He0 & Hrise & Hover).
      destruct Hfl1 as (Fc & Fd & _). rewrite <- Hlt in Fc.
      assert (HeM : e <= M).
      { destruct (Z.lt_ge_cases (cb (control s)) e) as [Hlt'|Hge]; [specialize (Hrise Hlt'); lia|lia]. }
      destruct (IH s1 smp1 (Some (a_time a)) e (keys (ssrcs s1)) (used + a_size a) HM HC) as (s2 & outs & E2 & G2);
        try assumption; try lia.
      * split; [exact H01|]. split; [exact Hv1|]. split; [exact HA1|]. split; [exact Hcb|reflexivity].
      * rewrite E2. eexists; eexists; split; [reflexivity|]. constructor; [|exact G2].
        unfold good_out; cbn [fst]. split; [lia|]. split; [apply lastn_length|].
        apply Forall_lastn. exact Hseen1.
    + destruct Hspec as (Hcb & _ & HA1).
      destruct (IH s1 smp1 (Some (a_time a)) prev (keys (ssrcs s1)) (used + a_size a) HM HC) as (s2 & outs & E2 & G2);
        try assumption; try lia.
      * split; [exact H01|]. split; [exact Hv1|]. split; [exact HA1|]. split; [congruence|reflexivity].
      * rewrite E2. eexists; eexists; split; [reflexivity|]. constructor; [exact I|exact G2].
Qed.

(* with less than 2^60 payload bytes in the whole history every estimate is below 2^80 *)
Theorem rbe_estimates_small : forall l,
  nondecreasing (map a_time l) -> Forall (fun a => 0 <= a_size a) l -> fl_admissible rbe_init l ->
  Forall (fun a => u32 (a_ssrc a)) l -> sum_sizes l <= 2 ^ 60 ->
  exists s outs, run rbe_init l = (s, outs, 0) /\ Forall (good_out (2 ^ 80)) outs.
Proof.
  intros l Hm Hs Hf Hu Hsum.
  apply (enc_run (2 ^ 80) (2 ^ 60) l rbe_init [] None 30000000 [] 0); try assumption.
  - change (2 ^ 80) with 1208925819614629174706176. lia.
  - change (2 ^ 80) with 1208925819614629174706176. change (2 ^ 60) with 1152921504606846976. lia.
  - split; [exact RInv0_init|]. split; [intros t v []|]. split; [reflexivity|]. split; reflexivity.
  - constructor.
  - unfold vsum_all. cbn. lia.
  - cbn [rbe_init control aimd_init latest]. change (2 ^ 60) with 1152921504606846976. lia.
  - change (2 ^ 80) with 1208925819614629174706176. lia.
Qed.

(* ... and therefore pack_remb_fci succeeds on every estimate the run returns,
   and the packet decodes to the same SSRC list and a value v <= estimate *)
Definition encodable_out {B} (o : option (Z * list Z) * B) : Prop :=
  match fst o with
  | None => True
  | Some (e, ss) =>
      0 <= e < 2 ^ 81 /\ (length ss <= 255)%nat /\
      exists bs v, pack_remb_fci e ss = Ok bs /\ unpack_remb_fci bs = Ok (v, ss) /\ v <= e
  end.

Theorem rbe_estimates_encodable : forall l,
  nondecreasing (map a_time l) -> Forall (fun a => 0 <= a_size a) l -> fl_admissible rbe_init l ->
  Forall (fun a => 0 <= a_ssrc a < 4294967296) l -> sum_sizes l <= 2 ^ 60 ->
  exists s outs, run rbe_init l = (s, outs, 0) /\ Forall encodable_out outs.
Proof.
  intros l Hm Hs Hf Hu Hsum.
  destruct (rbe_estimates_small l Hm Hs Hf Hu Hsum) as (s & outs & E & G).
  exists s, outs. split; [exact E|]. eapply Forall_impl; [|exact G].
  intros [[[e ss]|] lat]; unfold good_out, encodable_out; cbn [fst]; [|auto].
  intros (He & Hl & Hss).
  assert (He81 : 0 <= e < 2 ^ 81).
  { change (2 ^ 80) with 1208925819614629174706176 in He.
    change (2 ^ 81) with 2417851639229258349412352. lia. }
  destruct (remb_roundtrip e ss He81 Hl Hss) as (bs & m & k & Ep & _ & _ & Eu & _ & _ & Hle & _).
  split; [exact He81|]. split; [exact Hl|]. exists bs, (m * 2 ^ k). split; [exact Ep|]. split; [exact Eu|lia].
Qed.
