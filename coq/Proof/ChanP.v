(* C13: readyState only moves forward, at most one open / close event per channel,
   for every input list (any interleaving of application calls, deferred tasks and
   received messages). *)
From Coq Require Import ZArith List Bool Lia Arith.
From AV Require Import Lib.Bytes Gen.Utils Gen.SctpConst Model.Chan.
Import ListNotations.
Local Open Scope Z_scope.

(* ---------------------------------------------------------------- basics *)
Lemma upd_length {A} (l : list A) n x : length (upd l n x) = length l.
Proof. revert n. induction l as [|y l IH]; intros [|n]; cbn [upd length]; auto. Qed.

Lemma nth_upd {A} (l : list A) n m x d : nth m (upd l n x) d = if (Nat.eqb n m && Nat.ltb n (length l))%bool then x else nth m l d.
Proof.
  revert n m. induction l as [|y l IH]; intros n m.
  - destruct n; cbn [upd nth length]; now rewrite andb_false_r.
  - destruct n as [|n], m as [|m]; cbn [upd nth length Nat.eqb andb]; try reflexivity.
    rewrite IH. change (Nat.ltb (S n) (S (length l))) with (Nat.ltb n (length l)). reflexivity.
Qed.

Definition rk (s : st) (h : nat) : Z :=
  if Nat.ltb h (length (chans s)) then rank (ch_state (getc s h)) else 0.

Definition is_open (h : nat) (e : event) : bool := match e with EvOpen h' => Nat.eqb h h' | _ => false end.
Definition is_close (h : nat) (e : event) : bool := match e with EvClose h' => Nat.eqb h h' | _ => false end.
Definition opens (h : nat) (evs : list event) : nat := length (filter (is_open h) evs).
Definition closes (h : nat) (evs : list event) : nat := length (filter (is_close h) evs).

Lemma opens_app h a b : opens h (a ++ b) = (opens h a + opens h b)%nat.
Proof. unfold opens. now rewrite filter_app, app_length. Qed.
Lemma closes_app h a b : closes h (a ++ b) = (closes h a + closes h b)%nat.
Proof. unfold closes. now rewrite filter_app, app_length. Qed.

(* handles stored in the table / queue exist *)
Definition wf (s : st) : Prop :=
  Forall (fun kv => (snd kv < length (chans s))%nat) (table s) /\
  Forall (fun it => (fst (fst it) < length (chans s))%nat) (queue s).

Definition okstep (s : st) (evs : list event) (s' : st) : Prop :=
  (length (chans s) <= length (chans s'))%nat /\
  forall h, rk s h <= rk s' h /\
            (opens h evs <= 1)%nat /\ ((1 <= opens h evs)%nat -> rk s h = 0 /\ 1 <= rk s' h) /\
            (closes h evs <= 1)%nat /\ ((1 <= closes h evs)%nat -> rk s h < 3 /\ rk s' h = 3).

Definition good (s : st) (evs : list event) (s' : st) : Prop := wf s -> wf s' /\ okstep s evs s'.

Lemma rk_range s h : 0 <= rk s h <= 3.
Proof. unfold rk. destruct (Nat.ltb _ _); [destruct (ch_state _); cbn; lia|lia]. Qed.

Lemma okstep_refl s : okstep s [] s.
Proof. split; [lia|]. intros h. cbn. repeat split; lia. Qed.

Lemma good_refl s : good s [] s.
Proof. intros H. split; [exact H|apply okstep_refl]. Qed.

Lemma okstep_trans s e1 s1 e2 s2 : okstep s e1 s1 -> okstep s1 e2 s2 -> okstep s (e1 ++ e2) s2.
Proof.
  intros [L1 H1] [L2 H2]. split; [lia|]. intros h.
  destruct (H1 h) as (A1 & B1 & C1 & D1 & E1). destruct (H2 h) as (A2 & B2 & C2 & D2 & E2).
  rewrite opens_app, closes_app.
  pose proof (rk_range s h). pose proof (rk_range s1 h). pose proof (rk_range s2 h).
  repeat split; try lia; intros Hn; lia.
Qed.

Lemma good_trans s e1 s1 e2 s2 : good s e1 s1 -> good s1 e2 s2 -> good s (e1 ++ e2) s2.
Proof.
  intros G1 G2 W. destruct (G1 W) as [W1 O1]. destruct (G2 W1) as [W2 O2].
  split; [exact W2|eapply okstep_trans; eauto].
Qed.

(* steps that change no rank and emit no open / close *)
Definition silent (evs : list event) : Prop := forall h, opens h evs = 0%nat /\ closes h evs = 0%nat.

Lemma okstep_frame s evs s' :
  length (chans s) = length (chans s') -> (forall h, rk s h = rk s' h) -> silent evs -> okstep s evs s'.
Proof.
  intros L R S. split; [lia|]. intros h. destruct (S h) as [-> ->]. rewrite (R h). repeat split; lia.
Qed.

Lemma silent_nil : silent [].
Proof. intros h. now cbn. Qed.
Lemma silent_app a b : silent a -> silent b -> silent (a ++ b).
Proof. intros A B h. rewrite opens_app, closes_app. destruct (A h), (B h). lia. Qed.
Lemma silent_one e : (forall h, is_open h e = false /\ is_close h e = false) -> silent [e].
Proof. intros H h. destruct (H h) as [A B]. unfold opens, closes. cbn. now rewrite A, B. Qed.

Ltac silent_tac :=
  repeat (apply silent_app || apply silent_nil);
  try (apply silent_one; intros ?; split; reflexivity).

(* ---------------------------------------------------------------- getc / setc *)
Lemma getc_setc s h c h' : getc (setc s h c) h' =
  if (Nat.eqb h h' && Nat.ltb h (length (chans s)))%bool then c else getc s h'.
Proof. unfold getc, setc. cbn [chans]. apply nth_upd. Qed.

Lemma setc_length s h c : length (chans (setc s h c)) = length (chans s).
Proof. unfold setc. cbn [chans]. apply upd_length. Qed.

Lemma rk_setc_same_state s h c : ch_state c = ch_state (getc s h) -> forall h', rk (setc s h c) h' = rk s h'.
Proof.
  intros E h'. unfold rk. rewrite setc_length, getc_setc.
  destruct (Nat.ltb h' (length (chans s))) eqn:L; [|reflexivity].
  destruct (Nat.eqb_spec h h') as [->|_]; cbn [andb]; [|reflexivity].
  rewrite L. now rewrite E.
Qed.

Lemma wf_setc s h c : wf s -> wf (setc s h c).
Proof. intros [A B]. split; cbn [table queue setc]; [eapply Forall_impl; [|exact A]|eapply Forall_impl; [|exact B]];
  intros x Hx; rewrite setc_length; exact Hx. Qed.

(* ---------------------------------------------------------------- primitives *)
Lemma set_ready_good s h r : (h < length (chans s))%nat -> rank (ch_state (getc s h)) <= rank r ->
  good s (snd (set_ready s h r)) (fst (set_ready s h r)).
Proof.
  intros Hh Hr W. unfold set_ready, rstate_eqb.
  destruct (Z.eqb_spec (rank (ch_state (getc s h))) (rank r)) as [E|Hne]; cbn [fst snd].
  - split; [exact W|apply okstep_refl].
  - split; [now apply wf_setc|].
    split; [rewrite setc_length; lia|]. intros h'.
    assert (Hrk : rk (setc s h (with_state (getc s h) r)) h' = if Nat.eqb h h' then rank r else rk s h').
    { unfold rk. rewrite setc_length, getc_setc. destruct (Nat.eqb_spec h h') as [<-|Hn]; cbn [andb].
      - apply Nat.ltb_lt in Hh. rewrite Hh. reflexivity.
      - reflexivity. }
    rewrite Hrk.
    assert (Hcur : Nat.eqb h h' = true -> rk s h' = rank (ch_state (getc s h))).
    { intros E. apply Nat.eqb_eq in E. subst h'. unfold rk. apply Nat.ltb_lt in Hh. now rewrite Hh. }
    destruct (Nat.eqb h h') eqn:Eh.
    + specialize (Hcur eq_refl). apply Nat.eqb_eq in Eh. subst h'.
      destruct r; unfold opens, closes; cbn [filter is_open is_close length]; rewrite ?Nat.eqb_refl; cbn [length];
        destruct (ch_state (getc s h)); cbn [rank] in *; repeat split; try lia.
    + pose proof (rk_range s h').
      assert (Eh' : Nat.eqb h' h = false) by (rewrite Nat.eqb_sym; exact Eh).
      destruct r; unfold opens, closes; cbn [filter is_open is_close]; rewrite ?Eh'; cbn [length]; repeat split; lia.
Qed.

Lemma add_buffered_good s h a : good s (snd (add_buffered s h a)) (fst (add_buffered s h a)).
Proof.
  intros W. unfold add_buffered. cbn [fst snd]. split; [now apply wf_setc|].
  apply okstep_frame.
  - now rewrite setc_length.
  - intros h'. symmetry. now apply rk_setc_same_state.
  - destruct (_ && _); silent_tac.
Qed.

Lemma good_frame s evs s' :
  (wf s -> wf s') -> length (chans s) = length (chans s') -> (forall h, rk s h = rk s' h) -> silent evs ->
  good s evs s'.
Proof. intros HW L R S W. split; [auto|now apply okstep_frame]. Qed.

Lemma pair_eta {A B} (p : A * B) : p = (fst p, snd p).
Proof. now destruct p. Qed.

(* ---------------------------------------------------------------- flush *)
Lemma rk_set_table s t h : rk (set_table s t) h = rk s h. Proof. reflexivity. Qed.
Lemma rk_set_queue s q h : rk (set_queue s q) h = rk s h. Proof. reflexivity. Qed.

Lemma tset_handles t k v n : Forall (fun kv : Z * nat => (snd kv < n)%nat) t -> (v < n)%nat ->
  Forall (fun kv : Z * nat => (snd kv < n)%nat) (tset t k v).
Proof.
  intros H Hv. unfold tset. destruct (tget t k).
  - rewrite Forall_map. eapply Forall_impl; [|exact H]. intros [a b] Hb. cbn [fst snd] in *.
    destruct (k =? a); cbn [snd]; lia.
  - apply Forall_app. split; [exact H|]. constructor; [exact Hv|constructor].
Qed.

Lemma tdel_handles t k n : Forall (fun kv : Z * nat => (snd kv < n)%nat) t ->
  Forall (fun kv : Z * nat => (snd kv < n)%nat) (tdel t k).
Proof.
  induction t as [|[a b] t IH]; cbn [tdel]; intros H; [constructor|].
  inversion H; subst. destruct (k =? a); [now apply IH|constructor; [assumption|now apply IH]].
Qed.

Lemma tget_handles t k v n : Forall (fun kv : Z * nat => (snd kv < n)%nat) t -> tget t k = Some v -> (v < n)%nat.
Proof.
  induction t as [|[a b] t IH]; cbn [tget]; intros H E; [discriminate|].
  inversion H; subst. destruct (k =? a); [injection E as <-; assumption|now apply IH].
Qed.

Lemma flush_loop_good : forall fuel s oracle,
  good s (snd (flush_loop fuel s oracle)) (fst (flush_loop fuel s oracle)).
Proof.
  induction fuel as [|f IH]; intros s oracle; cbn [flush_loop]; [apply good_refl|].
  destruct (queue s) as [|[[h pp] data] q'] eqn:Eq; [apply good_refl|].
  intros W. assert (Hh : (h < length (chans s))%nat).
  { destruct W as [_ B]. rewrite Eq in B. inversion B; subst. assumption. }
  revert W. 
  set (s1 := set_queue s q').
  (* id assignment *)
  set (p2 := match ch_id (getc s1 h) with
             | Some i => (s1, i)
             | None => let i := pick_id (S (length (table s1))) (table s1) (dc_id s1) in
                       (setc (set_table s1 (tset (table s1) i h)) h (with_id (getc s1 h) (Some i)), i)
             end).
  assert (G2 : good s [] (fst p2)).
  { apply good_frame.
    - intros [A B]. unfold p2. destruct (ch_id (getc s1 h)); cbn [fst].
      + split; [exact A|]. cbn [queue s1 set_queue]. rewrite Eq in B. now inversion B.
      + apply wf_setc. split; cbn [table queue set_table s1 set_queue chans].
        * apply tset_handles; [exact A|exact Hh].
        * rewrite Eq in B. now inversion B.
    - unfold p2. destruct (ch_id (getc s1 h)); cbn [fst]; [reflexivity|]. now rewrite setc_length.
    - intros h'. unfold p2. destruct (ch_id (getc s1 h)); cbn [fst]; [reflexivity|].
      rewrite rk_setc_same_state; reflexivity.
    - apply silent_nil. }
  destruct p2 as [s2 sidv] eqn:Ep2. cbn [fst] in G2.
  set (p3 := if pp =? WEBRTC_DCEP then (s2, [EvSend sidv pp data true None None])
             else let '(s', e) := add_buffered s2 h (- len data) in
                  (s', EvSend sidv pp data (ch_ordered (getc s2 h)) (ch_maxrt (getc s2 h))
                              match ch_maxlt (getc s2 h) with Some 0 => None | x => x end :: e)).
  assert (G3 : good s2 (snd p3) (fst p3)).
  { unfold p3. destruct (pp =? WEBRTC_DCEP).
    - cbn [fst snd]. apply good_frame; auto. silent_tac.
    - rewrite (pair_eta (add_buffered s2 h (- len data))). cbn [fst snd].
      change (?e :: snd ?x) with ([e] ++ snd x).
      apply (good_trans s2 [_] s2); [apply good_frame; auto; silent_tac|apply add_buffered_good]. }
  destruct p3 as [s3 evs] eqn:Ep3. cbn [fst snd] in G3.
  destruct (match oracle with b :: _ => b | [] => false end).
  - cbn [fst snd]. intros W. apply (good_trans s [] s2 evs s3 G2 G3 W).
  - rewrite (pair_eta (flush_loop f s3 (tl oracle))). cbn [fst snd].
    intros W. apply (good_trans s [] s2 _ _ G2 (good_trans _ _ _ _ _ G3 (IH s3 (tl oracle))) W).
Qed.

Lemma flush_good s oracle : good s (snd (flush s oracle)) (fst (flush s oracle)).
Proof. unfold flush. destruct (_ && _); [apply flush_loop_good|apply good_refl]. Qed.

(* ---------------------------------------------------------------- remaining operations *)
Lemma good_eq s evs s' p : p = (s', evs) -> good s (snd p) (fst p) -> good s evs s'.
Proof. intros ->. auto. Qed.

Lemma wf_mk s e d t q rq rr rs rp :
  Forall (fun kv : Z * nat => (snd kv < length (chans s))%nat) t ->
  Forall (fun it : nat * Z * bytes => (fst (fst it) < length (chans s))%nat) q ->
  wf (mkSt e d (chans s) t q rq rr rs rp).
Proof. intros A B. split; assumption. Qed.

Lemma chan_closed_good s i : good s (snd (chan_closed s i)) (fst (chan_closed s i)).
Proof.
  unfold chan_closed. destruct (tget (table s) i) as [h|] eqn:E; [|apply good_refl].
  intros W. assert (Hh : (h < length (chans s))%nat) by (destruct W as [A _]; eapply tget_handles; eauto).
  assert (G1 : good s [] (set_table s (tdel (table s) i))).
  { apply good_frame; auto; [|apply silent_nil]. intros [A B]. split; [now apply tdel_handles|exact B]. }
  set (s1 := set_table s (tdel (table s) i)) in *.
  set (s2 := set_queue s1 (filter (fun it => negb (Nat.eqb (fst (fst it)) h)) (queue s1))).
  assert (G2 : good s1 [] s2).
  { apply good_frame; auto; [|apply silent_nil]. intros [A B]. split; [exact A|].
    cbn [queue s2 set_queue chans]. rewrite Forall_forall in *. intros x Hx. apply filter_In in Hx as [Hx _]. now apply B. }
  refine (good_trans s [] _ _ _ G1 (good_trans s1 [] s2 _ _ G2 _) W).
  apply set_ready_good; [exact Hh|destruct (ch_state _); cbn; lia].
Qed.

Lemma close_local_good s1 h id : (h < length (chans s1))%nat ->
  good s1 (snd (close_local s1 h id)) (fst (close_local s1 h id)).
Proof.
  intros Hh. unfold close_local.
  set (s2 := set_queue s1 (filter (fun it => negb (Nat.eqb (fst (fst it)) h)) (queue s1))).
  assert (G2 : good s1 [] s2).
  { apply good_frame; auto; [|apply silent_nil]. intros [A B]. split; [exact A|].
    cbn [queue s2 set_queue chans]. rewrite Forall_forall in *. intros x Hx. apply filter_In in Hx as [Hx _]. now apply B. }
  destruct id as [i|].
  - destruct (tget (table s2) i) eqn:Et.
    + assert (G3 : good s2 [] (set_table s2 (tdel (table s2) i))).
      { apply good_frame; auto; [|apply silent_nil]. intros [A B]. split; [now apply tdel_handles|exact B]. }
      refine (good_trans s1 [] s2 _ _ G2 (good_trans s2 [] _ _ _ G3 _)).
      apply set_ready_good; [exact Hh|destruct (ch_state _); cbn; lia].
    + cbn [fst snd]. refine (good_trans s1 [] s2 _ _ G2 _). apply good_frame; auto. silent_tac.
  - refine (good_trans s1 [] s2 _ _ G2 _).
    apply set_ready_good; [exact Hh|destruct (ch_state _); cbn; lia].
Qed.

Lemma set_ready_length s h r : length (chans (fst (set_ready s h r))) = length (chans s).
Proof. unfold set_ready. destruct (rstate_eqb _ _); cbn [fst]; [reflexivity|apply setc_length]. Qed.

Lemma close_body_good s h hs : (h < length (chans s))%nat -> rank (ch_state (getc s h)) <= 2 ->
  good s (snd (close_body s h hs)) (fst (close_body s h hs)).
Proof.
  intros Hh Hr. unfold close_body.
  rewrite (pair_eta (set_ready s h Closing)).
  assert (G1 : good s (snd (set_ready s h Closing)) (fst (set_ready s h Closing)))
    by (apply set_ready_good; [exact Hh|exact Hr]).
  pose proof (set_ready_length s h Closing) as L1.
  set (s1 := fst (set_ready s h Closing)) in *. set (e1 := snd (set_ready s h Closing)) in *.
  destruct (established s1 || hs) eqn:Ees; destruct (ch_id (getc s h)) as [i|] eqn:Eid.
  - cbn [fst snd]. refine (good_trans s e1 s1 _ _ G1 _).
    apply good_frame; auto; try (intros [A B]; split; assumption). destruct (Nat.eqb _ 1); silent_tac.
  - rewrite (pair_eta (close_local s1 h None)). cbn [fst snd].
    refine (good_trans s e1 s1 _ _ G1 _). apply close_local_good. lia.
  - rewrite (pair_eta (close_local s1 h (Some i))). cbn [fst snd].
    refine (good_trans s e1 s1 _ _ G1 _). apply close_local_good. lia.
  - rewrite (pair_eta (close_local s1 h None)). cbn [fst snd].
    refine (good_trans s e1 s1 _ _ G1 _). apply close_local_good. lia.
Qed.

Lemma chan_close_good s h hs : (h < length (chans s))%nat -> good s (snd (chan_close s h hs)) (fst (chan_close s h hs)).
Proof.
  intros Hh. unfold chan_close.
  destruct (ch_state (getc s h)) eqn:Est; try apply good_refl; apply close_body_good; auto; rewrite Est; cbn; lia.
Qed.

Lemma add_chan_good s c : ch_state c = Connecting ->
  good s [] (fst (add_chan s c)) /\ snd (add_chan s c) = length (chans s) /\
  length (chans (fst (add_chan s c))) = S (length (chans s)).
Proof.
  intros Hc. unfold add_chan. cbn [fst snd chans]. split; [|split; [reflexivity|rewrite app_length; cbn; lia]].
  intros [A B]. split.
  - split; cbn [table queue chans]; [eapply Forall_impl; [|exact A]|eapply Forall_impl; [|exact B]];
      intros x Hx; cbv beta in *; rewrite app_length; cbn [length]; lia.
  - split; [cbn [chans]; rewrite app_length; lia|]. intros h.
    assert (E : rk (mkSt (established s) (dc_id s) (chans s ++ [c]) (table s) (queue s) (rq_queue s)
                         (rq_request s) (rq_req_seq s) (rq_resp_seq s)) h = rk s h).
    { unfold rk, getc. cbn [chans]. rewrite app_length. cbn [length].
      destruct (Nat.ltb_spec h (length (chans s))) as [Hl|Hl].
      - assert (X : Nat.ltb h (length (chans s) + 1) = true) by (apply Nat.ltb_lt; lia). rewrite X.
        now rewrite app_nth1.
      - destruct (Nat.ltb_spec h (length (chans s) + 1)) as [Hl2|Hl2]; [|reflexivity].
        assert (h = length (chans s)) by lia. subst h. rewrite app_nth2 by lia. rewrite Nat.sub_diag. cbn [nth].
        now rewrite Hc. }
    rewrite E. cbn. repeat split; lia.
Qed.

Lemma create_good s neg id ordered maxrt maxlt label proto :
  good s (snd (create s neg id ordered maxrt maxlt label proto)) (fst (create s neg id ordered maxrt maxlt label proto)).
Proof.
  unfold create.
  set (c := mkChan id Connecting 0 0 neg ordered maxrt maxlt label proto).
  destruct (match id with Some i => match tget (table s) i with Some _ => true | None => false end | None => false end).
  { cbn [fst snd]. apply good_frame; auto. silent_tac. }
  destruct (add_chan_good s c eq_refl) as (G1 & Eh & L1).
  rewrite (pair_eta (add_chan s c)). rewrite Eh.
  set (s1 := fst (add_chan s c)) in *.
  set (s2 := match id with Some i => set_table s1 (tset (table s1) i (length (chans s))) | None => s1 end).
  assert (G2 : good s1 [] s2).
  { apply good_frame; unfold s2; destruct id; auto; try apply silent_nil.
    intros [A B]. split; [|exact B]. cbn [table set_table chans]. apply tset_handles; [exact A|lia]. }
  assert (L2 : length (chans s2) = S (length (chans s))) by (unfold s2; destruct id; exact L1).
  assert (St2 : ch_state (getc s2 (length (chans s))) = Connecting).
  { assert (getc s2 (length (chans s)) = getc s1 (length (chans s))) by (unfold s2; destruct id; reflexivity).
    rewrite H. unfold s1, add_chan, getc. cbn [fst chans]. rewrite app_nth2 by lia. now rewrite Nat.sub_diag. }
  destruct neg.
  - destruct (established s2).
    + refine (good_trans s [] s1 _ _ G1 (good_trans s1 [] s2 _ _ G2 _)).
      apply set_ready_good; [lia|rewrite St2; cbn; lia].
    + cbn [fst snd]. change [] with (@nil event ++ [] ++ []).
      refine (good_trans s [] s1 _ _ G1 (good_trans s1 [] s2 _ _ G2 (good_refl s2))).
  - cbn [fst snd]. change [EvSchedFlush] with ([] ++ [] ++ [EvSchedFlush]).
    refine (good_trans s [] s1 _ _ G1 (good_trans s1 [] s2 _ _ G2 _)).
    apply good_frame; auto; [|silent_tac].
    intros [A B]. split; [exact A|]. cbn [queue set_queue chans]. apply Forall_app. split; [exact B|].
    constructor; [cbn [fst]; lia|constructor].
Qed.

Lemma app_send_good s h pp data : (h < length (chans s))%nat ->
  good s (snd (app_send s h pp data)) (fst (app_send s h pp data)).
Proof.
  intros Hh. unfold app_send. destruct (negb _).
  { cbn [fst snd]. apply good_frame; auto. silent_tac. }
  rewrite (pair_eta (add_buffered s h (len data))). cbn [fst snd].
  refine (good_trans s _ _ _ _ (add_buffered_good s h (len data)) _).
  apply good_frame; auto; [|silent_tac].
  intros [A B]. split; [exact A|]. cbn [queue set_queue chans]. apply Forall_app. split; [exact B|].
  constructor; [|constructor]. cbn [fst]. unfold add_buffered. cbn [fst]. rewrite setc_length. exact Hh.
Qed.

Lemma transmit_reconfig_good s : good s (snd (transmit_reconfig s)) (fst (transmit_reconfig s)).
Proof.
  unfold transmit_reconfig. destruct (rq_request s); [apply good_refl|].
  destruct (_ && _); [|apply good_refl]. cbn [fst snd].
  apply good_frame; auto; try (intros [A B]; split; assumption); silent_tac.
Qed.

Lemma reset_streams_good : forall strs s, good s (snd (reset_streams s strs)) (fst (reset_streams s strs)).
Proof.
  induction strs as [|i strs IH]; intros s; cbn [reset_streams]; [apply good_refl|].
  set (p1 := match tget (table s) i with Some h => chan_close s h false | None => (s, []) end).
  assert (G1 : good s (snd p1) (fst p1)).
  { unfold p1. destruct (tget (table s) i) as [h|] eqn:E; [|apply good_refl].
    intros W. assert (Hh : (h < length (chans s))%nat) by (destruct W as [A _]; eapply tget_handles; eauto).
    now apply chan_close_good. }
  rewrite (pair_eta p1). rewrite (pair_eta (reset_streams (fst p1) strs)). cbn [fst snd].
  eapply good_trans; [exact G1|apply IH].
Qed.

Lemma closed_streams_good : forall strs s, good s (snd (closed_streams s strs)) (fst (closed_streams s strs)).
Proof.
  induction strs as [|i strs IH]; intros s; cbn [closed_streams]; [apply good_refl|].
  rewrite (pair_eta (chan_closed s i)). rewrite (pair_eta (closed_streams (fst (chan_closed s i)) strs)). cbn [fst snd].
  eapply good_trans; [apply chan_closed_good|apply IH].
Qed.

Lemma recv_reset_request_good s seq strs :
  good s (snd (recv_reset_request s seq strs)) (fst (recv_reset_request s seq strs)).
Proof.
  unfold recv_reset_request. rewrite (pair_eta (reset_streams s strs)). cbn [fst snd].
  eapply good_trans; [apply reset_streams_good|].
  apply good_frame; auto; try (intros [A B]; split; assumption); silent_tac.
Qed.

Lemma recv_reset_response_good s seq :
  good s (snd (recv_reset_response s seq)) (fst (recv_reset_response s seq)).
Proof.
  unfold recv_reset_response. destruct (rq_request s) as [[rs strs]|]; [|apply good_refl].
  destruct (seq =? rs); [|apply good_refl].
  rewrite (pair_eta (closed_streams s strs)).
  set (s1 := fst (closed_streams s strs)).
  set (s2 := mkSt (established s1) (dc_id s1) (chans s1) (table s1) (queue s1) (rq_queue s1) None (rq_req_seq s1) (rq_resp_seq s1)).
  rewrite (pair_eta (transmit_reconfig s2)). cbn [fst snd].
  eapply good_trans; [apply closed_streams_good|].
  change (snd (transmit_reconfig s2)) with ([] ++ snd (transmit_reconfig s2)).
  apply (good_trans s1 [] s2); [|apply transmit_reconfig_good].
  apply good_frame; auto; try (intros [A B]; split; assumption); try apply silent_nil.
Qed.

Lemma open_negotiated_good : forall t s,
  Forall (fun kv : Z * nat => (snd kv < length (chans s))%nat) t ->
  good s (snd (open_negotiated s t)) (fst (open_negotiated s t)).
Proof.
  induction t as [|[k h] t IH]; intros s Ht; cbn [open_negotiated]; [apply good_refl|].
  inversion Ht as [|? ? Hh Ht']; subst. cbn [snd] in Hh.
  set (p1 := if ch_neg (getc s h) && rstate_eqb (ch_state (getc s h)) Connecting then set_ready s h Open else (s, [])).
  assert (G1 : good s (snd p1) (fst p1)).
  { unfold p1. destruct (ch_neg (getc s h)); cbn [andb]; [|apply good_refl].
    unfold rstate_eqb. destruct (Z.eqb_spec (rank (ch_state (getc s h))) (rank Connecting)) as [E|_]; [|apply good_refl].
    apply set_ready_good; [exact Hh|rewrite E; cbn; lia]. }
  assert (L1 : length (chans (fst p1)) = length (chans s)).
  { unfold p1. destruct (_ && _); [apply set_ready_length|reflexivity]. }
  rewrite (pair_eta p1). rewrite (pair_eta (open_negotiated (fst p1) t)). cbn [fst snd].
  eapply good_trans; [exact G1|apply IH]. rewrite L1. exact Ht'.
Qed.

Lemma set_established_good s : good s (snd (set_established s)) (fst (set_established s)).
Proof.
  unfold set_established.
  set (s0 := mkSt true (dc_id s) (chans s) (table s) (queue s) (rq_queue s) (rq_request s) (rq_req_seq s) (rq_resp_seq s)).
  rewrite (pair_eta (open_negotiated s0 (table s0))). cbn [fst snd].
  intros W.
  assert (G0 : good s [] s0) by (apply good_frame; auto; try (intros [A B]; split; assumption); try apply silent_nil).
  assert (G1 : good s0 (snd (open_negotiated s0 (table s0))) (fst (open_negotiated s0 (table s0)))).
  { apply open_negotiated_good. destruct W as [A _]. exact A. }
  set (tl := [EvSchedFlush] ++ match rq_queue (fst (open_negotiated s0 (table s0))) with [] => [] | _ => [EvSchedReconfig] end).
  change (snd (open_negotiated s0 (table s0)) ++ tl)
    with ([] ++ snd (open_negotiated s0 (table s0)) ++ tl).
  refine (good_trans s [] s0 _ _ G0 (good_trans _ _ _ _ _ G1 _) W).
  apply good_frame; auto. unfold tl. apply silent_app; [silent_tac|destruct (rq_queue (fst _)); silent_tac].
Qed.

Lemma close_queued_good : forall q s,
  Forall (fun it : nat * Z * bytes => (fst (fst it) < length (chans s))%nat) q ->
  good s (snd (close_queued s q)) (fst (close_queued s q)).
Proof.
  induction q as [|[[h pp] d] q IH]; intros s Hq; cbn [close_queued]; [apply good_refl|].
  inversion Hq as [|? ? Hh Hq']; subst. cbn [fst] in Hh.
  rewrite (pair_eta (set_ready s h Closed)). rewrite (pair_eta (close_queued (fst (set_ready s h Closed)) q)). cbn [fst snd].
  eapply good_trans; [apply set_ready_good; [exact Hh|destruct (ch_state _); cbn; lia]|].
  apply IH. rewrite set_ready_length. exact Hq'.
Qed.

Lemma set_closed_good s : good s (snd (set_closed s)) (fst (set_closed s)).
Proof.
  unfold set_closed.
  set (s0 := mkSt false (dc_id s) (chans s) (table s) (queue s) (rq_queue s) (rq_request s) (rq_req_seq s) (rq_resp_seq s)).
  rewrite (pair_eta (closed_streams s0 (map fst (table s0)))).
  set (s1 := fst (closed_streams s0 (map fst (table s0)))).
  rewrite (pair_eta (close_queued s1 (queue s1))). cbn [fst snd].
  intros W.
  assert (G0 : good s [] s0) by (apply good_frame; auto; try (intros [A B]; split; assumption); try apply silent_nil).
  pose proof (closed_streams_good (map fst (table s0)) s0) as G1. fold s1 in G1.
  destruct (G0 W) as [W0 _]. destruct (G1 W0) as [W1 _].
  assert (G2 : good s1 (snd (close_queued s1 (queue s1))) (fst (close_queued s1 (queue s1)))).
  { apply close_queued_good. destruct W1 as [_ B]. exact B. }
  set (s2 := fst (close_queued s1 (queue s1))) in *.
  assert (G3 : good s2 [] (set_queue s2 [])).
  { apply good_frame; auto; [|apply silent_nil]. intros [A B]. split; [exact A|constructor]. }
  change (snd (closed_streams s0 (map fst (table s0))) ++ snd (close_queued s1 (queue s1)))
    with ([] ++ snd (closed_streams s0 (map fst (table s0))) ++ snd (close_queued s1 (queue s1))).
  rewrite <- (app_nil_r (snd (close_queued s1 (queue s1)))).
  exact (good_trans s [] s0 _ _ G0 (good_trans _ _ _ _ _ G1 (good_trans _ _ _ _ _ G2 G3)) W).
Qed.

Lemma recv_dcep_good s sidv data ok oracle :
  good s (snd (recv_dcep s sidv data ok oracle)) (fst (recv_dcep s sidv data ok oracle)).
Proof.
  unfold recv_dcep. destruct data as [|msg_type rest]; [apply good_refl|].
  destruct (_ && _).
  - destruct (tget (table s) sidv); [apply good_refl|].
    destruct (dcep_parse_open (msg_type :: rest)) as [p|]; [|cbn [fst snd]; apply good_frame; auto; silent_tac].
    destruct (negb ok); [apply good_refl|].
    set (c := mkChan (Some sidv) Connecting 0 0 false (op_ordered p) (op_maxrt p) (op_maxlt p) (op_label p) (op_proto p)).
    destruct (add_chan_good s c eq_refl) as (G1 & Eh & L1).
    rewrite (pair_eta (add_chan s c)). rewrite Eh. set (s1 := fst (add_chan s c)) in *.
    set (h := length (chans s)) in *.
    assert (St1 : ch_state (getc s1 h) = Connecting).
    { unfold s1, add_chan, getc, h. cbn [fst chans]. rewrite app_nth2 by lia. now rewrite Nat.sub_diag. }
    rewrite (pair_eta (set_ready s1 h Open)).
    assert (G2 : good s1 (snd (set_ready s1 h Open)) (fst (set_ready s1 h Open)))
      by (apply set_ready_good; [lia|rewrite St1; cbn; lia]).
    pose proof (set_ready_length s1 h Open) as L2.
    set (s2 := fst (set_ready s1 h Open)) in *. set (e1 := snd (set_ready s1 h Open)) in *.
    set (s3 := set_table s2 (tset (table s2) sidv h)).
    set (s4 := set_queue s3 (queue s3 ++ [(h, WEBRTC_DCEP, be8 DATA_CHANNEL_ACK)])).
    assert (G3 : good s2 [] s4).
    { apply good_frame; auto; [|apply silent_nil]. intros [A B]. split.
      - cbn [table s4 s3 set_queue set_table chans]. apply tset_handles; [exact A|lia].
      - cbn [queue s4 s3 set_queue set_table chans]. apply Forall_app. split; [exact B|]. constructor; [cbn [fst]; lia|constructor]. }
    rewrite (pair_eta (flush s4 oracle)). cbn [fst snd].
    change (e1 ++ snd (flush s4 oracle) ++ [EvDataChannel h])
      with (e1 ++ snd (flush s4 oracle) ++ [EvDataChannel h]).
    rewrite <- (app_nil_l (e1 ++ snd (flush s4 oracle) ++ [EvDataChannel h])).
    refine (good_trans s [] s1 _ _ G1 (good_trans s1 e1 s2 _ _ G2 _)).
    rewrite <- (app_nil_l (snd (flush s4 oracle) ++ [EvDataChannel h])).
    refine (good_trans s2 [] s4 _ _ G3 (good_trans _ _ _ _ _ (flush_good s4 oracle) _)).
    apply good_frame; auto. silent_tac.
  - destruct (msg_type =? DATA_CHANNEL_ACK); [|apply good_refl].
    destruct (tget (table s) sidv) as [h|] eqn:E; [|apply good_refl].
    unfold rstate_eqb. destruct (Z.eqb_spec (rank (ch_state (getc s h))) (rank Connecting)) as [Er|_]; [|apply good_refl].
    intros W. assert (Hh : (h < length (chans s))%nat) by (destruct W as [A _]; eapply tget_handles; eauto).
    apply set_ready_good; auto. rewrite Er. cbn. lia.
Qed.

Lemma recv_user_good s sidv pp data ok :
  good s (snd (recv_user s sidv pp data ok)) (fst (recv_user s sidv pp data ok)).
Proof.
  unfold recv_user. destruct (tget (table s) sidv); [|apply good_refl].
  repeat (destruct (pp =? _)); cbn [fst snd]; try (destruct ok); apply good_frame; auto; silent_tac.
Qed.

Theorem step_good s i : good s (snd (step s i)) (fst (step s i)).
Proof.
  destruct i; cbn [step].
  - apply create_good.
  - destruct (Nat.ltb_spec h (length (chans s))); [now apply app_send_good|apply good_refl].
  - destruct (Nat.ltb_spec h (length (chans s))); [now apply chan_close_good|apply good_refl].
  - destruct (Nat.ltb_spec h (length (chans s))); [|apply good_refl]. cbn [fst snd].
    apply good_frame; auto; [apply wf_setc|now rewrite setc_length| |apply silent_nil].
    intros h'. symmetry. now apply rk_setc_same_state.
  - apply flush_good.
  - apply transmit_reconfig_good.
  - apply set_established_good.
  - apply set_closed_good.
  - destruct (pp =? WEBRTC_DCEP); [apply recv_dcep_good|apply recv_user_good].
  - destruct (established s); [apply recv_reset_request_good|apply good_refl].
  - destruct (established s); [apply recv_reset_response_good|apply good_refl].
  - cbn [fst snd]. apply good_frame; auto; try (intros [A B]; split; assumption); try apply silent_nil.
Qed.

(* ---------------------------------------------------------------- whole runs *)
Lemma run_cons s i is :
  run s (i :: is) = (fst (run (fst (step s i)) is), snd (step s i) :: snd (run (fst (step s i)) is)).
Proof.
  cbn [run]. destruct (step s i) as [s1 e]. cbn [fst snd]. destruct (run s1 is) as [s2 es]. reflexivity.
Qed.

Theorem run_good : forall is s, good s (concat (snd (run s is))) (fst (run s is)).
Proof.
  induction is as [|i is IH]; intros s; [apply good_refl|].
  rewrite run_cons. cbn [fst snd concat]. eapply good_trans; [apply step_good|apply IH].
Qed.

Lemma wf_init r q : wf (init r q).
Proof. split; constructor. Qed.
