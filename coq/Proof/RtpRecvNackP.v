(* NackGenerator (Model/RtpRecv.v): the missing set is exactly the skipped-and-not-arrived
   numbers of the RTP_HISTORY_SIZE window behind max_seq; the while loop ends. *)
From Coq Require Import ZArith List Bool Lia ZifyBool.
From AV Require Import Lib.Bytes Gen.Utils Gen.RtpConst Model.RtpRecv Proof.SerialP.
Import ListNotations.
Local Open Scope Z_scope.
Ltac Zify.zify_post_hook ::= Z.to_euclidean_division_equations.

(* how far x is behind m, modulo 2^16 *)
Definition behind (m x : Z) : Z := (m - x) mod 65536.

Definition in_window (m x : Z) : Prop := 1 <= behind m x <= rtp_RTP_HISTORY_SIZE.

(* x lies strictly between the old maximum m and the new one s *)
Definition skipped (m s x : Z) : Prop := 0 < behind x m < behind s m.

Definition NInv (g : nackgen) : Prop :=
  match max_seq g with
  | None => missing g = []
  | Some m => in16 m /\ forall x, In x (missing g) -> in16 x /\ in_window m x
  end.

Lemma NInv_init : NInv nack_init.
Proof. reflexivity. Qed.

(* ---- the while loop ------------------------------------------------------- *)
Lemma mark_loop_spec : forall (n : nat) fuel target start miss missed,
  in16 start -> (Z.of_nat n < 32768) -> target = uint16_add start (Z.of_nat n) -> (n < fuel)%nat ->
  exists miss',
    mark_loop fuel target start miss missed = Some (miss', missed || (0 <? Z.of_nat n)) /\
    forall x, In x miss' <-> In x miss \/ exists k, 0 <= k < Z.of_nat n /\ x = uint16_add start k.
Proof.
  induction n as [|n IH]; intros fuel target start miss missed Hs Hn Ht Hf.
  - destruct fuel as [|f]; [lia|]. cbn [mark_loop].
    assert (E : uint16_gt target start = false).
    { subst target. rewrite uint16_add_mod. unfold in16, uint16_gt in *. lia. }
    rewrite E. exists miss. split; [rewrite orb_false_r; reflexivity|].
    intros x. split; [auto|]. intros [H|[k [Hk _]]]; [exact H|lia].
  - destruct fuel as [|f]; [lia|]. cbn [mark_loop].
    assert (E : uint16_gt target start = true).
    { subst target. apply uint16_gt_add; [exact Hs|lia]. }
    rewrite E.
    destruct (IH f target (uint16_add start 1) (start :: miss) true) as [miss' [E1 E2]].
    + apply uint16_add_range.
    + lia.
    + subst target. rewrite !uint16_add_mod. unfold in16 in Hs. lia.
    + lia.
    + exists miss'. split.
      * rewrite E1. f_equal. f_equal. replace (0 <? Z.of_nat (S n)) with true by (symmetry; apply Z.ltb_lt; lia).
        rewrite orb_true_r. reflexivity.
      * intros x. rewrite E2. cbn [In]. split.
        -- intros [[H|H]|[k [Hk Hx]]].
           ++ right. exists 0. split; [lia|]. subst x. rewrite uint16_add_mod. unfold in16 in Hs. lia.
           ++ left. exact H.
           ++ right. exists (k + 1). split; [lia|]. subst x. rewrite !uint16_add_mod. lia.
        -- intros [H|[k [Hk Hx]]]; [left; right; exact H|].
           destruct (Z.eq_dec k 0) as [->|Hk0].
           ++ left. left. subst x. rewrite uint16_add_mod. unfold in16 in Hs. lia.
           ++ right. exists (k - 1). split; [lia|]. subst x. rewrite !uint16_add_mod. lia.
Qed.

Lemma in_discard x y l : In x (discard y l) <-> In x l /\ x <> y.
Proof.
  unfold discard. rewrite filter_In. rewrite negb_true_iff, Z.eqb_neq. reflexivity.
Qed.

Lemma MARK_FUEL_val : MARK_FUEL = Z.to_nat 65537.
Proof. reflexivity. Qed.

(* ---- one add() ------------------------------------------------------------ *)
(* For EVERY state satisfying the invariant and EVERY 16-bit sequence number: the loop ends,
   the invariant is kept, max_seq is the serial maximum, and the new missing set is exactly:
   in the window behind the new maximum, not the arriving number, and either missing before
   or skipped by this arrival.  `missed` is returned iff some number was skipped. *)
Theorem nack_add_spec g s :
  NInv g -> in16 s ->
  exists g' missed,
    nack_add g s = Some (g', missed) /\ NInv g' /\
    match max_seq g with
    | None => max_seq g' = Some s /\ missing g' = [] /\ missed = false
    | Some m =>
        let m' := if uint16_gt s m then s else m in
        max_seq g' = Some m' /\
        (forall x, In x (missing g') <->
                   in_window m' x /\ x <> s /\ in16 x /\
                   (In x (missing g) \/ (uint16_gt s m = true /\ skipped m s x))) /\
        (missed = true <-> uint16_gt s m = true /\ 2 <= behind s m)
    end.
Proof.
  intros HI Hs. unfold nack_add, NInv in *. destruct (max_seq g) as [m|] eqn:Em.
  - destruct HI as [Hm HI].
    destruct (uint16_gt s m) eqn:Egt.
    + (* forward step *)
      pose proof (proj1 (uint16_gt_spec s m Hs Hm) Egt) as Hd.
      set (n := Z.to_nat (behind s m - 1)).
      destruct (mark_loop_spec n MARK_FUEL s (uint16_add m 1) (missing g) false) as [miss' [E1 E2]].
      * apply uint16_add_range.
      * unfold n, behind. lia.
      * unfold n, behind. rewrite !uint16_add_mod. unfold in16 in *.
        rewrite Z2Nat.id by lia. lia.
      * rewrite MARK_FUEL_val. unfold n, behind. apply Z2Nat.inj_lt; lia.
      * rewrite E1. eexists; eexists. split; [reflexivity|].
        cbn [truncate max_seq missing].
        assert (Hchar : forall x,
          In x (filter (fun seq => negb (uint16_gt (uint16_add s (- rtp_RTP_HISTORY_SIZE)) seq)) miss') <->
          in_window s x /\ x <> s /\ in16 x /\ (In x (missing g) \/ (true = true /\ skipped m s x))).
        { intros x. rewrite filter_In, E2, negb_true_iff. unfold in_window, skipped, behind, rtp_RTP_HISTORY_SIZE. cbn [Z.opp].
          split.
          - intros [[Hin|[k [Hk Hx]]] Hgt].
            + destruct (HI x Hin) as [Hx Hw]. unfold in_window, behind, rtp_RTP_HISTORY_SIZE in Hw.
              assert (Hgt' : ~ (0 < (uint16_add s (-128) - x) mod 65536 < 32768)).
              { intros H. apply (uint16_gt_spec _ _ (uint16_add_range _ _) Hx) in H. congruence. }
              rewrite uint16_add_mod in Hgt'. unfold in16 in *. split; [lia|split; [lia|split; [lia|left; exact Hin]]].
            + assert (Hx16 : in16 x) by (subst x; apply uint16_add_range).
              assert (Hgt' : ~ (0 < (uint16_add s (-128) - x) mod 65536 < 32768)).
              { intros H. apply (uint16_gt_spec _ _ (uint16_add_range _ _) Hx16) in H. congruence. }
              rewrite uint16_add_mod in Hgt'. unfold n, behind in Hk. rewrite Z2Nat.id in Hk by lia.
              subst x. rewrite !uint16_add_mod in *. unfold in16 in *.
              split; [lia|split; [lia|split; [lia|right; split; [reflexivity|lia]]]].
          - intros (Hw & Hne & Hx & Hsrc). split.
            + destruct Hsrc as [Hin|[_ Hsk]]; [left; exact Hin|]. right.
              exists ((x - m) mod 65536 - 1). unfold n, behind. rewrite Z2Nat.id by lia.
              split; [lia|]. rewrite !uint16_add_mod. unfold in16 in *. lia.
            + destruct (uint16_gt (uint16_add s (-128)) x) eqn:E; [|reflexivity]. exfalso.
              apply (uint16_gt_spec _ _ (uint16_add_range _ _) Hx) in E. rewrite uint16_add_mod in E.
              unfold in16 in *. lia. }
        split; [|split; [reflexivity|split]].
        -- split; [exact Hs|]. intros x Hx. apply Hchar in Hx. tauto.
        -- exact Hchar.
        -- cbn [orb]. rewrite Z.ltb_lt. unfold n, behind. split.
           ++ intros H. split; [reflexivity|]. lia.
           ++ intros [_ H]. lia.
    + (* not newer: discard *)
      eexists; eexists. split; [reflexivity|]. cbn [truncate max_seq missing].
      assert (Hchar : forall x,
        In x (filter (fun seq => negb (uint16_gt (uint16_add m (- rtp_RTP_HISTORY_SIZE)) seq))
                     (discard s (missing g))) <->
        in_window m x /\ x <> s /\ in16 x /\ (In x (missing g) \/ (false = true /\ skipped m s x))).
      { intros x. rewrite filter_In, in_discard, negb_true_iff. unfold rtp_RTP_HISTORY_SIZE. cbn [Z.opp]. split.
        - intros [[Hin Hne] _]. destruct (HI x Hin) as [Hx Hw]. tauto.
        - intros (Hw & Hne & Hx & [Hin|[Hf _]]); [|discriminate]. split; [tauto|].
          destruct (uint16_gt (uint16_add m (-128)) x) eqn:E; [|reflexivity]. exfalso.
          apply (uint16_gt_spec _ _ (uint16_add_range _ _) Hx) in E. rewrite uint16_add_mod in E.
          unfold in_window, behind, rtp_RTP_HISTORY_SIZE, in16 in *. lia. }
      split; [|split; [reflexivity|split]].
      * split; [exact Hm|]. intros x Hx. apply Hchar in Hx. tauto.
      * exact Hchar.
      * split; [discriminate|]. intros [H _]. discriminate.
  - eexists; eexists. split; [reflexivity|]. cbn [max_seq missing]. rewrite HI.
    split; [|auto]. split; [exact Hs|]. intros x [].
Qed.

(* ---- histories ------------------------------------------------------------ *)
Fixpoint nack_run (g : nackgen) (l : list Z) : option nackgen :=
  match l with
  | [] => Some g
  | x :: l' => match nack_add g x with Some (g', _) => nack_run g' l' | None => None end
  end.

Lemma nack_run_inv l : forall g, NInv g -> Forall in16 l -> exists g', nack_run g l = Some g' /\ NInv g'.
Proof.
  induction l as [|x l IH]; intros g HI HF; [exists g; auto|].
  inversion HF as [|? ? Hx HF']; subst. cbn [nack_run].
  destruct (nack_add_spec g x HI Hx) as (g1 & ms & E & HI1 & _). rewrite E. apply IH; assumption.
Qed.

(* ---- sorted(missing) ------------------------------------------------------ *)
Lemma In_ins x y l : In x (ins y l) <-> x = y \/ In x l.
Proof.
  induction l as [|z t IH]; cbn [ins In]; [intuition congruence|].
  destruct (Z.ltb_spec y z); cbn [In]; [intuition congruence|].
  destruct (Z.eqb_spec y z); cbn [In]; [subst; intuition congruence|]. rewrite IH. intuition congruence.
Qed.

Lemma In_sorted_set x l : In x (sorted_set l) <-> In x l.
Proof.
  induction l as [|y t IH]; cbn [sorted_set fold_right In]; [tauto|].
  fold (sorted_set t). rewrite In_ins, IH. split; intros [H|H]; auto.
Qed.

Definition lt_all (x : Z) (l : list Z) : Prop := Forall (fun y => x < y) l.

Fixpoint increasing (l : list Z) : Prop :=
  match l with
  | [] => True
  | x :: t => lt_all x t /\ increasing t
  end.

Lemma increasing_ins y l : increasing l -> increasing (ins y l).
Proof.
  induction l as [|z t IH]; intros H; cbn [ins]; [cbn; split; [constructor|exact I]|].
  destruct H as [Hz Ht].
  destruct (Z.ltb_spec y z) as [Hlt|Hge].
  - cbn [increasing]. split; [|split; assumption].
    constructor; [exact Hlt|]. unfold lt_all in *. rewrite Forall_forall in *. intros w Hw. specialize (Hz w Hw). lia.
  - destruct (Z.eqb_spec y z) as [->|Hne]; [cbn [increasing]; split; assumption|].
    cbn [increasing]. split; [|apply IH; exact Ht].
    unfold lt_all in *. rewrite Forall_forall in *. intros w Hw. apply In_ins in Hw.
    destruct Hw as [->|Hw]; [lia|apply Hz; exact Hw].
Qed.

Lemma increasing_sorted_set l : increasing (sorted_set l).
Proof.
  induction l as [|y t IH]; [exact I|]. cbn [sorted_set fold_right]. fold (sorted_set t).
  apply increasing_ins. exact IH.
Qed.

Lemma increasing_NoDup l : increasing l -> NoDup l.
Proof.
  induction l as [|x t IH]; intros H; [constructor|]. destruct H as [Hx Ht].
  constructor; [|apply IH; exact Ht]. intros Hin. unfold lt_all in Hx. rewrite Forall_forall in Hx.
  specialize (Hx x Hin). lia.
Qed.

(* the 128 numbers behind m *)
Definition window_list (m : Z) : list Z :=
  map (fun k => uint16_add m (- Z.of_nat k)) (seq 1 (Z.to_nat rtp_RTP_HISTORY_SIZE)).

Lemma window_list_length m : length (window_list m) = Z.to_nat rtp_RTP_HISTORY_SIZE.
Proof. unfold window_list. rewrite map_length, seq_length. reflexivity. Qed.

Lemma in_window_list m x : in16 x -> in_window m x -> In x (window_list m).
Proof.
  intros Hx Hw. unfold window_list. apply in_map_iff. exists (Z.to_nat (behind m x)).
  unfold in_window, behind, rtp_RTP_HISTORY_SIZE in *. split.
  - rewrite Z2Nat.id by lia. rewrite uint16_add_mod. unfold in16 in Hx. lia.
  - apply in_seq. lia.
Qed.

(* a NACK never lists more than RTP_HISTORY_SIZE numbers *)
Lemma nack_list_bounded g : NInv g ->
  (length (sorted_set (missing g)) <= Z.to_nat rtp_RTP_HISTORY_SIZE)%nat.
Proof.
  intros HI. unfold NInv in HI. destruct (max_seq g) as [m|].
  - destruct HI as [_ HI]. rewrite <- (window_list_length m). apply NoDup_incl_length.
    + apply increasing_NoDup, increasing_sorted_set.
    + intros x Hx. apply (proj1 (In_sorted_set _ _)) in Hx. destruct (HI x Hx). apply in_window_list; assumption.
  - rewrite HI. cbn. lia.
Qed.

Theorem nack_bounded l : Forall in16 l ->
  exists g, nack_run nack_init l = Some g /\
    match max_seq g with
    | Some m => in16 m /\ forall x, In x (missing g) -> in16 x /\ in_window m x
    | None => missing g = []
    end /\
    (length (sorted_set (missing g)) <= 128)%nat /\
    increasing (sorted_set (missing g)) /\
    (forall x, In x (sorted_set (missing g)) <-> In x (missing g)).
Proof.
  intros HF. destruct (nack_run_inv l nack_init NInv_init HF) as (g & E & HI).
  exists g. split; [exact E|]. split; [exact HI|]. split; [exact (nack_list_bounded g HI)|].
  split; [apply increasing_sorted_set|]. intros x. apply In_sorted_set.
Qed.
