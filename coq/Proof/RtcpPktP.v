(* Proofs about Model/Rtcp.v, part 2: every RTCP packet class and compound packets
   round-trip through __bytes__ / RtcpPacket.parse. *)
From Coq Require Import ZArith List Bool Lia.
From AV Require Import Lib.Bytes Lib.BytesP Lib.RtpX Gen.RtpConst Model.Rtcp Proof.RtpBitsP Proof.RtcpP.
Import ListNotations.
Local Open Scope Z_scope.

Ltac Zify.zify_post_hook ::= Z.to_euclidean_division_equations.

(* ================================================================ well-formed values *)
Definition is_u32 (x : Z) : Prop := 0 <= x < 4294967296.

Definition wf_rinfo (r : rinfo) : Prop :=
  is_u32 (ri_ssrc r) /\ 0 <= ri_fraction_lost r < 256 /\
  -8388608 <= ri_packets_lost r < 8388608 /\
  is_u32 (ri_highest_sequence r) /\ is_u32 (ri_jitter r) /\ is_u32 (ri_lsr r) /\ is_u32 (ri_dlsr r).

Definition wf_sinfo (s : sinfo) : Prop :=
  0 <= si_ntp s < 18446744073709551616 /\ is_u32 (si_rtp s) /\ is_u32 (si_packets s) /\
  is_u32 (si_octets s).

Definition wf_item (i : sdes_item) : Prop :=
  1 <= fst i < 256 /\ bytes_ok (snd i) /\ (length (snd i) <= 255)%nat.

Definition wf_chunk (c : sdes_chunk) : Prop := is_u32 (fst c) /\ Forall wf_item (snd c).

Fixpoint items_size (items : list sdes_item) : nat :=
  match items with [] => O | i :: l => (2 + length (snd i) + items_size l)%nat end.
Fixpoint chunks_size (chunks : list sdes_chunk) : nat :=
  match chunks with [] => O | c :: l => (4 + items_size (snd c) + 2 + chunks_size l)%nat end.

Definition wf_rtcp (p : rtcp) : Prop :=
  match p with
  | Sr ssrc info reports =>
      is_u32 ssrc /\ wf_sinfo info /\ Forall wf_rinfo reports /\ (length reports <= 31)%nat
  | Rr ssrc reports => is_u32 ssrc /\ Forall wf_rinfo reports /\ (length reports <= 31)%nat
  | Sdes chunks =>
      Forall wf_chunk chunks /\ (length chunks <= 31)%nat /\ Z.of_nat (chunks_size chunks) <= 262140
  | Bye sources => Forall is_u32 sources /\ (length sources <= 31)%nat
  | Rtpfb fmt ssrc media lost =>
      0 <= fmt <= 31 /\ is_u32 ssrc /\ is_u32 media /\ nack_canonical lost /\
      zlen lost <= 65532
  | Psfb fmt ssrc media fci =>
      0 <= fmt <= 31 /\ is_u32 ssrc /\ is_u32 media /\ bytes_ok fci /\
      (length fci mod 4 = 0)%nat /\ len fci <= 262132
  end.

(* ================================================================ fixed-layout records *)
Lemma be32_val a : 0 <= a < 4294967296 ->
  ((a / 16777216) mod 256 * 256 + (a / 65536) mod 256) * 65536 + ((a / 256) mod 256 * 256 + a mod 256) = a.
Proof. lia. Qed.

Lemma rinfo_roundtrip r :
  wf_rinfo r -> exists b, rinfo_bytes r = Ok b /\ length b = 24%nat /\ bytes_ok b /\ rinfo_parse b = Ok r.
Proof.
  destruct r as [ssrc fl pl hs jit lsr dlsr].
  unfold wf_rinfo, is_u32. cbn [ri_ssrc ri_fraction_lost ri_packets_lost ri_highest_sequence ri_jitter ri_lsr ri_dlsr].
  intros (H1 & H2 & H3 & H4 & H5 & H6 & H7).
  unfold rinfo_bytes. cbn [ri_ssrc ri_fraction_lost ri_packets_lost ri_highest_sequence ri_jitter ri_lsr ri_dlsr].
  rewrite !u32ok_intro, u8ok_intro by lia. cbn [andb].
  destruct (packets_lost_roundtrip pl H3) as [Hp Hu]. rewrite Hp. cbn [bind].
  eexists. split; [reflexivity|]. split; [reflexivity|]. split.
  { repeat (apply bytes_ok_app; split); auto using be32_ok, be8_ok, be24_ok. }
  unfold rinfo_parse. unfold be24 in Hu |- *. unfold be32, be8.
  cbn [app length Nat.eqb negb u32 u16 u8 nth_error slice Nat.sub skipn firstn].
  rewrite Hu. cbn [bind].
  rewrite !be32_val by lia. replace (fl mod 256) with fl by lia. reflexivity.
Qed.

Lemma sinfo_roundtrip s :
  wf_sinfo s -> exists b, sinfo_bytes s = Ok b /\ length b = 20%nat /\ bytes_ok b /\ sinfo_parse b = Ok s.
Proof.
  destruct s as [ntp rt pc oc]. unfold wf_sinfo, is_u32. cbn [si_ntp si_rtp si_packets si_octets].
  intros (H1 & H2 & H3 & H4).
  unfold sinfo_bytes. cbn [si_ntp si_rtp si_packets si_octets].
  rewrite u64ok_intro, !u32ok_intro by lia. cbn [andb].
  eexists. split; [reflexivity|]. split; [reflexivity|]. split.
  { repeat (apply bytes_ok_app; split); auto using be32_ok, be64_ok. }
  unfold sinfo_parse.
  change (length _) with 20%nat. cbn [Nat.eqb negb].
  rewrite u64_be64 by lia.
  rewrite (u32_at (be64 ntp) rt) by lia.
  replace (be64 ntp ++ be32 rt ++ be32 pc ++ be32 oc) with ((be64 ntp ++ be32 rt) ++ be32 pc ++ be32 oc)
    by now rewrite <- app_assoc.
  rewrite (u32_at (be64 ntp ++ be32 rt) pc) by lia.
  replace ((be64 ntp ++ be32 rt) ++ be32 pc ++ be32 oc) with ((be64 ntp ++ be32 rt ++ be32 pc) ++ be32 oc ++ [])
    by (rewrite app_nil_r, <- !app_assoc; reflexivity).
  rewrite (u32_at (be64 ntp ++ be32 rt ++ be32 pc) oc) by lia. reflexivity.
Qed.

Lemma rinfos_roundtrip l :
  Forall wf_rinfo l ->
  exists b, rinfos_bytes l = Ok b /\ length b = (24 * length l)%nat /\ bytes_ok b /\
            forall tail, rinfos_parse (length l) (b ++ tail) = Ok l.
Proof.
  induction 1 as [|r l Hr _ (b & Hb & Hlen & Hok & Hparse)]; cbn [rinfos_bytes length].
  - exists []. repeat split; auto using bytes_ok_nil.
  - destruct (rinfo_roundtrip r Hr) as (a & Ha & Hla & Hoka & Hpa).
    rewrite Ha, Hb. cbn [bind]. exists (a ++ b). split; [reflexivity|].
    split; [rewrite app_length; lia|]. split; [apply bytes_ok_app; auto|].
    intros tail. cbn [rinfos_parse]. rewrite <- app_assoc.
    rewrite (firstn_app_exact' a) by lia. rewrite (skipn_app_exact' a) by lia.
    rewrite Hpa, Hparse. reflexivity.
Qed.

(* ================================================================ the common header *)
Lemma pack_rtcp_ok pt count payload :
  0 <= count <= 31 -> 0 <= pt < 256 -> len payload mod 4 = 0 -> len payload / 4 < 65536 ->
  pack_rtcp_packet pt count payload =
    Ok ([128 + count; pt] ++ be16 (len payload / 4) ++ payload).
Proof.
  intros Hc Hp Hm Hw. unfold pack_rtcp_packet. rewrite Hm. cbn [Z.eqb negb].
  change (Z.shiftl 2 6) with 128.
  rewrite (lor_add 128 count 5) by (change (2 ^ 5) with 32; lia).
  assert (Hl := len_nonneg payload).
  rewrite !u8ok_intro, u16ok_intro by lia. cbn [andb]. unfold be8.
  replace ((128 + count) mod 256) with (128 + count) by lia.
  replace (pt mod 256) with pt by lia. reflexivity.
Qed.

(* one iteration of RtcpPacket.parse on a packet produced by pack_rtcp_packet *)
Lemma parse_loop_step f pt count payload tail :
  0 <= count <= 31 -> 0 <= pt < 256 -> len payload mod 4 = 0 -> len payload / 4 < 65536 ->
  rtcp_parse_loop (S f) (([128 + count; pt] ++ be16 (len payload / 4) ++ payload) ++ tail) =
    (do pkt <- rtcp_parse_one pt payload count;
     do more <- rtcp_parse_loop f tail;
     Ok (match pkt with Some p => p :: more | None => more end)).
Proof.
  intros Hc Hp Hm Hw. assert (Hl := len_nonneg payload).
  unfold be16. cbn [app rtcp_parse_loop].
  replace (Nat.ltb (length _) 4) with false by (symmetry; apply Nat.ltb_ge; cbn [length]; lia).
  cbn [u8 u16 nth_error].
  rewrite Z.shiftr_div_pow2 by lia. change (2 ^ 6) with 64.
  replace ((128 + count) / 64 =? 2) with true by (symmetry; apply Z.eqb_eq; lia). cbn [negb].
  rewrite Z.shiftr_div_pow2 by lia. rewrite land_1, land_31. change (2 ^ 5) with 32.
  replace (((128 + count) / 32) mod 2) with 0 by lia.
  replace ((128 + count) mod 32) with count by lia.
  cbn [skipn].
  replace (((len payload / 4 / 256) mod 256 * 256 + (len payload / 4) mod 256) * 4) with (len payload) by lia.
  unfold len at 1 2 3. rewrite Nat2Z.id.
  rewrite app_length.
  replace (Nat.ltb (length payload + length tail) (length payload)) with false
    by (symmetry; apply Nat.ltb_ge; lia).
  rewrite firstn_app_exact, skipn_app_exact.
  unfold strip_padding. cbn [Z.eqb bind]. reflexivity.
Qed.

(* ================================================================ per-class payload parsers *)
Lemma bye_parse_bytes sources b :
  be32s sources = Ok b -> bye_parse b (zlen sources) = Ok (Bye sources).
Proof.
  intros H. unfold bye_parse. rewrite len_length, (be32s_length _ _ H), zlen_length.
  replace (Z.of_nat (4 * length sources) <? Z.of_nat (length sources) * 4) with false
    by (symmetry; apply Z.ltb_ge; lia).
  rewrite Nat2Z.id.
  pose proof (u32s_be32s sources b [] [] H) as Hu. rewrite app_nil_r in Hu. cbn [app length] in Hu.
  now rewrite Hu.
Qed.

Lemma psfb_parse_bytes fmt ssrc media fci :
  is_u32 ssrc -> is_u32 media ->
  psfb_parse (be32 ssrc ++ be32 media ++ fci) fmt = Ok (Psfb fmt ssrc media fci).
Proof.
  unfold is_u32. intros H1 H2. unfold psfb_parse.
  replace (Nat.ltb _ 8) with false by (symmetry; apply Nat.ltb_ge; rewrite !app_length, !length_be32; lia).
  rewrite u32_be32 by lia. rewrite (u32_at (be32 ssrc) media) by lia.
  replace (be32 ssrc ++ be32 media ++ fci) with ((be32 ssrc ++ be32 media) ++ fci) by now rewrite <- app_assoc.
  change 8%nat with (length (be32 ssrc ++ be32 media)). now rewrite from_app.
Qed.

Lemma rr_parse_bytes ssrc reports b :
  is_u32 ssrc -> Forall wf_rinfo reports -> rinfos_bytes reports = Ok b ->
  rr_parse (be32 ssrc ++ b) (zlen reports) = Ok (Rr ssrc reports).
Proof.
  unfold is_u32. intros H1 Hr Hb.
  destruct (rinfos_roundtrip reports Hr) as (b' & Hb' & Hlen & _ & Hparse).
  rewrite Hb in Hb'. apply Ok_inj in Hb'. subst b'.
  unfold rr_parse. rewrite len_length, app_length, length_be32, Hlen, zlen_length.
  replace (Z.of_nat (4 + 24 * length reports) =? 4 + Z.of_nat (length reports) * 24) with true
    by (symmetry; apply Z.eqb_eq; lia).
  cbn [negb]. rewrite u32_be32 by lia. rewrite Nat2Z.id.
  rewrite (skipn_app_exact' (be32 ssrc)) by reflexivity.
  rewrite <- (app_nil_r b), Hparse. reflexivity.
Qed.

Lemma sr_parse_bytes ssrc info reports a b :
  is_u32 ssrc -> wf_sinfo info -> Forall wf_rinfo reports ->
  sinfo_bytes info = Ok a -> rinfos_bytes reports = Ok b ->
  sr_parse (be32 ssrc ++ a ++ b) (zlen reports) = Ok (Sr ssrc info reports).
Proof.
  unfold is_u32. intros H1 Hi Hr Ha Hb.
  destruct (rinfos_roundtrip reports Hr) as (b' & Hb' & Hlen & _ & Hparse).
  rewrite Hb in Hb'. apply Ok_inj in Hb'. subst b'.
  destruct (sinfo_roundtrip info Hi) as (a' & Ha' & Hla & _ & Hpa).
  rewrite Ha in Ha'. apply Ok_inj in Ha'. subst a'.
  unfold sr_parse. rewrite len_length, !app_length, length_be32, Hlen, Hla, zlen_length.
  replace (Z.of_nat (4 + (20 + 24 * length reports)) =? 24 + Z.of_nat (length reports) * 24) with true
    by (symmetry; apply Z.eqb_eq; lia).
  cbn [negb]. rewrite u32_be32 by lia.
  replace (slice (be32 ssrc ++ a ++ b) 4 24) with a; cycle 1.
  { symmetry. change 4%nat with (length (be32 ssrc)) at 1.
    replace 24%nat with (length (be32 ssrc) + length a)%nat by (rewrite length_be32; lia).
    apply slice_app_mid. }
  rewrite Hpa. cbn [bind]. rewrite Nat2Z.id.
  replace (be32 ssrc ++ a ++ b) with ((be32 ssrc ++ a) ++ b) by now rewrite <- app_assoc.
  rewrite (skipn_app_exact' (be32 ssrc ++ a)) by (rewrite app_length, length_be32; lia).
  rewrite <- (app_nil_r b), Hparse. reflexivity.
Qed.

Lemma nack_expand_0 pid : nack_expand pid 0 = [pid].
Proof. reflexivity. Qed.

Lemma rtpfb_parse_bytes fmt ssrc media lost a :
  is_u32 ssrc -> is_u32 media -> nack_canonical lost ->
  match lost with [] => Ok [] | pid :: rest => nack_pack (nack_entries pid 0 rest) end = Ok a ->
  rtpfb_parse (be32 ssrc ++ be32 media ++ a) fmt = Ok (Rtpfb fmt ssrc media lost) /\
  (length a mod 4 = 0)%nat /\ (length a <= 4 * length lost)%nat /\ bytes_ok a.
Proof.
  unfold is_u32. intros H1 H2 Hc Ha.
  assert (Hparse : nack_parse a = Ok lost /\ (length a mod 4 = 0)%nat /\ (length a <= 4 * length lost)%nat /\ bytes_ok a).
  { destruct lost as [|pid rest].
    - apply Ok_inj in Ha. subst a.
      split; [reflexivity|]. split; [reflexivity|]. split; [cbn [length]; lia|apply bytes_ok_nil].
    - destruct Hc as [Hpid Hch].
      destruct (nack_parse_pack _ _ Ha) as (Hp & Hl & Hok).
      rewrite Hp, (nack_entries_exact rest pid 0 0); try lia.
      + rewrite nack_expand_0. cbn [app].
        assert (Hcnt := nack_entries_count rest pid 0). cbn [length].
        split; [reflexivity|]. split; [|split; [lia|exact Hok]].
        rewrite Hl. now rewrite Nat.mul_comm, Nat.mod_mul by lia.
      + exact Hch. }
  destruct Hparse as (Hp & Hm & Hle & Hok). split; [|auto].
  unfold rtpfb_parse.
  replace (Nat.ltb _ 8) with false by (symmetry; apply Nat.ltb_ge; rewrite !app_length, !length_be32; lia).
  rewrite len_length, !app_length, !length_be32.
  replace (Z.of_nat (4 + (4 + length a)) mod 4 =? 0) with true; cycle 1.
  { symmetry. apply Z.eqb_eq. apply Nat.mod_divides in Hm as [k Hk]; [|lia]. rewrite Hk. lia. }
  cbn [orb negb].
  rewrite u32_be32 by lia. rewrite (u32_at (be32 ssrc) media) by lia.
  replace (be32 ssrc ++ be32 media ++ a) with ((be32 ssrc ++ be32 media) ++ a) by now rewrite <- app_assoc.
  rewrite (skipn_app_exact' (be32 ssrc ++ be32 media)) by reflexivity.
  now rewrite Hp.
Qed.

(* ---- SDES *)
Lemma sdes_items_roundtrip items : forall a,
  Forall wf_item items -> sdes_items_bytes items = Ok a ->
  length a = items_size items /\ bytes_ok a /\
  forall fuel post, (length items < fuel)%nat ->
    sdes_items_parse fuel (a ++ [0; 0] ++ post) = Ok (items, post).
Proof.
  induction items as [|[t v] items IH]; intros a Hwf Ha; cbn [sdes_items_bytes] in Ha.
  - apply Ok_inj in Ha. subst a. split; [reflexivity|]. split; [apply bytes_ok_nil|].
    intros fuel post Hf. destruct fuel as [|f]; [cbn in Hf; lia|].
    cbn [app sdes_items_parse].
    replace (len post <? 0) with false by (symmetry; apply Z.ltb_ge; apply len_nonneg).
    reflexivity.
  - inversion Hwf as [|? ? Hi Hwf']; subst. destruct Hi as (Ht & Hv & Hl). cbn [fst snd] in *.
    destruct (u8ok t && u8ok (len v)); [|discriminate].
    destruct (sdes_items_bytes items) as [r| | |] eqn:Hr; cbn [bind] in Ha; try discriminate.
    apply Ok_inj in Ha. subst a. destruct (IH r Hwf' eq_refl) as (IHl & IHok & IHp).
    split; [|split].
    + cbn [items_size snd]. rewrite !app_length, IHl. cbn [length be8]. lia.
    + repeat (apply bytes_ok_app; split); auto using be8_ok.
    + intros fuel post Hf. destruct fuel as [|f]; [cbn in Hf; lia|].
      replace ((be8 t ++ be8 (len v) ++ v ++ r) ++ [0; 0] ++ post)
        with (t :: len v :: (v ++ (r ++ [0; 0] ++ post))); cycle 1.
      { unfold be8. rewrite <- !app_assoc. cbn [app]. f_equal; [lia|]. f_equal. unfold len; lia. }
      cbn [sdes_items_parse].
      replace (len (v ++ r ++ [0; 0] ++ post) <? len v) with false
        by (symmetry; apply Z.ltb_ge; rewrite len_app; assert (H0 := len_nonneg (r ++ [0; 0] ++ post)); lia).
      replace (t =? 0) with false by (symmetry; apply Z.eqb_neq; lia).
      unfold len. rewrite Nat2Z.id, firstn_app_exact, skipn_app_exact.
      rewrite IHp by (cbn [length] in Hf; lia). reflexivity.
Qed.

Lemma items_length_size items : (length items <= items_size items)%nat.
Proof. induction items as [|i l IHl]; cbn [length items_size]; lia. Qed.

Lemma sdes_chunks_roundtrip chunks : forall b,
  Forall wf_chunk chunks -> sdes_chunks_bytes chunks = Ok b ->
  length b = chunks_size chunks /\ bytes_ok b /\
  forall tail, sdes_chunks_parse (length chunks) (b ++ tail) = Ok chunks.
Proof.
  induction chunks as [|[ssrc items] chunks IH]; intros b Hwf Hb; cbn [sdes_chunks_bytes] in Hb.
  - apply Ok_inj in Hb. subst b. repeat split. apply bytes_ok_nil.
  - inversion Hwf as [|? ? Hc Hwf']; subst. destruct Hc as (Hs & Hi). unfold is_u32 in Hs. cbn [fst snd] in *.
    destruct (u32ok ssrc); [|discriminate].
    destruct (sdes_items_bytes items) as [a| | |] eqn:Ha; cbn [bind] in Hb; try discriminate.
    destruct (sdes_chunks_bytes chunks) as [r| | |] eqn:Hr; cbn [bind] in Hb; try discriminate.
    apply Ok_inj in Hb. subst b.
    destruct (sdes_items_roundtrip items a Hi Ha) as (Hla & Hoka & Hpa).
    destruct (IH r Hwf' eq_refl) as (IHl & IHok & IHp).
    split; [|split].
    + cbn [chunks_size snd]. rewrite !app_length, Hla, IHl, length_be32. cbn [length]. lia.
    + repeat (apply bytes_ok_app; split); auto using be32_ok.
      unfold bytes_ok. repeat constructor; unfold byte_ok; lia.
    + intros tail. cbn [length sdes_chunks_parse].
      replace (Nat.ltb _ 4) with false
        by (symmetry; apply Nat.ltb_ge; rewrite !app_length, length_be32; lia).
      rewrite <- !app_assoc. rewrite u32_be32 by lia.
      rewrite (skipn_app_exact' (be32 ssrc)) by reflexivity.
      rewrite Hpa; cycle 1.
      { rewrite !app_length, Hla. assert (Hsz := items_length_size items). lia. }
      cbn [bind]. rewrite IHp. reflexivity.
Qed.

Lemma pad4_spec a :
  exists z, pad4 a = a ++ zeros z /\ len (pad4 a) mod 4 = 0 /\ (z <= 3)%nat.
Proof.
  unfold pad4. exists (Z.to_nat ((- len a) mod 4)). split; [reflexivity|].
  assert (Hl := len_nonneg a). split; [|lia].
  rewrite len_app. unfold len at 2. rewrite length_zeros, Z2Nat.id by lia. lia.
Qed.

(* ================================================================ one packet *)
Lemma rtcp_packet_roundtrip p :
  wf_rtcp p ->
  exists pt count payload,
    rtcp_bytes p = Ok ([128 + count; pt] ++ be16 (len payload / 4) ++ payload) /\
    0 <= count <= 31 /\ 0 <= pt < 256 /\ len payload mod 4 = 0 /\ len payload / 4 < 65536 /\
    bytes_ok payload /\ rtcp_parse_one pt payload count = Ok (Some p).
Proof.
  destruct p as [ssrc info reports|ssrc reports|chunks|sources|fmt ssrc media lost|fmt ssrc media fci];
    cbn [wf_rtcp rtcp_bytes].
  - (* SR *)
    intros (Hs & Hi & Hr & Hn).
    destruct (sinfo_roundtrip info Hi) as (a & Ha & Hla & Hoka & _).
    destruct (rinfos_roundtrip reports Hr) as (b & Hb & Hlb & Hokb & _).
    assert (Hs' := Hs). unfold is_u32 in Hs'. rewrite u32ok_intro by lia. rewrite Ha, Hb. cbn [bind].
    assert (Hlen : len (be32 ssrc ++ a ++ b) = 24 + 24 * Z.of_nat (length reports)).
    { rewrite len_length, !app_length, length_be32, Hla, Hlb. lia. }
    exists rtp_RTCP_SR, (zlen reports), (be32 ssrc ++ a ++ b).
    rewrite zlen_length.
    rewrite pack_rtcp_ok by (rewrite ?Hlen; unfold rtp_RTCP_SR; lia).
    split; [reflexivity|]. rewrite Hlen. unfold rtp_RTCP_SR.
    repeat (split; [lia|]). split.
    { repeat (apply bytes_ok_app; split); auto using be32_ok. }
    unfold rtcp_parse_one, rtp_RTCP_BYE, rtp_RTCP_SDES, rtp_RTCP_SR. cbn [Z.eqb Pos.eqb].
    rewrite <- zlen_length. rewrite (sr_parse_bytes ssrc info reports a b) by assumption. reflexivity.
  - (* RR *)
    intros (Hs & Hr & Hn).
    destruct (rinfos_roundtrip reports Hr) as (b & Hb & Hlb & Hokb & _).
    assert (Hs' := Hs). unfold is_u32 in Hs'. rewrite u32ok_intro by lia. rewrite Hb. cbn [bind].
    assert (Hlen : len (be32 ssrc ++ b) = 4 + 24 * Z.of_nat (length reports)).
    { rewrite len_length, !app_length, length_be32, Hlb. lia. }
    exists rtp_RTCP_RR, (zlen reports), (be32 ssrc ++ b).
    rewrite zlen_length.
    rewrite pack_rtcp_ok by (rewrite ?Hlen; unfold rtp_RTCP_RR; lia).
    split; [reflexivity|]. rewrite Hlen. unfold rtp_RTCP_RR.
    repeat (split; [lia|]). split.
    { repeat (apply bytes_ok_app; split); auto using be32_ok. }
    unfold rtcp_parse_one, rtp_RTCP_BYE, rtp_RTCP_SDES, rtp_RTCP_SR, rtp_RTCP_RR. cbn [Z.eqb Pos.eqb].
    rewrite <- zlen_length. rewrite (rr_parse_bytes ssrc reports b) by assumption. reflexivity.
  - (* SDES *)
    intros (Hc & Hn & Hsz).
    assert (Hbytes : exists a, sdes_chunks_bytes chunks = Ok a).
    { clear Hn Hsz. induction Hc as [|[ssrc items] l (Hs & Hi) _ [r Hr]]; cbn [sdes_chunks_bytes]; [eauto|].
      unfold is_u32 in Hs. cbn [fst snd] in *. rewrite u32ok_intro by lia.
      assert (Hia : exists a, sdes_items_bytes items = Ok a).
      { clear Hs. induction Hi as [|[t v] l' (Ht & Hv & Hl) _ [r' Hr']]; cbn [sdes_items_bytes]; [eauto|].
        cbn [fst snd] in *. rewrite !u8ok_intro by (unfold len; lia). cbn [andb]. rewrite Hr'. cbn [bind]. eauto. }
      destruct Hia as [a ->]. rewrite Hr. cbn [bind]. eauto. }
    destruct Hbytes as [a Ha]. rewrite Ha. cbn [bind].
    destruct (sdes_chunks_roundtrip chunks a Hc Ha) as (Hla & Hoka & Hpa).
    destruct (pad4_spec a) as (z & Hz & Hm & Hz3).
    assert (Hlen : len (pad4 a) = Z.of_nat (chunks_size chunks) + Z.of_nat z).
    { rewrite Hz, len_app. unfold len. rewrite length_zeros, Hla. reflexivity. }
    exists rtp_RTCP_SDES, (zlen chunks), (pad4 a).
    rewrite zlen_length.
    rewrite pack_rtcp_ok by (rewrite ?Hlen; unfold rtp_RTCP_SDES; lia).
    split; [reflexivity|]. unfold rtp_RTCP_SDES.
    repeat (split; [lia|]). split.
    { rewrite Hz. apply bytes_ok_app. split; [exact Hoka|apply bytes_ok_zeros]. }
    unfold rtcp_parse_one, rtp_RTCP_BYE, rtp_RTCP_SDES. cbn [Z.eqb Pos.eqb].
    unfold sdes_parse. rewrite Nat2Z.id, Hz, Hpa. reflexivity.
  - (* BYE *)
    intros (Hs & Hn).
    destruct (be32s_ok sources Hs) as [a Ha]. rewrite Ha. cbn [bind].
    assert (Hlen : len a = 4 * Z.of_nat (length sources)).
    { rewrite len_length, (be32s_length _ _ Ha). lia. }
    exists rtp_RTCP_BYE, (zlen sources), a.
    rewrite zlen_length.
    rewrite pack_rtcp_ok by (rewrite ?Hlen; unfold rtp_RTCP_BYE; lia).
    split; [reflexivity|]. rewrite Hlen. unfold rtp_RTCP_BYE.
    repeat (split; [lia|]). split; [apply (be32s_bytes_ok _ _ Ha)|].
    unfold rtcp_parse_one, rtp_RTCP_BYE. cbn [Z.eqb Pos.eqb].
    rewrite <- zlen_length, (bye_parse_bytes sources a Ha). reflexivity.
  - (* RTPFB *)
    intros (Hf & Hs & Hm & Hc & Hn). unfold zlen in Hn.
    assert (Hs' := Hs). assert (Hm' := Hm). unfold is_u32 in Hs', Hm'.
    rewrite !u32ok_intro by lia. cbn [andb].
    assert (Hpack : exists a, match lost with [] => Ok [] | pid :: rest => nack_pack (nack_entries pid 0 rest) end = Ok a).
    { destruct lost as [|pid rest]; [eauto|]. destruct Hc as [Hpid Hch].
      apply nack_entries_ok; [lia|lia|]. eapply nack_exact_range; eauto. }
    destruct Hpack as [a Ha]. rewrite Ha. cbn [bind].
    destruct (rtpfb_parse_bytes fmt ssrc media lost a Hs Hm Hc Ha) as (Hp & Hmod & Hle & Hok).
    assert (Hlen : len (be32 ssrc ++ be32 media ++ a) = 8 + Z.of_nat (length a)).
    { rewrite len_length, !app_length, !length_be32. lia. }
    assert (Hmod' : Z.of_nat (length a) mod 4 = 0).
    { apply Nat.mod_divides in Hmod as [k Hk]; [|lia]. rewrite Hk. lia. }
    exists rtp_RTCP_RTPFB, fmt, (be32 ssrc ++ be32 media ++ a).
    rewrite pack_rtcp_ok by (rewrite ?Hlen; unfold rtp_RTCP_RTPFB; lia).
    split; [reflexivity|]. rewrite Hlen. unfold rtp_RTCP_RTPFB.
    repeat (split; [lia|]). split.
    { repeat (apply bytes_ok_app; split); auto using be32_ok. }
    unfold rtcp_parse_one, rtp_RTCP_BYE, rtp_RTCP_SDES, rtp_RTCP_SR, rtp_RTCP_RR, rtp_RTCP_RTPFB.
    cbn [Z.eqb Pos.eqb]. rewrite Hp. reflexivity.
  - (* PSFB *)
    intros (Hf & Hs & Hm & Hok & Hmod & Hn). unfold len in Hn.
    assert (Hs' := Hs). assert (Hm' := Hm). unfold is_u32 in Hs', Hm'.
    rewrite !u32ok_intro by lia. cbn [andb].
    assert (Hlen : len (be32 ssrc ++ be32 media ++ fci) = 8 + Z.of_nat (length fci)).
    { rewrite len_length, !app_length, !length_be32. lia. }
    assert (Hmod' : Z.of_nat (length fci) mod 4 = 0).
    { apply Nat.mod_divides in Hmod as [k Hk]; [|lia]. rewrite Hk. lia. }
    exists rtp_RTCP_PSFB, fmt, (be32 ssrc ++ be32 media ++ fci).
    rewrite pack_rtcp_ok by (rewrite ?Hlen; unfold rtp_RTCP_PSFB; lia).
    split; [reflexivity|]. rewrite Hlen. unfold rtp_RTCP_PSFB.
    repeat (split; [lia|]). split.
    { repeat (apply bytes_ok_app; split); auto using be32_ok. }
    unfold rtcp_parse_one, rtp_RTCP_BYE, rtp_RTCP_SDES, rtp_RTCP_SR, rtp_RTCP_RR, rtp_RTCP_RTPFB, rtp_RTCP_PSFB.
    cbn [Z.eqb Pos.eqb]. rewrite psfb_parse_bytes by assumption. reflexivity.
Qed.

(* ================================================================ compound packets *)
Lemma rtcp_compound_roundtrip ps :
  Forall wf_rtcp ps ->
  exists b, rtcp_bytes_all ps = Ok b /\ bytes_ok b /\
            forall fuel, (length b < fuel)%nat -> rtcp_parse_loop fuel b = Ok ps.
Proof.
  induction 1 as [|p ps Hp _ (b & Hb & Hok & Hparse)]; cbn [rtcp_bytes_all].
  - exists []. split; [reflexivity|]. split; [apply bytes_ok_nil|].
    intros [|f] Hf; [cbn in Hf; lia|reflexivity].
  - destruct (rtcp_packet_roundtrip p Hp) as (pt & count & payload & Ha & Hc & Hpt & Hm & Hw & Hokp & Hone).
    rewrite Ha, Hb. cbn [bind]. eexists. split; [reflexivity|]. split.
    { apply bytes_ok_app. split; [|exact Hok].
      apply bytes_ok_app. split; [unfold bytes_ok; repeat constructor; unfold byte_ok; lia|].
      apply bytes_ok_app. split; [apply be16_ok|exact Hokp]. }
    intros [|f] Hf; [cbn in Hf; lia|].
    rewrite parse_loop_step by assumption. rewrite Hone. cbn [bind].
    rewrite Hparse; [reflexivity|].
    rewrite !app_length in Hf. cbn [length] in Hf. lia.
Qed.

Theorem rtcp_roundtrip ps :
  Forall wf_rtcp ps ->
  exists b, rtcp_bytes_all ps = Ok b /\ bytes_ok b /\ rtcp_parse b = Ok ps.
Proof.
  intros H. destruct (rtcp_compound_roundtrip ps H) as (b & Hb & Hok & Hp).
  exists b. split; [exact Hb|]. split; [exact Hok|]. unfold rtcp_parse. apply Hp. lia.
Qed.
