(* C01: the sender's numbering satisfies the hypothesis of the ordered-delivery theorem.
   For ANY list of messages on any streams, ordered or not, the ordered messages of one
   stream st -- as fragmented by _send -- have consecutive stream sequence numbers, B/E
   flags by position, and TSN offsets that increase along and across messages. *)
From Coq Require Import ZArith List Bool Lia ZifyBool Arith.
From AV Require Import Lib.Bytes Gen.Utils Gen.SctpConst Model.SctpRecv Model.SctpSend Proof.SerialP
  Proof.SctpSendP Proof.SctpDupP Proof.SctpOrderP.
Import ListNotations.
Local Open Scope Z_scope.

Ltac Zify.zify_post_hook ::= Z.to_euclidean_division_equations.

Definition selected (st : Z) (m : outmsg) : bool := o_ordered m && Z.eqb (o_sid m) st.

Fixpoint sel (st : Z) (s : sstate) (ms : list outmsg) : list (list chunk) :=
  match ms with
  | [] => []
  | m :: ms' => if selected st m then snd (send_msg s m) :: sel st (fst (send_msg s m)) ms'
                else sel st (fst (send_msg s m)) ms'
  end.

Fixpoint sel_offs (st base : Z) (s : sstate) (ms : list outmsg) : list Z :=
  match ms with
  | [] => [off base (local_tsn s)]
  | m :: ms' => if selected st m then off base (local_tsn s) :: sel_offs st base (fst (send_msg s m)) ms'
                else sel_offs st base (fst (send_msg s m)) ms'
  end.

Lemma frag_loop_nth st sq pp un : forall n data t b i c,
  nth_error (frag_loop n data t st sq un pp b) i = Some c ->
  tsn c = tsn_advance i t /\ sid c = st /\ sseq c = sq /\ unordered c = un /\
  first c = (b && Nat.eqb i 0) /\ last c = Nat.eqb (S i) n.
Proof.
  induction n as [|n IH]; intros data t b i c H; [destruct i; discriminate|].
  cbn [frag_loop] in H. destruct i as [|i]; cbn [nth_error] in H.
  - injection H as <-. cbn [tsn sid sseq unordered first last tsn_advance Nat.eqb]. rewrite andb_true_r. repeat split; try reflexivity. destruct n; reflexivity.
  - apply IH in H as (H1 & H2 & H3 & H4 & H5 & H6). cbn [tsn_advance Nat.eqb]. rewrite andb_false_r.
    cbn [andb] in H5. repeat split; assumption.
Qed.

Lemma seq_get_set_same l k v : seq_get (seq_set l k v) k = v.
Proof.
  induction l as [|[k' w] l IH]; cbn [seq_set seq_get]; [now rewrite Z.eqb_refl|].
  destruct (Z.eqb_spec k k') as [->|Hne]; cbn [seq_get]; [now rewrite Z.eqb_refl|].
  destruct (Z.eqb_spec k k'); [contradiction|exact IH].
Qed.
Lemma seq_get_set_other l k v k' : k' <> k -> seq_get (seq_set l k v) k' = seq_get l k'.
Proof.
  intros Hne. induction l as [|[a w] l IH]; cbn [seq_set seq_get].
  - destruct (Z.eqb_spec k' k); [contradiction|reflexivity].
  - destruct (Z.eqb_spec k a) as [->|Hk]; cbn [seq_get].
    + destruct (Z.eqb_spec k' a); [contradiction|reflexivity].
    + destruct (Z.eqb_spec k' a); [reflexivity|exact IH].
Qed.

Section Sender.
Variable base N : Z.
Hypothesis Hbase : r32 base.
Hypothesis HN : 0 <= N < 2147483648.
Variable st : Z.

Lemma off_advance : forall n t, r32 t -> off base t + Z.of_nat n <= N ->
  r32 (tsn_advance n t) /\ off base (tsn_advance n t) = off base t + Z.of_nat n.
Proof.
  induction n as [|n IH]; intros t Ht Hw; cbn [tsn_advance]; [split; [exact Ht|lia]|].
  assert (H1 : r32 (tsn_plus_one t) /\ off base (tsn_plus_one t) = off base t + 1).
  { unfold r32, off, M32, tsn_plus_one, SCTP_TSN_MODULO in *. lia. }
  destruct H1 as [H1 H2]. destruct (IH (tsn_plus_one t) H1 ltac:(lia)) as [H3 H4]. split; [exact H3|lia].
Qed.

(* window: everything still to be sent fits below N *)
Definition fits (s : sstate) (ms : list outmsg) : Prop :=
  r32 (local_tsn s) /\ off base (local_tsn s) + Z.of_nat (total_frags ms) <= N.

Lemma fits_step s m ms : fits s (m :: ms) ->
  fits (fst (send_msg s m)) ms /\
  off base (local_tsn (fst (send_msg s m))) = off base (local_tsn s) + Z.of_nat (fragments_count (o_data m)).
Proof.
  intros [Hr Hw]. cbn [total_frags fold_right] in Hw. change (fold_right _ 0%nat ms) with (total_frags ms) in Hw.
  unfold send_msg. cbn [fst local_tsn].
  destruct (off_advance (fragments_count (o_data m)) (local_tsn s) Hr ltac:(lia)) as [H1 H2].
  unfold fits. cbn [local_tsn]. split; [split; [exact H1|lia]|exact H2].
Qed.

Lemma sel_offs_ge : forall ms s, fits s ms -> Forall (fun x => off base (local_tsn s) <= x) (sel_offs st base s ms).
Proof.
  induction ms as [|m ms IH]; intros s F; cbn [sel_offs]; [constructor; [lia|constructor]|].
  destruct (fits_step s m ms F) as [F1 E1]. specialize (IH _ F1).
  assert (IH' : Forall (fun x => off base (local_tsn s) <= x) (sel_offs st base (fst (send_msg s m)) ms)).
  { eapply Forall_impl; [|exact IH]. intros x Hx. cbv beta in *. lia. }
  destruct (selected st m); [constructor; [lia|exact IH']|exact IH'].
Qed.

Lemma sel_offs_nonempty : forall ms s, sel_offs st base s ms <> [].
Proof. induction ms as [|m ms IH]; intros s; cbn [sel_offs]; [discriminate|]. destruct (selected st m); [discriminate|apply IH]. Qed.

Theorem sender_wf : forall ms s, fits s ms -> Forall (fun m => o_data m <> []) ms ->
  0 <= seq_get (stream_seq s) st < 65536 ->
  forall j f, nth_error (sel st s ms) j = Some f ->
    f <> [] /\
    nth j (sel_offs st base s ms) 0 + Z.of_nat (length f) <= nth (S j) (sel_offs st base s ms) 0 /\
    forall i c, nth_error f i = Some c ->
      chunk_ok base N (fun j => nth j (sel_offs st base s ms) 0) (seq_get (stream_seq s) st) j i f c.
Proof.
  induction ms as [|m ms IH]; intros s F Hd Hs j f Hj; [destruct j; discriminate|].
  inversion Hd as [|? ? Hm Hd']; subst.
  destruct (fits_step s m ms F) as [F1 E1].
  cbn [sel sel_offs] in *. destruct (selected st m) eqn:Es.
  - unfold selected in Es. apply andb_true_iff in Es as [Eo Ei]. apply Z.eqb_eq in Ei.
    assert (Hs1 : seq_get (stream_seq (fst (send_msg s m))) st = uint16_add (seq_get (stream_seq s) st) 1).
    { unfold send_msg. cbn [fst stream_seq]. rewrite Eo, Ei. apply seq_get_set_same. }
    destruct j as [|j]; cbn [nth_error] in Hj.
    + destruct (fragments_count_bounds (o_data m) Hm) as [Hn1 _].
      set (n := fragments_count (o_data m)) in *.
      set (fl := frag_loop n (o_data m) (local_tsn s) st (seq_get (stream_seq s) st) false (o_ppid m) true).
      assert (Ef : snd (send_msg s m) = fl) by (unfold send_msg; cbn [snd]; rewrite Eo, Ei; reflexivity).
      rewrite Ef in Hj. injection Hj as <-.
      assert (Lf : length fl = n) by apply frag_loop_length.
      split; [intros E; rewrite E in Lf; cbn in Lf; lia|]. split.
      * cbn [nth]. rewrite Lf.
        pose proof (sel_offs_ge ms _ F1) as G. pose proof (sel_offs_nonempty ms (fst (send_msg s m))) as Ne.
        destruct (sel_offs st base (fst (send_msg s m)) ms) as [|x xs]; [congruence|]. cbn [nth].
        inversion G as [|? ? G1 G2]. lia.
      * intros i c Hc. assert (Hi : (i < n)%nat) by (rewrite <- Lf; apply nth_error_Some; congruence).
        apply frag_loop_nth in Hc as (H1 & H2 & H3 & H4 & H5 & H6).
        destruct F as [Fr Fw]. cbn [total_frags fold_right] in Fw. change (fold_right _ 0%nat ms) with (total_frags ms) in Fw.
        fold n in Fw. destruct (off_advance i (local_tsn s) Fr ltac:(lia)) as [A1 A2].
        constructor.
        -- exact H4.
        -- rewrite H3. unfold ssn. lia.
        -- rewrite H5. reflexivity.
        -- rewrite H6, Lf. reflexivity.
        -- rewrite H1. split; [exact A1|lia].
        -- unfold offc. rewrite H1, A2. cbn [nth]. lia.
    + assert (Hs1r : 0 <= seq_get (stream_seq (fst (send_msg s m))) st < 65536).
      { rewrite Hs1. pose proof (uint16_add_range (seq_get (stream_seq s) st) 1). unfold in16 in *. lia. }
      destruct (IH _ F1 Hd' Hs1r j f Hj) as (I1 & I2 & I3).
      split; [exact I1|]. split; [exact I2|].
      intros i c Hc. destruct (I3 i c Hc) as [K1 K2 K3 K4 K5 K6]. constructor; auto.
      * rewrite K2, Hs1, uint16_add_mod. unfold ssn. lia.
  - assert (Hs1 : seq_get (stream_seq (fst (send_msg s m))) st = seq_get (stream_seq s) st).
    { unfold send_msg. cbn [fst stream_seq]. unfold selected in Es. destruct (o_ordered m); [|reflexivity].
      cbn [andb] in Es. apply seq_get_set_other. intros E. rewrite E, Z.eqb_refl in Es. discriminate. }
    rewrite <- Hs1. apply IH; auto. now rewrite Hs1.
Qed.
End Sender.
