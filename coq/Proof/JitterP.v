(* Proofs about Model/Jitter.v, part 1: modular arithmetic of the generated
   uint16_add, list utilities, and the WINDOW view of the ring: the list of the
   `capacity` slots read from `_origin` onwards.  Every loop of the model is
   shown to act on the window like a simple list function (w_remove, w_smart,
   w_rf), so that the remaining proofs never mention ring positions. *)
From Coq Require Import ZArith List Bool Lia Znumtheory.
From AV Require Import Lib.Sx Lib.Bytes Gen.Utils Gen.JbConst Model.Jitter.
Import ListNotations.
Local Open Scope Z_scope.

(* ---------------------------------------------------------------- arithmetic *)
Definition M16 : Z := 65536.

Lemma uint16_add_mod a b : uint16_add a b = (a + b) mod 65536.
Proof. unfold uint16_add. change 65535 with (Z.ones 16). rewrite Z.land_ones by lia. reflexivity. Qed.

Lemma uint16_add_range a b : 0 <= uint16_add a b < 65536.
Proof. rewrite uint16_add_mod. apply Z.mod_pos_bound. lia. Qed.

(* capacities: the powers of two up to 2^16 *)
Definition cap_ok (c : Z) : Prop := exists k, 0 <= k <= 16 /\ c = 2 ^ k.

Lemma cap_ok_pos c : cap_ok c -> 0 < c.
Proof. intros (k & Hk & ->). apply Z.pow_pos_nonneg; lia. Qed.

Lemma cap_ok_div c : cap_ok c -> (c | 65536).
Proof.
  intros (k & Hk & ->). exists (2 ^ (16 - k)).
  rewrite <- Z.pow_add_r by lia. replace (16 - k + k) with 16 by lia. reflexivity.
Qed.

Lemma cap_ok_le c : cap_ok c -> c <= 65536.
Proof.
  intros H. pose proof (cap_ok_pos c H). destruct (cap_ok_div c H) as [q Hq].
  assert (0 < q) by nia. nia.
Qed.

Lemma cap_ok_land c : cap_ok c -> Z.land c (c - 1) = 0.
Proof.
  intros (k & Hk & ->). replace (2 ^ k - 1) with (Z.ones k) by (rewrite Z.ones_equiv; lia).
  rewrite Z.land_ones by lia. apply Z.mod_same. apply Z.pow_nonzero; lia.
Qed.

Lemma mod16_mod c a : cap_ok c -> (a mod 65536) mod c = a mod c.
Proof.
  intros H. symmetry. apply Zmod_div_mod; [apply cap_ok_pos; exact H|lia|apply cap_ok_div; exact H].
Qed.

Lemma mod_inj c a b : 0 < c -> a mod c = b mod c -> - c < a - b < c -> a = b.
Proof.
  intros Hc E Hr.
  pose proof (Z.div_mod a c ltac:(lia)) as Ha. pose proof (Z.div_mod b c ltac:(lia)) as Hb.
  assert (Hd : a - b = c * (a / c - b / c)) by lia.
  remember (a / c - b / c) as t eqn:Et. clear Et Ha Hb.
  assert (t = 0); [|subst t; lia].
  destruct (Z_lt_le_dec t 1) as [H1|H1]; [destruct (Z_lt_le_dec (-1) t) as [H2|H2]; [lia|]|]; nia.
Qed.

Lemma mod_small_eq c a k : 0 < c -> 0 <= k < c -> (a - k) mod c = 0 -> a mod c = k.
Proof.
  intros Hc Hk E. apply Z.mod_divide in E; [|lia]. destruct E as [q Hq].
  replace a with (k + q * c) by lia. rewrite Z.mod_add by lia. apply Z.mod_small. lia.
Qed.

Lemma add_mod16_l a b : ((a mod 65536) + b) mod 65536 = (a + b) mod 65536.
Proof. rewrite Zplus_mod_idemp_l. reflexivity. Qed.

Lemma add_mod16_r a b : (a + (b mod 65536)) mod 65536 = (a + b) mod 65536.
Proof. rewrite Zplus_mod_idemp_r. reflexivity. Qed.

Lemma uint16_add_add a b d : uint16_add (uint16_add a b) d = uint16_add a (b + d).
Proof. rewrite !uint16_add_mod, add_mod16_l. f_equal. lia. Qed.

Lemma uint16_add_0 a : 0 <= a < 65536 -> uint16_add a 0 = a.
Proof. intros H. rewrite uint16_add_mod, Z.add_0_r. apply Z.mod_small. exact H. Qed.

(* seq = origin + delta  (mod 2^16) *)
Lemma uint16_delta_back o s : 0 <= s < 65536 -> uint16_add o (uint16_add s (- o)) = s.
Proof.
  intros H. rewrite !uint16_add_mod, add_mod16_r. replace (o + (s + - o)) with s by lia.
  apply Z.mod_small. exact H.
Qed.

(* ---------------------------------------------------------------- lists *)
Lemma set_nth_some {A} (l : list A) n x : (n < length l)%nat -> exists l', set_nth l n x = Some l'.
Proof.
  revert n. induction l as [|h t IH]; intros n Hn; cbn [length] in Hn; [lia|].
  destruct n as [|n]; cbn [set_nth]; [eexists; reflexivity|].
  destruct (IH n ltac:(lia)) as [t' ->]. eexists; reflexivity.
Qed.

Lemma set_nth_length {A} (l l' : list A) n x : set_nth l n x = Some l' -> length l' = length l.
Proof.
  revert n l'. induction l as [|h t IH]; intros n l' H; cbn [set_nth] in H; [destruct n; discriminate|].
  destruct n as [|n].
  - injection H as <-. reflexivity.
  - destruct (set_nth t n x) as [t'|] eqn:E; [|discriminate]. injection H as <-.
    cbn [length]. f_equal. eapply IH. exact E.
Qed.

Lemma set_nth_lt {A} (l l' : list A) n x : set_nth l n x = Some l' -> (n < length l)%nat.
Proof.
  revert n l'. induction l as [|h t IH]; intros n l' H; cbn [set_nth] in H; [destruct n; discriminate|].
  destruct n as [|n]; cbn [length]; [lia|].
  destruct (set_nth t n x) as [t'|] eqn:E; [|discriminate]. apply IH in E. lia.
Qed.

Lemma set_nth_same {A} (l l' : list A) n x : set_nth l n x = Some l' -> nth_error l' n = Some x.
Proof.
  revert n l'. induction l as [|h t IH]; intros n l' H; cbn [set_nth] in H; [destruct n; discriminate|].
  destruct n as [|n].
  - injection H as <-. reflexivity.
  - destruct (set_nth t n x) as [t'|] eqn:E; [|discriminate]. injection H as <-.
    cbn [nth_error]. eapply IH. exact E.
Qed.

Lemma set_nth_other {A} (l l' : list A) n m x :
  set_nth l n x = Some l' -> m <> n -> nth_error l' m = nth_error l m.
Proof.
  revert n m l'. induction l as [|h t IH]; intros n m l' H Hne; cbn [set_nth] in H; [destruct n; discriminate|].
  destruct n as [|n].
  - injection H as <-. destruct m; [contradiction|reflexivity].
  - destruct (set_nth t n x) as [t'|] eqn:E; [|discriminate]. injection H as <-.
    destruct m as [|m]; [reflexivity|]. cbn [nth_error]. eapply IH; [exact E|lia].
Qed.

Lemma nth_error_ext {A} (l l' : list A) :
  length l = length l' -> (forall k, (k < length l)%nat -> nth_error l k = nth_error l' k) -> l = l'.
Proof.
  revert l'. induction l as [|h t IH]; intros [|h' t'] HL HN; cbn [length] in *; try lia; [reflexivity|].
  pose proof (HN 0%nat ltac:(lia)) as H0. cbn [nth_error] in H0. injection H0 as ->.
  f_equal. apply IH; [lia|]. intros k Hk. apply (HN (S k)). lia.
Qed.

Lemma nth_error_skipn' {A} (l : list A) n k : nth_error (skipn n l) k = nth_error l (n + k).
Proof.
  revert l. induction n as [|n IH]; intros l; [reflexivity|].
  destruct l as [|h t]; [destruct k; reflexivity|]. cbn [skipn Nat.add nth_error]. apply IH.
Qed.

Lemma nth_error_repeat' {A} (x : A) n k : (k < n)%nat -> nth_error (repeat x n) k = Some x.
Proof.
  revert k. induction n as [|n IH]; intros k Hk; [lia|].
  destruct k; [reflexivity|]. cbn [repeat nth_error]. apply IH. lia.
Qed.

Lemma nth_error_some_lt {A} (l : list A) k x : nth_error l k = Some x -> (k < length l)%nat.
Proof. intros H. apply nth_error_Some. congruence. Qed.

(* ---------------------------------------------------------------- the window *)
Definition W := list (option pkt).

(* the slot that holds absolute sequence position x *)
Definition cellat (c : Z) (sl : W) (x : Z) : option pkt :=
  match nth_error sl (Z.to_nat (x mod c)) with
  | Some v => v
  | None => None
  end.

Definition window (c o : Z) (sl : W) : W :=
  map (fun k => cellat c sl (o + Z.of_nat k)) (seq 0 (Z.to_nat c)).

Lemma window_length c o sl : length (window c o sl) = Z.to_nat c.
Proof. unfold window. rewrite map_length, seq_length. reflexivity. Qed.

Lemma nth_error_seq' s n k : (k < n)%nat -> nth_error (seq s n) k = Some (s + k)%nat.
Proof.
  revert s k. induction n as [|n IH]; intros s k Hk; [lia|].
  destruct k as [|k]; cbn [seq nth_error]; [f_equal; lia|].
  rewrite IH by lia. f_equal. lia.
Qed.

Lemma window_nth c o sl k : (k < Z.to_nat c)%nat ->
  nth_error (window c o sl) k = Some (cellat c sl (o + Z.of_nat k)).
Proof.
  intros Hk. unfold window. rewrite nth_error_map, nth_error_seq' by exact Hk. reflexivity.
Qed.

Lemma cellat_congr c sl x y : x mod c = y mod c -> cellat c sl x = cellat c sl y.
Proof. unfold cellat. intros ->. reflexivity. Qed.

Lemma cellat_set c sl sl' x v y : 0 < c ->
  set_nth sl (Z.to_nat (x mod c)) v = Some sl' ->
  cellat c sl' y = if (y mod c =? x mod c) then v else cellat c sl y.
Proof.
  intros Hc H. unfold cellat. destruct (Z.eqb_spec (y mod c) (x mod c)) as [E|E].
  - rewrite E. rewrite (set_nth_same _ _ _ _ H). reflexivity.
  - rewrite (set_nth_other _ _ _ (Z.to_nat (y mod c)) _ H); [reflexivity|].
    pose proof (Z.mod_pos_bound y c Hc). pose proof (Z.mod_pos_bound x c Hc). lia.
Qed.

Lemma cellat_repeat c n x : cellat c (repeat None n) x = None.
Proof.
  unfold cellat. destruct (nth_error (repeat None n) (Z.to_nat (x mod c))) as [v|] eqn:E; [|reflexivity].
  apply nth_error_In in E. apply repeat_spec in E. exact E.
Qed.

Lemma set_nth_intro {A} (l l' : list A) n x :
  length l' = length l -> (n < length l)%nat -> nth_error l' n = Some x ->
  (forall m, m <> n -> nth_error l' m = nth_error l m) -> set_nth l n x = Some l'.
Proof.
  intros HL Hn Hx Ho. destruct (set_nth_some l n x Hn) as [l2 H2]. rewrite H2. f_equal.
  apply nth_error_ext; [rewrite (set_nth_length _ _ _ _ H2); symmetry; exact HL|].
  intros k _. destruct (Nat.eq_dec k n) as [->|Hne].
  - rewrite (set_nth_same _ _ _ _ H2). symmetry. exact Hx.
  - rewrite (set_nth_other _ _ _ _ _ H2 Hne). symmetry. apply Ho. exact Hne.
Qed.

(* total versions used by the window-level functions *)
Definition w_set (w : W) (k : nat) (x : option pkt) : W :=
  match set_nth w k x with Some w' => w' | None => w end.
Definition w_remove (w : W) (n : nat) : W := skipn n w ++ repeat None n.

Lemma w_remove_length w n : (n <= length w)%nat -> length (w_remove w n) = length w.
Proof. intros H. unfold w_remove. rewrite app_length, skipn_length, repeat_length. lia. Qed.

Lemma w_remove_nth w n k : (n <= length w)%nat -> (k < length w)%nat ->
  nth_error (w_remove w n) k = if (k + n <? length w)%nat then nth_error w (n + k) else Some None.
Proof.
  intros Hn Hk. unfold w_remove. destruct (Nat.ltb_spec (k + n) (length w)) as [H|H].
  - rewrite nth_error_app1 by (rewrite skipn_length; lia). apply nth_error_skipn'.
  - rewrite nth_error_app2 by (rewrite skipn_length; lia). rewrite skipn_length.
    apply nth_error_repeat'. lia.
Qed.

Lemma w_remove_0 w : w_remove w 0 = w.
Proof. unfold w_remove. cbn [skipn repeat]. apply app_nil_r. Qed.

Lemma w_remove_S w n : (S n <= length w)%nat -> w_remove (w_remove w 1) n = w_remove w (S n).
Proof.
  intros H. apply nth_error_ext.
  - rewrite !w_remove_length; try lia. rewrite w_remove_length; lia.
  - intros k Hk. rewrite w_remove_length in Hk by (rewrite w_remove_length; lia).
    rewrite w_remove_length in Hk by lia.
    rewrite w_remove_nth by (rewrite ?w_remove_length; lia).
    rewrite (w_remove_nth w (S n)) by lia. rewrite w_remove_length by lia.
    destruct (Nat.ltb_spec (k + n) (length w)) as [H1|H1].
    + rewrite w_remove_nth by lia.
      destruct (Nat.ltb_spec (n + k + 1) (length w)) as [H2|H2];
        destruct (Nat.ltb_spec (k + S n) (length w)) as [H3|H3]; try lia; [|reflexivity].
      f_equal; lia.
    + destruct (Nat.ltb_spec (k + S n) (length w)) as [H3|H3]; [lia|reflexivity].
Qed.

Lemma w_remove_all w n : n = length w -> w_remove w n = repeat None n.
Proof. intros ->. unfold w_remove. rewrite skipn_all. reflexivity. Qed.

(* the window only depends on the origin modulo 2^16 *)
Lemma window_mod16 c o sl : cap_ok c -> window c (o mod 65536) sl = window c o sl.
Proof.
  intros Hc. unfold window. apply map_ext. intros k. apply cellat_congr.
  rewrite Zplus_mod, (mod16_mod c o Hc), <- Zplus_mod. reflexivity.
Qed.

Lemma window_uint16 c o d sl : cap_ok c -> window c (uint16_add o d) sl = window c (o + d) sl.
Proof. intros Hc. rewrite uint16_add_mod. apply window_mod16. exact Hc. Qed.

Lemma window_repeat c o n : window c o (repeat None n) = repeat None (Z.to_nat c).
Proof.
  apply nth_error_ext; [rewrite window_length, repeat_length; reflexivity|].
  intros k Hk. rewrite window_length in Hk. rewrite window_nth by exact Hk.
  rewrite cellat_repeat, nth_error_repeat' by exact Hk. reflexivity.
Qed.

(* writing the slot of absolute position o + d = writing window index d *)
Lemma window_set c o sl sl' d v : 0 < c -> 0 <= d < c ->
  set_nth sl (Z.to_nat ((o + d) mod c)) v = Some sl' ->
  w_set (window c o sl) (Z.to_nat d) v = window c o sl'.
Proof.
  intros Hc Hd H. unfold w_set.
  rewrite (set_nth_intro (window c o sl) (window c o sl') (Z.to_nat d) v); [reflexivity| | | |].
  - rewrite !window_length. reflexivity.
  - rewrite window_length. lia.
  - rewrite window_nth by lia. rewrite (cellat_set _ _ _ _ _ _ Hc H).
    rewrite Z2Nat.id by lia. rewrite Z.eqb_refl. reflexivity.
  - intros m Hm. destruct (Nat.lt_ge_cases m (Z.to_nat c)) as [Hlt|Hge].
    + rewrite !window_nth by exact Hlt. rewrite (cellat_set _ _ _ _ _ _ Hc H).
      destruct (Z.eqb_spec ((o + Z.of_nat m) mod c) ((o + d) mod c)) as [E|E]; [|reflexivity].
      exfalso. apply Hm. apply mod_inj in E; lia.
    + rewrite (proj2 (nth_error_None _ _)) by (rewrite window_length; exact Hge).
      rewrite (proj2 (nth_error_None _ _)) by (rewrite window_length; exact Hge). reflexivity.
Qed.

(* clearing the origin slot and advancing the origin = dropping the window head *)
Lemma window_step c o sl sl' : 0 < c ->
  set_nth sl (Z.to_nat (o mod c)) None = Some sl' ->
  window c (o + 1) sl' = w_remove (window c o sl) 1.
Proof.
  intros Hc H. apply nth_error_ext.
  - rewrite w_remove_length; rewrite !window_length; [reflexivity|lia].
  - intros k Hk. rewrite window_length in Hk.
    rewrite window_nth by exact Hk. rewrite w_remove_nth by (rewrite window_length; lia).
    rewrite window_length. rewrite (cellat_set _ _ _ _ _ _ Hc H).
    destruct (Nat.ltb_spec (k + 1) (Z.to_nat c)) as [H1|H1].
    + rewrite window_nth by lia.
      destruct (Z.eqb_spec ((o + 1 + Z.of_nat k) mod c) (o mod c)) as [E|E].
      * exfalso. apply mod_inj in E; lia.
      * f_equal. apply cellat_congr. f_equal. lia.
    + destruct (Z.eqb_spec ((o + 1 + Z.of_nat k) mod c) (o mod c)) as [E|E]; [reflexivity|].
      exfalso. apply E. replace (o + 1 + Z.of_nat k) with (o + 1 * c) by lia.
      apply Z.mod_add. lia.
Qed.

(* reading: window index k is the slot of absolute position o + k *)
Lemma window_read c o sl k : 0 < c -> length sl = Z.to_nat c -> 0 <= k < c ->
  nth_error sl (Z.to_nat ((o + k) mod c)) = Some (cellat c sl (o + k)).
Proof.
  intros Hc HL Hk. unfold cellat.
  destruct (nth_error sl (Z.to_nat ((o + k) mod c))) as [v|] eqn:E; [reflexivity|].
  apply nth_error_None in E. pose proof (Z.mod_pos_bound (o + k) c Hc). lia.
Qed.

(* ---------------------------------------------------------------- the loops, on windows *)
Lemma pymod_pos a c : 0 < c -> pymod a c = Some (Z.to_nat (a mod c)).
Proof. intros H. unfold pymod. destruct (Z.leb_spec c 0); [lia|reflexivity]. Qed.

Lemma mod_pos_lt a c (sl : W) : 0 < c -> length sl = Z.to_nat c -> (Z.to_nat (a mod c) < length sl)%nat.
Proof. intros Hc HL. pose proof (Z.mod_pos_bound a c Hc). lia. Qed.

Lemma remove_loop_spec c : cap_ok c -> forall n o sl,
  0 <= o < 65536 -> length sl = Z.to_nat c -> (n <= Z.to_nat c)%nat ->
  exists sl', remove_loop n c o sl = Ok (uint16_add o (Z.of_nat n), sl') /\
              length sl' = Z.to_nat c /\
              window c (uint16_add o (Z.of_nat n)) sl' = w_remove (window c o sl) n.
Proof.
  intros Hc. pose proof (cap_ok_pos c Hc) as Hpos.
  induction n as [|n IH]; intros o sl Ho HL Hn.
  - exists sl. cbn [remove_loop Z.of_nat]. rewrite uint16_add_0 by exact Ho.
    rewrite w_remove_0. auto.
  - cbn [remove_loop]. rewrite pymod_pos by exact Hpos.
    destruct (set_nth_some sl (Z.to_nat (o mod c)) None (mod_pos_lt o c sl Hpos HL)) as [sl1 H1].
    rewrite H1. pose proof (set_nth_length _ _ _ _ H1) as HL1.
    destruct (IH (uint16_add o 1) sl1 (uint16_add_range o 1) ltac:(lia) ltac:(lia)) as (sl' & E & HL' & HW).
    exists sl'. rewrite uint16_add_add in E, HW.
    replace (Z.of_nat (S n)) with (1 + Z.of_nat n) by lia.
    split; [exact E|]. split; [exact HL'|]. rewrite HW.
    rewrite window_uint16 by exact Hc. rewrite (window_step c o sl sl1 Hpos H1).
    apply w_remove_S. rewrite window_length. lia.
Qed.

Lemma remove_spec c : cap_ok c -> forall o sl count,
  0 <= o < 65536 -> length sl = Z.to_nat c -> 0 <= count <= c ->
  exists sl', remove c o sl count = Ok (uint16_add o count, sl') /\
              length sl' = Z.to_nat c /\
              window c (uint16_add o count) sl' = w_remove (window c o sl) (Z.to_nat count).
Proof.
  intros Hc o sl count Ho HL Hcnt. unfold remove.
  destruct (Z.gtb_spec count c); [lia|].
  destruct (remove_loop_spec c Hc (Z.to_nat count) o sl Ho HL ltac:(lia)) as (sl' & E & HL' & HW).
  rewrite Z2Nat.id in E, HW by lia. exists sl'. auto.
Qed.

(* smart_remove on a window: Some b = stopped after dropping b slots, None = dropped everything *)
Fixpoint w_smart (w : W) (i count : Z) (tsv : option Z) : option nat :=
  match w with
  | [] => None
  | Some p :: w' =>
      if (i >=? count) && ts_differs tsv (pts p) then Some O
      else option_map S (w_smart w' (i + 1) count (Some (pts p)))
  | None :: w' => option_map S (w_smart w' (i + 1) count tsv)
  end.

Lemma firstn_app_le {A} (l1 l2 : list A) n : (n <= length l1)%nat -> firstn n (l1 ++ l2) = firstn n l1.
Proof.
  intros H. rewrite firstn_app. replace (n - length l1)%nat with 0%nat by lia.
  cbn [firstn]. apply app_nil_r.
Qed.

Lemma smart_loop_spec c : cap_ok c -> forall n i count tsv o sl,
  (1 <= n)%nat -> 0 <= i -> i + Z.of_nat n = c -> 0 <= o < 65536 -> length sl = Z.to_nat c ->
  match w_smart (firstn n (window c o sl)) i count tsv with
  | Some b => exists sl', smart_loop n i count c tsv o sl = Ok (false, uint16_add o (Z.of_nat b), sl') /\
                          length sl' = Z.to_nat c /\ (b < n)%nat /\
                          window c (uint16_add o (Z.of_nat b)) sl' = w_remove (window c o sl) b
  | None => exists o' sl', smart_loop n i count c tsv o sl = Ok (true, o', sl') /\
                           length sl' = Z.to_nat c /\
                           window c (uint16_add o (Z.of_nat n)) sl' = w_remove (window c o sl) n
  end.
Proof.
  intros Hc. pose proof (cap_ok_pos c Hc) as Hpos.
  induction n as [|n IH]; intros i count tsv o sl Hn Hi0 Hi Ho HL; [lia|].
  assert (HWL : length (window c o sl) = Z.to_nat c) by apply window_length.
  pose proof (window_nth c o sl 0 ltac:(lia)) as H0. cbn [Z.of_nat] in H0. rewrite Z.add_0_r in H0.
  pose proof (window_read c o sl 0 Hpos HL ltac:(lia)) as HR. rewrite Z.add_0_r in HR.
  destruct (set_nth_some sl (Z.to_nat (o mod c)) None (mod_pos_lt o c sl Hpos HL)) as [sl1 H1].
  pose proof (set_nth_length _ _ _ _ H1) as HL1.
  pose proof (window_step c o sl sl1 Hpos H1) as HS. rewrite <- (window_uint16 c o 1 sl1 Hc) in HS.
  destruct (window c o sl) as [|h t] eqn:EW; [cbn [length] in HWL; lia|].
  cbn [nth_error] in H0. injection H0 as H0. cbn [length] in HWL.
  cbn [smart_loop firstn]. rewrite pymod_pos by exact Hpos. rewrite HR, <- H0, H1.
  (* the common continuation *)
  assert (Hcont : forall tsv',
    match option_map S (w_smart (firstn n t) (i + 1) count tsv') with
    | Some b => exists sl', (if i =? c - 1 then Ok (true, uint16_add o 1, sl1)
                             else smart_loop n (i + 1) count c tsv' (uint16_add o 1) sl1)
                            = Ok (false, uint16_add o (Z.of_nat b), sl') /\
                          length sl' = Z.to_nat c /\ (b < S n)%nat /\
                          window c (uint16_add o (Z.of_nat b)) sl' = w_remove (h :: t) b
    | None => exists o' sl', (if i =? c - 1 then Ok (true, uint16_add o 1, sl1)
                              else smart_loop n (i + 1) count c tsv' (uint16_add o 1) sl1)
                             = Ok (true, o', sl') /\
                           length sl' = Z.to_nat c /\
                           window c (uint16_add o (Z.of_nat (S n))) sl' = w_remove (h :: t) (S n)
    end).
  { intros tsv'. destruct (Z.eqb_spec i (c - 1)) as [Ei|Ei].
    - assert (n = 0%nat) by lia. subst n. cbn [firstn w_smart option_map].
      exists (uint16_add o 1), sl1. split; [reflexivity|]. split; [lia|]. exact HS.
    - specialize (IH (i + 1) count tsv' (uint16_add o 1) sl1 ltac:(lia) ltac:(lia) ltac:(lia)
                     (uint16_add_range o 1) ltac:(lia)).
      rewrite HS in IH. unfold w_remove at 1 in IH. cbn [skipn repeat] in IH.
      rewrite firstn_app_le in IH by lia.
      destruct (w_smart (firstn n t) (i + 1) count tsv') as [b|]; cbn [option_map].
      + destruct IH as (sl' & E & HL' & Hb & HW). exists sl'.
        rewrite uint16_add_add in E, HW. replace (Z.of_nat (S b)) with (1 + Z.of_nat b) by lia.
        split; [exact E|]. split; [exact HL'|]. split; [lia|]. rewrite HW.
        apply w_remove_S. cbn [length]. lia.
      + destruct IH as (o' & sl' & E & HL' & HW). exists o', sl'.
        rewrite uint16_add_add in HW. replace (Z.of_nat (S n)) with (1 + Z.of_nat n) by lia.
        split; [exact E|]. split; [exact HL'|]. rewrite HW.
        apply w_remove_S. cbn [length]. lia. }
  destruct h as [p|]; cbn [w_smart].
  - destruct ((i >=? count) && ts_differs tsv (pts p)).
    + exists sl. cbn [Z.of_nat]. rewrite uint16_add_0 by exact Ho. rewrite w_remove_0.
      split; [reflexivity|]. split; [exact HL|]. split; [lia|]. exact EW.
    + apply Hcont.
  - apply Hcont.
Qed.

(* the scan of _remove_frame on a window *)
Fixpoint w_rf (w : W) (count pf : Z) (fr : option frame) (frames : Z) (packets : list pkt)
         (rem : Z) (tsv : option Z) : option (frame * Z) :=
  match w with
  | [] => None
  | None :: _ => None
  | Some p :: w' =>
      match tsv with
      | None => w_rf w' (count + 1) pf fr frames (packets ++ [p]) rem (Some (pts p))
      | Some t =>
          if negb (pts p =? t) then
            let fr' := match fr with
                       | None => mkFrame t (concat (map pdata packets))
                       | Some f => f
                       end in
            let rem' := match fr with None => count | Some _ => rem end in
            let frames' := frames + 1 in
            if frames' >=? pf then Some (fr', rem')
            else w_rf w' (count + 1) pf (Some fr') frames' [p] rem' (Some (pts p))
          else w_rf w' (count + 1) pf fr frames (packets ++ [p]) rem tsv
      end
  end.

Lemma skipn_nth_cons {A} (l : list A) k x : nth_error l k = Some x -> skipn k l = x :: skipn (S k) l.
Proof.
  revert k. induction l as [|h t IH]; intros k H; [destruct k; discriminate|].
  destruct k as [|k]; cbn [nth_error] in H.
  - injection H as ->. reflexivity.
  - cbn [skipn]. apply IH. exact H.
Qed.

Lemma rf_loop_spec c : 0 < c -> forall n count o sl pf fr frames packets rem tsv,
  0 <= count -> count + Z.of_nat n = c -> length sl = Z.to_nat c ->
  rf_loop n count c o sl pf fr frames packets rem tsv =
  Ok (w_rf (skipn (Z.to_nat count) (window c o sl)) count pf fr frames packets rem tsv).
Proof.
  intros Hpos. induction n as [|n IH]; intros count o sl pf fr frames packets rem tsv Hc0 Hcn HL.
  - cbn [rf_loop]. rewrite skipn_all2 by (rewrite window_length; lia). reflexivity.
  - cbn [rf_loop]. rewrite pymod_pos by exact Hpos.
    rewrite (window_read c o sl count Hpos HL ltac:(lia)).
    rewrite (skipn_nth_cons (window c o sl) (Z.to_nat count) (cellat c sl (o + count))).
    2:{ rewrite window_nth by lia. rewrite Z2Nat.id by lia. reflexivity. }
    replace (S (Z.to_nat count)) with (Z.to_nat (count + 1)) by lia.
    destruct (cellat c sl (o + count)) as [p|]; cbn [w_rf]; [|reflexivity].
    destruct tsv as [t|].
    + destruct (negb (pts p =? t)).
      * destruct (frames + 1 >=? pf); [reflexivity|]. apply IH; lia.
      * apply IH; lia.
    + apply IH; lia.
Qed.

(* ---------------------------------------------------------------- the window-level buffer *)
(* A `jb` whose `slots` field is read as the WINDOW (index 0 = origin). *)
Definition w_frame (w : W) (pf : Z) : option (frame * Z) := w_rf w 0 pf None 0 [] 0 None.

Definition a_tail (a : jb) (p : pkt) (o1 : Z) (w1 : W) (pli1 : bool) : jb * out :=
  let w2 := w_set w1 (Z.to_nat (uint16_add (pseq p) (- o1))) (Some p) in
  match w_frame w2 (prefetch a) with
  | None => (mkJb (cap a) (prefetch a) (is_video a) (Some o1) w2, (pli1, None))
  | Some (f, r) =>
      (mkJb (cap a) (prefetch a) (is_video a) (Some (uint16_add o1 r)) (w_remove w2 (Z.to_nat r)),
       (pli1, Some f))
  end.

Definition a_place (a : jb) (p : pkt) (o delta : Z) (w : W) (pli : bool) : jb * out :=
  let c := cap a in
  if delta >=? c then
    match w_smart w 0 (delta - c + 1) None with
    | None => a_tail a p (pseq p) (repeat None (length w)) (pli || is_video a)
    | Some b => a_tail a p (uint16_add o (Z.of_nat b)) (w_remove w b) (pli || is_video a)
    end
  else a_tail a p o w pli.

Definition a_add (a : jb) (p : pkt) : jb * out :=
  match origin a with
  | None => a_place a p (pseq p) 0 (slots a) false
  | Some o =>
      let delta := uint16_add (pseq p) (- o) in
      let misorder := uint16_add o (- pseq p) in
      if misorder <? delta then
        if misorder >=? MAX_MISORDER then
          a_place a p (pseq p) 0 (repeat None (length (slots a))) (is_video a)
        else (a, (false, None))
      else a_place a p o delta (slots a) false
  end.

Fixpoint a_run (a : jb) (l : list pkt) : jb * list out :=
  match l with
  | [] => (a, [])
  | p :: l' => let r := a_add a p in let r' := a_run (fst r) l' in (fst r', snd r :: snd r')
  end.

Definition a_init (c pf : Z) (v : bool) : jb := mkJb c pf v None (repeat None (Z.to_nat c)).

Definition seq16 (p : pkt) : Prop := 0 <= pseq p < 65536.

Definition Rep (s a : jb) : Prop :=
  cap a = cap s /\ prefetch a = prefetch s /\ is_video a = is_video s /\ origin a = origin s /\
  length (slots s) = Z.to_nat (cap s) /\
  match origin s with
  | Some o => 0 <= o < 65536 /\ slots a = window (cap s) o (slots s)
  | None => slots s = repeat None (Z.to_nat (cap s)) /\ slots a = repeat None (Z.to_nat (cap s))
  end.

Lemma w_smart_ge w : forall i count tsv b, w_smart w i count tsv = Some b -> count <= i + Z.of_nat b.
Proof.
  induction w as [|h t IH]; intros i count tsv b H; cbn [w_smart] in H; [discriminate|].
  destruct h as [p|].
  - destruct (Z.geb_spec i count) as [Hge|Hlt]; cbn [andb] in H.
    + destruct (ts_differs tsv (pts p)).
      * injection H as <-. lia.
      * destruct (w_smart t (i + 1) count (Some (pts p))) as [b'|] eqn:E; [|discriminate].
        injection H as <-. apply IH in E. lia.
    + destruct (w_smart t (i + 1) count (Some (pts p))) as [b'|] eqn:E; [|discriminate].
      injection H as <-. apply IH in E. lia.
  - destruct (w_smart t (i + 1) count tsv) as [b'|] eqn:E; [|discriminate].
    injection H as <-. apply IH in E. lia.
Qed.

Lemma w_smart_lt w : forall i count tsv b, w_smart w i count tsv = Some b -> (b < length w)%nat.
Proof.
  induction w as [|h t IH]; intros i count tsv b H; cbn [w_smart] in H; [discriminate|]. cbn [length].
  destruct h as [p|].
  - destruct ((i >=? count) && ts_differs tsv (pts p)).
    + injection H as <-. lia.
    + destruct (w_smart t (i + 1) count (Some (pts p))) as [b'|] eqn:E; [|discriminate].
      injection H as <-. apply IH in E. lia.
  - destruct (w_smart t (i + 1) count tsv) as [b'|] eqn:E; [|discriminate].
    injection H as <-. apply IH in E. lia.
Qed.

(* where the scan of _remove_frame can stop *)
Lemma w_rf_range w : forall count pf fr frames packets rem tsv f r,
  w_rf w count pf fr frames packets rem tsv = Some (f, r) ->
  match fr with
  | None => count <= r < count + Z.of_nat (length w)
  | Some _ => r = rem
  end.
Proof.
  induction w as [|h t IH]; intros count pf fr frames packets rem tsv f r H; cbn [w_rf] in H; [discriminate|].
  destruct h as [p|]; [|discriminate]. cbn [length].
  destruct tsv as [ts|].
  - destruct (negb (pts p =? ts)).
    + destruct (frames + 1 >=? pf).
      * injection H as <- <-. destruct fr; [reflexivity|lia].
      * apply IH in H. destruct fr; [exact H|lia].
    + apply IH in H. destruct fr; [exact H|lia].
  - apply IH in H. destruct fr; [exact H|lia].
Qed.

Lemma window_all_none c x y sl : 0 < c ->
  window c x sl = repeat None (Z.to_nat c) -> window c y sl = repeat None (Z.to_nat c).
Proof.
  intros Hc H. apply nth_error_ext; [rewrite window_length, repeat_length; reflexivity|].
  intros k Hk. rewrite window_length in Hk. rewrite window_nth by exact Hk.
  rewrite nth_error_repeat' by exact Hk. f_equal.
  pose proof (Z.mod_pos_bound (y + Z.of_nat k - x) c Hc) as Hb.
  assert (E : nth_error (window c x sl) (Z.to_nat ((y + Z.of_nat k - x) mod c)) = Some None).
  { rewrite H. apply nth_error_repeat'. lia. }
  rewrite window_nth in E by lia. injection E as E. rewrite <- E.
  apply cellat_congr. rewrite Z2Nat.id by lia. rewrite Zplus_mod_idemp_r. f_equal. lia.
Qed.

Lemma place_tail s a p o1 sl1 (pli1 : bool) :
  cap_ok (cap s) -> cap a = cap s -> prefetch a = prefetch s -> is_video a = is_video s ->
  seq16 p -> 0 <= o1 < 65536 -> length sl1 = Z.to_nat (cap s) ->
  uint16_add (pseq p) (- o1) < cap s ->
  exists s',
    match pymod (pseq p) (cap s) with
    | None => Crash
    | Some pos =>
        match set_nth sl1 pos (Some p) with
        | None => Crash
        | Some sl2 =>
            bind (remove_frame (cap s) (prefetch s) o1 sl2) (fun r2 =>
              let '(o3, sl3, fr) := r2 in
              Ok (mkJb (cap s) (prefetch s) (is_video s) (Some o3) sl3, (pli1, fr)))
        end
    end = Ok (s', snd (a_tail a p o1 (window (cap s) o1 sl1) pli1)) /\
    Rep s' (fst (a_tail a p o1 (window (cap s) o1 sl1) pli1)).
Proof.
  intros Hc Ec Ep Ev Hp Ho HL Hd. pose proof (cap_ok_pos _ Hc) as Hpos.
  set (c := cap s) in *. set (d := uint16_add (pseq p) (- o1)) in *.
  pose proof (uint16_add_range (pseq p) (- o1)) as Hdr. fold d in Hdr.
  assert (Epos : pseq p mod c = (o1 + d) mod c).
  { rewrite <- (uint16_delta_back o1 (pseq p) Hp) at 1. fold d.
    rewrite uint16_add_mod. apply mod16_mod. exact Hc. }
  rewrite pymod_pos by exact Hpos. rewrite Epos.
  destruct (set_nth_some sl1 (Z.to_nat ((o1 + d) mod c)) (Some p) (mod_pos_lt _ c sl1 Hpos HL)) as [sl2 H2].
  rewrite H2. pose proof (set_nth_length _ _ _ _ H2) as HL2.
  unfold remove_frame. rewrite (rf_loop_spec c Hpos) by lia.
  change (Z.to_nat 0) with 0%nat. cbn [skipn]. unfold a_tail. fold d. rewrite Ec, Ep, Ev. fold c.
  rewrite (window_set c o1 sl1 sl2 d (Some p) Hpos ltac:(lia) H2).
  unfold w_frame.
  destruct (w_rf (window c o1 sl2) 0 (prefetch s) None 0 [] 0 None) as [[f r]|] eqn:EF; cbn [bind].
  - pose proof (w_rf_range _ _ _ _ _ _ _ _ _ _ EF) as Hr. cbn beta iota in Hr.
    rewrite window_length in Hr.
    destruct (remove_spec c Hc o1 sl2 r Ho ltac:(lia) ltac:(lia)) as (sl3 & E3 & HL3 & HW3).
    rewrite E3. cbn [bind fst snd]. eexists. split; [reflexivity|].
    unfold Rep. cbn [cap prefetch is_video origin slots fst].
    repeat split; try reflexivity; try exact HL3; try apply uint16_add_range. symmetry. exact HW3.
  - eexists. split; [reflexivity|]. unfold Rep. cbn [cap prefetch is_video origin slots fst].
    repeat split; try reflexivity; try lia.
Qed.

(* the distance to the packet after the origin advanced by b <= delta *)
Ltac Zify.zify_post_hook ::= Z.to_euclidean_division_equations.
Lemma uint16_delta_after s o b delta :
  delta = uint16_add s (- o) -> 0 <= b <= delta ->
  uint16_add s (- uint16_add o b) = delta - b.
Proof. rewrite !uint16_add_mod. intros -> Hb. lia. Qed.
Ltac Zify.zify_post_hook ::= idtac.


Lemma place_refines s a p o delta sl (pli : bool) :
  cap_ok (cap s) -> cap a = cap s -> prefetch a = prefetch s -> is_video a = is_video s ->
  seq16 p -> 0 <= o < 65536 -> length sl = Z.to_nat (cap s) ->
  delta = uint16_add (pseq p) (- o) ->
  exists s', add_place s p o delta sl pli = Ok (s', snd (a_place a p o delta (window (cap s) o sl) pli)) /\
             Rep s' (fst (a_place a p o delta (window (cap s) o sl) pli)).
Proof.
  intros Hc Ec Ep Ev Hp Ho HL Hd. pose proof (cap_ok_pos _ Hc) as Hpos.
  unfold add_place, a_place. rewrite Ec. set (c := cap s) in *.
  pose proof (uint16_add_range (pseq p) (- o)) as Hdr. rewrite <- Hd in Hdr.
  destruct (Z.geb_spec delta c) as [Hge|Hlt].
  - unfold smart_remove.
    pose proof (smart_loop_spec c Hc (Z.to_nat c) 0 (delta - c + 1) None o sl
                  ltac:(lia) ltac:(lia) ltac:(lia) Ho HL) as HS.
    rewrite firstn_all2 in HS by (rewrite window_length; lia).
    destruct (w_smart (window c o sl) 0 (delta - c + 1) None) as [b|] eqn:EB.
    + destruct HS as (sl' & E & HL' & Hb & HW). rewrite E. cbn [bind].
      pose proof (w_smart_ge _ _ _ _ _ EB) as Hbge.
      assert (Hd2 : uint16_add (pseq p) (- uint16_add o (Z.of_nat b)) = delta - Z.of_nat b).
      { apply uint16_delta_after; lia. }
      destruct (place_tail s a p (uint16_add o (Z.of_nat b)) sl' (pli || is_video s) Hc Ec Ep Ev Hp
                  (uint16_add_range _ _) HL' ltac:(fold c; lia)) as (s' & E1 & R1).
      fold c in E1, R1. rewrite HW in E1, R1. rewrite Ev. exists s'. split; assumption.
    + destruct HS as (o' & sl' & E & HL' & HW). rewrite E. cbn [bind].
      rewrite w_remove_all in HW by (rewrite window_length; reflexivity).
      apply (window_all_none c _ (pseq p) sl' Hpos) in HW.
      destruct (place_tail s a p (pseq p) sl' (pli || is_video s) Hc Ec Ep Ev Hp Hp HL') as (s' & E1 & R1).
      { rewrite uint16_add_mod. replace (pseq p + - pseq p) with 0 by lia. rewrite Z.mod_0_l; lia. }
      fold c in E1, R1. rewrite HW in E1, R1. rewrite window_length, Ev. exists s'. split; assumption.
  - cbn [bind].
    destruct (place_tail s a p o sl pli Hc Ec Ep Ev Hp Ho HL ltac:(fold c; lia)) as (s' & E1 & R1).
    exists s'. split; assumption.
Qed.

Theorem add_refines s a p :
  cap_ok (cap s) -> Rep s a -> seq16 p ->
  exists s', add s p = Ok (s', snd (a_add a p)) /\ Rep s' (fst (a_add a p)).
Proof.
  intros Hc (Ec & Ep & Ev & Eo & HL & HO) Hp. pose proof (cap_ok_pos _ Hc) as Hpos.
  unfold add, a_add. rewrite Eo. destruct (origin s) as [o|] eqn:EO.
  - destruct HO as [Ho HW]. rewrite HW.
    destruct (uint16_add o (- pseq p) <? uint16_add (pseq p) (- o)).
    + destruct (uint16_add o (- pseq p) >=? MAX_MISORDER).
      * destruct (remove_spec _ Hc o (slots s) (cap s) Ho HL ltac:(lia)) as (sl' & E & HL' & HW').
        rewrite E. cbn [bind snd]. rewrite w_remove_all in HW' by (rewrite window_length; reflexivity).
        apply (window_all_none _ _ (pseq p) sl' Hpos) in HW'.
        destruct (place_refines s a p (pseq p) 0 sl' (is_video s) Hc Ec Ep Ev Hp Hp HL') as (s' & E1 & R1).
        { rewrite uint16_add_mod. replace (pseq p + - pseq p) with 0 by lia. rewrite Z.mod_0_l; lia. }
        rewrite HW' in E1, R1. rewrite window_length, Ev. exists s'. split; assumption.
      * exists s. split; [reflexivity|]. unfold Rep. rewrite EO. cbn [fst]. auto 10.
    + apply place_refines; auto.
  - destruct HO as [HS HA]. rewrite HA.
    destruct (place_refines s a p (pseq p) 0 (slots s) false Hc Ec Ep Ev Hp Hp HL) as (s' & E1 & R1).
    { rewrite uint16_add_mod. replace (pseq p + - pseq p) with 0 by lia. rewrite Z.mod_0_l; lia. }
    assert (EW : window (cap s) (pseq p) (slots s) = repeat None (Z.to_nat (cap s))).
    { rewrite HS at 1. apply window_repeat. }
    rewrite EW in E1, R1.
    exists s'. split; assumption.
Qed.

Lemma a_tail_cap a p o w pli : cap (fst (a_tail a p o w pli)) = cap a /\
  prefetch (fst (a_tail a p o w pli)) = prefetch a /\ is_video (fst (a_tail a p o w pli)) = is_video a.
Proof. unfold a_tail. destruct (w_frame _ _) as [[f r]|]; cbn [fst cap prefetch is_video]; auto. Qed.

Lemma a_add_cap a p : cap (fst (a_add a p)) = cap a /\
  prefetch (fst (a_add a p)) = prefetch a /\ is_video (fst (a_add a p)) = is_video a.
Proof.
  unfold a_add, a_place.
  repeat match goal with
         | |- context [match ?x with _ => _ end] => destruct x
         | |- context [if ?x then _ else _] => destruct x
         end; try apply a_tail_cap; cbn [fst]; auto.
Qed.

Lemma create_rep c pf v : cap_ok c ->
  create c pf v = Ok (mkJb c pf v None (repeat None (Z.to_nat c))) /\
  Rep (mkJb c pf v None (repeat None (Z.to_nat c))) (a_init c pf v).
Proof.
  intros Hc. unfold create. rewrite (cap_ok_land c Hc). cbn [Z.eqb]. split; [reflexivity|].
  unfold Rep, a_init. cbn [cap prefetch is_video origin slots]. rewrite repeat_length. auto 10.
Qed.

Theorem run_refines l : forall s a,
  cap_ok (cap s) -> Rep s a -> Forall seq16 l ->
  exists s', run s l = Ok (s', snd (a_run a l)) /\ Rep s' (fst (a_run a l)).
Proof.
  induction l as [|p l IH]; intros s a Hc HR HF.
  - exists s. cbn [run a_run fst snd]. auto.
  - inversion HF as [|? ? Hp HF']; subst. cbn [run a_run].
    destruct (add_refines s a p Hc HR Hp) as (s1 & E1 & R1). rewrite E1. cbn [bind fst snd].
    assert (Hc1 : cap_ok (cap s1)).
    { destruct R1 as (Ec1 & _). rewrite <- Ec1. rewrite (proj1 (a_add_cap a p)).
      destruct HR as (Ec & _). rewrite Ec. exact Hc. }
    destruct (IH s1 (fst (a_add a p)) Hc1 R1 HF') as (s' & E' & R').
    rewrite E'. cbn [bind fst snd]. exists s'. auto.
Qed.
