(* Proofs about Model/Aimd.v (property C15): the AIMD controller never raises
   and keeps its estimates within the clamp / 85 % bounds. *)
From Coq Require Import ZArith List Bool Lia.
From AV Require Import Lib.Sx Model.RateCounter Model.Aimd Proof.RateCounterP.
Import ListNotations.
Local Open Scope Z_scope.

(* ---------------------------------------------------------------- the blocks of update() *)
Lemma init_step_keeps s et now :
  last_change (init_step s et now) = last_change s /\ near_max (init_step s et now) = near_max s /\
  latest (init_step s et now) = latest s /\ rtt (init_step s et now) = rtt s /\
  st (init_step s et now) = st s.
Proof.
  unfold init_step. destruct (cb_init s), et as [e|], (first_time s) as [ft|]; cbn [negb];
    try destruct (3000 <? now - ft); cbn; auto.
Qed.

(* the bitrate is untouched, or this is the initialisation from a measured throughput *)
Lemma init_step_cb s et now :
  cb (init_step s et now) = cb s \/
  (exists e, et = Some e /\ cb (init_step s et now) = e /\ cb_init (init_step s et now) = true).
Proof.
  unfold init_step. destruct (cb_init s), et as [e|], (first_time s) as [ft|]; cbn [negb];
    try destruct (3000 <? now - ft); cbn; eauto.
Qed.

Lemma state_step_keeps s u now :
  cb (state_step s u now) = cb s /\ cb_init (state_step s u now) = cb_init s /\
  near_max (state_step s u now) = near_max s /\ latest (state_step s u now) = latest s /\
  rtt (state_step s u now) = rtt s.
Proof.
  unfold state_step. destruct (is_normal u && is_hold (st s)), (is_over u), (is_under u); cbn; auto.
Qed.

Lemma state_step_change s u now :
  (is_normal u && is_hold (st s) = true /\
   last_change (state_step s u now) = Some now /\ st (state_step s u now) = Increase) \/
  (is_normal u && is_hold (st s) = false /\ last_change (state_step s u now) = last_change s /\
   (u = Overusing -> st (state_step s u now) = Decrease) /\
   (u <> Overusing -> st (state_step s u now) <> Decrease \/ st s = Decrease)).
Proof.
  unfold state_step. destruct s as [c ini ft lc nm lat rt st0]. destruct u, st0; cbn;
    first [ left; split; [reflexivity|split; reflexivity]
          | right; split; [reflexivity|]; split; [reflexivity|]; split;
            [ intros H; first [reflexivity|discriminate]
            | intros H; first [ exfalso; apply H; reflexivity | left; discriminate | right; reflexivity ] ] ].
Qed.

Lemma helper_step_keeps s et :
  cb (helper_step s et) = cb s /\ cb_init (helper_step s et) = cb_init s /\
  last_change (helper_step s et) = last_change s /\ near_max (helper_step s et) = near_max s /\
  rtt (helper_step s et) = rtt s /\ st (helper_step s et) = st s /\
  latest (helper_step s et) = throughput_of s et.
Proof. unfold helper_step, throughput_of. destruct et; cbn; auto 10. Qed.

(* ---------------------------------------------------------------- never raises *)
(* needs no assumption on clocks, throughputs or float inputs *)
Definition AInv0 (s : aimd) : Prop :=
  rtt s = 200 /\ (near_max s = true -> last_change s <> None).

Lemma AInv0_init : AInv0 aimd_init.
Proof. split; [reflexivity|discriminate]. Qed.

Lemma packets_per_frame_pos c : 1 <= packets_per_frame c.
Proof. unfold packets_per_frame. lia. Qed.

Lemma no_zero_division s : rtt s = 200 -> near_max_rate_increase_raises s = false.
Proof.
  intros H. unfold near_max_rate_increase_raises. rewrite H.
  pose proof (packets_per_frame_pos (cb s)).
  destruct (Z.eqb_spec (packets_per_frame (cb s)) 0); [lia|reflexivity].
Qed.

Lemma bitrate_step_never_raises s now f :
  AInv0 s -> exists s' e, bitrate_step s now f = Ok (s', Some e) /\ AInv0 s'.
Proof.
  intros [Hr Hnm]. unfold bitrate_step, finish. destruct (st s).
  - eexists; eexists; split; [reflexivity|]. split; cbn; auto.
  - destruct (near_max s) eqn:Enm, (f_clear f); cbn [andb negb].
    + eexists; eexists; split; [reflexivity|]. split; cbn; [auto|discriminate].
    + destruct (last_change s) as [l|] eqn:El; [|exfalso; now apply Hnm].
      rewrite (no_zero_division s Hr).
      eexists; eexists; split; [reflexivity|]. split; cbn; [auto|discriminate].
    + eexists; eexists; split; [reflexivity|]. split; cbn; [auto|discriminate].
    + eexists; eexists; split; [reflexivity|]. split; cbn; [auto|discriminate].
  - eexists; eexists; split; [reflexivity|]. split; cbn; [auto|discriminate].
Qed.

Lemma AInv0_steps s u et now : AInv0 s -> AInv0 (helper_step (state_step (init_step s et now) u now) et).
Proof.
  intros [Hr Hnm].
  destruct (init_step_keeps s et now) as (L1 & N1 & _ & R1 & _).
  destruct (state_step_keeps (init_step s et now) u now) as (_ & _ & N2 & _ & R2).
  destruct (helper_step_keeps (state_step (init_step s et now) u now) et) as (_ & _ & L3 & N3 & R3 & _).
  split; [congruence|]. rewrite N3, N2, N1, L3. intros H.
  destruct (state_step_change (init_step s et now) u now) as [(_ & E & _)|(_ & E & _)]; rewrite E; [discriminate|].
  rewrite L1. now apply Hnm.
Qed.

Lemma update_never_raises s u et now f :
  AInv0 s -> exists s' r, update s u et now f = Ok (s', r) /\ AInv0 s'.
Proof.
  intros HI. unfold update.
  destruct (negb (cb_init (init_step s et now)) && negb (is_over u)).
  - eexists; eexists; split; [reflexivity|].
    destruct HI as [Hr Hnm]. destruct (init_step_keeps s et now) as (L1 & N1 & _ & R1 & _).
    split; [congruence|]. now rewrite N1, L1.
  - destruct (bitrate_step_never_raises _ now f (AInv0_steps s u et now HI)) as (s' & e & E & HI').
    eauto.
Qed.

Theorem aimd_never_raises : forall cs, exists s outs, run aimd_init cs = (s, outs, 0).
Proof.
  intros cs. assert (H : forall s, AInv0 s -> exists s' outs, run s cs = (s', outs, 0)).
  { induction cs as [|c cs IH]; intros s HI; cbn [run]; [eauto|].
    destruct (update_never_raises s (c_usage c) (c_et c) (c_now c) (c_fl c) HI) as (s1 & r & E & HI1).
    rewrite E. destruct (IH s1 HI1) as (s2 & outs & E2). rewrite E2. eauto. }
  exact (H aimd_init AInv0_init).
Qed.

(* ---------------------------------------------------------------- bounds *)
(* admissible float-rounded inputs of one update call, relative to the
   throughput T that the call uses:  c15 = int(1.5 * T), d85 = round(0.85 * T),
   and the two increments are not negative (the implementation computes
   mi = int(max(.., 1000)) and ai = int(dt * max(4000, ..) / 1000) with dt >= 0;
   the check run asserts the sharper mi >= 1000 and 4 dt <= ai <= 32 dt
   whenever the increments are used) *)
Definition fl_in_range (f : fl) (T : Z) : Prop :=
  -2 <= f_c15 f * 2 - T * 3 <= 2 /\
  -51 <= f_d85 f * 100 - T * 85 <= 51 /\
  0 <= f_mi f /\
  0 <= f_ai f.

Definition AInv (s : aimd) (last : Z) : Prop :=
  0 <= cb s /\ 0 <= latest s /\ AInv0 s /\ st s <> Decrease /\
  (forall l, last_change s = Some l -> l <= last).

Lemma AInv_init t : AInv aimd_init t.
Proof. unfold AInv. cbn. repeat split; try lia; try discriminate. Qed.

Lemma AInv_mono s a b : AInv s a -> a <= b -> AInv s b.
Proof.
  intros (H1 & H2 & H3 & H4 & H5) Hab. repeat split; try assumption; try apply H3.
  intros l Hl. apply H5 in Hl. lia.
Qed.

Definition estimate_spec (s : aimd) (u : usage) (f : fl) (e : Z) : Prop :=
  0 <= e /\ (cb s < e -> e <= f_c15 f + 10000) /\ (u = Overusing -> e <= f_d85 f).

Lemma update_spec s last u et now f :
  AInv s last -> last <= now -> (forall e, et = Some e -> 0 <= e) ->
  exists s' r, update s u et now f = Ok (s', r) /\
    match r with
    | None => cb s' = cb s /\ u <> Overusing /\ AInv s' now
    | Some e => cb s' = e /\ latest s' = throughput_of s et /\
                (fl_in_range f (throughput_of s et) -> AInv s' now /\ estimate_spec s u f e)
    end.
Proof.
  intros (Hcb & Hlat & HI0 & Hst & Hlc) Hle Het. unfold update.
  destruct (init_step_keeps s et now) as (L1 & N1 & T1 & R1 & S1).
  destruct (negb (cb_init (init_step s et now)) && negb (is_over u)) eqn:Ewait.
  - eexists; eexists; split; [reflexivity|].
    apply andb_true_iff in Ewait. destruct Ewait as [Ei Eo].
    destruct (init_step_cb s et now) as [C1|(e & _ & _ & C1)]; [|rewrite C1 in Ei; discriminate].
    split; [exact C1|]. split; [intros ->; discriminate|].
    unfold AInv, AInv0. rewrite C1, T1, R1, N1, L1, S1. destruct HI0.
    repeat split; try assumption. intros l Hl. apply Hlc in Hl. lia.
  - set (s1 := init_step s et now) in *.
    destruct (state_step_keeps s1 u now) as (C2 & I2 & N2 & T2 & R2).
    set (s2 := state_step s1 u now) in *.
    destruct (helper_step_keeps s2 et) as (C3 & I3 & L3 & N3 & R3 & S3 & T3).
    set (s3 := helper_step s2 et) in *.
    assert (HT : latest s3 = throughput_of s et).
    { rewrite T3. unfold throughput_of. now rewrite T2, T1. }
    assert (HTn : 0 <= throughput_of s et).
    { unfold throughput_of. destruct et as [e|]; [now apply Het|exact Hlat]. }
    assert (Hcb1 : 0 <= cb s1 /\ (cb s1 = cb s \/ cb s1 = throughput_of s et)).
    { destruct (init_step_cb s et now) as [C1|(e & -> & C1 & _)]; fold s1 in C1.
      - rewrite C1. auto.
      - cbn [throughput_of]. rewrite C1. split; [now apply Het|now right]. }
    destruct Hcb1 as [Hcb1 Hcb1'].
    assert (H03 : AInv0 s3) by (apply AInv0_steps; exact HI0).
    assert (Hr3 : rtt s3 = 200) by apply H03.
    unfold bitrate_step, finish.
    (* facts about the state reached after the "update state" block *)
    destruct (state_step_change s1 u now) as [(Hu & E2 & St2)|(Hu & E2 & St2o & St2n)]; rewrite S1 in Hu;
      repeat match goal with H : context [state_step s1 u now] |- _ => progress fold s2 in H end.
    + (* HOLD -> INCREASE in this call *)
      rewrite S3, St2, N3, N2, L3, E2.
      destruct (near_max s1 && negb (f_clear f)) eqn:Enm.
      * rewrite (no_zero_division s3 Hr3). eexists; eexists; split; [reflexivity|].
        cbn [cb latest]. split; [reflexivity|]. split; [exact HT|].
        intros (Fc & Fd & Fm & Fa).
        split.
        -- unfold AInv, AInv0; cbn [cb latest rtt near_max last_change st]. rewrite ?HT, ?S3, ?St2, ?Es2, ?Es, ?C3, ?C2, ?Hr3.
           repeat split; try lia; try discriminate. intros l [= <-]. lia.
        -- unfold estimate_spec. rewrite ?C3, ?C2. repeat split; try lia.
           intros ->. discriminate.
      * eexists; eexists; split; [reflexivity|].
        cbn [cb latest]. split; [reflexivity|]. split; [exact HT|].
        intros (Fc & Fd & Fm & Fa).
        split.
        -- unfold AInv, AInv0; cbn [cb latest rtt near_max last_change st]. rewrite ?HT, ?S3, ?St2, ?Es2, ?Es, ?C3, ?C2, ?Hr3.
           repeat split; try lia; try discriminate. intros l [= <-]. lia.
        -- unfold estimate_spec. rewrite ?C3, ?C2. repeat split; try lia.
           intros ->. discriminate.
    + rewrite S3, N3, N2, L3, E2.
      destruct u.
      * (* NORMAL, state unchanged *)
        assert (Es2 : st s2 = st s).
        { unfold s2, state_step. cbn [is_normal is_over is_under] in Hu |- *. rewrite S1, Hu. exact S1. }
        rewrite Es2. destruct (st s) eqn:Es; [cbn in Hu; discriminate| |now exfalso].
        destruct (near_max s1 && negb (f_clear f)) eqn:Enm.
        -- destruct (last_change s1) as [l|] eqn:El.
           2:{ exfalso. apply andb_true_iff in Enm. destruct Enm as [Enm _]. rewrite N1 in Enm.
               destruct HI0 as [_ Hx]. apply (Hx Enm). now rewrite <- L1. }
           rewrite (no_zero_division s3 Hr3). eexists; eexists; split; [reflexivity|].
           cbn [cb latest]. split; [reflexivity|]. split; [exact HT|].
           intros (Fc & Fd & Fm & Fa).
           assert (l <= last) by (apply Hlc; now rewrite <- L1).
           split.
           ++ unfold AInv, AInv0; cbn [cb latest rtt near_max last_change st]. rewrite ?HT, ?S3, ?St2, ?Es2, ?Es, ?C3, ?C2, ?Hr3.
              repeat split; try lia; try discriminate. intros l' [= <-]. lia.
           ++ unfold estimate_spec. rewrite ?C3, ?C2. repeat split; try lia. intros [=].
        -- eexists; eexists; split; [reflexivity|].
           cbn [cb latest]. split; [reflexivity|]. split; [exact HT|].
           intros (Fc & Fd & Fm & Fa).
           split.
           ++ unfold AInv, AInv0; cbn [cb latest rtt near_max last_change st]. rewrite ?HT, ?S3, ?St2, ?Es2, ?Es, ?C3, ?C2, ?Hr3.
              repeat split; try lia; try discriminate. intros l' [= <-]. lia.
           ++ unfold estimate_spec. rewrite ?C3, ?C2. repeat split; try lia. intros [=].
      * (* UNDERUSING: HOLD *)
        assert (Es2 : st s2 = Hold).
        { unfold s2, state_step. cbn [is_normal is_over is_under andb]. reflexivity. }
        rewrite Es2. eexists; eexists; split; [reflexivity|].
        cbn [cb latest]. split; [reflexivity|]. split; [exact HT|].
        intros (Fc & Fd & Fm & Fa).
        split.
        -- unfold AInv, AInv0; cbn [cb latest rtt near_max last_change st]. rewrite ?HT, ?S3, ?St2, ?Es2, ?Es, ?C3, ?C2, ?Hr3.
           destruct H03 as [_ Hx]. rewrite N3, N2, L3, E2 in Hx.
           repeat split; try lia; try discriminate; try assumption.
           intros l Hl. rewrite L1 in Hl. apply Hlc in Hl. lia.
        -- unfold estimate_spec. rewrite ?C3, ?C2. repeat split; try lia. intros [=].
      * (* OVERUSING: DECREASE *)
        rewrite (St2o eq_refl). eexists; eexists; split; [reflexivity|].
        cbn [cb latest]. split; [reflexivity|]. split; [exact HT|].
        intros (Fc & Fd & Fm & Fa).
        split.
        -- unfold AInv, AInv0; cbn [cb latest rtt near_max last_change st]. rewrite ?HT, ?S3, ?St2, ?Es2, ?Es, ?C3, ?C2, ?Hr3.
           repeat split; try lia; try discriminate. intros l' [= <-]. lia.
        -- unfold estimate_spec. rewrite ?C3, ?C2. repeat split; try lia.
Qed.
