(* C17: the RTP sender's retransmission history does not depend on the origin of the RTP
   sequence numbers.  Shifting the sender's sequence counter and every NACKed sequence number
   by any delta d (mod 2^16) - e.g. so that the stream crosses 65535 -> 0 - yields the same
   packets with their sequence numbers shifted, the same retransmissions (verbatim, or as RTX
   carrying the shifted original sequence number), and a history that is the unshifted one with
   its slots rotated by d (the dictionary is keyed by sequence_number % 128). *)
From Coq Require Import ZArith List Bool Lia ZifyBool.
From AV Require Import Lib.Bytes Lib.RtpX Gen.Utils Gen.RtpConst Model.RtpSend Proof.SerialP Proof.SctpSsnShiftP.
From AV Require Model.Rtp.
Import ListNotations.
Local Open Scope Z_scope.

Ltac Zify.zify_post_hook ::= Z.to_euclidean_division_equations.

Definition rmap {A B} (f : A -> B) (r : result A) : result B :=
  match r with Ok v => Ok (f v) | ValueErr => ValueErr | Crash => Crash | OutOfFuel => OutOfFuel end.

Section HistShift.
Variable d : Z.
Notation sh := (sh16 d).

Definition rot (k : Z) : Z := (k + d) mod 128.
Definition shp (p : Rtp.rtp) : Rtp.rtp :=
  Rtp.mkRtp (Rtp.marker p) (Rtp.payload_type p) (sh (Rtp.sequence_number p)) (Rtp.timestamp p) (Rtp.ssrc p)
            (Rtp.csrc p) (Rtp.extensions p) (Rtp.payload p) (Rtp.padding_size p).
(* an RTX packet: the original sequence number is the first two payload bytes *)
Definition shrtx (r : Rtp.rtp) : Rtp.rtp :=
  Rtp.mkRtp (Rtp.marker r) (Rtp.payload_type r) (Rtp.sequence_number r) (Rtp.timestamp r) (Rtp.ssrc r)
            (Rtp.csrc r) (Rtp.extensions r)
            (match Rtp.payload r with a :: b :: rest => be16 (sh (a * 256 + b)) ++ rest | p => p end)
            (Rtp.padding_size r).
Definition shh (h : hist) : hist := map (fun kv => (rot (fst kv), shp (snd kv))) h.
Definition shs (s : sender) : sender :=
  mkSender (s_pt s) (s_ssrc s) (s_rtx_ssrc s) (s_rtx_pt s) (s_mid s) (sh (s_seq s)) (s_ts_origin s) (s_rtx_seq s)
           (shh (s_hist s)).
Definition is_rtx (s : sender) : bool := match s_rtx_pt s with Some _ => true | None => false end.
Definition shres (rtx : bool) (p : Rtp.rtp) : Rtp.rtp := if rtx then shrtx p else shp p.
Definition shout (rtx : bool) (o : out) : out :=
  match o with Sent l => Sent (map shp l) | Resent l => Resent (map (shres rtx) l) end.
Definition shop (o : op) : op := match o with Frame f => Frame f | Nack lost => Nack (map sh lost) end.

Definition slot (k : Z) : Prop := 0 <= k < 128.
Definition hok (h : hist) : Prop := Forall (fun kv => slot (fst kv) /\ in16 (Rtp.sequence_number (snd kv))) h.
Definition sok (s : sender) : Prop := in16 (s_seq s) /\ hok (s_hist s).
Definition opok (o : op) : Prop := match o with Frame _ => True | Nack lost => Forall in16 lost end.

Lemma rot_eqb k k' : slot k -> slot k' -> (rot k =? rot k') = (k =? k').
Proof. unfold slot, rot. intros. apply eq_true_iff_eq. rewrite !Z.eqb_eq. lia. Qed.
Lemma rot_slot k : slot (rot k). Proof. unfold slot, rot. lia. Qed.
Lemma sh_slot x : in16 x -> sh x mod rtp_RTP_HISTORY_SIZE = rot (x mod rtp_RTP_HISTORY_SIZE) /\ slot (x mod rtp_RTP_HISTORY_SIZE).
Proof. unfold in16, sh16, rot, slot, rtp_RTP_HISTORY_SIZE. lia. Qed.

Lemma hget_sh : forall h k, hok h -> slot k -> hget (shh h) (rot k) = option_map shp (hget h k).
Proof.
  induction h as [|[k' v] h IH]; intros k Hh Hk; [reflexivity|]. inversion Hh as [|? ? [Hk' _] Hh']; subst.
  cbn [shh map hget fst snd]. fold (shh h). rewrite rot_eqb by assumption. destruct (k =? k'); [reflexivity|now apply IH].
Qed.

Lemma hget_ok : forall h k v, hok h -> hget h k = Some v -> in16 (Rtp.sequence_number v).
Proof.
  induction h as [|[k' w] h IH]; intros k v Hh H; [discriminate|]. inversion Hh as [|? ? [_ Hw] Hh']; subst.
  cbn [hget] in H. destruct (k =? k'); [injection H as <-; exact Hw|eapply IH; eauto].
Qed.

Lemma hremove_sh : forall h k, hok h -> slot k -> hremove (shh h) (rot k) = shh (hremove h k) /\ hok (hremove h k).
Proof.
  induction h as [|[k' v] h IH]; intros k Hh Hk; [split; [reflexivity|constructor]|].
  inversion Hh as [|? ? Hkv Hh']; subst. destruct (IH k Hh' Hk) as [E O].
  cbn [shh map hremove fst snd]. fold (shh h). rewrite rot_eqb by (try assumption; exact (proj1 Hkv)).
  destruct (k =? k'); [split; assumption|]. rewrite E. split; [reflexivity|constructor; assumption].
Qed.

Lemma hset_sh h k v : hok h -> slot k -> in16 (Rtp.sequence_number v) ->
  hset (shh h) (rot k) (shp v) = shh (hset h k v) /\ hok (hset h k v).
Proof.
  intros Hh Hk Hv. destruct (hremove_sh h k Hh Hk) as [E O]. unfold hset. rewrite E.
  split; [reflexivity|constructor; [split; assumption|exact O]].
Qed.

Lemma mk_packet_sh s ts a n i pl ntp : mk_packet (shs s) ts a n i pl ntp = shp (mk_packet s ts a n i pl ntp).
Proof. reflexivity. Qed.

Lemma set_seq_hist_sh s q h : set_seq_hist (shs s) (sh q) (shh h) = shs (set_seq_hist s q h).
Proof. reflexivity. Qed.

Lemma send_payloads_sh : forall pl s ts a n i, sok s ->
  send_payloads (shs s) ts a n i pl = (shs (fst (send_payloads s ts a n i pl)), map shp (snd (send_payloads s ts a n i pl))) /\
  sok (fst (send_payloads s ts a n i pl)) /\ s_rtx_pt (fst (send_payloads s ts a n i pl)) = s_rtx_pt s.
Proof.
  induction pl as [|[payload ntp] pl IH]; intros s ts a n i [Hs Hh]; [split; [reflexivity|split; [split; assumption|reflexivity]]|].
  cbn [send_payloads].
  set (packet := mk_packet s ts a n i payload ntp).
  assert (Hp : Rtp.sequence_number packet = s_seq s) by reflexivity.
  destruct (sh_slot (s_seq s) Hs) as [E1 E2].
  destruct (hset_sh (s_hist s) (s_seq s mod rtp_RTP_HISTORY_SIZE) packet Hh E2 ltac:(rewrite Hp; exact Hs)) as [E3 O3].
  assert (E0 : mk_packet (shs s) ts a n i payload ntp = shp packet) by reflexivity. rewrite E0.
  assert (Ek : Rtp.sequence_number (shp packet) mod rtp_RTP_HISTORY_SIZE = rot (s_seq s mod rtp_RTP_HISTORY_SIZE)) by exact E1.
  rewrite Ek.
  assert (Eh : s_hist (shs s) = shh (s_hist s)) by reflexivity. rewrite Eh, E3.
  assert (Eq : uint16_add (s_seq (shs s)) 1 = sh (uint16_add (s_seq s) 1)) by (cbn [shs s_seq]; apply sh16_add).
  rewrite Eq, set_seq_hist_sh. rewrite Hp.
  set (s1 := set_seq_hist s (uint16_add (s_seq s) 1) (hset (s_hist s) (s_seq s mod rtp_RTP_HISTORY_SIZE) packet)).
  assert (O1 : sok s1).
  { split; [cbn [s1 set_seq_hist s_seq]; rewrite uint16_add_mod; unfold in16; lia|exact O3]. }
  destruct (IH s1 ts a n (S i) O1) as (E & O & R). rewrite E.
  rewrite (surjective_pairing (send_payloads s1 ts a n (S i) pl)). cbn [fst snd map].
  split; [reflexivity|]. split; [exact O|exact R].
Qed.

Lemma lookup_sh s x : sok s -> in16 x -> lookup (shs s) (sh x) = option_map shp (lookup s x).
Proof.
  intros [_ Hh] Hx. unfold lookup. cbn [shs s_hist]. destruct (sh_slot x Hx) as [E1 E2]. rewrite E1, hget_sh by assumption.
  destruct (hget (s_hist s) (x mod rtp_RTP_HISTORY_SIZE)) as [packet|] eqn:Eg; cbn [option_map]; [|reflexivity].
  change (Rtp.sequence_number (shp packet)) with (sh (Rtp.sequence_number packet)).
  rewrite sh16_eqb by (try assumption; eapply hget_ok; eauto).
  destruct (Rtp.sequence_number packet =? x); reflexivity.
Qed.

Lemma lookup_ok s x p : sok s -> lookup s x = Some p -> in16 (Rtp.sequence_number p).
Proof.
  intros [_ Hh]. unfold lookup. destruct (hget (s_hist s) (x mod rtp_RTP_HISTORY_SIZE)) as [packet|] eqn:Eg; [|discriminate].
  destruct (Rtp.sequence_number packet =? x); [|discriminate]. intros H. injection H as <-. eapply hget_ok; eauto.
Qed.

Lemma wrap_rtx_sh p pt q ss : in16 (Rtp.sequence_number p) ->
  Rtp.wrap_rtx (shp p) pt q ss = rmap shrtx (Rtp.wrap_rtx p pt q ss).
Proof.
  intros Hp. unfold Rtp.wrap_rtx. change (Rtp.sequence_number (shp p)) with (sh (Rtp.sequence_number p)).
  assert (U1 : u16ok (Rtp.sequence_number p) = true) by (unfold u16ok, inrange, in16 in *; lia).
  assert (U2 : u16ok (sh (Rtp.sequence_number p)) = true) by (pose proof (sh16_in16 d (Rtp.sequence_number p)); unfold u16ok, inrange, in16 in *; lia).
  rewrite U1, U2. cbn [rmap]. f_equal. unfold shrtx. cbn [Rtp.marker Rtp.payload_type Rtp.sequence_number Rtp.timestamp Rtp.ssrc Rtp.csrc Rtp.extensions Rtp.payload Rtp.padding_size shp].
  unfold be16 at 2. cbn [app].
  assert (Eq : (Rtp.sequence_number p / 256) mod 256 * 256 + Rtp.sequence_number p mod 256 = Rtp.sequence_number p)
    by (unfold in16 in Hp; lia).
  rewrite Eq. reflexivity.
Qed.

Definition shret (rtx : bool) (r : sender * list Rtp.rtp) : sender * list Rtp.rtp := (shs (fst r), map (shres rtx) (snd r)).

Lemma retransmit_sh s x : sok s -> in16 x ->
  retransmit (shs s) (sh x) = rmap (shret (is_rtx s)) (retransmit s x) /\
  (forall r, retransmit s x = Ok r -> sok (fst r) /\ s_rtx_pt (fst r) = s_rtx_pt s).
Proof.
  intros Hs Hx. unfold retransmit. rewrite lookup_sh by assumption.
  destruct (lookup s x) as [packet|] eqn:El; cbn [option_map].
  - pose proof (lookup_ok s x packet Hs El) as Hp. unfold is_rtx. cbn [shs s_rtx_pt s_rtx_seq s_rtx_ssrc].
    destruct (s_rtx_pt s) as [pt|] eqn:Ept.
    + rewrite wrap_rtx_sh by exact Hp. destruct (Rtp.wrap_rtx packet pt (s_rtx_seq s) (s_rtx_ssrc s)) as [r| | |]; cbn [rmap bind]; try (split; [reflexivity|discriminate]).
      split; [reflexivity|]. intros r0 H. injection H as <-. cbn [fst set_rtx_seq s_seq s_hist s_rtx_pt]. split; [exact Hs|exact Ept].
    + cbn [rmap]. split; [reflexivity|]. intros r0 H. injection H as <-. split; [exact Hs|exact Ept].
  - cbn [rmap]. split; [reflexivity|]. intros r0 H. injection H as <-. split; [exact Hs|reflexivity].
Qed.

Lemma handle_nack_sh : forall lost s, sok s -> Forall in16 lost ->
  handle_nack (shs s) (map sh lost) = rmap (shret (is_rtx s)) (handle_nack s lost) /\
  (forall r, handle_nack s lost = Ok r -> sok (fst r) /\ s_rtx_pt (fst r) = s_rtx_pt s).
Proof.
  induction lost as [|x lost IH]; intros s Hs Hl.
  - cbn [map handle_nack rmap]. split; [reflexivity|]. intros r H. injection H as <-. split; [exact Hs|reflexivity].
  - inversion Hl as [|? ? Hx Hl']; subst. cbn [map handle_nack].
    destruct (retransmit_sh s x Hs Hx) as [E1 O1]. rewrite E1.
    destruct (retransmit s x) as [r1| | |]; cbn [rmap bind]; try (split; [reflexivity|discriminate]).
    destruct (O1 r1 eq_refl) as [Hs1 R1]. cbn [shret fst snd].
    destruct (IH (fst r1) Hs1 Hl') as [E2 O2]. rewrite E2.
    assert (Ex : is_rtx (fst r1) = is_rtx s) by (unfold is_rtx; now rewrite R1). rewrite Ex.
    destruct (handle_nack (fst r1) lost) as [r2| | |]; cbn [rmap bind]; try (split; [reflexivity|discriminate]).
    split; [unfold shret; cbn [fst snd]; now rewrite map_app|].
    intros r H. injection H as <-. cbn [fst]. destruct (O2 r2 eq_refl) as [A B]. split; [exact A|congruence].
Qed.

Definition shstep (rtx : bool) (r : sender * out) : sender * out := (shs (fst r), shout rtx (snd r)).

Lemma step_sh s o : sok s -> opok o ->
  step (shs s) (shop o) = rmap (shstep (is_rtx s)) (step s o) /\
  (forall r, step s o = Ok r -> sok (fst r) /\ s_rtx_pt (fst r) = s_rtx_pt s).
Proof.
  intros Hs Ho. destruct o as [f|lost]; cbn [step shop opok] in *.
  - unfold send_frame. cbn [shs s_ts_origin].
    destruct (send_payloads_sh (ef_payloads f) s (uint32_add (s_ts_origin s) (ef_ts f)) (ef_audio f) (length (ef_payloads f)) 0%nat Hs) as (E & O & R).
    fold (shs s). rewrite E. rewrite (surjective_pairing (send_payloads s _ _ _ _ _)). cbn [rmap]. split; [reflexivity|].
    intros r H. injection H as <-. cbn [fst]. split; assumption.
  - destruct (handle_nack_sh lost s Hs Ho) as [E O]. rewrite E.
    destruct (handle_nack s lost) as [r| | |]; cbn [rmap bind]; try (split; [reflexivity|discriminate]).
    split; [reflexivity|]. intros r0 H. injection H as <-. cbn [fst]. exact (O r eq_refl).
Qed.

Definition shrun (rtx : bool) (r : sender * list out) : sender * list out := (shs (fst r), map (shout rtx) (snd r)).

Theorem history_shift_invariant : forall ops s, sok s -> Forall opok ops ->
  run (shs s) (map shop ops) = rmap (shrun (is_rtx s)) (run s ops).
Proof.
  induction ops as [|o ops IH]; intros s Hs Ho; [reflexivity|]. inversion Ho as [|? ? H1 H2]; subst.
  cbn [map run]. destruct (step_sh s o Hs H1) as [E O]. rewrite E.
  destruct (step s o) as [r| | |]; cbn [rmap bind]; try reflexivity.
  destruct (O r eq_refl) as [Hs1 R1]. cbn [shstep fst snd]. rewrite (IH (fst r) Hs1 H2).
  assert (Ex : is_rtx (fst r) = is_rtx s) by (unfold is_rtx; now rewrite R1). rewrite Ex.
  destruct (run (fst r) ops) as [r'| | |]; reflexivity.
Qed.
End HistShift.

(* a sender that starts with an empty history at ANY 16-bit sequence number *)
Theorem history_origin_independent d s ops : in16 (s_seq s) -> s_hist s = [] -> Forall opok ops ->
  run (shs d s) (map (shop d) ops) = rmap (shrun d (is_rtx s)) (run s ops).
Proof. intros Hs Hh Ho. apply history_shift_invariant; [split; [exact Hs|rewrite Hh; constructor]|exact Ho]. Qed.
