(* C17: the NACK generator (loss detection of the RTP receiver) does not depend on the origin
   of the RTP sequence numbers: shifting every sequence number by any delta (mod 2^16) - in
   particular so that the stream crosses 65535 -> 0 - yields the same `missed` verdicts and the
   same set of missing packets, shifted. *)
From Coq Require Import ZArith List Bool Lia ZifyBool.
From AV Require Import Lib.Bytes Gen.Utils Gen.RtpConst Model.RtpRecv Proof.SerialP Proof.SctpSsnShiftP.
Import ListNotations.
Local Open Scope Z_scope.

Ltac Zify.zify_post_hook ::= Z.to_euclidean_division_equations.

Section NackShift.
Variable e : Z.
Notation sh := (sh16 e).

Definition shg (g : nackgen) : nackgen := mkNack (option_map sh (max_seq g)) (map sh (missing g)).
Definition gok (g : nackgen) : Prop :=
  match max_seq g with Some m => in16 m | None => True end /\ Forall in16 (missing g).

Lemma sh_add_any a d : uint16_add (sh a) d = sh (uint16_add a d).
Proof. rewrite !uint16_add_mod. unfold sh16. lia. Qed.

Lemma in16_add a d : in16 (uint16_add a d).
Proof. rewrite uint16_add_mod. unfold in16. lia. Qed.

Lemma mark_loop_sh : forall fuel target seq miss missed, in16 target -> in16 seq ->
  mark_loop fuel (sh target) (sh seq) (map sh miss) missed =
  option_map (fun p => (map sh (fst p), snd p)) (mark_loop fuel target seq miss missed).
Proof.
  induction fuel as [|f IH]; intros target seq miss missed Ht Hs; cbn [mark_loop]; [reflexivity|].
  rewrite sh16_gt by assumption. destruct (uint16_gt target seq); [|reflexivity].
  rewrite sh_add_any. change (sh seq :: map sh miss) with (map sh (seq :: miss)).
  apply IH; [exact Ht|apply in16_add].
Qed.

Lemma mark_loop_ok : forall fuel target seq miss missed l b, in16 seq -> Forall in16 miss ->
  mark_loop fuel target seq miss missed = Some (l, b) -> Forall in16 l.
Proof.
  induction fuel as [|f IH]; intros target seq miss missed l b Hs Hm H; cbn [mark_loop] in H; [discriminate|].
  destruct (uint16_gt target seq).
  - eapply IH; [| |exact H]; [apply in16_add|constructor; assumption].
  - injection H as <- _. exact Hm.
Qed.

Lemma filter_sh (p q : Z -> bool) : forall l, Forall in16 l -> (forall x, in16 x -> q (sh x) = p x) ->
  filter q (map sh l) = map sh (filter p l).
Proof.
  induction l as [|x l IH]; intros Hl Hpq; [reflexivity|]. inversion Hl as [|? ? Hx Hl']; subst.
  cbn [map filter]. rewrite (Hpq x Hx). destruct (p x); cbn [map]; rewrite IH by assumption; reflexivity.
Qed.

Lemma truncate_sh g : gok g -> truncate (shg g) = shg (truncate g).
Proof.
  destruct g as [ms l]. intros [Hm Hl]. unfold truncate, shg. cbn [max_seq missing] in *. destruct ms as [m|]; cbn [option_map max_seq missing]; [|reflexivity].
  f_equal. rewrite sh_add_any. apply filter_sh; [exact Hl|].
  intros x Hx. rewrite sh16_gt; [reflexivity|apply in16_add|exact Hx].
Qed.

Lemma truncate_ok g : gok g -> gok (truncate g).
Proof.
  intros [Hm Hl]. unfold truncate, gok. destruct (max_seq g) as [m|] eqn:E; cbn [max_seq missing]; [|rewrite E; auto].
  split; [exact Hm|]. apply Forall_forall. intros x Hx. apply filter_In in Hx as [Hx _]. rewrite Forall_forall in Hl. auto.
Qed.

Lemma discard_sh x l : in16 x -> Forall in16 l -> discard (sh x) (map sh l) = map sh (discard x l).
Proof.
  intros Hx Hl. unfold discard. apply filter_sh; [exact Hl|]. intros y Hy. now rewrite sh16_eqb.
Qed.

Lemma nack_add_sh g x : gok g -> in16 x ->
  nack_add (shg g) (sh x) = option_map (fun p => (shg (fst p), snd p)) (nack_add g x) /\
  (forall g' b, nack_add g x = Some (g', b) -> gok g').
Proof.
  intros [Hm Hl] Hx. unfold nack_add. cbn [shg max_seq missing].
  destruct (max_seq g) as [m|] eqn:Em; cbn [option_map].
  - rewrite sh16_gt by assumption. destruct (uint16_gt x m).
    + rewrite sh_add_any, mark_loop_sh by (auto; apply in16_add).
      destruct (mark_loop MARK_FUEL x (uint16_add m 1) (missing g) false) as [[miss missed]|] eqn:Eml; cbn [option_map fst snd].
      * assert (G : gok (mkNack (Some x) miss)).
        { split; [exact Hx|]. eapply mark_loop_ok; [| |exact Eml]; [apply in16_add|exact Hl]. }
        split.
        -- f_equal. f_equal. exact (truncate_sh (mkNack (Some x) miss) G).
        -- intros g' b H. injection H as <- _. now apply truncate_ok.
      * split; [reflexivity|discriminate].
    + assert (G : gok (mkNack (Some m) (discard x (missing g)))).
      { split; [exact Hm|]. apply Forall_forall. intros y Hy. apply filter_In in Hy as [Hy _]. rewrite Forall_forall in Hl. auto. }
      split.
      * cbn [option_map fst snd]. f_equal. f_equal. rewrite discard_sh by assumption.
        exact (truncate_sh (mkNack (Some m) (discard x (missing g))) G).
      * intros g' b H. injection H as <- _. now apply truncate_ok.
  - split; [reflexivity|]. intros g' b H. injection H as <- _. split; [exact Hx|exact Hl].
Qed.

Theorem nack_shift_invariant : forall l g, gok g -> Forall in16 l ->
  nack_trace (shg g) (map sh l) =
  (map (fun p => (fst p, shg (snd p))) (fst (nack_trace g l)), snd (nack_trace g l)).
Proof.
  induction l as [|x l IH]; intros g Hg Hl; [reflexivity|]. inversion Hl as [|? ? Hx Hl']; subst.
  cbn [map nack_trace]. destruct (nack_add_sh g x Hg Hx) as [E Hok]. rewrite E.
  destruct (nack_add g x) as [[g' b]|]; cbn [option_map fst snd]; [|reflexivity].
  rewrite (IH g' (Hok g' b eq_refl) Hl'). destruct (nack_trace g' l) as [t err]. reflexivity.
Qed.
End NackShift.

Theorem nack_origin_independent e l : Forall in16 l ->
  nack_trace nack_init (map (sh16 e) l) =
  (map (fun p => (fst p, shg e (snd p))) (fst (nack_trace nack_init l)), snd (nack_trace nack_init l)).
Proof. intros Hl. apply (nack_shift_invariant e l nack_init); [split; [exact I|constructor]|exact Hl]. Qed.
