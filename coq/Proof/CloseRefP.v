(* Proofs about Model/Close.v (property C19), part 4: the code BEFORE the repairs (fx = false)
   violates the property; witnesses computed in the model. *)
From Coq Require Import ZArith List Bool Arith Lia.
From AV Require Import Lib.Sx Model.Close Proof.CloseP.
Import ListNotations.

(* one transceiver on one transport, no SCTP *)
Definition c0 : cfg := init [0] 1 None.

(* connect, start the receiver, its _run_rtcp fails with an unexpected exception
   (exited event not set), then close(): receiver.stop() has cancelled the (finished) task and
   waits for __rtcp_exited *)
Definition hang_prefix : list ev :=
  [EIceStart 0; EIceStartRet 0 true; EDtlsStart 0; EDtlsStartRet 0 true; EReceive 0;
   ETaskBegin KRRtcp 0; ETaskEnd KRRtcp 0 false;
   ECloseCall 0; EStopCall (ORecvStop 0); ECancel KRRtcp 0].

Definition stuck (c : cfg) : Prop :=
  c_closed c = FPending /\
  (exists id todo, c_main c = Some (id, ORecvStop 0 :: todo, SWaitExited)) /\
  exists x, nth_error (c_trx c) 0 = Some x /\ r_rtcp (t_r x) = TFailed /\ r_started (t_r x) = true.

Lemma hang_prefix_stuck : exists c, run false c0 hang_prefix = Some c /\ stuck c.
Proof.
  eexists. split; [vm_compute; reflexivity|].
  unfold stuck. cbn. split; [reflexivity|]. split; [eauto|]. eexists. split; [reflexivity|]. cbn. auto.
Qed.

Lemma stuck_head c : stuck c -> head c = Some (ORecvStop 0, SWaitExited).
Proof. intros (_ & (id & todo & Hm) & _). unfold head. rewrite Hm. reflexivity. Qed.

Lemma stuck_set_trx c i x' :
  stuck c ->
  (i = 0 -> r_rtcp (t_r x') = TFailed /\ r_started (t_r x') = true) ->
  stuck (set_trx c i x').
Proof.
  intros (Hc & Hm & x & Hx & Hr & Hs) Hi. split; [exact Hc|]. split; [exact Hm|].
  cbn [c_trx set_trx]. destruct i as [|i].
  - exists x'. rewrite nth_error_upd_same with (y := x) by exact Hx. destruct (Hi eq_refl). auto.
  - exists x. rewrite nth_error_upd_other by discriminate. auto.
Qed.

Lemma stuck_set_tp c t tp : stuck c -> stuck (set_tp c t tp).
Proof. intros H. exact H. Qed.

Lemma stuck_step c e c' : stuck c -> step false c e = Some c' -> stuck c'.
Proof.
  intros HS HE. pose proof (stuck_head _ HS) as Hh.
  pose proof HS as (Hc & (id & todo & Hm) & x & Hx & Hr & Hst).
  destruct e; cbn [step] in HE.
  all: try (inv_step HE; try exact HS; try (apply stuck_set_tp; exact HS); fail).
  - (* ESend *) inv_step HE; [exact HS|]. apply stuck_set_trx; [exact HS|].
    intros ->. rewrite Hx in E. injection E as <-. auto.
  - (* EReceive *) inv_step HE; [exact HS|]. destruct i as [|i].
    + rewrite Hx in E. injection E as <-. congruence.
    + apply stuck_set_trx; [exact HS|discriminate].
  - (* ETaskBegin *)
    inv_step HE; (apply stuck_set_trx; [exact HS|]); intros ->; rewrite Hx in E; injection E as <-; cbn; auto; congruence.
  - (* ETaskEnd *)
    inv_step HE; (apply stuck_set_trx; [exact HS|]); intros ->; rewrite Hx in E; injection E as <-; cbn; auto.
    rewrite Hr in E1. destruct exited; discriminate.
  - (* EPumpEnd *)
    inv_step HE; try (apply stuck_set_tp; exact HS).
    split; [exact Hc|]. split; [exists id, todo; exact Hm|].
    cbn [c_trx set_tp]. unfold disconnect_all.
    exists (if Nat.eqb (t_tp x) t then with_r x (stop_decoder (t_r x)) else x).
    rewrite nth_error_map, Hx. cbn [option_map]. split; [reflexivity|].
    destruct (Nat.eqb (t_tp x) t); [|auto]. unfold with_r, stop_decoder. destruct (r_dec (t_r x)); cbn; auto.
  - (* ERemoteBye *)
    inv_step HE. apply stuck_set_trx; [exact HS|]. intros ->. rewrite Hx in E. injection E as <-.
    unfold with_r, stop_decoder. destruct (r_dec (t_r x)); cbn; auto.
  - (* ECloseCall *)
    inv_step HE; try congruence.
    split; [reflexivity|]. split; [exists id, todo; exact Hm|]. exists x. auto.
  - (* ECloseRet *)
    rewrite Hm, Hc in HE. discriminate.
  - (* EStopCall *) rewrite Hh in HE. discriminate.
  - (* EStopRet *)
    rewrite Hh in HE. destruct (op_eqb o (ORecvStop 0)) eqn:Eo; cbn [andb] in HE; [|discriminate].
    apply op_eqb_eq in Eo. subst o. cbn [stop_ret] in HE. rewrite Hx, Hr in HE. discriminate.
  - (* ECancel *)
    unfold do_cancel in HE. rewrite Hh in HE. destruct k; discriminate.
  - (* EIceConnClosed *) rewrite Hh in HE. discriminate.
Qed.

Lemma stuck_run evs : forall c c', stuck c -> run false c evs = Some c' -> stuck c'.
Proof.
  induction evs as [|e evs IH]; intros c c' HS HR; cbn [run] in HR.
  - injection HR as <-. exact HS.
  - destruct (step false c e) as [c1|] eqn:HE; [|discriminate]. eapply IH; [eapply stuck_step; eauto|exact HR].
Qed.

(* design item 19: with the unrepaired code close() can wait forever *)
Lemma failed_task_hangs :
  exists c, run false c0 hang_prefix = Some c /\ c_main c <> None /\
      forall evs c', run false c evs = Some c' -> c_closed c' <> FDone.
Proof.
  destruct hang_prefix_stuck as (c & HR & HS). exists c. split; [exact HR|]. split.
  - destruct HS as (_ & (id & todo & Hm) & _). congruence.
  - intros evs c' HR'. destruct (stuck_run _ _ _ HS HR') as (Hc & _). congruence.
Qed.

(* the repaired model does not accept that history: the failing task sets the event *)
Lemma hang_prefix_rejected : run true c0 hang_prefix = None.
Proof. vm_compute. reflexivity. Qed.

(* ... and with the event set, the same close() completes *)
Definition hang_prefix_fixed : list ev :=
  [EIceStart 0; EIceStartRet 0 true; EDtlsStart 0; EDtlsStartRet 0 true; EReceive 0;
   ETaskBegin KRRtcp 0; ETaskEnd KRRtcp 0 true;
   ECloseCall 0; EStopCall (ORecvStop 0); ECancel KRRtcp 0; EStopRet (ORecvStop 0);
   EStopCall (OSendStop 0); EStopRet (OSendStop 0);
   EStopCall (ODtlsStop 0); ECancel KPump 0; EStopRet (ODtlsStop 0);
   EStopCall (OIceStop 0); EIceConnClosed 0; EMonEnd 0; EStopRet (OIceStop 0); ECloseRet 0].

Lemma failed_task_fixed :
  exists c, run true c0 hang_prefix_fixed = Some c /\ c_closed c = FDone.
Proof. eexists. split; vm_compute; reflexivity. Qed.

(* __connect racing with close(): close() has gone past transceiver.stop() while the DTLS
   handshake was still in progress; the handshake completes, __connect starts the sender and the
   receiver.  close() returns and their RTCP tasks run on (decoder thread alive). *)
Definition race_trace : list ev :=
  [EIceStart 0; EIceStartRet 0 true; EDtlsStart 0;
   ECloseCall 0; EStopCall (ORecvStop 0); EStopRet (ORecvStop 0);
   EStopCall (OSendStop 0); EStopRet (OSendStop 0);
   EDtlsStartRet 0 true; ESend 0; EReceive 0;
   ETaskBegin KSRtp 0; ETaskBegin KSRtcp 0; ETaskBegin KRRtcp 0;
   EStopCall (ODtlsStop 0); ECancel KPump 0; EStopRet (ODtlsStop 0);
   EStopCall (OIceStop 0); EIceConnClosed 0; EMonEnd 0; EStopRet (OIceStop 0); ECloseRet 0;
   EPumpEnd 0 0; ETaskEnd KSRtp 0 true].

Lemma connect_race_leaks :
  exists c x, run false c0 race_trace = Some c /\ c_closed c = FDone /\
      nth_error (c_trx c) 0 = Some x /\
      s_rtcp (t_s x) = TRunning /\ r_rtcp (t_r x) = TRunning /\ r_dec (t_r x) = true.
Proof. do 2 eexists. split; [vm_compute; reflexivity|]. cbn. auto. Qed.

Lemma connect_race_rejected : run true c0 race_trace = None.
Proof. vm_compute. reflexivity. Qed.

(* a negotiation call overtaken by close() re-opens the signalling state *)
Definition close_all : list ev :=
  [ECloseCall 0; EStopCall (ORecvStop 0); EStopRet (ORecvStop 0);
   EStopCall (OSendStop 0); EStopRet (OSendStop 0);
   EStopCall (ODtlsStop 0); EStopRet (ODtlsStop 0);
   EStopCall (OIceStop 0); EIceConnClosed 0; EStopRet (OIceStop 0); ECloseRet 0].

Lemma nego_race_reopens :
  exists c, run false c0 (close_all ++ [ENegoSig]) = Some c /\ c_closed c = FDone /\ c_sig_closed c = false.
Proof. eexists. split; [vm_compute; reflexivity|]. cbn. auto. Qed.

Lemma nego_race_rejected : run true c0 (close_all ++ [ENegoSig]) = None.
Proof. vm_compute. reflexivity. Qed.

(* the track of a receiver that never started is not told that it has ended *)
Lemma unstarted_track_not_ended :
  exists c x, run false c0 close_all = Some c /\ c_closed c = FDone /\
      nth_error (c_trx c) 0 = Some x /\ r_eos (t_r x) = false.
Proof. do 2 eexists. split; [vm_compute; reflexivity|]. cbn. auto. Qed.

Lemma unstarted_track_ended_fixed :
  exists c x, run true c0 close_all = Some c /\ c_closed c = FDone /\
      nth_error (c_trx c) 0 = Some x /\ r_eos (t_r x) = true.
Proof. do 2 eexists. split; [vm_compute; reflexivity|]. cbn. auto. Qed.

(* ICE: start() finishing after stop() leaves the transport "completed" with aioice's consent
   task running; and a start() waiting for more remote candidates never returns *)
Definition ice_race : list ev :=
  [EIceStart 0; ECloseCall 0; EStopCall (ORecvStop 0); EStopRet (ORecvStop 0);
   EStopCall (OSendStop 0); EStopRet (OSendStop 0);
   EStopCall (ODtlsStop 0); EStopRet (ODtlsStop 0);
   EStopCall (OIceStop 0); EIceConnClosed 0; EMonEnd 0; EStopRet (OIceStop 0); ECloseRet 0].

Lemma ice_start_race_leaks :
  exists c tp, run false c0 (ice_race ++ [EIceStartRet 0 true]) = Some c /\ c_closed c = FDone /\
      nth_error (c_tps c) 0 = Some tp /\ i_consent tp = true /\ i_state tp = ICompleted.
Proof. do 2 eexists. split; [vm_compute; reflexivity|]. cbn. auto. Qed.

Lemma ice_start_race_fixed :
  exists c tp, run true c0 (ice_race ++ [EIceStartRet 0 true]) = Some c /\ c_closed c = FDone /\
      nth_error (c_tps c) 0 = Some tp /\ i_consent tp = false /\ i_state tp = IClosed.
Proof. do 2 eexists. split; [vm_compute; reflexivity|]. cbn. auto. Qed.

Lemma ice_start_never_returns :
  exists c tp, run false c0 ice_race = Some c /\ c_closed c = FDone /\
      nth_error (c_tps c) 0 = Some tp /\ i_starting tp = true /\
      step false c (EIceStartRet 0 false) = None.
Proof. do 2 eexists. split; [vm_compute; reflexivity|]. cbn. auto. Qed.

Lemma ice_start_returns_fixed :
  exists c c', run true c0 ice_race = Some c /\ step true c (EIceStartRet 0 false) = Some c'.
Proof. do 2 eexists. split; vm_compute; reflexivity. Qed.
