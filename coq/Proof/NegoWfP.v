(* Well-formedness of a pair of peer connections along a session, and the proof that
   an offer/answer exchange between well-formed connections returns Ok (C03, layer 2). *)
From Coq Require Import ZArith List Bool Lia.
From AV Require Import Model.Nego Proof.NegoP Proof.NegoExP.
Import ListNotations.
Local Open Scope Z_scope.

(* ---- lists ---------------------------------------------------------------------------- *)
Lemma find_idx_unique : forall T (f : T -> bool) l k x, nth_error l k = Some x -> f x = true ->
  (forall j y, nth_error l j = Some y -> f y = true -> j = k) -> find_idx f l = Some k.
Proof.
  induction l as [|a l IH]; intros k x Hk Hf Hu; [destruct k; discriminate|].
  cbn [find_idx]. destruct (f a) eqn:Ea.
  - f_equal. apply (Hu O a); auto.
  - destruct k as [|k]; [cbn in Hk; inversion Hk; subst; congruence|].
    cbn [nth_error] in Hk. rewrite (IH k x Hk Hf); [reflexivity|].
    intros j y Hj Hy. assert (E : S j = S k) by (apply (Hu (S j) y); auto). lia.
Qed.

Lemma find_idx_nth : forall T (f : T -> bool) l k, find_idx f l = Some k ->
  exists x, nth_error l k = Some x /\ f x = true /\ forall j y, (j < k)%nat -> nth_error l j = Some y -> f y = false.
Proof.
  intros T f l k H. destruct (find_idx_split _ _ _ _ H) as [l1 [x [l2 [E1 [E2 [E3 E4]]]]]]. subst l k.
  exists x. split; [apply nth_error_split|]. split; [exact E3|].
  intros j y Hj Hy. apply E4. rewrite nth_error_app1 in Hy by exact Hj. eapply nth_error_In; eauto.
Qed.

Lemma find_unique : forall T (f : T -> bool) l k x, nth_error l k = Some x -> f x = true ->
  (forall j y, nth_error l j = Some y -> f y = true -> j = k) -> find f l = Some x.
Proof.
  induction l as [|a l IH]; intros k x Hk Hf Hu; [destruct k; discriminate|].
  cbn [find]. destruct (f a) eqn:Ea.
  - assert (E : O = k) by (apply (Hu O a); auto). subst k. cbn in Hk. congruence.
  - destruct k as [|k]; [cbn in Hk; inversion Hk; subst; congruence|].
    cbn [nth_error] in Hk. apply (IH k x Hk Hf).
    intros j y Hj Hy. assert (E : S j = S k) by (apply (Hu (S j) y); auto). lia.
Qed.

Lemma nth_error_upd : forall T (g : T -> T) l k j,
  nth_error (upd k g l) j = if Nat.eqb j k then option_map g (nth_error l j) else nth_error l j.
Proof.
  induction l as [|a l IH]; intros k j; cbn [upd].
  - destruct k; cbn [upd]; destruct j; cbn [nth_error option_map Nat.eqb]; try reflexivity;
      match goal with |- context [Nat.eqb ?a ?b] => destruct (Nat.eqb a b) end; reflexivity.
  - destruct k as [|k]; destruct j as [|j]; cbn [nth_error Nat.eqb option_map]; auto. apply IH.
Qed.

Lemma upd_length : forall T (g : T -> T) l k, length (upd k g l) = length l.
Proof. induction l as [|a l IH]; intros k; destruct k; cbn [upd length]; auto. Qed.

Lemma upd_id : forall T (g : T -> T) l k, (forall x, nth_error l k = Some x -> g x = x) -> upd k g l = l.
Proof.
  induction l as [|a l IH]; intros k H; [destruct k; reflexivity|].
  destruct k as [|k]; cbn [upd]; [rewrite (H a eq_refl); reflexivity|]. rewrite IH; [reflexivity|]. intros x Hx. apply H. exact Hx.
Qed.

Lemma In_nth_error_ex : forall T (l : list T) x, In x l -> exists k, nth_error l k = Some x.
Proof. intros. apply In_nth_error. assumption. Qed.

Lemma NoDup_nth_error_inj : forall T (l : list T) i j x, NoDup l -> nth_error l i = Some x -> nth_error l j = Some x -> i = j.
Proof.
  intros T l i j x Hnd Hi Hj. apply (proj1 (NoDup_nth_error l) Hnd).
  - apply nth_error_Some. congruence.
  - congruence.
Qed.

(* ---- sections and alignment --------------------------------------------------------------- *)
Definition secs_of (ms : list media) : list (Z * Z) := map (fun m => (m_kind m, m_mid m)) ms.

Lemma secs_of_mids : forall ms, map snd (secs_of ms) = map m_mid ms.
Proof. intro ms. unfold secs_of. rewrite map_map. reflexivity. Qed.

Lemma secs_of_app : forall a b, secs_of (a ++ b) = secs_of a ++ secs_of b.
Proof. intros. unfold secs_of. apply map_app. Qed.

Lemma secs_nth_mid_inj : forall (ss : list (Z * Z)) i j k1 k2 mu, NoDup (map snd ss) ->
  nth_error ss i = Some (k1, mu) -> nth_error ss j = Some (k2, mu) -> i = j /\ k1 = k2.
Proof.
  intros ss i j k1 k2 mu Hnd Hi Hj.
  assert (E : i = j).
  { apply (NoDup_nth_error_inj _ (map snd ss) i j mu Hnd); rewrite nth_error_map; [rewrite Hi | rewrite Hj]; reflexivity. }
  subst j. split; [reflexivity | congruence].
Qed.

(* the transceivers of a connection agree with a list of (kind, mid) sections *)
Record aligned (trs : list transceiver) (ss : list (Z * Z)) : Prop := mkAligned {
  al_mid : forall t mu, In t trs -> t_mid t = Some mu ->
             exists j, t_mline t = Some j /\ nth_error ss j = Some (t_kind t, mu);
  al_none : forall t, In t trs -> t_mid t = None -> t_mline t = None;
  al_sec : forall j k mu, nth_error ss j = Some (k, mu) -> is_av k = true -> exists t, In t trs /\ t_mid t = Some mu;
  al_uniq : forall i1 i2 t1 t2 mu, nth_error trs i1 = Some t1 -> nth_error trs i2 = Some t2 ->
              t_mid t1 = Some mu -> t_mid t2 = Some mu -> i1 = i2;
  al_ord : forall i1 i2 t1 t2, (i1 < i2)%nat -> nth_error trs i1 = Some t1 -> nth_error trs i2 = Some t2 ->
             t_kind t1 = t_kind t2 -> t_mid t1 = None -> t_mid t2 = None;
  al_kind : forall t, In t trs -> is_av (t_kind t) = true
}.

(* alignment only looks at kind, mid and m-line index *)
Definition akey (t : transceiver) := (t_kind t, t_mid t, t_mline t).

Lemma akey_fields : forall t t', akey t = akey t' -> t_kind t = t_kind t' /\ t_mid t = t_mid t' /\ t_mline t = t_mline t'.
Proof. intros t t' H. unfold akey in H. inversion H. auto. Qed.

Lemma map_akey_nth : forall trs trs' i t', map akey trs = map akey trs' -> nth_error trs' i = Some t' ->
  exists t, nth_error trs i = Some t /\ akey t = akey t'.
Proof.
  intros trs trs' i t' H Hi.
  assert (E : nth_error (map akey trs) i = Some (akey t')) by (rewrite H, nth_error_map, Hi; reflexivity).
  rewrite nth_error_map in E. destruct (nth_error trs i) as [t|]; [|discriminate].
  exists t. split; [reflexivity|]. cbn in E. congruence.
Qed.

Lemma map_akey_In : forall trs trs' t', map akey trs = map akey trs' -> In t' trs' -> exists t, In t trs /\ akey t = akey t'.
Proof.
  intros trs trs' t' H Hin. apply In_nth_error in Hin. destruct Hin as [i Hi].
  destruct (map_akey_nth _ _ _ _ H Hi) as [t [Ht E]]. exists t. split; [eapply nth_error_In; eauto | exact E].
Qed.

Lemma aligned_keys : forall trs trs' ss, map akey trs = map akey trs' -> aligned trs ss -> aligned trs' ss.
Proof.
  intros trs trs' ss H [A1 A2 A3 A4 A5 A6]. constructor.
  - intros t' mu Hin Hm. destruct (map_akey_In _ _ _ H Hin) as [t [Ht E]]. apply akey_fields in E.
    destruct E as [E1 [E2 E3]]. rewrite <- E1, <- E3. apply A1; [exact Ht | congruence].
  - intros t' Hin Hm. destruct (map_akey_In _ _ _ H Hin) as [t [Ht E]]. apply akey_fields in E.
    destruct E as [E1 [E2 E3]]. rewrite <- E3. apply A2; [exact Ht | congruence].
  - intros j k mu Hj Hav. destruct (A3 j k mu Hj Hav) as [t [Ht Hm]].
    symmetry in H. destruct (map_akey_In _ _ _ H Ht) as [t' [Ht' E]]. apply akey_fields in E.
    exists t'. split; [exact Ht' | destruct E as [_ [E _]]; congruence].
  - intros i1 i2 t1' t2' mu H1 H2 M1 M2.
    destruct (map_akey_nth _ _ _ _ H H1) as [t1 [G1 E1]]. destruct (map_akey_nth _ _ _ _ H H2) as [t2 [G2 E2]].
    apply akey_fields in E1. apply akey_fields in E2. apply (A4 i1 i2 t1 t2 mu); auto; [destruct E1 as [_ [E _]] | destruct E2 as [_ [E _]]]; congruence.
  - intros i1 i2 t1' t2' Hlt H1 H2 Hk Hm.
    destruct (map_akey_nth _ _ _ _ H H1) as [t1 [G1 E1]]. destruct (map_akey_nth _ _ _ _ H H2) as [t2 [G2 E2]].
    apply akey_fields in E1. apply akey_fields in E2. destruct E1 as [K1 [M1 _]]. destruct E2 as [K2 [M2 _]].
    rewrite <- M2. apply (A5 i1 i2 t1 t2); auto; congruence.
  - intros t' Hin. destruct (map_akey_In _ _ _ H Hin) as [t [Ht E]]. apply akey_fields in E.
    destruct E as [E _]. rewrite <- E. apply A6. exact Ht.
Qed.

(* appending a transceiver without mid keeps the alignment *)
Lemma aligned_snoc : forall trs ss t, aligned trs ss -> t_mid t = None -> t_mline t = None -> is_av (t_kind t) = true ->
  aligned (trs ++ [t]) ss.
Proof.
  intros trs ss t [A1 A2 A3 A4 A5 A6] Hm Hl Hk. constructor.
  - intros x mu Hin Hx. apply in_app_or in Hin. destruct Hin as [Hin|[<-|[]]]; [apply A1; auto | congruence].
  - intros x Hin Hx. apply in_app_or in Hin. destruct Hin as [Hin|[<-|[]]]; [apply A2; auto | exact Hl].
  - intros j k mu Hj Hav. destruct (A3 j k mu Hj Hav) as [x [Hx Hxm]]. exists x. split; [apply in_or_app; left; exact Hx | exact Hxm].
  - intros i1 i2 t1 t2 mu H1 H2 M1 M2.
    assert (L1 : (i1 < length trs)%nat).
    { destruct (Nat.lt_ge_cases i1 (length trs)) as [L|L]; [exact L|]. rewrite nth_error_app2 in H1 by exact L.
      destruct (i1 - length trs)%nat as [|n]; cbn in H1; [inversion H1; subst; congruence | destruct n; discriminate]. }
    assert (L2 : (i2 < length trs)%nat).
    { destruct (Nat.lt_ge_cases i2 (length trs)) as [L|L]; [exact L|]. rewrite nth_error_app2 in H2 by exact L.
      destruct (i2 - length trs)%nat as [|n]; cbn in H2; [inversion H2; subst; congruence | destruct n; discriminate]. }
    rewrite nth_error_app1 in H1 by exact L1. rewrite nth_error_app1 in H2 by exact L2. exact (A4 i1 i2 t1 t2 mu H1 H2 M1 M2).
  - intros i1 i2 t1 t2 Hlt H1 H2 Hk12 M1.
    destruct (Nat.lt_ge_cases i2 (length trs)) as [L|L].
    + rewrite nth_error_app1 in H2 by exact L. rewrite nth_error_app1 in H1 by lia. exact (A5 i1 i2 t1 t2 Hlt H1 H2 Hk12 M1).
    + rewrite nth_error_app2 in H2 by exact L.
      destruct (i2 - length trs)%nat as [|n]; cbn in H2; [inversion H2; subst; exact Hm | destruct n; discriminate].
  - intros x Hin. apply in_app_or in Hin. destruct Hin as [Hin|[<-|[]]]; [apply A6; exact Hin | exact Hk].
Qed.

(* ---- transports --------------------------------------------------------------------------------- *)
Definition has_tr (l : list transport) (id : Z) : Prop := exists tr, tr_get l id = Some tr.

Lemma has_tr_app : forall l l' id, has_tr l id -> has_tr (l ++ l') id.
Proof. intros l l' id [tr H]. exists tr. unfold tr_get in *. rewrite find_app, H. reflexivity. Qed.

Lemma has_tr_new : forall l id r a b c, has_tr (l ++ [mkTransport id r a b c]) id.
Proof.
  intros l id r a b c. unfold has_tr, tr_get. rewrite find_app.
  destruct (find (fun t => tr_id t =? id) l) as [x|]; [eexists; reflexivity|].
  cbn. rewrite Z.eqb_refl. eexists; reflexivity.
Qed.

Lemma has_tr_map : forall (f : transport -> transport) l id, (forall t, tr_id (f t) = tr_id t) -> has_tr l id -> has_tr (map f l) id.
Proof.
  intros f l id Hf [tr H]. unfold has_tr, tr_get in *. induction l as [|a l IH]; cbn [map find] in *; [discriminate|].
  rewrite Hf. destruct (tr_id a =? id); [eexists; reflexivity | apply IH; exact H].
Qed.

Lemma has_tr_upd : forall l id id' f, (forall t, tr_id (f t) = tr_id t) -> has_tr l id -> has_tr (tr_upd l id' f) id.
Proof.
  intros l id id' f Hf H. unfold tr_upd. apply has_tr_map; [|exact H].
  intro t. destruct (tr_id t =? id'); [apply Hf | reflexivity].
Qed.

Lemma tr_set_role_id : forall r t, tr_id (tr_set_role r t) = tr_id t. Proof. reflexivity. Qed.
Lemma tr_set_ice_id : forall c t, tr_id (tr_set_ice c t) = tr_id t.
Proof. intros c t. unfold tr_set_ice. destruct (tr_role_set t); reflexivity. Qed.
Lemma tr_kill_id : forall t, tr_id (tr_kill t) = tr_id t. Proof. reflexivity. Qed.

Lemma remote_transport_roles_has : forall ty m id' l id, has_tr l id -> has_tr (remote_transport_roles ty m id' l) id.
Proof.
  intros ty m id' l id H. unfold remote_transport_roles.
  repeat match goal with |- context [if ?c then _ else _] => destruct c end;
    repeat (apply has_tr_upd; [first [exact (tr_set_role_id _) | exact (tr_set_ice_id _)]|]); exact H.
Qed.

(* ---- well-formed connection ------------------------------------------------------------------------- *)
Definition kinds_ok (ss : list (Z * Z)) : Prop := forall s, In s ss -> is_av (fst s) = true \/ fst s = 2.

Definition prefs_valid (T : tables) (kind : Z) (prefs : list cap) : Prop :=
  forall p, In p prefs -> existsb (cap_eqb p) (get_capabilities T kind) = true.

Definition S (p : pc) : list (Z * Z) := sections (local_description p).

Record wf (T : tables) (p : pc) : Prop := mkWf {
  wf_state : p_state p = Stable;
  wf_secs : sections (remote_description p) = S p;
  wf_nodup : NoDup (map snd (S p));
  wf_seen : incl (map snd (S p)) (p_seen p);
  wf_kinds : kinds_ok (S p);
  wf_al : aligned (p_trs p) (S p);
  wf_sctp_sec : forall mu, In (2, mu) (S p) -> exists s, p_sctp p = Some s /\ s_mid s = Some mu;
  wf_sctp_mid : forall s mu, p_sctp p = Some s -> s_mid s = Some mu -> In (2, mu) (S p);
  wf_tr : forall t, In t (p_trs p) -> has_tr (p_transports p) (t_transport t);
  wf_tr_sctp : forall s, p_sctp p = Some s -> has_tr (p_transports p) (s_transport s);
  wf_prefs : forall t, In t (p_trs p) -> prefs_valid T (t_kind t) (t_preferred t)
}.

Lemma wf_init : forall T pol, wf T (init_pc pol).
Proof.
  intros T pol. constructor; cbn; try reflexivity; try (intros; contradiction); try discriminate.
  - constructor.
  - intros x [].
  - intros s [].
  - constructor; cbn; intros; try contradiction; try discriminate.
    + destruct j; discriminate.
    + destruct i1; discriminate.
    + destruct i1; discriminate.
Qed.

(* the parts of wf that talk about one transceiver *)
Definition tinfo (t : transceiver) := (akey t, t_transport t, t_preferred t).

Lemma tinfo_fields : forall t t', tinfo t = tinfo t' -> akey t = akey t' /\ t_transport t = t_transport t' /\ t_preferred t = t_preferred t'.
Proof.
  intros t t' H. unfold tinfo in H.
  pose proof (f_equal (fun x => fst (fst x)) H) as E1. pose proof (f_equal (fun x => snd (fst x)) H) as E2.
  pose proof (f_equal snd H) as E3. cbn [fst snd] in E1, E2, E3. auto.
Qed.

Lemma map_upd_pres : forall A B (f : A -> B) (g : A -> A) l k, (forall x, f (g x) = f x) -> map f (upd k g l) = map f l.
Proof.
  induction l as [|a l IH]; intros k H; destruct k; cbn [upd map]; auto; [rewrite H | rewrite IH]; auto.
Qed.

Lemma map_tinfo_akey : forall trs trs', map tinfo trs = map tinfo trs' -> map akey trs = map akey trs'.
Proof.
  intros trs trs' H. assert (E : forall l, map akey l = map (fun x => fst (fst x)) (map tinfo l)).
  { intro l. rewrite map_map. reflexivity. }
  rewrite (E trs), (E trs'), H. reflexivity.
Qed.

Lemma map_tinfo_In : forall trs trs' t', map tinfo trs = map tinfo trs' -> In t' trs' -> exists t, In t trs /\ tinfo t = tinfo t'.
Proof.
  intros trs trs' t' H Hin. apply In_nth_error in Hin. destruct Hin as [i Hi].
  assert (E : nth_error (map tinfo trs) i = Some (tinfo t')) by (rewrite H, nth_error_map, Hi; reflexivity).
  rewrite nth_error_map in E. destruct (nth_error trs i) as [t|] eqn:Et; [|discriminate].
  exists t. split; [eapply nth_error_In; eauto | cbn in E; congruence].
Qed.

(* a connection that differs only in fields the invariant does not look at *)
Lemma wf_transfer : forall T p q,
  wf T p -> same_descs p q -> p_seen q = p_seen p -> map tinfo (p_trs q) = map tinfo (p_trs p) ->
  p_sctp q = p_sctp p -> (forall id, has_tr (p_transports p) id -> has_tr (p_transports q) id) -> wf T q.
Proof.
  intros T p q W Hd Hs Ht Hsc Htr. destruct W as [W1 W2 W3 W4 W5 W6 W7 W8 W9 W10 W11].
  assert (ES : S q = S p).
  { unfold S, local_description. destruct Hd as [E1 [_ [E3 _]]]. rewrite E1, E3. reflexivity. }
  assert (ER : remote_description q = remote_description p).
  { unfold remote_description. destruct Hd as [_ [E2 [_ [E4 _]]]]. rewrite E2, E4. reflexivity. }
  constructor; rewrite ?ES, ?ER, ?Hs, ?Hsc.
  - destruct Hd as [_ [_ [_ [_ E]]]]. congruence.
  - exact W2.
  - exact W3.
  - exact W4.
  - exact W5.
  - eapply aligned_keys; [|exact W6]. symmetry. apply map_tinfo_akey. exact Ht.
  - exact W7.
  - exact W8.
  - intros t' Hin. destruct (map_tinfo_In _ _ _ (eq_sym Ht) Hin) as [t [Hin' E]]. apply tinfo_fields in E.
    destruct E as [_ [E _]]. rewrite <- E. apply Htr. apply W9. exact Hin'.
  - intros s Hs'. apply Htr. apply W10. exact Hs'.
  - intros t' Hin. destruct (map_tinfo_In _ _ _ (eq_sym Ht) Hin) as [t [Hin' E]]. apply tinfo_fields in E.
    destruct E as [Ek [_ Ep]]. apply akey_fields in Ek. destruct Ek as [Ek _]. rewrite <- Ek, <- Ep. apply W11. exact Hin'.
Qed.

(* ---- configuration calls keep a connection well-formed --------------------------------------------- *)
Lemma S_same : forall p q, same_descs p q -> S q = S p /\ remote_description q = remote_description p.
Proof.
  intros p q [E1 [E2 [E3 [E4 _]]]]. unfold S, local_description, remote_description. rewrite E1, E2, E3, E4. auto.
Qed.

Lemma wf_create_transceiver : forall T p d k h, wf T p -> is_av k = true -> wf T (create_transceiver p d k h).
Proof.
  intros T p d k h W Hk. pose proof W as [W1 W2 W3 W4 W5 W6 W7 W8 W9 W10 W11].
  destruct (create_transceiver_spec p d k h) as [bd [id [E1 [E2 [E3 E4]]]]].
  destruct (S_same _ _ (same_session_descs _ _ E4)) as [ES ER].
  assert (Htr : (forall i, has_tr (p_transports p) i -> has_tr (p_transports (create_transceiver p d k h)) i) /\
                forall t, In t (p_trs (create_transceiver p d k h)) -> has_tr (p_transports (create_transceiver p d k h)) (t_transport t)).
  { unfold create_transceiver.
    match goal with |- context [match ?s with Some id => _ | None => _ end] => destruct s as [sid|] eqn:Es end.
    - cbn. split; [auto|]. intros t Hin. apply in_app_or in Hin. destruct Hin as [Hin|[<-|[]]]; [apply W9; exact Hin|].
      cbn. revert Es. destruct (p_policy p =? 2).
      + destruct (p_trs p) as [|t0 l] eqn:Etrs.
        * destruct (p_sctp p) as [s|] eqn:Esc; [|discriminate]. intro Es. inversion Es; subst. apply W10. reflexivity.
        * intro Es. inversion Es; subst. apply W9. left. reflexivity.
      + destruct (p_policy p =? 0); [|discriminate].
        destruct (find (fun t => t_kind t =? k) (p_trs p)) as [t0|] eqn:Ef; [|discriminate].
        intro Es. inversion Es; subst. apply W9. apply find_some in Ef. tauto.
    - cbn. split; [intros i Hi; apply has_tr_app; exact Hi|].
      intros t Hin. apply in_app_or in Hin. destruct Hin as [Hin|[<-|[]]]; [apply has_tr_app; apply W9; exact Hin|].
      cbn. apply has_tr_new. }
  destruct Htr as [Htr1 Htr2].
  destruct E4 as [F1 [F2 [F3 [F4 [F5 [F6 F7]]]]]].
  constructor; rewrite ?ES, ?ER, ?E1, ?E2, ?F1.
  - congruence.
  - exact W2.
  - exact W3.
  - exact W4.
  - exact W5.
  - apply aligned_snoc; auto.
  - exact W7.
  - exact W8.
  - intros t Hin. apply Htr2. rewrite E1. exact Hin.
  - intros s Hs. apply Htr1. apply W10. exact Hs.
  - intros t Hin. apply in_app_or in Hin. destruct Hin as [Hin|[<-|[]]]; [apply W11; exact Hin|].
    cbn. intros q [].
Qed.

Lemma wf_create_sctp : forall T p, wf T p -> p_sctp p = None -> wf T (create_sctp p).
Proof.
  intros T p W Hn. pose proof W as [W1 W2 W3 W4 W5 W6 W7 W8 W9 W10 W11].
  destruct (create_sctp_spec p) as [E1 [E2 [E3 [s [E4 E5]]]]].
  destruct (S_same _ _ (same_session_descs _ _ E3)) as [ES ER].
  assert (Htr : (forall i, has_tr (p_transports p) i -> has_tr (p_transports (create_sctp p)) i) /\
                forall s', p_sctp (create_sctp p) = Some s' -> has_tr (p_transports (create_sctp p)) (s_transport s')).
  { unfold create_sctp. destruct (if p_policy p =? 2 then p_trs p else []) as [|t0 l] eqn:El.
    - cbn. split; [intros i Hi; apply has_tr_app; exact Hi|]. intros s' Hs'. inversion Hs'; subst. cbn. apply has_tr_new.
    - cbn. split; [auto|]. intros s' Hs'. inversion Hs'; subst. cbn. apply W9.
      destruct (p_policy p =? 2); [rewrite El; left; reflexivity | discriminate]. }
  destruct Htr as [Htr1 Htr2]. destruct E3 as [F1 [F2 [F3 [F4 [F5 [F6 F7]]]]]].
  constructor; rewrite ?ES, ?ER, ?E1, ?F1.
  - congruence.
  - exact W2.
  - exact W3.
  - exact W4.
  - exact W5.
  - exact W6.
  - intros mu Hmu. destruct (W7 mu Hmu) as [s0 [Hs0 _]]. congruence.
  - intros s' mu Hs' Hm. rewrite E4 in Hs'. inversion Hs'; subst. congruence.
  - intros t Hin. apply Htr1. apply W9. exact Hin.
  - exact Htr2.
  - exact W11.
Qed.

Lemma prefs_unique_valid : forall caps rc u res, prefs_unique caps rc u = Ok res ->
  (forall p, In p u -> existsb (cap_eqb p) caps = true) -> forall p, In p res -> existsb (cap_eqb p) caps = true.
Proof.
  induction rc as [|c rc IH]; intros u res H Hu p Hp; cbn [prefs_unique] in H.
  - inversion H; subst. auto.
  - destruct (existsb (cap_eqb c) caps) eqn:Ec; cbn [negb] in H; [|discriminate].
    eapply IH; eauto. intros q Hq. destruct (existsb (cap_eqb c) u); [auto|].
    destruct Hq as [<-|Hq]; auto.
Qed.

Lemma wf_apply_op : forall T p o p', wf T p -> apply_op T p o = Ok p' -> wf T p'.
Proof.
  intros T p o p' W H. destruct o as [k|k d h| |i prefs|i d]; cbn [apply_op] in H.
  - unfold add_track in H. destruct (is_av k) eqn:Hk; cbn [negb] in H; [|discriminate].
    destruct (find_idx (fun t => (t_kind t =? k) && negb (t_hastrack t)) (p_trs p)) as [i|].
    + destruct (nth_error (p_trs p) i) as [t|]; [|discriminate]. bind_inv H d Hd. inversion H; subst.
      eapply wf_transfer; [exact W | unfold same_descs; cbn; tauto | reflexivity | | reflexivity | auto].
      cbn. apply map_upd_pres. intro x. reflexivity.
    + inversion H; subst. apply wf_create_transceiver; auto.
  - unfold add_transceiver in H. destruct (is_av k) eqn:Hk; cbn [negb] in H; [|discriminate].
    inversion H; subst. apply wf_create_transceiver; auto.
  - unfold create_data_channel in H. destruct (p_sctp p) eqn:Es; inversion H; subst; [exact W|].
    apply wf_create_sctp; auto.
  - unfold pc_set_prefs in H. destruct (nth_error (p_trs p) i) as [t|] eqn:Et; [|discriminate].
    bind_inv H u Hu. inversion H; subst. pose proof W as [W1 W2 W3 W4 W5 W6 W7 W8 W9 W10 W11].
    assert (Hk : map akey (upd i (set_prefs u) (p_trs p)) = map akey (p_trs p)) by (apply map_upd_pres; intro x; reflexivity).
    constructor.
    + exact W1.
    + exact W2.
    + exact W3.
    + exact W4.
    + exact W5.
    + cbn [p_trs set_trs]. eapply aligned_keys; [symmetry; exact Hk | exact W6].
    + exact W7.
    + exact W8.
    + cbn [p_trs set_trs p_transports]. intros t' Hin. apply In_nth_error in Hin. destruct Hin as [j Hj]. rewrite nth_error_upd in Hj.
      destruct (Nat.eqb j i).
      * destruct (nth_error (p_trs p) j) as [x|] eqn:Ex; [|discriminate]. cbn in Hj. inversion Hj; subst. cbn.
        apply W9. eapply nth_error_In; eauto.
      * apply W9. eapply nth_error_In; eauto.
    + exact W10.
    + cbn [p_trs set_trs]. intros t' Hin. apply In_nth_error in Hin. destruct Hin as [j Hj]. rewrite nth_error_upd in Hj.
      destruct (Nat.eqb_spec j i) as [Heq|Hne].
      * subst j. rewrite Et in Hj. cbn in Hj. inversion Hj; subst. cbn. unfold set_codec_preferences in Hu.
        intros q Hq. eapply prefs_unique_valid; eauto.
      * apply W11. eapply nth_error_In; eauto.
  - unfold pc_set_direction in H. destruct (nth_error (p_trs p) i) as [t|]; [|discriminate]. inversion H; subst.
    eapply wf_transfer; [exact W | unfold same_descs; cbn; tauto | reflexivity | | reflexivity | auto].
    cbn. apply map_upd_pres. intro x. reflexivity.
Qed.

(* ---- well-formedness relative to a section list ----------------------------------------------------- *)
Record wfs (T : tables) (p : pc) (ss : list (Z * Z)) : Prop := mkWfs {
  ws_nodup : NoDup (map snd ss);
  ws_seen : incl (map snd ss) (p_seen p);
  ws_kinds : kinds_ok ss;
  ws_al : aligned (p_trs p) ss;
  ws_sctp_sec : forall mu, In (2, mu) ss -> exists s, p_sctp p = Some s /\ s_mid s = Some mu;
  ws_sctp_mid : forall s mu, p_sctp p = Some s -> s_mid s = Some mu -> In (2, mu) ss;
  ws_tr : forall t, In t (p_trs p) -> has_tr (p_transports p) (t_transport t);
  ws_tr_sctp : forall s, p_sctp p = Some s -> has_tr (p_transports p) (s_transport s);
  ws_prefs : forall t, In t (p_trs p) -> prefs_valid T (t_kind t) (t_preferred t)
}.

Lemma wf_wfs : forall T p, wf T p <-> (p_state p = Stable /\ sections (remote_description p) = S p /\ wfs T p (S p)).
Proof.
  intros T p. split.
  - intros [W1 W2 W3 W4 W5 W6 W7 W8 W9 W10 W11]. split; [exact W1|]. split; [exact W2|]. constructor; assumption.
  - intros [W1 [W2 [A1 A2 A3 A4 A5 A6 A7 A8 A9]]]. constructor; assumption.
Qed.

(* ---- the loop invariant of setRemoteDescription ------------------------------------------------------ *)
Record ali (i : nat) (mids0 : list Z) (trs : list transceiver) (ss : list (Z * Z)) : Prop := mkAli {
  li_mid : forall t mu, In t trs -> t_mid t = Some mu ->
             exists j, t_mline t = Some j /\ nth_error ss j = Some (t_kind t, mu) /\ ((j < i)%nat \/ In mu mids0);
  li_none : forall t, In t trs -> t_mid t = None -> t_mline t = None;
  li_sec : forall j k mu, nth_error ss j = Some (k, mu) -> is_av k = true -> ((j < i)%nat \/ In mu mids0) ->
             exists t, In t trs /\ t_mid t = Some mu;
  li_uniq : forall i1 i2 t1 t2 mu, nth_error trs i1 = Some t1 -> nth_error trs i2 = Some t2 ->
              t_mid t1 = Some mu -> t_mid t2 = Some mu -> i1 = i2;
  li_ord : forall i1 i2 t1 t2, (i1 < i2)%nat -> nth_error trs i1 = Some t1 -> nth_error trs i2 = Some t2 ->
             t_kind t1 = t_kind t2 -> t_mid t1 = None -> t_mid t2 = None;
  li_kind : forall t, In t trs -> is_av (t_kind t) = true
}.

Definition extends (ss s0 : list (Z * Z)) : Prop := forall j x, nth_error s0 j = Some x -> nth_error ss j = Some x.

Lemma in_map_snd_nth : forall (s0 : list (Z * Z)) mu, In mu (map snd s0) -> exists j k, nth_error s0 j = Some (k, mu).
Proof.
  intros s0 mu H. apply in_map_iff in H. destruct H as [[k m] [E Hin]]. cbn in E. subst m.
  apply In_nth_error in Hin. destruct Hin as [j Hj]. exists j, k. exact Hj.
Qed.

Lemma ali_start : forall trs s0 ss, aligned trs s0 -> extends ss s0 -> NoDup (map snd ss) -> ali 0 (map snd s0) trs ss.
Proof.
  intros trs s0 ss [A1 A2 A3 A4 A5 A6] Hext Hnd. constructor; auto.
  - intros t mu Hin Hm. destruct (A1 t mu Hin Hm) as [j [E1 E2]]. exists j. split; [exact E1|]. split; [apply Hext; exact E2|].
    right. apply in_map_iff. exists (t_kind t, mu). split; [reflexivity | eapply nth_error_In; eauto].
  - intros j k mu Hj Hav [Hlt|Hin]; [lia|].
    destruct (in_map_snd_nth _ _ Hin) as [j' [k' Hj']]. pose proof (Hext _ _ Hj') as Hj''.
    destruct (secs_nth_mid_inj _ _ _ _ _ _ Hnd Hj Hj'') as [-> ->]. eapply A3; eauto.
Qed.

Lemma ali_end : forall mids0 trs ss, ali (length ss) mids0 trs ss -> aligned trs ss.
Proof.
  intros mids0 trs ss [A1 A2 A3 A4 A5 A6]. constructor; auto.
  - intros t mu Hin Hm. destruct (A1 t mu Hin Hm) as [j [E1 [E2 _]]]. exists j. auto.
  - intros j k mu Hj Hav. apply (A3 j k mu Hj Hav). left. apply nth_error_Some. congruence.
Qed.

Lemma ali_skip : forall i mids0 trs ss k mu, ali i mids0 trs ss -> nth_error ss i = Some (k, mu) -> is_av k = false ->
  ali (Datatypes.S i) mids0 trs ss.
Proof.
  intros i mids0 trs ss k mu [A1 A2 A3 A4 A5 A6] Hi Hk. constructor; auto.
  - intros t m Hin Hm. destruct (A1 t m Hin Hm) as [j [E1 [E2 E3]]]. exists j. split; [exact E1|]. split; [exact E2|].
    destruct E3; [left; lia | right; assumption].
  - intros j k' m Hj Hav [Hlt|Hin]; [|apply (A3 j k' m Hj Hav); right; exact Hin].
    destruct (Nat.eq_dec j i) as [->|Hne]; [rewrite Hi in Hj; inversion Hj; subst; congruence|].
    apply (A3 j k' m Hj Hav). left. lia.
Qed.

Lemma ali_keys : forall i mids0 trs trs' ss, map akey trs = map akey trs' -> ali i mids0 trs ss -> ali i mids0 trs' ss.
Proof.
  intros i mids0 trs trs' ss H [A1 A2 A3 A4 A5 A6]. constructor.
  - intros t' mu Hin Hm. destruct (map_akey_In _ _ _ H Hin) as [t [Ht E]]. apply akey_fields in E.
    destruct E as [E1 [E2 E3]]. rewrite <- E1, <- E3. apply A1; [exact Ht | congruence].
  - intros t' Hin Hm. destruct (map_akey_In _ _ _ H Hin) as [t [Ht E]]. apply akey_fields in E.
    destruct E as [E1 [E2 E3]]. rewrite <- E3. apply A2; [exact Ht | congruence].
  - intros j k mu Hj Hav Hor. destruct (A3 j k mu Hj Hav Hor) as [t [Ht Hm]].
    symmetry in H. destruct (map_akey_In _ _ _ H Ht) as [t' [Ht' E]]. apply akey_fields in E.
    exists t'. split; [exact Ht' | destruct E as [_ [E _]]; congruence].
  - intros i1 i2 t1' t2' mu H1 H2 M1 M2.
    destruct (map_akey_nth _ _ _ _ H H1) as [t1 [G1 E1]]. destruct (map_akey_nth _ _ _ _ H H2) as [t2 [G2 E2]].
    apply akey_fields in E1. apply akey_fields in E2. apply (A4 i1 i2 t1 t2 mu); auto; [destruct E1 as [_ [E _]] | destruct E2 as [_ [E _]]]; congruence.
  - intros i1 i2 t1' t2' Hlt H1 H2 Hk Hm.
    destruct (map_akey_nth _ _ _ _ H H1) as [t1 [G1 E1]]. destruct (map_akey_nth _ _ _ _ H H2) as [t2 [G2 E2]].
    apply akey_fields in E1. apply akey_fields in E2. destruct E1 as [K1 [M1 _]]. destruct E2 as [K2 [M2 _]].
    rewrite <- M2. apply (A5 i1 i2 t1 t2); auto; congruence.
  - intros t' Hin. destruct (map_akey_In _ _ _ H Hin) as [t [Ht E]]. apply akey_fields in E.
    destruct E as [E _]. rewrite <- E. apply A6. exact Ht.
Qed.

Lemma nth_error_snoc_cases : forall T (l : list T) x j y, nth_error (l ++ [x]) j = Some y ->
  ((j < length l)%nat /\ nth_error l j = Some y) \/ (j = length l /\ y = x).
Proof.
  intros T l x j y H. destruct (Nat.lt_ge_cases j (length l)) as [L|L].
  - left. rewrite nth_error_app1 in H by exact L. auto.
  - right. rewrite nth_error_app2 in H by exact L.
    destruct (j - length l)%nat as [|n] eqn:E; cbn in H; [inversion H; subst; split; [lia | reflexivity] | destruct n; discriminate].
Qed.

Lemma ali_snoc : forall i mids0 trs ss t, ali i mids0 trs ss -> t_mid t = None -> t_mline t = None -> is_av (t_kind t) = true ->
  ali i mids0 (trs ++ [t]) ss.
Proof.
  intros i mids0 trs ss t [A1 A2 A3 A4 A5 A6] Hm Hl Hk. constructor.
  - intros x mu Hin Hx. apply in_app_or in Hin. destruct Hin as [Hin|[<-|[]]]; [apply A1; auto | congruence].
  - intros x Hin Hx. apply in_app_or in Hin. destruct Hin as [Hin|[<-|[]]]; [apply A2; auto | exact Hl].
  - intros j k mu Hj Hav Hor. destruct (A3 j k mu Hj Hav Hor) as [x [Hx Hxm]]. exists x. split; [apply in_or_app; left; exact Hx | exact Hxm].
  - intros i1 i2 t1 t2 mu H1 H2 M1 M2.
    destruct (nth_error_snoc_cases _ _ _ _ _ H1) as [[L1 G1]|[_ ->]]; [|congruence].
    destruct (nth_error_snoc_cases _ _ _ _ _ H2) as [[L2 G2]|[_ ->]]; [|congruence].
    exact (A4 i1 i2 t1 t2 mu G1 G2 M1 M2).
  - intros i1 i2 t1 t2 Hlt H1 H2 Hk12 M1.
    destruct (nth_error_snoc_cases _ _ _ _ _ H2) as [[L2 G2]|[_ ->]]; [|exact Hm].
    destruct (nth_error_snoc_cases _ _ _ _ _ H1) as [[L1 G1]|[E _]]; [|lia].
    exact (A5 i1 i2 t1 t2 Hlt G1 G2 Hk12 M1).
  - intros x Hin. apply in_app_or in Hin. destruct Hin as [Hin|[<-|[]]]; [apply A6; exact Hin | exact Hk].
Qed.

Lemma nth_error_replace : forall T (l1 : list T) a b l2 j y, nth_error (l1 ++ b :: l2) j = Some y ->
  (j = length l1 /\ y = b) \/ (j <> length l1 /\ nth_error (l1 ++ a :: l2) j = Some y).
Proof.
  intros T l1 a b l2 j y H. destruct (Nat.lt_trichotomy j (length l1)) as [L|[E|L]].
  - right. split; [lia|]. rewrite nth_error_app1 in * by exact L. exact H.
  - left. subst j. rewrite nth_error_split in H. inversion H. auto.
  - right. split; [lia|]. rewrite nth_error_app2 in * by lia.
    destruct (j - length l1)%nat as [|n] eqn:En; [lia|]. cbn [nth_error] in *. exact H.
Qed.

Lemma nth_error_mid_cases : forall T (l1 : list T) a l2 j y, nth_error (l1 ++ a :: l2) j = Some y ->
  ((j < length l1)%nat /\ In y l1) \/ (j = length l1 /\ y = a) \/ ((length l1 < j)%nat /\ In y l2).
Proof.
  intros T l1 a l2 j y H. destruct (Nat.lt_trichotomy j (length l1)) as [L|[E|L]].
  - left. split; [exact L|]. rewrite nth_error_app1 in H by exact L. eapply nth_error_In; eauto.
  - right. left. subst j. rewrite nth_error_split in H. inversion H. auto.
  - right. right. split; [exact L|]. rewrite nth_error_app2 in H by lia.
    destruct (j - length l1)%nat as [|n] eqn:En; [lia|]. cbn [nth_error] in H. eapply nth_error_In; eauto.
Qed.

Lemma In_mid_cases : forall T (l1 : list T) a l2 y, In y (l1 ++ a :: l2) -> In y l1 \/ y = a \/ In y l2.
Proof. intros T l1 a l2 y H. apply in_app_or in H. destruct H as [H|[H|H]]; auto. Qed.

Lemma In_mid_intro : forall T (l1 : list T) a l2 y, In y l1 \/ In y l2 -> In y (l1 ++ a :: l2).
Proof. intros T l1 a l2 y [H|H]; apply in_or_app; [left | right; right]; exact H. Qed.

(* having a transceiver for section i lets the loop counter advance *)
Lemma ali_advance : forall i mids0 trs ss k mu, ali i mids0 trs ss -> nth_error ss i = Some (k, mu) ->
  (exists t, In t trs /\ t_mid t = Some mu) -> ali (Datatypes.S i) mids0 trs ss.
Proof.
  intros i mids0 trs ss k mu [A1 A2 A3 A4 A5 A6] Hi Hex. constructor; auto.
  - intros t m Hin Hm. destruct (A1 t m Hin Hm) as [j [E1 [E2 E3]]]. exists j. split; [exact E1|]. split; [exact E2|].
    destruct E3; [left; lia | right; assumption].
  - intros j k' m Hj Hav [Hlt|Hin]; [|apply (A3 j k' m Hj Hav); right; exact Hin].
    destruct (Nat.eq_dec j i) as [->|Hne]; [rewrite Hi in Hj; inversion Hj; subst; exact Hex|].
    apply (A3 j k' m Hj Hav). left. lia.
Qed.

Definition cand (k mu : Z) (t : transceiver) : Prop := t_kind t = k /\ (t_mid t = None \/ t_mid t = Some mu).

Lemma media_match_cand : forall m t, media_match m t = true <-> cand (m_kind m) (m_mid m) t.
Proof.
  intros m t. unfold media_match, cand. rewrite andb_true_iff, Z.eqb_eq. split; intros [H1 H2]; (split; [exact H1|]).
  - destruct (t_mid t) as [x|]; [right; apply Z.eqb_eq in H2; congruence | left; reflexivity].
  - destruct H2 as [E|E]; rewrite E; [reflexivity | apply Z.eqb_refl].
Qed.

Lemma ali_step_av : forall i mids0 l1 t0 t3 l2 ss k mu,
  ali i mids0 (l1 ++ t0 :: l2) ss -> NoDup (map snd ss) -> nth_error ss i = Some (k, mu) -> is_av k = true ->
  cand k mu t0 -> (forall y, In y l1 -> ~ cand k mu y) ->
  t_kind t3 = k -> t_mid t3 = Some mu ->
  t_mline t3 = (match t_mid t0 with None => Some i | Some _ => t_mline t0 end) ->
  ali (Datatypes.S i) mids0 (l1 ++ t3 :: l2) ss.
Proof.
  intros i mids0 l1 t0 t3 l2 ss k mu A Hnd Hi Hav [Hk0 Hm0] Hl1 Hk3 Hm3 Hl3.
  destruct (t_mid t0) as [x|] eqn:Em0.
  - (* the section is already known to this transceiver: keys unchanged *)
    assert (x = mu) by (destruct Hm0 as [Hm0|Hm0]; congruence). subst x.
    assert (Ek : map akey (l1 ++ t0 :: l2) = map akey (l1 ++ t3 :: l2)).
    { rewrite !map_app. cbn [map]. f_equal. f_equal. unfold akey. congruence. }
    apply (ali_advance i mids0 _ ss k mu); [eapply ali_keys; eauto | exact Hi|].
    exists t3. split; [apply in_or_app; right; left; reflexivity | exact Hm3].
  - (* a transceiver without mid takes the section: mu is not yet used by any transceiver *)
    pose proof A as [A1 A2 A3 A4 A5 A6].
    assert (Hfresh : forall t, In t (l1 ++ t0 :: l2) -> t_mid t <> Some mu).
    { intros t Hin Hm. destruct (A1 t mu Hin Hm) as [j [E1 [E2 _]]].
      destruct (secs_nth_mid_inj _ _ _ _ _ _ Hnd E2 Hi) as [-> Ek].
      destruct (In_mid_cases _ _ _ _ _ Hin) as [H1|[->|H2]].
      - apply (Hl1 t H1). split; [exact Ek | right; exact Hm].
      - congruence.
      - apply In_nth_error in H2. destruct H2 as [n Hn].
        assert (Hpos : nth_error (l1 ++ t0 :: l2) (length l1 + Datatypes.S n) = Some t).
        { rewrite nth_error_app2 by lia. replace (length l1 + Datatypes.S n - length l1)%nat with (Datatypes.S n) by lia. exact Hn. }
        assert (Hn0 : t_mid t = None).
        { apply (A5 (length l1) (length l1 + Datatypes.S n)%nat t0 t); auto; [lia | apply nth_error_split | congruence]. }
        congruence. }
    constructor.
    + intros t m Hin Hm. destruct (In_mid_cases _ _ _ _ _ Hin) as [H1|[->|H2]].
      * destruct (A1 t m (In_mid_intro _ _ _ _ _ (or_introl H1)) Hm) as [j [E1 [E2 E3]]]. exists j. split; [exact E1|]. split; [exact E2|].
        destruct E3; [left; lia | right; assumption].
      * exists i. rewrite Hl3, Hk3. rewrite Hm3 in Hm. inversion Hm; subst m. split; [reflexivity|]. split; [exact Hi | left; lia].
      * destruct (A1 t m (In_mid_intro _ _ _ _ _ (or_intror H2)) Hm) as [j [E1 [E2 E3]]]. exists j. split; [exact E1|]. split; [exact E2|].
        destruct E3; [left; lia | right; assumption].
    + intros t Hin Hm. destruct (In_mid_cases _ _ _ _ _ Hin) as [H1|[->|H2]]; [|congruence|].
      * apply A2; [apply In_mid_intro; left; exact H1 | exact Hm].
      * apply A2; [apply In_mid_intro; right; exact H2 | exact Hm].
    + intros j k' m Hj Hav' Hor. destruct (Z.eq_dec m mu) as [->|Hne].
      * exists t3. split; [apply in_or_app; right; left; reflexivity | exact Hm3].
      * assert (Hor' : (j < i)%nat \/ In m mids0).
        { destruct Hor as [Hlt|Hin]; [|right; exact Hin]. left.
          destruct (Nat.eq_dec j i) as [->|Hji]; [rewrite Hi in Hj; inversion Hj; congruence | lia]. }
        destruct (A3 j k' m Hj Hav' Hor') as [t [Hin Hm]]. exists t. split; [|exact Hm].
        destruct (In_mid_cases _ _ _ _ _ Hin) as [H1|[->|H2]]; [apply In_mid_intro; left; exact H1 | congruence | apply In_mid_intro; right; exact H2].
    + intros i1 i2 t1 t2 m H1 H2 M1 M2.
      destruct (nth_error_replace _ l1 t0 t3 l2 _ _ H1) as [[E1 ->]|[N1 G1]];
        destruct (nth_error_replace _ l1 t0 t3 l2 _ _ H2) as [[E2 ->]|[N2 G2]].
      * congruence.
      * exfalso. rewrite Hm3 in M1. inversion M1; subst m. apply (Hfresh t2); [eapply nth_error_In; eauto | exact M2].
      * exfalso. rewrite Hm3 in M2. inversion M2; subst m. apply (Hfresh t1); [eapply nth_error_In; eauto | exact M1].
      * exact (A4 i1 i2 t1 t2 m G1 G2 M1 M2).
    + intros i1 i2 t1 t2 Hlt H1 H2 Hk12 M1.
      destruct (nth_error_replace _ l1 t0 t3 l2 _ _ H1) as [[E1 ->]|[N1 G1]]; [congruence|].
      destruct (nth_error_replace _ l1 t0 t3 l2 _ _ H2) as [[E2 ->]|[N2 G2]].
      * exfalso. subst i2. destruct (nth_error_mid_cases _ _ _ _ _ _ G1) as [[L Hin]|[[E _]|[L _]]]; [|lia|lia].
        apply (Hl1 t1 Hin). split; [congruence | left; exact M1].
      * exact (A5 i1 i2 t1 t2 Hlt G1 G2 Hk12 M1).
    + intros t Hin. destruct (In_mid_cases _ _ _ _ _ Hin) as [H1|[->|H2]].
      * apply A6. apply In_mid_intro. left. exact H1.
      * rewrite Hk3. exact Hav.
      * apply A6. apply In_mid_intro. right. exact H2.
Qed.

(* ---- one audio/video section of setRemoteDescription, in full --------------------------------------- *)
Lemma create_transceiver_tr : forall p d k h,
  (forall t, In t (p_trs p) -> has_tr (p_transports p) (t_transport t)) ->
  (forall s, p_sctp p = Some s -> has_tr (p_transports p) (s_transport s)) ->
  (forall i, has_tr (p_transports p) i -> has_tr (p_transports (create_transceiver p d k h)) i) /\
  (forall t, In t (p_trs (create_transceiver p d k h)) -> has_tr (p_transports (create_transceiver p d k h)) (t_transport t)).
Proof.
  intros p d k h W9 W10. unfold create_transceiver.
  match goal with |- context [match ?s with Some id => _ | None => _ end] => destruct s as [sid|] eqn:Es end.
  - cbn. split; [auto|]. intros t Hin. apply in_app_or in Hin. destruct Hin as [Hin|[<-|[]]]; [apply W9; exact Hin|].
    cbn. revert Es. destruct (p_policy p =? 2).
    + destruct (p_trs p) as [|t0 l] eqn:Etrs.
      * destruct (p_sctp p) as [s|] eqn:Esc; [|discriminate]. intro Es. inversion Es; subst. apply W10. reflexivity.
      * intro Es. inversion Es; subst. apply W9. left. reflexivity.
    + destruct (p_policy p =? 0); [|discriminate].
      destruct (find (fun t => t_kind t =? k) (p_trs p)) as [t0|] eqn:Ef; [|discriminate].
      intro Es. inversion Es; subst. apply W9. apply find_some in Ef. tauto.
  - cbn. split; [intros i Hi; apply has_tr_app; exact Hi|].
    intros t Hin. apply in_app_or in Hin. destruct Hin as [Hin|[<-|[]]]; [apply has_tr_app; apply W9; exact Hin|].
    cbn. apply has_tr_new.
Qed.

Lemma remote_av_full : forall T ty m i p0 p',
  remote_av T ty m i p0 = Ok p' ->
  (forall t, In t (p_trs p0) -> has_tr (p_transports p0) (t_transport t)) ->
  (forall s, p_sctp p0 = Some s -> has_tr (p_transports p0) (s_transport s)) ->
  exists base l1 t0 t3 l2,
    base = l1 ++ t0 :: l2 /\ p_trs p' = l1 ++ t3 :: l2 /\
    (base = p_trs p0 \/
     exists tn, base = p_trs p0 ++ [tn] /\ t_mid tn = None /\ t_mline tn = None /\ t_kind tn = m_kind m /\ t_preferred tn = []) /\
    (forall t, In t base -> has_tr (p_transports p') (t_transport t)) /\
    cand (m_kind m) (m_mid m) t0 /\ (forall y, In y l1 -> ~ cand (m_kind m) (m_mid m) y) /\
    t_kind t3 = m_kind m /\ t_mid t3 = Some (m_mid m) /\
    t_mline t3 = (match t_mid t0 with None => Some i | Some _ => t_mline t0 end) /\
    t_transport t3 = t_transport t0 /\ t_preferred t3 = t_preferred t0 /\
    p_sctp p' = p_sctp p0 /\ (forall id, has_tr (p_transports p0) id -> has_tr (p_transports p') id) /\
    p_seen p' = p_seen p0.
Proof.
  intros T ty m i p0 p' H W9 W10. unfold remote_av in H.
  destruct (locate m p0) as [p1 k] eqn:El. unfold locate in El.
  assert (G : exists base l1 t0 l2, p_trs p1 = base /\ base = l1 ++ t0 :: l2 /\ length l1 = k /\
             (base = p_trs p0 \/ exists tn, base = p_trs p0 ++ [tn] /\ t_mid tn = None /\ t_mline tn = None /\ t_kind tn = m_kind m /\ t_preferred tn = []) /\
             cand (m_kind m) (m_mid m) t0 /\ (forall y, In y l1 -> ~ cand (m_kind m) (m_mid m) y) /\
             (forall t, In t base -> has_tr (p_transports p1) (t_transport t)) /\
             (forall id, has_tr (p_transports p0) id -> has_tr (p_transports p1) id) /\
             p_sctp p1 = p_sctp p0 /\ p_seen p1 = p_seen p0).
  { destruct (find_idx (media_match m) (p_trs p0)) as [n|] eqn:E.
    - inversion El; subst p1 k. destruct (find_idx_split _ _ _ _ E) as [l1 [x [l2 [E1 [E2 [E3 E4]]]]]].
      exists (p_trs p0), l1, x, l2.
      split; [reflexivity|]. split; [exact E1|]. split; [exact E2|]. split; [left; reflexivity|].
      split; [apply media_match_cand; exact E3|].
      split; [intros y Hy Hc; apply media_match_cand in Hc; rewrite (E4 y Hy) in Hc; discriminate|].
      split; [exact W9|]. split; [auto|]. split; reflexivity.
    - inversion El; subst p1 k.
      destruct (create_transceiver_spec p0 RecvOnly (m_kind m) false) as [bd [id [E1 [E2 [E3 E4]]]]].
      destruct (create_transceiver_tr p0 RecvOnly (m_kind m) false W9 W10) as [T1 T2].
      eexists _, (p_trs p0), _, []. split; [exact E1|]. split; [reflexivity|]. split; [reflexivity|].
      split; [right; eexists; split; [reflexivity|]; cbn; auto|].
      split; [split; cbn; auto|].
      split; [intros y Hy Hc; apply media_match_cand in Hc; rewrite (find_idx_none _ _ _ E y Hy) in Hc; discriminate|].
      split; [intros t Hin; apply T2; rewrite E1; exact Hin|].
      split; [exact T1|]. unfold same_session in E4. tauto. }
  destruct G as [base [l1 [t0 [l2 [G1 [G2 [G3 [G4 [G5 [G6 [G7 [G8 [G9 G10]]]]]]]]]]]]].
  rewrite G1, G2 in H. rewrite <- G3 in H. rewrite nth_error_split in H.
  bind_inv H c0 Hc0. bind_inv H common Hcommon.
  destruct common as [|c common']; [discriminate|].
  destruct (m_dir m) as [md|] eqn:Emd; [|discriminate].
  inversion H; subst p'; clear H. rewrite upd_split.
  exists base, l1, t0. eexists. exists l2.
  split; [exact G2|]. split; [cbn; reflexivity|]. split; [exact G4|].
  split; [intros t Hin; cbn; apply remote_transport_roles_has; apply G7; exact Hin|].
  split; [exact G5|]. split; [exact G6|].
  destruct G5 as [Hk Hm].
  assert (Hgen : forall t1, t1 = match t_mid t0 with Some _ => t0 | None => set_mline i (set_mid (m_mid m) t0) end ->
                 t_kind t1 = m_kind m /\ t_mid t1 = Some (m_mid m) /\
                 t_mline t1 = match t_mid t0 with None => Some i | Some _ => t_mline t0 end /\
                 t_transport t1 = t_transport t0 /\ t_preferred t1 = t_preferred t0).
  { intros t1 ->. destruct (t_mid t0) as [x|] eqn:Emid; [|cbn; auto].
    destruct Hm as [Hm|Hm]; [congruence|]. repeat split; auto; congruence. }
  destruct (Hgen _ eq_refl) as [Q1 [Q2 [Q3 [Q4 Q5]]]].
  destruct (ty =? 1); cbn; repeat split; auto; intros id Hid; apply remote_transport_roles_has; apply G8; exact Hid.
Qed.

(* ---- the whole loop of setRemoteDescription ------------------------------------------------------------ *)
Definition app_unique (ss : list (Z * Z)) : Prop :=
  forall j1 j2 m1 m2, nth_error ss j1 = Some (2, m1) -> nth_error ss j2 = Some (2, m2) -> j1 = j2.

Record rinv (T : tables) (i : nat) (s0 : list (Z * Z)) (p : pc) (ss : list (Z * Z)) : Prop := mkRinv {
  ri_ali : ali i (map snd s0) (p_trs p) ss;
  ri_sctp_mid : forall s mu, p_sctp p = Some s -> s_mid s = Some mu -> In (2, mu) ss;
  ri_sctp_sec : forall j mu, nth_error ss j = Some (2, mu) -> ((j < i)%nat \/ In (2, mu) s0) ->
                  exists s, p_sctp p = Some s /\ s_mid s = Some mu;
  ri_tr : forall t, In t (p_trs p) -> has_tr (p_transports p) (t_transport t);
  ri_tr_sctp : forall s, p_sctp p = Some s -> has_tr (p_transports p) (s_transport s);
  ri_prefs : forall t, In t (p_trs p) -> prefs_valid T (t_kind t) (t_preferred t)
}.

Lemma rinv_seen : forall T i s0 p ss l, rinv T i s0 p ss -> rinv T i s0 (set_seen p l) ss.
Proof. intros T i s0 p ss l [A1 A2 A3 A4 A5 A6]. constructor; cbn; assumption. Qed.

Lemma rinv_av : forall T ty m i s0 p0 p' ss,
  rinv T i s0 p0 ss -> remote_av T ty m i p0 = Ok p' -> NoDup (map snd ss) ->
  nth_error ss i = Some (m_kind m, m_mid m) -> is_av (m_kind m) = true -> rinv T (Datatypes.S i) s0 p' ss.
Proof.
  intros T ty m i s0 p0 p' ss [A1 A2 A3 A4 A5 A6] H Hnd Hi Hav.
  destruct (remote_av_full _ _ _ _ _ _ H A4 A5) as
    [base [l1 [t0 [t3 [l2 [B1 [B2 [B3 [B4 [B5 [B6 [B7 [B8 [B9 [B10 [B11 [B12 [B13 B14]]]]]]]]]]]]]]]]]].
  assert (Abase : ali i (map snd s0) base ss).
  { destruct B3 as [->|[tn [-> [N1 [N2 [N3 N4]]]]]]; [exact A1|]. apply ali_snoc; auto. rewrite N3. exact Hav. }
  assert (Pbase : forall t, In t base -> prefs_valid T (t_kind t) (t_preferred t)).
  { destruct B3 as [->|[tn [-> [N1 [N2 [N3 N4]]]]]]; [exact A6|].
    intros t Hin. apply in_app_or in Hin. destruct Hin as [Hin|[<-|[]]]; [apply A6; exact Hin|]. rewrite N4. intros q []. }
  subst base. constructor.
  - rewrite B2. eapply ali_step_av; eauto.
  - rewrite B12. exact A2.
  - rewrite B12. intros j mu Hj [Hlt|Hin]; [|apply (A3 j mu Hj); right; exact Hin].
    destruct (Nat.eq_dec j i) as [->|Hne].
    + rewrite Hi in Hj. inversion Hj as [[E1 E2]]. rewrite E1 in Hav. discriminate.
    + apply (A3 j mu Hj). left. lia.
  - rewrite B2. intros t Hin. destruct (In_mid_cases _ _ _ _ _ Hin) as [H1|[->|H2]].
    + apply B4. apply In_mid_intro. left. exact H1.
    + rewrite B10. apply B4. apply in_or_app. right. left. reflexivity.
    + apply B4. apply In_mid_intro. right. exact H2.
  - rewrite B12. intros s Hs. apply B13. apply A5. exact Hs.
  - rewrite B2. intros t Hin. destruct (In_mid_cases _ _ _ _ _ Hin) as [H1|[->|H2]].
    + apply Pbase. apply In_mid_intro. left. exact H1.
    + rewrite B11, B7. destruct B5 as [K0 _]. rewrite <- K0. apply Pbase. apply in_or_app. right. left. reflexivity.
    + apply Pbase. apply In_mid_intro. right. exact H2.
Qed.

Lemma create_sctp_tr : forall p,
  (forall t, In t (p_trs p) -> has_tr (p_transports p) (t_transport t)) ->
  (forall i, has_tr (p_transports p) i -> has_tr (p_transports (create_sctp p)) i) /\
  (forall s', p_sctp (create_sctp p) = Some s' -> has_tr (p_transports (create_sctp p)) (s_transport s')).
Proof.
  intros p W9. unfold create_sctp. destruct (if p_policy p =? 2 then p_trs p else []) as [|t0 l] eqn:El.
  - cbn. split; [intros i Hi; apply has_tr_app; exact Hi|]. intros s' Hs'. inversion Hs'; subst. cbn. apply has_tr_new.
  - cbn. split; [auto|]. intros s' Hs'. inversion Hs'; subst. cbn. apply W9.
    destruct (p_policy p =? 2); [rewrite El; left; reflexivity | discriminate].
Qed.

Lemma rinv_app : forall T ty m i s0 p0 p' ss,
  rinv T i s0 p0 ss -> remote_app ty m i p0 = Ok p' -> app_unique ss ->
  nth_error ss i = Some (2, m_mid m) -> rinv T (Datatypes.S i) s0 p' ss.
Proof.
  intros T ty m i s0 p0 p' ss [A1 A2 A3 A4 A5 A6] H Hau Hi. unfold remote_app in H.
  set (p1 := match p_sctp p0 with Some _ => p0 | None => create_sctp p0 end) in *.
  assert (G : p_trs p1 = p_trs p0 /\ (forall id, has_tr (p_transports p0) id -> has_tr (p_transports p1) id) /\
              (forall s', p_sctp p1 = Some s' -> has_tr (p_transports p1) (s_transport s')) /\
              (forall s' mu, p_sctp p1 = Some s' -> s_mid s' = Some mu -> p_sctp p0 = Some s')).
  { subst p1. destruct (p_sctp p0) as [s|] eqn:Es.
    - split; [reflexivity|]. split; [auto|]. split; [rewrite Es; exact A5|]. intros s' mu E _. congruence.
    - destruct (create_sctp_spec p0) as [E1 [_ [_ [s [E4 E5]]]]]. destruct (create_sctp_tr p0 A4) as [T1 T2].
      split; [exact E1|]. split; [exact T1|]. split; [exact T2|]. intros s' mu E Em. rewrite E4 in E. inversion E; subst. congruence. }
  destruct G as [G1 [G2 [G3 G4]]].
  destruct (p_sctp p1) as [s|] eqn:Es1; [|discriminate]. inversion H; subst p'; clear H.
  assert (Hali : ali (Datatypes.S i) (map snd s0) (p_trs p0) ss) by (eapply ali_skip; eauto).
  destruct (s_mid s) as [x|] eqn:Ex.
  - (* sctp already has a mid: by uniqueness of the application section it is this one *)
    pose proof (G4 s x eq_refl Ex) as Hs0. pose proof (A2 s x Hs0 Ex) as Hin.
    apply In_nth_error in Hin. destruct Hin as [j' Hj']. pose proof (Hau _ _ _ _ Hj' Hi) as E. subst j'.
    rewrite Hi in Hj'. inversion Hj' as [E]. constructor; cbn; rewrite ?G1, ?Es1; auto.
    + intros s' mu Hs' Hm. inversion Hs'; subst s'. rewrite Ex in Hm. inversion Hm; subst mu. rewrite E. eapply nth_error_In; eauto.
    + intros j mu Hj Hor. destruct (Nat.eq_dec j i) as [->|Hne].
      * rewrite Hi in Hj. inversion Hj; subst mu. exists s. split; [reflexivity | congruence].
      * assert (Hor' : (j < i)%nat \/ In (2, mu) s0) by (destruct Hor; [left; lia | right; assumption]).
        destruct (A3 j mu Hj Hor') as [s' [Hs' Hm']]. rewrite Hs0 in Hs'. inversion Hs'; subst s'. exists s. auto.
    + intros t Hin. apply remote_transport_roles_has. apply G2. apply A4. exact Hin.
    + intros s' Hs'. inversion Hs'; subst s'. apply remote_transport_roles_has. apply G3. reflexivity.
  - constructor; cbn; rewrite ?G1; auto.
    + intros s' mu Hs' Hm. inversion Hs'; subst s'. cbn in Hm. inversion Hm; subst mu. eapply nth_error_In; eauto.
    + intros j mu Hj Hor. destruct (Nat.eq_dec j i) as [->|Hne].
      * rewrite Hi in Hj. inversion Hj; subst mu. eexists. split; reflexivity.
      * exfalso. assert (Hor' : (j < i)%nat \/ In (2, mu) s0) by (destruct Hor; [left; lia | right; assumption]).
        destruct (A3 j mu Hj Hor') as [s' [Hs' Hm']]. subst p1. rewrite Hs' in Es1. inversion Es1; subst s'. congruence.
    + intros t Hin. apply remote_transport_roles_has. apply G2. apply A4. exact Hin.
    + intros s' Hs'. inversion Hs'; subst s'. cbn. apply remote_transport_roles_has. apply G3. reflexivity.
Qed.

Lemma remote_media_rinv : forall T ty s0 ss ms i p p',
  remote_media T ty ms i p = Ok p' -> NoDup (map snd ss) -> app_unique ss ->
  (forall j m, nth_error ms j = Some m -> nth_error ss (i + j) = Some (m_kind m, m_mid m)) ->
  rinv T i s0 p ss -> rinv T (i + length ms) s0 p' ss.
Proof.
  intros T ty s0 ss. induction ms as [|m ms IH]; intros i p p' H Hnd Hau Hss R; cbn [remote_media] in H.
  - inversion H; subst. cbn [length]. rewrite Nat.add_0_r. exact R.
  - pose proof (Hss O m eq_refl) as Hi. rewrite Nat.add_0_r in Hi.
    assert (Hss' : forall j x, nth_error ms j = Some x -> nth_error ss (Datatypes.S i + j) = Some (m_kind x, m_mid x)).
    { intros j x Hj. specialize (Hss (Datatypes.S j) x Hj). rewrite Nat.add_succ_r in Hss. exact Hss. }
    cbn [length]. rewrite Nat.add_succ_r. change (Datatypes.S (i + length ms)) with (Datatypes.S i + length ms)%nat.
    pose proof (rinv_seen _ _ _ _ _ (sadd (m_mid m) (p_seen p)) R) as R0.
    destruct (is_av (m_kind m)) eqn:Eav.
    + bind_inv H p1 Hp1. apply (IH _ _ _ H Hnd Hau Hss'). eapply rinv_av; eauto.
    + destruct (m_kind m =? 2) eqn:E2.
      * apply Z.eqb_eq in E2. rewrite E2 in Hi. bind_inv H p1 Hp1. apply (IH _ _ _ H Hnd Hau Hss'). eapply rinv_app; eauto.
      * apply (IH _ _ _ H Hnd Hau Hss'). destruct R0 as [A1 A2 A3 A4 A5 A6]. constructor; auto.
        -- eapply ali_skip; eauto.
        -- intros j mu Hj Hor. destruct (Nat.eq_dec j i) as [->|Hne].
           ++ rewrite Hi in Hj. inversion Hj as [[E E']]. rewrite E in E2. discriminate.
           ++ apply (A3 j mu Hj). destruct Hor; [left; lia | right; assumption].
Qed.
