(* Well-formedness of a pair of peer connections along a session, and the proof that
   an offer/answer exchange between well-formed connections returns Ok (C03, layer 2). *)
From Coq Require Import ZArith List Bool Lia.
From AV Require Import Model.Nego Proof.NegoP Proof.NegoExP.
Import ListNotations.
Local Open Scope Z_scope.

(* ---- lists ---------------------------------------------------------------------------- *)
Lemma find_idx_unique : forall T (f : T -> bool) l k x, nth_error l k = Some x -> f x = true ->
  (forall j y, nth_error l j = Some y -> f y = true -> j = k) -> find_idx f l = Some k.
Proof.
  induction l as [|a l IH]; intros k x Hk Hf Hu; [destruct k; discriminate|].
  cbn [find_idx]. destruct (f a) eqn:Ea.
  - f_equal. apply (Hu O a); auto.
  - destruct k as [|k]; [cbn in Hk; inversion Hk; subst; congruence|].
    cbn [nth_error] in Hk. rewrite (IH k x Hk Hf); [reflexivity|].
    intros j y Hj Hy. assert (E : S j = S k) by (apply (Hu (S j) y); auto). lia.
Qed.

Lemma find_idx_nth : forall T (f : T -> bool) l k, find_idx f l = Some k ->
  exists x, nth_error l k = Some x /\ f x = true /\ forall j y, (j < k)%nat -> nth_error l j = Some y -> f y = false.
Proof.
  intros T f l k H. destruct (find_idx_split _ _ _ _ H) as [l1 [x [l2 [E1 [E2 [E3 E4]]]]]]. subst l k.
  exists x. split; [apply nth_error_split|]. split; [exact E3|].
  intros j y Hj Hy. apply E4. rewrite nth_error_app1 in Hy by exact Hj. eapply nth_error_In; eauto.
Qed.

Lemma find_unique : forall T (f : T -> bool) l k x, nth_error l k = Some x -> f x = true ->
  (forall j y, nth_error l j = Some y -> f y = true -> j = k) -> find f l = Some x.
Proof.
  induction l as [|a l IH]; intros k x Hk Hf Hu; [destruct k; discriminate|].
  cbn [find]. destruct (f a) eqn:Ea.
  - assert (E : O = k) by (apply (Hu O a); auto). subst k. cbn in Hk. congruence.
  - destruct k as [|k]; [cbn in Hk; inversion Hk; subst; congruence|].
    cbn [nth_error] in Hk. apply (IH k x Hk Hf).
    intros j y Hj Hy. assert (E : S j = S k) by (apply (Hu (S j) y); auto). lia.
Qed.

Lemma nth_error_upd : forall T (g : T -> T) l k j,
  nth_error (upd k g l) j = if Nat.eqb j k then option_map g (nth_error l j) else nth_error l j.
Proof.
  induction l as [|a l IH]; intros k j; cbn [upd].
  - destruct k; cbn [upd]; destruct j; cbn [nth_error option_map Nat.eqb]; try reflexivity;
      match goal with |- context [Nat.eqb ?a ?b] => destruct (Nat.eqb a b) end; reflexivity.
  - destruct k as [|k]; destruct j as [|j]; cbn [nth_error Nat.eqb option_map]; auto. apply IH.
Qed.

Lemma upd_length : forall T (g : T -> T) l k, length (upd k g l) = length l.
Proof. induction l as [|a l IH]; intros k; destruct k; cbn [upd length]; auto. Qed.

Lemma upd_id : forall T (g : T -> T) l k, (forall x, nth_error l k = Some x -> g x = x) -> upd k g l = l.
Proof.
  induction l as [|a l IH]; intros k H; [destruct k; reflexivity|].
  destruct k as [|k]; cbn [upd]; [rewrite (H a eq_refl); reflexivity|]. rewrite IH; [reflexivity|]. intros x Hx. apply H. exact Hx.
Qed.

Lemma In_nth_error_ex : forall T (l : list T) x, In x l -> exists k, nth_error l k = Some x.
Proof. intros. apply In_nth_error. assumption. Qed.

Lemma NoDup_nth_error_inj : forall T (l : list T) i j x, NoDup l -> nth_error l i = Some x -> nth_error l j = Some x -> i = j.
Proof.
  intros T l i j x Hnd Hi Hj. apply (proj1 (NoDup_nth_error l) Hnd).
  - apply nth_error_Some. congruence.
  - congruence.
Qed.

(* ---- sections and alignment --------------------------------------------------------------- *)
Definition secs_of (ms : list media) : list (Z * Z) := map (fun m => (m_kind m, m_mid m)) ms.

Lemma secs_of_mids : forall ms, map snd (secs_of ms) = map m_mid ms.
Proof. intro ms. unfold secs_of. rewrite map_map. reflexivity. Qed.

Lemma secs_of_app : forall a b, secs_of (a ++ b) = secs_of a ++ secs_of b.
Proof. intros. unfold secs_of. apply map_app. Qed.

Lemma secs_nth_mid_inj : forall (ss : list (Z * Z)) i j k1 k2 mu, NoDup (map snd ss) ->
  nth_error ss i = Some (k1, mu) -> nth_error ss j = Some (k2, mu) -> i = j /\ k1 = k2.
Proof.
  intros ss i j k1 k2 mu Hnd Hi Hj.
  assert (E : i = j).
  { apply (NoDup_nth_error_inj _ (map snd ss) i j mu Hnd); rewrite nth_error_map; [rewrite Hi | rewrite Hj]; reflexivity. }
  subst j. split; [reflexivity | congruence].
Qed.

(* the transceivers of a connection agree with a list of (kind, mid) sections *)
Record aligned (trs : list transceiver) (ss : list (Z * Z)) : Prop := mkAligned {
  al_mid : forall t mu, In t trs -> t_mid t = Some mu ->
             exists j, t_mline t = Some j /\ nth_error ss j = Some (t_kind t, mu);
  al_none : forall t, In t trs -> t_mid t = None -> t_mline t = None;
  al_sec : forall j k mu, nth_error ss j = Some (k, mu) -> is_av k = true -> exists t, In t trs /\ t_mid t = Some mu;
  al_uniq : forall i1 i2 t1 t2 mu, nth_error trs i1 = Some t1 -> nth_error trs i2 = Some t2 ->
              t_mid t1 = Some mu -> t_mid t2 = Some mu -> i1 = i2;
  al_ord : forall i1 i2 t1 t2, (i1 < i2)%nat -> nth_error trs i1 = Some t1 -> nth_error trs i2 = Some t2 ->
             t_kind t1 = t_kind t2 -> t_mid t1 = None -> t_mid t2 = None;
  al_kind : forall t, In t trs -> is_av (t_kind t) = true
}.

(* alignment only looks at kind, mid and m-line index *)
Definition akey (t : transceiver) := (t_kind t, t_mid t, t_mline t).

Lemma akey_fields : forall t t', akey t = akey t' -> t_kind t = t_kind t' /\ t_mid t = t_mid t' /\ t_mline t = t_mline t'.
Proof. intros t t' H. unfold akey in H. inversion H. auto. Qed.

Lemma map_akey_nth : forall trs trs' i t', map akey trs = map akey trs' -> nth_error trs' i = Some t' ->
  exists t, nth_error trs i = Some t /\ akey t = akey t'.
Proof.
  intros trs trs' i t' H Hi.
  assert (E : nth_error (map akey trs) i = Some (akey t')) by (rewrite H, nth_error_map, Hi; reflexivity).
  rewrite nth_error_map in E. destruct (nth_error trs i) as [t|]; [|discriminate].
  exists t. split; [reflexivity|]. cbn in E. congruence.
Qed.

Lemma map_akey_In : forall trs trs' t', map akey trs = map akey trs' -> In t' trs' -> exists t, In t trs /\ akey t = akey t'.
Proof.
  intros trs trs' t' H Hin. apply In_nth_error in Hin. destruct Hin as [i Hi].
  destruct (map_akey_nth _ _ _ _ H Hi) as [t [Ht E]]. exists t. split; [eapply nth_error_In; eauto | exact E].
Qed.

Lemma aligned_keys : forall trs trs' ss, map akey trs = map akey trs' -> aligned trs ss -> aligned trs' ss.
Proof.
  intros trs trs' ss H [A1 A2 A3 A4 A5 A6]. constructor.
  - intros t' mu Hin Hm. destruct (map_akey_In _ _ _ H Hin) as [t [Ht E]]. apply akey_fields in E.
    destruct E as [E1 [E2 E3]]. rewrite <- E1, <- E3. apply A1; [exact Ht | congruence].
  - intros t' Hin Hm. destruct (map_akey_In _ _ _ H Hin) as [t [Ht E]]. apply akey_fields in E.
    destruct E as [E1 [E2 E3]]. rewrite <- E3. apply A2; [exact Ht | congruence].
  - intros j k mu Hj Hav. destruct (A3 j k mu Hj Hav) as [t [Ht Hm]].
    symmetry in H. destruct (map_akey_In _ _ _ H Ht) as [t' [Ht' E]]. apply akey_fields in E.
    exists t'. split; [exact Ht' | destruct E as [_ [E _]]; congruence].
  - intros i1 i2 t1' t2' mu H1 H2 M1 M2.
    destruct (map_akey_nth _ _ _ _ H H1) as [t1 [G1 E1]]. destruct (map_akey_nth _ _ _ _ H H2) as [t2 [G2 E2]].
    apply akey_fields in E1. apply akey_fields in E2. apply (A4 i1 i2 t1 t2 mu); auto; [destruct E1 as [_ [E _]] | destruct E2 as [_ [E _]]]; congruence.
  - intros i1 i2 t1' t2' Hlt H1 H2 Hk Hm.
    destruct (map_akey_nth _ _ _ _ H H1) as [t1 [G1 E1]]. destruct (map_akey_nth _ _ _ _ H H2) as [t2 [G2 E2]].
    apply akey_fields in E1. apply akey_fields in E2. destruct E1 as [K1 [M1 _]]. destruct E2 as [K2 [M2 _]].
    rewrite <- M2. apply (A5 i1 i2 t1 t2); auto; congruence.
  - intros t' Hin. destruct (map_akey_In _ _ _ H Hin) as [t [Ht E]]. apply akey_fields in E.
    destruct E as [E _]. rewrite <- E. apply A6. exact Ht.
Qed.

(* appending a transceiver without mid keeps the alignment *)
Lemma aligned_snoc : forall trs ss t, aligned trs ss -> t_mid t = None -> t_mline t = None -> is_av (t_kind t) = true ->
  aligned (trs ++ [t]) ss.
Proof.
  intros trs ss t [A1 A2 A3 A4 A5 A6] Hm Hl Hk. constructor.
  - intros x mu Hin Hx. apply in_app_or in Hin. destruct Hin as [Hin|[<-|[]]]; [apply A1; auto | congruence].
  - intros x Hin Hx. apply in_app_or in Hin. destruct Hin as [Hin|[<-|[]]]; [apply A2; auto | exact Hl].
  - intros j k mu Hj Hav. destruct (A3 j k mu Hj Hav) as [x [Hx Hxm]]. exists x. split; [apply in_or_app; left; exact Hx | exact Hxm].
  - intros i1 i2 t1 t2 mu H1 H2 M1 M2.
    assert (L1 : (i1 < length trs)%nat).
    { destruct (Nat.lt_ge_cases i1 (length trs)) as [L|L]; [exact L|]. rewrite nth_error_app2 in H1 by exact L.
      destruct (i1 - length trs)%nat as [|n]; cbn in H1; [inversion H1; subst; congruence | destruct n; discriminate]. }
    assert (L2 : (i2 < length trs)%nat).
    { destruct (Nat.lt_ge_cases i2 (length trs)) as [L|L]; [exact L|]. rewrite nth_error_app2 in H2 by exact L.
      destruct (i2 - length trs)%nat as [|n]; cbn in H2; [inversion H2; subst; congruence | destruct n; discriminate]. }
    rewrite nth_error_app1 in H1 by exact L1. rewrite nth_error_app1 in H2 by exact L2. exact (A4 i1 i2 t1 t2 mu H1 H2 M1 M2).
  - intros i1 i2 t1 t2 Hlt H1 H2 Hk12 M1.
    destruct (Nat.lt_ge_cases i2 (length trs)) as [L|L].
    + rewrite nth_error_app1 in H2 by exact L. rewrite nth_error_app1 in H1 by lia. exact (A5 i1 i2 t1 t2 Hlt H1 H2 Hk12 M1).
    + rewrite nth_error_app2 in H2 by exact L.
      destruct (i2 - length trs)%nat as [|n]; cbn in H2; [inversion H2; subst; exact Hm | destruct n; discriminate].
  - intros x Hin. apply in_app_or in Hin. destruct Hin as [Hin|[<-|[]]]; [apply A6; exact Hin | exact Hk].
Qed.

(* ---- transports --------------------------------------------------------------------------------- *)
Definition has_tr (l : list transport) (id : Z) : Prop := exists tr, tr_get l id = Some tr.

Lemma has_tr_app : forall l l' id, has_tr l id -> has_tr (l ++ l') id.
Proof. intros l l' id [tr H]. exists tr. unfold tr_get in *. rewrite find_app, H. reflexivity. Qed.

Lemma has_tr_new : forall l id r a b c, has_tr (l ++ [mkTransport id r a b c]) id.
Proof.
  intros l id r a b c. unfold has_tr, tr_get. rewrite find_app.
  destruct (find (fun t => tr_id t =? id) l) as [x|]; [eexists; reflexivity|].
  cbn. rewrite Z.eqb_refl. eexists; reflexivity.
Qed.

Lemma has_tr_map : forall (f : transport -> transport) l id, (forall t, tr_id (f t) = tr_id t) -> has_tr l id -> has_tr (map f l) id.
Proof.
  intros f l id Hf [tr H]. unfold has_tr, tr_get in *. induction l as [|a l IH]; cbn [map find] in *; [discriminate|].
  rewrite Hf. destruct (tr_id a =? id); [eexists; reflexivity | apply IH; exact H].
Qed.

Lemma has_tr_upd : forall l id id' f, (forall t, tr_id (f t) = tr_id t) -> has_tr l id -> has_tr (tr_upd l id' f) id.
Proof.
  intros l id id' f Hf H. unfold tr_upd. apply has_tr_map; [|exact H].
  intro t. destruct (tr_id t =? id'); [apply Hf | reflexivity].
Qed.

Lemma tr_set_role_id : forall r t, tr_id (tr_set_role r t) = tr_id t. Proof. reflexivity. Qed.
Lemma tr_set_ice_id : forall c t, tr_id (tr_set_ice c t) = tr_id t.
Proof. intros c t. unfold tr_set_ice. destruct (tr_role_set t); reflexivity. Qed.
Lemma tr_kill_id : forall t, tr_id (tr_kill t) = tr_id t. Proof. reflexivity. Qed.

Lemma remote_transport_roles_has : forall ty m id' l id, has_tr l id -> has_tr (remote_transport_roles ty m id' l) id.
Proof.
  intros ty m id' l id H. unfold remote_transport_roles.
  repeat match goal with |- context [if ?c then _ else _] => destruct c end;
    repeat (apply has_tr_upd; [first [exact (tr_set_role_id _) | exact (tr_set_ice_id _)]|]); exact H.
Qed.

(* ---- well-formed connection ------------------------------------------------------------------------- *)
Definition kinds_ok (ss : list (Z * Z)) : Prop := forall s, In s ss -> is_av (fst s) = true \/ fst s = 2.

Definition prefs_valid (T : tables) (kind : Z) (prefs : list cap) : Prop :=
  forall p, In p prefs -> existsb (cap_eqb p) (get_capabilities T kind) = true.

Definition S (p : pc) : list (Z * Z) := sections (local_description p).

Record wf (T : tables) (p : pc) : Prop := mkWf {
  wf_state : p_state p = Stable;
  wf_secs : sections (remote_description p) = S p;
  wf_nodup : NoDup (map snd (S p));
  wf_seen : incl (map snd (S p)) (p_seen p);
  wf_kinds : kinds_ok (S p);
  wf_al : aligned (p_trs p) (S p);
  wf_sctp_sec : forall mu, In (2, mu) (S p) -> exists s, p_sctp p = Some s /\ s_mid s = Some mu;
  wf_sctp_mid : forall s mu, p_sctp p = Some s -> s_mid s = Some mu -> In (2, mu) (S p);
  wf_tr : forall t, In t (p_trs p) -> has_tr (p_transports p) (t_transport t);
  wf_tr_sctp : forall s, p_sctp p = Some s -> has_tr (p_transports p) (s_transport s);
  wf_prefs : forall t, In t (p_trs p) -> prefs_valid T (t_kind t) (t_preferred t)
}.

Lemma wf_init : forall T pol, wf T (init_pc pol).
Proof.
  intros T pol. constructor; cbn; try reflexivity; try (intros; contradiction); try discriminate.
  - constructor.
  - intros x [].
  - intros s [].
  - constructor; cbn; intros; try contradiction; try discriminate.
    + destruct j; discriminate.
    + destruct i1; discriminate.
    + destruct i1; discriminate.
Qed.

(* the parts of wf that talk about one transceiver *)
Definition tinfo (t : transceiver) := (akey t, t_transport t, t_preferred t).

Lemma tinfo_fields : forall t t', tinfo t = tinfo t' -> akey t = akey t' /\ t_transport t = t_transport t' /\ t_preferred t = t_preferred t'.
Proof.
  intros t t' H. unfold tinfo in H.
  pose proof (f_equal (fun x => fst (fst x)) H) as E1. pose proof (f_equal (fun x => snd (fst x)) H) as E2.
  pose proof (f_equal snd H) as E3. cbn [fst snd] in E1, E2, E3. auto.
Qed.

Lemma map_upd_pres : forall A B (f : A -> B) (g : A -> A) l k, (forall x, f (g x) = f x) -> map f (upd k g l) = map f l.
Proof.
  induction l as [|a l IH]; intros k H; destruct k; cbn [upd map]; auto; [rewrite H | rewrite IH]; auto.
Qed.

Lemma map_tinfo_akey : forall trs trs', map tinfo trs = map tinfo trs' -> map akey trs = map akey trs'.
Proof.
  intros trs trs' H. assert (E : forall l, map akey l = map (fun x => fst (fst x)) (map tinfo l)).
  { intro l. rewrite map_map. reflexivity. }
  rewrite (E trs), (E trs'), H. reflexivity.
Qed.

Lemma map_tinfo_In : forall trs trs' t', map tinfo trs = map tinfo trs' -> In t' trs' -> exists t, In t trs /\ tinfo t = tinfo t'.
Proof.
  intros trs trs' t' H Hin. apply In_nth_error in Hin. destruct Hin as [i Hi].
  assert (E : nth_error (map tinfo trs) i = Some (tinfo t')) by (rewrite H, nth_error_map, Hi; reflexivity).
  rewrite nth_error_map in E. destruct (nth_error trs i) as [t|] eqn:Et; [|discriminate].
  exists t. split; [eapply nth_error_In; eauto | cbn in E; congruence].
Qed.

(* a connection that differs only in fields the invariant does not look at *)
Lemma wf_transfer : forall T p q,
  wf T p -> same_descs p q -> p_seen q = p_seen p -> map tinfo (p_trs q) = map tinfo (p_trs p) ->
  p_sctp q = p_sctp p -> (forall id, has_tr (p_transports p) id -> has_tr (p_transports q) id) -> wf T q.
Proof.
  intros T p q W Hd Hs Ht Hsc Htr. destruct W as [W1 W2 W3 W4 W5 W6 W7 W8 W9 W10 W11].
  assert (ES : S q = S p).
  { unfold S, local_description. destruct Hd as [E1 [_ [E3 _]]]. rewrite E1, E3. reflexivity. }
  assert (ER : remote_description q = remote_description p).
  { unfold remote_description. destruct Hd as [_ [E2 [_ [E4 _]]]]. rewrite E2, E4. reflexivity. }
  constructor; rewrite ?ES, ?ER, ?Hs, ?Hsc.
  - destruct Hd as [_ [_ [_ [_ E]]]]. congruence.
  - exact W2.
  - exact W3.
  - exact W4.
  - exact W5.
  - eapply aligned_keys; [|exact W6]. symmetry. apply map_tinfo_akey. exact Ht.
  - exact W7.
  - exact W8.
  - intros t' Hin. destruct (map_tinfo_In _ _ _ (eq_sym Ht) Hin) as [t [Hin' E]]. apply tinfo_fields in E.
    destruct E as [_ [E _]]. rewrite <- E. apply Htr. apply W9. exact Hin'.
  - intros s Hs'. apply Htr. apply W10. exact Hs'.
  - intros t' Hin. destruct (map_tinfo_In _ _ _ (eq_sym Ht) Hin) as [t [Hin' E]]. apply tinfo_fields in E.
    destruct E as [Ek [_ Ep]]. apply akey_fields in Ek. destruct Ek as [Ek _]. rewrite <- Ek, <- Ep. apply W11. exact Hin'.
Qed.

(* ---- configuration calls keep a connection well-formed --------------------------------------------- *)
Lemma S_same : forall p q, same_descs p q -> S q = S p /\ remote_description q = remote_description p.
Proof.
  intros p q [E1 [E2 [E3 [E4 _]]]]. unfold S, local_description, remote_description. rewrite E1, E2, E3, E4. auto.
Qed.

Lemma wf_create_transceiver : forall T p d k h, wf T p -> is_av k = true -> wf T (create_transceiver p d k h).
Proof.
  intros T p d k h W Hk. pose proof W as [W1 W2 W3 W4 W5 W6 W7 W8 W9 W10 W11].
  destruct (create_transceiver_spec p d k h) as [bd [id [E1 [E2 [E3 E4]]]]].
  destruct (S_same _ _ (same_session_descs _ _ E4)) as [ES ER].
  assert (Htr : (forall i, has_tr (p_transports p) i -> has_tr (p_transports (create_transceiver p d k h)) i) /\
                forall t, In t (p_trs (create_transceiver p d k h)) -> has_tr (p_transports (create_transceiver p d k h)) (t_transport t)).
  { unfold create_transceiver.
    match goal with |- context [match ?s with Some id => _ | None => _ end] => destruct s as [sid|] eqn:Es end.
    - cbn. split; [auto|]. intros t Hin. apply in_app_or in Hin. destruct Hin as [Hin|[<-|[]]]; [apply W9; exact Hin|].
      cbn. revert Es. destruct (p_policy p =? 2).
      + destruct (p_trs p) as [|t0 l] eqn:Etrs.
        * destruct (p_sctp p) as [s|] eqn:Esc; [|discriminate]. intro Es. inversion Es; subst. apply W10. reflexivity.
        * intro Es. inversion Es; subst. apply W9. left. reflexivity.
      + destruct (p_policy p =? 0); [|discriminate].
        destruct (find (fun t => t_kind t =? k) (p_trs p)) as [t0|] eqn:Ef; [|discriminate].
        intro Es. inversion Es; subst. apply W9. apply find_some in Ef. tauto.
    - cbn. split; [intros i Hi; apply has_tr_app; exact Hi|].
      intros t Hin. apply in_app_or in Hin. destruct Hin as [Hin|[<-|[]]]; [apply has_tr_app; apply W9; exact Hin|].
      cbn. apply has_tr_new. }
  destruct Htr as [Htr1 Htr2].
  destruct E4 as [F1 [F2 [F3 [F4 [F5 [F6 F7]]]]]].
  constructor; rewrite ?ES, ?ER, ?E1, ?E2, ?F1.
  - congruence.
  - exact W2.
  - exact W3.
  - exact W4.
  - exact W5.
  - apply aligned_snoc; auto.
  - exact W7.
  - exact W8.
  - intros t Hin. apply Htr2. rewrite E1. exact Hin.
  - intros s Hs. apply Htr1. apply W10. exact Hs.
  - intros t Hin. apply in_app_or in Hin. destruct Hin as [Hin|[<-|[]]]; [apply W11; exact Hin|].
    cbn. intros q [].
Qed.

Lemma wf_create_sctp : forall T p, wf T p -> p_sctp p = None -> wf T (create_sctp p).
Proof.
  intros T p W Hn. pose proof W as [W1 W2 W3 W4 W5 W6 W7 W8 W9 W10 W11].
  destruct (create_sctp_spec p) as [E1 [E2 [E3 [s [E4 E5]]]]].
  destruct (S_same _ _ (same_session_descs _ _ E3)) as [ES ER].
  assert (Htr : (forall i, has_tr (p_transports p) i -> has_tr (p_transports (create_sctp p)) i) /\
                forall s', p_sctp (create_sctp p) = Some s' -> has_tr (p_transports (create_sctp p)) (s_transport s')).
  { unfold create_sctp. destruct (if p_policy p =? 2 then p_trs p else []) as [|t0 l] eqn:El.
    - cbn. split; [intros i Hi; apply has_tr_app; exact Hi|]. intros s' Hs'. inversion Hs'; subst. cbn. apply has_tr_new.
    - cbn. split; [auto|]. intros s' Hs'. inversion Hs'; subst. cbn. apply W9.
      destruct (p_policy p =? 2); [rewrite El; left; reflexivity | discriminate]. }
  destruct Htr as [Htr1 Htr2]. destruct E3 as [F1 [F2 [F3 [F4 [F5 [F6 F7]]]]]].
  constructor; rewrite ?ES, ?ER, ?E1, ?F1.
  - congruence.
  - exact W2.
  - exact W3.
  - exact W4.
  - exact W5.
  - exact W6.
  - intros mu Hmu. destruct (W7 mu Hmu) as [s0 [Hs0 _]]. congruence.
  - intros s' mu Hs' Hm. rewrite E4 in Hs'. inversion Hs'; subst. congruence.
  - intros t Hin. apply Htr1. apply W9. exact Hin.
  - exact Htr2.
  - exact W11.
Qed.

Lemma prefs_unique_valid : forall caps rc u res, prefs_unique caps rc u = Ok res ->
  (forall p, In p u -> existsb (cap_eqb p) caps = true) -> forall p, In p res -> existsb (cap_eqb p) caps = true.
Proof.
  induction rc as [|c rc IH]; intros u res H Hu p Hp; cbn [prefs_unique] in H.
  - inversion H; subst. auto.
  - destruct (existsb (cap_eqb c) caps) eqn:Ec; cbn [negb] in H; [|discriminate].
    eapply IH; eauto. intros q Hq. destruct (existsb (cap_eqb c) u); [auto|].
    destruct Hq as [<-|Hq]; auto.
Qed.

Lemma wf_apply_op : forall T p o p', wf T p -> apply_op T p o = Ok p' -> wf T p'.
Proof.
  intros T p o p' W H. destruct o as [k|k d h| |i prefs|i d]; cbn [apply_op] in H.
  - unfold add_track in H. destruct (is_av k) eqn:Hk; cbn [negb] in H; [|discriminate].
    destruct (find_idx (fun t => (t_kind t =? k) && negb (t_hastrack t)) (p_trs p)) as [i|].
    + destruct (nth_error (p_trs p) i) as [t|]; [|discriminate]. bind_inv H d Hd. inversion H; subst.
      eapply wf_transfer; [exact W | unfold same_descs; cbn; tauto | reflexivity | | reflexivity | auto].
      cbn. apply map_upd_pres. intro x. reflexivity.
    + inversion H; subst. apply wf_create_transceiver; auto.
  - unfold add_transceiver in H. destruct (is_av k) eqn:Hk; cbn [negb] in H; [|discriminate].
    inversion H; subst. apply wf_create_transceiver; auto.
  - unfold create_data_channel in H. destruct (p_sctp p) eqn:Es; inversion H; subst; [exact W|].
    apply wf_create_sctp; auto.
  - unfold pc_set_prefs in H. destruct (nth_error (p_trs p) i) as [t|] eqn:Et; [|discriminate].
    bind_inv H u Hu. inversion H; subst. pose proof W as [W1 W2 W3 W4 W5 W6 W7 W8 W9 W10 W11].
    assert (Hk : map akey (upd i (set_prefs u) (p_trs p)) = map akey (p_trs p)) by (apply map_upd_pres; intro x; reflexivity).
    constructor.
    + exact W1.
    + exact W2.
    + exact W3.
    + exact W4.
    + exact W5.
    + cbn [p_trs set_trs]. eapply aligned_keys; [symmetry; exact Hk | exact W6].
    + exact W7.
    + exact W8.
    + cbn [p_trs set_trs p_transports]. intros t' Hin. apply In_nth_error in Hin. destruct Hin as [j Hj]. rewrite nth_error_upd in Hj.
      destruct (Nat.eqb j i).
      * destruct (nth_error (p_trs p) j) as [x|] eqn:Ex; [|discriminate]. cbn in Hj. inversion Hj; subst. cbn.
        apply W9. eapply nth_error_In; eauto.
      * apply W9. eapply nth_error_In; eauto.
    + exact W10.
    + cbn [p_trs set_trs]. intros t' Hin. apply In_nth_error in Hin. destruct Hin as [j Hj]. rewrite nth_error_upd in Hj.
      destruct (Nat.eqb_spec j i) as [Heq|Hne].
      * subst j. rewrite Et in Hj. cbn in Hj. inversion Hj; subst. cbn. unfold set_codec_preferences in Hu.
        intros q Hq. eapply prefs_unique_valid; eauto.
      * apply W11. eapply nth_error_In; eauto.
  - unfold pc_set_direction in H. destruct (nth_error (p_trs p) i) as [t|]; [|discriminate]. inversion H; subst.
    eapply wf_transfer; [exact W | unfold same_descs; cbn; tauto | reflexivity | | reflexivity | auto].
    cbn. apply map_upd_pres. intro x. reflexivity.
Qed.

(* ---- well-formedness relative to a section list ----------------------------------------------------- *)
Record wfs (T : tables) (p : pc) (ss : list (Z * Z)) : Prop := mkWfs {
  ws_nodup : NoDup (map snd ss);
  ws_seen : incl (map snd ss) (p_seen p);
  ws_kinds : kinds_ok ss;
  ws_al : aligned (p_trs p) ss;
  ws_sctp_sec : forall mu, In (2, mu) ss -> exists s, p_sctp p = Some s /\ s_mid s = Some mu;
  ws_sctp_mid : forall s mu, p_sctp p = Some s -> s_mid s = Some mu -> In (2, mu) ss;
  ws_tr : forall t, In t (p_trs p) -> has_tr (p_transports p) (t_transport t);
  ws_tr_sctp : forall s, p_sctp p = Some s -> has_tr (p_transports p) (s_transport s);
  ws_prefs : forall t, In t (p_trs p) -> prefs_valid T (t_kind t) (t_preferred t)
}.

Lemma wf_wfs : forall T p, wf T p <-> (p_state p = Stable /\ sections (remote_description p) = S p /\ wfs T p (S p)).
Proof.
  intros T p. split.
  - intros [W1 W2 W3 W4 W5 W6 W7 W8 W9 W10 W11]. split; [exact W1|]. split; [exact W2|]. constructor; assumption.
  - intros [W1 [W2 [A1 A2 A3 A4 A5 A6 A7 A8 A9]]]. constructor; assumption.
Qed.

(* ---- the loop invariant of setRemoteDescription ------------------------------------------------------ *)
Record ali (i : nat) (mids0 : list Z) (trs : list transceiver) (ss : list (Z * Z)) : Prop := mkAli {
  li_mid : forall t mu, In t trs -> t_mid t = Some mu ->
             exists j, t_mline t = Some j /\ nth_error ss j = Some (t_kind t, mu) /\ ((j < i)%nat \/ In mu mids0);
  li_none : forall t, In t trs -> t_mid t = None -> t_mline t = None;
  li_sec : forall j k mu, nth_error ss j = Some (k, mu) -> is_av k = true -> ((j < i)%nat \/ In mu mids0) ->
             exists t, In t trs /\ t_mid t = Some mu;
  li_uniq : forall i1 i2 t1 t2 mu, nth_error trs i1 = Some t1 -> nth_error trs i2 = Some t2 ->
              t_mid t1 = Some mu -> t_mid t2 = Some mu -> i1 = i2;
  li_ord : forall i1 i2 t1 t2, (i1 < i2)%nat -> nth_error trs i1 = Some t1 -> nth_error trs i2 = Some t2 ->
             t_kind t1 = t_kind t2 -> t_mid t1 = None -> t_mid t2 = None;
  li_kind : forall t, In t trs -> is_av (t_kind t) = true
}.

Definition extends (ss s0 : list (Z * Z)) : Prop := forall j x, nth_error s0 j = Some x -> nth_error ss j = Some x.

Lemma in_map_snd_nth : forall (s0 : list (Z * Z)) mu, In mu (map snd s0) -> exists j k, nth_error s0 j = Some (k, mu).
Proof.
  intros s0 mu H. apply in_map_iff in H. destruct H as [[k m] [E Hin]]. cbn in E. subst m.
  apply In_nth_error in Hin. destruct Hin as [j Hj]. exists j, k. exact Hj.
Qed.

Lemma ali_start : forall trs s0 ss, aligned trs s0 -> extends ss s0 -> NoDup (map snd ss) -> ali 0 (map snd s0) trs ss.
Proof.
  intros trs s0 ss [A1 A2 A3 A4 A5 A6] Hext Hnd. constructor; auto.
  - intros t mu Hin Hm. destruct (A1 t mu Hin Hm) as [j [E1 E2]]. exists j. split; [exact E1|]. split; [apply Hext; exact E2|].
    right. apply in_map_iff. exists (t_kind t, mu). split; [reflexivity | eapply nth_error_In; eauto].
  - intros j k mu Hj Hav [Hlt|Hin]; [lia|].
    destruct (in_map_snd_nth _ _ Hin) as [j' [k' Hj']]. pose proof (Hext _ _ Hj') as Hj''.
    destruct (secs_nth_mid_inj _ _ _ _ _ _ Hnd Hj Hj'') as [-> ->]. eapply A3; eauto.
Qed.

Lemma ali_end : forall mids0 trs ss, ali (length ss) mids0 trs ss -> aligned trs ss.
Proof.
  intros mids0 trs ss [A1 A2 A3 A4 A5 A6]. constructor; auto.
  - intros t mu Hin Hm. destruct (A1 t mu Hin Hm) as [j [E1 [E2 _]]]. exists j. auto.
  - intros j k mu Hj Hav. apply (A3 j k mu Hj Hav). left. apply nth_error_Some. congruence.
Qed.

Lemma ali_skip : forall i mids0 trs ss k mu, ali i mids0 trs ss -> nth_error ss i = Some (k, mu) -> is_av k = false ->
  ali (Datatypes.S i) mids0 trs ss.
Proof.
  intros i mids0 trs ss k mu [A1 A2 A3 A4 A5 A6] Hi Hk. constructor; auto.
  - intros t m Hin Hm. destruct (A1 t m Hin Hm) as [j [E1 [E2 E3]]]. exists j. split; [exact E1|]. split; [exact E2|].
    destruct E3; [left; lia | right; assumption].
  - intros j k' m Hj Hav [Hlt|Hin]; [|apply (A3 j k' m Hj Hav); right; exact Hin].
    destruct (Nat.eq_dec j i) as [->|Hne]; [rewrite Hi in Hj; inversion Hj; subst; congruence|].
    apply (A3 j k' m Hj Hav). left. lia.
Qed.

Lemma ali_keys : forall i mids0 trs trs' ss, map akey trs = map akey trs' -> ali i mids0 trs ss -> ali i mids0 trs' ss.
Proof.
  intros i mids0 trs trs' ss H [A1 A2 A3 A4 A5 A6]. constructor.
  - intros t' mu Hin Hm. destruct (map_akey_In _ _ _ H Hin) as [t [Ht E]]. apply akey_fields in E.
    destruct E as [E1 [E2 E3]]. rewrite <- E1, <- E3. apply A1; [exact Ht | congruence].
  - intros t' Hin Hm. destruct (map_akey_In _ _ _ H Hin) as [t [Ht E]]. apply akey_fields in E.
    destruct E as [E1 [E2 E3]]. rewrite <- E3. apply A2; [exact Ht | congruence].
  - intros j k mu Hj Hav Hor. destruct (A3 j k mu Hj Hav Hor) as [t [Ht Hm]].
    symmetry in H. destruct (map_akey_In _ _ _ H Ht) as [t' [Ht' E]]. apply akey_fields in E.
    exists t'. split; [exact Ht' | destruct E as [_ [E _]]; congruence].
  - intros i1 i2 t1' t2' mu H1 H2 M1 M2.
    destruct (map_akey_nth _ _ _ _ H H1) as [t1 [G1 E1]]. destruct (map_akey_nth _ _ _ _ H H2) as [t2 [G2 E2]].
    apply akey_fields in E1. apply akey_fields in E2. apply (A4 i1 i2 t1 t2 mu); auto; [destruct E1 as [_ [E _]] | destruct E2 as [_ [E _]]]; congruence.
  - intros i1 i2 t1' t2' Hlt H1 H2 Hk Hm.
    destruct (map_akey_nth _ _ _ _ H H1) as [t1 [G1 E1]]. destruct (map_akey_nth _ _ _ _ H H2) as [t2 [G2 E2]].
    apply akey_fields in E1. apply akey_fields in E2. destruct E1 as [K1 [M1 _]]. destruct E2 as [K2 [M2 _]].
    rewrite <- M2. apply (A5 i1 i2 t1 t2); auto; congruence.
  - intros t' Hin. destruct (map_akey_In _ _ _ H Hin) as [t [Ht E]]. apply akey_fields in E.
    destruct E as [E _]. rewrite <- E. apply A6. exact Ht.
Qed.

Lemma nth_error_snoc_cases : forall T (l : list T) x j y, nth_error (l ++ [x]) j = Some y ->
  ((j < length l)%nat /\ nth_error l j = Some y) \/ (j = length l /\ y = x).
Proof.
  intros T l x j y H. destruct (Nat.lt_ge_cases j (length l)) as [L|L].
  - left. rewrite nth_error_app1 in H by exact L. auto.
  - right. rewrite nth_error_app2 in H by exact L.
    destruct (j - length l)%nat as [|n] eqn:E; cbn in H; [inversion H; subst; split; [lia | reflexivity] | destruct n; discriminate].
Qed.

Lemma ali_snoc : forall i mids0 trs ss t, ali i mids0 trs ss -> t_mid t = None -> t_mline t = None -> is_av (t_kind t) = true ->
  ali i mids0 (trs ++ [t]) ss.
Proof.
  intros i mids0 trs ss t [A1 A2 A3 A4 A5 A6] Hm Hl Hk. constructor.
  - intros x mu Hin Hx. apply in_app_or in Hin. destruct Hin as [Hin|[<-|[]]]; [apply A1; auto | congruence].
  - intros x Hin Hx. apply in_app_or in Hin. destruct Hin as [Hin|[<-|[]]]; [apply A2; auto | exact Hl].
  - intros j k mu Hj Hav Hor. destruct (A3 j k mu Hj Hav Hor) as [x [Hx Hxm]]. exists x. split; [apply in_or_app; left; exact Hx | exact Hxm].
  - intros i1 i2 t1 t2 mu H1 H2 M1 M2.
    destruct (nth_error_snoc_cases _ _ _ _ _ H1) as [[L1 G1]|[_ ->]]; [|congruence].
    destruct (nth_error_snoc_cases _ _ _ _ _ H2) as [[L2 G2]|[_ ->]]; [|congruence].
    exact (A4 i1 i2 t1 t2 mu G1 G2 M1 M2).
  - intros i1 i2 t1 t2 Hlt H1 H2 Hk12 M1.
    destruct (nth_error_snoc_cases _ _ _ _ _ H2) as [[L2 G2]|[_ ->]]; [|exact Hm].
    destruct (nth_error_snoc_cases _ _ _ _ _ H1) as [[L1 G1]|[E _]]; [|lia].
    exact (A5 i1 i2 t1 t2 Hlt G1 G2 Hk12 M1).
  - intros x Hin. apply in_app_or in Hin. destruct Hin as [Hin|[<-|[]]]; [apply A6; exact Hin | exact Hk].
Qed.

Lemma nth_error_replace : forall T (l1 : list T) a b l2 j y, nth_error (l1 ++ b :: l2) j = Some y ->
  (j = length l1 /\ y = b) \/ (j <> length l1 /\ nth_error (l1 ++ a :: l2) j = Some y).
Proof.
  intros T l1 a b l2 j y H. destruct (Nat.lt_trichotomy j (length l1)) as [L|[E|L]].
  - right. split; [lia|]. rewrite nth_error_app1 in * by exact L. exact H.
  - left. subst j. rewrite nth_error_split in H. inversion H. auto.
  - right. split; [lia|]. rewrite nth_error_app2 in * by lia.
    destruct (j - length l1)%nat as [|n] eqn:En; [lia|]. cbn [nth_error] in *. exact H.
Qed.

Lemma nth_error_mid_cases : forall T (l1 : list T) a l2 j y, nth_error (l1 ++ a :: l2) j = Some y ->
  ((j < length l1)%nat /\ In y l1) \/ (j = length l1 /\ y = a) \/ ((length l1 < j)%nat /\ In y l2).
Proof.
  intros T l1 a l2 j y H. destruct (Nat.lt_trichotomy j (length l1)) as [L|[E|L]].
  - left. split; [exact L|]. rewrite nth_error_app1 in H by exact L. eapply nth_error_In; eauto.
  - right. left. subst j. rewrite nth_error_split in H. inversion H. auto.
  - right. right. split; [exact L|]. rewrite nth_error_app2 in H by lia.
    destruct (j - length l1)%nat as [|n] eqn:En; [lia|]. cbn [nth_error] in H. eapply nth_error_In; eauto.
Qed.

Lemma In_mid_cases : forall T (l1 : list T) a l2 y, In y (l1 ++ a :: l2) -> In y l1 \/ y = a \/ In y l2.
Proof. intros T l1 a l2 y H. apply in_app_or in H. destruct H as [H|[H|H]]; auto. Qed.

Lemma In_mid_intro : forall T (l1 : list T) a l2 y, In y l1 \/ In y l2 -> In y (l1 ++ a :: l2).
Proof. intros T l1 a l2 y [H|H]; apply in_or_app; [left | right; right]; exact H. Qed.

(* having a transceiver for section i lets the loop counter advance *)
Lemma ali_advance : forall i mids0 trs ss k mu, ali i mids0 trs ss -> nth_error ss i = Some (k, mu) ->
  (exists t, In t trs /\ t_mid t = Some mu) -> ali (Datatypes.S i) mids0 trs ss.
Proof.
  intros i mids0 trs ss k mu [A1 A2 A3 A4 A5 A6] Hi Hex. constructor; auto.
  - intros t m Hin Hm. destruct (A1 t m Hin Hm) as [j [E1 [E2 E3]]]. exists j. split; [exact E1|]. split; [exact E2|].
    destruct E3; [left; lia | right; assumption].
  - intros j k' m Hj Hav [Hlt|Hin]; [|apply (A3 j k' m Hj Hav); right; exact Hin].
    destruct (Nat.eq_dec j i) as [->|Hne]; [rewrite Hi in Hj; inversion Hj; subst; exact Hex|].
    apply (A3 j k' m Hj Hav). left. lia.
Qed.

Definition cand (k mu : Z) (t : transceiver) : Prop := t_kind t = k /\ (t_mid t = None \/ t_mid t = Some mu).

Lemma media_match_cand : forall m t, media_match m t = true <-> cand (m_kind m) (m_mid m) t.
Proof.
  intros m t. unfold media_match, cand. rewrite andb_true_iff, Z.eqb_eq. split; intros [H1 H2]; (split; [exact H1|]).
  - destruct (t_mid t) as [x|]; [right; apply Z.eqb_eq in H2; congruence | left; reflexivity].
  - destruct H2 as [E|E]; rewrite E; [reflexivity | apply Z.eqb_refl].
Qed.

Lemma ali_step_av : forall i mids0 l1 t0 t3 l2 ss k mu,
  ali i mids0 (l1 ++ t0 :: l2) ss -> NoDup (map snd ss) -> nth_error ss i = Some (k, mu) -> is_av k = true ->
  cand k mu t0 -> (forall y, In y l1 -> ~ cand k mu y) ->
  t_kind t3 = k -> t_mid t3 = Some mu ->
  t_mline t3 = (match t_mid t0 with None => Some i | Some _ => t_mline t0 end) ->
  ali (Datatypes.S i) mids0 (l1 ++ t3 :: l2) ss.
Proof.
  intros i mids0 l1 t0 t3 l2 ss k mu A Hnd Hi Hav [Hk0 Hm0] Hl1 Hk3 Hm3 Hl3.
  destruct (t_mid t0) as [x|] eqn:Em0.
  - (* the section is already known to this transceiver: keys unchanged *)
    assert (x = mu) by (destruct Hm0 as [Hm0|Hm0]; congruence). subst x.
    assert (Ek : map akey (l1 ++ t0 :: l2) = map akey (l1 ++ t3 :: l2)).
    { rewrite !map_app. cbn [map]. f_equal. f_equal. unfold akey. congruence. }
    apply (ali_advance i mids0 _ ss k mu); [eapply ali_keys; eauto | exact Hi|].
    exists t3. split; [apply in_or_app; right; left; reflexivity | exact Hm3].
  - (* a transceiver without mid takes the section: mu is not yet used by any transceiver *)
    pose proof A as [A1 A2 A3 A4 A5 A6].
    assert (Hfresh : forall t, In t (l1 ++ t0 :: l2) -> t_mid t <> Some mu).
    { intros t Hin Hm. destruct (A1 t mu Hin Hm) as [j [E1 [E2 _]]].
      destruct (secs_nth_mid_inj _ _ _ _ _ _ Hnd E2 Hi) as [-> Ek].
      destruct (In_mid_cases _ _ _ _ _ Hin) as [H1|[->|H2]].
      - apply (Hl1 t H1). split; [exact Ek | right; exact Hm].
      - congruence.
      - apply In_nth_error in H2. destruct H2 as [n Hn].
        assert (Hpos : nth_error (l1 ++ t0 :: l2) (length l1 + Datatypes.S n) = Some t).
        { rewrite nth_error_app2 by lia. replace (length l1 + Datatypes.S n - length l1)%nat with (Datatypes.S n) by lia. exact Hn. }
        assert (Hn0 : t_mid t = None).
        { apply (A5 (length l1) (length l1 + Datatypes.S n)%nat t0 t); auto; [lia | apply nth_error_split | congruence]. }
        congruence. }
    constructor.
    + intros t m Hin Hm. destruct (In_mid_cases _ _ _ _ _ Hin) as [H1|[->|H2]].
      * destruct (A1 t m (In_mid_intro _ _ _ _ _ (or_introl H1)) Hm) as [j [E1 [E2 E3]]]. exists j. split; [exact E1|]. split; [exact E2|].
        destruct E3; [left; lia | right; assumption].
      * exists i. rewrite Hl3, Hk3. rewrite Hm3 in Hm. inversion Hm; subst m. split; [reflexivity|]. split; [exact Hi | left; lia].
      * destruct (A1 t m (In_mid_intro _ _ _ _ _ (or_intror H2)) Hm) as [j [E1 [E2 E3]]]. exists j. split; [exact E1|]. split; [exact E2|].
        destruct E3; [left; lia | right; assumption].
    + intros t Hin Hm. destruct (In_mid_cases _ _ _ _ _ Hin) as [H1|[->|H2]]; [|congruence|].
      * apply A2; [apply In_mid_intro; left; exact H1 | exact Hm].
      * apply A2; [apply In_mid_intro; right; exact H2 | exact Hm].
    + intros j k' m Hj Hav' Hor. destruct (Z.eq_dec m mu) as [->|Hne].
      * exists t3. split; [apply in_or_app; right; left; reflexivity | exact Hm3].
      * assert (Hor' : (j < i)%nat \/ In m mids0).
        { destruct Hor as [Hlt|Hin]; [|right; exact Hin]. left.
          destruct (Nat.eq_dec j i) as [->|Hji]; [rewrite Hi in Hj; inversion Hj; congruence | lia]. }
        destruct (A3 j k' m Hj Hav' Hor') as [t [Hin Hm]]. exists t. split; [|exact Hm].
        destruct (In_mid_cases _ _ _ _ _ Hin) as [H1|[->|H2]]; [apply In_mid_intro; left; exact H1 | congruence | apply In_mid_intro; right; exact H2].
    + intros i1 i2 t1 t2 m H1 H2 M1 M2.
      destruct (nth_error_replace _ l1 t0 t3 l2 _ _ H1) as [[E1 ->]|[N1 G1]];
        destruct (nth_error_replace _ l1 t0 t3 l2 _ _ H2) as [[E2 ->]|[N2 G2]].
      * congruence.
      * exfalso. rewrite Hm3 in M1. inversion M1; subst m. apply (Hfresh t2); [eapply nth_error_In; eauto | exact M2].
      * exfalso. rewrite Hm3 in M2. inversion M2; subst m. apply (Hfresh t1); [eapply nth_error_In; eauto | exact M1].
      * exact (A4 i1 i2 t1 t2 m G1 G2 M1 M2).
    + intros i1 i2 t1 t2 Hlt H1 H2 Hk12 M1.
      destruct (nth_error_replace _ l1 t0 t3 l2 _ _ H1) as [[E1 ->]|[N1 G1]]; [congruence|].
      destruct (nth_error_replace _ l1 t0 t3 l2 _ _ H2) as [[E2 ->]|[N2 G2]].
      * exfalso. subst i2. destruct (nth_error_mid_cases _ _ _ _ _ _ G1) as [[L Hin]|[[E _]|[L _]]]; [|lia|lia].
        apply (Hl1 t1 Hin). split; [congruence | left; exact M1].
      * exact (A5 i1 i2 t1 t2 Hlt G1 G2 Hk12 M1).
    + intros t Hin. destruct (In_mid_cases _ _ _ _ _ Hin) as [H1|[->|H2]].
      * apply A6. apply In_mid_intro. left. exact H1.
      * rewrite Hk3. exact Hav.
      * apply A6. apply In_mid_intro. right. exact H2.
Qed.

(* ---- one audio/video section of setRemoteDescription, in full --------------------------------------- *)
Lemma create_transceiver_tr : forall p d k h,
  (forall t, In t (p_trs p) -> has_tr (p_transports p) (t_transport t)) ->
  (forall s, p_sctp p = Some s -> has_tr (p_transports p) (s_transport s)) ->
  (forall i, has_tr (p_transports p) i -> has_tr (p_transports (create_transceiver p d k h)) i) /\
  (forall t, In t (p_trs (create_transceiver p d k h)) -> has_tr (p_transports (create_transceiver p d k h)) (t_transport t)).
Proof.
  intros p d k h W9 W10. unfold create_transceiver.
  match goal with |- context [match ?s with Some id => _ | None => _ end] => destruct s as [sid|] eqn:Es end.
  - cbn. split; [auto|]. intros t Hin. apply in_app_or in Hin. destruct Hin as [Hin|[<-|[]]]; [apply W9; exact Hin|].
    cbn. revert Es. destruct (p_policy p =? 2).
    + destruct (p_trs p) as [|t0 l] eqn:Etrs.
      * destruct (p_sctp p) as [s|] eqn:Esc; [|discriminate]. intro Es. inversion Es; subst. apply W10. reflexivity.
      * intro Es. inversion Es; subst. apply W9. left. reflexivity.
    + destruct (p_policy p =? 0); [|discriminate].
      destruct (find (fun t => t_kind t =? k) (p_trs p)) as [t0|] eqn:Ef; [|discriminate].
      intro Es. inversion Es; subst. apply W9. apply find_some in Ef. tauto.
  - cbn. split; [intros i Hi; apply has_tr_app; exact Hi|].
    intros t Hin. apply in_app_or in Hin. destruct Hin as [Hin|[<-|[]]]; [apply has_tr_app; apply W9; exact Hin|].
    cbn. apply has_tr_new.
Qed.

Lemma remote_av_full : forall T ty m i p0 p',
  remote_av T ty m i p0 = Ok p' ->
  (forall t, In t (p_trs p0) -> has_tr (p_transports p0) (t_transport t)) ->
  (forall s, p_sctp p0 = Some s -> has_tr (p_transports p0) (s_transport s)) ->
  exists base l1 t0 t3 l2,
    base = l1 ++ t0 :: l2 /\ p_trs p' = l1 ++ t3 :: l2 /\
    (base = p_trs p0 \/
     exists tn, base = p_trs p0 ++ [tn] /\ t_mid tn = None /\ t_mline tn = None /\ t_kind tn = m_kind m /\ t_preferred tn = []) /\
    (forall t, In t base -> has_tr (p_transports p') (t_transport t)) /\
    cand (m_kind m) (m_mid m) t0 /\ (forall y, In y l1 -> ~ cand (m_kind m) (m_mid m) y) /\
    t_kind t3 = m_kind m /\ t_mid t3 = Some (m_mid m) /\
    t_mline t3 = (match t_mid t0 with None => Some i | Some _ => t_mline t0 end) /\
    t_transport t3 = t_transport t0 /\ t_preferred t3 = t_preferred t0 /\
    p_sctp p' = p_sctp p0 /\ (forall id, has_tr (p_transports p0) id -> has_tr (p_transports p') id) /\
    p_seen p' = p_seen p0.
Proof.
  intros T ty m i p0 p' H W9 W10. unfold remote_av in H.
  destruct (locate m p0) as [p1 k] eqn:El. unfold locate in El.
  assert (G : exists base l1 t0 l2, p_trs p1 = base /\ base = l1 ++ t0 :: l2 /\ length l1 = k /\
             (base = p_trs p0 \/ exists tn, base = p_trs p0 ++ [tn] /\ t_mid tn = None /\ t_mline tn = None /\ t_kind tn = m_kind m /\ t_preferred tn = []) /\
             cand (m_kind m) (m_mid m) t0 /\ (forall y, In y l1 -> ~ cand (m_kind m) (m_mid m) y) /\
             (forall t, In t base -> has_tr (p_transports p1) (t_transport t)) /\
             (forall id, has_tr (p_transports p0) id -> has_tr (p_transports p1) id) /\
             p_sctp p1 = p_sctp p0 /\ p_seen p1 = p_seen p0).
  { destruct (find_idx (media_match m) (p_trs p0)) as [n|] eqn:E.
    - inversion El; subst p1 k. destruct (find_idx_split _ _ _ _ E) as [l1 [x [l2 [E1 [E2 [E3 E4]]]]]].
      exists (p_trs p0), l1, x, l2.
      split; [reflexivity|]. split; [exact E1|]. split; [exact E2|]. split; [left; reflexivity|].
      split; [apply media_match_cand; exact E3|].
      split; [intros y Hy Hc; apply media_match_cand in Hc; rewrite (E4 y Hy) in Hc; discriminate|].
      split; [exact W9|]. split; [auto|]. split; reflexivity.
    - inversion El; subst p1 k.
      destruct (create_transceiver_spec p0 RecvOnly (m_kind m) false) as [bd [id [E1 [E2 [E3 E4]]]]].
      destruct (create_transceiver_tr p0 RecvOnly (m_kind m) false W9 W10) as [T1 T2].
      eexists _, (p_trs p0), _, []. split; [exact E1|]. split; [reflexivity|]. split; [reflexivity|].
      split; [right; eexists; split; [reflexivity|]; cbn; auto|].
      split; [split; cbn; auto|].
      split; [intros y Hy Hc; apply media_match_cand in Hc; rewrite (find_idx_none _ _ _ E y Hy) in Hc; discriminate|].
      split; [intros t Hin; apply T2; rewrite E1; exact Hin|].
      split; [exact T1|]. unfold same_session in E4. tauto. }
  destruct G as [base [l1 [t0 [l2 [G1 [G2 [G3 [G4 [G5 [G6 [G7 [G8 [G9 G10]]]]]]]]]]]]].
  rewrite G1, G2 in H. rewrite <- G3 in H. rewrite nth_error_split in H.
  bind_inv H c0 Hc0. bind_inv H common Hcommon.
  destruct common as [|c common']; [discriminate|].
  destruct (m_dir m) as [md|] eqn:Emd; [|discriminate].
  inversion H; subst p'; clear H. rewrite upd_split.
  exists base, l1, t0. eexists. exists l2.
  split; [exact G2|]. split; [cbn; reflexivity|]. split; [exact G4|].
  split; [intros t Hin; cbn; apply remote_transport_roles_has; apply G7; exact Hin|].
  split; [exact G5|]. split; [exact G6|].
  destruct G5 as [Hk Hm].
  assert (Hgen : forall t1, t1 = match t_mid t0 with Some _ => t0 | None => set_mline i (set_mid (m_mid m) t0) end ->
                 t_kind t1 = m_kind m /\ t_mid t1 = Some (m_mid m) /\
                 t_mline t1 = match t_mid t0 with None => Some i | Some _ => t_mline t0 end /\
                 t_transport t1 = t_transport t0 /\ t_preferred t1 = t_preferred t0).
  { intros t1 ->. destruct (t_mid t0) as [x|] eqn:Emid; [|cbn; auto].
    destruct Hm as [Hm|Hm]; [congruence|]. repeat split; auto; congruence. }
  destruct (Hgen _ eq_refl) as [Q1 [Q2 [Q3 [Q4 Q5]]]].
  destruct (ty =? 1); cbn; repeat split; auto; intros id Hid; apply remote_transport_roles_has; apply G8; exact Hid.
Qed.

(* ---- the whole loop of setRemoteDescription ------------------------------------------------------------ *)
Definition app_unique (ss : list (Z * Z)) : Prop :=
  forall j1 j2 m1 m2, nth_error ss j1 = Some (2, m1) -> nth_error ss j2 = Some (2, m2) -> j1 = j2.

Record rinv (T : tables) (i : nat) (s0 : list (Z * Z)) (p : pc) (ss : list (Z * Z)) : Prop := mkRinv {
  ri_ali : ali i (map snd s0) (p_trs p) ss;
  ri_sctp_mid : forall s mu, p_sctp p = Some s -> s_mid s = Some mu -> In (2, mu) ss;
  ri_sctp_sec : forall j mu, nth_error ss j = Some (2, mu) -> ((j < i)%nat \/ In (2, mu) s0) ->
                  exists s, p_sctp p = Some s /\ s_mid s = Some mu;
  ri_tr : forall t, In t (p_trs p) -> has_tr (p_transports p) (t_transport t);
  ri_tr_sctp : forall s, p_sctp p = Some s -> has_tr (p_transports p) (s_transport s);
  ri_prefs : forall t, In t (p_trs p) -> prefs_valid T (t_kind t) (t_preferred t)
}.

Lemma rinv_seen : forall T i s0 p ss l, rinv T i s0 p ss -> rinv T i s0 (set_seen p l) ss.
Proof. intros T i s0 p ss l [A1 A2 A3 A4 A5 A6]. constructor; cbn; assumption. Qed.

Lemma rinv_av : forall T ty m i s0 p0 p' ss,
  rinv T i s0 p0 ss -> remote_av T ty m i p0 = Ok p' -> NoDup (map snd ss) ->
  nth_error ss i = Some (m_kind m, m_mid m) -> is_av (m_kind m) = true -> rinv T (Datatypes.S i) s0 p' ss.
Proof.
  intros T ty m i s0 p0 p' ss [A1 A2 A3 A4 A5 A6] H Hnd Hi Hav.
  destruct (remote_av_full _ _ _ _ _ _ H A4 A5) as
    [base [l1 [t0 [t3 [l2 [B1 [B2 [B3 [B4 [B5 [B6 [B7 [B8 [B9 [B10 [B11 [B12 [B13 B14]]]]]]]]]]]]]]]]]].
  assert (Abase : ali i (map snd s0) base ss).
  { destruct B3 as [->|[tn [-> [N1 [N2 [N3 N4]]]]]]; [exact A1|]. apply ali_snoc; auto. rewrite N3. exact Hav. }
  assert (Pbase : forall t, In t base -> prefs_valid T (t_kind t) (t_preferred t)).
  { destruct B3 as [->|[tn [-> [N1 [N2 [N3 N4]]]]]]; [exact A6|].
    intros t Hin. apply in_app_or in Hin. destruct Hin as [Hin|[<-|[]]]; [apply A6; exact Hin|]. rewrite N4. intros q []. }
  subst base. constructor.
  - rewrite B2. eapply ali_step_av; eauto.
  - rewrite B12. exact A2.
  - rewrite B12. intros j mu Hj [Hlt|Hin]; [|apply (A3 j mu Hj); right; exact Hin].
    destruct (Nat.eq_dec j i) as [->|Hne].
    + rewrite Hi in Hj. inversion Hj as [[E1 E2]]. rewrite E1 in Hav. discriminate.
    + apply (A3 j mu Hj). left. lia.
  - rewrite B2. intros t Hin. destruct (In_mid_cases _ _ _ _ _ Hin) as [H1|[->|H2]].
    + apply B4. apply In_mid_intro. left. exact H1.
    + rewrite B10. apply B4. apply in_or_app. right. left. reflexivity.
    + apply B4. apply In_mid_intro. right. exact H2.
  - rewrite B12. intros s Hs. apply B13. apply A5. exact Hs.
  - rewrite B2. intros t Hin. destruct (In_mid_cases _ _ _ _ _ Hin) as [H1|[->|H2]].
    + apply Pbase. apply In_mid_intro. left. exact H1.
    + rewrite B11, B7. destruct B5 as [K0 _]. rewrite <- K0. apply Pbase. apply in_or_app. right. left. reflexivity.
    + apply Pbase. apply In_mid_intro. right. exact H2.
Qed.

Lemma create_sctp_tr : forall p,
  (forall t, In t (p_trs p) -> has_tr (p_transports p) (t_transport t)) ->
  (forall i, has_tr (p_transports p) i -> has_tr (p_transports (create_sctp p)) i) /\
  (forall s', p_sctp (create_sctp p) = Some s' -> has_tr (p_transports (create_sctp p)) (s_transport s')).
Proof.
  intros p W9. unfold create_sctp. destruct (if p_policy p =? 2 then p_trs p else []) as [|t0 l] eqn:El.
  - cbn. split; [intros i Hi; apply has_tr_app; exact Hi|]. intros s' Hs'. inversion Hs'; subst. cbn. apply has_tr_new.
  - cbn. split; [auto|]. intros s' Hs'. inversion Hs'; subst. cbn. apply W9.
    destruct (p_policy p =? 2); [rewrite El; left; reflexivity | discriminate].
Qed.

Lemma rinv_app : forall T ty m i s0 p0 p' ss,
  rinv T i s0 p0 ss -> remote_app ty m i p0 = Ok p' -> app_unique ss ->
  nth_error ss i = Some (2, m_mid m) -> rinv T (Datatypes.S i) s0 p' ss.
Proof.
  intros T ty m i s0 p0 p' ss [A1 A2 A3 A4 A5 A6] H Hau Hi. unfold remote_app in H.
  set (p1 := match p_sctp p0 with Some _ => p0 | None => create_sctp p0 end) in *.
  assert (G : p_trs p1 = p_trs p0 /\ (forall id, has_tr (p_transports p0) id -> has_tr (p_transports p1) id) /\
              (forall s', p_sctp p1 = Some s' -> has_tr (p_transports p1) (s_transport s')) /\
              (forall s' mu, p_sctp p1 = Some s' -> s_mid s' = Some mu -> p_sctp p0 = Some s')).
  { subst p1. destruct (p_sctp p0) as [s|] eqn:Es.
    - split; [reflexivity|]. split; [auto|]. split; [rewrite Es; exact A5|]. intros s' mu E _. congruence.
    - destruct (create_sctp_spec p0) as [E1 [_ [_ [s [E4 E5]]]]]. destruct (create_sctp_tr p0 A4) as [T1 T2].
      split; [exact E1|]. split; [exact T1|]. split; [exact T2|]. intros s' mu E Em. rewrite E4 in E. inversion E; subst. congruence. }
  destruct G as [G1 [G2 [G3 G4]]].
  destruct (p_sctp p1) as [s|] eqn:Es1; [|discriminate]. inversion H; subst p'; clear H.
  assert (Hali : ali (Datatypes.S i) (map snd s0) (p_trs p0) ss) by (eapply ali_skip; eauto).
  destruct (s_mid s) as [x|] eqn:Ex.
  - (* sctp already has a mid: by uniqueness of the application section it is this one *)
    pose proof (G4 s x eq_refl Ex) as Hs0. pose proof (A2 s x Hs0 Ex) as Hin.
    apply In_nth_error in Hin. destruct Hin as [j' Hj']. pose proof (Hau _ _ _ _ Hj' Hi) as E. subst j'.
    rewrite Hi in Hj'. inversion Hj' as [E].
    constructor; cbn [p_trs p_sctp p_transports set_transports set_sctp set_sctp_mline]; rewrite ?G1, ?Es1.
    + exact Hali.
    + intros s' mu Hs' Hm. inversion Hs'; subst s'. rewrite Ex in Hm. inversion Hm; subst mu. rewrite <- E. eapply nth_error_In; eauto.
    + intros j mu Hj Hor. destruct (Nat.eq_dec j i) as [->|Hne].
      * rewrite Hi in Hj. inversion Hj; subst mu. exists s. split; [reflexivity | congruence].
      * assert (Hor' : (j < i)%nat \/ In (2, mu) s0) by (destruct Hor; [left; lia | right; assumption]).
        destruct (A3 j mu Hj Hor') as [s' [Hs' Hm']]. rewrite Hs0 in Hs'. inversion Hs'; subst s'. exists s. auto.
    + intros t Hin. apply remote_transport_roles_has. apply G2. apply A4. exact Hin.
    + intros s' Hs'. inversion Hs'; subst s'. apply remote_transport_roles_has. apply G3. reflexivity.
    + exact A6.
  - constructor; cbn [p_trs p_sctp p_transports set_transports set_sctp set_sctp_mline]; rewrite ?G1.
    + exact Hali.
    + intros s' mu Hs' Hm. inversion Hs'; subst s'. cbn in Hm. inversion Hm; subst mu. eapply nth_error_In; eauto.
    + intros j mu Hj Hor. destruct (Nat.eq_dec j i) as [->|Hne].
      * rewrite Hi in Hj. inversion Hj; subst mu. eexists. split; reflexivity.
      * exfalso. assert (Hor' : (j < i)%nat \/ In (2, mu) s0) by (destruct Hor; [left; lia | right; assumption]).
        destruct (A3 j mu Hj Hor') as [s' [Hs' Hm']].
        assert (Es0 : p_sctp p1 = Some s') by (subst p1; rewrite Hs'; exact Hs').
        rewrite Es1 in Es0. inversion Es0; subst s'. congruence.
    + intros t Hin. apply remote_transport_roles_has. apply G2. apply A4. exact Hin.
    + intros s' Hs'. inversion Hs'; subst s'. cbn. apply remote_transport_roles_has. apply G3. reflexivity.
    + exact A6.
Qed.

Lemma remote_media_rinv : forall T ty s0 ss ms i p p',
  remote_media T ty ms i p = Ok p' -> NoDup (map snd ss) -> app_unique ss ->
  (forall j m, nth_error ms j = Some m -> nth_error ss (i + j) = Some (m_kind m, m_mid m)) ->
  rinv T i s0 p ss -> rinv T (i + length ms) s0 p' ss.
Proof.
  intros T ty s0 ss. induction ms as [|m ms IH]; intros i p p' H Hnd Hau Hss R; cbn [remote_media] in H.
  - inversion H; subst. cbn [length]. rewrite Nat.add_0_r. exact R.
  - pose proof (Hss O m eq_refl) as Hi. rewrite Nat.add_0_r in Hi.
    assert (Hss' : forall j x, nth_error ms j = Some x -> nth_error ss (Datatypes.S i + j) = Some (m_kind x, m_mid x)).
    { intros j x Hj. specialize (Hss (Datatypes.S j) x Hj). rewrite Nat.add_succ_r in Hss. exact Hss. }
    cbn [length]. rewrite Nat.add_succ_r. change (Datatypes.S (i + length ms)) with (Datatypes.S i + length ms)%nat.
    pose proof (rinv_seen _ _ _ _ _ (sadd (m_mid m) (p_seen p)) R) as R0.
    destruct (is_av (m_kind m)) eqn:Eav.
    + bind_inv H p1 Hp1. apply (IH _ _ _ H Hnd Hau Hss'). eapply rinv_av; eauto.
    + destruct (m_kind m =? 2) eqn:E2.
      * apply Z.eqb_eq in E2. rewrite E2 in Hi. bind_inv H p1 Hp1. apply (IH _ _ _ H Hnd Hau Hss'). eapply rinv_app; eauto.
      * apply (IH _ _ _ H Hnd Hau Hss'). destruct R0 as [A1 A2 A3 A4 A5 A6]. constructor; auto.
        -- eapply ali_skip; eauto.
        -- intros j mu Hj Hor. destruct (Nat.eq_dec j i) as [->|Hne].
           ++ rewrite Hi in Hj. inversion Hj as [[E E']]. rewrite E in E2. discriminate.
           ++ apply (A3 j mu Hj). destruct Hor; [left; lia | right; assumption].
Qed.

(* ---- BUNDLE handling keeps transports resolvable -------------------------------------------------------- *)
Lemma apply_bundle_tr : forall fixed items p p', apply_bundle fixed items p = Ok p' ->
  (forall t, In t (p_trs p) -> has_tr (p_transports p) (t_transport t)) ->
  (forall s, p_sctp p = Some s -> has_tr (p_transports p) (s_transport s)) ->
  (forall t, In t (p_trs p') -> has_tr (p_transports p') (t_transport t)) /\
  (forall s, p_sctp p' = Some s -> has_tr (p_transports p') (s_transport s)).
Proof.
  intros fixed items p p' H W9 W10. unfold apply_bundle in H.
  destruct items as [|primary slaves]; [inversion H; subst; auto|].
  match type of H with context [match ?pt with Some prim => _ | None => _ end] => destruct pt as [prim|] eqn:Ept end.
  - assert (Hprim : has_tr (p_transports p) prim).
    { revert Ept. destruct (p_sctp p) as [s|] eqn:Es.
      - destruct (opt_eqb Z.eqb (s_mid s) (Some primary)).
        + intro E. inversion E; subst. apply W10. reflexivity.
        + destruct (find (mid_is primary) (p_trs p)) as [t|] eqn:Ef; [|discriminate].
          intro E. inversion E; subst. apply W9. apply find_some in Ef. tauto.
      - destruct (find (mid_is primary) (p_trs p)) as [t|] eqn:Ef; [|discriminate].
        intro E. inversion E; subst. apply W9. apply find_some in Ef. tauto. }
    inversion H; subst p'; clear H. cbn [p_trs p_sctp p_transports set_transports set_sctp set_trs]. split.
    + intros t Hin. apply in_map_iff in Hin. destruct Hin as [t0 [E Hin0]]. apply has_tr_map; [intro x; destruct (existsb _ _); reflexivity|].
      subst t. repeat match goal with |- context [if ?c then _ else _] => destruct c end; cbn; auto.
    + intros s Hs. apply has_tr_map; [intro x; destruct (existsb _ _); reflexivity|].
      destruct (p_sctp p) as [s0|] eqn:Es; [|discriminate].
      revert Hs. repeat match goal with |- context [if ?c then _ else _] => destruct c end; intro Hs; inversion Hs; subst; cbn; auto.
  - match type of H with (if ?c then _ else _) = _ => destruct c end; [discriminate|]. inversion H; subst. auto.
Qed.

Lemma map_core_akey : forall (g : transceiver -> transceiver) trs, (forall t, core (g t) = core t) ->
  map akey (map g trs) = map akey trs.
Proof.
  intros g trs H. rewrite map_map. apply map_ext. intro t. specialize (H t). apply core_fields in H.
  unfold akey. destruct H as [-> [_ [-> [-> _]]]]. reflexivity.
Qed.

(* ---- (R) setRemoteDescription keeps the connection aligned with the new section list ------------------------ *)
Lemma nth_error_secs : forall ms j m, nth_error ms j = Some m -> nth_error (secs_of ms) j = Some (m_kind m, m_mid m).
Proof. intros ms j m H. unfold secs_of. rewrite nth_error_map, H. reflexivity. Qed.

Lemma set_remote_description_wfs : forall fixed T p d p' s0,
  set_remote_description fixed T p d = Ok p' ->
  wfs T p s0 -> extends (secs_of (d_media d)) s0 ->
  NoDup (map m_mid (d_media d)) -> app_unique (secs_of (d_media d)) -> kinds_ok (secs_of (d_media d)) ->
  wfs T p' (secs_of (d_media d)).
Proof.
  intros fixed T p d p' s0 H W Hext Hnd Hau Hk. unfold set_remote_description in H.
  destruct (validate_description p d false) as [[]| | |] eqn:Ev; cbn [bind] in H; try discriminate.
  bind_inv H p1 Hp1. bind_inv H p2 Hp2. inversion H; subst p'; clear H.
  set (ss := secs_of (d_media d)) in *.
  assert (Hnd' : NoDup (map snd ss)) by (subst ss; rewrite secs_of_mids; exact Hnd).
  destruct W as [W1 W2 W3 W4 W5 W6 W7 W8 W9].
  assert (R0 : rinv T 0 s0 p ss).
  { constructor; auto.
    - apply ali_start; auto.
    - intros s mu Hs Hm. pose proof (W6 s mu Hs Hm) as Hin. apply In_nth_error in Hin. destruct Hin as [j Hj].
      eapply nth_error_In. apply Hext. exact Hj.
    - intros j mu Hj [Hlt|Hin]; [lia | apply W5; exact Hin]. }
  assert (R1 : rinv T (0 + length (d_media d)) s0 p1 ss).
  { eapply remote_media_rinv; eauto. intros j m Hj. cbn. subst ss. apply nth_error_secs. exact Hj. }
  cbn [Nat.add] in R1. destruct R1 as [A1 A2 A3 A4 A5 A6].
  assert (Elen : length ss = length (d_media d)) by (subst ss; unfold secs_of; apply map_length).
  rewrite <- Elen in A1, A3. apply ali_end in A1.
  destruct (remote_media_seen _ _ _ _ _ _ Hp1) as [S1 [S2 _]].
  destruct (apply_bundle_spec _ _ _ _ Hp2) as [[g [G1 G2]] [G3 [_ G5]]].
  destruct (apply_bundle_tr _ _ _ _ Hp2 A4 A5) as [B1 B2].
  assert (Hseen : p_seen p2 = p_seen p1) by (unfold same_session in G3; tauto).
  assert (Fin : wfs T p2 ss).
  { constructor; auto.
    - rewrite Hseen. unfold ss. rewrite secs_of_mids. exact S2.
    - rewrite G1. eapply aligned_keys; [|exact A1]. symmetry. apply map_core_akey. exact G2.
    - intros mu Hin. apply In_nth_error in Hin. destruct Hin as [j Hj].
      assert (Hlt : (j < length ss)%nat) by (apply nth_error_Some; congruence).
      destruct (A3 j mu Hj (or_introl Hlt)) as [s [Hs Hm]].
      rewrite Hs in G5. destruct (p_sctp p2) as [s'|]; [|contradiction]. exists s'. split; [reflexivity | congruence].
    - intros s' mu Hs' Hm. rewrite Hs' in G5. destruct (p_sctp p1) as [s|] eqn:Es; [|contradiction].
      apply (A2 s mu eq_refl). congruence.
    - rewrite G1. intros t Hin. apply in_map_iff in Hin. destruct Hin as [t0 [<- Hin0]].
      pose proof (core_fields _ _ (G2 t0)) as [E1 [_ [_ [_ [_ [_ [E7 _]]]]]]]. rewrite E1, E7. apply A6. exact Hin0. }
  destruct Fin as [F1 F2 F3 F4 F5 F6 F7 F8 F9].
  destruct (d_type d =? 1); constructor; cbn; assumption.
Qed.

(* ---- (A) setLocalDescription(answer) on an aligned connection changes nothing the invariant sees ---------- *)
Lemma wfs_transfer : forall T p q ss,
  wfs T p ss -> incl (p_seen p) (p_seen q) -> map tinfo (p_trs q) = map tinfo (p_trs p) ->
  p_sctp q = p_sctp p -> (forall id, has_tr (p_transports p) id -> has_tr (p_transports q) id) -> wfs T q ss.
Proof.
  intros T p q ss [W1 W2 W3 W4 W5 W6 W7 W8 W9] Hs Ht Hsc Htr. constructor; rewrite ?Hsc; auto.
  - eapply incl_tran; eauto.
  - eapply aligned_keys; [|exact W4]. symmetry. apply map_tinfo_akey. exact Ht.
  - intros t' Hin. destruct (map_tinfo_In _ _ _ (eq_sym Ht) Hin) as [t [Hin' E]]. apply tinfo_fields in E.
    destruct E as [_ [E _]]. rewrite <- E. apply Htr. apply W7. exact Hin'.
  - intros t' Hin. destruct (map_tinfo_In _ _ _ (eq_sym Ht) Hin) as [t [Hin' E]]. apply tinfo_fields in E.
    destruct E as [Ek [_ Ep]]. apply akey_fields in Ek. destruct Ek as [Ek _]. rewrite <- Ek, <- Ep. apply W9. exact Hin'.
Qed.

Lemma set_mid_same : forall t mu, t_mid t = Some mu -> set_mid mu t = t.
Proof. intros t mu H. destruct t. cbn in *. subst. reflexivity. Qed.

Lemma set_mline_same : forall t i, t_mline t = Some i -> set_mline i t = t.
Proof. intros t i H. destruct t. cbn in *. subst. reflexivity. Qed.

Lemma aligned_mline_mid : forall trs ss i k mu t, aligned trs ss -> NoDup (map snd ss) ->
  nth_error ss i = Some (k, mu) -> In t trs -> t_mline t = Some i -> t_mid t = Some mu /\ t_kind t = k.
Proof.
  intros trs ss i k mu t A Hnd Hi Hin Hl. destruct (t_mid t) as [x|] eqn:Em.
  - destruct (al_mid _ _ A t x Hin Em) as [j [E1 E2]]. rewrite Hl in E1. inversion E1; subst j.
    rewrite Hi in E2. inversion E2; subst. auto.
  - pose proof (al_none _ _ A t Hin Em) as E. congruence.
Qed.

Lemma assign_mids_same : forall ss ms i p p',
  assign_mids ms i p = Ok p' -> NoDup (map snd ss) ->
  (forall j m, nth_error ms j = Some m -> nth_error ss (i + j) = Some (m_kind m, m_mid m)) ->
  aligned (p_trs p) ss -> (forall mu, In (2, mu) ss -> exists s, p_sctp p = Some s /\ s_mid s = Some mu) ->
  p_trs p' = p_trs p /\ p_sctp p' = p_sctp p /\ p_transports p' = p_transports p.
Proof.
  intros ss. induction ms as [|m ms IH]; intros i p p' H Hnd Hss A Hsc; cbn [assign_mids] in H.
  - inversion H; subst. auto.
  - pose proof (Hss O m eq_refl) as Hi. rewrite Nat.add_0_r in Hi.
    assert (Hss' : forall j x, nth_error ms j = Some x -> nth_error ss (Datatypes.S i + j) = Some (m_kind x, m_mid x)).
    { intros j x Hj. specialize (Hss (Datatypes.S j) x Hj). rewrite Nat.add_succ_r in Hss. exact Hss. }
    destruct (is_av (m_kind m)).
    + cbn [p_trs set_seen] in H.
      destruct (find_idx (mline_is i) (p_trs p)) as [k|] eqn:Ef; [|discriminate].
      destruct (find_idx_nth _ _ _ _ Ef) as [t [Ht [Hml _]]].
      assert (Hl : t_mline t = Some i).
      { unfold mline_is in Hml. destruct (t_mline t) as [x|]; cbn in Hml; [apply Nat.eqb_eq in Hml; congruence | discriminate]. }
      destruct (aligned_mline_mid _ _ _ _ _ _ A Hnd Hi (nth_error_In _ _ Ht) Hl) as [Hm _].
      assert (Eu : upd k (set_mid (m_mid m)) (p_trs p) = p_trs p).
      { apply upd_id. intros x Hx. rewrite Ht in Hx. inversion Hx; subst x. apply set_mid_same. exact Hm. }
      rewrite Eu in H. apply IH in H; auto.
    + destruct (m_kind m =? 2) eqn:E2.
      * cbn [p_sctp set_seen] in H. destruct (p_sctp p) as [s|] eqn:Es; [|discriminate].
        apply Z.eqb_eq in E2. rewrite E2 in Hi.
        destruct (Hsc (m_mid m) (nth_error_In _ _ Hi)) as [s' [Es' Hm]]. try rewrite Es in Es'. inversion Es'; subst s'.
        assert (Eq : mkSctp (Some (m_mid m)) (s_bundled s) (s_transport s) = s) by (destruct s; cbn in *; subst; reflexivity).
        rewrite Eq in H. apply IH in H; auto.
      * apply IH in H; auto.
Qed.

Lemma local_roles_tr : forall ms i p p', local_roles ms i p = Ok p' ->
  forall id, has_tr (p_transports p) id -> has_tr (p_transports p') id.
Proof.
  induction ms as [|m ms IH]; intros i p p' H id Hid; cbn [local_roles] in H.
  - inversion H; subst. exact Hid.
  - destruct (is_av (m_kind m)).
    + destruct (find (mline_is i) (p_trs p)); [|discriminate]. eapply IH; [exact H|]. cbn. apply has_tr_upd; auto.
    + destruct (m_kind m =? 2).
      * destruct (p_sctp p); [|discriminate]. eapply IH; [exact H|]. cbn. apply has_tr_upd; auto.
      * eapply IH; eauto.
Qed.

Lemma local_directions_tinfo : forall fixed trs trs', local_directions fixed trs = Ok trs' -> map tinfo trs' = map tinfo trs.
Proof.
  intro fixed. induction trs as [|t ts IH]; intros trs' H; cbn [local_directions] in H.
  - inversion H; subst. reflexivity.
  - bind_inv H t' Ht'. bind_inv H ts' Hts'. inversion H; subst. cbn [map]. rewrite (IH _ Hts'). f_equal.
    destruct (t_offerDirection t).
    + bind_inv Ht' dd Hdd. inversion Ht'; subst. reflexivity.
    + destruct fixed; [inversion Ht'; subst; reflexivity|]. bind_inv Ht' dd Hdd. inversion Ht'; subst. reflexivity.
Qed.

Lemma set_local_answer_wfs : forall fixed T p d p',
  set_local_description fixed p d = Ok p' -> d_type d = 1 ->
  wfs T p (secs_of (d_media d)) -> wfs T p' (secs_of (d_media d)).
Proof.
  intros fixed T p d p' H Ht W. unfold set_local_description in H.
  destruct (match p_state p with Closed => true | _ => false end); [discriminate|].
  destruct (validate_description p d true) as [[]| | |] eqn:Ev; cbn [bind] in H; try discriminate.
  rewrite Ht in H. cbn [Z.eqb] in H.
  bind_inv H p2 Hp2. bind_inv H p4 Hp4. bind_inv H p5 Hp5. inversion H; subst p'; clear H.
  bind_inv Hp5 trs Htrs. inversion Hp5; subst p5; clear Hp5.
  pose proof W as [W1 W2 W3 W4 W5 W6 W7 W8 W9].
  destruct (assign_mids_spec _ _ _ _ Hp2) as [_ [A2 _]]. cbn in A2.
  assert (Hss : forall j m, nth_error (d_media d) j = Some m -> nth_error (secs_of (d_media d)) (0 + j) = Some (m_kind m, m_mid m))
    by (intros j m Hj; apply nth_error_secs; exact Hj).
  destruct (assign_mids_same _ _ _ _ _ Hp2 W1 Hss W4 W5) as [B1 [B2 B3]]. cbn in B1, B2, B3.
  destruct (local_roles_spec _ _ _ _ Hp4) as [_ [C2 [C3 [C4 _]]]].
  pose proof (local_roles_tr _ _ _ _ Hp4) as C5.
  pose proof (local_directions_tinfo _ _ _ Htrs) as D1.
  eapply wfs_transfer; [exact W | | | |].
  - cbn. rewrite C2. exact A2.
  - cbn. rewrite D1, C3, B1. reflexivity.
  - cbn. rewrite C4, B2. reflexivity.
  - cbn. intros id Hid. apply C5. rewrite B3. exact Hid.
Qed.

(* ---- (O) createOffer on a well-formed connection ------------------------------------------------------------ *)
Definition offered (T : tables) (t : transceiver) : Prop :=
  filter_preferred_codecs (CODECS T (t_kind t)) (t_preferred t) = Ok (t_codecs t) /\
  t_exts t = HEADER_EXTENSIONS T (t_kind t).

Lemma offer_codecs_spec : forall T trs trs0, offer_codecs T trs = Ok trs0 ->
  map tinfo trs0 = map tinfo trs /\ (forall t0, In t0 trs0 -> offered T t0) /\ length trs0 = length trs.
Proof.
  intro T. induction trs as [|t ts IH]; intros trs0 H; cbn [offer_codecs] in H.
  - inversion H; subst. split; [reflexivity|]. split; [intros ? []| reflexivity].
  - bind_inv H cs Hcs. bind_inv H ts' Hts'. inversion H; subst. destruct (IH _ Hts') as [I1 [I2 I3]].
    split; [cbn [map]; rewrite I1; reflexivity|]. split; [|cbn; rewrite I3; reflexivity].
    intros t0 [<-|Hin]; [|apply I2; exact Hin]. unfold offered. cbn. auto.
Qed.

Lemma secs_of_cons : forall m l, secs_of (m :: l) = (m_kind m, m_mid m) :: secs_of l.
Proof. reflexivity. Qed.

Definition from_transceiver (trs : list transceiver) (m : media) : Prop :=
  is_av (m_kind m) = true ->
  exists t, In t trs /\ t_mid t = Some (m_mid m) /\ m_kind m = t_kind t /\ m_codecs m = t_codecs t /\
            m_exts m = t_exts t /\ m_dir m = Some (t_direction t) /\ m_role m = RAuto.

Lemma offer_existing_same : forall ss ms i trs hs sm trs' out sm',
  offer_existing ms i trs hs sm = Ok (trs', out, sm') -> aligned trs ss -> NoDup (map snd ss) ->
  (forall j m, nth_error ms j = Some m -> nth_error ss (i + j) = Some (m_kind m, m_mid m)) ->
  (forall j m, nth_error ms j = Some m -> is_av (m_kind m) = true \/ m_kind m = 2) ->
  trs' = trs /\ secs_of out = secs_of ms /\ Forall (from_transceiver trs) out /\
  (forall m, In m out -> m_kind m = 2 -> hs = true).
Proof.
  intros ss. induction ms as [|m ms IH]; intros i trs hs sm trs' out sm' H A Hnd Hss Hk; cbn [offer_existing] in H.
  - inversion H; subst. split; [reflexivity|]. split; [reflexivity|]. split; [constructor | intros ? []].
  - pose proof (Hss O m eq_refl) as Hi. rewrite Nat.add_0_r in Hi.
    assert (Hss' : forall j x, nth_error ms j = Some x -> nth_error ss (Datatypes.S i + j) = Some (m_kind x, m_mid x)).
    { intros j x Hj. specialize (Hss (Datatypes.S j) x Hj). rewrite Nat.add_succ_r in Hss. exact Hss. }
    assert (Hk' : forall j x, nth_error ms j = Some x -> is_av (m_kind x) = true \/ m_kind x = 2)
      by (intros j x Hj; apply (Hk (Datatypes.S j) x Hj)).
    destruct (is_av (m_kind m)) eqn:Eav.
    + destruct (find_idx (mid_is (m_mid m)) trs) as [k|] eqn:Ef; [|discriminate].
      destruct (find_idx_nth _ _ _ _ Ef) as [t [Ht [Hmid _]]]. apply mid_is_true in Hmid.
      pose proof (nth_error_In _ _ Ht) as Hin.
      destruct (al_mid _ _ A t _ Hin Hmid) as [j [E1 E2]].
      destruct (secs_nth_mid_inj _ _ _ _ _ _ Hnd E2 Hi) as [-> Ekind].
      assert (Eu : upd k (set_mline i) trs = trs).
      { apply upd_id. intros x Hx. rewrite Ht in Hx. inversion Hx; subst x. apply set_mline_same. exact E1. }
      rewrite Eu, Ht in H. bind_inv H r Hr. destruct r as [[trs2 out2] sm2]. inversion H; subst trs' out sm'; clear H.
      destruct (IH _ _ _ _ _ _ _ Hr A Hnd Hss' Hk') as [I1 [I2 [I3 I4]]]. subst trs2.
      split; [reflexivity|]. split; [rewrite !secs_of_cons, I2; cbn [m_kind m_mid media_for_transceiver]; rewrite Ekind; reflexivity|]. split.
      * constructor; [|exact I3]. intros _. exists t. cbn. repeat split; auto.
      * intros x [<-|Hx]; [cbn; intro E; rewrite Ekind in E; rewrite E in Eav; discriminate | apply I4; exact Hx].
    + destruct (m_kind m =? 2) eqn:E2.
      * destruct hs; [|discriminate]. bind_inv H r Hr. destruct r as [[trs2 out2] sm2]. inversion H; subst trs' out sm'; clear H.
        destruct (IH _ _ _ _ _ _ _ Hr A Hnd Hss' Hk') as [I1 [I2 [I3 I4]]].
        split; [exact I1|]. apply Z.eqb_eq in E2. split; [rewrite !secs_of_cons, I2; cbn [m_kind m_mid media_for_sctp]; rewrite E2; reflexivity|]. split.
        -- constructor; [|exact I3]. intro Hc. cbn in Hc. discriminate.
        -- intros x _ _. reflexivity.
      * exfalso. destruct (Hk O m eq_refl) as [Q|Q]; [congruence | rewrite Q in E2; discriminate].
Qed.

(* ---- new m-sections: createOffer numbers them, setLocalDescription(offer) names them ------------------------ *)
Lemma assign_mids_app : forall a b i p, assign_mids (a ++ b) i p =
  bind (assign_mids a i p) (fun p1 => assign_mids b (i + length a) p1).
Proof.
  induction a as [|m a IH]; intros b i p; cbn [app assign_mids length].
  - rewrite Nat.add_0_r. reflexivity.
  - replace (i + Datatypes.S (length a))%nat with (Datatypes.S i + length a)%nat by lia.
    destruct (is_av (m_kind m)).
    + destruct (find_idx (mline_is i) (p_trs (set_seen p (sadd (m_mid m) (p_seen p))))); [apply IH | reflexivity].
    + destruct (m_kind m =? 2).
      * destruct (p_sctp (set_seen p (sadd (m_mid m) (p_seen p)))); [apply IH | reflexivity].
      * apply IH.
Qed.

(* what setLocalDescription(offer) makes of the transceivers that had no mid: mids in the order of `mids` *)
Fixpoint assign_new (trs : list transceiver) (next : nat) (mids : list Z) : list transceiver :=
  match trs with
  | [] => []
  | t :: ts =>
      match t_mid t with
      | Some _ => t :: assign_new ts next mids
      | None => match mids with
                | mu :: mids' => set_mid mu (set_mline next t) :: assign_new ts (Datatypes.S next) mids'
                | [] => t :: ts
                end
      end
  end.

Lemma mline_is_true : forall i t, mline_is i t = true -> t_mline t = Some i.
Proof.
  intros i t H. unfold mline_is in H. destruct (t_mline t) as [x|]; cbn in H; [apply Nat.eqb_eq in H; congruence | discriminate].
Qed.

Lemma mline_is_false : forall i t, t_mline t <> Some i -> mline_is i t = false.
Proof.
  intros i t H. unfold mline_is. destruct (t_mline t) as [x|]; cbn; [|reflexivity].
  destruct (Nat.eqb_spec x i); [subst; congruence | reflexivity].
Qed.

Definition below (n : nat) (t : transceiver) : Prop := forall j, t_mline t = Some j -> (j < n)%nat.

Lemma new_part : forall rest pre next mids rest' out mids',
  offer_new rest next mids = Ok (rest', out, mids') ->
  (forall y, In y pre -> below next y) ->
  (forall y, In y rest -> match t_mid y with Some _ => below next y | None => t_mline y = None end) ->
  (forall y, In y rest -> is_av (t_kind y) = true) ->
  forall p, p_trs p = pre ++ rest' ->
  exists p', assign_mids out next p = Ok p' /\
             p_trs p' = pre ++ assign_new rest next (map m_mid out) /\
             p_sctp p' = p_sctp p /\ p_transports p' = p_transports p /\ same_descs p p' /\
             incl (p_seen p) (p_seen p') /\ incl (map m_mid out) (p_seen p') /\
             (forall mu, In mu (p_seen p') -> In mu (p_seen p) \/ In mu (map m_mid out)).
Proof.
  induction rest as [|t ts IH]; intros pre next mids rest' out mids' H Hpre Hrest Hkind p Hp; cbn [offer_new] in H.
  - inversion H; subst. cbn [assign_mids assign_new map]. exists p. rewrite Hp.
    repeat split; auto using incl_refl; try (unfold same_descs; tauto). intros x [].
  - destruct (t_mid t) as [x|] eqn:Em.
    + bind_inv H r Hr. destruct r as [[ts' out2] mids2]. inversion H; subst rest' out mids'; clear H.
      assert (Hp' : p_trs p = (pre ++ [t]) ++ ts') by (rewrite Hp, <- app_assoc; reflexivity).
      destruct (IH (pre ++ [t]) _ _ _ _ _ Hr) with (p := p) as [p' [I1 [I2 [I3 [I4 [I5 [I6 [I7 I8]]]]]]]]; auto.
      * intros y Hy. apply in_app_or in Hy. destruct Hy as [Hy|[<-|[]]]; [apply Hpre; exact Hy|].
        specialize (Hrest t (or_introl eq_refl)). rewrite Em in Hrest. exact Hrest.
      * intros y Hy. apply Hrest. right. exact Hy.
      * intros y Hy. apply Hkind. right. exact Hy.
      * exists p'. split; [exact I1|]. split; [rewrite I2; cbn [assign_new]; rewrite Em, <- app_assoc; reflexivity|].
        split; [exact I3|]. split; [exact I4|]. split; [exact I5|]. split; [exact I6|]. split; [exact I7 | exact I8].
    + bind_inv H m Hm. bind_inv H r Hr. destruct r as [[ts' out2] mids2]. inversion H; subst rest' out mids'; clear H.
      pose proof (Hrest t (or_introl eq_refl)) as Hl. rewrite Em in Hl.
      cbn [assign_mids map m_mid media_for_transceiver m_kind].
      assert (Hk : is_av (t_kind (set_mline next t)) = true) by (cbn; apply Hkind; left; reflexivity).
      rewrite Hk. cbn [p_trs set_seen]. rewrite Hp.
      assert (Ef : find_idx (mline_is next) (pre ++ set_mline next t :: ts') = Some (length pre)).
      { apply (find_idx_unique _ _ _ _ (set_mline next t)).
        - apply nth_error_split.
        - unfold mline_is. cbn. apply Nat.eqb_refl.
        - intros j y Hj Hy. apply mline_is_true in Hy.
          destruct (nth_error_mid_cases _ _ _ _ _ _ Hj) as [[L Hin]|[[E _]|[L Hin]]]; [|exact E|].
          + specialize (Hpre y Hin next Hy). lia.
          + exfalso. (* elements after it come from ts: their m-line is below next, or above it *)
            clear - Hr Hin Hy Hrest.
            assert (G : forall ts next mids ts' out mids', offer_new ts next mids = Ok (ts', out, mids') ->
                        forall y, In y ts' -> (In y ts /\ t_mid y <> None) \/ (exists n, (next <= n)%nat /\ t_mline y = Some n /\ t_mid y = None)).
            { clear. induction ts as [|t ts IH]; intros next mids ts' out mids' H y Hy; cbn [offer_new] in H.
              - inversion H; subst. destruct Hy.
              - destruct (t_mid t) eqn:Em.
                + bind_inv H r Hr. destruct r as [[a b] c]. inversion H; subst.
                  destruct Hy as [<-|Hy]; [left; split; [left; reflexivity | congruence]|].
                  destruct (IH _ _ _ _ _ Hr y Hy) as [[Q1 Q2]|[n [Q1 Q2]]]; [left; split; [right; exact Q1 | exact Q2] | right; exists n; auto].
                + bind_inv H m Hm. bind_inv H r Hr. destruct r as [[a b] c]. inversion H; subst.
                  destruct Hy as [<-|Hy]; [right; exists next; cbn; auto|].
                  destruct (IH _ _ _ _ _ Hr y Hy) as [[Q1 Q2]|[n [Q1 Q2]]]; [left; split; [right; exact Q1 | exact Q2] | right; exists n; split; [lia | exact Q2]]. }
            destruct (G _ _ _ _ _ _ Hr y Hin) as [[Q1 Q2]|[n [Q1 [Q2 _]]]].
            * specialize (Hrest y (or_intror Q1)). destruct (t_mid y); [|congruence]. specialize (Hrest next Hy). lia.
            * rewrite Hy in Q2. inversion Q2. lia. }
      rewrite Ef. rewrite upd_split.
      set (p1 := set_trs (set_seen p (sadd m (p_seen p))) (pre ++ set_mid m (set_mline next t) :: ts')).
      assert (Hp1 : p_trs p1 = (pre ++ [set_mid m (set_mline next t)]) ++ ts') by (subst p1; cbn; rewrite <- app_assoc; reflexivity).
      destruct (IH (pre ++ [set_mid m (set_mline next t)]) _ _ _ _ _ Hr) with (p := p1) as [p' [I1 [I2 [I3 [I4 [I5 [I6 [I7 I8]]]]]]]]; auto.
      * intros y Hy. apply in_app_or in Hy. destruct Hy as [Hy|[<-|[]]].
        -- intros j Hj. specialize (Hpre y Hy j Hj). lia.
        -- intros j Hj. cbn in Hj. inversion Hj. lia.
      * intros y Hy. specialize (Hrest y (or_intror Hy)). destruct (t_mid y); [|exact Hrest]. intros j Hj. specialize (Hrest j Hj). lia.
      * intros y Hy. apply Hkind. right. exact Hy.
      * destruct (sadd_incl m (p_seen p)) as [S1 S2].
        exists p'. split; [exact I1|]. split.
        -- rewrite I2. cbn [assign_new map m_mid]. rewrite Em, <- app_assoc. reflexivity.
        -- subst p1. cbn in I3, I4, I5, I6, I8. split; [exact I3|]. split; [exact I4|].
           split; [unfold same_descs in *; cbn in I5; tauto|].
           split; [eapply incl_tran; eauto|].
           split; [intros z [<-|Hz]; [apply I6; exact S2 | apply I7; exact Hz]|].
           intros mu Hmu. destruct (I8 mu Hmu) as [Q|Q]; [|right; right; exact Q].
           unfold sadd in Q. destruct (existsb (Z.eqb m) (p_seen p)); [left; exact Q|].
           destruct Q as [<-|Q]; [right; left; reflexivity | left; exact Q].
Qed.

Lemma offer_existing_total : forall ss ms i trs hs sm,
  aligned trs ss -> NoDup (map snd ss) ->
  (forall j m, nth_error ms j = Some m -> nth_error ss (i + j) = Some (m_kind m, m_mid m)) ->
  (forall j m, nth_error ms j = Some m -> is_av (m_kind m) = true \/ (m_kind m = 2 /\ hs = true)) ->
  exists out sm', offer_existing ms i trs hs sm = Ok (trs, out, sm').
Proof.
  intros ss. induction ms as [|m ms IH]; intros i trs hs sm A Hnd Hss Hk; cbn [offer_existing].
  - eexists. eexists. reflexivity.
  - pose proof (Hss O m eq_refl) as Hi. rewrite Nat.add_0_r in Hi.
    assert (Hss' : forall j x, nth_error ms j = Some x -> nth_error ss (Datatypes.S i + j) = Some (m_kind x, m_mid x)).
    { intros j x Hj. specialize (Hss (Datatypes.S j) x Hj). rewrite Nat.add_succ_r in Hss. exact Hss. }
    assert (Hk' : forall j x, nth_error ms j = Some x -> is_av (m_kind x) = true \/ (m_kind x = 2 /\ hs = true))
      by (intros j x Hj; apply (Hk (Datatypes.S j) x Hj)).
    destruct (is_av (m_kind m)) eqn:Eav.
    + destruct (al_sec _ _ A i _ _ Hi Eav) as [t [Hin Hm]].
      apply In_nth_error in Hin. destruct Hin as [k Hk0].
      assert (Ef : find_idx (mid_is (m_mid m)) trs = Some k).
      { apply (find_idx_unique _ _ _ _ t Hk0).
        - unfold mid_is. rewrite Hm. cbn. apply Z.eqb_refl.
        - intros j y Hj Hy. apply mid_is_true in Hy. exact (al_uniq _ _ A j k y t _ Hj Hk0 Hy Hm). }
      rewrite Ef.
      destruct (al_mid _ _ A t _ (nth_error_In _ _ Hk0) Hm) as [j [E1 E2]].
      destruct (secs_nth_mid_inj _ _ _ _ _ _ Hnd E2 Hi) as [-> Ekind].
      assert (Eu : upd k (set_mline i) trs = trs).
      { apply upd_id. intros x Hx. rewrite Hk0 in Hx. inversion Hx; subst x. apply set_mline_same. exact E1. }
      rewrite Eu, Hk0. destruct (IH (Datatypes.S i) trs hs sm A Hnd Hss' Hk') as [out [sm' E]]. rewrite E. cbn [bind].
      eexists. eexists. reflexivity.
    + destruct (Hk O m eq_refl) as [Q|[Q1 Q2]]; [congruence|]. rewrite Q1. cbn [Z.eqb]. subst hs.
      destruct (IH (Datatypes.S i) trs true (Some i) A Hnd Hss' Hk') as [out [sm' E]]. rewrite E. cbn [bind].
      eexists. eexists. reflexivity.
Qed.

(* the sections createOffer gives to transceivers without mid *)
Fixpoint new_secs_ok (rest : list transceiver) (i : nat) (mids : list Z) (ss : list (Z * Z)) : Prop :=
  match rest with
  | [] => mids = []
  | t :: ts =>
      match t_mid t with
      | Some _ => new_secs_ok ts i mids ss
      | None => match mids with
                | mu :: mids' => nth_error ss i = Some (t_kind t, mu) /\ new_secs_ok ts (Datatypes.S i) mids' ss
                | [] => False
                end
      end
  end.

Lemma offer_new_secs : forall rest next mids rest' out mids' ss,
  offer_new rest next mids = Ok (rest', out, mids') ->
  (forall j m, nth_error out j = Some m -> nth_error ss (next + j) = Some (m_kind m, m_mid m)) ->
  new_secs_ok rest next (map m_mid out) ss.
Proof.
  induction rest as [|t ts IH]; intros next mids rest' out mids' ss H Hss; cbn [offer_new] in H; cbn [new_secs_ok].
  - inversion H; subst. reflexivity.
  - destruct (t_mid t) eqn:Em.
    + bind_inv H r Hr. destruct r as [[a b] c]. inversion H; subst. eapply IH; eauto.
    + bind_inv H m Hm. bind_inv H r Hr. destruct r as [[a b] c]. inversion H; subst. cbn [map m_mid media_for_transceiver].
      split.
      * specialize (Hss O _ eq_refl). rewrite Nat.add_0_r in Hss. cbn in Hss. exact Hss.
      * eapply IH; eauto. intros j x Hj. specialize (Hss (Datatypes.S j) x Hj). rewrite Nat.add_succ_r in Hss. exact Hss.
Qed.

Lemma assign_new_ali : forall rest pre i mids0 ss mids,
  ali i mids0 (pre ++ rest) ss -> NoDup (map snd ss) ->
  (forall y, In y pre -> t_mid y <> None) ->
  new_secs_ok rest i mids ss -> (forall mu, In mu mids -> ~ In mu mids0) ->
  (forall y, In y rest -> is_av (t_kind y) = true) ->
  ali (i + length mids) mids0 (pre ++ assign_new rest i mids) ss.
Proof.
  induction rest as [|t ts IH]; intros pre i mids0 ss mids A Hnd Hpre Hns Hfresh Hkind; cbn [new_secs_ok assign_new] in *.
  - subst mids. cbn. rewrite Nat.add_0_r. exact A.
  - destruct (t_mid t) as [x|] eqn:Em.
    + replace (pre ++ t :: assign_new ts i mids) with ((pre ++ [t]) ++ assign_new ts i mids) by (rewrite <- app_assoc; reflexivity).
      apply IH; auto.
      * rewrite <- app_assoc. exact A.
      * intros y Hy. apply in_app_or in Hy. destruct Hy as [Hy|[<-|[]]]; [apply Hpre; exact Hy | congruence].
      * intros y Hy. apply Hkind. right. exact Hy.
    + destruct mids as [|mu mids']; [contradiction|]. destruct Hns as [Hi Hns].
      replace (pre ++ set_mid mu (set_mline i t) :: assign_new ts (Datatypes.S i) mids')
        with ((pre ++ [set_mid mu (set_mline i t)]) ++ assign_new ts (Datatypes.S i) mids') by (rewrite <- app_assoc; reflexivity).
      cbn [length]. replace (i + Datatypes.S (length mids'))%nat with (Datatypes.S i + length mids')%nat by lia.
      apply IH; auto.
      * rewrite <- app_assoc. cbn [app].
        apply (ali_step_av i mids0 pre t _ ts ss (t_kind t) mu); auto.
        -- apply Hkind. left. reflexivity.
        -- split; [reflexivity | left; exact Em].
        -- intros y Hy [Hk [Hc|Hc]]; [exact (Hpre y Hy Hc)|].
           destruct (li_mid _ _ _ _ A y mu (in_or_app _ _ _ (or_introl Hy)) Hc) as [j [_ [E2 E3]]].
           destruct (secs_nth_mid_inj _ _ _ _ _ _ Hnd E2 Hi) as [-> _].
           destruct E3 as [E3|E3]; [lia | apply (Hfresh mu (or_introl eq_refl) E3)].
        -- rewrite Em. reflexivity.
      * intros y Hy. apply in_app_or in Hy. destruct Hy as [Hy|[<-|[]]]; [apply Hpre; exact Hy | cbn; discriminate].
      * intros m Hm. apply Hfresh. right. exact Hm.
      * intros y Hy. apply Hkind. right. exact Hy.
Qed.

Lemma offer_new_total : forall rest next mids, exists rest' out mids', offer_new rest next mids = Ok (rest', out, mids').
Proof.
  induction rest as [|t ts IH]; intros next mids; cbn [offer_new].
  - eexists. eexists. eexists. reflexivity.
  - destruct (t_mid t).
    + destruct (IH next mids) as [a [b [c E]]]. rewrite E. cbn [bind]. eexists. eexists. eexists. reflexivity.
    + destruct (allocate_mid_ok mids) as [m Hm]. rewrite Hm. cbn [bind].
      destruct (IH (Datatypes.S next) (m :: mids)) as [a [b [c E]]]. rewrite E. cbn [bind]. eexists. eexists. eexists. reflexivity.
Qed.

Lemma offer_new_kinds : forall rest next mids rest' out mids', offer_new rest next mids = Ok (rest', out, mids') ->
  forall m, In m out -> exists t, In t rest /\ m_kind m = t_kind t.
Proof.
  induction rest as [|t ts IH]; intros next mids rest' out mids' H m Hm; cbn [offer_new] in H.
  - inversion H; subst. destruct Hm.
  - destruct (t_mid t).
    + bind_inv H r Hr. destruct r as [[a b] c]. inversion H; subst.
      destruct (IH _ _ _ _ _ Hr m Hm) as [x [Hx E]]. exists x. split; [right; exact Hx | exact E].
    + bind_inv H mu Hmu. bind_inv H r Hr. destruct r as [[a b] c]. inversion H; subst.
      destruct Hm as [<-|Hm]; [exists t; split; [left; reflexivity | reflexivity]|].
      destruct (IH _ _ _ _ _ Hr m Hm) as [x [Hx E]]. exists x. split; [right; exact Hx | exact E].
Qed.

(* elements of assign_new: untouched transceivers with a mid, or a new (mid, m-line) on one without *)
Lemma assign_new_elem : forall rest i mids ss t', new_secs_ok rest i mids ss -> In t' (assign_new rest i mids) ->
  t_mid t' <> None /\
  exists t, In t rest /\ t_kind t' = t_kind t /\ t_transport t' = t_transport t /\ t_preferred t' = t_preferred t /\
            t_codecs t' = t_codecs t /\ t_exts t' = t_exts t /\ t_direction t' = t_direction t /\
            (t_mid t <> None -> t' = t).
Proof.
  induction rest as [|t ts IH]; intros i mids ss t' Hns Hin; cbn [new_secs_ok assign_new] in *; [destruct Hin|].
  destruct (t_mid t) as [x|] eqn:Em.
  - destruct Hin as [<-|Hin].
    + split; [congruence|]. exists t. repeat split; auto. left. reflexivity.
    + destruct (IH _ _ _ _ Hns Hin) as [Q1 [t0 [Q2 Q3]]]. split; [exact Q1|]. exists t0. split; [right; exact Q2 | exact Q3].
  - destruct mids as [|mu mids']; [contradiction|]. destruct Hns as [_ Hns]. destruct Hin as [<-|Hin].
    + split; [cbn; discriminate|]. exists t. cbn. repeat split; auto. intro Hc. congruence.
    + destruct (IH _ _ _ _ Hns Hin) as [Q1 [t0 [Q2 Q3]]]. split; [exact Q1|]. exists t0. split; [right; exact Q2 | exact Q3].
Qed.

Lemma assign_new_keeps : forall rest i mids t, In t rest -> t_mid t <> None -> In t (assign_new rest i mids).
Proof.
  induction rest as [|x ts IH]; intros i mids t Hin Hm; [destruct Hin|]. cbn [assign_new].
  destruct Hin as [->|Hin].
  - destruct (t_mid t); [left; reflexivity | congruence].
  - destruct (t_mid x); [right; apply IH; auto|]. destruct mids; [right; exact Hin | right; apply IH; auto].
Qed.

Lemma offer_new_from : forall rest next mids rest' out mids', offer_new rest next mids = Ok (rest', out, mids') ->
  forall pre, Forall (from_transceiver (pre ++ assign_new rest next (map m_mid out))) out.
Proof.
  induction rest as [|t ts IH]; intros next mids rest' out mids' H pre; cbn [offer_new] in H.
  - inversion H; subst. constructor.
  - destruct (t_mid t) eqn:Em.
    + bind_inv H r Hr. destruct r as [[a b] c]. inversion H; subst. cbn [assign_new]. rewrite Em.
      replace (pre ++ t :: assign_new ts next (map m_mid out)) with ((pre ++ [t]) ++ assign_new ts next (map m_mid out))
        by (rewrite <- app_assoc; reflexivity).
      eapply IH; eauto.
    + bind_inv H mu Hmu. bind_inv H r Hr. destruct r as [[a b] c]. inversion H; subst.
      cbn [map m_mid media_for_transceiver assign_new]. rewrite Em.
      constructor.
      * intros _. exists (set_mid mu (set_mline next t)). split; [apply in_or_app; right; left; reflexivity|]. cbn. repeat split; auto.
      * replace (pre ++ set_mid mu (set_mline next t) :: assign_new ts (Datatypes.S next) (map m_mid b))
          with ((pre ++ [set_mid mu (set_mline next t)]) ++ assign_new ts (Datatypes.S next) (map m_mid b))
          by (rewrite <- app_assoc; reflexivity).
        eapply IH; eauto.
Qed.

(* setLocalDescription(offer) on the sections that already existed: nothing changes *)
Lemma assign_mids_noop : forall ss bound ms i p,
  (forall j m, nth_error ms j = Some m -> nth_error ss (i + j) = Some (m_kind m, m_mid m)) ->
  (i + length ms <= bound)%nat ->
  (forall j m, nth_error ms j = Some m -> is_av (m_kind m) = true \/ m_kind m = 2) ->
  (forall t j, In t (p_trs p) -> t_mline t = Some j -> (j < bound)%nat -> exists k mu, nth_error ss j = Some (k, mu) /\ t_mid t = Some mu) ->
  (forall j k mu, nth_error ss j = Some (k, mu) -> is_av k = true -> (j < bound)%nat -> exists t, In t (p_trs p) /\ t_mline t = Some j) ->
  (forall j mu, nth_error ss j = Some (2, mu) -> (j < bound)%nat -> exists s, p_sctp p = Some s /\ s_mid s = Some mu) ->
  exists p', assign_mids ms i p = Ok p' /\ p_trs p' = p_trs p /\ p_sctp p' = p_sctp p /\ p_transports p' = p_transports p /\
             same_descs p p' /\ incl (p_seen p) (p_seen p') /\ incl (map m_mid ms) (p_seen p') /\
             (forall mu, In mu (p_seen p') -> In mu (p_seen p) \/ In mu (map m_mid ms)) /\
             p_sctp_mline p' = p_sctp_mline p /\ p_policy p' = p_policy p.
Proof.
  intros ss bound. induction ms as [|m ms IH]; intros i p Hss Hb Hk H1 H2 H3; cbn [assign_mids].
  - exists p. repeat split; auto using incl_refl; try (unfold same_descs; tauto). intros x [].
  - pose proof (Hss O m eq_refl) as Hi. rewrite Nat.add_0_r in Hi. cbn [length] in Hb.
    assert (Hss' : forall j x, nth_error ms j = Some x -> nth_error ss (Datatypes.S i + j) = Some (m_kind x, m_mid x)).
    { intros j x Hj. specialize (Hss (Datatypes.S j) x Hj). rewrite Nat.add_succ_r in Hss. exact Hss. }
    assert (Hk' : forall j x, nth_error ms j = Some x -> is_av (m_kind x) = true \/ m_kind x = 2)
      by (intros j x Hj; apply (Hk (Datatypes.S j) x Hj)).
    destruct (sadd_incl (m_mid m) (p_seen p)) as [S1 S2].
    assert (Fin : forall p1, p_trs p1 = p_trs p -> p_sctp p1 = p_sctp p -> p_transports p1 = p_transports p ->
                  same_descs p p1 -> p_seen p1 = sadd (m_mid m) (p_seen p) -> p_sctp_mline p1 = p_sctp_mline p -> p_policy p1 = p_policy p ->
                  exists p', assign_mids ms (Datatypes.S i) p1 = Ok p' /\ p_trs p' = p_trs p /\ p_sctp p' = p_sctp p /\
                    p_transports p' = p_transports p /\ same_descs p p' /\ incl (p_seen p) (p_seen p') /\
                    incl (map m_mid (m :: ms)) (p_seen p') /\
                    (forall mu, In mu (p_seen p') -> In mu (p_seen p) \/ In mu (map m_mid (m :: ms))) /\
                    p_sctp_mline p' = p_sctp_mline p /\ p_policy p' = p_policy p).
    { intros p1 E1 E2 E3 E4 E5 E6 E7.
      destruct (IH (Datatypes.S i) p1) as [p' [I1 [I2 [I3 [I4 [I5 [I6 [I7 [I8 [I9 I10]]]]]]]]]]; auto; try lia.
      - rewrite E1. exact H1.
      - rewrite E1. exact H2.
      - rewrite E2. exact H3.
      - exists p'. split; [exact I1|]. split; [congruence|]. split; [congruence|]. split; [congruence|].
        split; [eapply same_descs_trans; eauto|]. rewrite E5 in I6, I8.
        split; [eapply incl_tran; eauto|].
        split; [intros z [<-|Hz]; [apply I6; exact S2 | apply I7; exact Hz]|].
        split; [|split; congruence].
        intros mu Hmu. destruct (I8 mu Hmu) as [Q|Q]; [|right; right; exact Q].
        unfold sadd in Q. destruct (existsb (Z.eqb (m_mid m)) (p_seen p)); [left; exact Q|].
        destruct Q as [<-|Q]; [right; left; reflexivity | left; exact Q]. }
    destruct (is_av (m_kind m)) eqn:Eav.
    + cbn [p_trs set_seen]. destruct (H2 i _ _ Hi Eav ltac:(lia)) as [t [Hin Hl]].
      apply In_nth_error in Hin. destruct Hin as [k0 Hk0].
      destruct (find_idx (mline_is i) (p_trs p)) as [k|] eqn:Ef.
      * destruct (find_idx_nth _ _ _ _ Ef) as [t1 [Ht1 [Hml _]]]. apply mline_is_true in Hml.
        destruct (H1 t1 i (nth_error_In _ _ Ht1) Hml ltac:(lia)) as [k' [mu' [E1 E2]]].
        rewrite Hi in E1. inversion E1; subst k' mu'.
        assert (Eu : upd k (set_mid (m_mid m)) (p_trs p) = p_trs p).
        { apply upd_id. intros x Hx. rewrite Ht1 in Hx. inversion Hx; subst x. apply set_mid_same. exact E2. }
        rewrite Eu. apply Fin; cbn; auto. unfold same_descs. cbn. tauto.
      * exfalso. pose proof (find_idx_none _ _ _ Ef t (nth_error_In _ _ Hk0)) as Q. unfold mline_is in Q. rewrite Hl in Q. cbn in Q.
        rewrite Nat.eqb_refl in Q. discriminate.
    + destruct (Hk O m eq_refl) as [Q|Q]; [congruence|]. rewrite Q. cbn [Z.eqb]. cbn [p_sctp set_seen].
      rewrite Q in Hi. destruct (H3 i _ Hi ltac:(lia)) as [s [Es Hm]].
      assert (Eq : mkSctp (Some (m_mid m)) (s_bundled s) (s_transport s) = s) by (destruct s; cbn in *; subst; reflexivity).
      destruct (Fin (set_sctp (set_seen p (sadd (m_mid m) (p_seen p))) (Some s))) as [p' [I1 I2]]; cbn; auto.
      { unfold same_descs. cbn. tauto. }
      exists p'. split; [|exact I2]. rewrite Es, Eq. exact I1.
Qed.

Lemma ali_prefix : forall n mids0 trs ss, ali 0 mids0 trs ss ->
  (forall j, (j < n)%nat -> exists k mu, nth_error ss j = Some (k, mu) /\ In mu mids0) -> ali n mids0 trs ss.
Proof.
  induction n as [|n IH]; intros mids0 trs ss A H; [exact A|].
  assert (An : ali n mids0 trs ss) by (apply IH; auto).
  destruct (H n ltac:(lia)) as [k [mu [Hn Hin]]].
  destruct (is_av k) eqn:Eav.
  - eapply ali_advance; eauto. eapply (li_sec _ _ _ _ An); eauto.
  - eapply ali_skip; eauto.
Qed.

Lemma wf_merged : forall T a, wf T a -> merged_media a = desc_media (local_description a) /\
  secs_of (desc_media (local_description a)) = S a.
Proof.
  intros T a W. split; [|reflexivity]. unfold merged_media. apply skipn_all_length.
  pose proof (wf_secs _ _ W) as E. unfold S, sections in E.
  rewrite <- (map_length (fun m => (m_kind m, m_mid m)) (desc_media (local_description a))), <- E. apply map_length.
Qed.

Lemma wf_inv_desc : forall T a, wf T a -> inv_desc a.
Proof.
  intros T a W. destruct (wf_merged _ _ W) as [E1 E2]. unfold inv_desc. rewrite E1.
  rewrite <- secs_of_mids, E2. split; [apply (wf_nodup _ _ W) | apply (wf_seen _ _ W)].
Qed.

Lemma offer_phase : forall fixed T a trs0,
  wf T a -> offer_codecs T (p_trs a) = Ok trs0 ->
  exists a1 offer a2,
    create_offer T a = Ok (a1, offer) /\ set_local_description fixed a1 offer = Ok a2 /\
    wfs T a2 (secs_of (d_media offer)) /\ extends (secs_of (d_media offer)) (S a) /\
    NoDup (map m_mid (d_media offer)) /\ app_unique (secs_of (d_media offer)) /\ kinds_ok (secs_of (d_media offer)) /\
    (forall t, In t (p_trs a2) -> offered T t /\ t_mid t <> None) /\
    Forall (from_transceiver (p_trs a2)) (d_media offer) /\
    (forall t, In t (p_trs a2) -> exists ta, In ta (p_trs a) /\ t_kind t = t_kind ta /\ t_preferred t = t_preferred ta).
Proof.
  intros fixed T a trs0 W Hoc.
  pose proof W as [W1 W2 W3 W4 W5 W6 W7 W8 W9 W10 W11].
  destruct (wf_merged _ _ W) as [Em Es]. set (L := desc_media (local_description a)) in *.
  destruct (offer_codecs_spec _ _ _ Hoc) as [C1 [C2 C3]].
  assert (A0 : aligned trs0 (S a)) by (eapply aligned_keys; [symmetry; apply map_tinfo_akey; exact C1 | exact W6]).
  set (n0 := length L).
  assert (En0 : length (S a) = n0) by (rewrite <- Es; unfold secs_of; apply map_length).
  (* existing sections *)
  assert (HssL : forall j m, nth_error L j = Some m -> nth_error (S a) (0 + j) = Some (m_kind m, m_mid m)).
  { intros j m Hj. rewrite <- Es. apply nth_error_secs. exact Hj. }
  assert (HkL : forall j m, nth_error L j = Some m -> is_av (m_kind m) = true \/ (m_kind m = 2 /\ (match p_sctp a with Some _ => true | None => false end) = true)).
  { intros j m Hj. pose proof (HssL j m Hj) as Hs. cbn in Hs. apply nth_error_In in Hs.
    destruct (W5 _ Hs) as [Q|Q]; [left; exact Q|]. cbn in Q. right. split; [exact Q|].
    rewrite Q in Hs. destruct (W7 _ Hs) as [s [Hs' _]]. rewrite Hs'. reflexivity. }
  destruct (offer_existing_total (S a) L 0 trs0 (match p_sctp a with Some _ => true | None => false end) (p_sctp_mline a) A0 W3 HssL HkL)
    as [out1 [sm1 E1]].
  assert (HkL' : forall j m, nth_error L j = Some m -> is_av (m_kind m) = true \/ m_kind m = 2)
    by (intros j m Hj; destruct (HkL j m Hj) as [Q|[Q _]]; auto).
  destruct (offer_existing_same _ _ _ _ _ _ _ _ _ E1 A0 W3 HssL HkL') as [_ [X2 [X3 X4]]].
  assert (Elen1 : length out1 = n0).
  { rewrite <- (map_length (fun m => (m_kind m, m_mid m)) out1). fold (secs_of out1). rewrite X2. unfold secs_of. apply map_length. }
  (* new sections *)
  destruct (offer_new_total trs0 (length out1) (p_seen a)) as [trs2 [out2 [mids2 E2]]].
  destruct (offer_new_mids _ _ _ _ _ _ E2) as [N1 [N2 [N3 [N4 N5]]]].
  assert (E3 : exists out3 sm3,
             match p_sctp a with
             | Some s => match s_mid s with
                         | None => m <- allocate_mid mids2 ;; Ok ([media_for_sctp m RAuto], Some (length out1 + length out2)%nat)
                         | Some _ => Ok ([], sm1)
                         end
             | None => Ok ([], sm1)
             end = Ok (out3, sm3) /\
             ((out3 = [] /\ (forall s, p_sctp a = Some s -> s_mid s <> None)) \/
              (exists m s, out3 = [media_for_sctp m RAuto] /\ p_sctp a = Some s /\ s_mid s = None /\ ~ In m mids2))).
  { destruct (p_sctp a) as [s|] eqn:Esc.
    - destruct (s_mid s) eqn:Esm.
      + eexists. eexists. split; [reflexivity|]. left. split; [reflexivity|]. intros s' Hs'. inversion Hs'; subst. congruence.
      + destruct (allocate_mid_ok mids2) as [m Hm]. rewrite Hm. cbn [bind]. eexists. eexists. split; [reflexivity|].
        right. exists m, s. apply allocate_mid_fresh in Hm. tauto.
    - eexists. eexists. split; [reflexivity|]. left. split; [reflexivity|]. intros s Hs. discriminate. }
  destruct E3 as [out3 [sm3 [E3 Hout3]]].
  set (ms := out1 ++ out2 ++ out3).
  set (offer := mkDesc 0 ms (map m_mid ms)).
  set (a1 := set_sctp_mline (set_trs a trs2) sm3).
  assert (Hco : create_offer T a = Ok (a1, offer)).
  { unfold create_offer. rewrite W1, Hoc. cbn [bind]. fold (merged_media a). rewrite Em. fold L.
    rewrite E1. cbn [bind]. rewrite E2. cbn [bind]. rewrite E3. cbn [bind]. reflexivity. }
  exists a1, offer.
  (* the section list of the offer *)
  set (ss := secs_of ms).
  assert (Ess : ss = S a ++ secs_of out2 ++ secs_of out3).
  { subst ss ms. rewrite !secs_of_app, X2, Es. reflexivity. }
  assert (Hnd : NoDup (map m_mid ms)).
  { destruct (create_offer_spec _ _ _ _ Hco) as [_ [_ [_ [_ O5]]]]. apply O5. eapply wf_inv_desc; eauto. }
  assert (Hnd' : NoDup (map snd ss)) by (subst ss; rewrite secs_of_mids; exact Hnd).
  assert (Hext : extends ss (S a)).
  { intros j x Hj. rewrite Ess. rewrite nth_error_app1; [exact Hj | apply nth_error_Some; congruence]. }
  assert (Hss2 : forall j m, nth_error out2 j = Some m -> nth_error ss (length out1 + j) = Some (m_kind m, m_mid m)).
  { intros j m Hj. rewrite Ess. rewrite nth_error_app2 by lia. rewrite En0, Elen1.
    replace (n0 + j - n0)%nat with j by lia. rewrite nth_error_app1 by (unfold secs_of; rewrite map_length; apply nth_error_Some; congruence).
    apply nth_error_secs. exact Hj. }
  assert (Hk2 : forall m, In m out2 -> is_av (m_kind m) = true).
  { intros m Hm. destruct (offer_new_kinds _ _ _ _ _ _ E2 m Hm) as [t [Ht ->]]. apply (al_kind _ _ A0). exact Ht. }
  (* setLocalDescription(offer) *)
  set (p1 := set_state a1 HaveLocalOffer).
  assert (Hp1 : p_trs p1 = [] ++ trs2) by reflexivity.
  (* part 1: existing sections change nothing *)
  assert (Htrs2 : forall y, In y trs2 -> (In y trs0 /\ t_mid y <> None) \/ (exists n, (length out1 <= n)%nat /\ t_mline y = Some n /\ t_mid y = None)).
  { clear - E2. revert E2. generalize (length out1) (p_seen a) trs2 out2 mids2.
    induction trs0 as [|t ts IH]; intros next mids ts' out mids' H y Hy; cbn [offer_new] in H.
    - inversion H; subst. destruct Hy.
    - destruct (t_mid t) eqn:Em.
      + bind_inv H r Hr. destruct r as [[a0 b] c]. inversion H; subst.
        destruct Hy as [<-|Hy]; [left; split; [left; reflexivity | congruence]|].
        destruct (IH _ _ _ _ _ Hr y Hy) as [[Q1 Q2]|[n [Q1 Q2]]]; [left; split; [right; exact Q1 | exact Q2] | right; exists n; auto].
      + bind_inv H m Hm. bind_inv H r Hr. destruct r as [[a0 b] c]. inversion H; subst.
        destruct Hy as [<-|Hy]; [right; exists next; cbn; auto|].
        destruct (IH _ _ _ _ _ Hr y Hy) as [[Q1 Q2]|[n [Q1 Q2]]]; [left; split; [right; exact Q1 | exact Q2] | right; exists n; split; [lia | exact Q2]]. }
  assert (Hkeep : forall t, In t trs0 -> t_mid t <> None -> In t trs2).
  { clear - E2. revert E2. generalize (length out1) (p_seen a) trs2 out2 mids2.
    induction trs0 as [|x ts IH]; intros next mids ts' out mids' H t Hin Hm; [destruct Hin|]. cbn [offer_new] in H.
    destruct (t_mid x) eqn:Ex.
    - bind_inv H r Hr. destruct r as [[a0 b] c]. inversion H; subst. destruct Hin as [->|Hin]; [left; reflexivity | right; eapply IH; eauto].
    - bind_inv H m Hm'. bind_inv H r Hr. destruct r as [[a0 b] c]. inversion H; subst.
      destruct Hin as [->|Hin]; [congruence | right; eapply IH; eauto]. }
  destruct (assign_mids_noop ss n0 out1 0 p1) as [q1 [Q1 [Q2 [Q3 [Q4 [Q5 [Q6 [Q7 [Q8 [Q9 Q10]]]]]]]]]].
  { intros j m Hj. cbn. rewrite Ess. rewrite nth_error_app1.
    - rewrite <- Es, <- X2. apply nth_error_secs. exact Hj.
    - rewrite En0, <- Elen1. apply nth_error_Some. congruence. }
  { cbn. lia. }
  { intros j m Hj. assert (Hs : In (m_kind m, m_mid m) (S a)).
    { rewrite <- Es, <- X2. eapply nth_error_In. apply nth_error_secs. exact Hj. }
    destruct (W5 _ Hs) as [Q|Q]; auto. }
  { intros t j Hin Hl Hlt. cbn in Hin. destruct (Htrs2 t Hin) as [[I1 I2]|[n [I1 [I2 _]]]].
    - destruct (t_mid t) as [mu|] eqn:Emid; [|congruence].
      destruct (al_mid _ _ A0 t mu I1 Emid) as [j' [G1 G2]]. rewrite Hl in G1. inversion G1; subst j'.
      exists (t_kind t), mu. split; [apply Hext; exact G2 | reflexivity].
    - rewrite Hl in I2. inversion I2. lia. }
  { intros j k mu Hj Hav Hlt. cbn. assert (Hj' : nth_error (S a) j = Some (k, mu)).
    { rewrite Ess in Hj. rewrite nth_error_app1 in Hj by lia. exact Hj. }
    destruct (al_sec _ _ A0 j k mu Hj' Hav) as [t [Hin Hm]].
    destruct (al_mid _ _ A0 t mu Hin Hm) as [j' [G1 G2]].
    destruct (secs_nth_mid_inj _ _ _ _ _ _ W3 G2 Hj') as [-> _].
    exists t. split; [apply Hkeep; [exact Hin | congruence] | exact G1]. }
  { intros j mu Hj Hlt. cbn. assert (Hj' : nth_error (S a) j = Some (2, mu)).
    { rewrite Ess in Hj. rewrite nth_error_app1 in Hj by lia. exact Hj. }
    apply W7. eapply nth_error_In; eauto. }
  (* part 2: new audio/video sections *)
  destruct (new_part trs0 [] (length out1) (p_seen a) trs2 out2 mids2 E2) with (p := q1)
    as [q2 [R1 [R2 [R3 [R4 [R5 [R6 [R7 R8]]]]]]]].
  { intros y []. }
  { intros y Hy. destruct (t_mid y) as [mu|] eqn:Emid.
    - intros j Hj. destruct (al_mid _ _ A0 y mu Hy Emid) as [j' [G1 G2]]. rewrite Hj in G1. inversion G1; subst j'.
      rewrite Elen1, <- En0. apply nth_error_Some. congruence.
    - apply (al_none _ _ A0 y Hy Emid). }
  { intros y Hy. apply (al_kind _ _ A0 y Hy). }
  { rewrite Q2. reflexivity. }
  cbn [app] in R2.
  (* part 3: the new application section *)
  assert (P3 : exists q3, assign_mids out3 (length out1 + length out2) q2 = Ok q3 /\ p_trs q3 = p_trs q2 /\
               p_transports q3 = p_transports q2 /\ same_descs q2 q3 /\ incl (p_seen q2) (p_seen q3) /\
               incl (map m_mid out3) (p_seen q3) /\
               ((out3 = [] /\ p_sctp q3 = p_sctp a) \/
                (exists m s, out3 = [media_for_sctp m RAuto] /\ p_sctp a = Some s /\ s_mid s = None /\
                             p_sctp q3 = Some (mkSctp (Some m) (s_bundled s) (s_transport s))))).
  { assert (Esq : p_sctp q2 = p_sctp a) by (rewrite R3, Q3; reflexivity).
    destruct Hout3 as [[-> Hs]|[m [s [-> [Hs [Hm Hf]]]]]].
    - exists q2. cbn. repeat split; auto using incl_refl; try (unfold same_descs; tauto). intros x [].
    - cbn [assign_mids media_for_sctp m_kind is_av Z.eqb orb m_mid]. cbn [p_sctp set_seen]. rewrite Esq, Hs.
      eexists. split; [reflexivity|]. cbn. destruct (sadd_incl m (p_seen q2)) as [S1 S2].
      repeat split; auto; try (unfold same_descs; tauto).
      + intros x [<-|[]]. exact S2.
      + right. exists m, s. auto. }
  destruct P3 as [q3 [T1 [T2 [T3 [T4 [T5 [T6 T7]]]]]]].
  assert (Ham : assign_mids (d_media offer) 0 p1 = Ok q3).
  { subst offer ms. cbn [d_media]. rewrite assign_mids_app, Q1. cbn [bind]. rewrite assign_mids_app. cbn [Nat.add].
    rewrite R1. cbn [bind]. exact T1. }
  set (q4 := set_transports q3 (map (fun t => if tr_live t then tr_set_ice true t else t) (p_transports q3))).
  set (a2 := set_local q4 (p_cur_local q4) (Some offer)).
  assert (Hsl : set_local_description fixed a1 offer = Ok a2).
  { assert (Hst1 : p_state a1 = Stable) by exact W1.
    assert (Hval : validate_description a1 offer true = Ok tt) by (unfold validate_description; rewrite Hst1; reflexivity).
    pose proof Ham as Ham'. unfold p1 in Ham'.
    unfold set_local_description. rewrite Hst1, Hval. cbn [bind]. change (d_type offer) with 0. cbn [Z.eqb].
    rewrite Ham'. cbn [bind]. reflexivity. }
  exists a2. split; [exact Hco|]. split; [exact Hsl|].
  (* the resulting connection *)
  assert (Etrs : p_trs a2 = assign_new trs0 (length out1) (map m_mid out2)) by (subst a2 q4; cbn; rewrite T2, R2; reflexivity).
  assert (Hns : new_secs_ok trs0 (length out1) (map m_mid out2) ss) by (eapply offer_new_secs; eauto).
  assert (Hali : aligned (p_trs a2) ss).
  { rewrite Etrs. apply (ali_end (map snd (S a))).
    assert (B0 : ali 0 (map snd (S a)) trs0 ss) by (apply ali_start; auto).
    assert (B1 : ali n0 (map snd (S a)) trs0 ss).
    { apply ali_prefix; [exact B0|]. intros j Hj. rewrite <- En0 in Hj.
      destruct (nth_error (S a) j) as [[k mu]|] eqn:Ej; [|apply nth_error_None in Ej; lia].
      exists k, mu. split; [apply Hext; exact Ej|]. apply in_map_iff. exists (k, mu). split; [reflexivity | eapply nth_error_In; eauto]. }
    assert (B2 : ali (length out1 + length (map m_mid out2)) (map snd (S a)) ([] ++ assign_new trs0 (length out1) (map m_mid out2)) ss).
    { apply (assign_new_ali trs0 [] (length out1) (map snd (S a)) ss (map m_mid out2));
        [ cbn [app]; rewrite Elen1; exact B1 | exact Hnd' | intros y [] | exact Hns
        | intros mu Hmu Hc; apply (N2 mu Hmu); apply W4; exact Hc | intros y Hy; apply (al_kind _ _ A0 y Hy) ]. }
    cbn [app] in B2. rewrite map_length in B2.
    assert (Elss : length ss = (length out1 + length out2 + length out3)%nat).
    { subst ss ms. unfold secs_of. rewrite map_length, !app_length. lia. }
    rewrite Elss. destruct Hout3 as [[-> _]|[m [s [-> _]]]]; cbn [length].
    - rewrite Nat.add_0_r. exact B2.
    - replace (length out1 + length out2 + 1)%nat with (Datatypes.S (length out1 + length out2)) by lia.
      eapply (ali_skip _ _ _ _ 2 m); [exact B2 | | reflexivity].
      rewrite Ess. rewrite nth_error_app2 by lia. rewrite En0, <- Elen1.
      replace (length out1 + length out2 - length out1)%nat with (length out2) by lia.
      assert (El2 : length (secs_of out2) = length out2) by (unfold secs_of; apply map_length).
      rewrite nth_error_app2 by lia. rewrite El2, Nat.sub_diag. reflexivity. }
  assert (Hsctp : (out3 = [] /\ p_sctp a2 = p_sctp a) \/
                  (exists m s, out3 = [media_for_sctp m RAuto] /\ p_sctp a = Some s /\ s_mid s = None /\
                               p_sctp a2 = Some (mkSctp (Some m) (s_bundled s) (s_transport s)))) by (subst a2 q4; cbn; exact T7).
  assert (Htr : forall id, has_tr (p_transports a) id -> has_tr (p_transports a2) id).
  { intros id Hid. subst a2 q4. cbn. apply has_tr_map; [intro t; destruct (tr_live t); [apply tr_set_ice_id | reflexivity]|].
    rewrite T3, R4, Q4. exact Hid. }
  assert (Hseen : incl (map m_mid ms) (p_seen a2)).
  { subst a2 q4 ms. cbn. rewrite !map_app. intros x Hx. apply in_app_or in Hx. destruct Hx as [Hx|Hx].
    - apply T5. apply R6. apply Q7. exact Hx.
    - apply in_app_or in Hx. destruct Hx as [Hx|Hx]; [apply T5; apply R7; exact Hx | apply T6; exact Hx]. }
  change (secs_of (d_media offer)) with ss. change (d_media offer) with ms.
  split.
  { constructor.
    - exact Hnd'.
    - unfold ss. rewrite secs_of_mids. exact Hseen.
    - intros s Hs. rewrite Ess in Hs. apply in_app_or in Hs. destruct Hs as [Hs|Hs]; [apply W5; exact Hs|].
      apply in_app_or in Hs. destruct Hs as [Hs|Hs].
      + unfold secs_of in Hs. apply in_map_iff in Hs. destruct Hs as [m [<- Hm]]. left. cbn. apply Hk2. exact Hm.
      + destruct Hout3 as [[-> _]|[m [s0 [-> _]]]]; [destruct Hs | destruct Hs as [<-|[]]; right; reflexivity].
    - exact Hali.
    - intros mu Hmu. rewrite Ess in Hmu. apply in_app_or in Hmu. destruct Hmu as [Hmu|Hmu].
      + destruct (W7 mu Hmu) as [s [Hs Hm]]. destruct Hsctp as [[_ E]|[m [s0 [_ [Hs0 [Hm0 _]]]]]].
        * exists s. rewrite E. auto.
        * rewrite Hs in Hs0. inversion Hs0; subst. congruence.
      + apply in_app_or in Hmu. destruct Hmu as [Hmu|Hmu].
        * unfold secs_of in Hmu. apply in_map_iff in Hmu. destruct Hmu as [m [E Hm]]. inversion E as [[Ek Em']].
          pose proof (Hk2 m Hm) as Hav. rewrite Ek in Hav. discriminate.
        * destruct Hsctp as [[-> _]|[m [s0 [-> [Hs0 [Hm0 E]]]]]]; [destruct Hmu|].
          destruct Hmu as [Hmu|[]]. inversion Hmu; subst. eexists. split; [exact E | reflexivity].
    - intros s mu Hs Hm. destruct Hsctp as [[_ E]|[m [s0 [Eo [Hs0 [Hm0 E]]]]]].
      + rewrite E in Hs. rewrite Ess. apply in_or_app. left. eapply W8; eauto.
      + rewrite E in Hs. inversion Hs; subst s. cbn in Hm. inversion Hm; subst mu.
        rewrite Ess, Eo. apply in_or_app. right. apply in_or_app. right. left. reflexivity.
    - intros t Hin. rewrite Etrs in Hin. destruct (assign_new_elem _ _ _ _ _ Hns Hin) as [_ [t0 [Q [_ [Qt _]]]]].
      rewrite Qt. apply Htr. destruct (map_tinfo_In _ _ _ (eq_sym C1) Q) as [t1 [Hin1 E]]. apply tinfo_fields in E.
      destruct E as [_ [E _]]. rewrite <- E. apply W9. exact Hin1.
    - intros s Hs. destruct Hsctp as [[_ E]|[m [s0 [_ [Hs0 [_ E]]]]]].
      + rewrite E in Hs. apply Htr. apply W10. exact Hs.
      + rewrite E in Hs. inversion Hs; subst s. cbn. apply Htr. apply W10. exact Hs0.
    - intros t Hin. rewrite Etrs in Hin. destruct (assign_new_elem _ _ _ _ _ Hns Hin) as [_ [t0 [Q [Qk [_ [Qp _]]]]]].
      rewrite Qk, Qp. destruct (map_tinfo_In _ _ _ (eq_sym C1) Q) as [t1 [Hin1 E]]. apply tinfo_fields in E.
      destruct E as [Ek [_ Ep]]. apply akey_fields in Ek. destruct Ek as [Ek _]. rewrite <- Ek, <- Ep. apply W11. exact Hin1. }
  split; [exact Hext|]. split; [exact Hnd|]. split.
  { (* at most one application section *)
    intros j1 j2 m1 m2 H1 H2.
    assert (Hmid : forall j mu, nth_error ss j = Some (2, mu) -> exists s, p_sctp a2 = Some s /\ s_mid s = Some mu).
    { intros j mu Hj. apply nth_error_In in Hj. rewrite Ess in Hj. apply in_app_or in Hj. destruct Hj as [Hj|Hj].
      - destruct (W7 mu Hj) as [s [Hs Hm]]. destruct Hsctp as [[_ E]|[m [s0 [_ [Hs0 [Hm0 _]]]]]].
        + exists s. rewrite E. auto.
        + rewrite Hs in Hs0. inversion Hs0; subst. congruence.
      - apply in_app_or in Hj. destruct Hj as [Hj|Hj].
        + unfold secs_of in Hj. apply in_map_iff in Hj. destruct Hj as [m [E Hm]]. inversion E as [[Ek Em']].
          pose proof (Hk2 m Hm) as Hav. rewrite Ek in Hav. discriminate.
        + destruct Hsctp as [[-> _]|[m [s0 [-> [Hs0 [Hm0 E]]]]]]; [destruct Hj|].
          destruct Hj as [Hj|[]]. inversion Hj; subst. eexists. split; [exact E | reflexivity]. }
    destruct (Hmid _ _ H1) as [s1 [G1 G2]]. destruct (Hmid _ _ H2) as [s2 [G3 G4]].
    rewrite G1 in G3. inversion G3; subst s2. rewrite G2 in G4. inversion G4; subst m2.
    destruct (secs_nth_mid_inj _ _ _ _ _ _ Hnd' H1 H2) as [E _]. exact E. }
  split.
  { intros s Hs. rewrite Ess in Hs. apply in_app_or in Hs. destruct Hs as [Hs|Hs]; [apply W5; exact Hs|].
    apply in_app_or in Hs. destruct Hs as [Hs|Hs].
    - unfold secs_of in Hs. apply in_map_iff in Hs. destruct Hs as [m [<- Hm]]. left. cbn. apply Hk2. exact Hm.
    - destruct Hout3 as [[-> _]|[m [s0 [-> _]]]]; [destruct Hs | destruct Hs as [<-|[]]; right; reflexivity]. }
  split.
  { intros t Hin. rewrite Etrs in Hin. destruct (assign_new_elem _ _ _ _ _ Hns Hin) as [Qm [t0 [Q [Qk [_ [Qp [Qc [Qx _]]]]]]]].
    split; [|exact Qm]. unfold offered. rewrite Qk, Qp, Qc, Qx. apply C2. exact Q. }
  split.
  { unfold ms. apply Forall_app. split; [|apply Forall_app; split].
    - eapply Forall_impl; [|exact X3]. intros m Hm Hav. destruct (Hm Hav) as [t [G1 G2]].
      exists t. split; [|exact G2]. rewrite Etrs. apply assign_new_keeps; [exact G1|]. destruct G2 as [G2 _]. congruence.
    - rewrite Etrs. apply (offer_new_from _ _ _ _ _ _ E2 []).
    - destruct Hout3 as [[-> _]|[m [s0 [-> _]]]]; constructor; [|constructor]. intro Hc. cbn in Hc. discriminate. }
  { intros t Hin. rewrite Etrs in Hin. destruct (assign_new_elem _ _ _ _ _ Hns Hin) as [_ [t0 [Q [Qk [_ [Qp _]]]]]].
    destruct (map_tinfo_In _ _ _ (eq_sym C1) Q) as [t1 [Hin1 E]]. apply tinfo_fields in E.
    destruct E as [Ek [_ Ep]]. apply akey_fields in Ek. destruct Ek as [Ek _].
    exists t1. split; [exact Hin1|]. split; congruence. }
Qed.

(* ---- (W) an exchange keeps both connections well-formed and in step ------------------------------------------ *)
Lemma create_offer_codecs : forall T a a1 offer, create_offer T a = Ok (a1, offer) -> exists trs0, offer_codecs T (p_trs a) = Ok trs0.
Proof.
  intros T a a1 offer H. unfold create_offer in H.
  destruct (match p_state a with Closed => true | _ => false end); [discriminate|].
  bind_inv H trs0 Htrs0. exists trs0. exact Htrs0.
Qed.

Lemma wf_wfs_S : forall T p, wf T p -> wfs T p (S p).
Proof. intros T p W. apply wf_wfs in W. tauto. Qed.

Lemma extends_refl : forall ss, extends ss ss.
Proof. intros ss j x H. exact H. Qed.

Lemma exchange_wf : forall fixed T a b x, exchange fixed T a b = Ok x -> wf T a -> wf T b -> S a = S b ->
  wf T (x_a x) /\ wf T (x_b x) /\ S (x_a x) = S (x_b x) /\
  S (x_a x) = secs_of (d_media (x_offer x)) /\ extends (S (x_a x)) (S a).
Proof.
  intros fixed T a b x H Wa Wb Hsync.
  destruct (exchange_steps _ _ _ _ _ H) as [a1 [offer [a2 [b1 [answer [b2 [a3 [H1 [H2 [H3 [H4 [H5 [H6 ->]]]]]]]]]]]]].
  cbn [x_a x_b x_offer].
  destruct (create_offer_codecs _ _ _ _ H1) as [trs0 Hoc].
  destruct (offer_phase fixed T a trs0 Wa Hoc) as [a1' [offer' [a2' [G1 [G2 [G3 [G4 [G5 [G6 [G7 _]]]]]]]]]].
  rewrite H1 in G1. inversion G1; subst a1' offer'; clear G1. rewrite H2 in G2. inversion G2; subst a2'; clear G2.
  set (ss := secs_of (d_media offer)) in *.
  pose proof (wf_inv_desc _ _ Wa) as Ia.
  destruct (exchange_inv_desc _ _ _ _ _ H Ia) as [Hnd _]. cbn [x_offer] in Hnd.
  pose proof (exchange_mirrors _ _ _ _ _ H Hnd) as M. destruct M as [Ma Mb _ Msec _ _ _].
  cbn [x_a x_b x_offer x_answer] in *.
  assert (Eans : secs_of (d_media answer) = ss) by exact Msec.
  (* answerer *)
  assert (Wb1 : wfs T b1 ss).
  { apply (set_remote_description_wfs fixed T b offer b1 (S b) H3);
      [apply wf_wfs_S; exact Wb | rewrite <- Hsync; exact G4 | exact G5 | exact G6 | exact G7]. }
  destruct (create_answer_spec _ _ H4) as [_ [At _]].
  assert (Wb2 : wfs T b2 ss).
  { rewrite <- Eans. apply (set_local_answer_wfs fixed T b1 answer b2 H5 At). rewrite Eans. exact Wb1. }
  (* offerer *)
  assert (Wa3 : wfs T a3 ss).
  { rewrite <- Eans. apply (set_remote_description_wfs fixed T a2 answer a3 ss H6).
    - exact G3.
    - rewrite Eans. apply extends_refl.
    - rewrite <- secs_of_mids, Eans. unfold ss. rewrite secs_of_mids. exact G5.
    - rewrite Eans. exact G6.
    - rewrite Eans. exact G7. }
  (* descriptions *)
  destruct (set_local_description_spec _ _ _ _ H2) as [_ [_ [A3 _]]].
  destruct (set_remote_description_spec _ _ _ _ _ H6) as [_ [_ [B3 [B4 [B5 _]]]]].
  destruct (set_remote_description_spec _ _ _ _ _ H3) as [_ [_ [C3 _]]].
  destruct (set_local_description_spec _ _ _ _ H5) as [_ [_ [D3 [D4 [D5 _]]]]].
  assert (El : local_description a3 = Some offer) by (unfold local_description in *; rewrite B4, B5; exact A3).
  assert (Er : remote_description b2 = Some offer) by (unfold remote_description in *; rewrite D4, D5; exact C3).
  assert (Sa3 : S a3 = ss) by (unfold S; rewrite El; reflexivity).
  assert (Sb2 : S b2 = ss) by (unfold S; rewrite D3; exact Eans).
  split; [|split; [|split; [|split]]].
  - apply wf_wfs. split; [exact Ma|]. split; [rewrite B3, Sa3; exact Eans | rewrite Sa3; exact Wa3].
  - apply wf_wfs. split; [exact Mb|]. split; [rewrite Er, Sb2; reflexivity | rewrite Sb2; exact Wb2].
  - congruence.
  - exact Sa3.
  - rewrite Sa3. exact G4.
Qed.

Lemma run_session_wf : forall fixed T steps a b a' b',
  run_session fixed T a b steps = Ok (a', b') -> wf T a -> wf T b -> S a = S b ->
  wf T a' /\ wf T b' /\ S a' = S b'.
Proof.
  intros fixed T. induction steps as [|s steps IH]; intros a b a' b' H Wa Wb Hs; cbn [run_session] in H.
  - inversion H; subst. auto.
  - destruct s as [o|o| |].
    + bind_inv H a1 Ha1. pose proof (wf_apply_op _ _ _ _ Wa Ha1) as W1.
      destruct (apply_op_same _ _ _ _ Ha1) as [S1 _]. destruct (S_same _ _ S1) as [E _].
      eapply IH; eauto. congruence.
    + bind_inv H b1 Hb1. pose proof (wf_apply_op _ _ _ _ Wb Hb1) as W1.
      destruct (apply_op_same _ _ _ _ Hb1) as [S1 _]. destruct (S_same _ _ S1) as [E _].
      eapply IH; eauto. congruence.
    + bind_inv H x Hx. destruct (exchange_wf _ _ _ _ _ Hx Wa Wb Hs) as [W1 [W2 [E _]]]. eapply IH; eauto.
    + bind_inv H x Hx. destruct (exchange_wf _ _ _ _ _ Hx Wb Wa (eq_sym Hs)) as [W1 [W2 [E _]]]. eapply IH; eauto.
Qed.
