(* C13: nothing is ever queued for, or handed to the association on behalf of, a closed data
   channel -- for every input list.  Closing (stream reset answered, local close, end of the
   association) drops what the channel still had queued, and nothing is queued afterwards. *)
From Coq Require Import ZArith List Bool Lia Arith.
From AV Require Import Lib.Bytes Gen.Utils Gen.SctpConst Model.Chan Proof.ChanP Proof.ChanBufP.
Import ListNotations.
Local Open Scope Z_scope.

Definition hd_of (it : nat * Z * bytes) : nat := fst (fst it).
Definition bad (s : st) (it : nat * Z * bytes) : Prop := In it (queue s) /\ ch_state (getc s (hd_of it)) = Closed.
Definition qinv (s : st) : Prop := forall it, ~ bad s it.
(* every queued message of a closed channel in s' was one already in s *)
Definition qstep (s s' : st) : Prop := forall it, bad s' it -> bad s it.

Lemma qstep_refl s : qstep s s. Proof. intros it H. exact H. Qed.
Lemma qstep_trans s s1 s2 : qstep s s1 -> qstep s1 s2 -> qstep s s2.
Proof. intros A B it H. apply A, B, H. Qed.
Lemma qinv_step s s' : qinv s -> qstep s s' -> qinv s'.
Proof. intros Q S it H. exact (Q it (S it H)). Qed.

(* queue shrinks (or stays), channel states unchanged *)
Lemma qstep_frame s s' :
  (forall it, In it (queue s') -> In it (queue s)) ->
  (forall h, ch_state (getc s' h) = ch_state (getc s h)) -> qstep s s'.
Proof. intros Q G it [Hin Hc]. split; [now apply Q|now rewrite <- G]. Qed.

Lemma qstep_empty s s' : queue s' = [] -> qstep s s'.
Proof. intros E it [Hin _]. rewrite E in Hin. destruct Hin. Qed.

Lemma qstep_set_ready s h r : r <> Closed -> qstep s (fst (set_ready s h r)).
Proof.
  intros Hr it [Hin Hc]. rewrite set_ready_queue in Hin. split; [exact Hin|].
  rewrite getc_set_ready in Hc. destruct (_ && _ && _)%bool; [|exact Hc].
  cbn [with_state ch_state] in Hc. contradiction.
Qed.

(* closing h when nothing of h is queued *)
Lemma qstep_close_purged s h : (forall it, In it (queue s) -> hd_of it <> h) -> qstep s (fst (set_ready s h Closed)).
Proof.
  intros Hp it [Hin Hc]. rewrite set_ready_queue in Hin. split; [exact Hin|].
  rewrite set_ready_state_other in Hc; [exact Hc|]. intros E. exact (Hp it Hin (eq_sym E)).
Qed.

Definition purge (s : st) (h : nat) : st :=
  set_queue s (filter (fun it => negb (Nat.eqb (fst (fst it)) h)) (queue s)).

Lemma purge_no_h s h it : In it (queue (purge s h)) -> In it (queue s) /\ hd_of it <> h.
Proof.
  unfold purge. cbn [queue set_queue]. intros Hin. apply filter_In in Hin as [Hin Hb]. split; [exact Hin|].
  unfold hd_of. destruct (Nat.eqb_spec (fst (fst it)) h); [discriminate|assumption].
Qed.

Lemma qstep_purge s h : qstep s (purge s h).
Proof. apply qstep_frame; [intros it Hin; apply (purge_no_h s h it Hin)|reflexivity]. Qed.

Lemma qstep_purge_close s h t' : qstep s (fst (set_ready (set_table (purge s h) t') h Closed)).
Proof.
  apply (qstep_trans s (purge s h)); [apply qstep_purge|].
  apply (qstep_trans (purge s h) (set_table (purge s h) t')).
  - apply qstep_frame; [intros it Hin; exact Hin|reflexivity].
  - apply qstep_close_purged. intros it Hin. apply (purge_no_h s h it Hin).
Qed.

Lemma qstep_add_buffered s h a : qstep s (fst (add_buffered s h a)).
Proof.
  apply qstep_frame; [intros it0 Hin0; exact Hin0|]. intros h'. unfold add_buffered. cbn [fst]. rewrite getc_setc.
  destruct (_ && _)%bool eqn:E; [|reflexivity]. apply andb_true_iff in E as [E _]. apply Nat.eqb_eq in E. now subst.
Qed.

(* appending a message for a channel that is not closed *)
Lemma qstep_enqueue s h pp d : ch_state (getc s h) <> Closed -> qstep s (set_queue s (queue s ++ [(h, pp, d)])).
Proof.
  intros Hl it [Hin Hc]. cbn [queue set_queue] in Hin. change (getc (set_queue s (queue s ++ [(h, pp, d)])) (hd_of it)) with (getc s (hd_of it)) in Hc.
  apply in_app_or in Hin as [Hin|[<-|[]]]; [split; assumption|]. exfalso. apply Hl. exact Hc.
Qed.

(* ---------------------------------------------------------------- flush *)
Lemma qstep_flush_loop : forall fuel s oracle, qstep s (fst (flush_loop fuel s oracle)).
Proof.
  induction fuel as [|f IH]; intros s oracle; cbn [flush_loop]; [apply qstep_refl|].
  destruct (queue s) as [|[[h pp] data] q'] eqn:Eq; [apply qstep_refl|].
  set (s1 := set_queue s q').
  assert (S1 : qstep s s1).
  { apply qstep_frame; [|reflexivity]. intros it Hin. cbn [queue s1 set_queue] in Hin. rewrite Eq. now right. }
  set (p2 := match ch_id (getc s1 h) with
             | Some i => (s1, i)
             | None => let i := pick_id (S (length (table s1))) (table s1) (dc_id s1) in
                       (setc (set_table s1 (tset (table s1) i h)) h (with_id (getc s1 h) (Some i)), i)
             end).
  assert (S2 : qstep s1 (fst p2)).
  { unfold p2. destruct (ch_id (getc s1 h)); cbn [fst]; [apply qstep_refl|].
    apply qstep_frame; [intros it0 Hin0; exact Hin0|]. intros h'. rewrite getc_setc. destruct (_ && _)%bool eqn:E; [|reflexivity].
    apply andb_true_iff in E as [E _]. apply Nat.eqb_eq in E. now subst. }
  destruct p2 as [s2 sidv] eqn:Ep2. cbn [fst] in S2.
  set (p3 := if pp =? WEBRTC_DCEP then (s2, [EvSend sidv pp data true None None])
             else let '(s', e) := add_buffered s2 h (- len data) in
                  (s', EvSend sidv pp data (ch_ordered (getc s2 h)) (ch_maxrt (getc s2 h))
                              match ch_maxlt (getc s2 h) with Some 0 => None | x => x end :: e)).
  assert (S3 : qstep s2 (fst p3)).
  { unfold p3. destruct (pp =? WEBRTC_DCEP); [apply qstep_refl|].
    rewrite (pair_eta (add_buffered s2 h (- len data))). cbn [fst]. apply qstep_add_buffered. }
  destruct p3 as [s3 evs] eqn:Ep3. cbn [fst] in S3.
  assert (S03 : qstep s s3) by (eapply qstep_trans; [exact S1|eapply qstep_trans; [exact S2|exact S3]]).
  destruct (match oracle with b :: _ => b | [] => false end); cbn [fst]; [exact S03|].
  rewrite (pair_eta (flush_loop f s3 (tl oracle))). cbn [fst]. eapply qstep_trans; [exact S03|apply IH].
Qed.

Lemma qstep_flush s oracle : qstep s (fst (flush s oracle)).
Proof. unfold flush. destruct (_ && _); [apply qstep_flush_loop|apply qstep_refl]. Qed.

(* what flush hands to the association comes out of the queue *)
Definition send_of (e : event) : bool := match e with EvSend _ _ _ _ _ _ => true | _ => false end.

(* ---------------------------------------------------------------- application operations *)
Lemma getc_add_chan s c h : (h < length (chans s))%nat -> getc (fst (add_chan s c)) h = getc s h.
Proof. intros Hl. unfold add_chan, getc. cbn [fst chans]. now rewrite app_nth1. Qed.
Lemma getc_add_chan_new s c : getc (fst (add_chan s c)) (length (chans s)) = c.
Proof. unfold add_chan, getc. cbn [fst chans]. rewrite app_nth2, Nat.sub_diag by lia. reflexivity. Qed.
Lemma getc_out s h : (length (chans s) <= h)%nat -> getc s h = dummy.
Proof. intros Hl. unfold getc. now apply nth_overflow. Qed.

Lemma qstep_add_chan s c : ch_state c <> Closed -> qstep s (fst (add_chan s c)).
Proof.
  intros Hc it [Hin Hcl]. split; [exact Hin|].
  destruct (Nat.lt_ge_cases (hd_of it) (length (chans s))) as [Hl|Hl].
  - now rewrite getc_add_chan in Hcl.
  - rewrite getc_out by exact Hl. reflexivity.
Qed.

Lemma qstep_create s neg id ordered maxrt maxlt label proto :
  qstep s (fst (create s neg id ordered maxrt maxlt label proto)).
Proof.
  unfold create.
  destruct (match id with Some i => match tget (table s) i with Some _ => true | None => false end | None => false end);
    [apply qstep_refl|].
  set (c := mkChan id Connecting 0 0 neg ordered maxrt maxlt label proto).
  rewrite (pair_eta (add_chan s c)). cbv iota beta.
  set (s1 := fst (add_chan s c)).
  assert (S1 : qstep s s1) by (apply qstep_add_chan; discriminate).
  set (s2 := match id with Some i => set_table s1 (tset (table s1) i (snd (add_chan s c))) | None => s1 end).
  assert (S2 : qstep s1 s2) by (unfold s2; destruct id; [apply qstep_frame; [intros it0 Hin0; exact Hin0|reflexivity]|apply qstep_refl]).
  destruct neg.
  - destruct (established s2); cbn [fst].
    + eapply qstep_trans; [exact S1|eapply qstep_trans; [exact S2|apply qstep_set_ready; discriminate]].
    + eapply qstep_trans; eassumption.
  - cbn [fst]. eapply qstep_trans; [exact S1|eapply qstep_trans; [exact S2|]].
    apply qstep_enqueue.
    assert (E : getc s2 (snd (add_chan s c)) = c).
    { unfold s2. destruct id; cbn [snd add_chan]; [change (getc (set_table s1 _) ?x) with (getc s1 x)|]; apply getc_add_chan_new. }
    rewrite E. discriminate.
Qed.

Lemma qstep_app_send s h pp data : qstep s (fst (app_send s h pp data)).
Proof.
  unfold app_send. destruct (negb (rstate_eqb (ch_state (getc s h)) Open)) eqn:E; [apply qstep_refl|].
  rewrite (pair_eta (add_buffered s h (len data))). cbn [fst].
  eapply qstep_trans; [apply qstep_add_buffered|]. apply qstep_enqueue.
  apply negb_false_iff, rstate_eqb_eq in E.
  unfold add_buffered. cbn [fst]. rewrite getc_setc. destruct (_ && _)%bool; cbn [with_buf ch_state]; rewrite E; discriminate.
Qed.

(* ---------------------------------------------------------------- closing *)
Lemma qstep_chan_closed s i : qstep s (fst (chan_closed s i)).
Proof.
  unfold chan_closed. destruct (tget (table s) i) as [h|]; [|apply qstep_refl]. cbv zeta.
  change (set_queue (set_table s (tdel (table s) i))
            (filter (fun it => negb (Nat.eqb (fst (fst it)) h)) (queue (set_table s (tdel (table s) i)))))
    with (set_table (purge s h) (tdel (table s) i)).
  apply qstep_purge_close.
Qed.

Lemma qstep_close_local s h id : qstep s (fst (close_local s h id)).
Proof.
  unfold close_local. fold (purge s h). destruct id as [i|].
  - destruct (tget (table (purge s h)) i); [apply qstep_purge_close|cbn [fst]; apply qstep_purge].
  - change (purge s h) with (set_table (purge s h) (table (purge s h))). apply qstep_purge_close.
Qed.

Lemma qstep_close_body s h hs : qstep s (fst (close_body s h hs)).
Proof.
  unfold close_body. rewrite (pair_eta (set_ready s h Closing)).
  set (s1 := fst (set_ready s h Closing)).
  assert (S1 : qstep s s1) by (apply qstep_set_ready; discriminate).
  destruct (established s1 || hs).
  - destruct (ch_id (getc s h)).
    + cbn [fst]. eapply qstep_trans; [exact S1|apply qstep_frame; [intros it0 Hin0; exact Hin0|reflexivity]].
    + rewrite (pair_eta (close_local s1 h None)). cbn [fst]. eapply qstep_trans; [exact S1|apply qstep_close_local].
  - rewrite (pair_eta (close_local s1 h (ch_id (getc s h)))).
    destruct (ch_id (getc s h)); cbn [fst]; (eapply qstep_trans; [exact S1|apply qstep_close_local]).
Qed.

Lemma qstep_chan_close s h hs : qstep s (fst (chan_close s h hs)).
Proof. unfold chan_close. destruct (ch_state (getc s h)); try apply qstep_refl; apply qstep_close_body. Qed.

Lemma qstep_transmit_reconfig s : qstep s (fst (transmit_reconfig s)).
Proof.
  unfold transmit_reconfig. destruct (rq_request s); [apply qstep_refl|].
  destruct (_ && _); cbn [fst]; [|apply qstep_refl]. apply qstep_frame; [intros it0 Hin0; exact Hin0|reflexivity].
Qed.

Lemma qstep_reset_streams : forall strs s, qstep s (fst (reset_streams s strs)).
Proof.
  induction strs as [|i strs IH]; intros s; cbn [reset_streams]; [apply qstep_refl|].
  set (p := match tget (table s) i with Some h => chan_close s h false | None => (s, []) end).
  assert (Hp : qstep s (fst p)) by (unfold p; destruct (tget (table s) i); [apply qstep_chan_close|apply qstep_refl]).
  rewrite (pair_eta p). rewrite (pair_eta (reset_streams (fst p) strs)). cbn [fst].
  eapply qstep_trans; [exact Hp|apply IH].
Qed.

Lemma qstep_closed_streams : forall strs s, qstep s (fst (closed_streams s strs)).
Proof.
  induction strs as [|i strs IH]; intros s; cbn [closed_streams]; [apply qstep_refl|].
  rewrite (pair_eta (chan_closed s i)). rewrite (pair_eta (closed_streams (fst (chan_closed s i)) strs)). cbn [fst].
  eapply qstep_trans; [apply qstep_chan_closed|apply IH].
Qed.

Lemma qstep_recv_reset_request s seq strs : qstep s (fst (recv_reset_request s seq strs)).
Proof.
  unfold recv_reset_request. rewrite (pair_eta (reset_streams s strs)). cbn [fst].
  eapply qstep_trans; [apply qstep_reset_streams|apply qstep_frame; [intros it0 Hin0; exact Hin0|reflexivity]].
Qed.

Lemma qstep_recv_reset_response s seq : qstep s (fst (recv_reset_response s seq)).
Proof.
  unfold recv_reset_response. destruct (rq_request s) as [[rs strs]|]; [|apply qstep_refl].
  destruct (Z.eqb seq rs); [|apply qstep_refl].
  rewrite (pair_eta (closed_streams s strs)).
  set (s1 := fst (closed_streams s strs)).
  set (s2 := mkSt (established s1) (dc_id s1) (chans s1) (table s1) (queue s1) (rq_queue s1) None (rq_req_seq s1) (rq_resp_seq s1)).
  rewrite (pair_eta (transmit_reconfig s2)). cbn [fst].
  eapply qstep_trans; [apply qstep_closed_streams|]. fold s1.
  eapply (qstep_trans s1 s2); [apply qstep_frame; [intros it0 Hin0; exact Hin0|reflexivity]|apply qstep_transmit_reconfig].
Qed.

(* ---------------------------------------------------------------- association events *)
Lemma qstep_open_negotiated : forall t s, qstep s (fst (open_negotiated s t)).
Proof.
  induction t as [|[k h] t IH]; intros s; cbn [open_negotiated]; [apply qstep_refl|].
  set (p := if ch_neg (getc s h) && rstate_eqb (ch_state (getc s h)) Connecting then set_ready s h Open else (s, [])).
  assert (Hp : qstep s (fst p)).
  { unfold p. destruct (_ && _); [apply qstep_set_ready; discriminate|apply qstep_refl]. }
  rewrite (pair_eta p). rewrite (pair_eta (open_negotiated (fst p) t)). cbn [fst].
  eapply qstep_trans; [exact Hp|apply IH].
Qed.

Lemma qstep_set_established s : qstep s (fst (set_established s)).
Proof.
  unfold set_established.
  set (s0 := mkSt true (dc_id s) (chans s) (table s) (queue s) (rq_queue s) (rq_request s) (rq_req_seq s) (rq_resp_seq s)).
  rewrite (pair_eta (open_negotiated s0 (table s0))). cbn [fst].
  eapply (qstep_trans s s0); [apply qstep_frame; [intros it0 Hin0; exact Hin0|reflexivity]|apply qstep_open_negotiated].
Qed.

Lemma qstep_set_closed s : qstep s (fst (set_closed s)).
Proof.
  unfold set_closed.
  set (s0 := mkSt false (dc_id s) (chans s) (table s) (queue s) (rq_queue s) (rq_request s) (rq_req_seq s) (rq_resp_seq s)).
  rewrite (pair_eta (closed_streams s0 (map fst (table s0)))).
  set (s1 := fst (closed_streams s0 (map fst (table s0)))).
  rewrite (pair_eta (close_queued s1 (queue s1))). cbn [fst]. apply qstep_empty. reflexivity.
Qed.

Lemma qstep_recv_dcep s sidv data ok oracle : qstep s (fst (recv_dcep s sidv data ok oracle)).
Proof.
  unfold recv_dcep. destruct data as [|m rest]; [apply qstep_refl|].
  destruct (Z.eqb m DATA_CHANNEL_OPEN && (12 <=? len (m :: rest))).
  - destruct (tget (table s) sidv); [apply qstep_refl|].
    destruct (dcep_parse_open (m :: rest)) as [p|]; [|apply qstep_refl].
    destruct (negb ok); [apply qstep_refl|].
    set (c := mkChan (Some sidv) Connecting 0 0 false (op_ordered p) (op_maxrt p) (op_maxlt p) (op_label p) (op_proto p)).
    rewrite (pair_eta (add_chan s c)). cbv iota beta.
    set (s1 := fst (add_chan s c)). set (h := snd (add_chan s c)).
    rewrite (pair_eta (set_ready s1 h Open)). cbv iota beta.
    set (s2 := fst (set_ready s1 h Open)).
    set (s3 := set_table s2 (tset (table s2) sidv h)).
    set (s4 := set_queue s3 (queue s3 ++ [(h, WEBRTC_DCEP, be8 DATA_CHANNEL_ACK)])).
    rewrite (pair_eta (flush s4 oracle)). cbn [fst].
    assert (S1 : qstep s s1) by (apply qstep_add_chan; discriminate).
    assert (S2 : qstep s1 s2) by (apply qstep_set_ready; discriminate).
    assert (S3 : qstep s2 s3) by (apply qstep_frame; [intros it0 Hin0; exact Hin0|reflexivity]).
    assert (S4 : qstep s3 s4).
    { apply qstep_enqueue. change (getc s3 h) with (getc s2 h). unfold s2. rewrite getc_set_ready.
      assert (E1 : getc s1 h = c) by apply getc_add_chan_new.
      destruct (_ && _ && _)%bool; [cbn [with_state ch_state]; discriminate|rewrite E1; discriminate]. }
    eapply qstep_trans; [exact S1|]. eapply qstep_trans; [exact S2|]. eapply qstep_trans; [exact S3|].
    eapply qstep_trans; [exact S4|apply qstep_flush].
  - destruct (Z.eqb m DATA_CHANNEL_ACK); [|apply qstep_refl].
    destruct (tget (table s) sidv) as [h|]; [|apply qstep_refl].
    destruct (rstate_eqb (ch_state (getc s h)) Connecting); [apply qstep_set_ready; discriminate|apply qstep_refl].
Qed.

Lemma recv_user_same s sidv pp data ok : fst (recv_user s sidv pp data ok) = s.
Proof.
  unfold recv_user. destruct (tget (table s) sidv); [|reflexivity].
  repeat (match goal with |- context [if ?b then _ else _] => destruct b end); reflexivity.
Qed.

Theorem qstep_step s i : qstep s (fst (step s i)).
Proof.
  destruct i as [neg id ordered maxrt maxlt label proto|h pp data|h hs|h v|oracle| | | |sid pp data ok oracle|seq strs|seq|];
    cbn [step].
  - apply qstep_create.
  - destruct (Nat.ltb h (length (chans s))); [apply qstep_app_send|apply qstep_refl].
  - destruct (Nat.ltb h (length (chans s))); [apply qstep_chan_close|apply qstep_refl].
  - destruct (Nat.ltb h (length (chans s))); cbn [fst]; [|apply qstep_refl].
    apply qstep_frame; [intros it0 Hin0; exact Hin0|]. intros h'. rewrite getc_setc. destruct (_ && _)%bool eqn:E; [|reflexivity].
    apply andb_true_iff in E as [E _]. apply Nat.eqb_eq in E. now subst.
  - apply qstep_flush.
  - apply qstep_transmit_reconfig.
  - apply qstep_set_established.
  - apply qstep_set_closed.
  - destruct (Z.eqb pp WEBRTC_DCEP); [apply qstep_recv_dcep|rewrite recv_user_same; apply qstep_refl].
  - destruct (established s); [apply qstep_recv_reset_request|apply qstep_refl].
  - destruct (established s); [apply qstep_recv_reset_response|apply qstep_refl].
  - cbn [fst]. apply qstep_frame; [intros it0 Hin0; exact Hin0|reflexivity].
Qed.

Lemma qinv_init r q : qinv (init r q).
Proof. intros it [Hin _]. destruct Hin. Qed.

Theorem run_qinv : forall is s, qinv s -> qinv (fst (run s is)).
Proof.
  induction is as [|i is IH]; intros s Q; cbn [run]; [exact Q|].
  rewrite (pair_eta (step s i)). rewrite (pair_eta (run (fst (step s i)) is)). cbn [fst].
  apply IH. eapply qinv_step; [exact Q|apply qstep_step].
Qed.

(* for every input list: no message is queued for a closed channel *)
Theorem closed_nothing_queued r q is : forall h pp d,
  In (h, pp, d) (queue (fst (run (init r q) is))) -> ch_state (getc (fst (run (init r q) is)) h) <> Closed.
Proof.
  intros h pp d Hin Hc. exact (run_qinv is (init r q) (qinv_init r q) (h, pp, d) (conj Hin Hc)).
Qed.

(* the stream reset is answered: whatever the channel still had queued is gone *)
Lemma chan_closed_purges s i h : tget (table s) i = Some h ->
  forall it, In it (queue (fst (chan_closed s i))) -> hd_of it <> h.
Proof.
  intros Et it. unfold chan_closed. rewrite Et. cbv zeta. rewrite set_ready_queue.
  change (set_queue (set_table s (tdel (table s) i))
            (filter (fun it => negb (Nat.eqb (fst (fst it)) h)) (queue (set_table s (tdel (table s) i)))))
    with (set_table (purge s h) (tdel (table s) i)).
  cbn [queue set_table]. intros Hin. apply (purge_no_h s h it Hin).
Qed.

(* the statement is not vacuous: a reachable state with a closed channel and a non-empty queue -
   two channels are created before the association is up, the first is closed at once: its OPEN is
   dropped, the other's stays queued *)
Example purge_example :
  let s := fst (run (init 1 100) [ICreate false None true None None [] []; ICreate false None true None None [] [];
                                  IClose 0 false]) in
  ch_state (getc s 0) = Closed /\ map (fun it => fst (fst it)) (queue s) = [1%nat].
Proof. vm_compute. split; reflexivity. Qed.
