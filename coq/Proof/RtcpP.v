(* Proofs about Model/Rtcp.v, part 1: packets_lost, REMB, generic NACK. *)
From Coq Require Import ZArith List Bool Lia.
From AV Require Import Lib.Bytes Lib.BytesP Lib.RtpX Gen.RtpConst Model.Rtcp Proof.RtpBitsP.
Import ListNotations.
Local Open Scope Z_scope.

Ltac Zify.zify_post_hook ::= Z.to_euclidean_division_equations.

(* ================================================================ packets_lost *)
Lemma clamp_range n : -8388608 <= rtp_clamp_packets_lost n < 8388608.
Proof. unfold rtp_clamp_packets_lost, rtp_PACKETS_LOST_MIN, rtp_PACKETS_LOST_MAX. lia. Qed.
Lemma clamp_id n : -8388608 <= n < 8388608 -> rtp_clamp_packets_lost n = n.
Proof. unfold rtp_clamp_packets_lost, rtp_PACKETS_LOST_MIN, rtp_PACKETS_LOST_MAX. lia. Qed.
Lemma clamp_high n : 8388608 <= n -> rtp_clamp_packets_lost n = 8388607.
Proof. unfold rtp_clamp_packets_lost, rtp_PACKETS_LOST_MIN, rtp_PACKETS_LOST_MAX. lia. Qed.
Lemma clamp_low n : n < -8388608 -> rtp_clamp_packets_lost n = -8388608.
Proof. unfold rtp_clamp_packets_lost, rtp_PACKETS_LOST_MIN, rtp_PACKETS_LOST_MAX. lia. Qed.

Lemma sign_bit_byte : forall b, 0 <= b < 256 -> Bool.eqb (Z.land b 128 =? 0) (b <? 128) = true.
Proof. byte_fact. Qed.

Lemma sign_bit b : 0 <= b < 256 -> (Z.land b 128 =? 0) = (b <? 128).
Proof. intros H. apply eqb_prop. now apply sign_bit_byte. Qed.

Lemma unpack_be24 n :
  -8388608 <= n < 8388608 -> unpack_packets_lost (be24 n) = Ok n.
Proof.
  intros H. unfold unpack_packets_lost, be24.
  cbn [u8 nth_error length Nat.eqb negb u24 u16].
  rewrite sign_bit by lia.
  destruct (Z.ltb_spec ((n / 65536) mod 256) 128) as [Hs|Hs]; f_equal; lia.
Qed.

Lemma packets_lost_roundtrip n :
  -8388608 <= n < 8388608 ->
  pack_packets_lost n = Ok (be24 n) /\ unpack_packets_lost (be24 n) = Ok n.
Proof.
  intros H. split; [|now apply unpack_be24].
  unfold pack_packets_lost. now rewrite i32ok_intro by lia.
Qed.

Lemma packets_lost_clamped n :
  exists b, pack_packets_lost (rtp_clamp_packets_lost n) = Ok b /\
            unpack_packets_lost b = Ok (rtp_clamp_packets_lost n).
Proof.
  exists (be24 (rtp_clamp_packets_lost n)). apply packets_lost_roundtrip, clamp_range.
Qed.

(* every 3-byte string is the encoding of exactly its decoded value: totality
   of unpack on the length the callers use *)
Lemma unpack_packets_lost_total d :
  bytes_ok d -> length d = 3%nat -> exists n, unpack_packets_lost d = Ok n /\ -8388608 <= n < 8388608.
Proof.
  intros Hok Hl. destruct d as [|a [|b [|c [|? ?]]]]; try discriminate.
  apply bytes_ok_cons in Hok as [Ha Hok]. apply bytes_ok_cons in Hok as [Hb Hok].
  apply bytes_ok_cons in Hok as [Hc _]. unfold byte_ok in *.
  unfold unpack_packets_lost. cbn [u8 nth_error length Nat.eqb negb u24 u16].
  rewrite sign_bit by lia. destruct (Z.ltb_spec a 128); eexists; (split; [reflexivity|lia]).
Qed.

(* ================================================================ REMB *)
Lemma remb_loop_spec fuel : forall m e,
  0 <= m < 2 ^ (Z.of_nat fuel + 17) -> (0 < fuel)%nat ->
  exists m' e', remb_loop fuel m e = Ok (m', e') /\ e <= e' /\ m' = m / 2 ^ (e' - e) /\
                0 <= m' <= 262143 /\ (e < e' -> 131072 <= m').
Proof.
  induction fuel as [|f IH]; intros m e Hm Hf; [lia|].
  cbn [remb_loop]. destruct (Z.ltb_spec 262143 m) as [Hbig|Hsmall].
  - assert (Hf' : (0 < f)%nat).
    { destruct f; [|lia]. cbn in Hm. lia. }
    destruct (IH (Z.shiftr m 1) (e + 1)) as (m' & e' & Hl & He & Hm' & Hr & Hlow); [|exact Hf'|].
    { rewrite Z.shiftr_div_pow2 by lia. change (2 ^ 1) with 2.
      replace (Z.of_nat (S f) + 17) with (Z.succ (Z.of_nat f + 17)) in Hm by lia.
      rewrite Z.pow_succ_r in Hm by lia. lia. }
    exists m', e'. split; [exact Hl|]. split; [lia|]. split.
    + rewrite Hm', Z.shiftr_div_pow2 by lia. change (2 ^ 1) with 2.
      replace (e' - e) with (Z.succ (e' - (e + 1))) by lia.
      rewrite Z.pow_succ_r by lia. rewrite Z.div_div by lia. reflexivity.
    + split; [exact Hr|]. intros _.
      destruct (Z.eq_dec e' (e + 1)) as [->|Hne].
      * rewrite Hm', Z.sub_diag, Z.shiftr_div_pow2 by lia. change (2 ^ 0) with 1. change (2 ^ 1) with 2. lia.
      * apply Hlow. lia.
  - exists m, e. split; [reflexivity|]. split; [lia|]. rewrite Z.sub_diag. change (2 ^ 0) with 1.
    split; [now rewrite Z.div_1_r|]. split; [lia|lia].
Qed.

Lemma remb_fuel_enough b :
  0 <= b -> 0 <= b < 2 ^ (Z.of_nat (remb_fuel b) + 17) /\ (0 < remb_fuel b)%nat.
Proof.
  intros H. unfold remb_fuel. split; [|lia]. split; [lia|].
  destruct (Z.eq_dec b 0) as [->|Hne]; [apply Z.pow_pos_nonneg; lia|].
  assert (Hs := Z.log2_spec b ltac:(lia)). assert (Hl := Z.log2_nonneg b).
  rewrite Nat2Z.inj_succ, Z2Nat.id by lia.
  apply Z.lt_le_trans with (2 ^ Z.succ (Z.log2 b)); [lia|apply Z.pow_le_mono_r; lia].
Qed.

(* the packed mantissa/exponent: never rounds up, relative error < 2^-17 *)
Lemma remb_quantise b m e :
  0 <= b -> 0 <= e -> m = b / 2 ^ e -> (0 < e -> 131072 <= m) ->
  m * 2 ^ e <= b /\ (0 < b -> (b - m * 2 ^ e) * 131072 < b).
Proof.
  intros Hb He Hm Hlow. assert (Hp : 0 < 2 ^ e) by (apply Z.pow_pos_nonneg; lia).
  assert (Hdm := Z.div_mod b (2 ^ e) ltac:(lia)). assert (Hr := Z.mod_pos_bound b (2 ^ e) Hp).
  rewrite <- Hm in Hdm. split; [lia|]. intros Hpos.
  destruct (Z.eq_dec e 0) as [->|Hne].
  - change (2 ^ 0) with 1 in *. lia.
  - specialize (Hlow ltac:(lia)). nia.
Qed.

Lemma b252 : forall b, 0 <= b < 256 -> (Z.shiftr (Z.land b 252) 2 =? b / 4) = true.
Proof. byte_fact. Qed.

Lemma remb_exponent_bound b m e :
  0 <= b < 2 ^ 81 -> 0 <= e -> m = b / 2 ^ e -> (0 < e -> 131072 <= m) -> e <= 63.
Proof.
  intros Hb He Hm Hlow. destruct (Z_le_gt_dec e 63) as [|Hgt]; [assumption|exfalso].
  specialize (Hlow ltac:(lia)).
  assert (Hp : 2 ^ 64 <= 2 ^ e) by (apply Z.pow_le_mono_r; lia).
  assert (H0 : 0 < 2 ^ e) by lia.
  assert (Hdm := Z.div_mod b (2 ^ e) ltac:(lia)). assert (Hr := Z.mod_pos_bound b (2 ^ e) H0).
  rewrite <- Hm in Hdm.
  assert (131072 * 2 ^ 64 <= 2 ^ e * m) by nia.
  change (2 ^ 81) with (131072 * 2 ^ 64) in Hb. lia.
Qed.

Definition remb_decoded (b : Z) : Z :=
  match remb_loop (remb_fuel b) b 0 with
  | Ok (m, e) => m * 2 ^ e
  | _ => 0
  end.

Lemma remb_roundtrip b ssrcs :
  0 <= b < 2 ^ 81 -> (length ssrcs <= 255)%nat -> Forall (fun x => 0 <= x < 4294967296) ssrcs ->
  exists data b',
    pack_remb_fci b ssrcs = Ok data /\ bytes_ok data /\ unpack_remb_fci data = Ok (b', ssrcs) /\
    b' <= b /\ (0 < b -> (b - b') * 131072 < b) /\ (b < 262144 -> b' = b).
Proof.
  intros Hb Hn Hs.
  destruct (remb_fuel_enough b ltac:(lia)) as [Hf1 Hf2].
  destruct (remb_loop_spec _ b 0 Hf1 Hf2) as (m & e & Hloop & He & Hm & Hmr & Hlow).
  rewrite Z.sub_0_r in Hm.
  assert (He63 : e <= 63) by (eapply remb_exponent_bound; eauto).
  destruct (be32s_ok ssrcs Hs) as [tail Htail].
  assert (Hq := remb_quantise b m e ltac:(lia) He Hm Hlow).
  unfold pack_remb_fci. rewrite Hloop. cbn [bind].
  assert (Hb1 : Z.lor (Z.shiftl e 2) (Z.shiftr m 16) = e * 4 + m / 65536).
  { rewrite Z.shiftl_mul_pow2, Z.shiftr_div_pow2 by lia. change (2 ^ 2) with 4. change (2 ^ 16) with 65536.
    apply (lor_add _ _ 2); [lia| |]; change (2 ^ 2) with 4; lia. }
  rewrite Hb1, land_65535, zlen_length.
  rewrite u8ok_intro by lia. rewrite u8ok_intro by lia. rewrite u16ok_intro by lia.
  cbn [andb]. rewrite Htail. cbn [bind].
  eexists. exists (m * 2 ^ e). split; [reflexivity|].
  split.
  { unfold bytes_ok. repeat (apply Forall_cons; [unfold byte_ok; lia|]).
    cbn [app be8 be16]. repeat (apply Forall_cons; [unfold byte_ok; lia|]).
    apply (be32s_bytes_ok _ _ Htail). }
  split.
  - unfold unpack_remb_fci.
    assert (Hlen := be32s_length _ _ Htail).
    cbn [app be8 be16 length Nat.ltb Nat.leb slice Nat.sub skipn firstn bytes_eqb].
    rewrite !Z.eqb_refl. cbn [andb negb orb].
    cbn [u8 nth_error].
    rewrite len_length. cbn [length]. rewrite Hlen.
    replace (Z.of_nat (length ssrcs) mod 256) with (Z.of_nat (length ssrcs)) by lia.
    destruct (Z.ltb_spec (Z.of_nat (S (S (S (S (S (S (S (S (4 * length ssrcs)))))))))) (8 + Z.of_nat (length ssrcs) * 4)) as [Hc|_]; [lia|].
    rewrite Nat2Z.id.
    pose proof (u32s_be32s ssrcs tail [82; 69; 77; 66; Z.of_nat (length ssrcs); (e * 4 + m / 65536) mod 256;
                 ((m mod 65536) / 256) mod 256; (m mod 65536) mod 256] [] Htail) as Hu.
    rewrite app_nil_r in Hu. cbn [app length] in Hu. rewrite Hu.
    f_equal. f_equal.
    assert (Hq0 : 0 <= m / 65536 <= 3) by lia.
    set (q := m / 65536) in *.
    replace ((e * 4 + q) mod 256) with (e * 4 + q) by lia.
    assert (E1 := b252 (e * 4 + q) ltac:(lia)). apply Z.eqb_eq in E1. rewrite E1.
    rewrite land_3.
    replace ((e * 4 + q) / 4) with e by lia.
    replace ((e * 4 + q) mod 4) with q by lia.
    rewrite (Z.shiftl_mul_pow2 _ e) by lia.
    f_equal.
    rewrite !Z.shiftl_mul_pow2 by lia. change (2 ^ 16) with 65536. change (2 ^ 8) with 256.
    rewrite (lor_add (q * 65536) _ 16); [|lia|change (2 ^ 16) with 65536; lia|change (2 ^ 16) with 65536; lia].
    rewrite (lor_add _ _ 8); [|lia|change (2 ^ 8) with 256; lia|change (2 ^ 8) with 256; lia].
    unfold q. lia.
  - destruct Hq as [Hq1 Hq2]. split; [exact Hq1|]. split; [exact Hq2|].
    intros Hsmall. destruct (Z.eq_dec e 0) as [->|Hne].
    + change (2 ^ 0) with 1 in *. rewrite Z.div_1_r in Hm. lia.
    + specialize (Hlow ltac:(lia)).
      assert (2 ^ 1 <= 2 ^ e) by (apply Z.pow_le_mono_r; lia). change (2 ^ 1) with 2 in *. nia.
Qed.

(* ---- totality of unpack_remb_fci (property C05) *)
Lemma unpack_remb_fci_total data : bytes_ok data -> benign (unpack_remb_fci data).
Proof.
  intros Hok. unfold unpack_remb_fci.
  destruct (Nat.ltb (length data) 8) eqn:Hl; cbn [orb]; [exact I|].
  apply Nat.ltb_ge in Hl.
  destruct (negb (bytes_eqb (slice data 0 4) [82; 69; 77; 66])); [exact I|].
  destruct (u8_some data 4) as [cnt Hc]; [lia|]. destruct (u8_some data 5) as [d5 H5]; [lia|].
  destruct (u8_some data 6) as [d6 H6]; [lia|]. destruct (u8_some data 7) as [d7 H7]; [lia|].
  rewrite Hc, H5, H6, H7.
  destruct (Z.ltb_spec (len data) (8 + cnt * 4)) as [|Hge]; [exact I|].
  apply u8_range in Hc; [|exact Hok].
  destruct (u32s_some data 8 (Z.to_nat cnt)) as [l ->]; [unfold len in Hge; lia|exact I].
Qed.

(* ================================================================ generic NACK *)
(* the 16-bit sequence numbers one FCI entry denotes *)
Definition bit_set (blp d : Z) : bool := negb (Z.land (Z.shiftr blp d) 1 =? 0).

Lemma bit_set_testbit blp d : 0 <= d -> bit_set blp d = Z.testbit blp d.
Proof.
  intros H. unfold bit_set. rewrite testbit_b2z by lia. now destruct (Z.testbit blp d).
Qed.

Lemma nack_expand_spec pid blp x :
  In x (nack_expand pid blp) <->
  x = pid \/ exists d, 0 <= d < 16 /\ Z.testbit blp d = true /\ x = (pid + d + 1) mod 65536.
Proof.
  unfold nack_expand. cbn [In]. rewrite in_map_iff. split.
  - intros [H|(d & Hx & Hin)]; [left; congruence|right].
    apply filter_In in Hin as [Hd Hb]. exists d.
    assert (0 <= d < 16) by (unfold d16 in Hd; cbn [In] in Hd; lia).
    fold (bit_set blp d) in Hb. rewrite bit_set_testbit in Hb by lia.
    rewrite land_65535 in Hx. auto.
  - intros [H|(d & Hd & Hb & Hx)]; [left; congruence|right].
    exists d. split; [rewrite land_65535; congruence|].
    apply filter_In. split.
    + unfold d16. cbn [In]. lia.
    + fold (bit_set blp d). rewrite bit_set_testbit by lia. exact Hb.
Qed.

(* ---- set semantics of __bytes__: every list of 16-bit numbers *)
Definition flat_expand (l : list (Z * Z)) : list Z :=
  flat_map (fun e => nack_expand (fst e) (snd e)) l.

Definition blp_ok (pid blp : Z) (seen : list Z) : Prop :=
  0 <= blp < 65536 /\
  forall d, 0 <= d < 16 -> Z.testbit blp d = true -> In ((pid + d + 1) mod 65536) seen.

Lemma lor_bit_range blp d : 0 <= blp < 65536 -> 0 <= d < 16 -> 0 <= Z.lor blp (Z.shiftl 1 d) < 65536.
Proof.
  intros Hb Hd. split.
  - apply Z.lor_nonneg. split; [lia|]. apply Z.shiftl_nonneg. lia.
  - destruct (Z.eq_dec (Z.lor blp (Z.shiftl 1 d)) 0) as [->|Hne]; [lia|].
    assert (Hnn : 0 <= Z.lor blp (Z.shiftl 1 d)).
    { apply Z.lor_nonneg. split; [lia|]. apply Z.shiftl_nonneg. lia. }
    apply Z.log2_lt_cancel. change (Z.log2 65536) with 16.
    rewrite Z.log2_lor by (try lia; apply Z.shiftl_nonneg; lia).
    apply Z.max_lub_lt.
    + destruct (Z.eq_dec blp 0) as [->|Hb0]; [cbn; lia|]. apply Z.log2_lt_pow2; lia.
    + rewrite Z.shiftl_mul_pow2, Z.mul_1_l, Z.log2_pow2 by lia. lia.
Qed.

Lemma testbit_lor_bit blp d i :
  0 <= d -> 0 <= i -> Z.testbit (Z.lor blp (Z.shiftl 1 d)) i = Z.testbit blp i || (i =? d).
Proof.
  intros Hd Hi. rewrite Z.lor_spec. f_equal.
  rewrite Z.shiftl_mul_pow2, Z.mul_1_l by lia.
  destruct (Z.eqb_spec i d) as [->|Hne]; [apply Z.pow2_bits_true; lia|apply Z.pow2_bits_false; lia].
Qed.

(* membership in the parsed list, for the serialised entries of `rest` given the
   open entry (pid, blp) *)
Lemma nack_entries_members rest : forall pid blp x,
  0 <= pid < 65536 -> 0 <= blp < 65536 -> Forall (fun p => 0 <= p < 65536) rest ->
  (In x (flat_expand (nack_entries pid blp rest)) <->
   In x (nack_expand pid blp) \/ In x rest).
Proof.
  induction rest as [|p rest IH]; intros pid blp x Hpid Hblp Hr; cbn [nack_entries].
  - unfold flat_expand. cbn [flat_map fst snd]. rewrite app_nil_r. cbn [In]. tauto.
  - inversion Hr as [|? ? Hp Hr']; subst.
    rewrite land_65535.
    destruct (Z.ltb_spec ((p - pid - 1) mod 65536) 16) as [Hd|Hd].
    + set (d := (p - pid - 1) mod 65536) in *.
      assert (Hd0 : 0 <= d < 16) by (unfold d; lia).
      rewrite IH by (auto using lor_bit_range).
      rewrite !nack_expand_spec. cbn [In].
      assert (Hp' : p = (pid + d + 1) mod 65536) by (unfold d; lia).
      split.
      * intros [[H|(i & Hi & Hb & Hx)]|H]; auto.
        rewrite testbit_lor_bit in Hb by lia.
        apply orb_true_iff in Hb as [Hb|Hb].
        -- left. right. eauto.
        -- apply Z.eqb_eq in Hb. subst i. right. left. congruence.
      * intros [[H|(i & Hi & Hb & Hx)]|[H|H]]; auto.
        -- left. right. exists i. rewrite testbit_lor_bit by lia. rewrite Hb. auto.
        -- left. right. exists d. rewrite testbit_lor_bit by lia. rewrite Z.eqb_refl, orb_true_r.
           split; [lia|]. split; [reflexivity|]. congruence.
    + unfold flat_expand. cbn [flat_map fst snd]. rewrite in_app_iff.
      fold (flat_expand (nack_entries p 0 rest)).
      rewrite IH by (auto; lia).
      rewrite (nack_expand_spec p 0). cbn [In].
      split.
      * intros [H|[[H|(i & _ & Hb & _)]|H]]; auto. rewrite Z.bits_0 in Hb. discriminate.
      * intros [H|[H|H]]; auto.
Qed.

(* pack + parse of the entry list *)
Lemma nack_parse_pack l : forall b,
  nack_pack l = Ok b -> nack_parse b = Ok (flat_expand l) /\ length b = (4 * length l)%nat /\ bytes_ok b.
Proof.
  induction l as [|[pid blp] l IH]; intros b H; cbn [nack_pack] in H.
  - apply Ok_inj in H. subst b. repeat split. apply bytes_ok_nil.
  - destruct (u16ok pid && u16ok blp) eqn:Hr; [|discriminate].
    apply andb_true_iff in Hr as [Hp Hb]. apply u16ok_true in Hp. apply u16ok_true in Hb.
    destruct (nack_pack l) as [r| | |] eqn:Hl; cbn [bind] in H; try discriminate.
    apply Ok_inj in H. subst b. destruct (IH r eq_refl) as (IH1 & IH2 & IH3).
    unfold be16. cbn [app nack_parse length]. rewrite IH1. cbn [bind].
    split; [|split; [lia|]].
    + unfold flat_expand. cbn [flat_map fst snd]. f_equal. f_equal; f_equal; lia.
    + unfold bytes_ok. repeat (apply Forall_cons; [unfold byte_ok; lia|]). exact IH3.
Qed.

Lemma nack_entries_ok rest : forall pid blp,
  0 <= pid < 65536 -> 0 <= blp < 65536 -> Forall (fun p => 0 <= p < 65536) rest ->
  exists b, nack_pack (nack_entries pid blp rest) = Ok b.
Proof.
  induction rest as [|p rest IH]; intros pid blp Hpid Hblp Hr; cbn [nack_entries nack_pack].
  - rewrite !u16ok_intro by lia. cbn [andb bind]. eauto.
  - inversion Hr as [|? ? Hp Hr']; subst. rewrite land_65535.
    destruct (Z.ltb_spec ((p - pid - 1) mod 65536) 16) as [Hd|Hd].
    + apply IH; auto. apply lor_bit_range; lia.
    + cbn [nack_pack]. rewrite !u16ok_intro by lia. cbn [andb].
      destruct (IH p 0 Hp ltac:(lia) Hr') as [b ->]. cbn [bind]. eauto.
Qed.

Lemma nack_entries_count rest : forall pid blp,
  (length (nack_entries pid blp rest) <= S (length rest))%nat.
Proof.
  induction rest as [|p rest IH]; intros pid blp; cbn [nack_entries length]; [lia|].
  destruct (_ <? 16); [specialize (IH pid (Z.lor blp (Z.shiftl 1 (Z.land (p - pid - 1) 65535)))); lia|].
  cbn [length]. specialize (IH p 0). lia.
Qed.

(* ---- exact list round trip for lists in which consecutive numbers advance by
   1..65520 (mod 2^16): ascending lists, also across the wrap *)
Fixpoint nack_chain (prev : Z) (l : list Z) : Prop :=
  match l with
  | [] => True
  | p :: l' => 0 <= p < 65536 /\ 1 <= (p - prev) mod 65536 <= 65520 /\ nack_chain p l'
  end.

Lemma nack_chain_range prev l : nack_chain prev l -> Forall (fun p => 0 <= p < 65536) l.
Proof.
  revert prev. induction l as [|p l IH]; intros prev H; [constructor|].
  destruct H as (Hp & _ & Hc). constructor; [exact Hp|eapply IH; eauto].
Qed.

(* numerically ascending lists of distinct numbers: what sorted(set) gives *)
Fixpoint nack_ascending (prev : Z) (l : list Z) : Prop :=
  match l with
  | [] => True
  | p :: l' => prev < p < 65536 /\ nack_ascending p l'
  end.

(* the exactness condition of the greedy packing itself: relative to the open FCI
   entry `pid` whose set bits are all below `c`, the next number either lands on a
   bit >= c of the same entry or opens a new entry *)
Fixpoint nack_exact (pid c : Z) (l : list Z) : Prop :=
  match l with
  | [] => True
  | p :: l' =>
      0 <= p < 65536 /\
      (if (p - pid - 1) mod 65536 <? 16
       then c <= (p - pid - 1) mod 65536 /\ nack_exact pid ((p - pid - 1) mod 65536 + 1) l'
       else nack_exact p 0 l')
  end.

Definition nack_canonical (l : list Z) : Prop :=
  match l with
  | [] => True
  | pid :: rest => 0 <= pid < 65536 /\ nack_exact pid 0 rest
  end.

Lemma nack_exact_range l : forall pid c, nack_exact pid c l -> Forall (fun p => 0 <= p < 65536) l.
Proof.
  induction l as [|p l IH]; intros pid c H; [constructor|].
  destruct H as (Hp & Hb). constructor; [exact Hp|].
  destruct (_ <? 16); [destruct Hb as [_ Hb]|]; eapply IH; eauto.
Qed.

Lemma nack_chain_exact rest : forall pid c,
  0 <= pid < 65536 -> 0 <= c <= 16 -> nack_chain ((pid + c) mod 65536) rest -> nack_exact pid c rest.
Proof.
  induction rest as [|p rest IH]; intros pid c Hpid Hc Hch; cbn [nack_exact]; [exact I|].
  destruct Hch as (Hp & Hstep & Hch). split; [exact Hp|].
  assert (Hdist : (p - pid - 1) mod 65536 = c + (p - (pid + c) mod 65536) mod 65536 - 1) by lia.
  destruct (Z.ltb_spec ((p - pid - 1) mod 65536) 16) as [Hd|Hd].
  - split; [lia|]. apply IH; [lia|lia|].
    replace ((pid + ((p - pid - 1) mod 65536 + 1)) mod 65536) with p by lia. exact Hch.
  - apply IH; [lia|lia|]. replace ((p + 0) mod 65536) with p by lia. exact Hch.
Qed.

Lemma nack_ascending_exact rest : forall pid c,
  0 <= pid -> 0 <= c <= 16 -> pid + c < 65536 -> nack_ascending (pid + c) rest -> nack_exact pid c rest.
Proof.
  induction rest as [|p rest IH]; intros pid c Hpid Hc Hlast Hasc; cbn [nack_exact]; [exact I|].
  destruct Hasc as (Hp & Hasc). split; [lia|].
  assert (Hd : (p - pid - 1) mod 65536 = p - pid - 1) by lia. rewrite Hd.
  destruct (Z.ltb_spec (p - pid - 1) 16) as [Hlt|Hge].
  - split; [lia|]. apply IH; [lia|lia|lia|]. replace (pid + (p - pid - 1 + 1)) with p by lia. exact Hasc.
  - apply IH; [lia|lia|lia|]. replace (p + 0) with p by lia. exact Hasc.
Qed.

(* sufficient conditions, as stated in the property *)
Lemma nack_canonical_chain pid rest : 0 <= pid < 65536 -> nack_chain pid rest -> nack_canonical (pid :: rest).
Proof.
  intros Hp Hc. split; [exact Hp|]. apply nack_chain_exact; [lia|lia|].
  replace ((pid + 0) mod 65536) with pid by lia. exact Hc.
Qed.

Lemma nack_canonical_ascending pid rest :
  0 <= pid < 65536 -> nack_ascending pid rest -> nack_canonical (pid :: rest).
Proof.
  intros Hp Hc. split; [exact Hp|]. apply nack_ascending_exact; [lia|lia|lia|].
  replace (pid + 0) with pid by lia. exact Hc.
Qed.

(* the bits of blp strictly below c, as offsets *)
Definition offs (blp : Z) : list Z := filter (bit_set blp) d16.

Lemma filter_none {T} (f : T -> bool) l : (forall x, In x l -> f x = false) -> filter f l = [].
Proof.
  induction l as [|x l IH]; intros H; cbn [filter]; [reflexivity|].
  rewrite (H x (or_introl eq_refl)). apply IH. intros y Hy. apply H. now right.
Qed.

Lemma d16_seq : d16 = map Z.of_nat (seq 0 16).
Proof. reflexivity. Qed.

Lemma offs_lor_new blp d :
  0 <= blp < 2 ^ d -> 0 <= d < 16 -> offs (Z.lor blp (Z.shiftl 1 d)) = offs blp ++ [d].
Proof.
  intros Hb Hd.
  assert (Hhigh : forall i, d <= i -> Z.testbit blp i = false).
  { intros i Hi. destruct (Z.eq_dec blp 0) as [->|Hne]; [apply Z.bits_0|].
    apply Z.bits_above_log2; [lia|]. apply Z.lt_le_trans with d; [apply Z.log2_lt_pow2; lia|lia]. }
  assert (Hbits : forall i, 0 <= i ->
            bit_set (Z.lor blp (Z.shiftl 1 d)) i = (bit_set blp i || (i =? d))).
  { intros i Hi. rewrite !bit_set_testbit by lia. apply testbit_lor_bit; lia. }
  unfold offs. rewrite d16_seq.
  set (k := Z.to_nat d).
  assert (Hk : Z.of_nat k = d) by (unfold k; lia). clearbody k.
  replace 16%nat with (k + S (15 - k))%nat by lia.
  rewrite seq_app. cbn [seq]. rewrite !map_app. cbn [map]. rewrite !filter_app. cbn [filter].
  rewrite Nat.add_0_l.
  rewrite Hk.
  rewrite (Hbits d) by lia. rewrite Z.eqb_refl, orb_true_r.
  rewrite (bit_set_testbit blp d), (Hhigh d) by lia.
  rewrite (filter_none (bit_set (Z.lor blp (Z.shiftl 1 d))) (map Z.of_nat (seq (S k) (15 - k)))); cycle 1.
  { intros x Hx. apply in_map_iff in Hx as (j & <- & Hj). apply in_seq in Hj.
    rewrite Hbits by lia. rewrite bit_set_testbit, Hhigh by lia.
    destruct (Z.eqb_spec (Z.of_nat j) d); [lia|reflexivity]. }
  rewrite (filter_none (bit_set blp) (map Z.of_nat (seq (S k) (15 - k)))); cycle 1.
  { intros x Hx. apply in_map_iff in Hx as (j & <- & Hj). apply in_seq in Hj.
    rewrite bit_set_testbit, Hhigh by lia. reflexivity. }
  rewrite !app_nil_r. f_equal.
  apply filter_ext_in. intros x Hx. apply in_map_iff in Hx as (j & <- & Hj). apply in_seq in Hj.
  rewrite Hbits by lia. destruct (Z.eqb_spec (Z.of_nat j) d); [lia|apply orb_false_r].
Qed.

Lemma nack_expand_offs pid blp :
  nack_expand pid blp = pid :: map (fun d => Z.land (pid + d + 1) 65535) (offs blp).
Proof. reflexivity. Qed.

(* state: open entry (pid, blp) with all bits below c (= distance of the last
   number from pid), the last number being pid + c *)
Lemma nack_entries_exact rest : forall pid blp c,
  0 <= pid < 65536 -> 0 <= c <= 16 -> 0 <= blp < 2 ^ c ->
  nack_exact pid c rest ->
  flat_expand (nack_entries pid blp rest) = nack_expand pid blp ++ rest.
Proof.
  induction rest as [|p rest IH]; intros pid blp c Hpid Hc Hblp Hch; cbn [nack_entries].
  - unfold flat_expand. cbn [flat_map fst snd]. reflexivity.
  - destruct Hch as (Hp & Hch). rewrite land_65535.
    destruct (Z.ltb_spec ((p - pid - 1) mod 65536) 16) as [Hd|Hd].
    + destruct Hch as [Hcd Hch].
      assert (Hp' : (pid + ((p - pid - 1) mod 65536) + 1) mod 65536 = p) by lia.
      remember ((p - pid - 1) mod 65536) as d eqn:Ed. clear Ed.
      assert (Hpow : 2 ^ c <= 2 ^ d) by (apply Z.pow_le_mono_r; lia).
      rewrite (IH pid (Z.lor blp (Z.shiftl 1 d)) (d + 1)); try lia.
      * rewrite !nack_expand_offs, offs_lor_new by lia.
        rewrite map_app. cbn [map app]. rewrite <- app_assoc. cbn [app].
        f_equal. f_equal. f_equal. rewrite land_65535. exact Hp'.
      * assert (Hnn : 0 <= Z.lor blp (Z.shiftl 1 d))
          by (apply Z.lor_nonneg; split; [lia|apply Z.shiftl_nonneg; lia]).
        split; [exact Hnn|].
        destruct (Z.eq_dec (Z.lor blp (Z.shiftl 1 d)) 0) as [->|Hne]; [apply Z.pow_pos_nonneg; lia|].
        apply Z.log2_lt_pow2; [lia|].
        rewrite Z.log2_lor by (try lia; apply Z.shiftl_nonneg; lia).
        apply Z.max_lub_lt.
        -- destruct (Z.eq_dec blp 0) as [->|Hb0]; [cbn; lia|].
           apply Z.lt_le_trans with d; [apply Z.log2_lt_pow2; lia|lia].
        -- rewrite Z.shiftl_mul_pow2, Z.mul_1_l, Z.log2_pow2 by lia. lia.
      * exact Hch.
    + unfold flat_expand. cbn [flat_map fst snd]. fold (flat_expand (nack_entries p 0 rest)).
      rewrite (IH p 0 0); try lia.
      * reflexivity.
      * exact Hch.
Qed.

(* ================================================================ fuel of pack_remb_fci *)
(* the stated fuel suffices for EVERY bitrate (also out-of-range ones): the
   `while mantissa > 0x3FFFF` loop always terminates within it *)
Lemma remb_loop_fuel_enough b : exists m e, remb_loop (remb_fuel b) b 0 = Ok (m, e).
Proof.
  destruct (Z_lt_ge_dec b 0) as [Hneg|Hpos].
  - unfold remb_fuel. cbn [remb_loop]. destruct (Z.ltb_spec 262143 b); [lia|eauto].
  - destruct (remb_fuel_enough b ltac:(lia)) as [H1 H2].
    destruct (remb_loop_spec _ b 0 H1 H2) as (m & e & H & _). eauto.
Qed.

Lemma be32s_not_fuel l : be32s l <> OutOfFuel.
Proof.
  induction l as [|x l IH]; cbn [be32s]; [discriminate|].
  destruct (u32ok x); [|discriminate]. destruct (be32s l); cbn [bind]; congruence.
Qed.

Lemma pack_remb_fci_fuel b ssrcs : pack_remb_fci b ssrcs <> OutOfFuel.
Proof.
  unfold pack_remb_fci. destruct (remb_loop_fuel_enough b) as (m & e & ->). cbn [bind].
  destruct (_ && _); [|discriminate].
  assert (H := be32s_not_fuel ssrcs). destruct (be32s ssrcs); cbn [bind]; congruence.
Qed.
