(* Proofs about Model/Rtp.v, part 3: RtpPacket.parse (serialize p) = p; RTX inverse. *)
From Coq Require Import ZArith List Bool Lia.
From AV Require Import Lib.Bytes Lib.BytesP Lib.RtpX Gen.RtpConst Model.Rtp
  Proof.RtpBitsP Proof.RtpP Proof.RtpHextP.
Import ListNotations.
Local Open Scope Z_scope.

Ltac Zify.zify_post_hook ::= Z.to_euclidean_division_equations.

Definition is_u32 (x : Z) : Prop := 0 <= x < 4294967296.

Definition wf_rtp (m : ids) (p : rtp) (pad : bytes) : Prop :=
  0 <= marker p <= 1 /\ 0 <= payload_type p < 128 /\ 0 <= sequence_number p < 65536 /\
  is_u32 (timestamp p) /\ is_u32 (ssrc p) /\ Forall is_u32 (csrc p) /\ (length (csrc p) <= 15)%nat /\
  wf_hext m (extensions p) /\ bytes_ok (payload p) /\ 0 <= padding_size p <= 255 /\
  (0 < padding_size p -> bytes_ok pad /\ Z.of_nat (length pad) = padding_size p - 1).

(* ================================================================ first two bytes *)
Lemma byte0_value pb xb cc :
  0 <= cc < 16 ->
  Z.lor (Z.lor (Z.lor (Z.shiftl 2 6) (Z.shiftl (b2z pb) 5)) (Z.shiftl (b2z xb) 4)) cc =
  128 + b2z pb * 32 + b2z xb * 16 + cc.
Proof.
  intros H. destruct pb, xb; cbn [b2z];
    match goal with |- Z.lor ?a cc = _ =>
      let k := eval vm_compute in a in change a with k;
      rewrite (lor_add k cc 4); [lia|lia|change (2 ^ 4) with 16; lia|reflexivity] end.
Qed.

Lemma byte1_value mk pt :
  0 <= mk <= 1 -> 0 <= pt < 128 -> Z.lor (Z.shiftl mk 7) pt = mk * 128 + pt.
Proof.
  intros Hm Hp. rewrite Z.shiftl_mul_pow2 by lia. change (2 ^ 7) with 128.
  apply (lor_add _ _ 7); [lia|change (2 ^ 7) with 128; lia|change (2 ^ 7) with 128; lia].
Qed.

Ltac lay Hd := first [lia | reflexivity | (rewrite Hd, <- ?app_assoc; reflexivity)].

(* ================================================================ parsing a laid-out packet *)
Definition ext_part (m : ids) (xb : bool) (ex : bytes) (exts : hext) : Prop :=
  if xb then
    exists prof ev, ex = be16 prof ++ be16 (len ev / 4) ++ ev /\ len ev mod 4 = 0 /\
                    len ev / 4 < 65536 /\ 0 <= prof < 65536 /\ hext_get m prof ev = Ok exts
  else ex = [] /\ exts = hext_empty.

Definition pad_part (pb : bool) (tail : bytes) (padsz : Z) : Prop :=
  if pb then exists pad, tail = pad ++ [padsz] /\ 1 <= padsz <= 255 /\ Z.of_nat (length pad) = padsz - 1
  else tail = [] /\ padsz = 0.

Lemma rtp_parse_layout m pb xb mk pt seq ts ssrc_ csrc_ cs ex exts payload_ tail padsz :
  0 <= mk <= 1 -> 0 <= pt < 128 -> 0 <= seq < 65536 -> is_u32 ts -> is_u32 ssrc_ ->
  be32s csrc_ = Ok cs -> (length csrc_ <= 15)%nat ->
  ext_part m xb ex exts -> pad_part pb tail padsz ->
  rtp_parse m (be8 (128 + b2z pb * 32 + b2z xb * 16 + Z.of_nat (length csrc_)) ++ be8 (mk * 128 + pt) ++
               be16 seq ++ be32 ts ++ be32 ssrc_ ++ cs ++ ex ++ payload_ ++ tail) =
    Ok (mkRtp mk pt seq ts ssrc_ csrc_ exts payload_ padsz).
Proof.
  unfold is_u32. intros Hmk Hpt Hseq Hts Hssrc Hcs Hcc Hext Hpad.
  set (cc := Z.of_nat (length csrc_)) in *.
  set (b0 := 128 + b2z pb * 32 + b2z xb * 16 + cc).
  assert (Hb0 : 0 <= b0 < 256) by (unfold b0, cc; destruct pb, xb; cbn [b2z]; lia).
  assert (Hlcs := be32s_length _ _ Hcs).
  remember (be8 b0 ++ be8 (mk * 128 + pt) ++ be16 seq ++ be32 ts ++ be32 ssrc_ ++ cs ++ ex ++ payload_ ++ tail)
    as data eqn:Hd.
  assert (Hlen : length data = (12 + 4 * length csrc_ + length ex + length payload_ + length tail)%nat).
  { rewrite Hd, !app_length, Hlcs. cbn [length be8 be16 be32]. lia. }
  unfold rtp_parse.
  replace (Nat.ltb (length data) 12) with false by (symmetry; apply Nat.ltb_ge; lia).
  rewrite (u8_at' data [] b0 _ 0%nat Hd eq_refl Hb0).
  rewrite (u8_at' data (be8 b0) (mk * 128 + pt) _ 1%nat) by lay Hd.
  rewrite (u16_at' data (be8 b0 ++ be8 (mk * 128 + pt)) seq _ 2%nat)
    by lay Hd.
  rewrite (u32_at' data (be8 b0 ++ be8 (mk * 128 + pt) ++ be16 seq) ts _ 4%nat)
    by lay Hd.
  rewrite (u32_at' data (be8 b0 ++ be8 (mk * 128 + pt) ++ be16 seq ++ be32 ts) ssrc_ _ 8%nat)
    by lay Hd.
  rewrite !Z.shiftr_div_pow2 by lia. rewrite !land_1, land_15, land_127.
  change (2 ^ 6) with 64. change (2 ^ 5) with 32. change (2 ^ 4) with 16. change (2 ^ 7) with 128.
  assert (Hv : b0 / 64 = 2) by (unfold b0, cc; destruct pb, xb; cbn [b2z]; lia).
  assert (Hp : (b0 / 32) mod 2 = b2z pb) by (unfold b0, cc; destruct pb, xb; cbn [b2z]; lia).
  assert (Hx : (b0 / 16) mod 2 = b2z xb) by (unfold b0, cc; destruct pb, xb; cbn [b2z]; lia).
  assert (Hc : b0 mod 16 = cc) by (unfold b0, cc; destruct pb, xb; cbn [b2z]; lia).
  rewrite Hv, Hp, Hx, Hc. cbn [Z.eqb Pos.eqb negb].
  replace (len data <? 12 + cc * 4) with false by (symmetry; apply Z.ltb_ge; unfold len, cc; lia).
  assert (Hcc' : Z.to_nat cc = length csrc_) by (unfold cc; lia). rewrite Hcc'.
  rewrite (u32s_at' data (be8 b0 ++ be8 (mk * 128 + pt) ++ be16 seq ++ be32 ts ++ be32 ssrc_) csrc_ cs _ 12%nat
             (length csrc_)) by (try reflexivity; try exact Hcs; rewrite Hd, <- ?app_assoc; reflexivity).
  set (hdr := be8 b0 ++ be8 (mk * 128 + pt) ++ be16 seq ++ be32 ts ++ be32 ssrc_) in *.
  assert (Hhdr : length hdr = 12%nat) by reflexivity.
  replace ((mk * 128 + pt) / 128) with mk by lia.
  replace ((mk * 128 + pt) mod 128) with pt by lia.
  (* extension block *)
  assert (Hextok :
    (if b2z xb =? 0 then Ok (hext_empty, (12 + 4 * length csrc_)%nat)
     else if Nat.ltb (length data) (12 + 4 * length csrc_ + 4) then ValueErr
     else match u16 data (12 + 4 * length csrc_), u16 data (12 + 4 * length csrc_ + 2) with
          | Some profile, Some words =>
              let elen := Z.to_nat (words * 4) in
              let p1 := (12 + 4 * length csrc_ + 4)%nat in
              if Nat.ltb (length data) (p1 + elen) then ValueErr
              else do e <- hext_get m profile (slice data p1 (p1 + elen)); Ok (e, (p1 + elen)%nat)
          | _, _ => Crash
          end) = Ok (exts, (12 + 4 * length csrc_ + length ex)%nat)).
  { destruct xb; cbn [b2z Z.eqb ext_part] in *.
    - destruct Hext as (prof & ev & Hex & Hm4 & Hw & Hprof & Hget).
      assert (Hlev := len_nonneg ev).
      assert (Hlex : length ex = (4 + length ev)%nat) by (rewrite Hex, !app_length; cbn [length be16]; lia).
      replace (Nat.ltb (length data) (12 + 4 * length csrc_ + 4)) with false
        by (symmetry; apply Nat.ltb_ge; lia).
      rewrite (u16_at' data (hdr ++ cs) prof (be16 (len ev / 4) ++ ev ++ payload_ ++ tail))
        by (first [lia | (rewrite Hd, Hex, <- ?app_assoc; reflexivity)
                  | (rewrite !app_length, Hhdr, Hlcs; cbn [length be16]; lia)]).
      rewrite (u16_at' data (hdr ++ cs ++ be16 prof) (len ev / 4) (ev ++ payload_ ++ tail))
        by (first [lia | (rewrite Hd, Hex, <- ?app_assoc; reflexivity)
                  | (rewrite !app_length, Hhdr, Hlcs; cbn [length be16]; lia)]).
      cbv zeta.
      assert (Hel : Z.to_nat (len ev / 4 * 4) = length ev) by (unfold len in *; lia). rewrite Hel.
      replace (Nat.ltb (length data) (12 + 4 * length csrc_ + 4 + length ev)) with false
        by (symmetry; apply Nat.ltb_ge; lia).
      rewrite (slice_at' data (hdr ++ cs ++ be16 prof ++ be16 (len ev / 4)) ev (payload_ ++ tail))
        by (first [lia | (rewrite Hd, Hex, <- ?app_assoc; reflexivity)
                  | (rewrite !app_length, Hhdr, Hlcs; cbn [length be16]; lia)]).
      rewrite Hget. cbn [bind]. do 2 f_equal. lia.
    - destruct Hext as [-> ->]. cbn [length]. do 2 f_equal. lia. }
  cbv zeta in Hextok. rewrite Hextok. cbn [bind].
  (* padding *)
  destruct pb; cbn [b2z Z.eqb pad_part] in *.
  - destruct Hpad as (pad & Htail & Hps & Hlp).
    assert (Hlt : length tail = Z.to_nat padsz) by (rewrite Htail, app_length; cbn [length]; lia).
    replace (last_byte data) with (Some padsz); cycle 1.
    { symmetry. rewrite Hd, Htail. rewrite !app_assoc. apply last_byte_snoc. }
    replace (padsz =? 0) with false by (symmetry; apply Z.eqb_neq; lia).
    replace (len data - Z.of_nat (12 + 4 * length csrc_ + length ex) <? padsz) with false
      by (symmetry; apply Z.ltb_ge; unfold len; lia).
    cbn [orb].
    rewrite (slice_at' data (hdr ++ cs ++ ex) payload_ tail)
      by (first [lia | (rewrite Hd, <- ?app_assoc; reflexivity) | (rewrite !app_length, Hhdr, Hlcs; lia)]).
    reflexivity.
  - destruct Hpad as [-> ->].
    rewrite (from_at' data (hdr ++ cs ++ ex) payload_)
      by (first [lia | (rewrite Hd, app_nil_r, <- ?app_assoc; reflexivity) | (rewrite !app_length, Hhdr, Hlcs; lia)]).
    reflexivity.
Qed.

(* ================================================================ the round trip *)
Theorem rtp_roundtrip m p pad :
  ids_ok m -> wf_rtp m p pad ->
  exists b, rtp_serialize m p pad = Ok b /\ bytes_ok b /\ rtp_parse m b = Ok p.
Proof.
  intros Hok Hwf. destruct p as [mk pt seq ts ssrc_ csrc_ exts payload_ padsz].
  unfold wf_rtp in Hwf. cbn [marker payload_type sequence_number timestamp ssrc csrc extensions payload padding_size] in Hwf.
  destruct Hwf as (Hmk & Hpt & Hseq & Hts & Hssrc & Hcsrc & Hcc & Hext & Hpay & Hps & Hpad).
  destruct (hext_get_set m exts Hok Hext) as (prof & ev & Hset & Hget & Hevok & Hm4 & Hevlen & Hprof).
  destruct (be32s_ok csrc_ Hcsrc) as [cs Hcs].
  assert (Hcsok := be32s_bytes_ok _ _ Hcs).
  unfold rtp_serialize. cbn [marker payload_type sequence_number timestamp ssrc csrc extensions payload padding_size].
  rewrite Hset. cbn [bind].
  rewrite byte0_value by (rewrite zlen_length; lia). rewrite byte1_value by lia.
  assert (Hts' := Hts). assert (Hssrc' := Hssrc). unfold is_u32 in Hts', Hssrc'.
  rewrite zlen_length.
  set (xb := negb (is_nil ev)). set (pb := 0 <? padsz).
  rewrite !u8ok_intro, u16ok_intro, !u32ok_intro by (try lia; destruct pb, xb; cbn [b2z]; lia).
  cbn [andb]. rewrite Hcs. cbn [bind].
  (* the extension block *)
  assert (Hex : exists ex,
    (if xb then
       if u16ok prof && u16ok (Z.shiftr (len ev) 2)
       then Ok (be16 prof ++ be16 (Z.shiftr (len ev) 2) ++ ev) else Crash
     else Ok []) = Ok ex /\ bytes_ok ex /\ ext_part m xb ex exts).
  { assert (Hlev := len_nonneg ev).
    rewrite Z.shiftr_div_pow2 by lia. change (2 ^ 2) with 4.
    assert (Hw : len ev / 4 < 65536) by (unfold len; lia).
    unfold xb. destruct (is_nil ev) eqn:En; cbn [negb].
    - assert (ev = []) by (destruct ev; [reflexivity|discriminate]). subst ev.
      exists []. split; [reflexivity|]. split; [apply bytes_ok_nil|]. cbn [ext_part]. split; [reflexivity|].
      unfold hext_get in Hget. destruct (unpack_header_extensions prof []) as [xs| | |] eqn:Hu; cbn [bind] in Hget; try discriminate.
      unfold unpack_header_extensions in Hu.
      destruct (prof =? 48862); [cbn in Hu; apply Ok_inj in Hu; subst xs; cbn in Hget; congruence|].
      destruct (prof =? 4096); [cbn in Hu; apply Ok_inj in Hu; subst xs; cbn in Hget; congruence|].
      apply Ok_inj in Hu; subst xs; cbn in Hget; congruence.
    - rewrite !u16ok_intro by lia. cbn [andb].
      eexists. split; [reflexivity|]. split.
      + repeat (apply bytes_ok_app; split); auto using be16_ok.
      + cbn [ext_part]. exists prof, ev. auto. }
  destruct Hex as (ex & -> & Hexok & Hexpart). cbn [bind].
  (* the padding block *)
  assert (Htl : exists tail,
    (if pb then if padsz <? 256 then Ok (pad ++ [padsz]) else ValueErr else Ok []) = Ok tail /\
    bytes_ok tail /\ pad_part pb tail padsz).
  { unfold pb. destruct (Z.ltb_spec 0 padsz) as [Hpos|Hz].
    - destruct (Hpad Hpos) as [Hpadok Hpadlen].
      replace (padsz <? 256) with true by (symmetry; apply Z.ltb_lt; lia).
      eexists. split; [reflexivity|]. split.
      + apply bytes_ok_app. split; [exact Hpadok|]. apply bytes_ok_cons. split; [unfold byte_ok; lia|apply bytes_ok_nil].
      + cbn [pad_part]. exists pad. split; [reflexivity|]. split; lia.
    - exists []. split; [reflexivity|]. split; [apply bytes_ok_nil|]. cbn [pad_part]. split; [reflexivity|lia]. }
  destruct Htl as (tail & -> & Htailok & Htailpart). cbn [bind].
  eexists. split; [reflexivity|]. split.
  { repeat (apply bytes_ok_app; split); auto using be8_ok, be16_ok, be32_ok. }
  apply rtp_parse_layout; auto.
Qed.

(* ================================================================ RTX *)
Theorem rtx_inverse p pt seq ssrc_ :
  0 <= sequence_number p < 65536 ->
  exists r, wrap_rtx p pt seq ssrc_ = Ok r /\
            payload_type r = pt /\ sequence_number r = seq /\ ssrc r = ssrc_ /\
            marker r = marker p /\ timestamp r = timestamp p /\
            unwrap_rtx r (payload_type p) (ssrc p) =
              Ok (mkRtp (marker p) (payload_type p) (sequence_number p) (timestamp p) (ssrc p)
                        (csrc p) (extensions p) (payload p) 0).
Proof.
  intros Hs. unfold wrap_rtx. rewrite u16ok_intro by lia. eexists. split; [reflexivity|].
  cbn [payload_type sequence_number ssrc marker timestamp]. repeat (split; [reflexivity|]).
  unfold unwrap_rtx. cbn [payload marker timestamp csrc extensions].
  rewrite u16_be16 by lia.
  change 2%nat with (length (be16 (sequence_number p))). now rewrite from_app.
Qed.

Corollary rtx_inverse_exact p pt seq ssrc_ :
  0 <= sequence_number p < 65536 -> padding_size p = 0 ->
  exists r, wrap_rtx p pt seq ssrc_ = Ok r /\ unwrap_rtx r (payload_type p) (ssrc p) = Ok p.
Proof.
  intros Hs Hp. destruct (rtx_inverse p pt seq ssrc_ Hs) as (r & Hw & _ & _ & _ & _ & _ & Hu).
  exists r. split; [exact Hw|]. rewrite Hu. destruct p. cbn in *. now subst.
Qed.
