(* Sender fragmentation (_send): structure of the produced chunks. *)
From Coq Require Import ZArith List Bool Lia.
From AV Require Import Lib.Bytes Lib.BytesP Gen.Utils Gen.SctpConst Model.SctpRecv Model.SctpSend
  Proof.SctpRecvP Proof.SctpC01P.
Import ListNotations.
Local Open Scope Z_scope.

Ltac Zify.zify_post_hook ::= Z.to_euclidean_division_equations.

Lemma frag_size_pos : (0 < frag_size)%nat.
Proof. unfold frag_size, USERDATA_MAX_LENGTH. lia. Qed.

Lemma frag_loop_frags st sq pp un : forall n data t b, (1 <= n)%nat ->
  frags st sq pp un t b (frag_loop n data t st sq un pp b).
Proof.
  induction n as [|n IH]; intros data t b Hn; [lia|]. cbn [frag_loop].
  destruct n as [|n'].
  - cbn [frag_loop Nat.eqb].
    apply (frags_last st sq pp un (mkChunk t st sq un b true pp (firstn frag_size data))); reflexivity.
  - apply (frags_cons st sq pp un (mkChunk t st sq un b (Nat.eqb (S n') 0) pp (firstn frag_size data))); try reflexivity.
    cbn [tsn]. apply IH. lia.
Qed.

Lemma frag_loop_join st sq pp un : forall n data t b, (length data <= n * frag_size)%nat ->
  join_data (frag_loop n data t st sq un pp b) = data.
Proof.
  unfold join_data.
  induction n as [|n IH]; intros data t b Hlen; cbn [frag_loop map concat].
  - destruct data; [reflexivity|cbn in Hlen; lia].
  - cbn [udata]. rewrite IH.
    + apply firstn_skipn.
    + rewrite skipn_length. lia.
Qed.

Lemma fragments_count_bounds data : data <> [] ->
  (1 <= fragments_count data)%nat /\ (length data <= fragments_count data * frag_size)%nat.
Proof.
  intros Hne. unfold fragments_count, frag_size, USERDATA_MAX_LENGTH, len.
  assert (0 < length data)%nat by (destruct data; [congruence|cbn; lia]).
  split.
  - apply Nat2Z.inj_le. rewrite Z2Nat.id by (apply Z.div_pos; lia). lia.
  - apply Nat2Z.inj_le. rewrite Nat2Z.inj_mul, !Z2Nat.id by (try apply Z.div_pos; lia). lia.
Qed.

(* ---------------------------------------------------------------- TSN allocation *)
Fixpoint tsn_seq (n : nat) (t : Z) : list Z :=
  match n with O => [] | S n' => t :: tsn_seq n' (tsn_plus_one t) end.

Lemma frag_loop_tsns st sq pp un : forall n data t b,
  map tsn (frag_loop n data t st sq un pp b) = tsn_seq n t.
Proof. induction n as [|n IH]; intros; cbn [frag_loop map tsn_seq tsn]; [reflexivity|]. now rewrite IH. Qed.

Lemma frag_loop_length st sq pp un : forall n data t b, length (frag_loop n data t st sq un pp b) = n.
Proof. induction n as [|n IH]; intros; cbn [frag_loop length]; [reflexivity|]. now rewrite IH. Qed.

Lemma tsn_seq_app n m t : tsn_seq (n + m) t = tsn_seq n t ++ tsn_seq m (tsn_advance n t).
Proof.
  revert t. induction n as [|n IH]; intros t; cbn [tsn_seq tsn_advance Nat.add app]; [reflexivity|].
  now rewrite IH.
Qed.

Definition in32 (t : Z) : Prop := 0 <= t < SCTP_TSN_MODULO.

Lemma tsn_plus_one_in32 t : in32 (tsn_plus_one t).
Proof. unfold in32, tsn_plus_one, SCTP_TSN_MODULO. lia. Qed.

Lemma in_tsn_seq n : forall t x, in32 t -> In x (tsn_seq n t) ->
  exists k, 0 <= k < Z.of_nat n /\ x = (t + k) mod SCTP_TSN_MODULO.
Proof.
  induction n as [|n IH]; intros t x Ht; cbn [tsn_seq In]; [intros []|].
  intros [<-|Hin].
  - exists 0. unfold in32, SCTP_TSN_MODULO in *. split; lia.
  - apply IH in Hin; [|apply tsn_plus_one_in32]. destruct Hin as (k & Hk & ->).
    exists (k + 1). split; [lia|]. unfold tsn_plus_one, SCTP_TSN_MODULO, in32 in *. lia.
Qed.

Lemma tsn_seq_nodup n : forall t, in32 t -> Z.of_nat n <= SCTP_TSN_MODULO -> NoDup (tsn_seq n t).
Proof.
  induction n as [|n IH]; intros t Ht Hn; cbn [tsn_seq]; [constructor|].
  constructor.
  - intros Hin. apply in_tsn_seq in Hin; [|apply tsn_plus_one_in32].
    destruct Hin as (k & Hk & E). unfold tsn_plus_one, SCTP_TSN_MODULO, in32 in *. lia.
  - apply IH; [apply tsn_plus_one_in32|lia].
Qed.

Lemma NoDup_map_inj {A B} (f : A -> B) (l : list A) a b :
  NoDup (map f l) -> In a l -> In b l -> f a = f b -> a = b.
Proof.
  induction l as [|x l IH]; cbn [map In]; [intros _ []|].
  intros Hnd Ha Hb E. inversion Hnd as [|? ? Hx Hl]; subst.
  destruct Ha as [<-|Ha], Hb as [<-|Hb]; auto.
  - exfalso. apply Hx. rewrite E. now apply in_map.
  - exfalso. apply Hx. rewrite <- E. now apply in_map.
Qed.

(* ---------------------------------------------------------------- send_msgs *)
Fixpoint sent_of (s : sstate) (ms : list outmsg) : list sentmsg :=
  match ms with
  | [] => []
  | m :: ms' => let '(s1, cs) := send_msg s m in mkSent (o_sid m) (o_ppid m) (o_data m) cs :: sent_of s1 ms'
  end.

Lemma sent_of_frags s ms : map sm_frags (sent_of s ms) = send_msgs s ms.
Proof.
  revert s. induction ms as [|m ms IH]; intros s; cbn [sent_of send_msgs]; [reflexivity|].
  destruct (send_msg s m) as [s1 cs]. cbn [map sm_frags]. now rewrite IH.
Qed.

Lemma sent_of_ok s ms : Forall (fun m => o_data m <> []) ms -> Forall sent_ok (sent_of s ms).
Proof.
  revert s. induction ms as [|m ms IH]; intros s Hne; cbn [sent_of]; [constructor|].
  inversion Hne as [|? ? Hm Hrest]; subst.
  destruct (send_msg s m) as [s1 cs] eqn:E. constructor; [|now apply IH].
  unfold send_msg in E. injection E as _ <-. unfold sent_ok. cbn [sm_sid sm_ppid sm_data sm_frags].
  destruct (fragments_count_bounds (o_data m) Hm) as [H1 H2].
  eexists _, _, _. split; [apply frag_loop_frags; exact H1|apply frag_loop_join; exact H2].
Qed.

Definition total_frags (ms : list outmsg) : nat := fold_right (fun m acc => (fragments_count (o_data m) + acc)%nat) O ms.

Lemma send_msgs_tsns : forall ms s,
  map tsn (concat (send_msgs s ms)) = tsn_seq (total_frags ms) (local_tsn s).
Proof.
  induction ms as [|m ms IH]; intros s; cbn [send_msgs total_frags fold_right]; [reflexivity|].
  destruct (send_msg s m) as [s1 cs] eqn:E. cbn [concat]. rewrite map_app, IH.
  unfold send_msg in E. injection E as <- <-. cbn [local_tsn].
  rewrite frag_loop_tsns. fold (total_frags ms). now rewrite tsn_seq_app.
Qed.

Lemma sent_of_tsn_inj s ms : in32 (local_tsn s) -> Z.of_nat (total_frags ms) <= SCTP_TSN_MODULO ->
  tsn_inj (all_chunks (sent_of s ms)).
Proof.
  intros Ht Hn. unfold tsn_inj, all_chunks. rewrite sent_of_frags.
  intros a b Ha Hb E. eapply NoDup_map_inj; eauto.
  rewrite send_msgs_tsns. now apply tsn_seq_nodup.
Qed.

Lemma sent_of_msgs s ms sm : In sm (sent_of s ms) ->
  exists m, In m ms /\ sm_sid sm = o_sid m /\ sm_ppid sm = o_ppid m /\ sm_data sm = o_data m.
Proof.
  revert s. induction ms as [|m ms IH]; intros s; cbn [sent_of]; [intros []|].
  destruct (send_msg s m) as [s1 cs]. intros [<-|Hin].
  - exists m. cbn. auto.
  - apply IH in Hin as (m' & H1 & H2). exists m'. split; [now right|exact H2].
Qed.

Lemma frag_loop_last st sq pp un d0 : forall n data t b, (1 <= n)%nat ->
  last (List.last (frag_loop n data t st sq un pp b) d0) = true.
Proof.
  induction n as [|k IH]; intros data t b Hn; [lia|].
  destruct k as [|k'].
  - reflexivity.
  - specialize (IH (skipn frag_size data) (tsn_plus_one t) false ltac:(lia)).
    cbn [frag_loop] in *. exact IH.
Qed.

(* fragmentation is lossless and marks exactly the first / last fragment *)
Theorem send_msg_fragments s m : o_data m <> [] ->
  let cs := snd (send_msg s m) in
  join_data cs = o_data m /\
  cs <> [] /\
  first (hd (mkChunk 0 0 0 false false false 0 []) cs) = true /\
  last (List.last cs (mkChunk 0 0 0 false false false 0 [])) = true /\
  Forall (fun c => sid c = o_sid m /\ ppid c = o_ppid m /\ unordered c = negb (o_ordered m) /\
                   (len (udata c) <= USERDATA_MAX_LENGTH)) cs /\
  map tsn cs = tsn_seq (length cs) (local_tsn s).
Proof.
  intros Hne. cbn zeta. unfold send_msg. cbn [snd].
  destruct (fragments_count_bounds (o_data m) Hne) as [H1 H2].
  set (n := fragments_count (o_data m)) in *.
  set (sq := if o_ordered m then _ else _).
  split; [now apply frag_loop_join|].
  assert (Hlen := frag_loop_length (o_sid m) sq (o_ppid m) (negb (o_ordered m)) n (o_data m) (local_tsn s) true).
  split; [intros E; rewrite E in Hlen; cbn in Hlen; lia|].
  split; [destruct n; [lia|reflexivity]|].
  split.
  - now apply frag_loop_last.
  - split.
    + clear. generalize (o_data m) (local_tsn s) true. induction n as [|k IH]; intros d t b; cbn [frag_loop]; constructor.
      * cbn [sid ppid unordered udata]. repeat split; auto.
        unfold len. rewrite firstn_length. unfold frag_size, USERDATA_MAX_LENGTH. lia.
      * apply IH.
    + rewrite frag_loop_tsns, Hlen. reflexivity.
Qed.

(* ---------------------------------------------------------------- application values *)
Lemma app_roundtrip v : let '(pp, d) := encode_app v in decode_app pp d = Some v.
Proof. destruct v as [[|x u]|[|x b]]; reflexivity. Qed.

Lemma app_encode_nonempty v : snd (encode_app v) <> [].
Proof. destruct v as [[|x u]|[|x b]]; discriminate. Qed.

Lemma ppids_distinct :
  NoDup [WEBRTC_DCEP; WEBRTC_STRING; WEBRTC_BINARY; WEBRTC_STRING_EMPTY; WEBRTC_BINARY_EMPTY].
Proof.
  repeat constructor; cbn [In]; unfold WEBRTC_DCEP, WEBRTC_STRING, WEBRTC_BINARY, WEBRTC_STRING_EMPTY, WEBRTC_BINARY_EMPTY; lia.
Qed.
