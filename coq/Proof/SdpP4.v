(* Whole descriptions: parse (str d) = norm d, str (norm d) = str d. *)
From Coq Require Import ZArith List Bool Lia.
From AV Require Import Lib.Sx Model.Sdp Proof.SdpP1 Proof.SdpP2 Proof.SdpP3.
Import ListNotations.
Local Open Scope Z_scope.

Definition wfp (d : description) : Prop := Forall wfp_media (d_media d).

Definition norm_desc (lite : bool) (d : description) : description :=
  mkDesc (d_version d) (Some (match d_origin d with Some s => s | None => s_None end)) (d_name d) (d_time d)
         (d_host d) (d_group d) (d_msid_semantic d) (map (norm_media lite) (d_media d)).

(* ---- grouplines ---- *)
Definition nom (l : list line) : bool := forallb (fun y => negb (is_m y)) l.

Lemma grouplines_nom : forall s r, nom s = true ->
  grouplines (s ++ r) = (s ++ fst (grouplines r), snd (grouplines r)).
Proof.
  induction s as [|l s IH]; intros r H; cbn [app grouplines].
  - now destruct (grouplines r).
  - cbn [nom forallb] in H. apply andb_true_iff in H as [H1 H2]. apply negb_true_iff in H1.
    rewrite (IH r H2). cbn [fst snd]. rewrite H1. reflexivity.
Qed.

Definition flat (gs : list (line * list line)) : list line := flat_map (fun g => fst g :: snd g) gs.

Lemma grouplines_flat : forall gs,
  Forall (fun g => is_m (fst g) = true /\ nom (snd g) = true) gs -> grouplines (flat gs) = ([], gs).
Proof.
  induction gs as [|[h b] gs IH]; intros H; cbn [flat flat_map fst snd app]; [reflexivity|].
  inversion H as [|? ? [Hh Hb] Hgs]; subst. cbn [fst snd] in *.
  cbn [grouplines]. fold (flat gs). rewrite (grouplines_nom b (flat gs) Hb), (IH Hgs). cbn [fst snd].
  rewrite Hh, app_nil_r. reflexivity.
Qed.

(* ---- media sections ---- *)
Lemma absorb_render_medias : forall x ms lm,
  Forall wfp_media ms -> concat_r (map render_media ms) = Ok lm ->
  x_fps x = [] -> x_role x = None -> x_options x = None -> x_pwd x = None -> x_ufrag x = None ->
  exists gs, lm = flat gs /\
             Forall (fun g => is_m (fst g) = true /\ nom (snd g) = true) gs /\
             rmap (absorb_media x) gs = Ok (map (norm_media (x_lite x)) ms).
Proof.
  intros x. induction ms as [|m ms IH]; intros lm Hw H Hf Hr Ho Hp Hu; cbn [map concat_r fold_right] in H.
  - inversion H; subst. exists []. repeat split; constructor.
  - apply bind_ok in H as (l1 & H1 & H). apply bind_ok in H as (l2 & H2 & H). inversion H; subst lm. clear H.
    inversion Hw as [|? ? Hm Hms]; subst.
    destruct (absorb_render_media x m l1 Hm H1 Hf Hr Ho Hp Hu) as (body & -> & Hb & Ha).
    destruct (IH l2 Hms H2 Hf Hr Ho Hp Hu) as (gs & -> & Hgs & Hr2).
    exists ((Lm (m_kind m) (m_port m) (m_profile m) (m_fmt m), body) :: gs).
    split; [reflexivity|]. split; [constructor; [split; [reflexivity|exact Hb]|exact Hgs]|].
    cbn [rmap map]. rewrite Ha. cbn [bind]. rewrite Hr2. reflexivity.
Qed.

(* ---- session part ---- *)
Lemma s_groups : forall gs v o n t h g ms f r l op pw uf,
  rfold step_s (map (group_line Lgroup) gs) (mkSess v o n t h g ms f r l op pw uf)
  = Ok (mkSess v o n t h (g ++ gs) ms f r l op pw uf).
Proof.
  induction gs as [|[sem items] gs IH]; intros; cbn [map rfold].
  - now rewrite app_nil_r.
  - unfold group_line at 1. cbn [step_s bind fst snd parse_group x_version x_origin x_name x_time x_host x_group
                                 x_msid_semantic x_fps x_role x_lite x_options x_pwd x_ufrag].
    rewrite IH, <- app_assoc. reflexivity.
Qed.

Lemma s_msid_sem : forall gs v o n t h g ms f r l op pw uf,
  rfold step_s (map (group_line Lmsid_semantic) gs) (mkSess v o n t h g ms f r l op pw uf)
  = Ok (mkSess v o n t h g (ms ++ gs) f r l op pw uf).
Proof.
  induction gs as [|[sem items] gs IH]; intros; cbn [map rfold].
  - now rewrite app_nil_r.
  - unfold group_line at 1. cbn [step_s bind fst snd parse_group x_version x_origin x_name x_time x_host x_group
                                 x_msid_semantic x_fps x_role x_lite x_options x_pwd x_ufrag].
    rewrite IH, <- app_assoc. reflexivity.
Qed.

Lemma render_session_nom : forall d ls, render_session d = Ok ls -> nom ls = true.
Proof.
  intros d ls H. unfold render_session in H.
  apply bind_ok in H as (lh & Eh & H). apply bind_ok in H as (lite & El & H). inversion H; subst ls.
  unfold nom. cbn [app forallb is_m negb andb].
  apply forallb_app2; [apply plain_nom; eapply addr_lines_plain; exact Eh|].
  cbn [app forallb is_m negb andb].
  apply forallb_app2; [destruct lite; reflexivity|].
  apply forallb_app2; apply forallb_map_all; reflexivity.
Qed.

Lemma absorb_render_session : forall d ls lite, render_session d = Ok ls -> any_lite (d_media d) = Ok lite ->
  rfold step_s ls sess0
  = Ok (mkSess (d_version d) (Some (match d_origin d with Some s => s | None => s_None end)) (d_name d) (d_time d)
               (d_host d) (d_group d) (d_msid_semantic d) [] None lite None None None).
Proof.
  intros d ls lite H Hl. unfold render_session in H.
  apply bind_ok in H as (lh & Eh & H). rewrite Hl in H. cbn [bind] in H. inversion H; subst ls. clear H.
  unfold sess0. cbn [app rfold step_s bind x_version x_origin x_name x_time x_host x_group
                     x_msid_semantic x_fps x_role x_lite x_options x_pwd x_ufrag].
  rewrite rfold_app.
  assert (E : forall v o n t g ms f r l op pw uf,
              rfold step_s lh (mkSess v o n t None g ms f r l op pw uf) = Ok (mkSess v o n t (d_host d) g ms f r l op pw uf)).
  { intros. destruct (d_host d) as [a|]; cbn [addr_lines] in Eh; [destruct (addr_ok a)|]; inversion Eh; reflexivity. }
  rewrite E. cbn [bind app rfold step_s x_version x_origin x_name x_time x_host x_group
                  x_msid_semantic x_fps x_role x_lite x_options x_pwd x_ufrag].
  rewrite rfold_app.
  assert (E2 : forall v o n t h g ms f r op pw uf,
              rfold step_s (if lite then [Lice_lite] else []) (mkSess v o n t h g ms f r false op pw uf)
              = Ok (mkSess v o n t h g ms f r lite op pw uf)).
  { intros. destruct lite; reflexivity. }
  rewrite E2. cbn [bind]. rewrite rfold_app, s_groups. cbn [bind app]. rewrite s_msid_sem. reflexivity.
Qed.

(* parse (str d) = norm d *)
Lemma absorb_render : forall d ls lite,
  wfp d -> render d = Ok ls -> any_lite (d_media d) = Ok lite -> absorb ls = Ok (norm_desc lite d).
Proof.
  intros d ls lite Hw H Hl. unfold render in H.
  apply bind_ok in H as (l_s & Es & H). apply bind_ok in H as (lm & Em & H). inversion H; subst ls. clear H.
  set (x := mkSess (d_version d) (Some (match d_origin d with Some s => s | None => s_None end)) (d_name d) (d_time d)
               (d_host d) (d_group d) (d_msid_semantic d) [] None lite None None None).
  destruct (absorb_render_medias x (d_media d) lm Hw Em eq_refl eq_refl eq_refl eq_refl eq_refl)
    as (gs & -> & Hgs & Hr).
  unfold absorb. rewrite (grouplines_nom _ _ (render_session_nom d l_s Es)), (grouplines_flat gs Hgs).
  cbn [fst snd]. rewrite app_nil_r, (absorb_render_session d l_s lite Es Hl). cbn [bind]. fold x.
  rewrite Hr. reflexivity.
Qed.

(* ---- str (norm d) = str d ---- *)
Lemma flat_map_filter_ssrc : forall l, flat_map ssrc_lines (filter ssrc_nonempty l) = flat_map ssrc_lines l.
Proof.
  induction l as [|s l IH]; cbn [filter flat_map]; [reflexivity|].
  destruct (ssrc_nonempty s) eqn:E; cbn [flat_map]; [now rewrite IH|].
  rewrite IH. unfold ssrc_nonempty in E. destruct s as [id [c|] [m|] [ml|] [lb|]]; cbn in E; try discriminate. reflexivity.
Qed.

Lemma fb_line_norm : forall pt f, fb_line pt (norm_fb f) = fb_line pt f.
Proof. intros pt [ty [[|c p]|]]; reflexivity. Qed.

Lemma codec_lines_full : forall kind c, wfp_codec kind c -> codec_lines (full kind c) = codec_lines c.
Proof.
  intros kind c ((x & Hm) & Hch & _). unfold codec_lines, full. cbn [k_mime k_clock k_channels k_pt k_fb k_params blank].
  destruct (name_of_some kind x) as (n & Hn). rewrite <- Hm in Hn.
  unfold default_name. rewrite Hn. rewrite Hm in Hn. rewrite (name_of_kind kind x n Hn).
  f_equal. f_equal; [|f_equal].
  - destruct (str_eqb kind s_audio) eqn:Ea.
    + destruct (k_channels c) as [[|[[|[]|]|[|[]|]|]|]|]; reflexivity.
    + now rewrite (Hch eq_refl).
  - rewrite map_map. apply map_ext. intros f. apply fb_line_norm.
  - destruct (params_empty (k_params c)) eqn:E; [reflexivity|]. now rewrite E.
Qed.

Lemma concat_r_ext : forall {T} (f g : T -> result (list line)) l,
  (forall x, In x l -> f x = g x) -> concat_r (map f l) = concat_r (map g l).
Proof.
  intros T f g l H. induction l as [|x l IH]; cbn [map concat_r fold_right]; [reflexivity|].
  rewrite (H x) by now left. unfold concat_r in IH. rewrite IH; [reflexivity|]. intros y Hy. apply H. now right.
Qed.

Lemma render_media_norm : forall lite m, wfp_media m -> render_media (norm_media lite m) = render_media m.
Proof.
  intros lite m (_ & _ & _ & _ & Hcs & _). unfold render_media, norm_media.
  cbn [m_kind m_port m_host m_profile m_direction m_msid m_rtcp_port m_rtcp_host m_rtcp_mux m_ssrc m_ssrc_group
       m_fmt m_codecs m_exts m_mid m_sctp_cap m_sctpmap m_sctp_port m_dtls m_ice m_cands m_complete m_ice_options].
  destruct (addr_lines (m_host m) Lc) as [l_host| |]; cbn [bind]; try reflexivity.
  assert (Er : rtcp_lines (norm_media lite m) = rtcp_lines m).
  { unfold rtcp_lines, norm_media. cbn [m_rtcp_port m_rtcp_host]. destruct (m_rtcp_port m); reflexivity. }
  unfold rtcp_lines at 1 in Er. unfold norm_media in Er. cbn [m_rtcp_port m_rtcp_host] in Er.
  unfold rtcp_lines at 1. cbn [m_rtcp_port m_rtcp_host]. rewrite Er. clear Er.
  destruct (rtcp_lines m) as [l_rtcp| |]; cbn [bind]; try reflexivity.
  rewrite map_map.
  rewrite (concat_r_ext (fun c => codec_lines (full (m_kind m) c)) codec_lines (m_codecs m)).
  2:{ intros c Hc. apply codec_lines_full. rewrite Forall_forall in Hcs. now apply Hcs. }
  destruct (concat_r (map codec_lines (m_codecs m))) as [l_codecs| |]; cbn [bind]; try reflexivity.
  unfold ice_lines. cbn [m_ice].
  destruct (m_ice m) as [i|]; cbn [bind i_ufrag i_pwd]; [|reflexivity].
  unfold dtls_lines. cbn [m_dtls].
  destruct (match m_dtls m with Some (fps, role) => _ | None => _ end) as [l_dtls| |]; cbn [bind]; try reflexivity.
  rewrite flat_map_filter_ssrc.
  repeat f_equal.
  - destruct (m_mid m) as [[|c s]|]; reflexivity.
  - destruct (m_msid m) as [[|c s]|]; reflexivity.
Qed.

Lemma any_lite_norm : forall lite ms, any_lite ms = Ok lite -> any_lite (map (norm_media lite) ms) = Ok lite.
Proof.
  intros lite ms H. destruct ms as [|m ms]; [exact H|].
  cbn [map any_lite] in *. unfold norm_media at 1. cbn [m_ice].
  destruct (m_ice m) as [i|]; [|discriminate]. cbn [i_lite].
  destruct lite; [reflexivity|].
  destruct (i_lite i); [discriminate|]. clear m i.
  induction ms as [|m ms IH]; [reflexivity|]. cbn [map any_lite] in *. unfold norm_media at 1. cbn [m_ice].
  destruct (m_ice m) as [i|]; [|discriminate]. cbn [i_lite]. destruct (i_lite i); [discriminate|]. now apply IH.
Qed.

Lemma render_norm : forall d ls lite, wfp d -> render d = Ok ls -> any_lite (d_media d) = Ok lite ->
  render (norm_desc lite d) = Ok ls.
Proof.
  intros d ls lite Hw H Hl. rewrite <- H. unfold render, render_session, norm_desc.
  cbn [d_version d_origin d_name d_time d_host d_group d_msid_semantic d_media].
  rewrite (any_lite_norm lite _ Hl), Hl, map_map.
  rewrite (concat_r_ext (fun m => render_media (norm_media lite m)) render_media (d_media d)).
  - destruct (d_origin d); reflexivity.
  - intros m Hm. apply render_media_norm. unfold wfp in Hw. rewrite Forall_forall in Hw. now apply Hw.
Qed.

Lemma render_any_lite : forall d ls, render d = Ok ls -> exists lite, any_lite (d_media d) = Ok lite.
Proof.
  intros d ls H. unfold render, render_session in H.
  apply bind_ok in H as (l_s & Es & _). apply bind_ok in Es as (lh & _ & Es). apply bind_ok in Es as (lite & El & _).
  now exists lite.
Qed.
