(* Proofs about Model/Jitter.v, part 4 (T+): as long as the reset branch of add() is never taken
   (no packet arrives MAX_MISORDER or more positions behind the origin), released frames occupy
   disjoint, strictly increasing intervals of UNWRAPPED stream positions (positions counted from
   the first arrival without reduction modulo 2^16): the origin only moves forward. *)
From Coq Require Import ZArith List Bool Lia.
From AV Require Import Lib.Sx Lib.Bytes Gen.Utils Gen.JbConst Model.Jitter Proof.JitterP Proof.JitterInvP.
Import ListNotations.
Local Open Scope Z_scope.

(* the packets of ps sit at unwrapped positions S, S+1, ... relative to `base` *)
Definition run_at (base S : Z) (ps : list pkt) : Prop :=
  forall j q, nth_error ps j = Some q -> pseq q = uint16_add base (S + Z.of_nat j).

Definition released (outs : list out) : list frame :=
  flat_map (fun o => match snd o with Some f => [f] | None => [] end) outs.

Fixpoint ordered_from (base lo : Z) (fs : list frame) : Prop :=
  match fs with
  | [] => True
  | f :: fs' => exists S ps, lo <= S /\ frame_of ps f /\ run_at base S ps /\
                             ordered_from base (S + Z.of_nat (length ps)) fs'
  end.

Lemma ordered_from_mono base lo lo' fs : lo' <= lo -> ordered_from base lo fs -> ordered_from base lo' fs.
Proof.
  intros Hle H. destruct fs as [|f fs]; [exact I|]. cbn [ordered_from] in *.
  destruct H as (S & ps & H1 & H2). exists S, ps. split; [lia|exact H2].
Qed.

(* the reset condition of add(), lines 40-41 *)
Definition late_at (o : option Z) (p : pkt) : Prop :=
  match o with
  | Some o => uint16_add o (- pseq p) < uint16_add (pseq p) (- o) /\ MAX_MISORDER <= uint16_add o (- pseq p)
  | None => False
  end.

Lemma a_tail_pos H a p o1 w1 pli :
  seq16 p -> length w1 = Z.to_nat (cap a) -> Good H o1 w1 ->
  match snd (snd (a_tail a p o1 w1 pli)) with
  | None => origin (fst (a_tail a p o1 w1 pli)) = Some o1
  | Some f => exists ps, frame_of ps f /\
                (forall j q, nth_error ps j = Some q -> pseq q = uint16_add o1 (Z.of_nat j)) /\
                origin (fst (a_tail a p o1 w1 pli)) = Some (uint16_add o1 (Z.of_nat (length ps)))
  end.
Proof.
  intros Hp HL G. unfold a_tail.
  set (w2 := w_set w1 (Z.to_nat (uint16_add (pseq p) (- o1))) (Some p)).
  assert (G2 : Good (p :: H) o1 w2) by (apply Good_set; assumption).
  destruct (w_frame w2 (prefetch a)) as [[f r]|] eqn:EF; cbn [fst snd origin]; [|reflexivity].
  destruct (w_frame_spec _ _ _ _ EF) as (ps & Hf & Hfirst & Hr & _).
  exists ps. split; [exact Hf|]. split; [|rewrite Hr; reflexivity].
  intros j q E. assert (Hj : (j < Z.to_nat r)%nat) by (apply nth_error_some_lt in E; lia).
  apply (G2 j q). rewrite <- (nth_error_firstn' w2 (Z.to_nat r) j Hj), Hfirst, nth_error_map, E. reflexivity.
Qed.

(* one step: the origin sits at unwrapped position U before; afterwards at U' >= U, and a released
   frame covers [S, U') with U <= S *)
Definition step_pos (base U : Z) (r : jb * out) : Prop :=
  exists U', U <= U' /\ origin (fst r) = Some (uint16_add base U') /\
    match snd (snd r) with
    | None => True
    | Some f => exists S ps, U <= S /\ frame_of ps f /\ run_at base S ps /\ U' = S + Z.of_nat (length ps)
    end.

Lemma a_tail_step H a p base U S w1 pli :
  seq16 p -> length w1 = Z.to_nat (cap a) -> Good H (uint16_add base S) w1 -> U <= S ->
  step_pos base U (a_tail a p (uint16_add base S) w1 pli).
Proof.
  intros Hp HL G HS. pose proof (a_tail_pos H a p _ w1 pli Hp HL G) as HP.
  unfold step_pos. destruct (snd (snd (a_tail a p (uint16_add base S) w1 pli))) as [f|].
  - destruct HP as (ps & Hf & Hrun & Ho). exists (S + Z.of_nat (length ps)).
    split; [lia|]. split; [rewrite Ho, uint16_add_add; reflexivity|].
    exists S, ps. split; [exact HS|]. split; [exact Hf|]. split; [|reflexivity].
    intros j q E. rewrite (Hrun j q E), uint16_add_add. reflexivity.
  - exists S. split; [exact HS|]. split; [exact HP|exact I].
Qed.

Lemma a_add_step H a p base U :
  0 < cap a -> AInv H a -> seq16 p -> 0 <= base < 65536 ->
  origin a = Some (uint16_add base U) -> ~ late_at (origin a) p ->
  step_pos base U (a_add a p).
Proof.
  intros Hc [HL HO] Hp Hb EO Hnl. unfold a_add. rewrite EO in *. destruct HO as [Ho G].
  set (o := uint16_add base U) in *.
  pose proof (uint16_add_range (pseq p) (- o)) as Hdr.
  destruct (Z.ltb_spec (uint16_add o (- pseq p)) (uint16_add (pseq p) (- o))) as [Hlt|Hge].
  - destruct (Z.geb_spec (uint16_add o (- pseq p)) MAX_MISORDER) as [Hm|Hm].
    + exfalso. apply Hnl. cbn [late_at]. split; assumption.
    + exists U. cbn [fst snd]. split; [lia|]. split; [exact EO|exact I].
  - unfold a_place. destruct (Z.geb_spec (uint16_add (pseq p) (- o)) (cap a)) as [Hov|Hno].
    + destruct (w_smart (slots a) 0 (uint16_add (pseq p) (- o) - cap a + 1) None) as [b|] eqn:EB.
      * pose proof (w_smart_lt _ _ _ _ _ EB) as Hb'.
        replace (uint16_add o (Z.of_nat b)) with (uint16_add base (U + Z.of_nat b))
          by (unfold o; rewrite uint16_add_add; reflexivity).
        apply (a_tail_step H); [exact Hp|rewrite w_remove_length; lia| |lia].
        replace (uint16_add base (U + Z.of_nat b)) with (uint16_add o (Z.of_nat b))
          by (unfold o; rewrite uint16_add_add; reflexivity).
        apply Good_remove; [lia|exact G].
      * replace (pseq p) with (uint16_add base (U + uint16_add (pseq p) (- o))) at 1.
        2:{ rewrite <- uint16_add_add. fold o. apply uint16_delta_back. exact Hp. }
        apply (a_tail_step H); [exact Hp|rewrite repeat_length; exact HL|apply Good_repeat|lia].
    + apply (a_tail_step H); [exact Hp|exact HL|exact G|lia].
Qed.

Definition a_never_late (a : jb) (l : list pkt) : Prop :=
  forall l1 p l2, l = l1 ++ p :: l2 -> ~ late_at (origin (fst (a_run a l1))) p.

Lemma a_run_ordered l : forall H a base U,
  0 < cap a -> AInv H a -> Forall seq16 l -> 0 <= base < 65536 ->
  origin a = Some (uint16_add base U) -> a_never_late a l ->
  ordered_from base U (released (snd (a_run a l))).
Proof.
  induction l as [|p l IH]; intros H a base U Hc HI HF Hb EO HN; [exact I|].
  inversion HF as [|? ? Hp HF']; subst.
  assert (Hnl : ~ late_at (origin a) p) by (apply (HN [] p l); reflexivity).
  destruct (a_add_step H a p base U Hc HI Hp Hb EO Hnl) as (U' & HU & EO' & HFr).
  destruct (a_add_char H a p Hc HI Hp) as (I1 & _).
  assert (HN' : a_never_late (fst (a_add a p)) l).
  { intros l1 q l2 El. specialize (HN (p :: l1) q l2). cbn [app a_run fst] in HN. apply HN. rewrite El. reflexivity. }
  assert (Hc1 : 0 < cap (fst (a_add a p))) by (rewrite (proj1 (a_add_cap a p)); exact Hc).
  pose proof (IH (p :: H) (fst (a_add a p)) base U' Hc1 I1 HF' Hb EO' HN') as HO.
  cbn [a_run snd released flat_map]. fold (released (snd (a_run (fst (a_add a p)) l))).
  destruct (snd (snd (a_add a p))) as [f|]; cbn [app].
  - destruct HFr as (S & ps & HS & Hf & Hrun & EU). cbn [ordered_from].
    exists S, ps. split; [exact HS|]. split; [exact Hf|]. split; [exact Hrun|]. rewrite <- EU. exact HO.
  - apply (ordered_from_mono base U'); [exact HU|exact HO].
Qed.

(* from the empty buffer: positions are counted from the first arrival *)
Lemma a_run_ordered_init c pf v p l :
  0 < c -> Forall seq16 (p :: l) -> a_never_late (a_init c pf v) (p :: l) ->
  ordered_from (pseq p) 0 (released (snd (a_run (a_init c pf v) (p :: l)))).
Proof.
  intros Hc HF HN. inversion HF as [|? ? Hp HF']; subst.
  set (a := a_init c pf v) in *.
  assert (HI : AInv [] a) by apply a_init_inv.
  destruct (a_add_char [] a p Hc HI Hp) as (I1 & _).
  assert (HS : step_pos (pseq p) 0 (a_add a p)).
  { unfold a_add, a, a_init. cbn [origin slots]. unfold a_place. cbn [cap].
    destruct (Z.geb_spec 0 c); [lia|].
    pose proof (a_tail_step [] (mkJb c pf v None (repeat None (Z.to_nat c))) p (pseq p) 0 0
                  (repeat None (Z.to_nat c)) false Hp
                  ltac:(cbn [cap]; rewrite repeat_length; reflexivity) (Good_repeat _ _ _) ltac:(lia)) as X.
    rewrite uint16_add_0 in X by exact Hp. exact X. }
  destruct HS as (U' & HU & EO' & HFr).
  assert (HN' : a_never_late (fst (a_add a p)) l).
  { intros l1 q l2 El. specialize (HN (p :: l1) q l2). cbn [app a_run fst] in HN. apply HN. rewrite El. reflexivity. }
  assert (Hc1 : 0 < cap (fst (a_add a p))) by (rewrite (proj1 (a_add_cap a p)); exact Hc).
  pose proof (a_run_ordered l [p] (fst (a_add a p)) (pseq p) U' Hc1 I1 HF' Hp EO' HN') as HO.
  cbn [a_run snd released flat_map]. fold (released (snd (a_run (fst (a_add a p)) l))).
  destruct (snd (snd (a_add a p))) as [f|]; cbn [app].
  - destruct HFr as (S & ps & HS & Hf & Hrun & EU). cbn [ordered_from].
    exists S, ps. split; [exact HS|]. split; [exact Hf|]. split; [exact Hrun|]. rewrite <- EU. exact HO.
  - apply (ordered_from_mono (pseq p) U'); [exact HU|exact HO].
Qed.

(* on the model *)
Definition never_late (c pf : Z) (v : bool) (l : list pkt) : Prop :=
  forall l1 p l2 s outs, l = l1 ++ p :: l2 -> reaches c pf v l1 s outs -> ~ late_at (origin s) p.

Theorem jitter_ordered c pf v p l s outs :
  cap_ok c -> Forall seq16 (p :: l) -> reaches c pf v (p :: l) s outs -> never_late c pf v (p :: l) ->
  ordered_from (pseq p) 0 (released outs).
Proof.
  intros Hc HF HR HN. destruct (reaches_abs c pf v _ s outs Hc HF HR) as [-> _].
  apply a_run_ordered_init; [apply cap_ok_pos; exact Hc|exact HF|].
  intros l1 q l2 El.
  assert (HF1 : Forall seq16 l1).
  { rewrite El in HF. apply Forall_app in HF. exact (proj1 HF). }
  destruct (reach_abs c pf v l1 Hc HF1) as (s1 & HR1 & R1).
  destruct R1 as (_ & _ & _ & Eo & _). rewrite Eo. exact (HN l1 q l2 s1 _ El HR1).
Qed.

(* ---------------------------------------------------------------- no arrival is used twice *)
(* Multiset accounting, valid for EVERY history (also with resets and overflows): the packets
   of all released frames together with the packets still held and the discarded ones are a
   permutation of the arrivals.  Hence no arrival instance ever goes into two frames. *)
From Coq Require Import Permutation.

Lemma pkt_eq_dec : forall a b : pkt, {a = b} + {a <> b}.
Proof. decide equality; try apply Z.eq_dec; apply list_eq_dec, Z.eq_dec. Defined.

Lemma count_cons (a : pkt) l x :
  count_occ pkt_eq_dec (a :: l) x = (count_occ pkt_eq_dec [a] x + count_occ pkt_eq_dec l x)%nat.
Proof. cbn [count_occ]. destruct (pkt_eq_dec a x); lia. Qed.

(* permutation goals over ++ and :: by counting occurrences *)
Ltac perm_norm :=
  repeat first
    [ rewrite count_occ_app
    | match goal with
      | |- context [count_occ _ (?a :: ?l) _] =>
          lazymatch l with nil => fail | _ => rewrite (count_cons a l) end
      end
    | match goal with
      | H : context [count_occ _ (_ ++ _) _] |- _ => rewrite count_occ_app in H
      | H : context [count_occ _ (?a :: ?l) _] |- _ =>
          lazymatch l with nil => fail | _ => rewrite (count_cons a l) in H end
      end ].

Ltac perm_count :=
  repeat match goal with
         | H : Permutation _ _ |- _ => rewrite (Permutation_count_occ pkt_eq_dec) in H
         end;
  apply (Permutation_count_occ pkt_eq_dec); intros x_;
  repeat match goal with
         | H : forall _, count_occ _ _ _ = count_occ _ _ _ |- _ => specialize (H x_)
         end;
  perm_norm; change (count_occ pkt_eq_dec [] x_) with O in *; lia.

Definition held (w : W) : list pkt :=
  flat_map (fun x => match x with Some q => [q] | None => [] end) w.

Definition frame_ps (fr : option frame) (ps : list pkt) : Prop :=
  match fr with
  | None => ps = []
  | Some f => frame_of ps f
  end.

Lemma held_app w1 w2 : held (w1 ++ w2) = held w1 ++ held w2.
Proof. apply flat_map_app. Qed.

Lemma held_repeat n : held (repeat None n) = [].
Proof. induction n as [|n IH]; [reflexivity|]. exact IH. Qed.

Lemma held_map_some ps : held (map Some ps) = ps.
Proof. induction ps as [|q ps IH]; [reflexivity|]. cbn [map held flat_map app]. f_equal. exact IH. Qed.

Lemma held_remove w b : held w = held (firstn b w) ++ held (w_remove w b).
Proof.
  unfold w_remove. rewrite held_app, held_repeat, app_nil_r, <- held_app, firstn_skipn. reflexivity.
Qed.

Lemma held_set_nth p : forall w k w', set_nth w k (Some p) = Some w' ->
  exists old, Permutation (held w' ++ old) (p :: held w).
Proof.
  induction w as [|h t IH]; intros k w' E; cbn [set_nth] in E; [destruct k; discriminate|].
  destruct k as [|k].
  - injection E as <-. exists (held [h]). change (h :: t) with ([h] ++ t). rewrite held_app.
    change (held (Some p :: t)) with (p :: held t). perm_count.
  - destruct (set_nth t k (Some p)) as [t'|] eqn:Et; [|discriminate]. injection E as <-.
    destruct (IH k t' Et) as [old HP]. exists old.
    change (h :: t') with ([h] ++ t'). change (h :: t) with ([h] ++ t). rewrite !held_app.
    perm_count.
Qed.

Lemma held_w_set w k p : exists old, Permutation (held (w_set w k (Some p)) ++ old) (p :: held w).
Proof.
  unfold w_set. destruct (set_nth w k (Some p)) as [w'|] eqn:E.
  - eapply held_set_nth. exact E.
  - exists [p]. perm_count.
Qed.

Lemma a_tail_acct a p o1 w1 pli :
  exists ps dropped, frame_ps (snd (snd (a_tail a p o1 w1 pli))) ps /\
    Permutation (held (slots (fst (a_tail a p o1 w1 pli))) ++ ps ++ dropped) (p :: held w1).
Proof.
  unfold a_tail. set (w2 := w_set w1 (Z.to_nat (uint16_add (pseq p) (- o1))) (Some p)).
  destruct (held_w_set w1 (Z.to_nat (uint16_add (pseq p) (- o1))) p) as [old HP]. fold w2 in HP.
  destruct (w_frame w2 (prefetch a)) as [[f r]|] eqn:EF; cbn [fst snd slots].
  - destruct (w_frame_spec _ _ _ _ EF) as (ps & Hf & Hfirst & _).
    exists ps, old. split; [exact Hf|].
    rewrite (held_remove w2 (Z.to_nat r)), Hfirst, held_map_some in HP. perm_count.
  - exists [], old. split; [reflexivity|]. exact HP.
Qed.

Lemma a_place_acct a p o delta w pli :
  exists ps dropped, frame_ps (snd (snd (a_place a p o delta w pli))) ps /\
    Permutation (held (slots (fst (a_place a p o delta w pli))) ++ ps ++ dropped) (p :: held w).
Proof.
  unfold a_place. destruct (delta >=? cap a).
  - destruct (w_smart w 0 (delta - cap a + 1) None) as [b|].
    + destruct (a_tail_acct a p (uint16_add o (Z.of_nat b)) (w_remove w b) (pli || is_video a))
        as (ps & dr & Hf & HP).
      exists ps, (dr ++ held (firstn b w)). split; [exact Hf|].
      rewrite (held_remove w b). perm_count.
    + destruct (a_tail_acct a p (pseq p) (repeat None (length w)) (pli || is_video a)) as (ps & dr & Hf & HP).
      exists ps, (dr ++ held w). split; [exact Hf|]. rewrite held_repeat in HP. perm_count.
  - apply a_tail_acct.
Qed.

Lemma a_add_acct a p :
  exists ps dropped, frame_ps (snd (snd (a_add a p))) ps /\
    Permutation (held (slots (fst (a_add a p))) ++ ps ++ dropped) (p :: held (slots a)).
Proof.
  unfold a_add. destruct (origin a) as [o|]; [|apply a_place_acct].
  destruct (uint16_add o (- pseq p) <? uint16_add (pseq p) (- o)); [|apply a_place_acct].
  destruct (uint16_add o (- pseq p) >=? MAX_MISORDER).
  - destruct (a_place_acct a p (pseq p) 0 (repeat None (length (slots a))) (is_video a)) as (ps & dr & Hf & HP).
    exists ps, (dr ++ held (slots a)). split; [exact Hf|]. rewrite held_repeat in HP. perm_count.
  - cbn [fst snd]. exists [], [p]. split; [reflexivity|]. perm_count.
Qed.

Lemma a_run_acct l : forall a,
  exists pss rest, Forall2 frame_of pss (released (snd (a_run a l))) /\
                   Permutation (concat pss ++ rest) (l ++ held (slots a)).
Proof.
  induction l as [|p l IH]; intros a.
  - exists [], (held (slots a)). split; [constructor|reflexivity].
  - destruct (a_add_acct a p) as (ps & dr & Hf & HP).
    destruct (IH (fst (a_add a p))) as (pss & rest & HF2 & HP2).
    cbn [a_run snd released flat_map]. fold (released (snd (a_run (fst (a_add a p)) l))).
    assert (HQ : Permutation (ps ++ concat pss ++ rest ++ dr) ((p :: l) ++ held (slots a))) by perm_count.
    destruct (snd (snd (a_add a p))) as [f|]; cbn [frame_ps app] in *.
    + exists (ps :: pss), (rest ++ dr). split; [constructor; assumption|].
      cbn [concat]. rewrite <- ?app_assoc. exact HQ.
    + subst ps. exists pss, (rest ++ dr). split; [exact HF2|]. rewrite <- ?app_assoc. exact HQ.
Qed.

Theorem jitter_no_reuse c pf v l s outs :
  cap_ok c -> Forall seq16 l -> reaches c pf v l s outs ->
  exists pss rest, Forall2 frame_of pss (released outs) /\ Permutation (concat pss ++ rest) l.
Proof.
  intros Hc HF HR. destruct (reaches_abs c pf v l s outs Hc HF HR) as [-> _].
  destruct (a_run_acct l (a_init c pf v)) as (pss & rest & H1 & H2).
  exists pss, rest. split; [exact H1|]. cbn [a_init slots] in H2. rewrite held_repeat, app_nil_r in H2. exact H2.
Qed.

(* ---------------------------------------------------------------- a checker for never_late (examples) *)
Definition late_b (o : option Z) (p : pkt) : bool :=
  match o with
  | Some o => (uint16_add o (- pseq p) <? uint16_add (pseq p) (- o)) && (MAX_MISORDER <=? uint16_add o (- pseq p))
  | None => false
  end.

Fixpoint nl_b (s : jb) (l : list pkt) : bool :=
  match l with
  | [] => true
  | p :: l' => negb (late_b (origin s) p) &&
               match add s p with Ok (s', _) => nl_b s' l' | _ => false end
  end.

Lemma late_b_spec o p : late_b o p = true <-> late_at o p.
Proof.
  unfold late_b, late_at. destruct o as [o|]; [|split; [discriminate|intros []]].
  rewrite andb_true_iff, Z.ltb_lt, Z.leb_le. reflexivity.
Qed.

Lemma nl_b_sound l1 : forall s0 l p l2 s outs,
  nl_b s0 l = true -> l = l1 ++ p :: l2 -> run s0 l1 = Ok (s, outs) -> ~ late_at (origin s) p.
Proof.
  induction l1 as [|a l1 IH]; intros s0 l p l2 s outs Hb El ER; subst l; cbn [app nl_b] in Hb;
    apply andb_true_iff in Hb; destruct Hb as [Hb1 Hb2].
  - cbn [run] in ER. injection ER as <- <-. intros HL. apply late_b_spec in HL. rewrite HL in Hb1. discriminate.
  - cbn [run] in ER. destruct (add s0 a) as [[s1 o1]| | |]; try discriminate. cbn [bind fst snd] in ER.
    destruct (run s1 l1) as [[s2 o2]| | |] eqn:E1; try discriminate. cbn [bind fst snd] in ER.
    injection ER as <- <-. exact (IH s1 _ p l2 s2 o2 Hb2 eq_refl E1).
Qed.

Lemma never_late_check c pf v l :
  match create c pf v with Ok s0 => nl_b s0 l | _ => false end = true -> never_late c pf v l.
Proof.
  intros Hb l1 p l2 s outs El (s0 & E0 & ER). rewrite E0 in Hb. exact (nl_b_sound l1 s0 l p l2 s outs Hb El ER).
Qed.

Lemma reaches_check c pf v l s outs :
  bind (create c pf v) (fun s0 => run s0 l) = Ok (s, outs) -> reaches c pf v l s outs.
Proof.
  intros H. unfold reaches. destruct (create c pf v) as [s0| | |] eqn:E0; try discriminate. exists s0. split; [reflexivity|exact H].
Qed.
