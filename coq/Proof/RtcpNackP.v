(* Proofs about Model/Rtcp.v, part 3: a generic NACK denotes the same set of 16-bit
   sequence numbers before and after __bytes__ / parse, for EVERY list of 16-bit numbers
   (any order, duplicates, across the 65535 -> 0 wrap). *)
From Coq Require Import ZArith List Bool Lia.
From AV Require Import Lib.Bytes Lib.BytesP Lib.RtpX Gen.RtpConst Model.Rtcp
  Proof.RtpBitsP Proof.RtcpP Proof.RtcpPktP.
Import ListNotations.
Local Open Scope Z_scope.

Ltac Zify.zify_post_hook ::= Z.to_euclidean_division_equations.

Definition is_seq16 (x : Z) : Prop := 0 <= x < 65536.

Lemma nack_entry_parse pid blp :
  0 <= pid < 65536 -> 0 <= blp < 65536 ->
  nack_parse (be16 pid ++ be16 blp) = Ok (nack_expand pid blp).
Proof.
  intros Hp Hb. unfold be16. cbn [app nack_parse bind]. rewrite app_nil_r. do 2 f_equal; lia.
Qed.

Lemma parse_single pt count payload p :
  0 <= count <= 31 -> 0 <= pt < 256 -> len payload mod 4 = 0 -> len payload / 4 < 65536 ->
  rtcp_parse_one pt payload count = Ok (Some p) ->
  rtcp_parse ([128 + count; pt] ++ be16 (len payload / 4) ++ payload) = Ok [p].
Proof.
  intros Hc Hp Hm Hw Hone. unfold rtcp_parse.
  set (X := [128 + count; pt] ++ be16 (len payload / 4) ++ payload).
  rewrite <- (app_nil_r X) at 2. unfold X.
  rewrite parse_loop_step by assumption. rewrite Hone. cbn [bind].
  cbn [app length rtcp_parse_loop bind]. reflexivity.
Qed.

Theorem nack_set_roundtrip fmt ssrc media lost :
  0 <= fmt <= 31 -> is_u32 ssrc -> is_u32 media -> Forall is_seq16 lost -> zlen lost <= 65532 ->
  exists b lost',
    rtcp_bytes (Rtpfb fmt ssrc media lost) = Ok b /\
    rtcp_parse b = Ok [Rtpfb fmt ssrc media lost'] /\
    Forall is_seq16 lost' /\ (forall x, In x lost' <-> In x lost).
Proof.
  intros Hf Hs Hm Hl Hn. unfold zlen in Hn.
  assert (Hs' := Hs). assert (Hm' := Hm). unfold is_u32 in Hs', Hm'.
  cbn [rtcp_bytes]. rewrite !u32ok_intro by lia. cbn [andb].
  (* the FCI bytes and what they parse to *)
  assert (Hfci : exists a lost',
    match lost with [] => Ok [] | pid :: rest => nack_pack (nack_entries pid 0 rest) end = Ok a /\
    nack_parse a = Ok lost' /\ (length a mod 4 = 0)%nat /\ (length a <= 4 * length lost)%nat /\
    bytes_ok a /\ (forall x, In x lost' <-> In x lost)).
  { destruct lost as [|pid rest].
    - exists [], []. split; [reflexivity|]. split; [reflexivity|]. split; [reflexivity|].
      split; [cbn [length]; lia|]. split; [apply bytes_ok_nil|tauto].
    - inversion Hl as [|? ? Hpid Hrest]; subst. unfold is_seq16 in Hpid.
      destruct (nack_entries_ok rest pid 0 Hpid ltac:(lia) Hrest) as [a Ha].
      destruct (nack_parse_pack _ _ Ha) as (Hp & Hla & Hok).
      exists a, (flat_expand (nack_entries pid 0 rest)).
      split; [exact Ha|]. split; [exact Hp|].
      assert (Hcnt := nack_entries_count rest pid 0). cbn [length].
      split; [rewrite Hla; now rewrite Nat.mul_comm, Nat.mod_mul by lia|].
      split; [lia|]. split; [exact Hok|].
      intros x. rewrite (nack_entries_members rest pid 0 x Hpid ltac:(lia) Hrest).
      rewrite nack_expand_0. cbn [In]. tauto. }
  destruct Hfci as (a & lost' & Ha & Hp & Hmod & Hle & Hok & Hmem).
  rewrite Ha. cbn [bind].
  assert (Hlen : len (be32 ssrc ++ be32 media ++ a) = 8 + Z.of_nat (length a)).
  { rewrite len_length, !app_length, !length_be32. lia. }
  assert (Hmod' : Z.of_nat (length a) mod 4 = 0).
  { apply Nat.mod_divides in Hmod as [k Hk]; [|lia]. rewrite Hk. lia. }
  rewrite pack_rtcp_ok by (rewrite ?Hlen; unfold rtp_RTCP_RTPFB; lia).
  eexists. exists lost'. split; [reflexivity|].
  split.
  - apply parse_single; try (rewrite ?Hlen; unfold rtp_RTCP_RTPFB; lia).
    unfold rtcp_parse_one, rtp_RTCP_BYE, rtp_RTCP_SDES, rtp_RTCP_SR, rtp_RTCP_RR, rtp_RTCP_RTPFB.
    cbn [Z.eqb Pos.eqb].
    unfold rtpfb_parse.
    replace (Nat.ltb _ 8) with false by (symmetry; apply Nat.ltb_ge; rewrite !app_length, !length_be32; lia).
    rewrite Hlen.
    replace ((8 + Z.of_nat (length a)) mod 4 =? 0) with true by (symmetry; apply Z.eqb_eq; lia).
    cbn [orb negb].
    rewrite u32_be32 by lia. rewrite (u32_at (be32 ssrc) media) by lia.
    replace (be32 ssrc ++ be32 media ++ a) with ((be32 ssrc ++ be32 media) ++ a) by now rewrite <- app_assoc.
    rewrite (skipn_app_exact' (be32 ssrc ++ be32 media)) by reflexivity.
    rewrite Hp. reflexivity.
  - split; [|exact Hmem].
    rewrite Forall_forall in *. intros x Hx. apply Hl. now apply Hmem.
Qed.
