(* Proofs about Model/Jsep.v: refinement of the JSEP specification (Model/JsepSpec.v),
   rejected calls are no-ops, the slot invariant of reachable states, closed is absorbing.
   All case analyses over the generated guard lists are done by computation, so they are
   re-checked against the regenerated Gen/Jsep.v on every run. *)
From Coq Require Import ZArith List Bool Lia.
From AV Require Import Lib.Sx Gen.Jsep Model.Jsep Model.JsepSpec.
Import ListNotations.
Local Open Scope Z_scope.

Lemma kind_eqb_eq : forall a b, kind_eqb a b = true <-> a = b.
Proof. intros [] []; cbn; split; intro H; try reflexivity; try discriminate. Qed.

Lemma keys_eqb_sections : forall a b, keys_eqb (keys a) (keys b) = same_sections (sections a) (sections b).
Proof.
  intros a b. unfold keys, sections.
  generalize (d_media a) (d_media b). induction l as [|x l IH]; intros [|y l']; cbn; try reflexivity.
  rewrite IH. destruct (m_kind x), (m_kind y); cbn; reflexivity.
Qed.

Definition side_of (is_local : bool) : side := if is_local then Local else Remote.

Lemma check_media_spec : forall t l m,
  check_media t l m = if media_well_formed (side_of l) t m then Done else ValueErr.
Proof.
  intros t l [k mid ice dtls mux].
  destruct t, l, k, ice, dtls as [[]|], mux; vm_compute; reflexivity.
Qed.

Lemma check_all_spec : forall t l ms,
  check_all t l ms = if forallb (media_well_formed (side_of l) t) ms then Done else ValueErr.
Proof.
  intros t l ms. induction ms as [|m ms IH]; cbn [check_all forallb]; [reflexivity|].
  rewrite check_media_spec. destruct (media_well_formed (side_of l) t m); cbn [andb]; [exact IH|reflexivity].
Qed.

Definition negotiable (t : dtype) : Prop := t = TOffer \/ t = TAnswer.

Lemma validate_eq : forall s d l, negotiable (d_type d) ->
  validate s d l =
  match jsep_next (sig s) (side_of l) (d_type d) with
  | None => InvalidState
  | Some _ =>
      if well_formed (side_of l) d then
        if answer_like (d_type d) then
          match (if l then remote_description s else local_description s) with
          | None => Crash
          | Some o => if same_sections (sections d) (sections o) then Done else ValueErr
          end
        else Done
      else ValueErr
  end.
Proof.
  intros s d l Hn. unfold validate, well_formed. rewrite check_all_spec.
  destruct Hn as [Ht|Ht]; rewrite Ht; destruct (sig s), l; cbn; try reflexivity;
  destruct (forallb _ (d_media d)); try reflexivity;
  match goal with |- context [match ?x with Some _ => _ | None => _ end] => destruct x end;
  try reflexivity; rewrite keys_eqb_sections; reflexivity.
Qed.

(* ---- alphabet and invariant ---------------------------------------------- *)
Definition in_alphabet (o : op) : Prop :=
  match o with
  | SetLocal (Some d) _ => negotiable (d_type d)
  | SetRemote d => negotiable (d_type d)
  | _ => True
  end.

Definition holds_offer (o : option desc) : Prop := exists d, o = Some d /\ d_type d = TOffer.
Definition typed (o : option desc) (t : dtype) : Prop := forall d, o = Some d -> d_type d = t.

Definition fresh (s : st) : Prop :=
  pend_local s = None /\ cur_local s = None /\ pend_remote s = None /\ cur_remote s = None.

Definition negotiated (s : st) : Prop :=
  exists o a, d_type o = TOffer /\ d_type a = TAnswer /\ sections a = sections o /\
    ((pend_local s = Some o /\ pend_remote s = None /\ cur_remote s = Some a) \/
     (pend_remote s = Some o /\ pend_local s = None /\ cur_local s = Some a)).

Record inv (s : st) : Prop := mkInv {
  inv_closed : is_closed s = true <-> sig s = Closed;
  inv_nopr_l : sig s <> HaveLocalPranswer;
  inv_nopr_r : sig s <> HaveRemotePranswer;
  inv_hlo : sig s = HaveLocalOffer -> holds_offer (pend_local s);
  inv_hro : sig s = HaveRemoteOffer -> holds_offer (pend_remote s);
  inv_stable : sig s = Stable -> fresh s \/ negotiated s;
  inv_pl : typed (pend_local s) TOffer;
  inv_cl : typed (cur_local s) TAnswer;
  inv_pr : typed (pend_remote s) TOffer;
  inv_cr : typed (cur_remote s) TAnswer
}.

Lemma inv_init : inv init.
Proof.
  constructor; cbn; try discriminate; try (intros d H; discriminate).
  - split; discriminate.
  - intros _. left. repeat split.
Qed.

Lemma not_closed_flag : forall s, inv s -> sig s <> Closed -> is_closed s = false.
Proof.
  intros s I H. destruct (is_closed s) eqn:E; [|reflexivity].
  exfalso. apply H. apply (inv_closed s I). exact E.
Qed.

Lemma closed_flag : forall s, inv s -> sig s = Closed -> is_closed s = true.
Proof. intros s I H. apply (inv_closed s I). exact H. Qed.

Lemma same_sections_eq : forall a b, same_sections a b = true <-> a = b.
Proof.
  induction a as [|[x1 x2] a IH]; intros [|[y1 y2] b]; cbn; split; intro H; try reflexivity; try discriminate.
  - apply andb_prop in H. destruct H as [H1 H2]. apply andb_prop in H1. destruct H1 as [H0 H1].
    apply Z.eqb_eq in H0, H1. apply IH in H2. subst. reflexivity.
  - inversion H; subst. rewrite !Z.eqb_refl. cbn. apply IH. reflexivity.
Qed.

Lemma well_formed_remote_has_dtls : forall d,
  well_formed Remote d = true ->
  existsb (fun m => match m_dtls m with None => true | Some _ => false end) (d_media d) = false.
Proof.
  intros d. unfold well_formed. generalize (d_type d). intros t.
  induction (d_media d) as [|m ms IH]; cbn [forallb existsb]; [reflexivity|].
  intros H. apply andb_prop in H. destruct H as [Hm Hms]. rewrite (IH Hms).
  unfold media_well_formed in Hm. destruct (m_dtls m); [reflexivity|].
  cbn in Hm. rewrite !andb_false_r in Hm. cbn in Hm. rewrite ?andb_false_r in Hm. discriminate.
Qed.

Lemma state_update_local : forall sg t nxt, negotiable t ->
  jsep_next sg Local t = Some nxt -> state_update set_local_state_updates t sg = (nxt, true).
Proof. intros sg t nxt [H|H]; subst; destruct sg; cbn; intro E; inversion E; reflexivity. Qed.

Lemma state_update_remote : forall sg t nxt, negotiable t ->
  jsep_next sg Remote t = Some nxt -> state_update set_remote_state_updates t sg = (nxt, true).
Proof. intros sg t nxt [H|H]; subst; destruct sg; cbn; intro E; inversion E; reflexivity. Qed.

(* what applying a negotiable description does, in terms of the spec's verdict *)
Lemma set_remote_refines : forall s d, inv s -> negotiable (d_type d) ->
  let '(s', (r, ev)) := set_remote s d in
  r = fst (judge s Remote d) /\ sig s' = snd (judge s Remote d).
Proof.
  intros s d I Hn. unfold set_remote. rewrite (validate_eq s d false Hn). cbn [side_of].
  unfold judge, answers_offer, offer_answered.
  destruct (jsep_next (sig s) Remote (d_type d)) as [nxt|] eqn:J; [|cbn; auto].
  destruct (well_formed Remote d) eqn:W; [|cbn; auto].
  cbn [andb].
  assert (Hdtls := well_formed_remote_has_dtls d W).
  assert (Hnc : is_closed s = false).
  { apply (not_closed_flag s I). intro E. rewrite E in J. destruct (d_type d); discriminate. }
  destruct Hn as [Ht|Ht]; rewrite Ht in *; cbn [answer_like].
  - (* offer *)
    rewrite Hdtls, andb_false_r, Hnc.
    rewrite (state_update_remote (sig s) TOffer nxt (or_introl eq_refl) J). cbn. auto.
  - (* answer *)
    assert (Hs : sig s = HaveLocalOffer).
    { destruct (sig s) eqn:E; cbn in J; try discriminate; try reflexivity.
      exfalso. exact (inv_nopr_r s I E). }
    destruct (inv_hlo s I Hs) as [o [Ho _]].
    unfold local_description. rewrite Ho.
    destruct (same_sections (sections d) (sections o)); [|cbn; auto].
    rewrite Hdtls, andb_false_r, Hnc.
    rewrite (state_update_remote (sig s) TAnswer nxt (or_intror eq_refl) J). cbn. auto.
Qed.

Lemma set_local_explicit_refines : forall s d c, inv s -> negotiable (d_type d) ->
  let '(s', (r, ev)) := set_local s (Some d) c in
  r = fst (judge s Local d) /\ sig s' = snd (judge s Local d).
Proof.
  intros s d c I Hn. unfold set_local.
  destruct (sig s) eqn:Hs.
  6: { rewrite (closed_flag s I Hs). unfold judge. rewrite Hs. cbn. auto. }
  all: rewrite (not_closed_flag s I) by (rewrite Hs; discriminate).
  all: rewrite (validate_eq s d true Hn); cbn [side_of]; unfold judge, answers_offer, offer_answered; rewrite Hs.
  all: destruct (jsep_next _ Local (d_type d)) as [nxt|] eqn:J; [|cbn; auto].
  all: destruct (well_formed Local d) eqn:W; [|cbn; auto].
  all: cbn [andb].
  all: destruct Hn as [Ht|Ht]; rewrite Ht in *; cbn [answer_like]; cbn in J; try discriminate.
  all: try (inversion J; subst nxt; cbn; auto; fail).
  - (* have-remote-offer, answer *)
    destruct (inv_hro s I Hs) as [o [Ho _]].
    unfold remote_description. rewrite Ho.
    destruct (same_sections (sections d) (sections o)); [|cbn; auto].
    inversion J; subst nxt. cbn. auto.
  - exfalso. exact (inv_nopr_l s I Hs).
Qed.

Lemma set_local_implicit_eq : forall s c, inv s ->
  set_local s None c = set_local s (Some (mkDesc (d_id c) (implicit_type (sig s)) (d_media c))) c.
Proof.
  intros s c I. unfold set_local.
  destruct (is_closed s) eqn:Hc; [reflexivity|].
  destruct (sig s) eqn:Hs; cbn [sig_eqb sig_code Z.eqb implicit_type];
    unfold create_offer, create_answer; rewrite ?Hc, ?Hs; cbn; try reflexivity.
  all: try (exfalso; exact (inv_nopr_l s I Hs)).
  all: try (exfalso; exact (inv_nopr_r s I Hs)).
  all: try (assert (is_closed s = true) by (apply (closed_flag s I Hs)); congruence).
  destruct (inv_hro s I Hs) as [o [Ho _]]. unfold remote_description. rewrite Ho. reflexivity.
Qed.

Theorem refines_spec : forall s o, inv s -> in_alphabet o ->
  snd (step s o) = fst (spec s o) /\ sig (fst (step s o)) = snd (spec s o).
Proof.
  intros s o I Ha. unfold step. destruct o as [| |arg c|d|]; cbn [step_full spec].
  - unfold fail, create_offer. cbn. destruct (sig s) eqn:Hs.
    6: { rewrite (closed_flag s I Hs). auto. }
    all: rewrite (not_closed_flag s I) by (rewrite Hs; discriminate); auto.
  - unfold fail, create_answer. cbn. destruct (sig s) eqn:Hs.
    6: { rewrite (closed_flag s I Hs). auto. }
    all: rewrite (not_closed_flag s I) by (rewrite Hs; discriminate); cbn; auto.
    + destruct (inv_hro s I Hs) as [o [Ho _]]. unfold remote_description. rewrite Ho. auto.
    + exfalso. exact (inv_nopr_l s I Hs).
  - destruct arg as [d|].
    + pose proof (set_local_explicit_refines s d c I Ha) as H.
      destruct (set_local s (Some d) c) as [s' [r ev]]. exact H.
    + rewrite (set_local_implicit_eq s c I).
      assert (Hn : negotiable (d_type (mkDesc (d_id c) (implicit_type (sig s)) (d_media c)))).
      { cbn. destruct (sig s); cbn; [left|left|right|right|left|right]; reflexivity. }
      pose proof (set_local_explicit_refines s _ c I Hn) as H.
      destruct (set_local s (Some _) c) as [s' [r ev]]. exact H.
  - pose proof (set_remote_refines s d I Ha) as H.
    destruct (set_remote s d) as [s' [r ev]]. exact H.
  - unfold close. destruct (is_closed s) eqn:Hc; cbn; [|auto].
    split; [reflexivity|]. apply (inv_closed s I). exact Hc.
Qed.

(* ---- rejected calls change nothing (no hypothesis on the state or the operation) ---- *)
Lemma rejected_is_noop_full : forall s o,
  fst (snd (step_full s o)) <> Done -> fst (step_full s o) = s /\ snd (snd (step_full s o)) = false.
Proof.
  intros s o. destruct o as [| |arg c|d|]; cbn [step_full]; unfold fail; cbn [fst snd]; auto.
  - unfold set_local, fail. destruct (is_closed s); cbn [fst snd]; auto.
    destruct arg as [d|].
    + destruct (validate s d true); cbn [fst snd]; auto.
      destruct (state_update _ _ _) as [sg ev]. destruct (dtype_eqb _ _); cbn; intro H; exfalso; apply H; reflexivity.
    + destruct (sig_eqb (sig s) HaveRemoteOffer).
      * destruct (create_answer s); cbn [fst snd]; auto.
        destruct (validate s _ true); cbn [fst snd]; auto.
        destruct (state_update _ _ _) as [sg ev]. destruct (dtype_eqb _ _); cbn; intro H; exfalso; apply H; reflexivity.
      * destruct (create_offer s); cbn [fst snd]; auto.
        destruct (validate s _ true); cbn [fst snd]; auto.
        destruct (state_update _ _ _) as [sg ev]. destruct (dtype_eqb _ _); cbn; intro H; exfalso; apply H; reflexivity.
  - unfold set_remote, fail. destruct (validate s d false); cbn [fst snd]; auto.
    destruct (_ && _); cbn [fst snd]; auto.
    destruct (is_closed s); cbn [fst snd]; auto.
    destruct (state_update _ _ _) as [sg ev]. destruct (dtype_eqb _ _); cbn; intro H; exfalso; apply H; reflexivity.
  - unfold close. destruct (is_closed s); cbn; intro H; exfalso; apply H; reflexivity.
Qed.

Lemma step_step_full : forall s o, step s o = (fst (step_full s o), fst (snd (step_full s o))).
Proof. intros s o. unfold step. destruct (step_full s o) as [s' [r ev]]. reflexivity. Qed.

Theorem rejected_is_noop : forall s o, snd (step s o) <> Done -> fst (step s o) = s.
Proof.
  intros s o. rewrite step_step_full. cbn [fst snd]. intro H. apply (rejected_is_noop_full s o H).
Qed.

(* ---- the invariant is preserved by every operation of the alphabet ------------ *)
Lemma typed_some : forall d t, d_type d = t -> typed (Some d) t.
Proof. intros d t H d' E. inversion E; subst. reflexivity. Qed.
Lemma typed_none : forall t, typed None t.
Proof. intros t d E. discriminate. Qed.

Lemma inv_set_remote : forall s d, inv s -> negotiable (d_type d) -> inv (fst (set_remote s d)).
Proof.
  intros s d I Hn. unfold set_remote. rewrite (validate_eq s d false Hn). cbn [side_of].
  destruct (jsep_next (sig s) Remote (d_type d)) as [nxt|] eqn:J; [|exact I].
  destruct (well_formed Remote d) eqn:W; [|exact I].
  assert (Hdtls := well_formed_remote_has_dtls d W).
  assert (Hnc : is_closed s = false).
  { apply (not_closed_flag s I). intro E. rewrite E in J. destruct (d_type d); discriminate. }
  destruct Hn as [Ht|Ht]; rewrite Ht in *; cbn [answer_like].
  - rewrite Hdtls, andb_false_r, Hnc.
    rewrite (state_update_remote (sig s) TOffer nxt (or_introl eq_refl) J). cbn [dtype_eqb dtype_code Z.eqb fst].
    assert (nxt = HaveRemoteOffer) by (destruct (sig s); cbn in J; inversion J; reflexivity). subst nxt.
    constructor; cbn; try discriminate.
    + split; discriminate.
    + intros _. exists d. auto.
    + exact (inv_pl s I).
    + exact (inv_cl s I).
    + apply typed_some. exact Ht.
    + exact (inv_cr s I).
  - assert (Hs : sig s = HaveLocalOffer).
    { destruct (sig s) eqn:E; cbn in J; try discriminate; try reflexivity.
      exfalso. exact (inv_nopr_r s I E). }
    destruct (inv_hlo s I Hs) as [o [Ho Hot]].
    unfold local_description. rewrite Ho.
    destruct (same_sections (sections d) (sections o)) eqn:Hsec; [|exact I].
    rewrite Hdtls, andb_false_r, Hnc.
    rewrite (state_update_remote (sig s) TAnswer nxt (or_intror eq_refl) J). cbn [dtype_eqb dtype_code Z.eqb fst].
    assert (nxt = Stable) by (rewrite Hs in J; cbn in J; inversion J; reflexivity). subst nxt.
    constructor; cbn; try discriminate.
    + split; discriminate.
    + intros _. right. exists o, d. repeat split; auto.
      apply same_sections_eq. exact Hsec.
    + apply typed_some. exact Hot.
    + exact (inv_cl s I).
    + apply typed_some. exact Ht.
Qed.

Lemma inv_set_local_explicit : forall s d c, inv s -> negotiable (d_type d) -> inv (fst (set_local s (Some d) c)).
Proof.
  intros s d c I Hn. unfold set_local.
  destruct (is_closed s) eqn:Hc; [exact I|].
  rewrite (validate_eq s d true Hn). cbn [side_of].
  destruct (jsep_next (sig s) Local (d_type d)) as [nxt|] eqn:J; [|exact I].
  destruct (well_formed Local d) eqn:W; [|exact I].
  destruct Hn as [Ht|Ht]; rewrite Ht in *; cbn [answer_like].
  - rewrite (state_update_local (sig s) TOffer nxt (or_introl eq_refl) J). cbn [dtype_eqb dtype_code Z.eqb fst].
    assert (nxt = HaveLocalOffer) by (destruct (sig s); cbn in J; inversion J; reflexivity). subst nxt.
    constructor; cbn; try discriminate.
    + split; discriminate.
    + intros _. exists d. auto.
    + apply typed_some. exact Ht.
    + exact (inv_cl s I).
    + exact (inv_pr s I).
    + exact (inv_cr s I).
  - assert (Hs : sig s = HaveRemoteOffer).
    { destruct (sig s) eqn:E; cbn in J; try discriminate; try reflexivity.
      exfalso. exact (inv_nopr_l s I E). }
    destruct (inv_hro s I Hs) as [o [Ho Hot]].
    unfold remote_description. rewrite Ho.
    destruct (same_sections (sections d) (sections o)) eqn:Hsec; [|exact I].
    rewrite (state_update_local (sig s) TAnswer nxt (or_intror eq_refl) J). cbn [dtype_eqb dtype_code Z.eqb fst].
    assert (nxt = Stable) by (rewrite Hs in J; cbn in J; inversion J; reflexivity). subst nxt.
    constructor; cbn; try discriminate.
    + split; discriminate.
    + intros _. right. exists o, d. repeat split; auto.
      apply same_sections_eq. exact Hsec.
    + apply typed_some. exact Ht.
    + apply typed_some. exact Hot.
    + exact (inv_cr s I).
Qed.

Lemma implicit_negotiable : forall s c, negotiable (d_type (mkDesc (d_id c) (implicit_type (sig s)) (d_media c))).
Proof. intros s c. cbn. destruct (sig s); cbn; [left|left|right|right|left|right]; reflexivity. Qed.

Theorem inv_step : forall s o, inv s -> in_alphabet o -> inv (fst (step s o)).
Proof.
  intros s o I Ha. rewrite step_step_full. cbn [fst]. destruct o as [| |arg c|d|]; cbn [step_full fail fst]; auto.
  - destruct arg as [d|].
    + apply inv_set_local_explicit; assumption.
    + rewrite (set_local_implicit_eq s c I). apply inv_set_local_explicit; [assumption|apply implicit_negotiable].
  - apply inv_set_remote; assumption.
  - unfold close. destruct (is_closed s) eqn:Hc; cbn [fst]; [exact I|].
    constructor; cbn; try discriminate.
    + split; reflexivity.
    + exact (inv_pl s I).
    + exact (inv_cl s I).
    + exact (inv_pr s I).
    + exact (inv_cr s I).
Qed.

Lemma run_cons : forall s o ops,
  run s (o :: ops) = (fst (run (fst (step s o)) ops), snd (step s o) :: snd (run (fst (step s o)) ops)).
Proof.
  intros s o ops. cbn [run]. destruct (step s o) as [s1 r]. cbn [fst snd].
  destruct (run s1 ops) as [s2 rs]. reflexivity.
Qed.

Theorem inv_run : forall ops s, inv s -> Forall in_alphabet ops -> inv (fst (run s ops)).
Proof.
  induction ops as [|o ops IH]; intros s I Ha; [exact I|].
  rewrite run_cons. cbn [fst]. inversion Ha; subst. apply IH; [apply inv_step; assumption|assumption].
Qed.

(* ---- closed is absorbing -------------------------------------------------------- *)
Definition closed_outcome (o : op) : outcome := match o with Close => Done | _ => InvalidState end.

Lemma closed_step : forall s o, is_closed s = true -> sig s = Closed -> in_alphabet o ->
  step s o = (s, closed_outcome o).
Proof.
  intros s o Hc Hs Ha. unfold step. destruct o as [| |arg c|d|]; cbn [step_full closed_outcome].
  - unfold fail, create_offer. rewrite Hc. reflexivity.
  - unfold fail, create_answer. rewrite Hc. reflexivity.
  - unfold set_local, fail. rewrite Hc. reflexivity.
  - unfold set_remote, validate. rewrite Hs.
    destruct Ha as [Ht|Ht]; rewrite Ht; cbn; reflexivity.
  - unfold close. rewrite Hc. reflexivity.
Qed.

Theorem closed_absorbing : forall ops s, is_closed s = true -> sig s = Closed -> Forall in_alphabet ops ->
  run s ops = (s, map closed_outcome ops).
Proof.
  induction ops as [|o ops IH]; intros s Hc Hs Ha; [reflexivity|].
  inversion Ha; subst. rewrite run_cons. rewrite (closed_step s o Hc Hs H1). cbn [fst snd map].
  rewrite (IH s Hc Hs H2). reflexivity.
Qed.

(* even for operations outside the alphabet (pranswer / rollback) the state stays closed *)
Lemma closed_stays_closed_step : forall s o, is_closed s = true -> sig s = Closed ->
  is_closed (fst (step s o)) = true /\ sig (fst (step s o)) = Closed.
Proof.
  intros s o Hc Hs. rewrite step_step_full. cbn [fst]. destruct o as [| |arg c|d|]; cbn [step_full fail fst]; auto.
  - unfold set_local, fail. rewrite Hc. auto.
  - unfold set_remote, fail. destruct (d_type d) eqn:T.
    1, 3: unfold validate; rewrite Hs, T; cbn; auto.
    all: destruct (validate s d false); cbn [fst]; auto; rewrite ?T, Hc; cbn; auto.
  - unfold close. rewrite Hc. auto.
Qed.

Theorem closed_stays_closed : forall ops s, is_closed s = true -> sig s = Closed ->
  is_closed (fst (run s ops)) = true /\ sig (fst (run s ops)) = Closed.
Proof.
  induction ops as [|o ops IH]; intros s Hc Hs; [auto|].
  rewrite run_cons. cbn [fst]. destruct (closed_stays_closed_step s o Hc Hs) as [H1 H2]. apply IH; assumption.
Qed.

(* ---- corollaries ------------------------------------------------------------------ *)
Lemma spec_never_crashes : forall s o, fst (spec s o) <> Crash.
Proof.
  intros s o. destruct o as [| |arg c|d|]; cbn [spec].
  - destruct (sig s); cbn; discriminate.
  - destruct (can_create_answer (sig s)); cbn; discriminate.
  - destruct arg as [d|]; unfold judge; destruct (jsep_next _ _ _); cbn; try discriminate;
      destruct (_ && _); cbn; discriminate.
  - unfold judge; destruct (jsep_next _ _ _); cbn; try discriminate; destruct (_ && _); cbn; discriminate.
  - cbn. discriminate.
Qed.

Theorem no_crash : forall s o, inv s -> in_alphabet o -> snd (step s o) <> Crash.
Proof.
  intros s o I Ha. destruct (refines_spec s o I Ha) as [H _]. rewrite H. apply spec_never_crashes.
Qed.

(* every change of the signalling state is an edge of the JSEP diagram, or close() *)
Definition jsep_edge (a b : sigstate) : Prop :=
  a = b \/ b = Closed \/ exists sd t, jsep_next a sd t = Some b.

Lemma spec_is_edge : forall s o, jsep_edge (sig s) (snd (spec s o)).
Proof.
  intros s o. destruct o as [| |arg c|d|]; cbn [spec].
  - left. destruct (sig s); reflexivity.
  - left. destruct (can_create_answer (sig s)); reflexivity.
  - destruct arg as [d|]; unfold judge.
    + destruct (jsep_next (sig s) Local (d_type d)) as [n|] eqn:J; [|left; reflexivity].
      destruct (_ && _); cbn; [right; right; exists Local, (d_type d); exact J|left; reflexivity].
    + cbn [d_type]. destruct (jsep_next (sig s) Local (implicit_type (sig s))) as [n|] eqn:J; [|left; reflexivity].
      destruct (_ && _); cbn; [right; right; exists Local, (implicit_type (sig s)); exact J|left; reflexivity].
  - unfold judge. destruct (jsep_next (sig s) Remote (d_type d)) as [n|] eqn:J; [|left; reflexivity].
    destruct (_ && _); cbn; [right; right; exists Remote, (d_type d); exact J|left; reflexivity].
  - right. left. reflexivity.
Qed.

Theorem reachable_transitions_are_jsep_edges : forall ops o,
  Forall in_alphabet ops -> in_alphabet o ->
  jsep_edge (sig (fst (run init ops))) (sig (fst (step (fst (run init ops)) o))).
Proof.
  intros ops o Hops Ho.
  destruct (refines_spec _ o (inv_run ops init inv_init Hops) Ho) as [_ H]. rewrite H. apply spec_is_edge.
Qed.

(* 'signalingstatechange' is emitted exactly by the calls that set the state *)
Theorem event_spec : forall s o, inv s -> in_alphabet o ->
  snd (snd (step_full s o)) =
  match o with
  | CreateOffer | CreateAnswer => false
  | Close => negb (is_closed s)
  | _ => match fst (snd (step_full s o)) with Done => true | _ => false end
  end.
Proof.
  intros s o I Ha. destruct o as [| |arg c|d|]; cbn [step_full fail snd]; try reflexivity.
  - assert (G : forall d, negotiable (d_type d) ->
       snd (snd (set_local s (Some d) c)) = match fst (snd (set_local s (Some d) c)) with Done => true | _ => false end).
    { intros d Hn. unfold set_local, fail. destruct (is_closed s); [reflexivity|].
      rewrite (validate_eq s d true Hn). cbn [side_of].
      destruct (jsep_next (sig s) Local (d_type d)) as [nxt|] eqn:J; [|reflexivity].
      rewrite (state_update_local (sig s) (d_type d) nxt Hn J).
      destruct (well_formed Local d); [|reflexivity].
      destruct (answer_like (d_type d)).
      - destruct (remote_description s); [|reflexivity].
        destruct (same_sections _ _); [|reflexivity]. destruct (dtype_eqb _ _); reflexivity.
      - destruct (dtype_eqb _ _); reflexivity. }
    destruct arg as [d|]; [apply G; exact Ha|].
    rewrite (set_local_implicit_eq s c I). apply G. apply implicit_negotiable.
  - unfold set_remote, fail. rewrite (validate_eq s d false Ha). cbn [side_of].
    destruct (jsep_next (sig s) Remote (d_type d)) as [nxt|] eqn:J; [|reflexivity].
    rewrite (state_update_remote (sig s) (d_type d) nxt Ha J).
    destruct (well_formed Remote d) eqn:W; [|reflexivity].
    rewrite (well_formed_remote_has_dtls d W), andb_false_r.
    rewrite (not_closed_flag s I) by (intro E; rewrite E in J; destruct (d_type d); discriminate).
    destruct (answer_like (d_type d)).
    + destruct (local_description s); [|reflexivity].
      destruct (same_sections _ _); [|reflexivity]. destruct (dtype_eqb _ _); reflexivity.
    + destruct (dtype_eqb _ _); reflexivity.
  - unfold close. destruct (is_closed s); reflexivity.
Qed.

(* ---- the spec's content conditions in the words of the property ------------------ *)
Definition media_defect (sd : side) (t : dtype) (m : media) : Prop :=
  m_ice m = false                                                          (* ICE credentials missing *)
  \/ ((t = TAnswer \/ t = TPranswer) /\ m_dtls m <> Some RClient /\ m_dtls m <> Some RServer)  (* role undecided *)
  \/ (sd = Remote /\ m_dtls m = None)                                      (* no DTLS role stated at all *)
  \/ ((m_kind m = KAudio \/ m_kind m = KVideo) /\ m_mux m = false).        (* rtcp-mux missing *)

Definition defective (sd : side) (d : desc) : Prop :=
  exists m, In m (d_media d) /\ media_defect sd (d_type d) m.

Definition mismatched (s : st) (sd : side) (d : desc) : Prop :=
  (d_type d = TAnswer \/ d_type d = TPranswer) /\
  forall o, offer_answered s sd = Some o -> sections d <> sections o.

Lemma media_well_formed_false : forall sd t m,
  media_well_formed sd t m = false <-> media_defect sd t m.
Proof.
  intros sd t [k mid ice dtls mux]. unfold media_well_formed, media_defect. cbn [m_ice m_dtls m_kind m_mux].
  split.
  - rewrite !andb_false_iff. intros [[[H|H]|H]|H].
    + left. exact H.
    + right. left. destruct t; cbn in H; try discriminate; (split; [auto|]);
        destruct dtls as [[]|]; cbn in H; try discriminate; split; discriminate.
    + right. right. left. destruct sd; [discriminate|]. split; [reflexivity|].
      destruct dtls; [discriminate|reflexivity].
    + right. right. right. destruct k; cbn in H; try discriminate; split; auto.
  - intros [H|[[Ht [H1 H2]]|[[Hsd Hd]|[Hk Hm]]]].
    + rewrite H. reflexivity.
    + destruct ice; [|reflexivity]. destruct Ht as [Ht|Ht]; subst t; cbn;
      destruct dtls as [[]|]; cbn; try reflexivity; try (exfalso; apply H1; reflexivity); exfalso; apply H2; reflexivity.
    + subst sd dtls. destruct ice; [|reflexivity]. destruct t; cbn; reflexivity.
    + subst mux. destruct ice; [|reflexivity].
      destruct Hk as [Hk|Hk]; subst k; cbn; rewrite ?andb_false_r; reflexivity.
Qed.

Lemma well_formed_false : forall sd d, well_formed sd d = false <-> defective sd d.
Proof.
  intros sd d. unfold well_formed, defective. generalize (d_type d). intro t.
  induction (d_media d) as [|m ms IH]; cbn [forallb In].
  - split; [discriminate|]. intros [m [[] _]].
  - rewrite andb_false_iff, IH, media_well_formed_false. split.
    + intros [H|[m' [Hin H]]]; [exists m; auto|exists m'; auto].
    + intros [m' [[E|Hin] H]]; [subst; left; exact H|right; exists m'; auto].
Qed.

Lemma answers_offer_false : forall s sd d, answers_offer s sd d = false <-> mismatched s sd d.
Proof.
  intros s sd d. unfold answers_offer, mismatched. destruct (d_type d); cbn [answer_like].
  - split; [discriminate|]. intros [[H|H] _]; discriminate.
  - destruct (offer_answered s sd) as [o|].
    + split.
      * intro H. split; [auto|]. intros o' E. inversion E; subst o'. intro Heq.
        apply same_sections_eq in Heq. congruence.
      * intros [_ H]. destruct (same_sections (sections d) (sections o)) eqn:E; [|reflexivity].
        exfalso. apply (H o eq_refl). apply same_sections_eq. exact E.
    + split; [|reflexivity]. intros _. split; [auto|]. intros o E. discriminate.
  - destruct (offer_answered s sd) as [o|].
    + split.
      * intro H. split; [auto|]. intros o' E. inversion E; subst o'. intro Heq.
        apply same_sections_eq in Heq. congruence.
      * intros [_ H]. destruct (same_sections (sections d) (sections o)) eqn:E; [|reflexivity].
        exfalso. apply (H o eq_refl). apply same_sections_eq. exact E.
    + split; [|reflexivity]. intros _. split; [auto|]. intros o E. discriminate.
  - split; [discriminate|]. intros [[H|H] _]; discriminate.
Qed.

(* the description a call applies, and on which side *)
Definition applied (s : st) (o : op) : option (side * desc) :=
  match o with
  | SetLocal (Some d) _ => Some (Local, d)
  | SetLocal None c => Some (Local, mkDesc (d_id c) (implicit_type (sig s)) (d_media c))
  | SetRemote d => Some (Remote, d)
  | _ => None
  end.

Lemma spec_applied : forall s o sd d, applied s o = Some (sd, d) -> spec s o = judge s sd d.
Proof.
  intros s o sd d. destruct o as [| |[d'|] c|d'|]; cbn; intro H; inversion H; subst; reflexivity.
Qed.

Theorem outcome_characterised : forall s o sd d, inv s -> in_alphabet o -> applied s o = Some (sd, d) ->
  (snd (step s o) = InvalidState <-> jsep_next (sig s) sd (d_type d) = None) /\
  (snd (step s o) = ValueErr <->
     jsep_next (sig s) sd (d_type d) <> None /\ (defective sd d \/ mismatched s sd d)) /\
  (snd (step s o) = Done <->
     jsep_next (sig s) sd (d_type d) <> None /\ ~ defective sd d /\ ~ mismatched s sd d).
Proof.
  intros s o sd d I Ha Hap. destruct (refines_spec s o I Ha) as [H _]. rewrite H, (spec_applied s o sd d Hap).
  unfold judge. destruct (jsep_next (sig s) sd (d_type d)) as [nxt|]; cbn [fst].
  2: { repeat split; try discriminate; try reflexivity; intros [Hn _]; exfalso; apply Hn; reflexivity. }
  rewrite <- well_formed_false, <- answers_offer_false.
  destruct (well_formed sd d), (answers_offer s sd d); cbn [andb fst];
    repeat split; try discriminate; try reflexivity; auto;
    try (intros [_ [Hx|Hx]]; discriminate);
    try (intros [_ [Hx Hy]]; exfalso; (apply Hx; reflexivity) || (apply Hy; reflexivity)).
Qed.

(* ---- closed is absorbing for EVERY call, also outside the alphabet ------------------ *)
Lemma closed_step_any : forall s o, is_closed s = true -> sig s = Closed ->
  fst (step s o) = s /\ (snd (step s o) = Done -> o = Close).
Proof.
  intros s o Hc Hs. rewrite step_step_full. cbn [fst snd].
  destruct o as [| |arg c|d|]; cbn [step_full fail fst snd].
  - unfold create_offer. rewrite Hc. split; [reflexivity|discriminate].
  - unfold create_answer. rewrite Hc. split; [reflexivity|discriminate].
  - unfold set_local, fail. rewrite Hc. cbn. split; [reflexivity|discriminate].
  - unfold set_remote, fail. destruct (validate s d false); cbn [fst snd]; try (split; [reflexivity|discriminate]).
    destruct (_ && _); cbn [fst snd]; [split; [reflexivity|discriminate]|].
    rewrite Hc. cbn. split; [reflexivity|discriminate].
  - unfold close. rewrite Hc. cbn. split; reflexivity.
Qed.

Theorem closed_absorbing_any : forall ops s, is_closed s = true -> sig s = Closed ->
  fst (run s ops) = s /\
  Forall2 (fun o r => r = Done -> o = Close) ops (snd (run s ops)).
Proof.
  induction ops as [|o ops IH]; intros s Hc Hs; [split; [reflexivity|constructor]|].
  rewrite run_cons. cbn [fst snd]. destruct (closed_step_any s o Hc Hs) as [E H]. rewrite E.
  destruct (IH s Hc Hs) as [E2 H2]. split; [exact E2|]. constructor; assumption.
Qed.
