(* C13: out-of-band negotiated channels.  A channel created with negotiated=True and id i opens --
   exactly one `open` event -- as soon as the association is established, whichever comes first;
   it is registered under i, never announced to the peer (no DCEP OPEN is queued), and a second
   channel with the same id is refused. *)
From Coq Require Import ZArith List Bool Lia Arith.
From AV Require Import Lib.Bytes Gen.Utils Gen.SctpConst Model.Chan Proof.ChanP Proof.ChanBufP Proof.ChanCloseP.
Import ListNotations.
Local Open Scope Z_scope.

Lemma create_used s neg i h0 ordered maxrt maxlt label proto : tget (table s) i = Some h0 ->
  create s neg (Some i) ordered maxrt maxlt label proto = (s, [EvRaise 1]).
Proof. intros H. unfold create. rewrite H. reflexivity. Qed.

Lemma create_negotiated s i ordered maxrt maxlt label proto : tget (table s) i = None ->
  let h := length (chans s) in
  let s' := fst (create s true (Some i) ordered maxrt maxlt label proto) in
  let evs := snd (create s true (Some i) ordered maxrt maxlt label proto) in
  tget (table s') i = Some h /\ ch_id (getc s' h) = Some i /\ ch_neg (getc s' h) = true /\ queue s' = queue s /\
  (if established s then ch_state (getc s' h) = Open /\ evs = [EvOpen h]
   else ch_state (getc s' h) = Connecting /\ evs = []) /\
  (* the id is taken: a second channel with this id is refused *)
  (forall neg' o' r' l' lb' pr', snd (create s' neg' (Some i) o' r' l' lb' pr') = [EvRaise 1]).
Proof.
  intros Ht. cbv zeta.
  assert (A : tget (table (fst (create s true (Some i) ordered maxrt maxlt label proto))) i = Some (length (chans s)) /\
              ch_id (getc (fst (create s true (Some i) ordered maxrt maxlt label proto)) (length (chans s))) = Some i /\
              ch_neg (getc (fst (create s true (Some i) ordered maxrt maxlt label proto)) (length (chans s))) = true /\
              queue (fst (create s true (Some i) ordered maxrt maxlt label proto)) = queue s /\
              (if established s
               then ch_state (getc (fst (create s true (Some i) ordered maxrt maxlt label proto)) (length (chans s))) = Open /\
                    snd (create s true (Some i) ordered maxrt maxlt label proto) = [EvOpen (length (chans s))]
               else ch_state (getc (fst (create s true (Some i) ordered maxrt maxlt label proto)) (length (chans s))) = Connecting /\
                    snd (create s true (Some i) ordered maxrt maxlt label proto) = [])).
  { unfold create. rewrite Ht.
    set (c := mkChan (Some i) Connecting 0 0 true ordered maxrt maxlt label proto).
    destruct (add_chan_good s c eq_refl) as (_ & Eh & L1). rewrite (pair_eta (add_chan s c)). rewrite Eh.
    set (s1 := fst (add_chan s c)) in *.
    set (s2 := set_table s1 (tset (table s1) i (length (chans s)))).
    assert (G2 : getc s2 (length (chans s)) = c).
    { change (getc s2 (length (chans s))) with (getc s1 (length (chans s))). unfold s1. now rewrite getc_add_chan, Nat.eqb_refl. }
    assert (T2 : tget (table s2) i = Some (length (chans s))).
    { cbn [table s2 set_table]. change (table s1) with (table s). rewrite tget_tset_fresh by exact Ht. now rewrite Z.eqb_refl. }
    assert (E2 : established s2 = established s) by reflexivity.
    rewrite E2. destruct (established s) eqn:Ee.
    - unfold set_ready. rewrite G2. cbn [ch_state c rstate_eqb rank Z.eqb Pos.eqb fst snd].
      set (s3 := setc s2 (length (chans s)) (with_state c Open)).
      assert (G3 : getc s3 (length (chans s)) = with_state c Open).
      { unfold s3. rewrite getc_setc, Nat.eqb_refl. assert (H : Nat.ltb (length (chans s)) (length (chans s2)) = true) by (apply Nat.ltb_lt; cbn [chans s2 set_table]; fold s1; lia).
        rewrite H. reflexivity. }
      rewrite G3. cbn [with_state c ch_id ch_neg ch_state]. repeat split; auto.
    - cbn [fst snd]. rewrite G2. cbn [c ch_id ch_neg ch_state]. repeat split; auto. }
  destruct A as (A1 & A2 & A3 & A4 & A5). repeat split; auto.
  intros. now rewrite (create_used _ _ i _ _ _ _ _ _ A1).
Qed.

Lemma open_negotiated_states : forall t s1 h,
  ch_state (getc (fst (open_negotiated s1 t)) h) = ch_state (getc s1 h) \/ ch_state (getc (fst (open_negotiated s1 t)) h) = Open.
Proof.
  induction t as [|[k0 h0] t IH]; intros s1 h; cbn [open_negotiated]; [now left|].
  set (p := if ch_neg (getc s1 h0) && rstate_eqb (ch_state (getc s1 h0)) Connecting then set_ready s1 h0 Open else (s1, [])).
  rewrite (pair_eta p). rewrite (pair_eta (open_negotiated (fst p) t)). cbn [fst].
  assert (Hp : ch_state (getc (fst p) h) = ch_state (getc s1 h) \/ ch_state (getc (fst p) h) = Open).
  { unfold p. destruct (_ && _); [|now left]. rewrite getc_set_ready. destruct (_ && _ && _)%bool; [now right|now left]. }
  destruct (IH (fst p) h) as [E|E]; [rewrite E; exact Hp|now right].
Qed.

(* created first, association established later: it opens then, with exactly one `open` event *)
Lemma established_opens_negotiated s h i : cinv s -> (h < length (chans s))%nat ->
  ch_neg (getc s h) = true -> ch_state (getc s h) = Connecting -> ch_id (getc s h) = Some i ->
  ch_state (getc (fst (set_established s)) h) = Open /\ opens h (snd (set_established s)) = 1%nat.
Proof.
  intros C Hh Hn Hst Hid.
  destruct C as (W & _ & T). pose proof (T h i Hh ltac:(rewrite Hst; discriminate) Hid) as Ht.
  set (s0 := mkSt true (dc_id s) (chans s) (table s) (queue s) (rq_queue s) (rq_request s) (rq_req_seq s) (rq_resp_seq s)).
  assert (W0 : wf s0) by exact W.
  destruct (set_established_good s W) as [_ [_ Hok]]. destruct (Hok h) as (Hmono & Ho1 & Hopen & _ & _).
  assert (Key : forall t s1, wf s1 -> In (i, h) t -> ch_neg (getc s1 h) = true -> ch_state (getc s1 h) = Connecting -> (h < length (chans s1))%nat ->
             (1 <= opens h (snd (open_negotiated s1 t)))%nat).
  { induction t as [|[k0 h0] t IH]; intros s1 W1 Hin Hn1 Hs1 Hl1; [destruct Hin|]. cbn [open_negotiated].
    set (p := if ch_neg (getc s1 h0) && rstate_eqb (ch_state (getc s1 h0)) Connecting then set_ready s1 h0 Open else (s1, [])).
    rewrite (pair_eta p). rewrite (pair_eta (open_negotiated (fst p) t)). cbn [snd]. rewrite opens_app.
    assert (Hself : h0 = h -> (1 <= opens h (snd p))%nat).
    { intros ->. unfold p. rewrite Hn1, Hs1. cbn [andb rstate_eqb rank Z.eqb]. unfold set_ready. rewrite Hs1.
      cbn [rstate_eqb rank Z.eqb Pos.eqb snd]. unfold opens. cbn [filter is_open]. rewrite Nat.eqb_refl. cbn [length]. lia. }
    destruct Hin as [E|Hin]; [injection E as -> ->; specialize (Hself eq_refl); lia|].
    destruct (Nat.eq_dec h0 h) as [E|Hne]; [specialize (Hself E); lia|].
    assert (Gp : getc (fst p) h = getc s1 h /\ length (chans (fst p)) = length (chans s1) /\ wf (fst p)).
    { unfold p. destruct (ch_neg (getc s1 h0) && rstate_eqb (ch_state (getc s1 h0)) Connecting) eqn:Eb; [|auto].
      apply andb_true_iff in Eb as [_ Eb]. apply rstate_eqb_eq in Eb.
      split; [rewrite getc_set_ready; destruct (Nat.eqb_spec h0 h); [contradiction|reflexivity]|].
      split; [apply set_ready_length|].
      refine (proj1 (set_ready_good s1 h0 Open (connecting_in_range _ _ Eb) _ W1)). rewrite Eb. cbn. lia. }
    destruct Gp as (G1 & G2 & G3).
    assert (1 <= opens h (snd (open_negotiated (fst p) t)))%nat by (apply IH; auto; rewrite ?G1, ?G2; auto). lia. }
  assert (Hin : In (i, h) (table s0)).
  { cbn [table s0]. clear - Ht. induction (table s) as [|[a b] t IH]; cbn [tget] in Ht; [discriminate|].
    destruct (Z.eqb_spec i a) as [->|]; [injection Ht as ->; now left|right; now apply IH]. }
  pose proof (Key (table s0) s0 W0 Hin Hn Hst Hh) as K1.
  unfold set_established in *. fold s0 in Ho1, Hopen, Hmono |- *.
  rewrite (pair_eta (open_negotiated s0 (table s0))) in Ho1, Hopen, Hmono |- *. cbn [fst snd] in Ho1, Hopen, Hmono |- *.
  rewrite opens_app in *.
  assert (E0 : opens h ([EvSchedFlush] ++ match rq_queue (fst (open_negotiated s0 (table s0))) with [] => [] | _ => [EvSchedReconfig] end) = 0%nat)
    by (destruct (rq_queue (fst _)); reflexivity).
  rewrite E0 in *.
  split; [|lia].
  destruct (Hopen ltac:(lia)) as [_ Hr]. unfold rk in Hr.
  destruct (Nat.ltb h (length (chans (fst (open_negotiated s0 (table s0)))))) eqn:Hl'; [|lia].
  destruct (open_negotiated_states (table s0) s0 h) as [E|E]; [|exact E].
  rewrite E in Hr. change (getc s0 h) with (getc s h) in Hr. rewrite Hst in Hr. cbn in Hr. lia.
Qed.
