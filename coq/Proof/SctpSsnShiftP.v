(* C17: the SCTP receiver does not depend on the origin of the stream sequence numbers either:
   shifting every SSN -- of the arriving chunks, of the FORWARD-TSN stream lists and of the
   streams' expected counters -- by any delta (mod 2^16) yields the same deliveries and the
   same SACKs. *)
From Coq Require Import ZArith List Bool Lia ZifyBool.
From AV Require Import Lib.Bytes Gen.Utils Gen.SctpConst Model.SctpRecv Proof.SerialP Proof.SctpRecvP Proof.SctpC01P.
Import ListNotations.
Local Open Scope Z_scope.

Ltac Zify.zify_post_hook ::= Z.to_euclidean_division_equations.

Section SsnShift.
Variable e : Z.

Definition sh16 (x : Z) : Z := (x + e) mod 65536.

Lemma sh16_in16 x : in16 (sh16 x). Proof. unfold sh16, in16. lia. Qed.
Lemma sh16_gt a b : in16 a -> in16 b -> uint16_gt (sh16 a) (sh16 b) = uint16_gt a b.
Proof. unfold sh16, in16, uint16_gt. intros. apply eq_true_iff_eq. lia. Qed.
Lemma sh16_eqb a b : in16 a -> in16 b -> (sh16 a =? sh16 b) = (a =? b).
Proof. unfold sh16, in16. intros. apply eq_true_iff_eq. rewrite !Z.eqb_eq. lia. Qed.
Lemma sh16_gte a b : in16 a -> in16 b -> uint16_gte (sh16 a) (sh16 b) = uint16_gte a b.
Proof. intros. unfold uint16_gte. now rewrite sh16_gt, sh16_eqb. Qed.
Lemma sh16_add a : uint16_add (sh16 a) 1 = sh16 (uint16_add a 1).
Proof. rewrite !uint16_add_mod. unfold sh16. lia. Qed.

Definition shc (c : chunk) : chunk :=
  mkChunk (tsn c) (sid c) (sh16 (sseq c)) (unordered c) (first c) (last c) (ppid c) (udata c).
Definition cok (c : chunk) : Prop := in16 (sseq c).

(* ---- reassembly queue operations look at TSNs only *)
Lemma sh_add_scan : forall l c,
  add_scan (map shc l) (shc c) = match add_scan l c with AddOk l' => AddOk (map shc l') | AddAssert => AddAssert end.
Proof.
  induction l as [|r l IH]; intros c; cbn [add_scan map]; [reflexivity|]. cbn [shc tsn].
  destruct (tsn r =? tsn c); [reflexivity|]. destruct (uint32_gt (tsn r) (tsn c)); [reflexivity|].
  change (mkChunk (tsn c) (sid c) (sh16 (sseq c)) (unordered c) (first c) (last c) (ppid c) (udata c)) with (shc c).
  rewrite IH. destruct (add_scan l c); reflexivity.
Qed.

Lemma last_map_shc l c : List.last (map shc l) (shc c) = shc (List.last l c).
Proof. induction l as [|a l IH]; [reflexivity|]. cbn [map List.last]. destruct l; [reflexivity|exact IH]. Qed.

Lemma sh_add_chunk l c :
  add_chunk (map shc l) (shc c) = match add_chunk l c with AddOk l' => AddOk (map shc l') | AddAssert => AddAssert end.
Proof.
  unfold add_chunk. destruct l as [|a l0]; [reflexivity|].
  change (map shc (a :: l0)) with (shc a :: map shc l0) at 1. change (shc a :: map shc l0) with (map shc (a :: l0)).
  rewrite last_map_shc. cbn [shc tsn].
  destruct (uint32_gt (tsn c) (tsn (List.last (a :: l0) c))); [now rewrite map_app|].
  change (mkChunk (tsn c) (sid c) (sh16 (sseq c)) (unordered c) (first c) (last c) (ppid c) (udata c)) with (shc c).
  apply sh_add_scan.
Qed.

Lemma sh_prune l t : prune_chunks (map shc l) t = let '(l', n) := prune_chunks l t in (map shc l', n).
Proof.
  induction l as [|c l IH]; cbn [prune_chunks map]; [reflexivity|]. cbn [shc tsn udata].
  destruct (uint32_gte t (tsn c)); [|reflexivity].
  change (mkChunk (tsn c) (sid c) (sh16 (sseq c)) (unordered c) (first c) (last c) (ppid c) (udata c)) with (shc c).
  rewrite IH. destruct (prune_chunks l t). reflexivity.
Qed.

Definition shrun (r : run_state) : run_state :=
  match r with Some (l, x, o) => Some (map shc l, x, o) | None => None end.

Lemma join_data_shc l : join_data (map shc l) = join_data l.
Proof. unfold join_data. rewrite map_map. reflexivity. Qed.

Lemma retained_shc kept run rest : retained (map shc kept) (shrun run) (map shc rest) = map shc (retained kept run rest).
Proof. unfold retained. destruct run as [[[r x] o]|]; cbn [shrun]; rewrite !map_app, <- !map_rev; reflexivity. Qed.

(* ---- pop_messages: the only place where stream sequence numbers are compared *)
Lemma sh_pop_loop : forall rest kept run seq, Forall cok rest -> in16 seq ->
  pop_loop (map shc kept) (shrun run) (map shc rest) (sh16 seq) =
  (let '(l, s, ms) := pop_loop kept run rest seq in (map shc l, sh16 s, ms)) /\
  in16 (snd (fst (pop_loop kept run rest seq))).
Proof.
  induction rest as [|c rest IH]; intros kept run seq Hr Hs.
  - cbn [pop_loop map]. change (@nil chunk) with (map shc []) at 1. rewrite retained_shc. cbn [fst snd]. auto.
  - inversion Hr as [|? ? Hc Hr']; subst.
    assert (Hseq' : forall o, in16 (if o && (sseq c =? seq) then uint16_add seq 1 else seq))
      by (intros o; destruct (o && _); [apply uint16_add_range|exact Hs]).
    assert (Eseq : forall o, (if o && (sh16 (sseq c) =? sh16 seq) then uint16_add (sh16 seq) 1 else sh16 seq) =
                             sh16 (if o && (sseq c =? seq) then uint16_add seq 1 else seq)).
    { intros o. rewrite sh16_eqb by assumption. destruct (o && (sseq c =? seq)); [apply sh16_add|reflexivity]. }
    assert (HNone : forall kept0,
      pop_loop (map shc kept0) None (map shc (c :: rest)) (sh16 seq) =
      (let '(l, s, ms) := pop_loop kept0 None (c :: rest) seq in (map shc l, sh16 s, ms)) /\
      in16 (snd (fst (pop_loop kept0 None (c :: rest) seq)))).
    { intros kept0. cbn [map pop_loop].
      change (shc c :: map shc rest) with (map shc (c :: rest)).
      cbn [shc sid ppid last first unordered sseq tsn].
      change (mkChunk (tsn c) (sid c) (sh16 (sseq c)) (unordered c) (first c) (last c) (ppid c) (udata c)) with (shc c).
      destruct (negb (first c)).
      * destruct (negb (unordered c)).
        -- cbn [fst snd]. split; [|exact Hs]. f_equal. f_equal. exact (retained_shc kept0 None (c :: rest)).
        -- exact (IH (c :: kept0) None seq Hr' Hs).
      * rewrite sh16_gt by assumption. destruct (negb (unordered c) && uint16_gt (sseq c) seq).
        -- cbn [fst snd]. split; [|exact Hs]. f_equal. f_equal. exact (retained_shc kept0 None (c :: rest)).
        -- destruct (last c).
           ++ change [shc c] with (map shc [c]). rewrite <- map_rev, join_data_shc, Eseq.
              destruct (IH kept0 None _ Hr' (Hseq' (negb (unordered c)))) as [E Hi]. cbn [shrun] in E. rewrite E.
              destruct (pop_loop kept0 None rest _) as [[l s] ms]. cbn [fst snd] in *. auto.
           ++ exact (IH kept0 (Some ([c], tsn_plus_one (tsn c), negb (unordered c))) seq Hr' Hs). }
    destruct run as [[[r x] o]|]; cbn [shrun]; [|exact (HNone kept)].
    cbn [map pop_loop].
    change (shc c :: map shc rest) with (map shc (c :: rest)).
    cbn [shc sid ppid last first unordered sseq tsn].
    change (mkChunk (tsn c) (sid c) (sh16 (sseq c)) (unordered c) (first c) (last c) (ppid c) (udata c)) with (shc c).
    destruct (negb (tsn c =? x)).
    + destruct o.
      * cbn [fst snd]. split; [|exact Hs]. f_equal. f_equal. exact (retained_shc kept (Some (r, x, true)) (c :: rest)).
      * rewrite <- map_app. exact (HNone (r ++ kept)).
    + destruct (last c).
      * change (shc c :: map shc r) with (map shc (c :: r)). rewrite <- map_rev, join_data_shc, Eseq.
        destruct (IH kept None _ Hr' (Hseq' o)) as [E Hi]. cbn [shrun] in E. rewrite E.
        destruct (pop_loop kept None rest _) as [[l s] ms]. cbn [fst snd] in *. auto.
      * exact (IH kept (Some (c :: r, tsn_plus_one x, o)) seq Hr' Hs).
Qed.

Lemma sh_pop_messages l seq : Forall cok l -> in16 seq ->
  pop_messages (map shc l) (sh16 seq) = (let '(l', s, ms) := pop_messages l seq in (map shc l', sh16 s, ms)) /\
  in16 (snd (fst (pop_messages l seq))).
Proof. intros H Hs. unfold pop_messages. change (@nil chunk) with (map shc []) at 1. exact (sh_pop_loop l [] None seq H Hs). Qed.

(* ---- transport state: only the streams carry stream sequence numbers *)
Definition shst (st : stream) : stream := mkStream (map shc (reasm st)) (sh16 (sseq_expected st)).
Definition shstrs (l : list (Z * stream)) : list (Z * stream) := map (fun kv => (fst kv, shst (snd kv))) l.
Definition shs (s : rstate) : rstate :=
  mkR (last_rx s) (misordered s) (duplicates s) (shstrs (streams s)) (rwnd s) (sack_needed s).

Definition st_ok (st : stream) : Prop := Forall cok (reasm st) /\ in16 (sseq_expected st).
Definition strs_ok (l : list (Z * stream)) : Prop := Forall (fun kv => st_ok (snd kv)) l.
Definition present (l : list (Z * stream)) (id : Z) : Prop := In id (map fst l).

Lemma get_stream_sh l id : present l id -> get_stream (shstrs l) id = shst (get_stream l id).
Proof.
  unfold present. induction l as [|[k v] l IH]; cbn [shstrs map get_stream fst snd]; [intros []|].
  destruct (Z.eqb_spec id k) as [->|Hne]; [reflexivity|]. intros [E|H]; [congruence|]. now apply IH.
Qed.
Lemma set_stream_sh l id v : set_stream (shstrs l) id (shst v) = shstrs (set_stream l id v).
Proof.
  induction l as [|[k w] l IH]; cbn [shstrs map set_stream fst snd]; [reflexivity|].
  destruct (id =? k); cbn [map fst snd]; [reflexivity|]. f_equal. exact IH.
Qed.
Lemma set_stream_keys l id v : present l id -> map fst (set_stream l id v) = map fst l.
Proof.
  unfold present. induction l as [|[k w] l IH]; cbn [set_stream map fst]; [intros []|].
  destruct (Z.eqb_spec id k) as [->|Hne]; cbn [map fst]; [reflexivity|]. intros [E|H]; [congruence|]. f_equal. now apply IH.
Qed.
Lemma get_stream_ok l id : strs_ok l -> present l id -> st_ok (get_stream l id).
Proof.
  unfold present. induction 1 as [|[k v] l Hv Hl IH]; cbn [get_stream map fst]; [intros []|].
  destruct (Z.eqb_spec id k) as [->|Hne]; [intros _; exact Hv|]. intros [E|H]; [congruence|]. now apply IH.
Qed.
Lemma set_stream_ok l id v : strs_ok l -> st_ok v -> strs_ok (set_stream l id v).
Proof.
  intros Hl Hv. induction Hl as [|[k w] l Hw Hl IH]; cbn [set_stream]; [constructor; [exact Hv|constructor]|].
  destruct (id =? k); constructor; auto.
Qed.

Lemma incl_cok (l l' : list chunk) : incl l' l -> Forall cok l -> Forall cok l'.
Proof. intros Hi H. rewrite Forall_forall in *. auto. Qed.

Lemma sh_mark_received s t : mark_received (shs s) t = (shs (fst (mark_received s t)), snd (mark_received s t)).
Proof. unfold mark_received. cbn [shs last_rx misordered duplicates streams rwnd sack_needed]. destruct (_ || _); reflexivity. Qed.

Definition shl (strs : list (Z * Z)) : list (Z * Z) := map (fun p => (fst p, sh16 (snd p))) strs.
Definition shev (ev : revent) : revent :=
  match ev with EvData c => EvData (shc c) | EvFwd cum strs => EvFwd cum (shl strs) end.
Definition ev_ok (ids : list Z) (ev : revent) : Prop :=
  match ev with
  | EvData c => cok c /\ In (sid c) ids
  | EvFwd _ strs => Forall (fun p => in16 (snd p) /\ In (fst p) ids) strs
  end.

Definition wfst (ids : list Z) (s : rstate) : Prop := strs_ok (streams s) /\ map fst (streams s) = ids.

Lemma sh_receive_data ids s c : wfst ids s -> cok c -> In (sid c) ids ->
  receive_data (shs s) (shc c) = match receive_data s c with ROk s' ms => ROk (shs s') ms | RAssert => RAssert end /\
  match receive_data s c with ROk s' _ => wfst ids s' | RAssert => True end.
Proof.
  intros [Hok Hids] Hc Hin. unfold receive_data.
  set (s0 := mkR (last_rx s) (misordered s) (duplicates s) (streams s) (rwnd s) true).
  assert (E0 : mkR (last_rx (shs s)) (misordered (shs s)) (duplicates (shs s)) (streams (shs s)) (rwnd (shs s)) true = shs s0) by reflexivity.
  rewrite E0. cbn [shc tsn sid udata].
  assert (Ef : far_ahead (shs s0) (tsn c) = far_ahead s0 (tsn c)) by reflexivity. rewrite Ef.
  destruct (far_ahead s0 (tsn c)); [split; [reflexivity|split; assumption]|].
  rewrite sh_mark_received. pose proof (mark_received_streams s0 (tsn c)) as Hs.
  destruct (mark_received s0 (tsn c)) as [s1 dup]. cbn [fst snd] in *.
  assert (W1 : strs_ok (streams s1) /\ map fst (streams s1) = ids) by (rewrite Hs; split; assumption).
  destruct dup; [split; [reflexivity|exact W1]|]. destruct W1 as [Hok1 Hids1].
  assert (Hp : present (streams s1) (sid c)) by (unfold present; now rewrite Hids1).
  cbn [shs streams]. rewrite get_stream_sh by exact Hp. cbn [shst reasm sseq_expected].
  destruct (get_stream_ok _ _ Hok1 Hp) as [Hg Hq].
  change (mkChunk (tsn c) (sid c) (sh16 (sseq c)) (unordered c) (first c) (last c) (ppid c) (udata c)) with (shc c).
  rewrite sh_add_chunk.
  destruct (add_chunk (reasm (get_stream (streams s1) (sid c))) c) as [l|] eqn:Ea; [|split; [reflexivity|exact I]].
  assert (Hl : Forall cok l) by (eapply incl_cok; [eapply add_chunk_incl; eauto|constructor; assumption]).
  destruct (sh_pop_messages l _ Hl Hq) as [Ep Hi]. rewrite Ep.
  pose proof (pop_messages_retains l (sseq_expected (get_stream (streams s1) (sid c)))) as Hret.
  destruct (pop_messages l (sseq_expected (get_stream (streams s1) (sid c)))) as [[l2 seq2] ms]. cbn [fst snd] in Hi.
  specialize (Hret l2 seq2 ms eq_refl).
  split.
  - f_equal. unfold shs. cbn [last_rx misordered duplicates streams rwnd sack_needed].
    change (mkStream (map shc l2) (sh16 seq2)) with (shst (mkStream l2 seq2)). now rewrite set_stream_sh.
  - split; cbn [streams].
    + apply set_stream_ok; [exact Hok1|]. split; [eapply incl_cok; eauto|exact Hi].
    + rewrite set_stream_keys by exact Hp. exact Hids1.
Qed.

Lemma sh_fwd_streams ids : forall l strs, strs_ok strs -> map fst strs = ids ->
  Forall (fun p => in16 (snd p) /\ In (fst p) ids) l ->
  fwd_streams (shstrs strs) (shl l) = (let '(s2, ms) := fwd_streams strs l in (shstrs s2, ms)) /\
  strs_ok (fst (fwd_streams strs l)) /\ map fst (fst (fwd_streams strs l)) = ids.
Proof.
  induction l as [|[id sq] l IH]; intros strs Hs Hk Hl; cbn [fwd_streams shl map fst snd]; [auto|].
  apply Forall_cons_iff in Hl as [[Hq Hin] Hl']. cbn [fst snd] in Hq, Hin.
  assert (Hp : present strs id) by (unfold present; now rewrite Hk).
  rewrite get_stream_sh by exact Hp. cbn [shst reasm sseq_expected].
  destruct (get_stream_ok strs id Hs Hp) as [Hg He].
  rewrite sh16_gte by assumption. rewrite sh16_add.
  set (seq1 := if uint16_gte sq (sseq_expected (get_stream strs id)) then uint16_add sq 1 else sseq_expected (get_stream strs id)).
  assert (E1 : (if uint16_gte sq (sseq_expected (get_stream strs id)) then sh16 (uint16_add sq 1) else sh16 (sseq_expected (get_stream strs id))) = sh16 seq1)
    by (unfold seq1; destruct (uint16_gte _ _); reflexivity).
  rewrite E1. assert (H1 : in16 seq1) by (unfold seq1; destruct (uint16_gte _ _); [apply uint16_add_range|exact He]).
  destruct (sh_pop_messages _ _ Hg H1) as [Ep Hi]. rewrite Ep.
  pose proof (pop_messages_retains (reasm (get_stream strs id)) seq1) as Hret.
  destruct (pop_messages (reasm (get_stream strs id)) seq1) as [[l2 seq2] ms]. cbn [fst snd] in Hi. specialize (Hret l2 seq2 ms eq_refl).
  change (mkStream (map shc l2) (sh16 seq2)) with (shst (mkStream l2 seq2)). rewrite set_stream_sh.
  assert (Hs2 : strs_ok (set_stream strs id (mkStream l2 seq2))) by (apply set_stream_ok; [exact Hs|split; [eapply incl_cok; eauto|exact Hi]]).
  assert (Hk2 : map fst (set_stream strs id (mkStream l2 seq2)) = ids) by (rewrite set_stream_keys by exact Hp; exact Hk).
  fold (shl l). destruct (IH _ Hs2 Hk2 Hl') as (E & Hok & Hkk). rewrite E.
  destruct (fwd_streams (set_stream strs id (mkStream l2 seq2)) l) as [s2 ms2]. cbn [fst] in *. auto.
Qed.

Lemma sh_repop_streams ids : forall l strs, strs_ok strs -> map fst strs = ids ->
  Forall (fun p => in16 (snd p) /\ In (fst p) ids) l ->
  repop_streams (shstrs strs) (shl l) = (let '(s2, ms) := repop_streams strs l in (shstrs s2, ms)) /\
  strs_ok (fst (repop_streams strs l)) /\ map fst (fst (repop_streams strs l)) = ids.
Proof.
  induction l as [|[id sq] l IH]; intros strs Hs Hk Hl; cbn [repop_streams shl map fst snd]; [auto|].
  apply Forall_cons_iff in Hl as [[Hq Hin] Hl']. cbn [fst snd] in Hq, Hin.
  assert (Hp : present strs id) by (unfold present; now rewrite Hk).
  rewrite get_stream_sh by exact Hp. cbn [shst reasm sseq_expected].
  destruct (get_stream_ok strs id Hs Hp) as [Hg He].
  destruct (sh_pop_messages _ _ Hg He) as [Ep Hi]. rewrite Ep.
  pose proof (pop_messages_retains (reasm (get_stream strs id)) (sseq_expected (get_stream strs id))) as Hret.
  destruct (pop_messages (reasm (get_stream strs id)) (sseq_expected (get_stream strs id))) as [[l2 seq2] ms]. cbn [fst snd] in Hi.
  specialize (Hret l2 seq2 ms eq_refl).
  change (mkStream (map shc l2) (sh16 seq2)) with (shst (mkStream l2 seq2)). rewrite set_stream_sh.
  assert (Hs2 : strs_ok (set_stream strs id (mkStream l2 seq2))) by (apply set_stream_ok; [exact Hs|split; [eapply incl_cok; eauto|exact Hi]]).
  assert (Hk2 : map fst (set_stream strs id (mkStream l2 seq2)) = ids) by (rewrite set_stream_keys by exact Hp; exact Hk).
  fold (shl l). destruct (IH _ Hs2 Hk2 Hl') as (E & Hok & Hkk). rewrite E.
  destruct (repop_streams (set_stream strs id (mkStream l2 seq2)) l) as [s2 ms2]. cbn [fst] in *. auto.
Qed.

Lemma sh_prune_all t : forall strs, strs_ok strs ->
  prune_all (shstrs strs) t = (let '(s2, n) := prune_all strs t in (shstrs s2, n)) /\
  strs_ok (fst (prune_all strs t)) /\ map fst (fst (prune_all strs t)) = map fst strs.
Proof.
  induction 1 as [|[k v] strs Hv Hs IH]; cbn [prune_all shstrs map fst snd]; [split; [reflexivity|split; [constructor|reflexivity]]|].
  cbn [shst reasm sseq_expected]. rewrite sh_prune.
  pose proof (prune_chunks_incl (reasm v) t) as Hi.
  destruct (prune_chunks (reasm v) t) as [r size]. cbn [fst] in Hi.
  destruct IH as (E & Hok & Hk). fold (shstrs strs). rewrite E.
  destruct (prune_all strs t) as [l2 size2]. cbn [fst map] in *.
  split; [reflexivity|]. split; [|now rewrite Hk].
  constructor; [|exact Hok]. destruct Hv as [Hv1 Hv2]. split; cbn [snd reasm sseq_expected]; [eapply incl_cok; eauto|exact Hv2].
Qed.

Lemma sh_receive_forward_tsn ids s cum strs : wfst ids s -> Forall (fun p => in16 (snd p) /\ In (fst p) ids) strs ->
  receive_forward_tsn (shs s) cum (shl strs) =
    (shs (fst (receive_forward_tsn s cum strs)), snd (receive_forward_tsn s cum strs)) /\
  wfst ids (fst (receive_forward_tsn s cum strs)).
Proof.
  intros [Hok Hk] Hl. unfold receive_forward_tsn. cbn [shs last_rx misordered duplicates streams rwnd sack_needed].
  destruct (uint32_gte (last_rx s) cum); [cbn [fst snd]; split; [reflexivity|split; assumption]|].
  destruct (sh_fwd_streams ids strs (streams s) Hok Hk Hl) as (Ef & Hok2 & Hk2). rewrite Ef.
  destruct (fwd_streams (streams s) strs) as [strs2 ms]. cbn [fst] in Hok2, Hk2.
  destruct (sh_prune_all cum strs2 Hok2) as (Ep & Hok3 & Hk3). rewrite Ep.
  destruct (prune_all strs2 cum) as [strs3 pruned]. cbn [fst] in Hok3, Hk3. rewrite Hk2 in Hk3.
  destruct (sh_repop_streams ids strs strs3 Hok3 Hk3 Hl) as (Er & Hok4 & Hk4). rewrite Er.
  destruct (repop_streams strs3 strs) as [strs4 ms']. cbn [fst snd] in *.
  split; [reflexivity|split; assumption].
Qed.

Theorem sh_rstep ids s ev : wfst ids s -> ev_ok ids ev ->
  rstep (shs s) (shev ev) = (shs (fst (rstep s ev)), snd (rstep s ev)) /\ wfst ids (fst (rstep s ev)).
Proof.
  intros Hw He. destruct ev as [c|cum strs]; cbn [rstep shev ev_ok] in *.
  - destruct He as [Hc Hin]. destruct (sh_receive_data ids s c Hw Hc Hin) as [E Hw1]. rewrite E.
    destruct (receive_data s c) as [s1 ms|]; [|cbn [fst snd]; auto].
    unfold make_sack. cbn [fst snd shs last_rx misordered duplicates streams rwnd sack_needed]. split; [reflexivity|exact Hw1].
  - destruct (sh_receive_forward_tsn ids s cum strs Hw He) as [E Hw1]. rewrite E.
    destruct (receive_forward_tsn s cum strs) as [s1 ms]. cbn [fst snd] in *.
    unfold make_sack. cbn [fst snd shs last_rx misordered duplicates streams rwnd sack_needed]. split; [reflexivity|exact Hw1].
Qed.

(* Same deliveries, same SACKs, at every step: only the stream counters and the queued chunks'
   stream sequence numbers differ, by the shift. *)
Theorem receiver_ssn_shift_invariant ids : forall es s, wfst ids s -> Forall (ev_ok ids) es ->
  rrun (shs s) (map shev es) = (shs (fst (rrun s es)), snd (rrun s es)).
Proof.
  induction es as [|ev es IH]; intros s Hw Hes; [reflexivity|].
  inversion Hes as [|? ? He Hrest]; subst. cbn [map]. rewrite !rrun_cons.
  destruct (sh_rstep ids s ev Hw He) as [E Hw1]. rewrite E. cbn [fst snd].
  rewrite (IH _ Hw1 Hrest). reflexivity.
Qed.
End SsnShift.

(* a receiver whose streams `ids` exist and expect sequence number x *)
Definition rinit_ssn (last_received x : Z) (ids : list Z) : rstate :=
  mkR last_received [] [] (map (fun id => (id, mkStream [] x)) ids) 1048576 false.

Theorem ssn_origin_independent e base x ids es :
  in16 x -> Forall (ev_ok ids) es ->
  rrun (rinit_ssn base (sh16 e x) ids) (map (shev e) es) =
  (shs e (fst (rrun (rinit_ssn base x ids) es)), snd (rrun (rinit_ssn base x ids) es)).
Proof.
  intros Hx Hes.
  assert (E : rinit_ssn base (sh16 e x) ids = shs e (rinit_ssn base x ids)).
  { unfold rinit_ssn, shs, shstrs. cbn [last_rx misordered duplicates streams rwnd sack_needed]. f_equal.
    rewrite map_map. reflexivity. }
  rewrite E. apply (receiver_ssn_shift_invariant e ids); [|exact Hes].
  split; cbn [rinit_ssn streams].
  - apply Forall_forall. intros kv Hkv. apply in_map_iff in Hkv as (id & <- & _). split; [constructor|exact Hx].
  - rewrite map_map. cbn [fst]. apply map_id.
Qed.
