(* C06: abandonment takes whole messages, abandoned chunks are never transmitted. *)
From Coq Require Import ZArith List Bool Lia.
From AV Require Import Lib.Bytes Gen.Utils Gen.SctpConst Model.SctpTx Proof.SctpTxP.
Import ListNotations.
Local Open Scope Z_scope.

(* all chunks up to and including the first one satisfying P are abandoned (all of them if none does) *)
Fixpoint abandoned_until (P : sc -> bool) (l : list sc) : Prop :=
  match l with
  | [] => True
  | c :: l' => c_abandoned c = true /\ (P c = true \/ abandoned_until P l')
  end.

Fixpoint has (P : sc -> bool) (l : list sc) : bool :=
  match l with [] => false | c :: l' => P c || has P l' end.

Lemma abandon_chunk_flags fl c sib :
  let c' := snd (abandon_chunk fl c sib) in
  c_abandoned c' = true /\ c_first c' = c_first c /\ c_last c' = c_last c /\ c_tsn c' = c_tsn c /\ c_retx c' = false.
Proof. unfold abandon_chunk. cbn. auto. Qed.

Lemma mark_back_whole : forall pre fl, abandoned_until c_first (snd (mark_back fl pre)).
Proof.
  induction pre as [|c pre IH]; intros fl; cbn [mark_back]; [exact I|].
  destruct (abandon_chunk fl c true) as [fl1 c1] eqn:E.
  pose proof (abandon_chunk_flags fl c true) as H. rewrite E in H. cbn [snd] in H. destruct H as (A & F & _).
  destruct (c_first c) eqn:Ef.
  - cbn [snd abandoned_until]. split; [exact A|left; congruence].
  - specialize (IH fl1). destruct (mark_back fl1 pre) as [fl2 pre2]. cbn [snd abandoned_until] in *.
    split; [exact A|right; exact IH].
Qed.

Lemma mark_fwd_whole : forall post fl,
  let '(_, post', found) := mark_fwd fl post in
  abandoned_until c_last post' /\ found = has c_last post /\ (found = false -> Forall (fun c => c_abandoned c = true) post').
Proof.
  induction post as [|c post IH]; intros fl; cbn [mark_fwd has].
  - repeat split; auto; try (intros _; constructor).
  - destruct (abandon_chunk fl c true) as [fl1 c1] eqn:E.
    pose proof (abandon_chunk_flags fl c true) as H. rewrite E in H. cbn [snd] in H. destruct H as (A & _ & L & _).
    destruct (c_last c) eqn:El.
    + cbn [abandoned_until orb]. repeat split; auto; try discriminate; try (left; congruence).
    + specialize (IH fl1). destruct (mark_fwd fl1 post) as [[fl2 post2] found]. destruct IH as (I1 & I2 & I3).
      cbn [abandoned_until orb]. repeat split; auto; try (intros Hf; constructor; [exact A|now apply I3]).
Qed.

Lemma pull_unsent_whole : forall oq,
  let '(mv, rest) := pull_unsent oq in Forall (fun c => c_abandoned c = true) mv.
Proof.
  induction oq as [|c oq IH]; cbn [pull_unsent]; [constructor|].
  pose proof (abandon_chunk_flags 0 c false) as H. destruct H as (A & _).
  destruct (c_last c).
  - constructor; [exact A|constructor].
  - destruct (pull_unsent oq) as [mv rest]. constructor; [exact A|exact IH].
Qed.

Lemma abandoned_until_all P l : Forall (fun c => c_abandoned c = true) l -> abandoned_until P l.
Proof. induction 1 as [|c l Hc Hl IH]; cbn [abandoned_until]; auto. Qed.

(* _maybe_abandon abandons the whole message of the current chunk: back to its first
   fragment, forward to its last fragment, including fragments not yet sent *)
Theorem maybe_abandon_whole_message fl pre cur post oq now :
  c_abandoned cur = false -> should_abandon cur now = true ->
  let '(ab, _, pre', cur', post', oq') := maybe_abandon fl pre cur post oq now in
  ab = true /\ c_abandoned cur' = true /\ c_retx cur' = false /\
  (c_first cur = false -> abandoned_until c_first pre') /\
  (c_last cur = false ->
     abandoned_until c_last post' /\
     (has c_last post = false -> Forall (fun c => c_abandoned c = true) post')).
Proof.
  intros Hab Hsh. unfold maybe_abandon. rewrite Hab, Hsh. cbn [negb abandon_chunk andb].
  set (cur1 := set_flags cur (c_acked cur) true false (c_misses cur) (c_sent_count cur)).
  destruct (c_first cur) eqn:Ef.
  - destruct (c_last cur) eqn:El.
    + repeat split; auto; discriminate.
    + pose proof (mark_fwd_whole post fl) as Hf. destruct (mark_fwd fl post) as [[fl2 post2] found].
      destruct Hf as (F1 & F2 & F3).
      destruct found.
      * repeat split; auto; try discriminate; try (intros Hh; congruence).
      * pose proof (pull_unsent_whole oq) as Hu. destruct (pull_unsent oq) as [mv rest]. rename Hu into U1.
        repeat split; auto; try discriminate.
        -- apply abandoned_until_all. apply Forall_app. split; [now apply F3|exact U1].
        -- intros _. apply Forall_app. split; [now apply F3|exact U1].
  - pose proof (mark_back_whole pre fl) as Hb. destruct (mark_back fl pre) as [fl1 pre1]. cbn [snd] in Hb.
    destruct (c_last cur) eqn:El.
    + repeat split; auto; discriminate.
    + pose proof (mark_fwd_whole post fl1) as Hf. destruct (mark_fwd fl1 post) as [[fl2 post2] found].
      destruct Hf as (F1 & F2 & F3).
      destruct found.
      * repeat split; auto; try discriminate; try (intros Hh; congruence).
      * pose proof (pull_unsent_whole oq) as Hu. destruct (pull_unsent oq) as [mv rest]. rename Hu into U1.
        repeat split; auto; try discriminate.
        -- apply abandoned_until_all. apply Forall_app. split; [now apply F3|exact U1].
        -- intros _. apply Forall_app. split; [now apply F3|exact U1].
Qed.

(* ---------------------------------------------------------------- nothing abandoned is ever (re)sent *)
Definition sends_tsn (o : out) (t : Z) : Prop := match o with OData t' _ => t' = t | _ => False end.

Lemma retx_loop_sends : forall sq fl cw frt e t3r,
  let '(_, _, _, _, _, outs) := retx_loop sq fl cw frt e t3r in
  forall o, In o outs -> exists c, In c sq /\ sends_tsn o (c_tsn c) /\ c_retx c = true.
Proof.
  induction sq as [|c sq IH]; intros fl cw frt e t3r; cbn [retx_loop].
  - intros o [].
  - destruct (c_retx c) eqn:Er.
    + destruct (negb frt && (cw <=? fl)); [intros o []|].
      specialize (IH (fl + c_book c) cw false false (t3r || e)).
      destruct (retx_loop sq (fl + c_book c) cw false false (t3r || e)) as [[[[[a b] c0] d] f] outs].
      intros o [<-|Hin].
      * exists c. split; [now left|]. split; [reflexivity|exact Er].
      * destruct (IH o Hin) as (x & Hx & Hs & Hr). exists x. split; [now right|auto].
    + specialize (IH fl cw frt false t3r). destruct (retx_loop sq fl cw frt false t3r) as [[[[[a b] c0] d] f] outs].
      intros o Hin. destruct (IH o Hin) as (x & Hx & Hs & Hr). exists x. split; [now right|auto].
Qed.

Lemma new_loop_sends : forall oq fl cw,
  let '(_, _, _, outs) := new_loop oq fl cw in
  forall o, In o outs -> exists c, In c oq /\ sends_tsn o (c_tsn c).
Proof.
  induction oq as [|c oq IH]; intros fl cw; cbn [new_loop].
  - intros o [].
  - destruct (fl <? cw); [|intros o []].
    specialize (IH (fl + c_book c) cw). destruct (new_loop oq (fl + c_book c) cw) as [[[mv rest] fl2] outs].
    intros o [<-|Hin].
    + exists c. split; [now left|reflexivity].
    + destruct (IH o Hin) as (x & Hx & Hs). exists x. split; [now right|exact Hs].
Qed.

Theorem transmit_never_sends_abandoned s : inv s ->
  forall o t n, In o (snd (transmit s)) -> o = OData t n ->
  exists c, In c (sentq s ++ outq s) /\ c_tsn c = t /\ c_abandoned c = false.
Proof.
  intros Hinv o t n Hin ->. unfold transmit in Hin.
  destruct (match fwd_chunk s with Some (cum, strs) => ([OFwd cum strs], true) | None => ([], t3 s) end) as [fwd_out t3a] eqn:Ef.
  assert (Hfw : forall x, In x fwd_out -> forall a b, x <> OData a b).
  { destruct (fwd_chunk s) as [[cum strs]|]; injection Ef as <- _; intros x Hx a b; [destruct Hx as [<-|[]]; discriminate|destruct Hx]. }
  set (cw := Z.min _ (cwnd s)) in Hin.
  pose proof (retx_loop_sends (sentq s) (flight s) cw (fr_transmit s) true false) as Hr.
  destruct (retx_loop (sentq s) (flight s) cw (fr_transmit s) true false) as [[[[[sq fl] frt] t3r] stop] outs1].
  assert (Hsent : In (OData t n) outs1 -> exists c, In c (sentq s ++ outq s) /\ c_tsn c = t /\ c_abandoned c = false).
  { intros H. destruct (Hr _ H) as (c & Hc & Hs & Hx). cbn in Hs. exists c. split; [apply in_or_app; now left|].
    split; [now symmetry|]. pose proof (i_rs s Hinv) as R. rewrite Forall_forall in R. now apply (R c Hc). }
  destruct stop.
  - cbn [snd] in Hin. apply in_app_or in Hin as [H|H]; [exfalso; eapply Hfw; eauto|now apply Hsent].
  - pose proof (new_loop_sends (outq s) fl cw) as Hn.
    destruct (new_loop (outq s) fl cw) as [[[mv rest] fl2] outs2]. cbn [snd] in Hin.
    apply in_app_or in Hin as [H|H]; [exfalso; eapply Hfw; eauto|].
    apply in_app_or in H as [H|H]; [now apply Hsent|].
    destruct (Hn _ H) as (c & Hc & Hs). cbn in Hs. exists c. split; [apply in_or_app; now right|].
    split; [now symmetry|]. pose proof (i_fo s Hinv) as F. rewrite Forall_forall in F. now destruct (F c Hc) as (_ & A & _).
Qed.
