(* Proofs about Model/Rtp.v, part 4 (for property C05): unpack_header_extensions,
   HeaderExtensionsMap.get and RtpPacket.parse return a value or ValueError on EVERY
   byte string -- never another exception, never out of fuel. *)
From Coq Require Import ZArith List Bool Lia.
From AV Require Import Lib.Bytes Lib.BytesP Lib.RtpX Gen.RtpConst Model.Rtp Proof.RtpBitsP.
Import ListNotations.
Local Open Scope Z_scope.

Ltac Zify.zify_post_hook ::= Z.to_euclidean_division_equations.

Lemma u24_some l i : (i + 3 <= length l)%nat -> exists v, u24 l i = Some v.
Proof.
  intros H. unfold u24. destruct (u8_some l i) as [a ->]; [lia|].
  destruct (u16_some l (S i)) as [b ->]; [lia|]. eauto.
Qed.

Lemma unpack_one_total fuel : forall rest, (length rest < fuel)%nat -> benign (unpack_one fuel rest).
Proof.
  induction fuel as [|f IH]; intros rest Hf; [lia|].
  cbn [unpack_one]. destruct rest as [|b rest']; [exact I|]. cbn [length] in Hf.
  destruct (b =? 0); [apply IH; lia|].
  destruct (Z.ltb_spec (len rest') (Z.land b 15 + 1)); [exact I|].
  apply bind_benign; [apply IH; rewrite skipn_length; lia|intros; exact I].
Qed.

Lemma unpack_two_total fuel : forall rest, (length rest < fuel)%nat -> benign (unpack_two fuel rest).
Proof.
  induction fuel as [|f IH]; intros rest Hf; [lia|].
  cbn [unpack_two]. destruct rest as [|b rest']; [exact I|]. cbn [length] in Hf.
  destruct (b =? 0); [apply IH; lia|].
  destruct rest' as [|l rest'']; [exact I|]. cbn [length] in Hf.
  destruct (Z.ltb_spec (len rest'') l); [exact I|].
  apply bind_benign; [apply IH; rewrite skipn_length; lia|intros; exact I].
Qed.

Theorem unpack_header_extensions_total profile b :
  bytes_ok b -> benign (unpack_header_extensions profile b).
Proof.
  intros _. unfold unpack_header_extensions.
  destruct (profile =? 48862); [apply unpack_one_total; lia|].
  destruct (profile =? 4096); [apply unpack_two_total; lia|exact I].
Qed.

Lemma get_step_total m acc x : benign (get_step m acc x).
Proof.
  destruct x as [x_id x_value]. unfold get_step.
  destruct (ideq (id_mid m) x_id); [destruct (utf8_valid x_value); exact I|].
  destruct (ideq (id_rrid m) x_id); [destruct (ascii_valid x_value); exact I|].
  destruct (ideq (id_rid m) x_id); [destruct (ascii_valid x_value); exact I|].
  destruct (ideq (id_abs m) x_id && Nat.eqb (length x_value) 3) eqn:E1.
  { apply andb_true_iff in E1 as [_ E]. apply Nat.eqb_eq in E.
    destruct (u24_some x_value 0) as [v ->]; [lia|exact I]. }
  destruct (ideq (id_toffset m) x_id && Nat.eqb (length x_value) 3) eqn:E2.
  { apply andb_true_iff in E2 as [_ E]. apply Nat.eqb_eq in E.
    destruct (u24_some x_value 0) as [v ->]; [lia|exact I]. }
  destruct (ideq (id_audio m) x_id && Nat.eqb (length x_value) 1) eqn:E3.
  { apply andb_true_iff in E3 as [_ E]. apply Nat.eqb_eq in E.
    destruct (u8_some x_value 0) as [v ->]; [lia|exact I]. }
  destruct (ideq (id_tsn m) x_id && Nat.eqb (length x_value) 2) eqn:E4.
  { apply andb_true_iff in E4 as [_ E]. apply Nat.eqb_eq in E.
    destruct (u16_some x_value 0) as [v ->]; [lia|exact I]. }
  exact I.
Qed.

Lemma get_fold_total m xs : forall acc, benign (get_fold m acc xs).
Proof.
  induction xs as [|x xs IH]; intros acc; cbn [get_fold]; [exact I|].
  apply bind_benign; [apply get_step_total|intros acc' _; apply IH].
Qed.

Theorem hdrext_get_total m profile b : bytes_ok b -> benign (hext_get m profile b).
Proof.
  intros H. unfold hext_get. apply bind_benign; [now apply unpack_header_extensions_total|].
  intros xs _. apply get_fold_total.
Qed.

Lemma last_byte_some l : l <> [] -> exists v, last_byte l = Some v.
Proof.
  intros H. unfold last_byte. destruct l as [|a l']; [congruence|].
  destruct (nth_error (a :: l') (length (a :: l') - 1)) eqn:E; [eauto|].
  apply nth_error_None in E. cbn [length] in E. lia.
Qed.

Theorem rtp_parse_total m b : bytes_ok b -> benign (rtp_parse m b).
Proof.
  intros Hok. unfold rtp_parse.
  destruct (Nat.ltb (length b) 12) eqn:Hl; [exact I|]. apply Nat.ltb_ge in Hl.
  destruct (u8_some b 0) as [v Hv]; [lia|]. destruct (u8_some b 1) as [mpt Hm]; [lia|].
  destruct (u16_some b 2) as [seq Hs]; [lia|]. destruct (u32_some b 4) as [ts Ht]; [lia|].
  destruct (u32_some b 8) as [ss Hss]; [lia|]. rewrite Hv, Hm, Hs, Ht, Hss.
  apply u8_range in Hv; [|exact Hok].
  destruct (negb (Z.shiftr v 6 =? 2)); [exact I|].
  rewrite land_15.
  destruct (Z.ltb_spec (len b) (12 + v mod 16 * 4)) as [|Hcc]; [exact I|].
  destruct (u32s_some b 12 (Z.to_nat (v mod 16))) as [cs ->]; [unfold len in Hcc; lia|].
  apply bind_benign.
  - destruct (Z.land (Z.shiftr v 4) 1 =? 0); [exact I|].
    destruct (Nat.ltb (length b) (12 + 4 * Z.to_nat (v mod 16) + 4)) eqn:H4; [exact I|].
    apply Nat.ltb_ge in H4.
    destruct (u16_some b (12 + 4 * Z.to_nat (v mod 16))) as [pr ->]; [lia|].
    destruct (u16_some b (12 + 4 * Z.to_nat (v mod 16) + 2)) as [w ->]; [lia|].
    cbv zeta.
    destruct (Nat.ltb (length b) _); [exact I|].
    apply bind_benign; [apply hdrext_get_total; now apply bytes_ok_slice|intros; exact I].
  - intros [exts pos1] _. apply bind_benign; [|intros [pl ps] _; exact I].
    destruct (Z.land (Z.shiftr v 5) 1 =? 0); [exact I|].
    destruct (last_byte_some b) as [pl ->]; [destruct b; [cbn in Hl; lia|discriminate]|].
    destruct ((pl =? 0) || (len b - Z.of_nat pos1 <? pl)); exact I.
Qed.
