(* C02: every SCTP timer is armed with a delay between SCTP_RTO_MIN = 1 s and SCTP_RTO_MAX = 60 s,
   for EVERY history of round-trip measurements - negative ones (time.time() stepping back),
   zero, huge, infinite, NaN included.  Statement in terms of the primitive IEEE comparisons:
   the value is exactly 1, exactly 60, or a number r with 1 < r and not 60 < r. *)
From Coq Require Import PrimFloat List.
From AV Require Import Model.Rto.
Import ListNotations.
Local Open Scope float_scope.

Definition rto_ok (r : float) : Prop :=
  r = SCTP_RTO_MIN \/ r = SCTP_RTO_MAX \/ (PrimFloat.ltb SCTP_RTO_MIN r = true /\ PrimFloat.ltb SCTP_RTO_MAX r = false).

Lemma clamp_ok x : rto_ok (pymax SCTP_RTO_MIN (pymin x SCTP_RTO_MAX)).
Proof.
  unfold pymin. destruct (PrimFloat.ltb SCTP_RTO_MAX x) eqn:E1.
  - right. left. reflexivity.
  - unfold pymax. destruct (PrimFloat.ltb SCTP_RTO_MIN x) eqn:E2.
    + right. right. split; assumption.
    + left. reflexivity.
Qed.

Lemma update_rto_ok s R : rto_ok (rto (update_rto s R)).
Proof. unfold update_rto. destruct (srtt s); cbn [rto]; apply clamp_ok. Qed.

Lemma initial_ok : PrimFloat.ltb SCTP_RTO_MIN SCTP_RTO_INITIAL = true /\ PrimFloat.ltb SCTP_RTO_MAX SCTP_RTO_INITIAL = false.
Proof. split; reflexivity. Qed.

Theorem rto_always_bounded : forall rs s, Forall (fun s' => rto_ok (rto s')) (rto_run s rs).
Proof.
  induction rs as [|R rs IH]; intros s; cbn [rto_run]; constructor; [apply update_rto_ok|apply IH].
Qed.

Definition rto_example_statement : Prop :=
  map rto (rto_run rto_init [0x1p-2; 0x1.8p+1; 0x1.f4p+9; PrimFloat.opp 5]) = [1; 0x1.dcp+1; 60; 60].
Lemma rto_example : rto_example_statement.
Proof. vm_compute. reflexivity. Qed.
