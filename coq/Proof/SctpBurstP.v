(* Lemmas about Model/SctpWire.v, part 4: corrupted packets and the checksum.
   A valid packet altered by a burst of <= 32 bits (CRC bit order: least
   significant bit of each byte first) that does not touch the checksum field,
   or by any change confined to the checksum field, is rejected by
   parse_packet.  A burst that straddles a boundary of the field can be
   self-consistent: concrete witness. *)
From Coq Require Import ZArith List Bool Lia ZifyBool.
From AV Require Import Lib.Bytes Lib.BytesP Gen.SctpConst Model.Crc32c Model.SctpWire
  Proof.Crc32cP Proof.SctpWireP Proof.SctpWireRtP.
Import ListNotations.
Local Open Scope Z_scope.

Ltac Zify.zify_post_hook ::= Z.to_euclidean_division_equations.

(* ------------------------------------------------------------------ splitting a packet at the checksum field *)
Lemma skipn_skipn' {T} b : forall a (l : list T), skipn a (skipn b l) = skipn (b + a) l.
Proof.
  induction b as [|b IH]; intros a l; [reflexivity|].
  destruct l as [|x l]; [now rewrite !skipn_nil|]. cbn [skipn Nat.add]. apply IH.
Qed.

Lemma split_field d :
  (12 <= length d)%nat ->
  d = slice d 0 8 ++ slice d 8 12 ++ from d 12 /\
  length (slice d 0 8) = 8%nat /\ length (slice d 8 12) = 4%nat.
Proof.
  intros H. repeat split.
  - unfold slice, from. change (skipn 0 d) with d. change (8 - 0)%nat with 8%nat. change (12 - 8)%nat with 4%nat.
    rewrite <- (firstn_skipn 8 d) at 1. f_equal.
    rewrite <- (firstn_skipn 4 (skipn 8 d)) at 1. f_equal. now rewrite skipn_skipn'.
  - rewrite slice_length. lia.
  - rewrite slice_length. lia.
Qed.

Lemma checksum_input_length d : (12 <= length d)%nat -> length (checksum_input d) = length d.
Proof.
  intros H. unfold checksum_input. rewrite !app_length, slice_length. unfold from.
  rewrite skipn_length. cbn [length]. lia.
Qed.

Lemma slice_xor p e a b : slice (xor_bytes p e) a b = xor_bytes (slice p a b) (slice e a b).
Proof. unfold slice. now rewrite xor_bytes_skipn, xor_bytes_firstn. Qed.

Lemma checksum_input_xor p e :
  length e = length p ->
  checksum_input (xor_bytes p e) = xor_bytes (checksum_input p) (checksum_input e).
Proof.
  intros Hl. unfold checksum_input. rewrite slice_xor. unfold from. rewrite xor_bytes_skipn.
  rewrite xor_bytes_app by (rewrite !slice_length; lia).
  f_equal; reflexivity.
Qed.

Lemma checksum_input_field_zero e :
  (12 <= length e)%nat -> slice e 8 12 = [0; 0; 0; 0] -> checksum_input e = e.
Proof.
  intros Hl Hz. destruct (split_field e Hl) as (E & _ & _).
  rewrite Hz in E. unfold checksum_input. now rewrite <- E.
Qed.

Lemma checksum_okb_length p : checksum_okb p = true -> (12 <= length p)%nat.
Proof.
  unfold checksum_okb, u32le. intros H.
  destruct (u8 p 8); [|discriminate]. destruct (u8 p (1 + 8)); [|discriminate].
  destruct (u8 p (2 + 8)); [|discriminate]. destruct (u8 p (3 + 8)) eqn:E; [|discriminate].
  apply u8_lt in E. lia.
Qed.

Lemma u32le_field d : (12 <= length d)%nat -> u32le d 8 = u32le (slice d 8 12) 0.
Proof.
  intros H. destruct (split_field d H) as (E & L1 & L2).
  pose proof (u32le_app_r (slice d 0 8) (slice d 8 12 ++ from d 12) 0) as G.
  rewrite <- E, L1 in G. change (8 + 0)%nat with 8%nat in G. rewrite G.
  remember (slice d 8 12) as f. destruct f as [|a [|b [|c [|x [|y f]]]]]; cbn [length] in L2; try lia.
  reflexivity.
Qed.

(* ------------------------------------------------------------------ bursts outside the checksum field *)
Lemma burst_outside_rejected p e :
  length e = length p -> checksum_okb p = true ->
  slice e 8 12 = [0; 0; 0; 0] -> burst e ->
  parse_packet (xor_bytes p e) = ValueErr.
Proof.
  intros Hl Hok Hz Hb. apply parse_packet_bad_checksum.
  pose proof (checksum_okb_length p Hok) as Hp.
  unfold checksum_okb in *.
  assert (Lx : (12 <= length (xor_bytes p e))%nat) by (rewrite xor_bytes_length; lia).
  rewrite (u32le_field _ Lx), slice_xor, Hz. change [0; 0; 0; 0] with (zeros 4).
  rewrite (xor_bytes_zeros_r (slice p 8 12) 4) by (rewrite slice_length; lia).
  rewrite <- (u32le_field p Hp).
  destruct (u32le p 8) as [c|]; [|discriminate]. apply Z.eqb_eq in Hok. subst c.
  rewrite checksum_input_xor by exact Hl.
  rewrite (checksum_input_field_zero e) by (lia || exact Hz).
  apply Z.eqb_neq. intros H. symmetry in H. revert H.
  apply crc32c_burst; [|exact Hb]. rewrite checksum_input_length; lia.
Qed.

(* ------------------------------------------------------------------ changes inside the checksum field *)
Lemma lxor_byte a b : 0 <= a < 256 -> 0 <= b < 256 -> 0 <= Z.lxor a b < 256.
Proof.
  intros Ha Hb. assert (H0 : 0 <= Z.lxor a b) by (apply Z.lxor_nonneg; lia). split; [exact H0|].
  destruct (Z.eq_dec (Z.lxor a b) 0) as [E|E]; [lia|].
  change 256 with (2 ^ 8). apply Z.log2_lt_pow2; [lia|].
  eapply Z.le_lt_trans; [apply Z.log2_lxor; lia|].
  apply Z.max_lub_lt.
  - destruct (Z.eq_dec a 0) as [->|]; [reflexivity|]. apply Z.log2_lt_pow2; lia.
  - destruct (Z.eq_dec b 0) as [->|]; [reflexivity|]. apply Z.log2_lt_pow2; lia.
Qed.

Lemma lxor_fix a x : Z.lxor a x = a -> x = 0.
Proof.
  intros H. assert (E : Z.lxor a (Z.lxor a x) = Z.lxor a a) by now rewrite H.
  now rewrite <- Z.lxor_assoc, Z.lxor_nilpotent, Z.lxor_0_l in E.
Qed.

Lemma u32le_xor_changes f g :
  bytes_ok f -> bytes_ok g -> length f = 4%nat -> length g = 4%nat -> g <> [0; 0; 0; 0] ->
  u32le (xor_bytes f g) 0 <> u32le f 0.
Proof.
  intros Hf Hg Lf Lg Hne.
  destruct f as [|a [|b [|c [|d [|? f]]]]]; cbn [length] in Lf; try lia.
  destruct g as [|w [|x [|y [|z [|? g]]]]]; cbn [length] in Lg; try lia.
  repeat (apply bytes_ok_cons in Hf; destruct Hf as [? Hf]).
  repeat (apply bytes_ok_cons in Hg; destruct Hg as [? Hg]).
  unfold byte_ok in *. cbn [xor_bytes u32le u8 nth_error Nat.add]. intros Heq. injection Heq as Heq.
  pose proof (lxor_byte a w ltac:(lia) ltac:(lia)). pose proof (lxor_byte b x ltac:(lia) ltac:(lia)).
  pose proof (lxor_byte c y ltac:(lia) ltac:(lia)). pose proof (lxor_byte d z ltac:(lia) ltac:(lia)).
  assert (Z.lxor a w = a /\ Z.lxor b x = b /\ Z.lxor c y = c /\ Z.lxor d z = d) as (E1 & E2 & E3 & E4) by lia.
  apply lxor_fix in E1, E2, E3, E4. subst. now apply Hne.
Qed.

Lemma field_change_rejected p e :
  bytes_ok p -> bytes_ok e -> length e = length p -> checksum_okb p = true ->
  slice e 0 8 = zeros 8 -> from e 12 = zeros (length e - 12) -> slice e 8 12 <> [0; 0; 0; 0] ->
  parse_packet (xor_bytes p e) = ValueErr.
Proof.
  intros Hp He Hl Hok Z1 Z2 Hne. apply parse_packet_bad_checksum.
  pose proof (checksum_okb_length p Hok) as Lp.
  unfold checksum_okb in *.
  assert (Lx : (12 <= length (xor_bytes p e))%nat) by (rewrite xor_bytes_length; lia).
  rewrite (u32le_field _ Lx), slice_xor. rewrite (u32le_field p Lp) in Hok.
  destruct (split_field p Lp) as (_ & _ & L2). destruct (split_field e ltac:(lia)) as (_ & _ & L2e).
  pose proof (u32le_xor_changes (slice p 8 12) (slice e 8 12) (bytes_ok_slice _ _ _ Hp)
                (bytes_ok_slice _ _ _ He) L2 L2e Hne) as Hch.
  destruct (u32le (slice p 8 12) 0) as [c|]; [|discriminate]. apply Z.eqb_eq in Hok.
  rewrite checksum_input_xor by exact Hl.
  assert (Ez : checksum_input e = zeros (length (checksum_input p))).
  { unfold checksum_input at 1. rewrite Z1, Z2. rewrite checksum_input_length by exact Lp.
    unfold zeros. change [0; 0; 0; 0] with (repeat 0 4). rewrite <- !repeat_app. f_equal. lia. }
  rewrite Ez, xor_bytes_zeros_r by lia. rewrite <- Hok.
  destruct (u32le (xor_bytes (slice p 8 12) (slice e 8 12)) 0) as [c'|]; [|reflexivity].
  apply Z.eqb_neq. intros ->. now apply Hch.
Qed.

(* ------------------------------------------------------------------ bit positions: the window form *)
Lemma bits_z_z_bits n : forall x, 0 <= x -> bits_z (z_bits n x) = x mod 2 ^ Z.of_nat n.
Proof.
  induction n as [|n IH]; intros x Hx; [cbn [z_bits bits_z]; now rewrite Z.mod_1_r|].
  cbn [z_bits bits_z]. rewrite IH by (apply Z.div_pos; lia).
  rewrite Nat2Z.inj_succ, Z.pow_succ_r by lia.
  rewrite (Z.rem_mul_r x 2 (2 ^ Z.of_nat n)) by lia.
  rewrite <- Z.bit0_odd, Z.bit0_mod. lia.
Qed.

Lemma bits_z_false n : bits_z (repeat false n) = 0.
Proof. induction n as [|n IH]; [reflexivity|]. cbn [repeat bits_z Z.b2z]. lia. Qed.

Lemma byte_bits_false_inv x : 0 <= x < 256 -> byte_bits x = repeat false 8 -> x = 0.
Proof.
  intros Hx H. apply (f_equal bits_z) in H. unfold byte_bits in H.
  rewrite bits_z_z_bits, bits_z_false in H by lia. change (2 ^ Z.of_nat 8) with 256 in H. lia.
Qed.

Lemma app_inj_len {T} (a : list T) : forall b c d,
  length a = length c -> a ++ b = c ++ d -> a = c /\ b = d.
Proof.
  induction a as [|x a IH]; intros b [|y c] d Hl H; cbn [length] in Hl; try discriminate.
  - now split.
  - cbn [app] in H. injection H as -> H. destruct (IH b c d ltac:(lia) H) as [-> ->]. now split.
Qed.

Lemma bytes_bits_false_inv l : bytes_ok l -> bytes_bits l = repeat false (8 * length l) -> l = zeros (length l).
Proof.
  induction l as [|x l IH]; intros Hok H; [reflexivity|].
  apply bytes_ok_cons in Hok. destruct Hok as [Hx Hl].
  unfold bytes_bits in *. cbn [flat_map length] in H.
  replace (8 * S (length l))%nat with (8 + 8 * length l)%nat in H by lia.
  rewrite repeat_app in H. apply app_inj_len in H.
  - destruct H as [H1 H2]. unfold zeros. cbn [length repeat]. f_equal.
    + now apply byte_bits_false_inv.
    + now apply IH.
  - now rewrite byte_bits_length, repeat_length.
Qed.

Lemma skipn_repeat {T} (x : T) n : forall k, skipn n (repeat x k) = repeat x (k - n).
Proof.
  induction n as [|n IH]; intros k; [now rewrite Nat.sub_0_r|].
  destruct k as [|k]; [reflexivity|]. cbn [repeat skipn Nat.sub]. apply IH.
Qed.
Lemma firstn_repeat {T} (x : T) n : forall k, firstn n (repeat x k) = repeat x (Nat.min n k).
Proof.
  induction n as [|n IH]; intros k; [reflexivity|].
  destruct k as [|k]; [reflexivity|]. cbn [repeat firstn Nat.min]. f_equal. apply IH.
Qed.

Lemma firstn_app_exact {T} (a b : list T) n : length a = n -> firstn n (a ++ b) = a.
Proof. intros <-. now rewrite firstn_app, firstn_all, Nat.sub_diag, app_nil_r. Qed.
Lemma skipn_app_exact {T} (a b : list T) n : length a = n -> skipn n (a ++ b) = b.
Proof. intros <-. now rewrite skipn_app, skipn_all, Nat.sub_diag. Qed.

(* the 32 bits of the checksum field / the bits before / the bits after, in terms of the packet's bit string *)
Lemma field_bits e :
  (12 <= length e)%nat ->
  bytes_bits (slice e 0 8) = firstn 64 (bytes_bits e) /\
  bytes_bits (slice e 8 12) = firstn 32 (skipn 64 (bytes_bits e)) /\
  bytes_bits (from e 12) = skipn 96 (bytes_bits e).
Proof.
  intros H. destruct (split_field e H) as (E & L1 & L2).
  assert (B1 : length (bytes_bits (slice e 0 8)) = 64%nat) by (rewrite bytes_bits_length, L1; reflexivity).
  assert (B2 : length (bytes_bits (slice e 8 12)) = 32%nat) by (rewrite bytes_bits_length, L2; reflexivity).
  rewrite E at 2 4 6. rewrite !bytes_bits_app. repeat split.
  - symmetry. now apply firstn_app_exact.
  - rewrite (skipn_app_exact _ _ 64 B1). symmetry. now apply firstn_app_exact.
  - rewrite app_assoc. symmetry. apply skipn_app_exact. rewrite app_length, B1, B2. reflexivity.
Qed.

Lemma window_outside_field_zero e k w m :
  bytes_ok e -> (12 <= length e)%nat ->
  bytes_bits e = repeat false k ++ w ++ repeat false m ->
  (k + length w <= 64 \/ 96 <= k)%nat ->
  slice e 8 12 = [0; 0; 0; 0].
Proof.
  intros Hok Hl Hb Hpos. destruct (field_bits e Hl) as (_ & F2 & _).
  destruct (split_field e Hl) as (_ & _ & L2).
  assert (Ltot : (k + length w + m = 8 * length e)%nat).
  { apply (f_equal (@length bool)) in Hb. rewrite bytes_bits_length, !app_length, !repeat_length in Hb. lia. }
  assert (Z : bytes_bits (slice e 8 12) = repeat false (8 * length (slice e 8 12))).
  { rewrite F2, Hb, L2. destruct Hpos as [Hpos|Hpos].
    - rewrite app_assoc, skipn_app, skipn_all2 by (rewrite app_length, repeat_length; lia).
      cbn [app]. rewrite app_length, repeat_length, skipn_repeat, firstn_repeat. f_equal. lia.
    - rewrite skipn_app, skipn_repeat, repeat_length.
      replace (64 - k)%nat with 0%nat by lia. cbn [skipn].
      rewrite firstn_app, firstn_repeat, repeat_length.
      replace (32 - (k - 64))%nat with 0%nat by lia. cbn [firstn]. rewrite app_nil_r. f_equal. lia. }
  apply bytes_bits_false_inv in Z; [|now apply bytes_ok_slice]. rewrite L2 in Z. exact Z.
Qed.

(* C08_burst_detected, window entirely outside the checksum field *)
Lemma burst_window_outside_rejected p e k w m :
  bytes_ok e -> length e = length p -> checksum_okb p = true ->
  bytes_bits e = repeat false k ++ w ++ repeat false m -> (length w <= 32)%nat -> In true w ->
  (k + length w <= 64 \/ 96 <= k)%nat ->
  parse_packet (xor_bytes p e) = ValueErr.
Proof.
  intros Hok Hl Hc Hb Hw Hin Hpos. pose proof (checksum_okb_length p Hc) as Lp.
  apply burst_outside_rejected; [exact Hl|exact Hc| |].
  - apply (window_outside_field_zero e k w m); (assumption || lia).
  - exists k, w, m. auto.
Qed.

(* ... and window entirely inside it *)
Lemma burst_window_inside_rejected p e k w m :
  bytes_ok p -> bytes_ok e -> length e = length p -> checksum_okb p = true ->
  bytes_bits e = repeat false k ++ w ++ repeat false m -> In true w ->
  (64 <= k /\ k + length w <= 96)%nat ->
  parse_packet (xor_bytes p e) = ValueErr.
Proof.
  intros Hp Hok Hl Hc Hb Hin [Hk1 Hk2]. pose proof (checksum_okb_length p Hc) as Lp.
  assert (Le : (12 <= length e)%nat) by lia.
  destruct (field_bits e Le) as (F1 & F2 & F3).
  destruct (split_field e Le) as (E & L1 & L2).
  assert (Ltot : (k + length w + m = 8 * length e)%nat).
  { apply (f_equal (@length bool)) in Hb. rewrite bytes_bits_length, !app_length, !repeat_length in Hb. lia. }
  assert (L3 : length (from e 12) = (length e - 12)%nat) by (unfold from; apply skipn_length).
  assert (Z1 : slice e 0 8 = zeros 8).
  { assert (Z : bytes_bits (slice e 0 8) = repeat false (8 * length (slice e 0 8))).
    { rewrite F1, Hb, L1, firstn_app, firstn_repeat, repeat_length.
      replace (64 - k)%nat with 0%nat by lia. cbn [firstn]. rewrite app_nil_r. f_equal. lia. }
    apply bytes_bits_false_inv in Z; [|now apply bytes_ok_slice]. rewrite L1 in Z. exact Z. }
  assert (Z3 : from e 12 = zeros (length e - 12)).
  { assert (Z : bytes_bits (from e 12) = repeat false (8 * length (from e 12))).
    { rewrite F3, Hb, L3, app_assoc, skipn_app, skipn_all2 by (rewrite app_length, repeat_length; lia).
      cbn [app]. rewrite app_length, repeat_length, skipn_repeat. f_equal. lia. }
    apply bytes_bits_false_inv in Z; [|now apply bytes_ok_skipn]. rewrite L3 in Z. exact Z. }
  apply field_change_rejected; try assumption.
  intros Z2. rewrite E, Z1, Z2, Z3 in Hb. change [0; 0; 0; 0] with (zeros 4) in Hb.
  rewrite !bytes_bits_app, !bytes_bits_zeros, <- !repeat_app in Hb.
  assert (Hin' : In true (repeat false k ++ w ++ repeat false m)) by (apply in_or_app; right; apply in_or_app; now left).
  rewrite <- Hb in Hin'. apply repeat_spec in Hin'. discriminate.
Qed.

(* ------------------------------------------------------------------ K6: a straddling burst that is accepted *)
Definition k6_packet : bytes := [19; 136; 19; 136; 0; 0; 0; 1; 200; 249; 200; 205; 11; 0; 0; 4].
Definition k6_error : bytes := [0; 0; 0; 0; 0; 0; 128; 84; 69; 3; 25; 0; 0; 0; 0; 0].
Definition k6_window : bits := skipn 55 (firstn 85 (bytes_bits k6_error)).

(* the statement of burst_window_outside_rejected without its hypothesis on the position of the
   window is false: a valid COOKIE-ACK packet, a non-zero error pattern confined to the 30 bits
   55..84 (9 bits of the verification tag, 21 bits of the checksum), accepted by parse_packet *)
Lemma burst_straddling_witness :
  bytes_ok k6_packet /\ bytes_ok k6_error /\ length k6_error = length k6_packet /\
  checksum_okb k6_packet = true /\
  bytes_bits k6_error = repeat false 55 ++ k6_window ++ repeat false 43 /\
  (length k6_window <= 32)%nat /\ In true k6_window /\
  parse_packet (xor_bytes k6_packet k6_error) = Ok (5000, 5000, 32853, [CPlain 11 0 []]).
Proof.
  split; [apply bytes_okb_ok; reflexivity|]. split; [apply bytes_okb_ok; reflexivity|].
  split; [reflexivity|]. split; [vm_compute; reflexivity|]. split; [vm_compute; reflexivity|].
  split; [vm_compute; lia|]. split; [vm_compute; tauto|]. vm_compute. reflexivity.
Qed.
