(* C13: automatically chosen ids of the two sides never collide.  _data_channel_id (0 at the
   DTLS server, 1 at the DTLS client) never changes, every automatically chosen id is picked by
   flush_loop starting from it in steps of 2, so it keeps the endpoint's parity: two endpoints
   of opposite parity can never choose the same id, whatever each has done so far. *)
From Coq Require Import ZArith List Bool Lia ZifyBool.
From AV Require Import Lib.Bytes Gen.Utils Gen.SctpConst Model.Chan Proof.ChanP Proof.ChanBufP.
Import ListNotations.
Local Open Scope Z_scope.

Ltac Zify.zify_post_hook ::= Z.to_euclidean_division_equations.

Lemma dc_set_ready s h r : dc_id (fst (set_ready s h r)) = dc_id s.
Proof. unfold set_ready. destruct (rstate_eqb _ _); reflexivity. Qed.
Lemma dc_add_buffered s h n : dc_id (fst (add_buffered s h n)) = dc_id s.
Proof. reflexivity. Qed.

Lemma dc_flush_loop : forall fuel s oracle, dc_id (fst (flush_loop fuel s oracle)) = dc_id s.
Proof.
  induction fuel as [|f IH]; intros s oracle; [reflexivity|]. cbn [flush_loop].
  destruct (queue s) as [|[[h pp] data] q']; [reflexivity|].
  set (s1 := set_queue s q').
  set (pr := match ch_id (getc s1 h) with Some i => (s1, i) | None => _ end).
  assert (E : dc_id (fst pr) = dc_id s) by (unfold pr; destruct (ch_id (getc s1 h)); reflexivity).
  rewrite (surjective_pairing pr). cbv iota beta.
  destruct (Z.eqb pp WEBRTC_DCEP).
  - destruct (match oracle with b :: _ => b | [] => false end); [exact E|].
    rewrite (surjective_pairing (flush_loop f (fst pr) (tl oracle))). cbn [fst]. now rewrite IH.
  - rewrite (surjective_pairing (add_buffered (fst pr) h (- len data))). cbv iota beta.
    destruct (match oracle with b :: _ => b | [] => false end); [cbn [fst]; exact E|].
    rewrite (surjective_pairing (flush_loop f _ (tl oracle))). cbn [fst]. rewrite IH. exact E.
Qed.

Lemma dc_flush s oracle : dc_id (fst (flush s oracle)) = dc_id s.
Proof. unfold flush. destruct (_ && _); [apply dc_flush_loop|reflexivity]. Qed.

Lemma dc_create s neg id ordered maxrt maxlt label proto : dc_id (fst (create s neg id ordered maxrt maxlt label proto)) = dc_id s.
Proof.
  unfold create. destruct (match id with Some i => _ | None => false end); [reflexivity|].
  unfold add_chan. cbv iota beta.
  set (s1 := mkSt (established s) (dc_id s) (chans s ++ [_]) (table s) (queue s) (rq_queue s) (rq_request s) (rq_req_seq s) (rq_resp_seq s)).
  set (s2 := match id with Some i => set_table s1 (tset (table s1) i (length (chans s))) | None => s1 end).
  assert (E : dc_id s2 = dc_id s) by (unfold s2; destruct id; reflexivity).
  destruct neg; [|exact E]. destruct (established s2); [rewrite dc_set_ready; exact E|exact E].
Qed.

Lemma dc_app_send s h pp data : dc_id (fst (app_send s h pp data)) = dc_id s.
Proof. unfold app_send. destruct (negb _); reflexivity. Qed.

Lemma dc_chan_closed s i : dc_id (fst (chan_closed s i)) = dc_id s.
Proof. unfold chan_closed. destruct (tget (table s) i); [now rewrite dc_set_ready|reflexivity]. Qed.

Lemma dc_close_local s h id : dc_id (fst (close_local s h id)) = dc_id s.
Proof.
  unfold close_local. destruct id as [i|]; [|now rewrite dc_set_ready].
  destruct (tget _ i); [now rewrite dc_set_ready|reflexivity].
Qed.

Lemma dc_close_body s h hs : dc_id (fst (close_body s h hs)) = dc_id s.
Proof.
  unfold close_body. rewrite (surjective_pairing (set_ready s h Closing)).
  pose proof (dc_set_ready s h Closing) as E. set (s1 := fst (set_ready s h Closing)) in *.
  destruct (established s1 || hs); destruct (ch_id (getc s h)) as [i|].
  - exact E.
  - rewrite (surjective_pairing (close_local s1 h None)). cbn [fst]. now rewrite dc_close_local.
  - rewrite (surjective_pairing (close_local s1 h (Some i))). cbn [fst]. now rewrite dc_close_local.
  - rewrite (surjective_pairing (close_local s1 h None)). cbn [fst]. now rewrite dc_close_local.
Qed.

Lemma dc_chan_close s h hs : dc_id (fst (chan_close s h hs)) = dc_id s.
Proof. unfold chan_close. destruct (ch_state _); try reflexivity; apply dc_close_body. Qed.

Lemma dc_transmit_reconfig s : dc_id (fst (transmit_reconfig s)) = dc_id s.
Proof. unfold transmit_reconfig. destruct (rq_request s); [reflexivity|]. destruct (_ && _); reflexivity. Qed.

Lemma dc_reset_streams : forall strs s, dc_id (fst (reset_streams s strs)) = dc_id s.
Proof.
  induction strs as [|i strs IH]; intros s; [reflexivity|]. cbn [reset_streams].
  set (p := match tget (table s) i with Some h => chan_close s h false | None => (s, []) end).
  assert (E : dc_id (fst p) = dc_id s) by (unfold p; destruct (tget (table s) i); [apply dc_chan_close|reflexivity]).
  rewrite (surjective_pairing p). rewrite (surjective_pairing (reset_streams (fst p) strs)). cbn [fst]. now rewrite IH.
Qed.

Lemma dc_closed_streams : forall strs s, dc_id (fst (closed_streams s strs)) = dc_id s.
Proof.
  induction strs as [|i strs IH]; intros s; [reflexivity|]. cbn [closed_streams].
  rewrite (surjective_pairing (chan_closed s i)). rewrite (surjective_pairing (closed_streams (fst (chan_closed s i)) strs)). cbn [fst].
  now rewrite IH, dc_chan_closed.
Qed.

Lemma dc_open_negotiated : forall t s, dc_id (fst (open_negotiated s t)) = dc_id s.
Proof.
  induction t as [|[k h] t IH]; intros s; [reflexivity|]. cbn [open_negotiated].
  set (p := if _ && _ then set_ready s h Open else (s, [])).
  assert (E : dc_id (fst p) = dc_id s) by (unfold p; destruct (_ && _); [apply dc_set_ready|reflexivity]).
  rewrite (surjective_pairing p). rewrite (surjective_pairing (open_negotiated (fst p) t)). cbn [fst]. now rewrite IH.
Qed.

Lemma dc_close_queued : forall q s, dc_id (fst (close_queued s q)) = dc_id s.
Proof.
  induction q as [|[[h pp] d] q IH]; intros s; [reflexivity|]. cbn [close_queued].
  rewrite (surjective_pairing (set_ready s h Closed)). rewrite (surjective_pairing (close_queued (fst (set_ready s h Closed)) q)). cbn [fst].
  now rewrite IH, dc_set_ready.
Qed.

Lemma dc_step s i : dc_id (fst (step s i)) = dc_id s.
Proof.
  destruct i; cbn [step].
  - apply dc_create.
  - destruct (Nat.ltb _ _); [apply dc_app_send|reflexivity].
  - destruct (Nat.ltb _ _); [apply dc_chan_close|reflexivity].
  - destruct (Nat.ltb _ _); reflexivity.
  - apply dc_flush.
  - apply dc_transmit_reconfig.
  - unfold set_established. rewrite (surjective_pairing (open_negotiated _ _)). cbn [fst]. now rewrite dc_open_negotiated.
  - unfold set_closed. rewrite (surjective_pairing (closed_streams _ _)). cbv iota beta.
    rewrite (surjective_pairing (close_queued _ _)). cbn [fst set_queue dc_id]. now rewrite dc_close_queued, dc_closed_streams.
  - destruct (Z.eqb pp WEBRTC_DCEP).
    + unfold recv_dcep. destruct data as [|m data']; [reflexivity|].
      destruct (_ && _).
      * destruct (tget (table s) sid); [reflexivity|]. destruct (dcep_parse_open _) as [p|]; [|reflexivity].
        destruct text_ok; cbn [negb]; [|reflexivity]. unfold add_chan. cbv iota beta.
        rewrite (surjective_pairing (set_ready _ _ Open)). cbv iota beta.
        rewrite (surjective_pairing (flush _ oracle)). cbn [fst]. rewrite dc_flush. cbn [set_queue set_table dc_id]. now rewrite dc_set_ready.
      * destruct (Z.eqb m DATA_CHANNEL_ACK); [|reflexivity]. destruct (tget (table s) sid); [|reflexivity].
        destruct (rstate_eqb _ _); [apply dc_set_ready|reflexivity].
    + unfold recv_user. destruct (tget (table s) sid); [|reflexivity].
      destruct (Z.eqb pp WEBRTC_STRING); [reflexivity|]. destruct (Z.eqb pp WEBRTC_STRING_EMPTY); [reflexivity|].
      destruct (Z.eqb pp WEBRTC_BINARY); [reflexivity|]. destruct (Z.eqb pp WEBRTC_BINARY_EMPTY); reflexivity.
  - destruct (established s); [|reflexivity]. unfold recv_reset_request.
    rewrite (surjective_pairing (reset_streams s strs)). cbn [fst dc_id]. apply dc_reset_streams.
  - destruct (established s); [|reflexivity]. unfold recv_reset_response.
    destruct (rq_request s) as [[rs strs]|]; [|reflexivity]. destruct (Z.eqb seq rs); [|reflexivity].
    rewrite (surjective_pairing (closed_streams s strs)). cbv iota beta.
    rewrite (surjective_pairing (transmit_reconfig _)). cbn [fst]. rewrite dc_transmit_reconfig. cbn [dc_id]. apply dc_closed_streams.
  - reflexivity.
Qed.

Lemma dc_run : forall is s, dc_id (fst (run s is)) = dc_id s.
Proof.
  induction is as [|i is IH]; intros s; [reflexivity|]. cbn [run].
  rewrite (surjective_pairing (step s i)). rewrite (surjective_pairing (run (fst (step s i)) is)). cbn [fst].
  now rewrite IH, dc_step.
Qed.

(* the id flush_loop assigns to a channel that has none, in state s *)
Definition auto_pick (s : st) : Z := pick_id (S (length (table s))) (table s) (dc_id s).

Theorem two_sides_never_collide roleA roleB seqA seqB isA isB :
  (roleA - roleB) mod 2 = 1 ->
  let sA := fst (run (init roleA seqA) isA) in
  let sB := fst (run (init roleB seqB) isB) in
  auto_pick sA <> auto_pick sB /\
  (auto_pick sA - roleA) mod 2 = 0 /\ (auto_pick sB - roleB) mod 2 = 0.
Proof.
  intros Hp sA sB. unfold auto_pick.
  destruct (auto_id_fresh (table sA) (dc_id sA)) as (_ & PA & _).
  destruct (auto_id_fresh (table sB) (dc_id sB)) as (_ & PB & _).
  assert (EA : dc_id sA = roleA) by (unfold sA; rewrite dc_run; reflexivity).
  assert (EB : dc_id sB = roleB) by (unfold sB; rewrite dc_run; reflexivity).
  rewrite EA in *. rewrite EB in *. cbv zeta in PA, PB. lia.
Qed.
