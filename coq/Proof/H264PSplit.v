(* H264Encoder._split_bitstream inverts joining NAL units with 3- or 4-byte
   start codes, for units that contain no 00 00 01 and do not end in 00
   (what emulation prevention guarantees).  T+ part of C16. *)
From Coq Require Import ZArith List Bool Lia.
From AV Require Import Lib.Bytes Lib.BytesP Lib.CodecX Lib.CodecXP Model.H264.
Import ListNotations.
Local Open Scope Z_scope.

(* (true, n) = unit n preceded by the 4-byte start code, (false, n) = by the 3-byte one *)
Definition join (units : list (bool * bytes)%type) : bytes :=
  concat (map (fun u : (bool * bytes)%type => (if fst u then [0; 0; 0; 1] else [0; 0; 1]) ++ snd u) units).

Fixpoint no_sc (l : bytes) : bool :=
  match l with
  | [] => true
  | _ :: tl => negb (starts_sc l) && no_sc tl
  end.

(* no 00 00 01 inside, non-empty, last byte not 00 *)
Definition clean_unit (n : bytes) : Prop := no_sc n = true /\ last n 0 <> 0.

Lemma clean_tail x n' : n' <> [] -> clean_unit (x :: n') -> clean_unit n'.
Proof.
  intros Hne [H1 H2]. cbn [no_sc] in H1. apply andb_true_iff in H1. split; [tauto|].
  destruct n' as [|y n'']; [congruence|]. exact H2.
Qed.

(* no start code begins inside a clean unit, whatever follows it *)
Lemma nomatch : forall n tail, clean_unit n ->
  forall i, (i < length n)%nat -> starts_sc (skipn i (n ++ tail)) = false.
Proof.
  induction n as [|x n' IH]; intros tail Hc i Hi; [cbn in Hi; lia|].
  destruct i as [|i'].
  - cbn [skipn]. destruct Hc as [H1 H2]. cbn [no_sc] in H1. apply andb_true_iff in H1. destruct H1 as [H1 _].
    apply negb_true_iff in H1.
    destruct n' as [|y [|z n'']].
    + cbn [last] in H2. cbn [app]. destruct tail as [|b [|c t]]; cbn [starts_sc]; try reflexivity.
      apply Z.eqb_neq in H2. now rewrite H2.
    + cbn [last] in H2. cbn [app]. destruct tail as [|c t]; cbn [starts_sc]; try reflexivity.
      apply Z.eqb_neq in H2. rewrite H2. now rewrite andb_false_r.
    + cbn [app starts_sc] in *. exact H1.
  - cbn [app skipn]. cbn [length] in Hi. apply IH; [|lia].
    apply (clean_tail x); [destruct n'; [cbn in Hi; lia | discriminate] | exact Hc].
Qed.

Lemma find_from_skip : forall n tail idx,
  (forall i, (i < length n)%nat -> starts_sc (skipn i (n ++ tail)) = false) ->
  find_from (n ++ tail) idx = find_from tail (idx + len n).
Proof.
  induction n as [|x n' IH]; intros tail idx H.
  - cbn [app]. f_equal. change (len []) with 0. lia.
  - cbn [app find_from]. pose proof (H 0%nat ltac:(cbn [length]; lia)) as H0. cbn [skipn app] in H0.
    rewrite H0. rewrite IH.
    + f_equal. rewrite len_cons. lia.
    + intros i Hi. apply (H (S i)). cbn [length]. lia.
Qed.

Lemma find_sc_at pre tail : find_sc (pre ++ tail) (len pre) = find_from tail (len pre).
Proof.
  unfold find_sc. rewrite (proj2 (Z.ltb_ge _ _)) by (rewrite len_app; pose proof (len_nonneg tail); lia).
  replace (Z.to_nat (len pre)) with (length pre) by (unfold len; lia).
  rewrite skipn_app, skipn_all, Nat.sub_diag. reflexivity.
Qed.

Lemma find_from_sc3 tl idx : find_from (0 :: 0 :: 1 :: tl) idx = Some idx.
Proof. reflexivity. Qed.
Lemma find_from_sc4 tl idx : find_from (0 :: 0 :: 0 :: 1 :: tl) idx = Some (idx + 1).
Proof. reflexivity. Qed.

Lemma u8_mid pre x post : u8 (pre ++ x :: post) (length pre) = Some x.
Proof. rewrite <- (Nat.add_0_r (length pre)), u8_app_r. reflexivity. Qed.

Lemma join_cons b n rest :
  join ((b, n) :: rest) = (if b then [0] else []) ++ [0; 0; 1] ++ n ++ join rest.
Proof. unfold join. cbn [map concat fst snd]. destruct b; cbn [app]; now rewrite <- ?app_assoc. Qed.

(* loop invariant: i points at (or, for a 4-byte code, one before) the start code
   of unit n; the loop yields n and then the remaining units *)
Lemma split_loop_inv : forall rest fuel pre z n,
  (z = [] \/ z = [0]) -> clean_unit n -> Forall clean_unit (map snd rest) -> (length rest < fuel)%nat ->
  split_loop fuel (pre ++ z ++ [0; 0; 1] ++ n ++ join rest) (len pre) = Ok (n :: map snd rest).
Proof.
  induction rest as [|[b n2] rest IH]; intros fuel pre z n Hz Hn Hrest Hfuel;
    (destruct fuel as [|f]; [lia|]); cbn [split_loop].
  - (* last unit *)
    rewrite find_sc_at.
    assert (H1 : find_from (z ++ [0; 0; 1] ++ n ++ join []) (len pre) = Some (len pre + len z)).
    { destruct Hz as [-> | ->]; cbn [app];
        [rewrite find_from_sc3; change (len []) with 0 | rewrite find_from_sc4; change (len [0]) with 1];
        f_equal; lia. }
    rewrite H1.
    set (P := pre ++ z ++ [0; 0; 1]).
    assert (HP : len P = len pre + len z + 3) by (unfold P; rewrite !len_app; change (len [0; 0; 1]) with 3; lia).
    replace (pre ++ z ++ [0; 0; 1] ++ n ++ join []) with (P ++ n ++ join [])
      by (unfold P; now rewrite <- !app_assoc).
    rewrite <- HP. rewrite find_sc_at.
    rewrite (find_from_skip n (join []) (len P) (nomatch n (join []) Hn)).
    change (join []) with (@nil Z). cbn [find_from].
    replace (len (P ++ n ++ [])) with (len P + len n) by (rewrite !len_app; change (len []) with 0; lia).
    rewrite pyslice_app_mid. reflexivity.
  - (* a unit followed by another start code *)
    rewrite find_sc_at.
    assert (H1 : find_from (z ++ [0; 0; 1] ++ n ++ join ((b, n2) :: rest)) (len pre) = Some (len pre + len z)).
    { destruct Hz as [-> | ->]; cbn [app];
        [rewrite find_from_sc3; change (len []) with 0 | rewrite find_from_sc4; change (len [0]) with 1];
        f_equal; lia. }
    rewrite H1.
    set (P := pre ++ z ++ [0; 0; 1]).
    assert (HP : len P = len pre + len z + 3) by (unfold P; rewrite !len_app; change (len [0; 0; 1]) with 3; lia).
    set (J := join ((b, n2) :: rest)).
    replace (pre ++ z ++ [0; 0; 1] ++ n ++ J) with (P ++ n ++ J) by (unfold P; now rewrite <- !app_assoc).
    rewrite <- HP. rewrite find_sc_at.
    rewrite (find_from_skip n J (len P) (nomatch n J Hn)).
    cbn [map snd] in Hrest. inversion Hrest as [|? ? Hn2 Hrest']; subst.
    unfold J. rewrite join_cons.
    destruct b; cbn [app].
    + (* 4-byte start code: found one byte late, buf[i-1] = 0 *)
      rewrite find_from_sc4.
      rewrite pyidx_nonneg by (pose proof (len_nonneg P); pose proof (len_nonneg n); lia).
      replace (Z.to_nat (len P + len n + 1 - 1)) with (length (P ++ n)) by (rewrite app_length; unfold len; lia).
      replace (P ++ n ++ 0 :: 0 :: 0 :: 1 :: n2 ++ join rest) with ((P ++ n) ++ 0 :: 0 :: 0 :: 1 :: n2 ++ join rest)
        by (now rewrite <- app_assoc).
      rewrite u8_mid. cbn [Z.eqb].
      replace (len P + len n + 1 - 1) with (len P + len n) by lia.
      replace ((P ++ n) ++ 0 :: 0 :: 0 :: 1 :: n2 ++ join rest) with (P ++ n ++ 0 :: 0 :: 0 :: 1 :: n2 ++ join rest)
        by (now rewrite <- app_assoc).
      rewrite pyslice_app_mid.
      replace (P ++ n ++ 0 :: 0 :: 0 :: 1 :: n2 ++ join rest)
        with ((P ++ n ++ [0]) ++ [] ++ [0; 0; 1] ++ n2 ++ join rest)
        by (cbn [app]; rewrite <- !app_assoc; reflexivity).
      replace (len P + len n + 1) with (len (P ++ n ++ [0])) by (rewrite !len_app; change (len [0]) with 1; lia).
      rewrite IH; [reflexivity | now left | assumption | assumption | cbn [length] in Hfuel; lia].
    + (* 3-byte start code: buf[i-1] is the unit's last byte, not 0 *)
      rewrite find_from_sc3.
      destruct Hn as [Hn1 Hn2'].
      assert (Hne : n <> []) by (intros ->; cbn in Hn2'; congruence).
      destruct (exists_last Hne) as [n0 [x Hn0]].
      assert (Hx : x <> 0) by (rewrite Hn0, last_last in Hn2'; exact Hn2').
      rewrite pyidx_nonneg by (pose proof (len_nonneg P); rewrite Hn0, len_app; pose proof (len_nonneg n0);
                               change (len [x]) with 1; lia).
      replace (Z.to_nat (len P + len n - 1)) with (length (P ++ n0))
        by (rewrite Hn0, app_length, len_app; change (len [x]) with 1; unfold len; lia).
      assert (Hbuf : P ++ n ++ 0 :: 0 :: 1 :: n2 ++ join rest = (P ++ n0) ++ x :: 0 :: 0 :: 1 :: n2 ++ join rest).
      { rewrite Hn0. rewrite <- !app_assoc. reflexivity. }
      rewrite Hbuf at 1. rewrite u8_mid.
      rewrite (proj2 (Z.eqb_neq x 0) Hx).
      rewrite pyslice_app_mid.
      replace (P ++ n ++ 0 :: 0 :: 1 :: n2 ++ join rest)
        with ((P ++ n) ++ [] ++ [0; 0; 1] ++ n2 ++ join rest)
        by (cbn [app]; rewrite <- !app_assoc; reflexivity).
      replace (len P + len n) with (len (P ++ n)) by (rewrite !len_app; lia).
      rewrite IH; [reflexivity | now left | assumption | assumption | cbn [length] in Hfuel; lia].
Qed.

Lemma join_length units : (length units <= length (join units))%nat.
Proof.
  induction units as [|[b n] rest IH]; [cbn; lia|].
  rewrite join_cons, !app_length. cbn [length]. lia.
Qed.

(* the fuel S (length buf) always suffices, no exception, and the units come back *)
Theorem split_join : forall units,
  Forall clean_unit (map snd units) ->
  split_bitstream (join units) = Ok (map snd units).
Proof.
  intros units Hc. unfold split_bitstream.
  destruct units as [|[b n] rest]; [reflexivity|].
  cbn [map snd] in *. inversion Hc as [|? ? Hn Hrest]; subst.
  pose proof (join_length ((b, n) :: rest)) as Hlen. cbn [length] in Hlen.
  rewrite join_cons in *.
  apply (split_loop_inv rest _ [] (if b then [0] else []) n); [destruct b; auto | assumption | assumption |].
  rewrite !app_length in *. cbn [length] in *. lia.
Qed.
