(* Laws of the GENERATED serial-number arithmetic (Gen/Utils.v, from utils.py). *)
From Coq Require Import ZArith Bool Lia ZifyBool.
From AV Require Import Gen.Utils.
Local Open Scope Z_scope.

Ltac Zify.zify_post_hook ::= Z.to_euclidean_division_equations.

Definition in16 (a : Z) : Prop := 0 <= a < 65536.
Definition in32 (a : Z) : Prop := 0 <= a < 4294967296.

Lemma land_ffff a : Z.land a 65535 = a mod 65536.
Proof. change 65535 with (Z.ones 16). rewrite Z.land_ones by lia. reflexivity. Qed.
Lemma land_ffffffff a : Z.land a 4294967295 = a mod 4294967296.
Proof. change 4294967295 with (Z.ones 32). rewrite Z.land_ones by lia. reflexivity. Qed.

Lemma uint16_add_mod a b : uint16_add a b = (a + b) mod 65536.
Proof. unfold uint16_add. apply land_ffff. Qed.
Lemma uint32_add_mod a b : uint32_add a b = (a + b) mod 4294967296.
Proof. unfold uint32_add. apply land_ffffffff. Qed.

Lemma uint16_add_range a b : in16 (uint16_add a b).
Proof. rewrite uint16_add_mod. unfold in16. lia. Qed.
Lemma uint32_add_range a b : in32 (uint32_add a b).
Proof. rewrite uint32_add_mod. unfold in32. lia. Qed.

(* characterisation: a > b  iff  0 < (a - b) mod 2^16 < 2^15 *)
Lemma uint16_gt_spec a b : in16 a -> in16 b ->
  uint16_gt a b = true <-> 0 < (a - b) mod 65536 < 32768.
Proof. unfold in16, uint16_gt. intros Ha Hb. lia. Qed.
Lemma uint32_gt_spec a b : in32 a -> in32 b ->
  uint32_gt a b = true <-> 0 < (a - b) mod 4294967296 < 2147483648.
Proof. unfold in32, uint32_gt. intros Ha Hb. lia. Qed.

Lemma uint16_gt_irrefl a : uint16_gt a a = false.
Proof. unfold uint16_gt. lia. Qed.
Lemma uint32_gt_irrefl a : uint32_gt a a = false.
Proof. unfold uint32_gt. lia. Qed.

Lemma uint16_gt_asym a b : uint16_gt a b = true -> uint16_gt b a = false.
Proof. unfold uint16_gt. lia. Qed.
Lemma uint32_gt_asym a b : uint32_gt a b = true -> uint32_gt b a = false.
Proof. unfold uint32_gt. lia. Qed.

(* totality away from the antipode *)
Lemma uint16_gt_total a b : in16 a -> in16 b -> a <> b -> (a - b) mod 65536 <> 32768 ->
  uint16_gt a b = true \/ uint16_gt b a = true.
Proof. unfold in16, uint16_gt. intros. lia. Qed.
Lemma uint32_gt_total a b : in32 a -> in32 b -> a <> b -> (a - b) mod 4294967296 <> 2147483648 ->
  uint32_gt a b = true \/ uint32_gt b a = true.
Proof. unfold in32, uint32_gt. intros. lia. Qed.

(* consistency with modular addition *)
Lemma uint16_gt_add a d : in16 a -> 0 < d < 32768 -> uint16_gt (uint16_add a d) a = true.
Proof. intros Ha Hd. rewrite uint16_add_mod. unfold in16, uint16_gt in *. lia. Qed.
Lemma uint32_gt_add a d : in32 a -> 0 < d < 2147483648 -> uint32_gt (uint32_add a d) a = true.
Proof. intros Ha Hd. rewrite uint32_add_mod. unfold in32, uint32_gt in *. lia. Qed.

(* translation invariance: the comparison only depends on the difference *)
Lemma uint16_gt_shift a b d : in16 a -> in16 b ->
  uint16_gt (uint16_add a d) (uint16_add b d) = uint16_gt a b.
Proof.
  intros Ha Hb. rewrite !uint16_add_mod. unfold in16 in *.
  apply eq_true_iff_eq. rewrite !uint16_gt_spec by (unfold in16; lia).
  replace (((a + d) mod 65536 - (b + d) mod 65536) mod 65536) with ((a - b) mod 65536); [reflexivity|].
  lia.
Qed.
Lemma uint32_gt_shift a b d : in32 a -> in32 b ->
  uint32_gt (uint32_add a d) (uint32_add b d) = uint32_gt a b.
Proof.
  intros Ha Hb. rewrite !uint32_add_mod. unfold in32 in *.
  apply eq_true_iff_eq. rewrite !uint32_gt_spec by (unfold in32; lia).
  replace (((a + d) mod 4294967296 - (b + d) mod 4294967296) mod 4294967296) with ((a - b) mod 4294967296); [reflexivity|].
  lia.
Qed.

Lemma uint16_gte_spec a b : uint16_gte a b = (a =? b) || uint16_gt a b.
Proof. reflexivity. Qed.
Lemma uint32_gte_spec a b : uint32_gte a b = (a =? b) || uint32_gt a b.
Proof. reflexivity. Qed.

Lemma uint16_gte_shift a b d : in16 a -> in16 b ->
  uint16_gte (uint16_add a d) (uint16_add b d) = uint16_gte a b.
Proof.
  intros Ha Hb. unfold uint16_gte. rewrite uint16_gt_shift by assumption. f_equal.
  rewrite !uint16_add_mod. unfold in16 in *. lia.
Qed.
Lemma uint32_gte_shift a b d : in32 a -> in32 b ->
  uint32_gte (uint32_add a d) (uint32_add b d) = uint32_gte a b.
Proof.
  intros Ha Hb. unfold uint32_gte. rewrite uint32_gt_shift by assumption. f_equal.
  rewrite !uint32_add_mod. unfold in32 in *. lia.
Qed.

(* transitivity inside a half window: if c is ahead of b and b ahead of a and the
   two steps together stay below half the space, c is ahead of a *)
Lemma uint16_gt_trans a b c : in16 a -> in16 b -> in16 c ->
  uint16_gt b a = true -> uint16_gt c b = true ->
  (b - a) mod 65536 + (c - b) mod 65536 < 32768 -> uint16_gt c a = true.
Proof. unfold in16, uint16_gt. intros. lia. Qed.
Lemma uint32_gt_trans a b c : in32 a -> in32 b -> in32 c ->
  uint32_gt b a = true -> uint32_gt c b = true ->
  (b - a) mod 4294967296 + (c - b) mod 4294967296 < 2147483648 -> uint32_gt c a = true.
Proof. unfold in32, uint32_gt. intros. lia. Qed.
