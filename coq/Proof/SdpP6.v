(* Generated descriptions (wf_generated_b) and the property theorems' proofs. *)
From Coq Require Import ZArith List Bool Lia.
From AV Require Import Lib.Sx Model.Sdp Proof.SdpP1 Proof.SdpP2 Proof.SdpP3 Proof.SdpP4 Proof.SdpP5.
Import ListNotations.
Local Open Scope Z_scope.

(* ---- idempotence for every line list ---- *)
Lemma idempotent : forall t d ls, absorb t = Ok d -> render d = Ok ls ->
  exists d', absorb ls = Ok d' /\ render d' = Ok ls.
Proof.
  intros t d ls Ha Hr. pose proof (absorb_wfp t d Ha) as Hw.
  destruct (render_any_lite d ls Hr) as (lite & Hl).
  exists (norm_desc lite d). split; [now apply absorb_render|now apply render_norm].
Qed.

(* ---- reflection of the boolean checks ---- *)
Lemma nodup_z_NoDup : forall l, nodup_z l = true -> NoDup l.
Proof.
  induction l as [|x l IH]; intros H; cbn [nodup_z] in H; constructor.
  - apply andb_true_iff in H as [H _]. apply negb_true_iff in H. now apply mem_z_false.
  - apply andb_true_iff in H as [_ H]. now apply IH.
Qed.

Lemma mem_s_false : forall x l, mem_s x l = false -> ~ In x l.
Proof.
  induction l as [|y l IH]; intros H; cbn [mem_s In] in *; [tauto|].
  apply orb_false_iff in H as [H1 H2]. apply str_eqb_neq in H1. intros [E|E]; [congruence|now apply IH].
Qed.

Lemma nodup_s_NoDup : forall l, nodup_s l = true -> NoDup l.
Proof.
  induction l as [|x l IH]; intros H; cbn [nodup_s] in H; constructor.
  - apply andb_true_iff in H as [H _]. apply negb_true_iff in H. now apply mem_s_false.
  - apply andb_true_iff in H as [_ H]. now apply IH.
Qed.

Ltac split_and H :=
  repeat match type of H with
         | (_ && _) = true => let H2 := fresh "Hc" in apply andb_true_iff in H as [H H2]
         end.

Lemma wf_codec_gen_ok : forall kind c, wf_codec_gen kind c = true ->
  wfp_codec kind c /\ full kind c = c /\ exists l, codec_lines c = Ok l.
Proof.
  intros kind c H. unfold wf_codec_gen in H. split_and H.
  destruct (name_of (k_mime c)) as [n|] eqn:En; [|discriminate]. apply str_eqb_eq in H.
  rename Hc into Hne, Hc0 into Hnd, Hc1 into Hfb, Hc2 into Hch.
  apply nodup_s_NoDup in Hnd.
  split; [|split].
  - split; [eauto|]. split; [|exact Hnd]. intro Ea. rewrite Ea in Hch. destruct (k_channels c); [discriminate|reflexivity].
  - unfold full, blank, default_name. rewrite En. destruct c as [mime clock ch pt fb ps].
    cbn [k_mime k_clock k_channels k_pt k_fb k_params] in *. f_equal.
    + now symmetry.
    + destruct (str_eqb kind s_audio).
      * destruct ch as [[|[[|[]|]|[|[]|]|]|]|]; try discriminate; reflexivity.
      * destruct ch; [discriminate|reflexivity].
    + clear - Hfb. induction fb as [|[ty p] fb IH]; [reflexivity|]. cbn [forallb map] in *.
      apply andb_true_iff in Hfb as [H1 H2]. rewrite (IH H2). f_equal. unfold norm_fb. cbn [fst snd] in *.
      destruct p as [[|x p]|]; try reflexivity. discriminate.
    + destruct ps as [|x ps]; [reflexivity|]. apply negb_true_iff in Hne. now rewrite Hne.
  - unfold codec_lines. rewrite En. eauto.
Qed.

Lemma concat_r_ok : forall {T} (f : T -> result (list line)) l,
  (forall x, In x l -> exists r, f x = Ok r) -> exists r, concat_r (map f l) = Ok r.
Proof.
  intros T f l H. induction l as [|x l IH]; cbn [map concat_r fold_right]; [eauto|].
  destruct (H x) as (r1 & E1); [now left|]. destruct IH as (r2 & E2); [intros y Hy; apply H; now right|].
  unfold concat_r in E2. rewrite E1, E2. cbn [bind]. eauto.
Qed.

Lemma wf_media_gen_ok : forall m, wf_media_gen m = true ->
  wfp_media m /\ norm_media (lite_of m) m = m /\ exists l, render_media m = Ok l.
Proof.
  intros m H. unfold wf_media_gen in H. split_and H.
  rename H into Hfm0, Hc10 into Hfm, Hc9 into Hhost, Hc8 into Hmsid, Hc7 into Hmid, Hc6 into Hrh, Hc5 into Hsn,
         Hc4 into Hse, Hc3 into Hpn, Hc2 into Hcg, Hc1 into Hsm, Hc0 into Hice, Hc into Hdt.
  assert (Hcodecs : forall c, In c (m_codecs m) ->
            wfp_codec (m_kind m) c /\ full (m_kind m) c = c /\ exists l, codec_lines c = Ok l).
  { intros c Hc. apply wf_codec_gen_ok. rewrite forallb_forall in Hcg. now apply Hcg. }
  split; [|split].
  - unfold wfp_media. repeat split.
    + intro E. rewrite E in Hfm0. discriminate.
    + destruct (is_av (m_kind m)); [|discriminate]. now apply andb_true_iff in Hfm as [H1 _].
    + destruct (is_av (m_kind m)); [|discriminate]. now apply andb_true_iff in Hfm as [_ H1].
    + now apply nodup_z_NoDup.
    + now apply nodup_z_NoDup.
    + apply Forall_forall. intros c Hc. now apply Hcodecs.
    + now apply nodup_z_NoDup.
  - unfold norm_media, lite_of.
    assert (E1 : (if truthy (m_msid m) then m_msid m else None) = m_msid m).
    { destruct (m_msid m) as [[|x s]|]; try reflexivity. discriminate. }
    assert (E2 : (if truthy (m_mid m) then m_mid m else Some []) = m_mid m).
    { destruct (m_mid m) as [[|x s]|]; try reflexivity. discriminate. }
    assert (E3 : match m_rtcp_port m with Some _ => m_rtcp_host m | None => None end = m_rtcp_host m).
    { destruct (m_rtcp_host m) as [a|]; [|now destruct (m_rtcp_port m)].
      apply andb_true_iff in Hrh as [_ Hrh]. destruct (m_rtcp_port m); [reflexivity|discriminate]. }
    assert (E4 : filter ssrc_nonempty (m_ssrc m) = m_ssrc m).
    { clear - Hse. induction (m_ssrc m) as [|s l IH]; [reflexivity|]. cbn [forallb filter] in *.
      apply andb_true_iff in Hse as [H1 H2]. now rewrite H1, (IH H2). }
    assert (E5 : map (full (m_kind m)) (m_codecs m) = m_codecs m).
    { rewrite <- (map_id (m_codecs m)) at 2. apply map_ext_in. intros c Hc. now apply Hcodecs. }
    assert (E6 : match m_ice m with
                 | Some i => Some (mkIce (i_ufrag i) (i_pwd i) (match m_ice m with Some i0 => i_lite i0 | None => false end))
                 | None => None end = m_ice m).
    { destruct (m_ice m) as [[u p l]|]; reflexivity. }
    rewrite E1, E2, E3, E4, E5, E6. dm m. reflexivity.
  - unfold render_media.
    assert (exists l, addr_lines (m_host m) Lc = Ok l) as (l1 & ->).
    { unfold addr_lines. destruct (m_host m) as [a|]; [|eauto]. cbn [opt_addr_ok] in Hhost. rewrite Hhost. eauto. }
    assert (exists l, rtcp_lines m = Ok l) as (l2 & ->).
    { unfold rtcp_lines. destruct (m_rtcp_port m); [|eauto]. destruct (m_rtcp_host m) as [a|]; [|eauto].
      apply andb_true_iff in Hrh as [Hrh _]. rewrite Hrh. eauto. }
    assert (exists l, concat_r (map codec_lines (m_codecs m)) = Ok l) as (l3 & ->).
    { apply concat_r_ok. intros c Hc. now apply Hcodecs. }
    assert (exists l, ice_lines m = Ok l) as (l4 & ->).
    { unfold ice_lines. destruct (m_ice m); [eauto|discriminate]. }
    assert (exists l, dtls_lines m = Ok l) as (l5 & ->).
    { unfold dtls_lines. destruct (m_dtls m) as [[fps [r|]]|]; [|discriminate|eauto].
      cbn [role_known role_setup] in *.
      destruct (str_eqb r s_auto); [cbn [bind]; eauto|]. destruct (str_eqb r s_client); [cbn [bind]; eauto|].
      destruct (str_eqb r s_server); [cbn [bind]; eauto|discriminate]. }
    cbn [bind]. eauto.
Qed.

Lemma any_lite_const : forall b ms, ms <> [] ->
  (forall m, In m ms -> wf_media_gen m = true /\ lite_of m = b) -> any_lite ms = Ok b.
Proof.
  intros b ms Hne H. induction ms as [|m ms IH]; [congruence|]. cbn [any_lite].
  destruct (H m) as [Hw Hl]; [now left|]. unfold lite_of in Hl.
  assert (Hi : is_some (m_ice m) = true).
  { unfold wf_media_gen in Hw. split_and Hw. assumption. }
  destruct (m_ice m) as [i|]; [|discriminate]. destruct (i_lite i) eqn:E; [now subst|].
  destruct ms as [|m2 ms]; [now subst|]. apply IH; [discriminate|]. intros m' Hm'. apply H. now right.
Qed.

Lemma any_lite_total : forall ms, (forall m, In m ms -> wf_media_gen m = true) -> exists b, any_lite ms = Ok b.
Proof.
  induction ms as [|m ms IH]; intros H; cbn [any_lite]; [eauto|].
  assert (Hi : is_some (m_ice m) = true).
  { specialize (H m (or_introl eq_refl)). unfold wf_media_gen in H. split_and H. assumption. }
  destruct (m_ice m) as [i|]; [|discriminate]. destruct (i_lite i); [eauto|]. apply IH. intros m' Hm'. apply H. now right.
Qed.

Lemma generated_fixpoint : forall d, wf_generated_b d = true ->
  exists ls, render d = Ok ls /\ absorb ls = Ok d.
Proof.
  intros d H. unfold wf_generated_b in H. split_and H.
  rename H into Ho, Hc1 into Hh, Hc0 into Hm, Hc into Hl.
  rewrite forallb_forall in Hm.
  assert (Hw : wfp d).
  { unfold wfp. apply Forall_forall. intros m Hin. now apply wf_media_gen_ok, Hm. }
  destruct (any_lite_total (d_media d) Hm) as (lite & Elite).
  assert (Hr : exists ls, render d = Ok ls).
  { unfold render, render_session. rewrite Elite.
    assert (exists l, addr_lines (d_host d) Lc = Ok l) as (l1 & ->).
    { unfold addr_lines. destruct (d_host d) as [a|]; [|eauto]. cbn [opt_addr_ok] in Hh. rewrite Hh. eauto. }
    cbn [bind].
    destruct (concat_r_ok render_media (d_media d)) as (lm & ->); [|cbn [bind]; eauto].
    intros m Hin. now apply wf_media_gen_ok, Hm. }
  destruct Hr as (ls & Hr). exists ls. split; [exact Hr|].
  rewrite (absorb_render d ls lite Hw Hr Elite). f_equal.
  unfold norm_desc. destruct d as [v o n t h g ms media]. cbn [d_version d_origin d_name d_time d_host d_group
    d_msid_semantic d_media] in *.
  destruct o as [o|]; [|discriminate]. f_equal.
  rewrite <- (map_id media) at 2. apply map_ext_in. intros m Hin.
  assert (Hlm : lite_of m = lite).
  { destruct media as [|m0 r]; [destruct Hin|].
    assert (Hall : forall m', In m' (m0 :: r) -> wf_media_gen m' = true /\ lite_of m' = lite_of m0).
    { intros m' [<-|Hm']; [split; [apply Hm; now left|reflexivity]|].
      split; [apply Hm; now right|]. rewrite forallb_forall in Hl. apply eqb_prop. now apply Hl. }
    pose proof (any_lite_const (lite_of m0) (m0 :: r) ltac:(discriminate) Hall) as E.
    rewrite E in Elite. inversion Elite; subst lite. now apply Hall. }
  rewrite <- Hlm. now apply wf_media_gen_ok, Hm.
Qed.

(* ---- contrib/signaling.py ---- *)
Definition sobj_ok (o : sobj) : Prop :=
  match o with SDesc _ ty => ty = s_offer \/ ty = s_answer | _ => True end.

Lemma signaling_roundtrip : forall o, sobj_ok o -> obj_of_msg (msg_of_obj o) = Ok o.
Proof.
  intros [sdp ty|c mid idx|] H; cbn [sobj_ok] in H.
  - destruct H as [-> | ->]; reflexivity.
  - unfold msg_of_obj, obj_of_msg. cbn [g_type g_sdp g_cand g_id g_label g_extra].
    change (str_eqb s_candidate s_answer || str_eqb s_candidate s_offer) with false. cbn iota.
    change (str_eqb s_candidate s_candidate) with true. cbn iota.
    rewrite cand_roundtrip. reflexivity.
  - reflexivity.
Qed.

Lemma cand_to_tokens_inj : forall c1 c2, cand_to_tokens c1 = cand_to_tokens c2 -> c1 = c2.
Proof.
  intros c1 c2 H. pose proof (cand_roundtrip c1) as H1. rewrite H, cand_roundtrip in H1. now inversion H1.
Qed.

Lemma msg_of_obj_inj : forall o1 o2, msg_of_obj o1 = msg_of_obj o2 -> o1 = o2.
Proof.
  intros [s1 t1|c1 m1 i1|] [s2 t2|c2 m2 i2|] H; cbn [msg_of_obj] in H; try discriminate; try reflexivity.
  - inversion H; subst; reflexivity.
  - pose proof (f_equal (fun m => match g_cand m with Some (CToks t) => t | _ => [] end) H) as Ht.
    pose proof (f_equal g_id H) as Hi. pose proof (f_equal g_label H) as Hl.
    cbn [g_cand g_id g_label] in Ht, Hi, Hl. apply cand_to_tokens_inj in Ht.
    inversion Hi; inversion Hl; subst; reflexivity.
Qed.

(* messages of the three shapes object_to_string writes are read back to the object they came from,
   and re-serialising gives the same message *)
Lemma signaling_msg_roundtrip : forall m o, obj_of_msg m = Ok o ->
  (exists o', sobj_ok o' /\ m = msg_of_obj o') -> msg_of_obj o = m.
Proof.
  intros m o H (o' & Hok & ->). rewrite (signaling_roundtrip o' Hok) in H. now inversion H.
Qed.
