(* C01 / C02: completeness of ordered delivery.  Once every chunk of the ordered messages sent
   on a stream has been accepted by the receiver - in whatever order, with whatever duplicates
   and retransmissions - every one of those messages has been handed to the application:
   nothing that arrived stays stuck in the reassembly queue.  (Together with C02_never_wedged -
   the sender keeps (re)transmitting until everything is acknowledged - this is the receiver's
   half of "everything sent is delivered once the network heals".)

   Technically: the pop loop stops only where the next expected message is incomplete
   (maximality), and every chunk that entered the queue is either still there or part of a
   delivered message (partition). *)
From Coq Require Import ZArith List Bool Lia ZifyBool Arith.
From AV Require Import Lib.Bytes Gen.Utils Gen.SctpConst Model.SctpRecv Proof.SerialP Proof.SctpRecvP Proof.SctpC01P
  Proof.SctpDupP Proof.SctpOrderP.
Import ListNotations.
Local Open Scope Z_scope.

Ltac Zify.zify_post_hook ::= Z.to_euclidean_division_equations.

Section Complete.
Variable base N : Z.
Hypothesis Hbase : r32 base.
Hypothesis HN : 0 <= N < 2147483648.
Variable M : list (list chunk).
Variable o : nat -> Z.
Variable s0 : Z.
Hypothesis wfM : forall j f, nth_error M j = Some f ->
  f <> [] /\ o j + Z.of_nat (length f) <= o (S j) /\ forall i c, nth_error f i = Some c -> chunk_ok base N o s0 j i f c.

Local Notation offc := (offc base).
Local Notation sorted := (sorted base).
Local Notation qinv := (qinv base M).
Local Notation runinv := (runinv base M).
Local Notation labelled := (labelled M).
Local Notation at_ := (at_ M).
Local Notation ssn := (ssn s0).
Local Notation delivered := (delivered M).

Definition frags (k n : nat) : list chunk := concat (firstn n (skipn k M)).

(* no chunk of l' sits at offset o k + i: fragment i of message k is missing from l' *)
Lemma missing_fragment k f i l' : nth_error M k = Some f -> (i < length f)%nat ->
  (forall x, In x l' -> offc x <> o k + Z.of_nat i) -> ~ incl f l'.
Proof.
  intros Hf Hi Hno Hincl. destruct (nth_error f i) as [c|] eqn:Ec; [|apply nth_error_None in Ec; lia].
  pose proof (ok_off _ _ _ _ _ _ _ _ (proj2 (proj2 (wfM k f Hf)) i c Ec)) as Eo.
  apply (Hno c); [apply Hincl; eapply nth_error_In; eauto|exact Eo].
Qed.

(* a labelled chunk of a later message lies beyond every fragment of message k *)
Lemma later_offset k f j i c : nth_error M k = Some f -> at_ j i c -> (k < j)%nat -> o k + Z.of_nat (length f) <= offc c.
Proof.
  intros Hf (fj & Hfj & Hc) Hlt.
  pose proof (ok_off _ _ _ _ _ _ _ _ (proj2 (proj2 (wfM j fj Hfj)) i c Hc)) as Eo.
  assert (Hj : (j < length M)%nat) by (apply nth_error_Some; congruence).
  pose proof (o_mono base N M o s0 wfM (j - k - 1) k f Hf ltac:(lia)) as Hm.
  replace (k + S (j - k - 1))%nat with j in Hm by lia. lia.
Qed.

Lemma next_tsn_off p c : inw base N (tsn p) -> inw base N (tsn c) -> offc c = offc p + 1 -> tsn c = tsn_plus_one (tsn p).
Proof. unfold offc, inw, r32, off, M32, tsn_plus_one, SCTP_TSN_MODULO in *. intros [Hp Hp'] [Hc Hc'] E. lia. Qed.

Lemma pop_extra : forall rest run k l s ms, qinv k rest -> runinv k run rest ->
  pop_loop [] run rest (ssn k) = (l, s, ms) ->
  (forall x, In x (run_chunks run ++ rest) -> In x l \/ In x (frags k (length ms))) /\
  (forall f, nth_error M (k + length ms) = Some f -> ~ incl f l).
Proof.
  induction rest as [|c rest IH]; intros run k l s ms Q R H.
  - cbn [pop_loop] in H. injection H as <- <- <-. cbn [length]. rewrite Nat.add_0_r. unfold retained. cbn [rev app]. split.
    + intros x Hx. left. rewrite app_nil_r in *. destruct run as [[[r e] ord]|]; cbn [run_chunks] in *; [now apply -> in_rev|exact Hx].
    + intros f Hf. destruct run as [[[r e] ord]|].
      * destruct R as (_ & f' & i & p & Hf' & Hi & -> & _). rewrite Hf' in Hf. injection Hf as <-.
        rewrite rev_involutive, app_nil_r. apply (missing_fragment k f' i); [exact Hf'|lia|].
        intros x Hx. destruct (proj2 (frags_prefix base N M o s0 wfM k f' i Hf') x Hx) as (a & Ha & _ & Eo). lia.
      * intros Hi. destruct f as [|c0 f0]; [exact (proj1 (wfM _ _ Hf) eq_refl)|exact (Hi c0 (or_introl eq_refl))].
  - destruct Q as [[Fc Srest] Lq]. inversion Lq as [|? ? Lc Lrest]; subst.
    assert (Qrest : qinv k rest) by (split; assumption).
    (* stopping with nothing delivered and everything retained *)
    assert (Stop : forall l', (forall x, In x (run_chunks run ++ c :: rest) -> In x l') ->
              (forall f, nth_error M k = Some f -> ~ incl f l') ->
              (forall x, In x (run_chunks run ++ c :: rest) -> In x l' \/ In x (frags k (length (@nil message)))) /\
              (forall f, nth_error M (k + length (@nil message)) = Some f -> ~ incl f l')).
    { intros l' H1 H2. cbn [length]. rewrite Nat.add_0_r. split; [intros x Hx; left; now apply H1|exact H2]. }
    (* the shared tail of both branches: c is fragment i of message k *)
    assert (Hin : forall f i r e, nth_error M k = Some f -> nth_error f i = Some c -> r = rev (firstn i f) ->
      (if last c
       then let '(l0, s1, ms0) := pop_loop [] None rest (if true && (sseq c =? ssn k) then uint16_add (ssn k) 1 else ssn k) in
            (l0, s1, (sid c, ppid c, join_data (rev (c :: r))) :: ms0)
       else pop_loop [] (Some (c :: r, tsn_plus_one e, true)) rest (ssn k)) = (l, s, ms) ->
      e = tsn c ->
      (forall x, In x (r ++ c :: rest) -> In x l \/ In x (frags k (length ms))) /\
      (forall f, nth_error M (k + length ms) = Some f -> ~ incl f l)).
    { intros f i r e Hf Hc -> Heq ->.
      pose proof (proj2 (proj2 (wfM k f Hf)) i c Hc) as K.
      assert (Hil : (i < length f)%nat) by (apply nth_error_Some; congruence).
      assert (EfS : firstn (S i) f = firstn i f ++ [c]) by now apply firstn_S_nth.
      rewrite (ok_last _ _ _ _ _ _ _ _ K), (ok_sseq _ _ _ _ _ _ _ _ K), Z.eqb_refl in Heq. cbn [andb] in Heq.
      rewrite (ssn_succ base N M o s0 wfM) in Heq.
      destruct (Nat.eqb_spec (S i) (length f)) as [El|El].
      - destruct (pop_loop [] None rest (ssn (S k))) as [[l0 s1] ms0] eqn:E. injection Heq as <- <- <-.
        assert (Q1 : SctpOrderP.qinv base M (S k) rest).
        { split; [exact Srest|]. apply Forall_forall. intros x Hx. rewrite Forall_forall in Lrest, Fc.
          eapply (rest_after base N M o s0 wfM); eauto. }
        destruct (IH None (S k) _ _ _ Q1 I E) as [P1 P2].
        assert (Eall : firstn (S i) f = f) by (rewrite El; apply firstn_all).
        cbn [length]. unfold frags. rewrite (skipn_nth M k f Hf). cbn [firstn concat]. split.
        + intros x Hx. apply in_app_or in Hx as [Hx|[<-|Hx]].
          * right. apply in_or_app. left. apply in_rev in Hx. rewrite <- Eall, EfS. apply in_or_app. now left.
          * right. apply in_or_app. left. rewrite <- Eall, EfS. apply in_or_app. right. now left.
          * destruct (P1 x Hx) as [Hl|Hd]; [now left|right; apply in_or_app; right; exact Hd].
        + replace (k + S (length ms0))%nat with (S k + length ms0)%nat by lia. exact P2.
      - assert (HSi : (S i < length f)%nat) by lia.
        assert (R1 : SctpOrderP.runinv base M k (Some (c :: rev (firstn i f), tsn_plus_one (tsn c), true)) rest).
        { split; [reflexivity|]. exists f, (S i), c. split; [exact Hf|]. split; [lia|]. split.
          - rewrite EfS, rev_app_distr. reflexivity.
          - replace (S i - 1)%nat with i by lia. split; [exact Hc|]. split; [reflexivity|exact Fc]. }
        destruct (IH _ k _ _ _ Qrest R1 Heq) as [P1 P2]. split; [|exact P2].
        intros x Hx. apply P1. cbn [run_chunks]. change (c :: rev (firstn i f)) with ([c] ++ rev (firstn i f)).
        rewrite !in_app_iff in *. cbn [In] in *. tauto. }
    destruct Lc as (j & ic & A & W).
    destruct (at_ok base N M o s0 wfM _ _ _ A) as (fj & Hfj & Hcj & K).
    cbn [pop_loop] in H.
    destruct run as [[[r e] ord]|].
    + destruct R as (-> & f & i & p & Hf & Hi & -> & Hp & -> & Fp). cbn [run_chunks] in *.
      pose proof (proj2 (proj2 (wfM k f Hf)) (i - 1)%nat p Hp) as Kp.
      destruct (Z.eqb_spec (tsn c) (tsn_plus_one (tsn p))) as [Et|Et]; cbn [negb] in H.
      * pose proof (plus_one_off_inv base N HN _ _ (ok_inw _ _ _ _ _ _ _ _ Kp) (ok_inw _ _ _ _ _ _ _ _ K) Et) as Eo.
        fold (offc c) (offc p) in Eo. rewrite (ok_off _ _ _ _ _ _ _ _ Kp) in Eo.
        destruct (nth_error f i) as [ci|] eqn:Eci; [|apply nth_error_None in Eci; lia].
        pose proof (ok_off _ _ _ _ _ _ _ _ (proj2 (proj2 (wfM k f Hf)) i ci Eci)) as Eoi.
        assert (Aci : at_ k i ci) by (exists f; auto).
        destruct (at_inj base N M o s0 wfM _ _ _ _ _ _ A Aci ltac:(lia)) as (-> & -> & ->).
        apply (Hin f i _ (tsn_plus_one (tsn p)) Hf Eci eq_refl); [exact H|now symmetry].
      * injection H as <- <- <-. apply Stop.
        -- intros x Hx. unfold retained. cbn [rev app]. rewrite in_app_iff in *. destruct Hx as [Hx|Hx]; [left; now apply -> in_rev|right; exact Hx].
        -- intros f' Hf'. rewrite Hf in Hf'. injection Hf' as <-. unfold retained. cbn [rev app]. rewrite rev_involutive.
           apply (missing_fragment k f i); [exact Hf|lia|].
           intros x Hx. apply in_app_or in Hx as [Hx|Hx].
           ++ destruct (proj2 (frags_prefix base N M o s0 wfM k f i Hf) x Hx) as (a & Ha & _ & Eo). lia.
           ++ rewrite Forall_forall in Fp, Fc. pose proof (ok_off _ _ _ _ _ _ _ _ Kp) as Eop.
              assert (Hc0 : offc c <> o k + Z.of_nat i).
              { intros E. apply Et. apply next_tsn_off; [exact (ok_inw _ _ _ _ _ _ _ _ Kp)|exact (ok_inw _ _ _ _ _ _ _ _ K)|lia]. }
              pose proof (Fp c (or_introl eq_refl)) as Hgt.
              destruct Hx as [<-|Hx]; [lia|]. pose proof (Fc x Hx). lia.
    + cbn [run_chunks app] in *.
      rewrite (ok_un _ _ _ _ _ _ _ _ K), (ok_first _ _ _ _ _ _ _ _ K), (ok_sseq _ _ _ _ _ _ _ _ K) in H. cbn [negb andb] in H.
      (* when the pop loop stops at c, every retained chunk lies beyond the first fragment of message k *)
      assert (Beyond : (k < j)%nat \/ (j = k /\ (0 < ic)%nat) -> forall f, nth_error M k = Some f -> ~ incl f (c :: rest)).
      { intros Hcase f Hf. pose proof (proj1 (wfM k f Hf)) as Hne. apply (missing_fragment k f 0%nat); [exact Hf|destruct f; [congruence|cbn; lia]|].
        assert (Hc0 : o k < offc c).
        { destruct Hcase as [Hlt|[-> Hpos]].
          - pose proof (later_offset k f j ic c Hf A Hlt). destruct f; [congruence|cbn [length] in *; lia].
          - pose proof (ok_off _ _ _ _ _ _ _ _ K). lia. }
        intros x [<-|Hx]; [lia|]. rewrite Forall_forall in Fc. pose proof (Fc x Hx). lia. }
      destruct ic as [|ic']; cbn [Nat.eqb negb] in H.
      * destruct (uint16_gt (ssn j) (ssn k)) eqn:G.
        -- injection H as <- <- <-. apply Stop; [intros x Hx; exact Hx|].
           apply Beyond. left. apply (ssn_gt base N M o s0 wfM k j W). exact G.
        -- assert (j = k).
           { destruct (Nat.eq_dec j k) as [E|E]; [exact E|]. exfalso.
             assert (k < j)%nat by (unfold inwin in W; lia). apply (ssn_gt base N M o s0 wfM k j W) in H0. congruence. }
           subst j. apply (Hin fj 0%nat [] (tsn c) Hfj Hcj eq_refl); [|reflexivity].
           rewrite (ok_sseq _ _ _ _ _ _ _ _ K). exact H.
      * injection H as <- <- <-. apply Stop; [intros x Hx; exact Hx|].
        apply Beyond. destruct (Nat.eq_dec j k) as [->|Hne]; [right; split; [reflexivity|lia]|left; unfold inwin in W; lia].
Qed.

Lemma nth_firstn {A} (l : list A) : forall i a, (a < i)%nat -> nth_error (firstn i l) a = nth_error l a.
Proof. induction l as [|x l IH]; intros [|i] [|a] H; cbn; try reflexivity; try lia. apply IH. lia. Qed.
Lemma nth_skipn {A} : forall k a (l : list A), nth_error (skipn k l) a = nth_error l (k + a).
Proof. induction k as [|k IH]; intros a [|x l]; cbn; try reflexivity; [now destruct a|]. apply IH. Qed.

Lemma frags_at k n x : In x (frags k n) -> exists j i, at_ j i x /\ (k <= j < k + n)%nat.
Proof.
  unfold frags. intros H. apply in_concat in H as (f & Hf & Hx).
  apply In_nth_error in Hf as (a & Ha).
  assert (Han : (a < n)%nat).
  { assert (a < length (firstn n (skipn k M)))%nat by (apply nth_error_Some; congruence). rewrite firstn_length in H. lia. }
  rewrite nth_firstn in Ha by exact Han. rewrite nth_skipn in Ha.
  apply In_nth_error in Hx as (i & Hi). exists (k + a)%nat, i. split; [exists f; auto|lia].
Qed.

Theorem ordered_complete_gen : forall cs Q k, qinv k Q -> NoDup cs ->
  (forall c, In c cs -> (exists j i, at_ j i c) /\ ~ In c Q /\ forall j i, at_ j i c -> (k <= j)%nat) ->
  swin M Q (ssn k) k cs ->
  (forall f, nth_error M k = Some f -> ~ incl f Q) ->
  (forall j f c, nth_error M j = Some f -> (k <= j)%nat -> In c f -> In c Q \/ In c cs) ->
  srun Q (ssn k) cs = Some (delivered k (length M - k)).
Proof.
  induction cs as [|c cs IH]; intros Q k Qi Hnd Hcs Hw Hmax Hcov; cbn [srun].
  - destruct (nth_error M k) as [f|] eqn:Ef.
    + exfalso. apply (Hmax f eq_refl). intros x Hx. destruct (Hcov k f x Ef (Nat.le_refl k) Hx) as [H|[]]. exact H.
    + apply nth_error_None in Ef. replace (length M - k)%nat with 0%nat by lia. reflexivity.
  - cbn [swin] in Hw. destruct Hw as [Hwc Hw].
    destruct (Hcs c (or_introl eq_refl)) as ((j & i & A) & HcQ & Hk).
    assert (Lc : labelled k c) by (exists j, i; split; [exact A|]; unfold inwin; pose proof (Hk j i A); pose proof (Hwc j i A); lia).
    destruct Qi as [SQ LQ].
    assert (IQ : Forall (fun x => inw base N (tsn x)) Q) by (eapply Forall_impl; [|exact LQ]; intros x; apply (labelled_inw base N M o s0 wfM)).
    assert (Hne : forall x, In x Q -> offc x <> offc c).
    { intros x Hx E. rewrite Forall_forall in LQ. destruct (LQ x Hx) as (jx & ix & Ax & _).
      destruct (at_inj base N M o s0 wfM _ _ _ _ _ _ Ax A E) as (_ & _ & ->). contradiction. }
    destruct (add_chunk_sorted base N Hbase HN c Q SQ IQ (labelled_inw base N M o s0 wfM k c Lc) Hne) as (Q1 & E1 & S1 & In1).
    rewrite E1 in *.
    assert (Q1i : qinv k Q1).
    { split; [exact S1|]. apply Forall_forall. intros x Hx. apply In1 in Hx as [->|Hx]; [exact Lc|].
      rewrite Forall_forall in LQ. now apply LQ. }
    destruct (pop_messages Q1 (ssn k)) as [[Q2 seq2] ms] eqn:Ep.
    pose proof (pop_messages_retains _ _ _ _ _ Ep) as Hret.
    unfold pop_messages in Ep.
    destruct (pop_extra Q1 None k _ _ _ Q1i I Ep) as [P1 P2].
    destruct (pop_ord base N HN M o s0 wfM Q1 None k _ _ _ Q1i I Ep) as (n1 & -> & -> & Q2i & Hinc & Hlen).
    rewrite Hlen in Hw, P1, P2. cbn [run_chunks app] in Hinc, P1.
    assert (Hn1 : (n1 <= length M - k)%nat).
    { unfold SctpOrderP.delivered in Hlen. rewrite map_length, firstn_length, skipn_length in Hlen. lia. }
    inversion Hnd as [|? ? Hc_notin Hnd']; subst.
    rewrite (IH Q2 (k + n1)%nat Q2i Hnd').
    + f_equal. rewrite (delivered_add M). f_equal. lia.
    + intros x Hx. destruct (Hcs x (or_intror Hx)) as (Hlab & HxQ & Hxk).
      assert (HxQ1 : ~ In x Q1) by (intros H1; apply In1 in H1 as [->|H1]; contradiction).
      split; [exact Hlab|]. split; [intros H2; apply HxQ1, Hret, H2|].
      intros jx ix Ax. pose proof (Hxk jx ix Ax) as Hge.
      destruct (le_lt_dec (k + n1) jx) as [Hok|Hlt]; [exact Hok|]. exfalso.
      destruct Ax as (fx & Hfx & Hxi). apply HxQ1, Hinc. apply in_concat. exists fx. split.
      * apply (in_window_frags base N M o s0 wfM k n1 jx fx Hfx). lia.
      * eapply nth_error_In; eauto.
    + exact Hw.
    + exact P2.
    + intros j' f' c' Hf' Hj' Hc'.
      destruct (Hcov j' f' c' Hf' ltac:(lia) Hc') as [H|[<-|H]]; [| |right; exact H].
      * (* already queued: still queued, or delivered - but then it belongs to an earlier message *)
        assert (H1 : In c' Q1) by (apply In1; right; exact H).
        destruct (P1 c' H1) as [H2|H2]; [left; exact H2|exfalso].
        destruct (frags_at k n1 c' H2) as (j2 & i2 & A2 & Hr).
        apply In_nth_error in Hc' as (i' & Hi'). assert (A' : at_ j' i' c') by (exists f'; auto).
        destruct (at_inj base N M o s0 wfM _ _ _ _ _ _ A2 A' eq_refl) as (E & _). lia.
      * assert (H1 : In c Q1) by (apply In1; left; reflexivity).
        destruct (P1 c H1) as [H2|H2]; [left; exact H2|exfalso].
        destruct (frags_at k n1 c H2) as (j2 & i2 & A2 & Hr).
        apply In_nth_error in Hc' as (i' & Hi'). assert (A' : at_ j' i' c) by (exists f'; auto).
        destruct (at_inj base N M o s0 wfM _ _ _ _ _ _ A2 A' eq_refl) as (E & _). lia.
Qed.

(* the headline statement: from the empty stream; every chunk of M arrives at least once in cs *)
Theorem ordered_complete cs : NoDup cs -> (forall c, In c cs -> exists j i, at_ j i c) -> swin M [] (ssn 0) 0 cs ->
  (forall c, In c (concat M) -> In c cs) ->
  srun [] (ssn 0) cs = Some (map msgf M).
Proof.
  intros Hnd Hcs Hw Hall.
  rewrite (ordered_complete_gen cs [] 0%nat); auto.
  - unfold SctpOrderP.delivered. cbn [skipn]. rewrite Nat.sub_0_r, firstn_all. reflexivity.
  - split; [exact I|constructor].
  - intros c Hc. split; [now apply Hcs|]. split; [intros []|intros; lia].
  - intros f Hf Hi. destruct f as [|c0 f0]; [exact (proj1 (wfM _ _ Hf) eq_refl)|exact (Hi c0 (or_introl eq_refl))].
  - intros j f c Hf _ Hc. right. apply Hall. apply in_concat. exists f. split; [eapply nth_error_In; eauto|exact Hc].
Qed.
End Complete.
