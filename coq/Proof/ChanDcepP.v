(* C13: the DCEP DATA_CHANNEL_OPEN message round-trips for every label / protocol
   (byte strings = UTF-8 encodings) and every reliability setting. *)
From Coq Require Import ZArith List Bool Lia.
From AV Require Import Lib.Bytes Lib.BytesP Gen.SctpConst Model.Chan.
Import ListNotations.
Local Open Scope Z_scope.

Ltac Zify.zify_post_hook ::= Z.to_euclidean_division_equations.

Definition wf_chan (c : chan) : Prop :=
  len (ch_label c) < 65536 /\ len (ch_proto c) < 65536 /\
  match ch_maxrt c, ch_maxlt c with
  | Some r, None => 0 <= r < 4294967296
  | None, Some l => 0 <= l < 4294967296
  | None, None => True
  | Some _, Some _ => False     (* rejected by RTCPeerConnection.createDataChannel *)
  end.

Definition header (c : chan) : bytes :=
  let ctype := (if ch_ordered c then 0 else 128) +
               match ch_maxrt c, ch_maxlt c with Some _, _ => 1 | None, Some _ => 2 | None, None => 0 end in
  let rel := match ch_maxrt c, ch_maxlt c with Some r, _ => r | None, Some l => l | None, None => 0 end in
  be8 DATA_CHANNEL_OPEN ++ be8 ctype ++ be16 0 ++ be32 rel ++ be16 (len (ch_label c)) ++ be16 (len (ch_proto c)).

Lemma dcep_open_header c : dcep_open c = header c ++ ch_label c ++ ch_proto c.
Proof. unfold dcep_open, header. now rewrite <- !app_assoc. Qed.

Lemma header_length c : length (header c) = 12%nat.
Proof. reflexivity. Qed.

Theorem dcep_open_roundtrip c : wf_chan c ->
  hd 0 (dcep_open c) = DATA_CHANNEL_OPEN /\ 12 <= len (dcep_open c) /\
  dcep_parse_open (dcep_open c) =
    Some (mkOpen (ch_ordered c) (ch_maxrt c) (ch_maxlt c) (ch_label c) (ch_proto c)).
Proof.
  intros (Hl & Hp & Hrel).
  split; [reflexivity|]. split.
  { rewrite dcep_open_header, len_app. unfold len at 1. rewrite header_length.
    pose proof (len_nonneg (ch_label c ++ ch_proto c)). lia. }
  unfold dcep_parse_open.
  set (ctype := (if ch_ordered c then 0 else 128) +
               match ch_maxrt c, ch_maxlt c with Some _, _ => 1 | None, Some _ => 2 | None, None => 0 end).
  set (rel := match ch_maxrt c, ch_maxlt c with Some r, _ => r | None, Some l => l | None, None => 0 end).
  assert (Hct : 0 <= ctype < 256) by (unfold ctype; destruct (ch_ordered c), (ch_maxrt c), (ch_maxlt c); lia).
  assert (Hr : 0 <= rel < 4294967296) by (unfold rel; destruct (ch_maxrt c), (ch_maxlt c); lia).
  pose proof (len_nonneg (ch_label c)) as Hl0. pose proof (len_nonneg (ch_proto c)) as Hp0.
  assert (E1 : u8 (dcep_open c) 1 = Some ctype).
  { unfold dcep_open. fold ctype rel. change (be8 DATA_CHANNEL_OPEN) with [3]. cbn [app].
    change 1%nat with (length [3] + 0)%nat. change (3 :: ?x) with ([3] ++ x).
    rewrite u8_app_r. apply u8_be8. exact Hct. }
  assert (E2 : u32 (dcep_open c) 4 = Some rel).
  { unfold dcep_open. fold ctype rel.
    rewrite !app_assoc. rewrite <- (app_assoc _ (be32 rel)). rewrite <- (app_assoc _ (be32 rel ++ _)).
    rewrite <- !app_assoc.
    replace (be8 DATA_CHANNEL_OPEN ++ be8 ctype ++ be16 0 ++ be32 rel ++ be16 (len (ch_label c)) ++
             be16 (len (ch_proto c)) ++ ch_label c ++ ch_proto c)
      with ((be8 DATA_CHANNEL_OPEN ++ be8 ctype ++ be16 0) ++ be32 rel ++
            (be16 (len (ch_label c)) ++ be16 (len (ch_proto c)) ++ ch_label c ++ ch_proto c))
      by (now rewrite <- !app_assoc).
    change 4%nat with (length (be8 DATA_CHANNEL_OPEN ++ be8 ctype ++ be16 0)).
    apply u32_at. exact Hr. }
  assert (E3 : u16 (dcep_open c) 8 = Some (len (ch_label c))).
  { unfold dcep_open. fold ctype rel.
    replace (be8 DATA_CHANNEL_OPEN ++ be8 ctype ++ be16 0 ++ be32 rel ++ be16 (len (ch_label c)) ++
             be16 (len (ch_proto c)) ++ ch_label c ++ ch_proto c)
      with ((be8 DATA_CHANNEL_OPEN ++ be8 ctype ++ be16 0 ++ be32 rel) ++ be16 (len (ch_label c)) ++
            (be16 (len (ch_proto c)) ++ ch_label c ++ ch_proto c))
      by (now rewrite <- !app_assoc).
    change 8%nat with (length (be8 DATA_CHANNEL_OPEN ++ be8 ctype ++ be16 0 ++ be32 rel)).
    apply u16_at. lia. }
  assert (E4 : u16 (dcep_open c) 10 = Some (len (ch_proto c))).
  { unfold dcep_open. fold ctype rel.
    replace (be8 DATA_CHANNEL_OPEN ++ be8 ctype ++ be16 0 ++ be32 rel ++ be16 (len (ch_label c)) ++
             be16 (len (ch_proto c)) ++ ch_label c ++ ch_proto c)
      with ((be8 DATA_CHANNEL_OPEN ++ be8 ctype ++ be16 0 ++ be32 rel ++ be16 (len (ch_label c))) ++
            be16 (len (ch_proto c)) ++ (ch_label c ++ ch_proto c))
      by (now rewrite <- !app_assoc).
    change 10%nat with (length (be8 DATA_CHANNEL_OPEN ++ be8 ctype ++ be16 0 ++ be32 rel ++ be16 (len (ch_label c)))).
    apply u16_at. lia. }
  rewrite E1, E2, E3, E4.
  assert (Hll : Z.to_nat (len (ch_label c)) = length (ch_label c)) by (unfold len; lia).
  assert (Hpl : Z.to_nat (len (ch_proto c)) = length (ch_proto c)) by (unfold len; lia).
  rewrite Hll, Hpl, dcep_open_header.
  assert (S1 : slice (header c ++ ch_label c ++ ch_proto c) 12 (12 + length (ch_label c)) = ch_label c).
  { change 12%nat with (length (header c)). apply slice_app_mid. }
  assert (S2 : slice (header c ++ ch_label c ++ ch_proto c) (12 + length (ch_label c))
                     (12 + length (ch_label c) + length (ch_proto c)) = ch_proto c).
  { rewrite app_assoc. change 12%nat with (length (header c)). rewrite <- app_length.
    rewrite <- (app_nil_r (ch_proto c)) at 1. apply slice_app_mid. }
  rewrite S1, S2. f_equal.
  unfold ctype, wf_chan in *.
  destruct (ch_ordered c), (ch_maxrt c) as [r|], (ch_maxlt c) as [l|]; try contradiction; reflexivity.
Qed.
