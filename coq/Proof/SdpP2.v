(* Effect of SessionDescription.parse on each group of lines MediaDescription.__str__
   writes (first loop), on the model of Model/Sdp.v. *)
From Coq Require Import ZArith List Bool Lia.
From AV Require Import Lib.Sx Model.Sdp Proof.SdpP1.
Import ListNotations.
Local Open Scope Z_scope.

Definition or_else {T} (o d : option T) : option T := match o with Some x => Some x | None => d end.

Ltac dm m := destruct m as [?k ?p ?h ?pr ?di ?msi ?rp ?rh ?mx ?ss ?sg ?fm ?cs ?ex ?mi ?sc ?sm ?sp ?dt ?ic ?ca ?co ?io].
Ltac dt t := let m := fresh "m" in destruct t as [m ?fps ?role ?uf ?pw]; dm m.
Ltac same_state t := dt t; reflexivity.

Ltac proj_norm :=
  unfold upd_m, set_host, set_direction, set_msid, set_rtcp, set_mux, set_ssrc, set_ssrc_group, set_codecs, set_exts, set_mid, set_sctp_cap, set_sctpmap, set_sctp_port, set_dtls_ice, set_cands, set_complete, set_ice_options;
  cbn [bind t_m t_fps t_role t_ufrag t_pwd
       m_kind m_port m_host m_profile m_direction m_msid m_rtcp_port m_rtcp_host m_rtcp_mux m_ssrc m_ssrc_group
       m_fmt m_codecs m_exts m_mid m_sctp_cap m_sctpmap m_sctp_port m_dtls m_ice m_cands m_complete m_ice_options].
Ltac proj_norm_in H :=
  unfold upd_m, set_host, set_direction, set_msid, set_rtcp, set_mux, set_ssrc, set_ssrc_group, set_codecs, set_exts, set_mid, set_sctp_cap, set_sctpmap, set_sctp_port, set_dtls_ice, set_cands, set_complete, set_ice_options in H;
  cbn [bind t_m t_fps t_role t_ufrag t_pwd
       m_kind m_port m_host m_profile m_direction m_msid m_rtcp_port m_rtcp_host m_rtcp_mux m_ssrc m_ssrc_group
       m_fmt m_codecs m_exts m_mid m_sctp_cap m_sctpmap m_sctp_port m_dtls m_ice m_cands m_complete m_ice_options] in H.

Lemma p1_host : forall o l t, addr_lines o Lc = Ok l ->
  rfold step1 l t = Ok (upd_m t (set_host (t_m t) (or_else o (m_host (t_m t))))).
Proof.
  intros [a|] l t H; cbn [addr_lines] in H.
  - destruct (addr_ok a); inversion H; subst. reflexivity.
  - inversion H; subst. cbn [rfold or_else]. f_equal. same_state t.
Qed.

Lemma p1_direction : forall o t,
  rfold step1 (opt_line o Ldir) t = Ok (upd_m t (set_direction (t_m t) (or_else o (m_direction (t_m t))))).
Proof. intros [d|] t; cbn [opt_line rfold step1 bind or_else]; [reflexivity|]. f_equal. same_state t. Qed.

Lemma p1_exts : forall l t,
  rfold step1 (map (fun e => Lextmap (fst e) (snd e)) l) t = Ok (upd_m t (set_exts (t_m t) (m_exts (t_m t) ++ l))).
Proof.
  induction l as [|[i u] l IH]; intros t; cbn [map rfold step1 bind fst snd].
  - rewrite app_nil_r. f_equal. same_state t.
  - rewrite IH. f_equal. dt t. proj_norm. now rewrite <- app_assoc.
Qed.

Lemma p1_mid : forall v t,
  rfold step1 (if truthy v then [Lmid v] else []) t
  = Ok (upd_m t (set_mid (t_m t) (if truthy v then v else m_mid (t_m t)))).
Proof. intros v t. destruct (truthy v); cbn [rfold step1 bind]; [reflexivity|]. f_equal. same_state t. Qed.

Lemma p1_msid : forall v t,
  rfold step1 (if truthy v then [Lmsid v] else []) t
  = Ok (upd_m t (set_msid (t_m t) (if truthy v then v else m_msid (t_m t)))).
Proof. intros v t. destruct (truthy v); cbn [rfold step1 bind]; [reflexivity|]. f_equal. same_state t. Qed.

Lemma p1_rtcp : forall m l t, rtcp_lines m = Ok l ->
  rfold step1 l t
  = Ok (upd_m t (set_rtcp (t_m t) (or_else (m_rtcp_port m) (m_rtcp_port (t_m t)))
                          (match m_rtcp_port m with
                           | Some _ => or_else (m_rtcp_host m) (m_rtcp_host (t_m t))
                           | None => m_rtcp_host (t_m t)
                           end))).
Proof.
  intros m l t H. unfold rtcp_lines in H.
  destruct (m_rtcp_port m) as [p|].
  - destruct (m_rtcp_host m) as [a|].
    + destruct (addr_ok a); inversion H; subst. reflexivity.
    + inversion H; subst. reflexivity.
  - inversion H; subst. cbn [rfold or_else]. f_equal. same_state t.
Qed.

Lemma p1_mux : forall (b : bool) t,
  rfold step1 (if b then [Lrtcp_mux] else []) t = Ok (upd_m t (set_mux (t_m t) (b || m_rtcp_mux (t_m t)))).
Proof. intros [|] t; cbn [rfold step1 bind orb]; [reflexivity|]. f_equal. same_state t. Qed.

Lemma p1_ssrc_group : forall l t,
  rfold step1 (map (fun g => Lssrc_group (Some g)) l) t
  = Ok (upd_m t (set_ssrc_group (t_m t) (m_ssrc_group (t_m t) ++ l))).
Proof.
  induction l as [|g l IH]; intros t; cbn [map rfold step1 bind].
  - rewrite app_nil_r. f_equal. same_state t.
  - rewrite IH. f_equal. dt t. proj_norm. now rewrite <- app_assoc.
Qed.

(* ---- a=ssrc ---- *)
Lemma ssrc_upd_app : forall l r id a v, ~ In id (map s_id l) ->
  ssrc_upd (l ++ r) id a v = l ++ ssrc_upd r id a v.
Proof.
  induction l as [|s l IH]; intros r id a v H; cbn [app ssrc_upd]; [reflexivity|].
  cbn [map In] in H. destruct (Z.eqb (s_id s) id) eqn:E.
  - apply Z.eqb_eq in E. exfalso. apply H. now left.
  - f_equal. apply IH. intro. apply H. now right.
Qed.

Lemma ssrc_upd_ids : forall l id a v,
  map s_id (ssrc_upd l id a v) = if mem_z id (map s_id l) then map s_id l else map s_id l ++ [id].
Proof.
  assert (Hs : forall s a v, s_id (ssrc_setattr s a v) = s_id s).
  { intros s a v. unfold ssrc_setattr.
    destruct (str_eqb a s_cname); [reflexivity|]. destruct (str_eqb a s_msid); [reflexivity|].
    destruct (str_eqb a s_mslabel); [reflexivity|]. destruct (str_eqb a s_label); reflexivity. }
  induction l as [|s l IH]; intros id a v; cbn [ssrc_upd map mem_z app].
  - now rewrite Hs.
  - rewrite (Z.eqb_sym id). destruct (Z.eqb (s_id s) id) eqn:E; cbn [orb map].
    + now rewrite Hs.
    + rewrite IH. destruct (mem_z id (map s_id l)); reflexivity.
Qed.

Definition set_t_ssrc (t : mstate) (v : list ssrc_desc) : mstate := upd_m t (set_ssrc (t_m t) v).

Lemma p1_ssrc_one : forall s pre t, ~ In (s_id s) (map s_id pre) -> m_ssrc (t_m t) = pre ->
  rfold step1 (ssrc_lines s) t
  = Ok (set_t_ssrc t (pre ++ (if ssrc_nonempty s then [s] else []))).
Proof.
  intros [id cn ms msl lb] pre t Hnot Hpre. unfold ssrc_lines, ssrc_nonempty, set_t_ssrc. cbn [s_id s_cn s_ms s_msl s_lb] in *.
  destruct t as [m fps role uf pw]. cbn [t_m] in Hpre.
  assert (E : forall a v, ssrc_upd pre id a v = pre ++ [ssrc_setattr (mkSsrc id None None None None) a v]).
  { intros a v. rewrite <- (app_nil_r pre) at 1. now rewrite ssrc_upd_app. }
  assert (E2 : forall s' a v, s_id s' = id -> ssrc_upd (pre ++ [s']) id a v = pre ++ [ssrc_setattr s' a v]).
  { intros s' a v Hs. rewrite ssrc_upd_app by exact Hnot. cbn [ssrc_upd]. now rewrite Hs, Z.eqb_refl. }
  destruct cn as [cn|], ms as [ms|], msl as [msl|], lb as [lb|];
    cbn [opt_line app rfold step1 bind t_m is_some orb upd_m];
    dm m; cbn [m_ssrc set_ssrc] in *; subst;
    repeat (first [rewrite E | rewrite E2 by reflexivity]; cbn [ssrc_setattr str_eqb s_cname s_msid s_mslabel s_label Z.eqb Pos.eqb andb s_id s_cn s_ms s_msl s_lb m_ssrc set_ssrc]);
    try reflexivity.
  now rewrite app_nil_r.
Qed.

Lemma p1_ssrc : forall l pre t, NoDup (map s_id pre ++ map s_id l) -> m_ssrc (t_m t) = pre ->
  rfold step1 (flat_map ssrc_lines l) t = Ok (set_t_ssrc t (pre ++ filter ssrc_nonempty l)).
Proof.
  induction l as [|s l IH]; intros pre t Hnd Hpre; cbn [flat_map filter rfold].
  - rewrite app_nil_r. unfold set_t_ssrc. f_equal. subst pre. same_state t.
  - rewrite rfold_app. cbn [map] in Hnd.
    rewrite (p1_ssrc_one s pre t); [|intro Hin; apply NoDup_remove_2 in Hnd; apply Hnd; rewrite in_app_iff; now left|exact Hpre].
    cbn [bind].
    rewrite (IH (pre ++ (if ssrc_nonempty s then [s] else []))).
    + unfold set_t_ssrc. dt t. proj_norm.
      destruct (ssrc_nonempty s); cbn [app]; [now rewrite <- app_assoc|now rewrite app_nil_r].
    + destruct (ssrc_nonempty s).
      * rewrite map_app, <- app_assoc. exact Hnd.
      * rewrite app_nil_r. now apply NoDup_remove_1 in Hnd.
    + unfold set_t_ssrc. dt t. reflexivity.
Qed.

(* ---- a=rtpmap (first loop): one blank codec per payload type ---- *)
Definition default_name (mime : str) : str := match name_of mime with Some n => n | None => [] end.

Definition blank (kind : str) (c : codec) : codec :=
  mkCodec (kind ++ SLASH :: default_name (k_mime c)) (k_clock c)
          (if str_eqb kind s_audio
           then Some (match k_channels c with Some 2 => 2 | _ => 1 end)
           else None)
          (k_pt c) [] [].

Definition set_t_codecs (t : mstate) (v : list codec) : mstate := upd_m t (set_codecs (t_m t) v).

Lemma has_pt_false : forall cs pt, ~ In pt (map k_pt cs) -> has_pt cs pt = false.
Proof.
  induction cs as [|c cs IH]; intros pt H; cbn [has_pt existsb]; [reflexivity|].
  cbn [map In] in H. destruct (Z.eqb (k_pt c) pt) eqn:E.
  - apply Z.eqb_eq in E. exfalso. apply H. now left.
  - cbn [orb]. apply IH. intro. apply H. now right.
Qed.

Lemma has_pt_true : forall cs pt, In pt (map k_pt cs) -> has_pt cs pt = true.
Proof.
  unfold has_pt. induction cs as [|c cs IH]; intros pt H; cbn [existsb map In] in *; [destruct H|].
  destruct H as [H|H]; [subst; now rewrite Z.eqb_refl|]. rewrite (IH pt H). apply orb_true_r.
Qed.

Definition pass1_ignored (l : line) : Prop := forall t, step1 t l = Ok t.

Lemma p1_ignored : forall l t, Forall pass1_ignored l -> rfold step1 l t = Ok t.
Proof. intros l t H. apply rfold_noop. exact H. Qed.

Lemma p1_codec_one : forall c l pre t, codec_lines c = Ok l ->
  ~ In (k_pt c) (map k_pt pre) -> m_codecs (t_m t) = pre ->
  rfold step1 l t = Ok (set_t_codecs t (pre ++ [blank (m_kind (t_m t)) c])).
Proof.
  intros c l pre t H Hnot Hpre. unfold codec_lines in H.
  destruct (name_of (k_mime c)) as [n|] eqn:En; [|discriminate]. inversion H; subst l. clear H.
  cbn [rfold]. cbn [step1].
  assert (Hch : (if str_eqb (m_kind (t_m t)) s_audio
                 then match (match k_channels c with Some 2 => Some (Some 2) | _ => None end) with
                      | Some (Some z) => Ok (Some z) | Some None => ValueErr | None => Ok (Some 1) end
                 else Ok None)
                = Ok (if str_eqb (m_kind (t_m t)) s_audio
                      then Some (match k_channels c with Some 2 => 2 | _ => 1 end) else None)).
  { destruct (str_eqb (m_kind (t_m t)) s_audio); [|reflexivity].
    destruct (k_channels c) as [[|[[|[]|]|[|[]|]|]|]|]; reflexivity. }
  rewrite Hch. cbn [bind]. rewrite Hpre, (has_pt_false pre _ Hnot). cbn [bind].
  rewrite p1_ignored.
  - unfold set_t_codecs, blank, default_name. now rewrite En.
  - apply Forall_app. split.
    + apply Forall_forall. intros x Hx. apply in_map_iff in Hx as (f & <- & _). intro. reflexivity.
    + destruct (params_empty (k_params c)); repeat constructor.
Qed.

Lemma p1_codecs : forall cs l pre t, concat_r (map codec_lines cs) = Ok l ->
  NoDup (map k_pt pre ++ map k_pt cs) -> m_codecs (t_m t) = pre ->
  rfold step1 l t = Ok (set_t_codecs t (pre ++ map (blank (m_kind (t_m t))) cs)).
Proof.
  induction cs as [|c cs IH]; intros l pre t H Hnd Hpre; cbn [map concat_r fold_right] in H.
  - inversion H; subst. cbn [rfold map]. rewrite app_nil_r. unfold set_t_codecs. f_equal. same_state t.
  - apply bind_ok in H as (l1 & H1 & H). apply bind_ok in H as (l2 & H2 & H). inversion H; subst l. clear H.
    rewrite rfold_app. cbn [map] in Hnd.
    rewrite (p1_codec_one c l1 pre t H1); [| |exact Hpre].
    2:{ intro Hin. apply NoDup_remove_2 in Hnd. apply Hnd. rewrite in_app_iff. now left. }
    cbn [bind].
    rewrite (IH l2 (pre ++ [blank (m_kind (t_m t)) c])); [|exact H2| |].
    + unfold set_t_codecs. dt t. proj_norm. cbn [map]. now rewrite <- app_assoc.
    + rewrite map_app. cbn [map blank k_pt]. rewrite <- app_assoc. exact Hnd.
    + unfold set_t_codecs. dt t. reflexivity.
Qed.

(* ---- sctp ---- *)
Lemma p1_sctpmap : forall l t, NoDup (map fst (m_sctpmap (t_m t) ++ l)) ->
  rfold step1 (map (fun e => Lsctpmap (fst e) (snd e)) l) t
  = Ok (upd_m t (set_sctpmap (t_m t) (m_sctpmap (t_m t) ++ l))).
Proof.
  induction l as [|[i v] l IH]; intros t H; cbn [map rfold step1 bind fst snd].
  - rewrite app_nil_r. f_equal. same_state t.
  - rewrite (dset_fresh _ _ Z.eqb Zeqb_iff).
    + rewrite IH.
      * f_equal. dt t. proj_norm. now rewrite <- app_assoc.
      * dt t. proj_norm. proj_norm_in H. now rewrite <- app_assoc.
    + rewrite map_app in H. cbn [map fst] in H. apply NoDup_remove_2 in H.
      intro Hin. apply H. rewrite in_app_iff. now left.
Qed.

Lemma p1_sctp_port : forall o t,
  rfold step1 (opt_line o Lsctp_port) t = Ok (upd_m t (set_sctp_port (t_m t) (or_else o (m_sctp_port (t_m t))))).
Proof. intros [d|] t; cbn [opt_line rfold step1 bind or_else]; [reflexivity|]. f_equal. same_state t. Qed.

Lemma p1_max_msg : forall o t,
  rfold step1 (opt_line o Lmax_msg) t = Ok (upd_m t (set_sctp_cap (t_m t) (or_else o (m_sctp_cap (t_m t))))).
Proof. intros [d|] t; cbn [opt_line rfold step1 bind or_else]; [reflexivity|]. f_equal. same_state t. Qed.

(* ---- ice ---- *)
Lemma p1_cands : forall l t,
  rfold step1 (map (fun c => Lcandidate (cand_to_tokens c)) l) t
  = Ok (upd_m t (set_cands (t_m t) (m_cands (t_m t) ++ l))).
Proof.
  induction l as [|c l IH]; intros t; cbn [map rfold step1].
  - rewrite app_nil_r. f_equal. same_state t.
  - rewrite cand_roundtrip. cbn [bind]. rewrite IH. f_equal. dt t. proj_norm. now rewrite <- app_assoc.
Qed.

Lemma p1_complete : forall (b : bool) t,
  rfold step1 (if b then [Lend_of_candidates] else []) t
  = Ok (upd_m t (set_complete (t_m t) (b || m_complete (t_m t)))).
Proof. intros [|] t; cbn [rfold step1 bind orb]; [reflexivity|]. f_equal. same_state t. Qed.

Lemma p1_ice : forall m l t, ice_lines m = Ok l ->
  exists i, m_ice m = Some i /\
  rfold step1 l t = Ok (mkSt (t_m t) (t_fps t) (t_role t) (or_else (i_ufrag i) (t_ufrag t)) (or_else (i_pwd i) (t_pwd t))).
Proof.
  intros m l t H. unfold ice_lines in H. destruct (m_ice m) as [i|]; [|discriminate].
  inversion H; subst l. exists i. split; [reflexivity|].
  destruct i as [[u|] [p|] lt]; cbn [i_ufrag i_pwd opt_line app rfold step1 bind or_else]; dt t; reflexivity.
Qed.

Lemma p1_ice_options : forall o t,
  rfold step1 (opt_line o (fun s => Lice_options (Some s))) t
  = Ok (upd_m t (set_ice_options (t_m t) (or_else o (m_ice_options (t_m t))))).
Proof. intros [d|] t; cbn [opt_line rfold step1 bind or_else]; [reflexivity|]. f_equal. same_state t. Qed.

(* ---- dtls ---- *)
Lemma p1_fps : forall l t,
  rfold step1 (map (fun f => Lfingerprint (fst f) (snd f)) l) t
  = Ok (mkSt (t_m t) (t_fps t ++ l) (t_role t) (t_ufrag t) (t_pwd t)).
Proof.
  induction l as [|[a v] l IH]; intros t; cbn [map rfold step1 bind fst snd].
  - rewrite app_nil_r. f_equal. dt t. reflexivity.
  - rewrite IH. cbn [t_m t_fps t_role t_ufrag t_pwd]. now rewrite <- app_assoc.
Qed.

Lemma role_setup_inv : forall r s, role_setup r = Ok s -> setup_role (Some s) = match r with Some x => Ok x | None => Crash end.
Proof.
  intros [x|] s H; cbn [role_setup] in H; [|discriminate].
  destruct (str_eqb x s_auto) eqn:E1; [apply str_eqb_eq in E1; inversion H; subst; reflexivity|].
  destruct (str_eqb x s_client) eqn:E2; [apply str_eqb_eq in E2; inversion H; subst; reflexivity|].
  destruct (str_eqb x s_server) eqn:E3; [apply str_eqb_eq in E3; inversion H; subst; reflexivity|].
  discriminate.
Qed.

Lemma p1_dtls : forall m l t, dtls_lines m = Ok l ->
  match m_dtls m with
  | None => l = []
  | Some (fps, role) =>
      exists r, role = Some r /\ role_known role = true /\
      rfold step1 l t = Ok (mkSt (t_m t) (t_fps t ++ fps) (Some r) (t_ufrag t) (t_pwd t))
  end.
Proof.
  intros m l t H. unfold dtls_lines in H. destruct (m_dtls m) as [[fps role]|]; [|now inversion H].
  apply bind_ok in H as (s & Hs & H). inversion H; subst l. clear H.
  pose proof (role_setup_inv _ _ Hs) as Hinv.
  destruct role as [r|]; [|discriminate]. exists r. split; [reflexivity|]. split.
  - cbn [role_setup role_known] in *.
    destruct (str_eqb r s_auto); [reflexivity|]. destruct (str_eqb r s_client); [reflexivity|].
    destruct (str_eqb r s_server); [reflexivity|discriminate].
  - rewrite rfold_app, p1_fps. cbn [bind rfold step1]. rewrite Hinv. reflexivity.
Qed.
