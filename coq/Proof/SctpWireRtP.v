(* Lemmas about Model/SctpWire.v, part 2: every well-formed chunk of every type
   parses back to itself; packets round-trip. *)
From Coq Require Import ZArith List Bool Lia ZifyBool.
From AV Require Import Lib.Bytes Lib.BytesP Gen.SctpConst Model.Crc32c Model.SctpWire
  Proof.Crc32cP Proof.SctpWireP.
Import ListNotations.
Local Open Scope Z_scope.

Ltac Zify.zify_post_hook ::= Z.to_euclidean_division_equations.

(* the chunk value as it appears on the wire between header and padding *)
Definition wire_body (c : chunk) : bytes :=
  match c with
  | CData _ tsn stream_id stream_seq protocol user_data =>
      be32 tsn ++ be16 stream_id ++ be16 stream_seq ++ be32 protocol ++ user_data
  | CSack _ cumulative_tsn advertised_rwnd gaps duplicates =>
      be32 cumulative_tsn ++ be32 advertised_rwnd ++ be16 (Z.of_nat (length gaps))
      ++ be16 (Z.of_nat (length duplicates)) ++ flat_map pair_bytes gaps ++ flat_map be32 duplicates
  | CForwardTsn _ cumulative_tsn streams => be32 cumulative_tsn ++ flat_map pair_bytes streams
  | _ => chunk_body c
  end.

Lemma wire_body_fwd f t s : chunk_body (CForwardTsn f t s) = wire_body (CForwardTsn f t s).
Proof. cbn [chunk_body wire_body]. apply fold_left_app_flat. Qed.

Lemma chunk_bytes_canon c :
  chunk_okb c = true ->
  chunk_bytes c = generic_bytes (chunk_type c) (chunk_flags c) (wire_body c).
Proof.
  intros H. destruct c as [f tsn sid sseq proto ud|ty f a b c d e ps|f ctsn rwnd gaps dups|ty f ps|f ctsn
                           |ty f body|f ctsn streams]; try reflexivity.
  - cbn [chunk_bytes chunk_type chunk_flags wire_body]. unfold generic_bytes.
    set (body := be32 tsn ++ be16 sid ++ be16 sseq ++ be32 proto ++ ud).
    assert (L : len body + 4 = 16 + len ud).
    { subst body. unfold len. rewrite !app_length, !length_be32, !length_be16. lia. }
    rewrite L. replace (padl (len body)) with (padl (16 + len ud)) by (rewrite <- L; apply padl_add4).
    destruct ((16 + len ud) mod 4 =? 0) eqn:E; cbn [negb].
    + rewrite padl_0 by lia. rewrite zpad_0, app_nil_r. subst body. now rewrite <- !app_assoc.
    + subst body. now rewrite <- !app_assoc.
  - cbn [chunk_bytes chunk_type chunk_flags wire_body]. unfold generic_bytes.
    rewrite !fold_left_app_flat.
    set (body := be32 ctsn ++ be32 rwnd ++ be16 (Z.of_nat (length gaps)) ++ be16 (Z.of_nat (length dups))
                 ++ flat_map pair_bytes gaps ++ flat_map be32 dups).
    assert (L : len body = 12 + (Z.of_nat (length gaps) + Z.of_nat (length dups)) * 4).
    { subst body. unfold len. rewrite !app_length, !length_be32, !length_be16.
      rewrite (flat_map_length_const pair_bytes 4), (flat_map_length_const be32 4) by reflexivity. lia. }
    rewrite L. rewrite padl_0 by lia. rewrite zpad_0, app_nil_r.
    replace (12 + (Z.of_nat (length gaps) + Z.of_nat (length dups)) * 4 + 4)
      with (16 + (Z.of_nat (length gaps) + Z.of_nat (length dups)) * 4) by lia.
    subst body. now rewrite <- !app_assoc.
  - cbn [chunk_bytes chunk_type chunk_flags]. now rewrite wire_body_fwd.
Qed.

(* ------------------------------------------------------------------ parse_chunks: position independence *)
Lemma parse_chunks_shift fuel : forall pre b k,
  parse_chunks fuel (pre ++ b) (length pre + k) = parse_chunks fuel b k.
Proof.
  induction fuel as [|f IH]; intros pre b k; [reflexivity|].
  cbn [parse_chunks].
  replace (Z.of_nat (length pre + k) <=? len (pre ++ b) - SCTP_CHUNK_HEADER_LENGTH)
    with (Z.of_nat k <=? len b - SCTP_CHUNK_HEADER_LENGTH) by (rewrite len_app; unfold len; lia).
  destruct (Z.of_nat k <=? len b - SCTP_CHUNK_HEADER_LENGTH); [|reflexivity].
  rewrite <- !Nat.add_assoc, !u8_app_r, u16_app_r.
  destruct (u8 b k) as [ty|]; [|reflexivity].
  destruct (u8 b (k + 1)) as [fl|]; [|reflexivity].
  destruct (u16 b (k + 2)) as [cl|]; [|reflexivity].
  replace (Z.of_nat (length pre + k) + cl >? len (pre ++ b)) with (Z.of_nat k + cl >? len b)
    by (rewrite len_app; unfold len; lia).
  destruct ((cl <? SCTP_CHUNK_HEADER_LENGTH) || (Z.of_nat k + cl >? len b)); [reflexivity|].
  rewrite <- !Nat.add_assoc, !slice_app_r, !IH. reflexivity.
Qed.

Lemma generic_bytes_length ty fl body :
  length (generic_bytes ty fl body) = (4 + length body + Z.to_nat (padl (len body)))%nat.
Proof.
  unfold generic_bytes. pose proof (padl_range (len body)).
  rewrite !app_length, zpad_length by lia. cbn [be8 be16 length]. lia.
Qed.

Lemma generic_bytes_ok ty fl body : bytes_ok body -> bytes_ok (generic_bytes ty fl body).
Proof.
  intros H. unfold generic_bytes. rewrite !bytes_ok_app. repeat split;
    try apply be8_ok; try apply be16_ok; try apply zpad_ok; exact H.
Qed.

(* one iteration of the loop in parse_packet on a chunk in canonical form *)
Lemma parse_chunks_generic fuel ty fl body rest :
  in_u8 ty = true -> in_u8 fl = true -> in_u16 (len body + 4) = true ->
  parse_chunks (S fuel) (generic_bytes ty fl body ++ rest) 0 =
  match chunk_ctor ty fl body with
  | Some r => if negb (nonempty body) && has_fixed_part ty then ValueErr
              else bind r (fun c => bind (parse_chunks fuel rest 0) (fun cs => Ok (c :: cs)))
  | None => parse_chunks fuel rest 0
  end.
Proof.
  intros Hty Hfl Hl. apply in_u8_iff in Hty. apply in_u8_iff in Hfl. apply in_u16_iff in Hl.
  pose proof (len_nonneg body) as Hb0. pose proof (padl_range (len body)) as Hpad.
  set (data := generic_bytes ty fl body ++ rest).
  assert (Ldata : len data = 4 + len body + padl (len body) + len rest).
  { subst data. rewrite len_app. unfold len at 1. rewrite generic_bytes_length. unfold len in *. lia. }
  pose proof (len_nonneg rest) as Hr0.
  assert (R1 : u8 data 0 = Some ty).
  { subst data. unfold generic_bytes. rewrite !be8_small by lia. reflexivity. }
  assert (R2 : u8 data (0 + 1) = Some fl).
  { subst data. unfold generic_bytes. rewrite !be8_small by lia. reflexivity. }
  assert (R3 : u16 data (0 + 2) = Some (len body + 4)).
  { subst data. unfold generic_bytes. rewrite !be8_small by lia. rd. }
  assert (R4 : slice data (0 + Z.to_nat SCTP_CHUNK_HEADER_LENGTH) (0 + Z.to_nat (len body + 4)) = body).
  { subst data. unfold generic_bytes. rewrite <- !app_assoc.
    rewrite (app_assoc (be8 ty)), (app_assoc (be8 ty ++ be8 fl)).
    change (0 + Z.to_nat SCTP_CHUNK_HEADER_LENGTH)%nat with (length ((be8 ty ++ be8 fl) ++ be16 (len body + 4))).
    replace (0 + Z.to_nat (len body + 4))%nat
      with (length ((be8 ty ++ be8 fl) ++ be16 (len body + 4)) + length body)%nat.
    2:{ rewrite !app_length. cbn [be8 be16 length]. unfold len. lia. }
    apply slice_app_mid. }
  cbn [parse_chunks]. rewrite R1, R2, R3, Ldata. unfold SCTP_CHUNK_HEADER_LENGTH at 1 2.
  destruct (Z.of_nat 0 <=? 4 + len body + padl (len body) + len rest - 4) eqn:E1; [|lia].
  destruct ((len body + 4 <? 4) || (Z.of_nat 0 + (len body + 4) >? 4 + len body + padl (len body) + len rest)) eqn:E2;
    [lia|].
  rewrite R4.
  replace (0 + Z.to_nat (len body + 4 + padl (len body + 4)))%nat
    with (length (generic_bytes ty fl body) + 0)%nat.
  2:{ rewrite generic_bytes_length, padl_add4. unfold len in *. lia. }
  subst data. rewrite parse_chunks_shift. reflexivity.
Qed.

(* ------------------------------------------------------------------ each constructor inverts its serialiser *)
Ltac split_ok H :=
  repeat match type of H with
         | (_ && _) = true => let H1 := fresh H in apply andb_true_iff in H; destruct H as [H H1]
         end.

Lemma ctor_data f tsn sid sseq proto ud :
  chunk_okb (CData f tsn sid sseq proto ud) = true ->
  data_ctor f (wire_body (CData f tsn sid sseq proto ud)) = Ok (CData f tsn sid sseq proto ud).
Proof.
  unfold chunk_okb. cbn [chunk_flags]. intros H.
  rewrite !andb_true_iff, !in_u32_iff, !in_u16_iff in H. destruct H as (Hf & ((((Ht & Hs) & Hq) & Hp) & Hu) & Hl).
  cbn [wire_body]. set (body := be32 tsn ++ be16 sid ++ be16 sseq ++ be32 proto ++ ud).
  assert (L : len body = 12 + len ud).
  { subst body. unfold len. rewrite !app_length, !length_be32, !length_be16. lia. }
  pose proof (len_nonneg ud) as Hu0.
  assert (R1 : u32 body 0 = Some tsn) by (subst body; rd).
  assert (R2 : u16 body 4 = Some sid) by (subst body; rd).
  assert (R3 : u16 body 6 = Some sseq) by (subst body; rd).
  assert (R4 : u32 body 8 = Some proto) by (subst body; rd).
  assert (R5 : from body 12 = ud) by (subst body; reflexivity).
  unfold data_ctor. replace (nonempty body) with true by (symmetry; apply nonempty_len; lia).
  rewrite L, R1, R2, R3, R4, R5. destruct (12 + len ud <? 12) eqn:E; [lia|reflexivity].
Qed.

Lemma ctor_init ty f a b c d e ps :
  chunk_okb (CInit ty f a b c d e ps) = true ->
  init_ctor ty f (wire_body (CInit ty f a b c d e ps)) = Ok (CInit ty f a b c d e ps).
Proof.
  unfold chunk_okb. cbn [chunk_flags]. intros H.
  rewrite !andb_true_iff, !in_u32_iff, !in_u16_iff in H.
  destruct H as (Hf & (((((((Hty & Ha) & Hb) & Hc) & Hd) & He) & Hps) & Hl)).
  cbn [wire_body chunk_body].
  set (body := (be32 a ++ be32 b ++ be16 c ++ be16 d ++ be32 e) ++ encode_params ps).
  assert (L : len body = 16 + len (encode_params ps)).
  { subst body. unfold len. rewrite !app_length, !length_be32, !length_be16. lia. }
  pose proof (len_nonneg (encode_params ps)) as Hp0.
  assert (R1 : u32 body 0 = Some a) by (subst body; rd).
  assert (R2 : u32 body 4 = Some b) by (subst body; rd).
  assert (R3 : u16 body 8 = Some c) by (subst body; rd).
  assert (R4 : u16 body 10 = Some d) by (subst body; rd).
  assert (R5 : u32 body 12 = Some e) by (subst body; rd).
  assert (R6 : from body 16 = encode_params ps) by (subst body; reflexivity).
  unfold init_ctor. replace (nonempty body) with true by (symmetry; apply nonempty_len; lia).
  rewrite L, R1, R2, R3, R4, R5, R6. destruct (16 + len (encode_params ps) <? 16) eqn:E; [lia|].
  rewrite decode_encode_params by exact Hps. reflexivity.
Qed.

Lemma ctor_sack f ctsn rwnd gaps dups :
  chunk_okb (CSack f ctsn rwnd gaps dups) = true ->
  sack_ctor f (wire_body (CSack f ctsn rwnd gaps dups)) = Ok (CSack f ctsn rwnd gaps dups).
Proof.
  unfold chunk_okb. cbn [chunk_flags]. intros H.
  rewrite !andb_true_iff, !in_u32_iff, !in_u16_iff in H.
  destruct H as (Hf & ((((Ha & Hb) & Hg) & Hd) & Hl)).
  cbn [wire_body].
  set (ng := Z.of_nat (length gaps)) in *. set (nd := Z.of_nat (length dups)) in *.
  set (body := be32 ctsn ++ be32 rwnd ++ be16 ng ++ be16 nd ++ flat_map pair_bytes gaps ++ flat_map be32 dups).
  assert (L : len body = 12 + (ng + nd) * 4).
  { subst body ng nd. unfold len. rewrite !app_length, !length_be32, !length_be16.
    rewrite (flat_map_length_const pair_bytes 4), (flat_map_length_const be32 4) by reflexivity. lia. }
  assert (Hng : 0 <= ng) by (subst ng; lia). assert (Hnd : 0 <= nd) by (subst nd; lia).
  assert (R1 : u32 body 0 = Some ctsn) by (subst body; rd).
  assert (R2 : u32 body 4 = Some rwnd) by (subst body; rd).
  assert (R3 : u16 body 8 = Some ng) by (subst body; rd).
  assert (R4 : u16 body 10 = Some nd) by (subst body; rd).
  assert (R5 : read_pairs body 12 (Z.to_nat ng) = Some gaps).
  { subst body. rewrite (app_assoc (be32 ctsn)), (app_assoc (be32 ctsn ++ be32 rwnd)),
      (app_assoc ((be32 ctsn ++ be32 rwnd) ++ be16 ng)).
    change 12%nat with (length (((be32 ctsn ++ be32 rwnd) ++ be16 ng) ++ be16 nd) + 0)%nat.
    rewrite read_pairs_shift. subst ng. rewrite Nat2Z.id. now apply read_pairs_flat. }
  assert (R6 : read_u32s body (12 + Z.to_nat ng * 4) (Z.to_nat nd) = Some dups).
  { subst body. rewrite (app_assoc (be32 ctsn)), (app_assoc (be32 ctsn ++ be32 rwnd)),
      (app_assoc ((be32 ctsn ++ be32 rwnd) ++ be16 ng)),
      (app_assoc (((be32 ctsn ++ be32 rwnd) ++ be16 ng) ++ be16 nd)).
    replace (12 + Z.to_nat ng * 4)%nat
      with (length ((((be32 ctsn ++ be32 rwnd) ++ be16 ng) ++ be16 nd) ++ flat_map pair_bytes gaps) + 0)%nat.
    2:{ rewrite app_length, (flat_map_length_const pair_bytes 4) by reflexivity. subst ng.
        rewrite Nat2Z.id. cbn [app length be32 be16]. lia. }
    rewrite read_u32s_shift. subst nd. rewrite Nat2Z.id.
    rewrite <- (app_nil_r (flat_map be32 dups)). now apply read_u32s_flat. }
  unfold sack_ctor. replace (nonempty body) with true by (symmetry; apply nonempty_len; lia).
  rewrite L, R1, R2, R3, R4.
  destruct (12 + (ng + nd) * 4 <? 12) eqn:E1; [lia|].
  destruct (12 + (ng + nd) * 4 >? 12 + (ng + nd) * 4) eqn:E2; [lia|].
  rewrite R5, R6. reflexivity.
Qed.

Lemma ctor_params ty f ps :
  chunk_okb (CParams ty f ps) = true ->
  params_ctor ty f (wire_body (CParams ty f ps)) = Ok (CParams ty f ps).
Proof.
  unfold chunk_okb. cbn [chunk_flags]. intros H.
  rewrite !andb_true_iff in H. destruct H as (Hf & ((Hty & Hps) & Hl)).
  cbn [wire_body chunk_body]. unfold params_ctor.
  destruct (nonempty (encode_params ps)) eqn:E.
  - rewrite decode_encode_params by exact Hps. reflexivity.
  - apply nonempty_false, encode_params_nil_inv in E. now subst ps.
Qed.

Lemma ctor_shutdown f ctsn :
  chunk_okb (CShutdown f ctsn) = true ->
  shutdown_ctor f (wire_body (CShutdown f ctsn)) = Ok (CShutdown f ctsn).
Proof.
  unfold chunk_okb. cbn [chunk_flags]. intros H.
  rewrite !andb_true_iff, !in_u32_iff in H. destruct H as (Hf & Ha).
  cbn [wire_body chunk_body]. unfold shutdown_ctor. cbn [nonempty be32].
  change (len (be32 ctsn) <? 4) with false. cbv iota.
  assert (R1 : u32 (be32 ctsn) 0 = Some ctsn) by rd.
  cbn [be32] in R1. rewrite R1. reflexivity.
Qed.

Lemma ctor_fwd f ctsn streams :
  chunk_okb (CForwardTsn f ctsn streams) = true ->
  fwd_ctor f (wire_body (CForwardTsn f ctsn streams)) = Ok (CForwardTsn f ctsn streams).
Proof.
  unfold chunk_okb. cbn [chunk_flags]. intros H.
  rewrite !andb_true_iff, !in_u32_iff, !in_u16_iff in H. destruct H as (Hf & ((Ha & Hs) & Hl)).
  cbn [wire_body]. set (body := be32 ctsn ++ flat_map pair_bytes streams).
  assert (L : len body = 4 + Z.of_nat (length streams) * 4).
  { subst body. unfold len. rewrite app_length, length_be32, (flat_map_length_const pair_bytes 4) by reflexivity. lia. }
  assert (R1 : u32 body 0 = Some ctsn) by (subst body; rd).
  assert (R2 : fwd_streams_loop (S (length body)) body 4 = Ok streams).
  { subst body.
    pose proof (fwd_shift (S (length (be32 ctsn ++ flat_map pair_bytes streams))) (be32 ctsn)
                          (flat_map pair_bytes streams) 0) as Hsh.
    change (length (be32 ctsn) + 0)%nat with 4%nat in Hsh. rewrite Hsh.
    apply fwd_flat; [exact Hs|]. rewrite app_length, (flat_map_length_const pair_bytes 4) by reflexivity. lia. }
  unfold fwd_ctor. replace (nonempty body) with true by (symmetry; apply nonempty_len; lia).
  rewrite L, R1, R2.
  destruct ((4 + Z.of_nat (length streams) * 4 <? 4) || negb ((4 + Z.of_nat (length streams) * 4) mod 4 =? 0)) eqn:E;
    [lia|reflexivity].
Qed.

Lemma chunk_okb_type c : chunk_okb c = true -> in_u8 (chunk_type c) = true /\ in_u8 (chunk_flags c) = true.
Proof.
  unfold chunk_okb. intros H. apply andb_true_iff in H. destruct H as [Hf H]. split; [|exact Hf].
  destruct c; cbn [chunk_type]; try reflexivity; rewrite !andb_true_iff in H; unfold in_u8; lia.
Qed.

Lemma chunk_ctor_wire c :
  chunk_okb c = true -> chunk_ctor (chunk_type c) (chunk_flags c) (wire_body c) = Some (Ok c).
Proof.
  intros H. destruct c as [f tsn sid sseq proto ud|ty f a b c d e ps|f ctsn rwnd gaps dups|ty f ps|f ctsn
                           |ty f body|f ctsn streams]; cbn [chunk_type chunk_flags].
  - unfold chunk_ctor. cbn [Z.eqb]. now rewrite ctor_data.
  - assert (T : (ty =? 1) || (ty =? 2) = true).
    { unfold chunk_okb in H. rewrite !andb_true_iff in H. tauto. }
    unfold chunk_ctor. rewrite T. replace (ty =? 0) with false by lia. now rewrite ctor_init.
  - unfold chunk_ctor. cbn [Z.eqb Pos.eqb orb]. now rewrite ctor_sack.
  - assert (T : (ty =? 4) || (ty =? 5) || (ty =? 6) || (ty =? 9) || (ty =? 130) = true).
    { unfold chunk_okb in H. rewrite !andb_true_iff in H. tauto. }
    unfold chunk_ctor. rewrite T. replace (ty =? 0) with false by lia.
    replace ((ty =? 1) || (ty =? 2)) with false by lia. replace (ty =? 3) with false by lia.
    now rewrite ctor_params.
  - unfold chunk_ctor. cbn [Z.eqb Pos.eqb orb]. now rewrite ctor_shutdown.
  - assert (T : (ty =? 8) || (ty =? 10) || (ty =? 11) || (ty =? 14) = true).
    { unfold chunk_okb in H. rewrite !andb_true_iff in H. tauto. }
    unfold chunk_ctor. rewrite T. replace (ty =? 0) with false by lia.
    replace ((ty =? 1) || (ty =? 2)) with false by lia. replace (ty =? 3) with false by lia.
    replace ((ty =? 4) || (ty =? 5) || (ty =? 6) || (ty =? 9) || (ty =? 130)) with false by lia.
    replace (ty =? 7) with false by lia. reflexivity.
  - unfold chunk_ctor. cbn [Z.eqb Pos.eqb orb]. now rewrite ctor_fwd.
Qed.

(* length field and byte-validity of the canonical body *)
Lemma wire_body_len c : chunk_okb c = true -> in_u16 (len (wire_body c) + 4) = true.
Proof.
  intros H. unfold chunk_okb in H.
  destruct c as [f tsn sid sseq proto ud|ty f a b c d e ps|f ctsn rwnd gaps dups|ty f ps|f ctsn
                 |ty f body|f ctsn streams]; rewrite !andb_true_iff in H.
  - cbn [wire_body]. replace (len (be32 tsn ++ be16 sid ++ be16 sseq ++ be32 proto ++ ud) + 4) with (16 + len ud).
    + tauto.
    + unfold len. rewrite !app_length, !length_be32, !length_be16. lia.
  - cbn [wire_body]. tauto.
  - cbn [wire_body].
    replace (len (be32 ctsn ++ be32 rwnd ++ be16 (Z.of_nat (length gaps)) ++ be16 (Z.of_nat (length dups))
                  ++ flat_map pair_bytes gaps ++ flat_map be32 dups) + 4)
      with (16 + (Z.of_nat (length gaps) + Z.of_nat (length dups)) * 4).
    + tauto.
    + unfold len. rewrite !app_length, !length_be32, !length_be16.
      rewrite (flat_map_length_const pair_bytes 4), (flat_map_length_const be32 4) by reflexivity. lia.
  - cbn [wire_body]. tauto.
  - reflexivity.
  - cbn [wire_body chunk_body]. tauto.
  - rewrite <- wire_body_fwd. tauto.
Qed.

Lemma wire_body_ok c : chunk_okb c = true -> bytes_ok (wire_body c).
Proof.
  intros H. unfold chunk_okb in H.
  destruct c as [f tsn sid sseq proto ud|ty f a b c d e ps|f ctsn rwnd gaps dups|ty f ps|f ctsn
                 |ty f body|f ctsn streams]; rewrite !andb_true_iff in H; cbn [wire_body chunk_body].
  - rewrite !bytes_ok_app. repeat split; try apply be32_ok; try apply be16_ok. apply bytes_okb_ok. tauto.
  - rewrite !bytes_ok_app. repeat split; try apply be32_ok; try apply be16_ok. apply encode_params_ok. tauto.
  - rewrite !bytes_ok_app. repeat split; try apply be32_ok; try apply be16_ok.
    + apply flat_map_ok, pair_bytes_ok.
    + apply flat_map_ok, be32_ok.
  - apply encode_params_ok. tauto.
  - apply be32_ok.
  - apply bytes_okb_ok. tauto.
  - rewrite bytes_ok_app. split; [apply be32_ok|apply flat_map_ok, pair_bytes_ok].
Qed.

Lemma chunk_bytes_ok c : chunk_okb c = true -> bytes_ok (chunk_bytes c).
Proof. intros H. rewrite chunk_bytes_canon by exact H. apply generic_bytes_ok, wire_body_ok, H. Qed.

Lemma chunk_bytes_length_ge c : chunk_okb c = true -> (4 <= length (chunk_bytes c))%nat.
Proof. intros H. rewrite chunk_bytes_canon, generic_bytes_length by exact H. lia. Qed.

(* serialised chunks of the classes with a fixed part never have an empty body *)
Lemma wire_body_fixed_nonempty c :
  chunk_okb c = true -> negb (nonempty (wire_body c)) && has_fixed_part (chunk_type c) = false.
Proof.
  intros H. unfold chunk_okb in H.
  destruct c as [f tsn sid sseq proto ud|ty f a b c d e ps|f ctsn rwnd gaps dups|ty f ps|f ctsn
                 |ty f body|f ctsn streams]; try reflexivity.
  - rewrite !andb_true_iff in H. cbn [chunk_type]. unfold has_fixed_part. apply andb_false_iff. right. lia.
  - rewrite !andb_true_iff in H. cbn [chunk_type]. unfold has_fixed_part. apply andb_false_iff. right. lia.
Qed.

(* ------------------------------------------------------------------ a bundle of chunks *)
Definition chunks_bytes (cs : list chunk) : bytes := flat_map chunk_bytes cs.

Lemma parse_chunks_bundle cs : forall fuel,
  forallb chunk_okb cs = true -> (length cs < fuel)%nat ->
  parse_chunks fuel (chunks_bytes cs) 0 = Ok cs.
Proof.
  induction cs as [|c cs IH]; intros fuel H Hf.
  - destruct fuel; [lia|]. reflexivity.
  - destruct fuel as [|f]; [lia|]. cbn [length] in Hf.
    cbn [forallb] in H. apply andb_true_iff in H. destruct H as [Hc Hcs].
    unfold chunks_bytes. cbn [flat_map]. rewrite chunk_bytes_canon by exact Hc.
    destruct (chunk_okb_type c Hc) as [Hty Hfl].
    rewrite parse_chunks_generic by (assumption || now apply wire_body_len).
    rewrite chunk_ctor_wire, wire_body_fixed_nonempty by exact Hc. cbn [bind].
    fold (chunks_bytes cs). rewrite IH by (assumption || lia). reflexivity.
Qed.

Lemma chunks_bytes_count cs : forallb chunk_okb cs = true -> (4 * length cs <= length (chunks_bytes cs))%nat.
Proof.
  induction cs as [|c cs IH]; intros H; [cbn; lia|].
  cbn [forallb] in H. apply andb_true_iff in H. destruct H as [Hc Hcs].
  unfold chunks_bytes in *. cbn [flat_map length]. rewrite app_length.
  pose proof (chunk_bytes_length_ge c Hc). specialize (IH Hcs). lia.
Qed.

Lemma chunks_bytes_ok cs : forallb chunk_okb cs = true -> bytes_ok (chunks_bytes cs).
Proof.
  induction cs as [|c cs IH]; intros H; [constructor|].
  cbn [forallb] in H. apply andb_true_iff in H. destruct H as [Hc Hcs].
  unfold chunks_bytes in *. cbn [flat_map]. apply bytes_ok_app. split; [now apply chunk_bytes_ok|now apply IH].
Qed.

(* ------------------------------------------------------------------ packets *)
Definition checksum_okb (data : bytes) : bool :=
  match u32le data 8 with
  | Some c => c =? crc32c (checksum_input data)
  | None => false
  end.

Lemma packet_bytes_ok sp dp tag body : bytes_ok body -> bytes_ok (packet_bytes sp dp tag body).
Proof.
  intros H. unfold packet_bytes. rewrite !bytes_ok_app. repeat split;
    try apply be16_ok; try apply be32_ok; try apply le32_ok; exact H.
Qed.

Lemma packet_bytes_length sp dp tag body : length (packet_bytes sp dp tag body) = (12 + length body)%nat.
Proof. unfold packet_bytes. rewrite !app_length, !length_be16, length_be32, length_le32. lia. Qed.

Lemma packet_bytes_checksum_input sp dp tag body :
  checksum_input (packet_bytes sp dp tag body) = (be16 sp ++ be16 dp ++ be32 tag) ++ [0; 0; 0; 0] ++ body.
Proof. reflexivity. Qed.

Lemma packet_bytes_checksum_ok sp dp tag body : checksum_okb (packet_bytes sp dp tag body) = true.
Proof.
  unfold checksum_okb. rewrite packet_bytes_checksum_input. unfold packet_bytes.
  set (crc := crc32c ((be16 sp ++ be16 dp ++ be32 tag) ++ [0; 0; 0; 0] ++ body)).
  pose proof (crc32c_range ((be16 sp ++ be16 dp ++ be32 tag) ++ [0; 0; 0; 0] ++ body)) as Hc. fold crc in Hc.
  pose proof (u32le_at (be16 sp ++ be16 dp ++ be32 tag) crc body Hc) as R.
  change (length (be16 sp ++ be16 dp ++ be32 tag)) with 8%nat in R. cbv zeta. fold crc. rewrite R.
  apply Z.eqb_refl.
Qed.

Lemma parse_packet_checksum_okb data :
  SCTP_PACKET_MINIMUM_LENGTH <= len data -> checksum_okb data = true ->
  parse_packet data =
  match u16 data 0, u16 data 2, u32 data 4 with
  | Some sp, Some dp, Some tag =>
      bind (parse_chunks (S (length data)) data 12) (fun chunks => Ok (sp, dp, tag, chunks))
  | _, _, _ => Crash
  end.
Proof.
  intros Hl Hc. unfold parse_packet. destruct (len data <? SCTP_PACKET_MINIMUM_LENGTH) eqn:E; [lia|].
  unfold checksum_okb in Hc.
  destruct (u16 data 0); [|reflexivity]. destruct (u16 data 2); [|reflexivity].
  destruct (u32 data 4); [|reflexivity]. destruct (u32le data 8); [|discriminate].
  rewrite Hc. reflexivity.
Qed.

Lemma u32le_some l i : (i + 4 <= length l)%nat -> exists v, u32le l i = Some v.
Proof.
  intros H. unfold u32le.
  destruct (u8_some l i) as [a ->]; [lia|]. destruct (u8_some l (1 + i)) as [b ->]; [lia|].
  destruct (u8_some l (2 + i)) as [c ->]; [lia|]. destruct (u8_some l (3 + i)) as [d ->]; [lia|]. eauto.
Qed.

Lemma parse_packet_bad_checksum data : checksum_okb data = false -> parse_packet data = ValueErr.
Proof.
  intros Hc. unfold parse_packet. destruct (len data <? SCTP_PACKET_MINIMUM_LENGTH) eqn:E; [reflexivity|].
  unfold SCTP_PACKET_MINIMUM_LENGTH in E. unfold len in E.
  destruct (u16_some data 0) as [sp ->]; [lia|]. destruct (u16_some data 2) as [dp ->]; [lia|].
  destruct (u32_some data 4) as [tag ->]; [lia|]. unfold checksum_okb in Hc.
  destruct (u32le_some data 8) as [c Ec]; [lia|]. rewrite Ec in *. rewrite Hc. reflexivity.
Qed.

(* parse_packet of any bundle of well-formed chunks with a correct checksum *)
Lemma parse_packet_bundle sp dp tag cs :
  in_u16 sp = true -> in_u16 dp = true -> in_u32 tag = true ->
  forallb chunk_okb cs = true -> cs <> [] ->
  parse_packet (packet_bytes sp dp tag (chunks_bytes cs)) = Ok (sp, dp, tag, cs).
Proof.
  intros Hsp Hdp Htag Hcs Hne. apply in_u16_iff in Hsp. apply in_u16_iff in Hdp. apply in_u32_iff in Htag.
  pose proof (chunks_bytes_count cs Hcs) as Hcount.
  assert (0 < length cs)%nat by (destruct cs; [congruence|cbn [length]; lia]).
  rewrite parse_packet_checksum_okb.
  2:{ unfold len. rewrite packet_bytes_length. unfold SCTP_PACKET_MINIMUM_LENGTH. lia. }
  2:{ apply packet_bytes_checksum_ok. }
  rewrite packet_bytes_length.
  assert (R1 : u16 (packet_bytes sp dp tag (chunks_bytes cs)) 0 = Some sp) by (unfold packet_bytes; rd).
  assert (R2 : u16 (packet_bytes sp dp tag (chunks_bytes cs)) 2 = Some dp) by (unfold packet_bytes; rd).
  assert (R3 : u32 (packet_bytes sp dp tag (chunks_bytes cs)) 4 = Some tag) by (unfold packet_bytes; rd).
  rewrite R1, R2, R3. unfold packet_bytes.
  set (crc := crc32c _).
  rewrite (app_assoc _ (le32 crc)).
  change 12%nat with (length ((be16 sp ++ be16 dp ++ be32 tag) ++ le32 crc) + 0)%nat at 2.
  rewrite parse_chunks_shift, parse_chunks_bundle; [reflexivity|exact Hcs|lia].
Qed.

(* the statement for serialize_packet (one chunk, as the implementation sends) *)
Lemma chunk_roundtrip sp dp tag c :
  in_u16 sp = true -> in_u16 dp = true -> in_u32 tag = true -> chunk_okb c = true ->
  exists data,
    serialize_packet sp dp tag c = Ok data /\ bytes_ok data /\
    parse_packet data = Ok (sp, dp, tag, [c]).
Proof.
  intros Hsp Hdp Htag Hc. exists (packet_bytes sp dp tag (chunk_bytes c)). split; [|split].
  - unfold serialize_packet. now rewrite Hsp, Hdp, Htag, Hc.
  - apply packet_bytes_ok, chunk_bytes_ok, Hc.
  - rewrite <- (app_nil_r (chunk_bytes c)). change (chunk_bytes c ++ []) with (chunks_bytes [c]).
    apply parse_packet_bundle; try assumption; [|discriminate]. cbn [forallb]. now rewrite Hc.
Qed.

(* a received chunk of a class with mandatory fields and an empty body (length field 4) is
   rejected instead of being given default field values *)
Lemma empty_fixed_chunk_rejected sp dp tag ty fl rest :
  in_u16 sp = true -> in_u16 dp = true -> in_u32 tag = true ->
  has_fixed_part ty = true -> in_u8 fl = true ->
  parse_packet (packet_bytes sp dp tag (generic_bytes ty fl [] ++ rest)) = ValueErr.
Proof.
  intros Hsp Hdp Htag Hty Hfl. apply in_u16_iff in Hsp. apply in_u16_iff in Hdp. apply in_u32_iff in Htag.
  assert (Hty8 : in_u8 ty = true) by (unfold has_fixed_part in Hty; unfold in_u8; lia).
  set (body := generic_bytes ty fl [] ++ rest).
  assert (Lb : (4 <= length body)%nat) by (subst body; rewrite app_length, generic_bytes_length; cbn [length]; lia).
  rewrite parse_packet_checksum_okb.
  2:{ unfold len. rewrite packet_bytes_length. unfold SCTP_PACKET_MINIMUM_LENGTH. lia. }
  2:{ apply packet_bytes_checksum_ok. }
  rewrite packet_bytes_length.
  assert (R1 : u16 (packet_bytes sp dp tag body) 0 = Some sp) by (unfold packet_bytes; rd).
  assert (R2 : u16 (packet_bytes sp dp tag body) 2 = Some dp) by (unfold packet_bytes; rd).
  assert (R3 : u32 (packet_bytes sp dp tag body) 4 = Some tag) by (unfold packet_bytes; rd).
  rewrite R1, R2, R3. unfold packet_bytes.
  set (crc := crc32c _).
  rewrite (app_assoc _ (le32 crc)).
  change 12%nat with (length ((be16 sp ++ be16 dp ++ be32 tag) ++ le32 crc) + 0)%nat at 2.
  rewrite parse_chunks_shift. subst body. rewrite parse_chunks_generic by (assumption || reflexivity).
  rewrite Hty. cbn [nonempty negb andb].
  unfold has_fixed_part in Hty. unfold chunk_ctor.
  destruct (ty =? 0); [reflexivity|]. destruct ((ty =? 1) || (ty =? 2)) eqn:E1; [reflexivity|].
  destruct (ty =? 3); [reflexivity|].
  destruct ((ty =? 4) || (ty =? 5) || (ty =? 6) || (ty =? 9) || (ty =? 130)); [reflexivity|].
  destruct (ty =? 7) eqn:E7; [reflexivity|].
  destruct ((ty =? 8) || (ty =? 10) || (ty =? 11) || (ty =? 14)); [reflexivity|].
  destruct (ty =? 192) eqn:E9; [reflexivity|]. lia.
Qed.
