(* Proofs about Model/Router.v (property C12). *)
From Coq Require Import ZArith List Bool Lia.
From AV Require Import Lib.Sx Lib.Bytes Gen.RtpConst Model.Router.
Import ListNotations.
Local Open Scope Z_scope.

(* ---------------------------------------------------------------- dicts *)
Lemma lookup_In d k v : lookup d k = Some v -> In (k, v) d.
Proof.
  induction d as [|[k' v'] d IH]; cbn [lookup]; [discriminate|].
  destruct (Z.eqb_spec k k') as [->|Hne]; intros H.
  - injection H as ->. now left.
  - right. now apply IH.
Qed.

Lemma lookup_dremove_same d k : lookup (dremove d k) k = None.
Proof.
  induction d as [|[k' v'] d IH]; cbn [dremove lookup]; [reflexivity|].
  destruct (Z.eqb_spec k k') as [->|Hne]; [exact IH|].
  cbn [lookup]. destruct (Z.eqb_spec k k'); [contradiction|exact IH].
Qed.

Lemma lookup_dremove_other d k k' : k <> k' -> lookup (dremove d k) k' = lookup d k'.
Proof.
  intros Hne. induction d as [|[k2 v2] d IH]; cbn [dremove lookup]; [reflexivity|].
  destruct (Z.eqb_spec k k2) as [->|H2].
  - destruct (Z.eqb_spec k' k2) as [->|H3]; [contradiction|exact IH].
  - cbn [lookup]. destruct (Z.eqb_spec k' k2); [reflexivity|exact IH].
Qed.

Lemma lookup_dset_same d k v : lookup (dset d k v) k = Some v.
Proof. unfold dset; cbn [lookup]. now rewrite Z.eqb_refl. Qed.

Lemma lookup_dset_other d k v k' : k <> k' -> lookup (dset d k v) k' = lookup d k'.
Proof.
  intros Hne. unfold dset; cbn [lookup].
  destruct (Z.eqb_spec k' k) as [->|_]; [contradiction|].
  now apply lookup_dremove_other.
Qed.

Definition noval (d : dict) (r : Z) : Prop := Forall (fun kv => snd kv <> r) d.

Lemma noval_lookup d r k : noval d r -> lookup d k <> Some r.
Proof.
  intros H E. apply lookup_In in E. unfold noval in H. rewrite Forall_forall in H.
  apply H in E. now apply E.
Qed.

Lemma noval_dremove d r k : noval d r -> noval (dremove d k) r.
Proof.
  unfold noval. induction d as [|[k' v'] d IH]; cbn [dremove]; intros H; [constructor|].
  inversion H as [|? ? H1 H2]; subst. destruct (Z.eqb k k'); [now apply IH|].
  constructor; [exact H1|now apply IH].
Qed.

Lemma noval_dset d r k v : noval d r -> v <> r -> noval (dset d k v) r.
Proof. intros H Hv. unfold dset. constructor; [exact Hv|now apply noval_dremove]. Qed.

Lemma noval_discard_same d r : noval (discard d r) r.
Proof.
  unfold noval, discard. rewrite Forall_forall. intros [k v] Hin.
  apply filter_In in Hin as [_ Hf]. cbn [snd] in *.
  destruct (Z.eqb_spec v r); [discriminate|assumption].
Qed.

Lemma noval_discard d r r' : noval d r -> noval (discard d r') r.
Proof.
  unfold noval, discard. rewrite !Forall_forall. intros H x Hin.
  apply filter_In in Hin as [Hin _]. now apply H.
Qed.

Lemma lookup_discard_keep d r' k v :
  lookup d k = Some v -> v <> r' -> lookup (discard d r') k = Some v.
Proof.
  induction d as [|[k2 v2] d IH]; cbn [lookup discard filter]; [discriminate|].
  intros H Hv. destruct (Z.eqb_spec k k2) as [->|Hne].
  - injection H as ->. cbn [snd]. destruct (Z.eqb_spec v r'); [contradiction|].
    cbn [negb lookup]. now rewrite Z.eqb_refl.
  - cbn [snd]. destruct (negb (v2 =? r')).
    + cbn [lookup]. destruct (Z.eqb_spec k k2); [contradiction|]. now apply IH.
    + now apply IH.
Qed.

(* ---------------------------------------------------------------- sets *)
Lemma mem_In x l : mem x l = true <-> In x l.
Proof.
  unfold mem. rewrite existsb_exists. split.
  - intros [y [Hy E]]. apply Z.eqb_eq in E. now subst.
  - intros H. exists x. split; [exact H|apply Z.eqb_refl].
Qed.

Lemma In_sadd x y l : In x (sadd y l) <-> x = y \/ In x l.
Proof.
  unfold sadd. destruct (mem y l) eqn:E.
  - apply mem_In in E. split; [now right|]. intros [->|H]; assumption.
  - cbn [In]. split; intros [H|H]; auto.
Qed.

Lemma NoDup_sadd y l : NoDup l -> NoDup (sadd y l).
Proof.
  intros H. unfold sadd. destruct (mem y l) eqn:E; [exact H|].
  constructor; [|exact H]. intros Hin. apply mem_In in Hin. congruence.
Qed.

Lemma In_sdiscard x y l : In x (sdiscard y l) <-> In x l /\ x <> y.
Proof.
  unfold sdiscard. rewrite filter_In. split; intros [H1 H2]; split; try exact H1.
  - destruct (Z.eqb_spec x y); [discriminate|assumption].
  - destruct (Z.eqb_spec x y); [contradiction|reflexivity].
Qed.

Lemma NoDup_sdiscard y l : NoDup l -> NoDup (sdiscard y l).
Proof. intros H. unfold sdiscard. now apply NoDup_filter. Qed.

Lemma In_sunion x a b : In x (sunion a b) <-> In x a \/ In x b.
Proof.
  induction a as [|y a IH]; cbn [sunion In]; [tauto|].
  rewrite In_sadd, IH. intuition congruence.
Qed.

Lemma In_lookups d ks v : In v (lookups d ks) <-> exists k, In k ks /\ lookup d k = Some v.
Proof.
  unfold lookups. induction ks as [|k ks IH]; cbn [fold_right In].
  - split; [tauto|]. intros [k [[] _]].
  - destruct (lookup d k) as [w|] eqn:E.
    + rewrite In_sadd, IH. split.
      * intros [->|[k' [H1 H2]]]; [exists k; auto|exists k'; auto].
      * intros [k' [[->|H1] H2]]; [left; congruence|right; exists k'; auto].
    + rewrite IH. split.
      * intros [k' [H1 H2]]; exists k'; auto.
      * intros [k' [[->|H1] H2]]; [congruence|exists k'; auto].
Qed.

(* ---------------------------------------------------------------- pt table *)
Definition ptabsent (t : pttable) (r : Z) : Prop := Forall (fun e => ~ In r (snd e)) t.
Definition ptnodup (t : pttable) : Prop := Forall (fun e => NoDup (snd e)) t.

Lemma pt_get_absent t r pt : ptabsent t r -> ~ In r (pt_get t pt).
Proof.
  induction t as [|[p rs] t IH]; cbn [pt_get]; intros H; [intros []|].
  inversion H as [|? ? H1 H2]; subst. destruct (Z.eqb pt p); [exact H1|now apply IH].
Qed.

Lemma pt_get_nodup t pt : ptnodup t -> NoDup (pt_get t pt).
Proof.
  induction t as [|[p rs] t IH]; cbn [pt_get]; intros H; [constructor|].
  inversion H as [|? ? H1 H2]; subst. destruct (Z.eqb pt p); [exact H1|now apply IH].
Qed.

Lemma pt_add_absent t r pt r' : ptabsent t r -> r' <> r -> ptabsent (pt_add t pt r') r.
Proof.
  intros H Hne. induction t as [|[p rs] t IH]; cbn [pt_add].
  - constructor; [|constructor]. cbn. intros [E|[]]. congruence.
  - inversion H as [|? ? H1 H2]; subst. destruct (Z.eqb pt p).
    + constructor; [|exact H2]. cbn [snd] in *. rewrite In_sadd. intros [E|E]; [congruence|auto].
    + constructor; [exact H1|now apply IH].
Qed.

Lemma pt_add_nodup t pt r : ptnodup t -> ptnodup (pt_add t pt r).
Proof.
  intros H. induction t as [|[p rs] t IH]; cbn [pt_add].
  - constructor; [|constructor]. cbn. constructor; [intros []|constructor].
  - inversion H as [|? ? H1 H2]; subst. destruct (Z.eqb pt p).
    + constructor; [|exact H2]. cbn [snd] in *. now apply NoDup_sadd.
    + constructor; [exact H1|now apply IH].
Qed.

Lemma pt_get_add t pt r pt' x :
  In x (pt_get (pt_add t pt r) pt') <-> In x (pt_get t pt') \/ (pt' = pt /\ x = r).
Proof.
  induction t as [|[p rs] t IH]; cbn [pt_add pt_get].
  - destruct (Z.eqb_spec pt' pt) as [->|Hne]; cbn [In]; [split; intros; intuition congruence|].
    split; [intuition congruence|]. intros [[]|[E _]]. contradiction.
  - destruct (Z.eqb_spec pt p) as [->|Hne]; cbn [pt_get].
    + destruct (Z.eqb_spec pt' p) as [->|Hne'].
      * rewrite In_sadd. intuition congruence.
      * split; [intuition congruence|]. intros [H|[E _]]; [exact H|contradiction].
    + destruct (Z.eqb_spec pt' p) as [->|Hne'].
      * split; [intuition congruence|]. intros [H|[E _]]; [exact H|]. congruence.
      * exact IH.
Qed.

Lemma pt_discard_absent_same t r : ptabsent (pt_discard t r) r.
Proof.
  unfold ptabsent, pt_discard. rewrite Forall_map, Forall_forall. intros e _. cbn [snd].
  rewrite In_sdiscard. tauto.
Qed.

Lemma pt_discard_absent t r r' : ptabsent t r -> ptabsent (pt_discard t r') r.
Proof.
  unfold ptabsent, pt_discard. rewrite Forall_map, !Forall_forall. intros H e Hin. cbn [snd].
  rewrite In_sdiscard. intros [H1 _]. now apply (H e Hin).
Qed.

Lemma pt_discard_nodup t r : ptnodup t -> ptnodup (pt_discard t r).
Proof.
  unfold ptnodup, pt_discard. rewrite Forall_map, !Forall_forall. intros H e Hin. cbn [snd].
  apply NoDup_sdiscard. now apply H.
Qed.

Lemma pt_get_discard t r pt x : In x (pt_get (pt_discard t r) pt) <-> In x (pt_get t pt) /\ x <> r.
Proof.
  unfold pt_discard. induction t as [|[p rs] t IH]; cbn [map pt_get fst snd]; [tauto|].
  destruct (Z.eqb pt p); [apply In_sdiscard|exact IH].
Qed.

(* folds used by register_receiver *)
Lemma fold_dset_noval ssrcs d r r' :
  noval d r -> r' <> r -> noval (fold_left (fun d ssrc => dset d ssrc r') ssrcs d) r.
Proof.
  revert d. induction ssrcs as [|x xs IH]; cbn [fold_left]; intros d H Hne; [exact H|].
  apply IH; [now apply noval_dset|exact Hne].
Qed.

Lemma fold_ptadd_absent pts t r r' :
  ptabsent t r -> r' <> r -> ptabsent (fold_left (fun t pt => pt_add t pt r') pts t) r.
Proof.
  revert t. induction pts as [|x xs IH]; cbn [fold_left]; intros t H Hne; [exact H|].
  apply IH; [now apply pt_add_absent|exact Hne].
Qed.

Lemma fold_ptadd_nodup pts t r :
  ptnodup t -> ptnodup (fold_left (fun t pt => pt_add t pt r) pts t).
Proof.
  revert t. induction pts as [|x xs IH]; cbn [fold_left]; intros t H; [exact H|].
  apply IH. now apply pt_add_nodup.
Qed.

Lemma fold_dset_lookup ssrcs d r k :
  lookup (fold_left (fun d ssrc => dset d ssrc r) ssrcs d) k =
  if mem k ssrcs then Some r else lookup d k.
Proof.
  revert d. induction ssrcs as [|x xs IH]; cbn [fold_left]; intros d; [reflexivity|].
  rewrite IH. unfold mem at 2. cbn [existsb]. fold (mem k xs).
  destruct (mem k xs); [now rewrite orb_true_r|]. rewrite orb_false_r.
  destruct (Z.eqb_spec k x) as [->|Hne]; [apply lookup_dset_same|].
  apply lookup_dset_other. congruence.
Qed.

Lemma fold_ptadd_get pts t r pt x :
  In x (pt_get (fold_left (fun t pt => pt_add t pt r) pts t) pt) <->
  In x (pt_get t pt) \/ (In pt pts /\ x = r).
Proof.
  revert t. induction pts as [|p ps IH]; cbn [fold_left In]; intros t; [tauto|].
  rewrite IH, pt_get_add. split.
  - intros [[H|[-> ->]]|[H ->]]; auto.
  - intros [H|[[->|H] ->]]; auto.
Qed.

(* ---------------------------------------------------------------- invariants *)
Definition inv (s : router) : Prop := ptnodup (pt_table s) /\ NoDup (receivers s).

Lemma inv_empty : inv empty.
Proof. split; cbn; constructor. Qed.

Lemma inv_step s o : inv s -> inv (fst (step s o)).
Proof.
  intros [H1 H2]. destruct o as [r ssrcs pts mid|sh ssrc|r|sh|ssrc pt|p]; cbn [step fst].
  - split; cbn; [now apply fold_ptadd_nodup|now apply NoDup_sadd].
  - split; assumption.
  - split; cbn; [now apply pt_discard_nodup|now apply NoDup_sdiscard].
  - split; assumption.
  - unfold route_rtp. destruct (lookup (ssrc_table s) ssrc).
    + destruct (mem z _); cbn; split; assumption.
    + destruct (pt_get (pt_table s) pt) as [|r [|r2 l]]; cbn; split; assumption.
  - destruct (route_rtcp s p) as [[rs ss] e]. cbn. split; assumption.
Qed.

(* receiver r occurs in no table *)
Definition rabsent (s : router) (r : Z) : Prop :=
  ~ In r (receivers s) /\ noval (mid_table s) r /\ noval (ssrc_table s) r /\ ptabsent (pt_table s) r.

Definition sabsent (s : router) (h : Z) : Prop := noval (senders s) h.

Lemma unregister_receiver_rabsent s r : rabsent (unregister_receiver s r) r.
Proof.
  unfold rabsent, unregister_receiver; cbn. repeat split.
  - rewrite In_sdiscard. tauto.
  - apply noval_discard_same.
  - apply noval_discard_same.
  - apply pt_discard_absent_same.
Qed.

Lemma unregister_sender_sabsent s h : sabsent (unregister_sender s h) h.
Proof. unfold sabsent, unregister_sender; cbn. apply noval_discard_same. Qed.

Definition registers_recv (o : op) (r : Z) : Prop :=
  match o with RegRecv r' _ _ _ => r' = r | _ => False end.
Definition registers_send (o : op) (h : Z) : Prop :=
  match o with RegSend h' _ => h' = h | _ => False end.

Lemma rabsent_step s o r : rabsent s r -> ~ registers_recv o r -> rabsent (fst (step s o)) r.
Proof.
  intros (H1 & H2 & H3 & H4) Hn.
  destruct o as [r' ssrcs pts mid|sh ssrc|r'|sh|ssrc pt|p]; cbn [step fst registers_recv] in *.
  - unfold rabsent; cbn. repeat split.
    + rewrite In_sadd. intros [E|E]; [congruence|auto].
    + destruct mid; [apply noval_dset; [assumption|congruence]|assumption].
    + apply fold_dset_noval; [assumption|congruence].
    + apply fold_ptadd_absent; [assumption|congruence].
  - unfold rabsent; cbn. auto.
  - unfold rabsent; cbn. repeat split.
    + rewrite In_sdiscard. tauto.
    + now apply noval_discard.
    + now apply noval_discard.
    + now apply pt_discard_absent.
  - unfold rabsent; cbn. auto.
  - unfold route_rtp. destruct (lookup (ssrc_table s) ssrc).
    + destruct (mem z _); cbn; unfold rabsent; auto.
    + destruct (pt_get (pt_table s) pt) as [|r1 [|r2 l]] eqn:E; cbn; unfold rabsent; auto.
      cbn. repeat split; auto. apply noval_dset; [assumption|].
      intros ->. apply (pt_get_absent _ _ pt H4). rewrite E. now left.
  - destruct (route_rtcp s p) as [[rs ss] e]. cbn. unfold rabsent; auto.
Qed.

Lemma sabsent_step s o h : sabsent s h -> ~ registers_send o h -> sabsent (fst (step s o)) h.
Proof.
  unfold sabsent. intros H Hn.
  destruct o as [r' ssrcs pts mid|sh ssrc|r'|sh|ssrc pt|p]; cbn [step fst registers_send] in *.
  - exact H.
  - cbn. apply noval_dset; [assumption|congruence].
  - exact H.
  - cbn. now apply noval_discard.
  - unfold route_rtp. destruct (lookup (ssrc_table s) ssrc).
    + destruct (mem z _); cbn; assumption.
    + destruct (pt_get (pt_table s) pt) as [|r1 [|r2 l]]; cbn; assumption.
  - destruct (route_rtcp s p) as [[rs ss] e]. cbn. assumption.
Qed.

(* what an output mentions *)
Definition out_mentions_recv (x : out) (r : Z) : Prop :=
  match x with
  | ONone => False
  | ORtp o => o = Some r
  | ORtcp rs _ _ => In r rs
  end.
Definition out_mentions_send (x : out) (h : Z) : Prop :=
  match x with ORtcp _ ss _ => In h ss | _ => False end.

Lemma rabsent_out s o r : rabsent s r -> ~ out_mentions_recv (snd (step s o)) r.
Proof.
  intros (H1 & H2 & H3 & H4).
  destruct o as [r' ssrcs pts mid|sh ssrc|r'|sh|ssrc pt|p]; cbn [step snd out_mentions_recv]; auto.
  - unfold route_rtp. destruct (lookup (ssrc_table s) ssrc) eqn:E.
    + destruct (mem z _); cbn; [|discriminate]. intros [= ->]. now apply (noval_lookup _ _ ssrc H3).
    + destruct (pt_get (pt_table s) pt) as [|r1 [|r2 l]] eqn:E2; cbn; try discriminate.
      intros [= ->]. apply (pt_get_absent _ _ pt H4). rewrite E2. now left.
  - assert (Hl : forall ks, ~ In r (lookups (ssrc_table s) ks)).
    { intros ks Hin. apply In_lookups in Hin as [k [_ Hk]]. now apply (noval_lookup _ _ k H3). }
    destruct p as [ssrc reports|reports| |sources|m|fmt m fci]; cbn [route_rtcp];
      try (destruct (fmt =? rtp_RTCP_PSFB_APP); [destruct (unpack_remb_ssrcs fci)|]);
      cbn [snd out_mentions_recv]; try apply Hl; intros [].
Qed.

Lemma sabsent_out s o h : sabsent s h -> ~ out_mentions_send (snd (step s o)) h.
Proof.
  unfold sabsent. intros H.
  assert (Hl : forall ks, ~ In h (lookups (senders s) ks)).
  { intros ks Hin. apply In_lookups in Hin as [k [_ Hk]]. now apply (noval_lookup _ _ k H). }
  destruct o as [r' ssrcs pts mid|sh ssrc|r'|sh|ssrc pt|p]; cbn [step snd out_mentions_send]; auto.
  - destruct (route_rtp s ssrc pt). cbn. auto.
  - destruct p as [ssrc reports|reports| |sources|m|fmt m fci]; cbn [route_rtcp];
      try (destruct (fmt =? rtp_RTCP_PSFB_APP); [destruct (unpack_remb_ssrcs fci)|]);
      cbn [snd out_mentions_send]; try apply Hl; try (intros []).
    rewrite In_sunion. intros [E|E]; eapply Hl; eauto.
Qed.

Lemma run_cons s o ops :
  run s (o :: ops) = (fst (run (fst (step s o)) ops), snd (step s o) :: snd (run (fst (step s o)) ops)).
Proof.
  cbn [run]. destruct (step s o) as [s1 x]. cbn [fst snd]. destruct (run s1 ops) as [s2 xs]. reflexivity.
Qed.

Theorem never_routed_to_absent_receiver :
  forall ops s r, rabsent s r -> Forall (fun o => ~ registers_recv o r) ops ->
    Forall (fun x => ~ out_mentions_recv x r) (snd (run s ops)).
Proof.
  induction ops as [|o ops IH]; intros s r Ha Hops; [constructor|].
  rewrite run_cons. cbn [snd]. inversion Hops as [|? ? Ho Hrest]; subst.
  constructor; [now apply rabsent_out|]. apply IH; [now apply rabsent_step|exact Hrest].
Qed.

Theorem never_routed_to_absent_sender :
  forall ops s h, sabsent s h -> Forall (fun o => ~ registers_send o h) ops ->
    Forall (fun x => ~ out_mentions_send x h) (snd (run s ops)).
Proof.
  induction ops as [|o ops IH]; intros s h Ha Hops; [constructor|].
  rewrite run_cons. cbn [snd]. inversion Hops as [|? ? Ho Hrest]; subst.
  constructor; [now apply sabsent_out|]. apply IH; [now apply sabsent_step|exact Hrest].
Qed.

Lemma inv_run ops : forall s, inv s -> inv (fst (run s ops)).
Proof.
  induction ops as [|o ops IH]; intros s H; [exact H|].
  rewrite run_cons. cbn [fst]. apply IH. now apply inv_step.
Qed.

(* ---------------------------------------------------------------- route_rtp spec *)
Definition accepts (s : router) (r pt : Z) : Prop := In r (pt_get (pt_table s) pt).
Definition ssrc_of (s : router) (ssrc : Z) : option Z := lookup (ssrc_table s) ssrc.
Definition latch (s : router) (ssrc r : Z) : router :=
  mkRouter (receivers s) (senders s) (mid_table s) (dset (ssrc_table s) ssrc r) (pt_table s).

Lemma nodup_unique_singleton (l : list Z) r :
  NoDup l -> In r l -> (forall x, In x l -> x = r) -> l = [r].
Proof.
  intros Hnd Hin Hall. destruct l as [|a [|b l]].
  - destruct Hin.
  - f_equal. apply Hall. now left.
  - exfalso. assert (a = r) by (apply Hall; now left). assert (b = r) by (apply Hall; right; now left).
    subst. inversion Hnd as [|? ? Hn _]; subst. apply Hn. now left.
Qed.

Theorem route_rtp_known s ssrc pt r :
  ssrc_of s ssrc = Some r ->
  route_rtp s ssrc pt = (if mem r (pt_get (pt_table s) pt) then Some r else None, s).
Proof.
  unfold ssrc_of, route_rtp. intros ->. destruct (mem r _); reflexivity.
Qed.

Theorem route_rtp_spec s ssrc pt :
  inv s ->
  let '(res, s') := route_rtp s ssrc pt in
  match res with
  | Some r =>
      accepts s r pt /\
      ((ssrc_of s ssrc = Some r /\ s' = s) \/
       (ssrc_of s ssrc = None /\ (forall r', accepts s r' pt -> r' = r) /\ s' = latch s ssrc r))
  | None =>
      s' = s /\
      match ssrc_of s ssrc with
      | Some r => ~ accepts s r pt
      | None => (forall r, ~ accepts s r pt) \/ (exists r1 r2, r1 <> r2 /\ accepts s r1 pt /\ accepts s r2 pt)
      end
  end.
Proof.
  intros [Hnd _]. unfold route_rtp, ssrc_of, accepts.
  destruct (lookup (ssrc_table s) ssrc) as [r|] eqn:E.
  - destruct (mem r (pt_get (pt_table s) pt)) eqn:M.
    + apply mem_In in M. split; [exact M|]. left. auto.
    + split; [reflexivity|]. intros Hin. apply mem_In in Hin. congruence.
  - pose proof (pt_get_nodup _ pt Hnd) as Hn.
    destruct (pt_get (pt_table s) pt) as [|r1 [|r2 l]] eqn:E2.
    + split; [reflexivity|]. left. intros r [].
    + split; [now left|]. right. split; [reflexivity|]. split; [|reflexivity].
      intros r' [H|[]]. congruence.
    + split; [reflexivity|]. right. exists r1, r2. split; [|split; [now left|right; now left]].
      intros ->. inversion Hn as [|? ? Hx _]; subst. apply Hx. now left.
Qed.

(* converse direction: the cases in which a packet must be routed *)
Theorem route_rtp_complete s ssrc pt r :
  inv s -> accepts s r pt ->
  (ssrc_of s ssrc = Some r \/ (ssrc_of s ssrc = None /\ forall r', accepts s r' pt -> r' = r)) ->
  fst (route_rtp s ssrc pt) = Some r.
Proof.
  intros [Hnd _] Hacc Hcase. unfold route_rtp, ssrc_of, accepts in *.
  destruct Hcase as [E|[E Huniq]]; rewrite E.
  - apply mem_In in Hacc. now rewrite Hacc.
  - rewrite (nodup_unique_singleton _ r (pt_get_nodup _ pt Hnd) Hacc Huniq). reflexivity.
Qed.

(* ---------------------------------------------------------------- latch sticks *)
Definition disturbs (o : op) (ssrc r : Z) : Prop :=
  match o with
  | RegRecv r' ssrcs _ _ => In ssrc ssrcs /\ r' <> r
  | UnregRecv r' => r' = r
  | _ => False
  end.

Definition latched (s : router) (ssrc pt r : Z) : Prop :=
  ssrc_of s ssrc = Some r /\ accepts s r pt.

Lemma latched_after_latch s ssrc pt r :
  ssrc_of s ssrc = None -> route_rtp s ssrc pt = (Some r, latch s ssrc r) ->
  latched (latch s ssrc r) ssrc pt r.
Proof.
  intros E H. unfold route_rtp in H. unfold ssrc_of in E. rewrite E in H.
  destruct (pt_get (pt_table s) pt) as [|r1 [|r2 l]] eqn:E2; try discriminate.
  injection H as -> _. split.
  - unfold ssrc_of, latch; cbn. apply lookup_dset_same.
  - unfold accepts, latch; cbn. rewrite E2. now left.
Qed.

Lemma latched_step s o ssrc pt r :
  latched s ssrc pt r -> ~ disturbs o ssrc r -> latched (fst (step s o)) ssrc pt r.
Proof.
  unfold latched, ssrc_of, accepts. intros [H1 H2] Hd.
  destruct o as [r' ssrcs pts mid|sh ssrc'|r'|sh|ssrc' pt'|p]; cbn [step fst disturbs] in *.
  - cbn -[dset lookup pt_get discard pt_discard]. split.
    + rewrite fold_dset_lookup. destruct (mem ssrc ssrcs) eqn:M; [|exact H1].
      apply mem_In in M. destruct (Z.eq_dec r' r) as [->|Hne]; [reflexivity|]. exfalso. apply Hd. auto.
    + rewrite fold_ptadd_get. now left.
  - cbn -[dset lookup pt_get discard pt_discard]. auto.
  - cbn -[dset lookup pt_get discard pt_discard]. split.
    + apply lookup_discard_keep; [exact H1|congruence].
    + rewrite pt_get_discard. split; [exact H2|congruence].
  - cbn -[dset lookup pt_get discard pt_discard]. auto.
  - unfold route_rtp. destruct (lookup (ssrc_table s) ssrc') eqn:E.
    + destruct (mem z _); cbn -[dset lookup pt_get discard pt_discard]; auto.
    + destruct (pt_get (pt_table s) pt') as [|r1 [|r2 l]]; cbn -[dset lookup pt_get discard pt_discard]; auto.
      split; [|exact H2]. rewrite lookup_dset_other; [exact H1|]. intros ->. congruence.
  - destruct (route_rtcp s p) as [[rs ss] e]. cbn -[dset lookup pt_get discard pt_discard]. auto.
Qed.

Theorem latched_sticks :
  forall ops s ssrc pt r, latched s ssrc pt r -> Forall (fun o => ~ disturbs o ssrc r) ops ->
    fst (route_rtp (fst (run s ops)) ssrc pt) = Some r.
Proof.
  induction ops as [|o ops IH]; intros s ssrc pt r Hl Hops.
  - cbn [run fst]. destruct Hl as [H1 H2]. unfold route_rtp. unfold ssrc_of in H1. rewrite H1.
    apply mem_In in H2. now rewrite H2.
  - rewrite run_cons. cbn [fst]. inversion Hops as [|? ? Ho Hrest]; subst.
    apply IH; [now apply latched_step|exact Hrest].
Qed.

(* ---------------------------------------------------------------- route_rtcp spec *)
Definition rtcp_recv_ssrcs (p : rtcp) : list Z :=
  match p with Sr ssrc _ => [ssrc] | Bye sources => sources | _ => [] end.

Definition rtcp_send_ssrcs (p : rtcp) : list Z :=
  match p with
  | Sr _ reports => reports
  | Rr reports => reports
  | Rtpfb m => [m]
  | Psfb fmt m fci =>
      if Z.eqb fmt rtp_RTCP_PSFB_APP then
        match unpack_remb_ssrcs fci with RembOk l => m :: l | _ => [m] end
      else [m]
  | _ => []
  end.

Theorem route_rtcp_spec s p :
  unpack_remb_ssrcs match p with Psfb _ _ fci => fci | _ => [] end <> RembCrash ->
  let '(rs, ss, raised) := route_rtcp s p in
  raised = false /\
  (forall r, In r rs <-> exists ssrc, In ssrc (rtcp_recv_ssrcs p) /\ lookup (ssrc_table s) ssrc = Some r) /\
  (forall h, In h ss <-> exists ssrc, In ssrc (rtcp_send_ssrcs p) /\ lookup (senders s) ssrc = Some h).
Proof.
  intros Hc.
  assert (Hnil : forall (d : dict) (x : Z), In x [] <-> exists k : Z, In k [] /\ lookup d k = Some x).
  { intros d x. split; [intros []|intros [k [[] _]]]. }
  destruct p as [ssrc reports|reports| |sources|m|fmt m fci]; cbn [route_rtcp rtcp_recv_ssrcs rtcp_send_ssrcs].
  - split; [reflexivity|]. split; intros x; apply In_lookups.
  - split; [reflexivity|]. split; intros x; [apply Hnil|apply In_lookups].
  - split; [reflexivity|]. split; intros x; apply Hnil.
  - split; [reflexivity|]. split; intros x; [apply In_lookups|apply Hnil].
  - split; [reflexivity|]. split; intros x; [apply Hnil|apply In_lookups].
  - destruct (fmt =? rtp_RTCP_PSFB_APP).
    + destruct (unpack_remb_ssrcs fci) as [l| |] eqn:E; [| |contradiction].
      * split; [reflexivity|]. split; intros x; [apply Hnil|].
        rewrite In_sunion, !In_lookups. split.
        -- intros [[k [[<-|[]] H2]]|[k [H1 H2]]]; [exists m; cbn [In]; auto|exists k; cbn [In]; auto].
        -- intros [k [[<-|H1] H2]]; [left; exists m; cbn [In]; auto|right; exists k; auto].
      * split; [reflexivity|]. split; intros x; [apply Hnil|apply In_lookups].
    + split; [reflexivity|]. split; intros x; [apply Hnil|apply In_lookups].
Qed.

(* The REMB parser never crashes on a byte string (after the fix: ValueError on a
   truncated SSRC list) *)
Lemma remb_ssrcs_total data : forall n pos,
  (pos + 4 * n <= length data)%nat -> remb_ssrcs data pos n <> None.
Proof.
  induction n as [|n IH]; intros pos Hlen; cbn [remb_ssrcs]; [discriminate|].
  assert (Hu : forall i, (i < length data)%nat -> u8 data i <> None).
  { intros i Hi. unfold u8. apply nth_error_Some. exact Hi. }
  unfold u32, u16.
  destruct (u8 data pos) eqn:E0; [|exfalso; apply (Hu pos); [lia|assumption]].
  destruct (u8 data (S pos)) eqn:E1; [|exfalso; apply (Hu (S pos)); [lia|assumption]].
  destruct (u8 data (S (S pos))) eqn:E2; [|exfalso; apply (Hu (S (S pos))); [lia|assumption]].
  destruct (u8 data (S (S (S pos)))) eqn:E3; [|exfalso; apply (Hu (S (S (S pos)))); [lia|assumption]].
  specialize (IH (4 + pos)%nat).
  destruct (remb_ssrcs data (4 + pos) n); [discriminate|]. exfalso. apply IH; [lia|reflexivity].
Qed.

Theorem unpack_remb_never_crashes data : bytes_ok data -> unpack_remb_ssrcs data <> RembCrash.
Proof.
  intros Hok. unfold unpack_remb_ssrcs.
  destruct (Nat.ltb_spec (length data) 8) as [Hlt|Hge]; cbn [orb]; [discriminate|].
  destruct (negb _); [discriminate|].
  destruct (u8 data 4) as [cnt|] eqn:E.
  2:{ exfalso. unfold u8 in E. apply nth_error_None in E. lia. }
  destruct (Z.ltb_spec (len data) (8 + 4 * cnt)) as [Hl|Hl]; [discriminate|].
  assert (0 <= cnt).
  { unfold u8 in E. apply nth_error_In in E. unfold bytes_ok in Hok. rewrite Forall_forall in Hok.
    apply Hok in E. unfold byte_ok in E. lia. }
  destruct (remb_ssrcs data 8 (Z.to_nat cnt)) eqn:E2; [discriminate|].
  exfalso. apply (remb_ssrcs_total data (Z.to_nat cnt) 8%nat); [|exact E2].
  unfold len in Hl. lia.
Qed.
