(* C01: at most once, in every mode.  Every chunk that enters a stream's reassembly queue is
   afterwards either still in the queue or part of EXACTLY ONE delivered message; hence, for any
   arrival order of distinct chunks, no sent message is delivered twice -- ordered or unordered. *)
From Coq Require Import ZArith List Bool Lia Permutation.
From AV Require Import Lib.Bytes Gen.Utils Gen.SctpConst Model.SctpRecv Proof.SctpRecvP Proof.SctpDupP Proof.SctpOrderP.
Import ListNotations.
Local Open Scope Z_scope.

(* pop_loop instrumented: the chunk runs (oldest fragment first) behind the delivered messages *)
Fixpoint pop_runs (kept : list chunk) (run : run_state) (rest : list chunk) (seq : Z) : list (list chunk) :=
  match rest with
  | [] => []
  | c :: rest' =>
      let in_run (kept0 : list chunk) (r : list chunk) (expected : Z) (ordered : bool) :=
        if last c then
          let seq' := if ordered && Z.eqb (sseq c) seq then uint16_add seq 1 else seq in
          rev (c :: r) :: pop_runs kept0 None rest' seq'
        else pop_runs kept0 (Some (c :: r, tsn_plus_one expected, ordered)) rest' seq in
      let start (kept0 : list chunk) :=
        let ordered := negb (unordered c) in
        if negb (first c) then
          if ordered then [] else pop_runs (c :: kept0) None rest' seq
        else if ordered && uint16_gt (sseq c) seq then []
        else in_run kept0 [] (tsn c) ordered in
      match run with
      | None => start kept
      | Some (r, expected, ordered) =>
          if negb (Z.eqb (tsn c) expected) then
            if ordered then [] else start (r ++ kept)
          else in_run kept r expected ordered
      end
  end.

Lemma msgf_run c r : msgf (rev (c :: r)) = (sid c, ppid c, join_data (rev (c :: r))).
Proof. unfold msgf. cbn [rev]. rewrite last_last. reflexivity. Qed.

Lemma chunk_eq_dec : forall a b : chunk, {a = b} + {a <> b}.
Proof. decide equality; try apply Z.eq_dec; try apply bool_dec; apply (list_eq_dec Z.eq_dec). Qed.

Notation cnt := (count_occ chunk_eq_dec).

Ltac cnt_norm := repeat (rewrite count_occ_app || rewrite count_occ_rev); cbn [count_occ concat run_chunks app rev].
Ltac cnt_solve := cnt_norm; repeat (rewrite count_occ_app || rewrite count_occ_rev);
  repeat match goal with |- context [chunk_eq_dec ?a ?b] => destruct (chunk_eq_dec a b) end; lia.

(* the messages pop_loop yields are the messages of those runs; every chunk is retained or consumed exactly once *)
Lemma pop_loop_runs rest : forall kept run seq l s ms,
  pop_loop kept run rest seq = (l, s, ms) ->
  ms = map msgf (pop_runs kept run rest seq) /\
  forall x, cnt (kept ++ run_chunks run ++ rest) x = cnt (l ++ concat (pop_runs kept run rest seq)) x.
Proof.
  induction rest as [|c rest IH]; intros kept run seq l s ms H.
  - cbn [pop_loop] in H. injection H as <- _ <-. cbn [pop_runs map concat]. split; [reflexivity|].
    intros x. unfold retained. destruct run as [[[r e] o]|]; cnt_solve.
  - cbn [pop_loop] in H. cbn [pop_runs].
    assert (Hret : forall run0 x, cnt (kept ++ run_chunks run0 ++ c :: rest) x = cnt (retained kept run0 (c :: rest) ++ []) x).
    { intros run0 x. unfold retained. destruct run0 as [[[r e] o]|]; cnt_solve. }
    assert (Hin : forall kept0 r expected ordered,
      (if last c
       then let '(l0, s0, ms0) := pop_loop kept0 None rest (if ordered && (sseq c =? seq) then uint16_add seq 1 else seq) in
            (l0, s0, (sid c, ppid c, join_data (rev (c :: r))) :: ms0)
       else pop_loop kept0 (Some (c :: r, tsn_plus_one expected, ordered)) rest seq) = (l, s, ms) ->
      let runs := if last c
                  then rev (c :: r) :: pop_runs kept0 None rest (if ordered && (sseq c =? seq) then uint16_add seq 1 else seq)
                  else pop_runs kept0 (Some (c :: r, tsn_plus_one expected, ordered)) rest seq in
      ms = map msgf runs /\ forall x, cnt (kept0 ++ r ++ c :: rest) x = cnt (l ++ concat runs) x).
    { clear H. intros kept0 r expected ordered Heq. destruct (last c) eqn:El.
      - destruct (pop_loop kept0 None rest _) as [[l0 s0] ms0] eqn:E. injection Heq as <- _ <-.
        apply IH in E as [E1 E2]. cbn zeta. cbn [map concat]. rewrite msgf_run. split; [now rewrite E1|].
        intros x. specialize (E2 x). revert E2. cnt_solve.
      - apply IH in Heq as [E1 E2]. cbn zeta. split; [exact E1|]. intros x. specialize (E2 x). revert E2. cnt_solve. }
    assert (HNone : forall kept0, pop_loop kept0 None (c :: rest) seq = (l, s, ms) ->
      ms = map msgf (pop_runs kept0 None (c :: rest) seq) /\
      forall x, cnt (kept0 ++ c :: rest) x = cnt (l ++ concat (pop_runs kept0 None (c :: rest) seq)) x).
    { clear H. intros kept0 H. cbn [pop_loop] in H. cbn [pop_runs].
      assert (Hret0 : forall x, cnt (kept0 ++ c :: rest) x = cnt (retained kept0 None (c :: rest) ++ []) x).
      { intros x. unfold retained. cnt_solve. }
      destruct (negb (first c)).
      * destruct (negb (unordered c)).
        -- injection H as <- _ <-. cbn [map concat]. split; [reflexivity|exact Hret0].
        -- apply IH in H as [E1 E2]. split; [exact E1|]. intros x. specialize (E2 x). revert E2. cnt_solve.
      * destruct (negb (unordered c) && uint16_gt (sseq c) seq).
        -- injection H as <- _ <-. cbn [map concat]. split; [reflexivity|exact Hret0].
        -- now apply (Hin kept0 [] (tsn c) (negb (unordered c))). }
    destruct run as [[[r expected] ordered]|].
    + cbn [run_chunks] in *. destruct (negb (tsn c =? expected)).
      * destruct ordered.
        -- injection H as <- _ <-. cbn [map concat]. split; [reflexivity|apply (Hret (Some (r, expected, true)))].
        -- change (pop_loop (r ++ kept) None (c :: rest) seq = (l, s, ms)) in H.
           change (ms = map msgf (pop_runs (r ++ kept) None (c :: rest) seq) /\
                   forall x, cnt (kept ++ r ++ c :: rest) x = cnt (l ++ concat (pop_runs (r ++ kept) None (c :: rest) seq)) x).
           apply HNone in H as [E1 E2]. split; [exact E1|]. intros x. specialize (E2 x). revert E2. cnt_solve.
      * now apply (Hin kept r expected ordered).
    + cbn [run_chunks app] in *. apply (HNone kept). exact H.
Qed.

(* every delivered run is a complete message run: B fragment first, E fragment last, consecutive TSNs *)
Lemma pop_runs_complete rest : forall kept run seq, run_ok run ->
  Forall (fun f => complete_run (rev f)) (pop_runs kept run rest seq).
Proof.
  induction rest as [|c rest IH]; intros kept run seq Hok; cbn [pop_runs]; [constructor|].
  assert (Hin : forall kept0 r expected ordered,
    (r = [] \/ partial_run r expected) -> (r = [] -> first c = true) -> tsn c = expected ->
    Forall (fun f => complete_run (rev f))
      (if last c
       then rev (c :: r) :: pop_runs kept0 None rest (if ordered && (sseq c =? seq) then uint16_add seq 1 else seq)
       else pop_runs kept0 (Some (c :: r, tsn_plus_one expected, ordered)) rest seq)).
  { intros kept0 r expected ordered Hr Hfirst Ht. destruct (last c) eqn:El.
    - constructor; [|apply IH; exact I]. rewrite rev_involutive. cbn [complete_run]. destruct Hr as [->|Hp].
      + repeat split; auto; try (cbn; now apply Hfirst).
      + destruct r as [|b r']; [destruct Hp|]. destruct Hp as (He & Hc & Hf & Hl).
        split; [exact El|]. split; [exact Hl|]. split.
        * cbn [consec_rev]. split; [congruence|exact Hc].
        * rewrite oldest_cons by congruence. erewrite oldest_default; [exact Hf|congruence].
    - apply IH. cbn [run_ok partial_run]. destruct Hr as [->|Hp].
      + repeat split; auto; try congruence; try (cbn; now apply Hfirst).
      + destruct r as [|b r']; [destruct Hp|]. destruct Hp as (He & Hc & Hf & Hl).
        split; [congruence|]. split.
        * cbn [consec_rev]. split; [congruence|exact Hc].
        * split.
          -- rewrite oldest_cons by congruence. erewrite oldest_default; [exact Hf|congruence].
          -- constructor; [exact El|exact Hl]. }
  assert (HNone : forall kept0, Forall (fun f => complete_run (rev f)) (pop_runs kept0 None (c :: rest) seq)).
  { intros kept0. cbn [pop_runs]. destruct (negb (first c)) eqn:Ef.
    + destruct (negb (unordered c)); [constructor|apply IH; exact I].
    + apply negb_false_iff in Ef. destruct (negb (unordered c) && uint16_gt (sseq c) seq); [constructor|].
      apply (Hin kept0 [] (tsn c) (negb (unordered c))); auto. }
  destruct run as [[[r expected] ordered]|].
  - destruct (negb (tsn c =? expected)) eqn:Et.
    + destruct ordered; [constructor|apply (HNone (r ++ kept))].
    + apply negb_false_iff, Z.eqb_eq in Et. apply (Hin kept r expected ordered); auto. intros ->. destruct Hok.
  - apply (HNone kept).
Qed.

(* ---------------------------------------------------------------- what stays in the queue stays in order *)
Inductive subseq {A} : list A -> list A -> Prop :=
| sub_nil : subseq [] []
| sub_skip x l l' : subseq l l' -> subseq l (x :: l')
| sub_take x l l' : subseq l l' -> subseq (x :: l) (x :: l').

Lemma subseq_refl {A} (l : list A) : subseq l l.
Proof. induction l; [constructor|apply sub_take; assumption]. Qed.
Lemma subseq_app_l {A} (a : list A) : forall l l', subseq l l' -> subseq (a ++ l) (a ++ l').
Proof. induction a; intros; cbn; [assumption|apply sub_take; auto]. Qed.
Lemma subseq_skip_l {A} (m : list A) : forall l l', subseq l l' -> subseq l (m ++ l').
Proof. induction m; intros; cbn; [assumption|apply sub_skip; auto]. Qed.
Lemma subseq_mid {A} (a m : list A) : forall l b, subseq l (a ++ b) -> subseq l (a ++ m ++ b).
Proof.
  induction a as [|x a IH]; intros l b H; cbn [app] in *; [now apply subseq_skip_l|].
  inversion H; subst; [apply sub_skip; now apply IH|apply sub_take; now apply IH].
Qed.
Lemma subseq_in {A} (l l' : list A) : subseq l l' -> incl l l'.
Proof. induction 1; intros y Hy; [destruct Hy|right; auto|destruct Hy as [<-|Hy]; [now left|right; auto]]. Qed.

Lemma pop_loop_subseq rest : forall kept run seq l s ms,
  pop_loop kept run rest seq = (l, s, ms) -> subseq l (rev kept ++ rev (run_chunks run) ++ rest).
Proof.
  induction rest as [|c rest IH]; intros kept run seq l s ms H.
  - cbn [pop_loop] in H. injection H as <- _ _. unfold retained. destruct run as [[[r e] o]|]; cbn [run_chunks rev]; apply subseq_refl.
  - cbn [pop_loop] in H.
    assert (Hret : forall run0, subseq (retained kept run0 (c :: rest)) (rev kept ++ rev (run_chunks run0) ++ c :: rest)).
    { intros run0. unfold retained. destruct run0 as [[[r e] o]|]; cbn [run_chunks rev]; apply subseq_refl. }
    assert (Hin : forall kept0 r expected ordered,
      (if last c
       then let '(l0, s0, ms0) := pop_loop kept0 None rest (if ordered && (sseq c =? seq) then uint16_add seq 1 else seq) in
            (l0, s0, (sid c, ppid c, join_data (rev (c :: r))) :: ms0)
       else pop_loop kept0 (Some (c :: r, tsn_plus_one expected, ordered)) rest seq) = (l, s, ms) ->
      subseq l (rev kept0 ++ rev r ++ c :: rest)).
    { clear H. intros kept0 r expected ordered Heq. destruct (last c) eqn:El.
      - destruct (pop_loop kept0 None rest _) as [[l0 s0] ms0] eqn:E. injection Heq as <- _ _.
        apply IH in E. cbn [run_chunks rev app] in E.
        change (rev kept0 ++ rev r ++ c :: rest) with (rev kept0 ++ rev r ++ [c] ++ rest). rewrite (app_assoc (rev r)).
        now apply subseq_mid.
      - apply IH in Heq. cbn [run_chunks rev] in Heq. rewrite <- !app_assoc in Heq. exact Heq. }
    assert (HNone : forall kept0, pop_loop kept0 None (c :: rest) seq = (l, s, ms) -> subseq l (rev kept0 ++ c :: rest)).
    { clear H. intros kept0 H. cbn [pop_loop] in H. destruct (negb (first c)).
      * destruct (negb (unordered c)); [injection H as <- _ _; unfold retained; apply subseq_refl|].
        apply IH in H. cbn [run_chunks rev app] in H. rewrite <- app_assoc in H. exact H.
      * destruct (negb (unordered c) && uint16_gt (sseq c) seq); [injection H as <- _ _; unfold retained; apply subseq_refl|].
        now apply (Hin kept0 [] (tsn c) (negb (unordered c))). }
    destruct run as [[[r expected] ordered]|].
    + cbn [run_chunks] in *. destruct (negb (tsn c =? expected)).
      * destruct ordered; [injection H as <- _ _; apply (Hret (Some (r, expected, true)))|].
        change (pop_loop (r ++ kept) None (c :: rest) seq = (l, s, ms)) in H. apply HNone in H.
        rewrite rev_app_distr in H. rewrite <- !app_assoc in H. exact H.
      * now apply (Hin kept r expected ordered).
    + cbn [run_chunks rev app] in *. apply (HNone kept). exact H.
Qed.

(* ---------------------------------------------------------------- a whole arrival list on one stream *)
Fixpoint srunD (Q : list chunk) (seq : Z) (cs : list chunk) : option (list chunk * list (list chunk)) :=
  match cs with
  | [] => Some (Q, [])
  | c :: cs' =>
      match add_chunk Q c with
      | AddAssert => None
      | AddOk Q1 =>
          let '(Q2, seq2, _) := pop_messages Q1 seq in
          match srunD Q2 seq2 cs' with
          | Some (Qf, D) => Some (Qf, pop_runs [] None Q1 seq ++ D)
          | None => None
          end
      end
  end.

Lemma srun_srunD : forall cs Q seq,
  srun Q seq cs = match srunD Q seq cs with Some (_, D) => Some (map msgf D) | None => None end.
Proof.
  induction cs as [|c cs IH]; intros Q seq; cbn [srun srunD]; [reflexivity|].
  destruct (add_chunk Q c) as [Q1|]; [|reflexivity].
  destruct (pop_messages Q1 seq) as [[Q2 seq2] ms] eqn:Ep. unfold pop_messages in Ep.
  destruct (pop_loop_runs _ _ _ _ _ _ _ Ep) as [Em _]. rewrite IH.
  destruct (srunD Q2 seq2 cs) as [[Qf D]|]; [|reflexivity]. now rewrite map_app, Em.
Qed.

Section Once.
Variable base N : Z.
Hypothesis Hbase : r32 base.
Hypothesis HN : 0 <= N < 2147483648.

Notation inwc := (fun x : chunk => inw base N (tsn x)).

Lemma sorted_subseq l l' : subseq l l' -> sorted base l' -> sorted base l.
Proof.
  induction 1 as [|x l l' H IH|x l l' H IH]; intros S; [exact I| |].
  - destruct S as [_ S]. now apply IH.
  - destruct S as [F S]. split; [|now apply IH]. apply Forall_forall. intros y Hy. rewrite Forall_forall in F.
    apply F. eapply subseq_in; eauto.
Qed.

Lemma sorted_nodup l : sorted base l -> NoDup l.
Proof.
  induction l as [|c l IH]; intros S; [constructor|]. destruct S as [F S]. constructor; [|now apply IH].
  intros Hin. rewrite Forall_forall in F. pose proof (F c Hin). lia.
Qed.

Lemma cnt_nodup_eq l1 l2 : NoDup l1 -> NoDup l2 -> (forall x, In x l1 <-> In x l2) -> forall x, cnt l1 x = cnt l2 x.
Proof.
  intros N1 N2 H x. pose proof (proj1 (NoDup_count_occ chunk_eq_dec l1) N1 x). pose proof (proj1 (NoDup_count_occ chunk_eq_dec l2) N2 x).
  pose proof (count_occ_In chunk_eq_dec l1 x). pose proof (count_occ_In chunk_eq_dec l2 x). specialize (H x).
  destruct (Nat.eq_dec (cnt l1 x) 0); destruct (Nat.eq_dec (cnt l2 x) 0); try lia.
  - assert (In x l2) by (apply H3; lia). assert (In x l1) by tauto. apply H2 in H5. lia.
  - assert (In x l1) by (apply H2; lia). assert (In x l2) by tauto. apply H3 in H5. lia.
Qed.

Theorem stream_once : forall cs Q seq, sorted base Q -> Forall inwc Q -> Forall inwc cs ->
  (forall a b, In a (Q ++ cs) -> In b (Q ++ cs) -> offc base a = offc base b -> a = b) ->
  NoDup cs -> (forall c, In c cs -> ~ In c Q) ->
  exists Qf D, srunD Q seq cs = Some (Qf, D) /\
    (forall x, cnt (Q ++ cs) x = cnt (Qf ++ concat D) x) /\
    Forall (fun f => complete_run (rev f)) D.
Proof.
  induction cs as [|c cs IH]; intros Q seq SQ IQ Ics Hinj Hnd Hnew; cbn [srunD].
  - exists Q, []. split; [reflexivity|]. split; [intros x; now rewrite !app_nil_r|constructor].
  - inversion Ics as [|? ? Ic Ics']; subst. inversion Hnd as [|? ? Hc Hnd']; subst.
    assert (Hne : forall x, In x Q -> offc base x <> offc base c).
    { intros x Hx E. assert (x = c) by (apply Hinj; auto; apply in_or_app; [now left|right; now left]). subst.
      apply (Hnew c); [now left|exact Hx]. }
    destruct (add_chunk_sorted base N Hbase HN c Q SQ IQ Ic Hne) as (Q1 & E1 & S1 & In1). rewrite E1.
    destruct (pop_messages Q1 seq) as [[Q2 seq2] ms] eqn:Ep. unfold pop_messages in Ep.
    destruct (pop_loop_runs _ _ _ _ _ _ _ Ep) as [_ Hc1].
    pose proof (pop_loop_subseq _ _ _ _ _ _ _ Ep) as Hsub. cbn [rev run_chunks app] in Hsub, Hc1.
    pose proof (pop_runs_complete Q1 [] None seq I) as Hcomp.
    assert (S2 : sorted base Q2) by (eapply sorted_subseq; eauto).
    assert (Hin2 : incl Q2 Q1) by now apply subseq_in.
    assert (IQ1 : Forall inwc Q1).
    { apply Forall_forall. intros x Hx. apply In1 in Hx as [->|Hx]; [exact Ic|]. rewrite Forall_forall in IQ. now apply IQ. }
    assert (IQ2 : Forall inwc Q2) by (apply Forall_forall; intros x Hx; rewrite Forall_forall in IQ1; apply IQ1, Hin2, Hx).
    destruct (IH Q2 seq2 S2 IQ2 Ics') as (Qf & D & ED & HcD & HcompD); auto.
    + intros a b Ha Hb. apply Hinj; apply in_app_or in Ha, Hb; apply in_or_app.
      * destruct Ha as [Ha|Ha]; [apply Hin2, In1 in Ha as [->|Ha]; [right; now left|now left]|right; now right].
      * destruct Hb as [Hb|Hb]; [apply Hin2, In1 in Hb as [->|Hb]; [right; now left|now left]|right; now right].
    + intros x Hx Hx2. apply Hin2, In1 in Hx2 as [->|Hx2]; [contradiction|]. apply (Hnew x); [now right|exact Hx2].
    + rewrite ED. exists Qf, (pop_runs [] None Q1 seq ++ D). split; [reflexivity|]. split; [|apply Forall_app; split; assumption].
      intros x. specialize (HcD x). specialize (Hc1 x).
      assert (Hq1 : cnt Q1 x = cnt (c :: Q) x).
      { apply cnt_nodup_eq; [now apply sorted_nodup| |].
        - constructor; [intros Hx; apply (Hnew c); [now left|exact Hx]|now apply sorted_nodup].
        - intros y. rewrite In1. cbn [In]. intuition (subst; auto). }
      rewrite concat_app. revert HcD Hc1 Hq1. cnt_solve.
Qed.

(* distinct arrivals: no chunk takes part in two deliveries *)
Corollary stream_no_reuse cs seq : Forall inwc cs ->
  (forall a b, In a cs -> In b cs -> offc base a = offc base b -> a = b) -> NoDup cs ->
  exists Qf D, srunD [] seq cs = Some (Qf, D) /\ NoDup (concat D) /\ incl (concat D) cs /\
    Forall (fun f => complete_run (rev f)) D.
Proof.
  intros Ics Hinj Hnd.
  destruct (stream_once cs [] seq I (Forall_nil _) Ics Hinj Hnd (fun _ _ H => H)) as (Qf & D & E & Hc & Hcomp).
  exists Qf, D. split; [exact E|]. cbn [app] in Hc. split; [|split; [|exact Hcomp]].
  - apply (NoDup_count_occ chunk_eq_dec). intros x. pose proof (proj1 (NoDup_count_occ chunk_eq_dec cs) Hnd x).
    specialize (Hc x). rewrite count_occ_app in Hc. lia.
  - intros x Hx. apply (count_occ_In chunk_eq_dec). apply (count_occ_In chunk_eq_dec) in Hx.
    specialize (Hc x). rewrite count_occ_app in Hc. lia.
Qed.
End Once.
