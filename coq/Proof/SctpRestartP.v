(* C06: a gap inside a run of unordered fragments does not hide the message that follows it.
   (Before the repair in /repo the chunk at which the gap showed was skipped, so a complete
   unordered message that followed the fragments of an abandoned one was never delivered.) *)
From Coq Require Import ZArith List Bool.
From AV Require Import Lib.Bytes Gen.Utils Gen.SctpConst Model.SctpRecv.
Import ListNotations.
Local Open Scope Z_scope.

(* the scan gives the incomplete run up and looks at the same chunk again, with no candidate run *)
Lemma gap_restarts kept r e c rest seq : (tsn c =? e) = false ->
  pop_loop kept (Some (r, e, false)) (c :: rest) seq = pop_loop (r ++ kept) None (c :: rest) seq.
Proof. intros E. cbn [pop_loop]. rewrite E. reflexivity. Qed.

(* a complete one-chunk unordered message at the head of what is left to scan is delivered *)
Lemma complete_unordered_head kept c rest seq : unordered c = true -> first c = true -> last c = true ->
  exists l s ms, pop_loop kept None (c :: rest) seq = (l, s, (sid c, ppid c, join_data [c]) :: ms).
Proof.
  intros U F L. cbn [pop_loop]. rewrite U, F, L. cbn [negb andb rev app].
  destruct (pop_loop kept None rest seq) as [[l s] ms]. exists l, s, ms. reflexivity.
Qed.

Theorem message_after_gap_delivered kept r e c rest seq :
  (tsn c =? e) = false -> unordered c = true -> first c = true -> last c = true ->
  exists l s ms, pop_loop kept (Some (r, e, false)) (c :: rest) seq = (l, s, (sid c, ppid c, join_data [c]) :: ms).
Proof. intros E U F L. rewrite (gap_restarts _ _ _ _ _ _ E). now apply complete_unordered_head. Qed.

(* the history that used to lose the message: fragments 100, 101 of a message whose last fragment is
   lost, the complete message 103, the FORWARD-TSN that abandons the first message *)
Definition delivered (os : list rout) : list message :=
  flat_map (fun o => match o with OutOk ms _ => ms | OutAssert => [] end) os.

Example message_after_gap_example :
  let evs := [EvData (mkChunk 100 2 0 true true false 53 [1]); EvData (mkChunk 101 2 0 true false false 53 [2]);
              EvData (mkChunk 103 2 0 true true true 53 [9]); EvFwd 102 []] in
  delivered (snd (rrun (rinit 99) evs)) = [(2, 53, [9])] /\
  map (fun kv => (fst kv, reasm (snd kv))) (streams (fst (rrun (rinit 99) evs))) = [(2, [])].
Proof. vm_compute. split; reflexivity. Qed.
