(* C06: what a FORWARD-TSN does to the streams it does not name: nothing but pruning chunks at or
   below its cumulative TSN.  Their expected sequence number is untouched, nothing is delivered
   from them, and a stream whose queued chunks all lie beyond the cumulative TSN is untouched. *)
From Coq Require Import ZArith List Bool Lia.
From AV Require Import Lib.Bytes Gen.Utils Gen.SctpConst Model.SctpRecv Proof.SctpRecvP Proof.SctpC01P Proof.SctpOrderTP.
Import ListNotations.
Local Open Scope Z_scope.

Definition named (strs : list (Z * Z)) (id : Z) : Prop := In id (map fst strs).

Lemma fwd_streams_other : forall l strs id, ~ named l id ->
  get_stream (fst (fwd_streams strs l)) id = get_stream strs id.
Proof.
  induction l as [|[k sq] l IH]; intros strs id Hn; cbn [fwd_streams]; [reflexivity|].
  destruct (pop_messages _ _) as [[l2 seq2] ms].
  rewrite (surjective_pairing (fwd_streams (set_stream strs k (mkStream l2 seq2)) l)). cbn [fst].
  rewrite IH by (intros H; apply Hn; right; exact H).
  apply get_set_other. intros E. apply Hn. left. cbn. congruence.
Qed.

Lemma repop_streams_other : forall l strs id, ~ named l id ->
  get_stream (fst (repop_streams strs l)) id = get_stream strs id.
Proof.
  induction l as [|[k sq] l IH]; intros strs id Hn; cbn [repop_streams]; [reflexivity|].
  destruct (pop_messages _ _) as [[l2 seq2] ms].
  rewrite (surjective_pairing (repop_streams (set_stream strs k (mkStream l2 seq2)) l)). cbn [fst].
  rewrite IH by (intros H; apply Hn; right; exact H).
  apply get_set_other. intros E. apply Hn. left. cbn. congruence.
Qed.

Lemma prune_all_get t : forall strs id,
  get_stream (fst (prune_all strs t)) id =
  mkStream (fst (prune_chunks (reasm (get_stream strs id)) t)) (sseq_expected (get_stream strs id)).
Proof.
  induction strs as [|[k v] strs IH]; intros id; cbn [prune_all get_stream]; [reflexivity|].
  destruct (prune_chunks (reasm v) t) as [r size] eqn:Ep.
  rewrite (surjective_pairing (prune_all strs t)). cbn [fst get_stream].
  destruct (id =? k); [now rewrite Ep|apply IH].
Qed.

(* chunks beyond the cumulative TSN at the head of a queue stop the pruning *)
Lemma prune_chunks_nothing l t : match l with c :: _ => uint32_gte t (tsn c) = false | [] => True end ->
  fst (prune_chunks l t) = l.
Proof. destruct l as [|c l]; [reflexivity|]. intros H. cbn [prune_chunks]. now rewrite H. Qed.

Lemma prune_chunks_only_old l t : forall x, In x l -> ~ In x (fst (prune_chunks l t)) -> uint32_gte t (tsn x) = true.
Proof.
  induction l as [|c l IH]; intros x Hx Hn; [destruct Hx|]. cbn [prune_chunks] in Hn.
  destruct (uint32_gte t (tsn c)) eqn:G.
  - rewrite (surjective_pairing (prune_chunks l t)) in Hn. cbn [fst] in Hn. destruct Hx as [<-|Hx]; [exact G|].
    apply IH; [exact Hx|exact Hn].
  - cbn [fst] in Hn. contradiction.
Qed.

Theorem forward_tsn_other_streams s cum strs id : ~ named strs id ->
  let s' := fst (receive_forward_tsn s cum strs) in
  let st := get_stream (streams s) id in
  let st' := get_stream (streams s') id in
  sseq_expected st' = sseq_expected st /\
  (reasm st' = reasm st \/ reasm st' = fst (prune_chunks (reasm st) cum)) /\
  (forall x, In x (reasm st) -> ~ In x (reasm st') -> uint32_gte cum (tsn x) = true).
Proof.
  intros Hn. cbv zeta. unfold receive_forward_tsn. cbn [last_rx misordered duplicates streams rwnd sack_needed].
  destruct (uint32_gte (last_rx s) cum).
  { cbn [fst streams]. split; [reflexivity|]. split; [now left|]. intros x Hx Hnx. contradiction. }
  pose proof (fwd_streams_other strs (streams s) id Hn) as E1.
  destruct (fwd_streams (streams s) strs) as [strs2 ms]. cbn [fst] in E1.
  pose proof (prune_all_get cum strs2 id) as E2.
  destruct (prune_all strs2 cum) as [strs3 pruned]. cbn [fst] in E2.
  pose proof (repop_streams_other strs strs3 id Hn) as E3.
  destruct (repop_streams strs3 strs) as [strs4 ms']. cbn [fst streams] in *.
  rewrite E3, E2, E1. cbn [sseq_expected reasm]. split; [reflexivity|]. split; [now right|].
  intros x Hx Hnx. eapply prune_chunks_only_old; eauto.
Qed.
