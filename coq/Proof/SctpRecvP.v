(* Proofs about Model/SctpRecv.v: what pop_messages yields (C01, C06). *)
From Coq Require Import ZArith List Bool Lia.
From AV Require Import Lib.Bytes Gen.Utils Gen.SctpConst Model.SctpRecv.
Import ListNotations.
Local Open Scope Z_scope.

(* ---------------------------------------------------------------- runs *)
(* A run in REVERSED order (most recent chunk first), as pop_loop keeps it:
   adjacent TSNs are consecutive, the oldest chunk carries the B flag, no chunk
   of it carries the E flag. *)
Fixpoint consec_rev (r : list chunk) : Prop :=
  match r with
  | a :: ((b :: _) as r') => tsn a = tsn_plus_one (tsn b) /\ consec_rev r'
  | _ => True
  end.

Definition oldest (r : list chunk) (d : chunk) : chunk := List.last r d.

Definition partial_run (r : list chunk) (expected : Z) : Prop :=
  match r with
  | [] => False
  | c :: _ => expected = tsn_plus_one (tsn c) /\ consec_rev r /\ first (oldest r c) = true /\
              Forall (fun x => last x = false) r
  end.

(* a complete message run, reversed: c is the E fragment *)
Definition complete_run (cr : list chunk) : Prop :=
  match cr with
  | [] => False
  | c :: r => last c = true /\ Forall (fun x => last x = false) r /\ consec_rev cr /\
              first (oldest cr c) = true
  end.

Definition msg_of_run (cr : list chunk) (d : chunk) : message :=
  let c := hd d cr in (sid c, ppid c, join_data (rev cr)).

Definition run_ok (run : run_state) : Prop :=
  match run with
  | None => True
  | Some (r, e, _) => partial_run r e
  end.

Definition run_chunks (run : run_state) : list chunk :=
  match run with Some (r, _, _) => r | None => [] end.

(* every yielded message is the message of a complete run made of chunks that
   were in the candidate run or in the rest of the list *)
Definition yields_ok (avail : list chunk) (ms : list message) : Prop :=
  Forall (fun m => exists cr d, complete_run cr /\ m = msg_of_run cr d /\ incl cr avail) ms.

Lemma yields_ok_incl a b ms : incl a b -> yields_ok a ms -> yields_ok b ms.
Proof.
  unfold yields_ok. intros Hi H. eapply Forall_impl; [|exact H].
  intros m (cr & d & H1 & H2 & H3). exists cr, d. repeat split; auto. eapply incl_tran; eauto.
Qed.

Lemma oldest_cons c r d : r <> [] -> oldest (c :: r) d = oldest r d.
Proof. unfold oldest. destruct r; [congruence|reflexivity]. Qed.

Lemma oldest_default r d d' : r <> [] -> oldest r d = oldest r d'.
Proof.
  unfold oldest. induction r as [|a r IH]; [congruence|]. intros _. destruct r as [|b r]; [reflexivity|].
  cbn [List.last] in *. apply IH. congruence.
Qed.

Lemma pop_loop_yields rest : forall kept run seq l s ms,
  run_ok run -> pop_loop kept run rest seq = (l, s, ms) ->
  yields_ok (run_chunks run ++ rest) ms.
Proof.
  induction rest as [|c rest IH]; intros kept run seq l s ms Hok H.
  - cbn [pop_loop] in H. injection H as _ _ <-. constructor.
  - cbn [pop_loop] in H.
    (* the common in-run continuation *)
    assert (Hin : forall kept0 r expected ordered,
      (r = [] \/ partial_run r expected) -> (r = [] -> first c = true) -> tsn c = expected ->
      (if last c
       then let '(l0, s0, ms0) := pop_loop kept0 None rest
              (if ordered && (sseq c =? seq) then uint16_add seq 1 else seq) in
            (l0, s0, (sid c, ppid c, join_data (rev (c :: r))) :: ms0)
       else pop_loop kept0 (Some (c :: r, tsn_plus_one expected, ordered)) rest seq) = (l, s, ms) ->
      yields_ok (r ++ c :: rest) ms).
    { clear H. intros kept0 r expected ordered Hr Hfirst Ht Heq. destruct (last c) eqn:El.
      - destruct (pop_loop kept0 None rest _) as [[l0 s0] ms0] eqn:E. cbv beta iota in Heq. injection Heq as _ _ <-.
        constructor.
        + exists (c :: r), c. split; [|split].
          * cbn [complete_run]. destruct Hr as [->|Hp].
            -- repeat split; auto; try (cbn; now apply Hfirst).
            -- destruct r as [|b r']; [destruct Hp|]. destruct Hp as (He & Hc & Hf & Hl).
               split; [exact El|]. split; [exact Hl|]. split.
               ++ cbn [consec_rev]. split; [congruence|exact Hc].
               ++ rewrite oldest_cons by congruence. erewrite oldest_default; [exact Hf|congruence].
          * reflexivity.
          * intros x [<-|Hx]; apply in_or_app; [right; now left|now left].
        + apply IH in E; [|exact I]. cbn [run_chunks app] in E.
          eapply yields_ok_incl; [|exact E]. intros x Hx. apply in_or_app. right. now right.
      - apply IH in Heq.
        + cbn [run_chunks] in Heq. eapply yields_ok_incl; [|exact Heq].
          intros x Hx. apply in_app_or in Hx as [[<-|Hx]|Hx]; apply in_or_app; auto.
          * right. now left.
          * right. now right.
        + cbn [run_ok partial_run]. destruct Hr as [->|Hp].
          * repeat split; auto; try congruence; try (cbn; now apply Hfirst).
          * destruct r as [|b r']; [destruct Hp|]. destruct Hp as (He & Hc & Hf & Hl).
            split; [congruence|]. split.
            -- cbn [consec_rev]. split; [congruence|exact Hc].
            -- split.
               ++ rewrite oldest_cons by congruence. erewrite oldest_default; [exact Hf|congruence].
               ++ constructor; [exact El|exact Hl]. }
    (* no candidate run (also: an incomplete unordered run was given up and c is looked at again) *)
    assert (HNone : forall kept0, pop_loop kept0 None (c :: rest) seq = (l, s, ms) -> yields_ok (c :: rest) ms).
    { clear H. intros kept0 H. cbn [pop_loop] in H. destruct (negb (first c)) eqn:Ef.
      * destruct (negb (unordered c)).
        -- injection H as _ _ <-. constructor.
        -- apply IH in H; [|exact I]. cbn [run_chunks app] in H.
           eapply yields_ok_incl; [|exact H]. intros x Hx. now right.
      * apply negb_false_iff in Ef.
        destruct (negb (unordered c) && uint16_gt (sseq c) seq).
        -- injection H as _ _ <-. constructor.
        -- apply (Hin kept0 [] (tsn c) (negb (unordered c))); auto. }
    destruct run as [[[r expected] ordered]|].
    + cbn [run_chunks]. destruct (negb (tsn c =? expected)) eqn:Et.
      * destruct ordered.
        -- injection H as _ _ <-. constructor.
        -- change (pop_loop (r ++ kept) None (c :: rest) seq = (l, s, ms)) in H. apply HNone in H.
           eapply yields_ok_incl; [|exact H]. intros x Hx. apply in_or_app. now right.
      * apply negb_false_iff, Z.eqb_eq in Et. apply (Hin kept r expected ordered); auto.
        intros ->. destruct Hok.
    + cbn [run_chunks app]. apply (HNone kept). exact H.
Qed.

Theorem pop_messages_yields l seq l' s' ms :
  pop_messages l seq = (l', s', ms) -> yields_ok l ms.
Proof. unfold pop_messages. intros H. apply pop_loop_yields in H; [exact H|exact I]. Qed.

(* what stays in the queue was there before *)
Lemma retained_incl kept run rest : incl (retained kept run rest) (rev kept ++ rev (run_chunks run) ++ rest).
Proof. unfold retained. destruct run as [[[r e] o]|]; cbn [run_chunks]; apply incl_refl. Qed.

Ltac inapp := repeat (rewrite in_app_iff in * || rewrite <- in_rev in * || cbn [In app run_chunks] in * ); intuition (subst; auto).

Lemma pop_loop_retains rest : forall kept run seq l s ms,
  pop_loop kept run rest seq = (l, s, ms) -> incl l (kept ++ run_chunks run ++ rest).
Proof.
  induction rest as [|c rest IH]; intros kept run seq l s ms H.
  - cbn [pop_loop] in H. injection H as <- _ _. unfold retained.
    intros x Hx. destruct run as [[[r e] o]|]; inapp.
  - cbn [pop_loop] in H.
    assert (Hret : incl (retained kept run (c :: rest)) (kept ++ run_chunks run ++ c :: rest)).
    { intros x Hx. unfold retained in Hx. destruct run as [[[r e] o]|]; inapp. }
    assert (Hin : forall kept0 r expected ordered,
      (if last c
       then let '(l0, s0, ms0) := pop_loop kept0 None rest
              (if ordered && (sseq c =? seq) then uint16_add seq 1 else seq) in
            (l0, s0, (sid c, ppid c, join_data (rev (c :: r))) :: ms0)
       else pop_loop kept0 (Some (c :: r, tsn_plus_one expected, ordered)) rest seq) = (l, s, ms) ->
      incl l (kept0 ++ r ++ c :: rest)).
    { clear H Hret. intros kept0 r expected ordered Heq. destruct (last c) eqn:El.
      - destruct (pop_loop kept0 None rest _) as [[l0 s0] ms0] eqn:E. cbv beta iota in Heq. injection Heq as <- _ _.
        apply IH in E. intros x Hx. apply E in Hx. inapp.
      - apply IH in Heq. intros x Hx. apply Heq in Hx. inapp. }
    assert (HNone : forall kept0, pop_loop kept0 None (c :: rest) seq = (l, s, ms) -> incl l (kept0 ++ c :: rest)).
    { clear H Hret. intros kept0 H. cbn [pop_loop] in H.
      assert (Hret : incl (retained kept0 None (c :: rest)) (kept0 ++ c :: rest)).
      { intros x Hx. unfold retained in Hx. inapp. }
      destruct (negb (first c)).
      * destruct (negb (unordered c)).
        -- injection H as <- _ _. exact Hret.
        -- apply IH in H. intros x Hx. apply H in Hx. inapp.
      * destruct (negb (unordered c) && uint16_gt (sseq c) seq).
        -- injection H as <- _ _. exact Hret.
        -- now apply (Hin kept0 [] (tsn c) (negb (unordered c))). }
    destruct run as [[[r expected] ordered]|].
    + cbn [run_chunks] in *. destruct (negb (tsn c =? expected)).
      * destruct ordered.
        -- injection H as <- _ _. exact Hret.
        -- change (pop_loop (r ++ kept) None (c :: rest) seq = (l, s, ms)) in H. apply HNone in H.
           intros x Hx. apply H in Hx. inapp.
      * now apply (Hin kept r expected ordered).
    + cbn [run_chunks app] in *. apply (HNone kept). exact H.
Qed.

Theorem pop_messages_retains l seq l' s' ms :
  pop_messages l seq = (l', s', ms) -> incl l' l.
Proof. unfold pop_messages. intros H. apply pop_loop_retains in H. exact H. Qed.

Lemma add_scan_incl l c l' : add_scan l c = AddOk l' -> incl l' (c :: l).
Proof.
  revert l'. induction l as [|r l IH]; cbn [add_scan]; intros l' H.
  - injection H as <-. intros x [].
  - destruct (tsn r =? tsn c); [discriminate|]. destruct (uint32_gt (tsn r) (tsn c)).
    + injection H as <-. intros x [<-|[<-|Hx]]; [now left|right; now left|right; now right].
    + destruct (add_scan l c) as [l2|] eqn:E; [|discriminate]. injection H as <-.
      intros x [<-|Hx]; [right; now left|]. apply (IH l2 eq_refl) in Hx as [<-|Hx]; [now left|right; now right].
Qed.

Lemma add_chunk_incl l c l' : add_chunk l c = AddOk l' -> incl l' (c :: l).
Proof.
  unfold add_chunk. destruct l as [|a l0].
  - intros [= <-]. apply incl_refl.
  - destruct (uint32_gt _ _).
    + intros [= <-]. intros x Hx. change (a :: l0 ++ [c]) with ((a :: l0) ++ [c]) in Hx.
      apply in_app_or in Hx as [Hx|[<-|[]]]; [now right|now left].
    + apply add_scan_incl.
Qed.

Lemma prune_chunks_incl l t : incl (fst (prune_chunks l t)) l.
Proof.
  induction l as [|c l IH]; cbn [prune_chunks]; [apply incl_refl|].
  destruct (uint32_gte t (tsn c)).
  - destruct (prune_chunks l t) as [l2 size]. cbn [fst] in *. now apply incl_tl.
  - apply incl_refl.
Qed.
