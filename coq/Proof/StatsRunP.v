(* Proofs about Model/Stats.v (property C18), part 2: arbitrary event histories. *)
From Coq Require Import ZArith List Bool Lia.
From AV Require Import Lib.Bytes Lib.BytesP Gen.Utils Gen.RtpConst Model.Stats Proof.StatsP.
Import ListNotations.
Local Open Scope Z_scope.

Ltac Zify.zify_post_hook ::= Z.to_euclidean_division_equations.

(* ------------------------------------------------------------------ histories *)
Definition pkt := (Z * Z * Z)%type.             (* sequence number, RTP timestamp, arrival clock *)
Definition p_seq (p : pkt) : Z := fst (fst p).
Definition p_ts (p : pkt) : Z := snd (fst p).
Definition p_arr (p : pkt) : Z := snd p.

(* the RTP packets of an event history, in arrival order *)
Fixpoint pkts (evs : list ev) : list pkt :=
  match evs with
  | [] => []
  | Rtp seq ts arr :: evs' => (seq, ts, arr) :: pkts evs'
  | _ :: evs' => pkts evs'
  end.

(* sequence numbers come off the wire *)
Definition ev_ok (e : ev) : Prop :=
  match e with Rtp seq _ _ => 0 <= seq < 65536 | _ => True end.

(* -- reference figures, defined on the packet list only ---------------------- *)
(* highest sequence number (wire value) after the packets l, starting from m *)
Fixpoint top_from (m : Z) (l : list pkt) : Z :=
  match l with
  | [] => m
  | p :: l' => top_from (if uint16_gt (p_seq p) m then p_seq p else m) l'
  end.

(* sum of the forward serial steps taken by the highest sequence number *)
Fixpoint fwd_from (m : Z) (l : list pkt) : Z :=
  match l with
  | [] => 0
  | p :: l' => if uint16_gt (p_seq p) m then (p_seq p - m) mod 65536 + fwd_from (p_seq p) l'
               else fwd_from m l'
  end.

(* the packets that advance the highest sequence number ("in order") *)
Fixpoint inorder_from (m : Z) (l : list pkt) : list pkt :=
  match l with
  | [] => []
  | p :: l' => if uint16_gt (p_seq p) m then p :: inorder_from (p_seq p) l' else inorder_from m l'
  end.

(* RFC 3550 A.8 recurrence over successive packets, (lt, la) = previous packet *)
Fixpoint jit (J lt la : Z) (l : list pkt) : Z :=
  match l with
  | [] => J
  | p :: l' => jit (new_jit J la lt (p_ts p) (p_arr p)) (p_ts p) (p_arr p) l'
  end.

Definition first_seq (h : list pkt) : Z := match h with [] => 0 | p :: _ => p_seq p end.
Definition fwd (h : list pkt) : Z := match h with [] => 0 | p :: l => fwd_from (p_seq p) l end.
Definition top (h : list pkt) : Z := match h with [] => 0 | p :: l => top_from (p_seq p) l end.
Definition inorder (h : list pkt) : list pkt :=
  match h with [] => [] | p :: l => p :: inorder_from (p_seq p) l end.
Definition jitter_ref (h : list pkt) : Z :=
  match inorder h with [] => 0 | p :: l => jit 0 (p_ts p) (p_arr p) l end.
(* packets expected: 0 before the first packet *)
Definition expected_ref (h : list pkt) : Z := match h with [] => 0 | _ => fwd h + 1 end.
Definition count (h : list pkt) : Z := Z.of_nat (length h).

Fixpoint has_report (evs : list ev) : bool :=
  match evs with
  | [] => false
  | Report _ :: _ => true
  | _ :: evs' => has_report evs'
  end.

(* the prefix of the history that ends with its last Report event ([] if none) *)
Fixpoint upto_last_report (evs : list ev) : list ev :=
  match evs with
  | [] => []
  | e :: evs' =>
      if has_report evs' then e :: upto_last_report evs'
      else match e with Report _ => [e] | _ => [] end
  end.

(* the last sender report of SSRC S: (ntp, time of reception) *)
Fixpoint last_sr (S : Z) (evs : list ev) : option (Z * Z) :=
  match evs with
  | [] => None
  | e :: evs' =>
      match last_sr S evs' with
      | Some x => Some x
      | None => match e with
                | SrEv ssrc ntp now => if ssrc =? S then Some (ntp, now) else None
                | _ => None
                end
      end
  end.

Lemma upto_none evs : has_report evs = false -> upto_last_report evs = [].
Proof.
  induction evs as [|e evs IH]; [reflexivity|].
  intros H. cbn [upto_last_report]. destruct e; cbn [has_report] in H; try discriminate;
    rewrite H; reflexivity.
Qed.

(* ------------------------------------------------------------------ run, structurally *)
Lemma run_cons_fst S rs r e evs :
  fst (run S rs r (e :: evs)) = fst (run S rs (fst (step S rs r e)) evs).
Proof.
  cbn [run]. destruct (step S rs r e) as [r1 o]. cbn [fst snd]. destruct (run S rs r1 evs) as [r2 os]. reflexivity.
Qed.

Lemma run_cons_snd S rs r e evs :
  snd (run S rs r (e :: evs)) = snd (step S rs r e) :: snd (run S rs (fst (step S rs r e)) evs).
Proof.
  cbn [run]. destruct (step S rs r e) as [r1 o]. cbn [fst snd]. destruct (run S rs r1 evs) as [r2 os]. reflexivity.
Qed.

Lemma run_app_fst S rs evs1 : forall r evs2,
  fst (run S rs r (evs1 ++ evs2)) = fst (run S rs (fst (run S rs r evs1)) evs2).
Proof.
  induction evs1 as [|e evs1 IH]; intros r evs2; [reflexivity|].
  rewrite <- app_comm_cons, !run_cons_fst. apply IH.
Qed.

Lemma run_app_snd S rs evs1 : forall r evs2,
  snd (run S rs r (evs1 ++ evs2)) =
  snd (run S rs r evs1) ++ snd (run S rs (fst (run S rs r evs1)) evs2).
Proof.
  induction evs1 as [|e evs1 IH]; intros r evs2; [reflexivity|].
  rewrite <- app_comm_cons, !run_cons_snd, run_cons_fst, IH. reflexivity.
Qed.

(* the output of the event that follows the history `pre` *)
Lemma run_output_at S rs pre e post :
  snd (run S rs recv0 (pre ++ e :: post)) =
  snd (run S rs recv0 pre) ++
  snd (step S rs (fst (run S rs recv0 pre)) e) ::
  snd (run S rs (fst (step S rs (fst (run S rs recv0 pre)) e)) post).
Proof. rewrite run_app_snd, run_cons_snd. reflexivity. Qed.

Lemma run_length S rs evs : forall r, length (snd (run S rs r evs)) = length evs.
Proof.
  induction evs as [|e evs IH]; intros r; [reflexivity|].
  rewrite run_cons_snd. cbn [length]. rewrite IH. reflexivity.
Qed.

(* ------------------------------------------------------------------ single steps *)
Lemma step_rtp_est S rs r s b m la lt seq ts arr :
  stream r = Some s -> est s b m la lt -> 0 <= seq < 65536 ->
  exists s', step S rs r (Rtp seq ts arr) = (mkRecv (Some s') (lsr r) (lsr_time r), ONone) /\
    packets_received s' = packets_received s + 1 /\
    expected_prior s' = expected_prior s /\ received_prior s' = received_prior s /\
    if uint16_gt seq m
    then est s' b seq arr ts /\
         cycles s' + seq = cycles s + m + (seq - m) mod 65536 /\
         jitter_q4 s' = new_jit (jitter_q4 s) la lt ts arr
    else est s' b m la lt /\ cycles s' = cycles s /\ jitter_q4 s' = jitter_q4 s.
Proof.
  intros Hs He Hseq. destruct (add_est s b m la lt seq ts arr He Hseq) as (s' & Ha & Hrest).
  exists s'. split; [|exact Hrest]. cbn [step]. rewrite Hs, Ha. reflexivity.
Qed.

Definition report_info (S : Z) (r : recv) (s : stats) (b m now : Z) : rinfo :=
  let E := cycles s + m - b + 1 in
  mkInfo S
         (rfc_fraction (E - expected_prior s) (packets_received s - received_prior s))
         (rtp_clamp_packets_lost (E - packets_received s))
         ((cycles s + m) mod 4294967296)
         (jitter_q4 s / 16)
         (fst (lsr_dlsr r now)) (snd (lsr_dlsr r now)).

Lemma report_est S rs r s b m la lt now :
  stream r = Some s -> est s b m la lt ->
  report S rs r now =
  (mkRecv (Some (with_priors s (cycles s + m - b + 1) (packets_received s))) (lsr r) (lsr_time r),
   OReport (report_info S r s b m now) (rr_bytes rs (report_info S r s b m now))).
Proof.
  intros Hs He. unfold report. rewrite Hs.
  destruct (fraction_lost_est s b m la lt He) as (Hf & He1 & _). cbv zeta in Hf, He1.
  unfold report_info. destruct (lsr_dlsr r now) as [l d]. cbn [fst snd]. rewrite Hf.
  rewrite (packets_lost_est _ _ _ _ _ He1), (e_max _ _ _ _ _ He1).
  unfold jitter. rewrite shiftr_4, land_u32. unfold with_priors. proj. reflexivity.
Qed.

(* ------------------------------------------------------------------ histories from an established object *)
Lemma run_est S rs : forall evs r s b m la lt,
  stream r = Some s -> est s b m la lt -> Forall ev_ok evs ->
  exists s' la' lt',
    stream (fst (run S rs r evs)) = Some s' /\
    est s' b (top_from m (pkts evs)) la' lt' /\
    packets_received s' = packets_received s + count (pkts evs) /\
    cycles s' + top_from m (pkts evs) = cycles s + m + fwd_from m (pkts evs) /\
    jitter_q4 s' = jit (jitter_q4 s) lt la (inorder_from m (pkts evs)) /\
    expected_prior s' =
      (if has_report evs then cycles s + m + fwd_from m (pkts (upto_last_report evs)) - b + 1
       else expected_prior s) /\
    received_prior s' =
      (if has_report evs then packets_received s + count (pkts (upto_last_report evs))
       else received_prior s).
Proof.
  unfold count.
  induction evs as [|e evs IH]; intros r s b m la lt Hs He Hok.
  - exists s, la, lt. cbn. split; [exact Hs|]. split; [exact He|]. repeat split; lia.
  - inversion Hok as [|? ? Hok1 Hok2]; subst. rewrite run_cons_fst.
    destruct e as [seq ts arr|ssrc ntp now|now|].
    + (* RTP packet *)
      cbn [ev_ok] in Hok1.
      destruct (step_rtp_est S rs r s b m la lt seq ts arr Hs He Hok1)
        as (s1 & Hstep & Hr1 & Hep1 & Hrp1 & Hcase).
      rewrite Hstep. cbn [fst].
      cbn [pkts has_report upto_last_report top_from fwd_from inorder_from p_seq p_ts p_arr fst snd].
      destruct (uint16_gt seq m) eqn:G.
      * destruct Hcase as (He1 & Hc1 & Hj1).
        destruct (IH (mkRecv (Some s1) (lsr r) (lsr_time r)) s1 b seq arr ts eq_refl He1 Hok2)
          as (s' & la' & lt' & H1 & H2 & H3 & H4 & H5 & H6 & H7).
        exists s', la', lt'. split; [exact H1|]. split; [exact H2|].
        cbn [jit p_ts p_arr fst snd]. rewrite <- Hj1.
        split; [cbn [length]; lia|]. split; [lia|]. split; [exact H5|].
        destruct (has_report evs); cbn [pkts fwd_from p_seq fst length]; [rewrite G|]; split; lia.
      * destruct Hcase as (He1 & Hc1 & Hj1).
        destruct (IH (mkRecv (Some s1) (lsr r) (lsr_time r)) s1 b m la lt eq_refl He1 Hok2)
          as (s' & la' & lt' & H1 & H2 & H3 & H4 & H5 & H6 & H7).
        exists s', la', lt'. split; [exact H1|]. split; [exact H2|].
        rewrite <- Hj1.
        split; [cbn [length]; lia|]. split; [lia|]. split; [exact H5|].
        destruct (has_report evs); cbn [pkts fwd_from p_seq fst length]; [rewrite G|]; split; lia.
    + (* sender report *)
      cbn [step pkts has_report upto_last_report].
      assert (Hs1 : stream (fst (if ssrc =? S
                                 then (mkRecv (stream r) (Some (Z.land (Z.shiftr ntp 16) 4294967295)) now, ONone)
                                 else (r, ONone))) = Some s)
        by (destruct (ssrc =? S); exact Hs).
      destruct (IH _ s b m la lt Hs1 He Hok2) as (s' & la' & lt' & H1 & H2 & H3 & H4 & H5 & H6 & H7).
      exists s', la', lt'. split; [exact H1|]. split; [exact H2|]. split; [exact H3|]. split; [exact H4|].
      split; [exact H5|]. split.
      * rewrite H6. destruct (has_report evs); reflexivity.
      * rewrite H7. destruct (has_report evs); reflexivity.
    + (* report *)
      cbn [step]. rewrite (report_est S rs r s b m la lt now Hs He). cbn [fst].
      destruct (fraction_lost_est s b m la lt He) as (_ & He1 & _). cbv zeta in He1.
      destruct (IH (mkRecv (Some (with_priors s (cycles s + m - b + 1) (packets_received s))) (lsr r) (lsr_time r))
                   (with_priors s (cycles s + m - b + 1) (packets_received s)) b m la lt eq_refl He1 Hok2)
        as (s' & la' & lt' & H1 & H2 & H3 & H4 & H5 & H6 & H7).
      unfold with_priors in H3, H4, H5, H6, H7. proj_in H3. proj_in H4. proj_in H5. proj_in H6. proj_in H7.
      cbn [pkts has_report upto_last_report].
      exists s', la', lt'. split; [exact H1|]. split; [exact H2|]. split; [exact H3|]. split; [exact H4|].
      split; [exact H5|]. split.
      * rewrite H6. destruct (has_report evs); cbn [pkts fwd_from]; lia.
      * rewrite H7. destruct (has_report evs); cbn [pkts length]; lia.
    + (* probe *)
      cbn [step fst pkts has_report upto_last_report].
      destruct (IH r s b m la lt Hs He Hok2) as (s' & la' & lt' & H1 & H2 & H3 & H4 & H5 & H6 & H7).
      exists s', la', lt'. split; [exact H1|]. split; [exact H2|]. split; [exact H3|]. split; [exact H4|].
      split; [exact H5|]. split.
      * rewrite H6. destruct (has_report evs); reflexivity.
      * rewrite H7. destruct (has_report evs); reflexivity.
Qed.

(* ------------------------------------------------------------------ histories from the fresh receiver *)
Definition fresh (r : recv) : Prop := stream r = None.

Lemma run_fresh S rs : forall evs r,
  fresh r -> Forall ev_ok evs ->
  match pkts evs with
  | [] => stream (fst (run S rs r evs)) = None
  | p0 :: l =>
      exists s' la' lt',
        stream (fst (run S rs r evs)) = Some s' /\
        est s' (p_seq p0) (top_from (p_seq p0) l) la' lt' /\
        packets_received s' = count (p0 :: l) /\
        cycles s' + top_from (p_seq p0) l = p_seq p0 + fwd_from (p_seq p0) l /\
        jitter_q4 s' = jit 0 (p_ts p0) (p_arr p0) (inorder_from (p_seq p0) l) /\
        expected_prior s' = expected_ref (pkts (upto_last_report evs)) /\
        received_prior s' = count (pkts (upto_last_report evs))
  end.
Proof.
  unfold fresh, count.
  induction evs as [|e evs IH]; intros r Hs Hok; [exact Hs|].
  inversion Hok as [|? ? Hok1 Hok2]; subst. rewrite run_cons_fst.
  destruct e as [seq ts arr|ssrc ntp now|now|].
  - (* first RTP packet *)
    cbn [ev_ok] in Hok1. cbn [step]. rewrite Hs, add_init. cbn [fst pkts].
    pose proof (est_first seq ts arr Hok1) as He.
    set (s0 := mkStats (Some seq) (Some seq) 0 1 0 (Some arr) (Some ts) 0 0) in *.
    destruct (run_est S rs evs (mkRecv (Some s0) (lsr r) (lsr_time r)) s0 seq seq arr ts eq_refl He Hok2)
      as (s' & la' & lt' & H1 & H2 & H3 & H4 & H5 & H6 & H7).
    unfold s0 in H3, H4, H5, H6, H7.
    proj_in H3. proj_in H4. proj_in H5. proj_in H6. proj_in H7. unfold count in *.
    exists s', la', lt'. cbn [p_seq p_ts p_arr fst snd].
    split; [exact H1|]. split; [exact H2|]. split; [cbn [length]; lia|]. split; [lia|].
    split; [exact H5|].
    cbn [upto_last_report]. destruct (has_report evs).
    + cbn [pkts expected_ref fwd p_seq fst length]. split; lia.
    + cbn [pkts expected_ref length]. split; lia.
  - cbn [step pkts].
    assert (Hs1 : stream (fst (if ssrc =? S
                               then (mkRecv (stream r) (Some (Z.land (Z.shiftr ntp 16) 4294967295)) now, ONone)
                               else (r, ONone))) = None)
      by (destruct (ssrc =? S); exact Hs).
    specialize (IH _ Hs1 Hok2). cbn [upto_last_report].
    destruct (has_report evs) eqn:Hr; cbn [pkts]; [exact IH|].
    rewrite (upto_none _ Hr) in IH. exact IH.
  - cbn [step pkts]. unfold report. rewrite Hs. cbn [fst].
    specialize (IH _ Hs Hok2). cbn [upto_last_report].
    destruct (has_report evs) eqn:Hr; cbn [pkts]; [exact IH|].
    rewrite (upto_none _ Hr) in IH. exact IH.
  - cbn [step fst pkts].
    specialize (IH _ Hs Hok2). cbn [upto_last_report].
    destruct (has_report evs) eqn:Hr; cbn [pkts]; [exact IH|].
    rewrite (upto_none _ Hr) in IH. exact IH.
Qed.

(* ------------------------------------------------------------------ LSR bookkeeping *)
Definition mid32 (ntp : Z) : Z := (ntp / 65536) mod 4294967296.

Lemma run_lsr S rs : forall evs r,
  let r' := fst (run S rs r evs) in
  match last_sr S evs with
  | None => lsr r' = lsr r /\ lsr_time r' = lsr_time r
  | Some (ntp, t) => lsr r' = Some (mid32 ntp) /\ lsr_time r' = t
  end.
Proof.
  induction evs as [|e evs IH]; intros r; cbv zeta; [cbn; auto|].
  rewrite run_cons_fst. cbn [last_sr]. specialize (IH (fst (step S rs r e))). cbv zeta in IH.
  destruct (last_sr S evs) as [[ntp t]|]; [exact IH|].
  destruct IH as [IH1 IH2]. rewrite IH1, IH2.
  destruct e as [seq ts arr|ssrc ntp now|now|].
  - cbn [step]. destruct (add _ seq ts arr); auto.
  - cbn [step]. destruct (ssrc =? S); cbn [fst lsr lsr_time]; [|auto].
    unfold mid32. rewrite land_u32, shiftr_16. auto.
  - cbn [step]. unfold report. destruct (stream r) as [s|]; [|auto].
    destruct (lsr_dlsr r now) as [l d]. destruct (fraction_lost s) as [[fl s1]| | |]; [|auto|auto|auto].
    destruct (packets_lost s1), (max_seq s1); auto.
  - cbn [step]. auto.
Qed.

(* ------------------------------------------------------------------ every output fits *)
Definition lsr_ok (r : recv) : Prop :=
  match lsr r with Some l => 0 <= l < 4294967296 | None => True end.

Definition good (r : recv) : Prop :=
  lsr_ok r /\
  match stream r with None => True | Some s => exists b m la lt, est s b m la lt end.

Definition out_fits (o : out) : Prop :=
  match o with
  | ORtpCrash | OReportCrash => False
  | OProbe v => exists l, v = Ok l
  | OReport i b => info_fits i /\ exists l, b = Ok l /\ length l = 32%nat /\ bytes_ok l
  | _ => True
  end.

Lemma lsr_dlsr_range r now :
  lsr_ok r ->
  0 <= fst (lsr_dlsr r now) < 4294967296 /\ 0 <= snd (lsr_dlsr r now) < 4294967296.
Proof.
  unfold lsr_ok, lsr_dlsr. destruct (lsr r) as [l|]; intros H; cbn [fst snd]; [|lia].
  split; [exact H|].
  destruct (0 <? now - lsr_time r) eqn:E1; destruct (now - lsr_time r <? 68719476736) eqn:E2;
    cbn [andb]; lia.
Qed.

Lemma report_info_fits S r s b m la lt now :
  est s b m la lt -> lsr_ok r -> info_fits (report_info S r s b m now).
Proof.
  intros He Hl. destruct (fraction_lost_est s b m la lt He) as (_ & _ & Hf). cbv zeta in Hf.
  destruct (lsr_dlsr_range r now Hl) as [H1 H2].
  pose proof (e_J _ _ _ _ _ He) as HJ.
  unfold info_fits, report_info. cbv zeta. cbn [ri_fraction ri_lost ri_highest ri_jitter ri_lsr ri_dlsr].
  pose proof (clamp_range (cycles s + m - b + 1 - packets_received s)).
  repeat split; try lia.
Qed.

Lemma step_good S rs r e :
  0 <= S < 4294967296 -> 0 <= rs < 4294967296 -> good r -> ev_ok e ->
  good (fst (step S rs r e)) /\ out_fits (snd (step S rs r e)).
Proof.
  intros HS Hrs [Hl Hst] Hok. destruct e as [seq ts arr|ssrc ntp now|now|].
  - cbn [ev_ok] in Hok. destruct (stream r) as [s|] eqn:Hs.
    + destruct Hst as (b & m & la & lt & He).
      destruct (step_rtp_est S rs r s b m la lt seq ts arr Hs He Hok) as (s' & Hstep & _ & _ & _ & Hc).
      rewrite Hstep. cbn [fst snd out_fits]. split; [|exact I]. split; [exact Hl|]. cbn [stream].
      destruct (uint16_gt seq m); destruct Hc as (He' & _); eauto.
    + cbn [step]. rewrite Hs, add_init. cbn [fst snd out_fits]. split; [|exact I].
      split; [exact Hl|]. cbn [stream]. exists seq, seq, arr, ts. apply est_first. exact Hok.
  - cbn [step]. destruct (ssrc =? S); cbn [fst snd out_fits]; split; try exact I; [|split; assumption].
    split; [|exact Hst]. unfold lsr_ok. cbn [lsr]. rewrite land_u32. lia.
  - cbn [step]. destruct (stream r) as [s|] eqn:Hs.
    + destruct Hst as (b & m & la & lt & He).
      rewrite (report_est S rs r s b m la lt now Hs He). cbn [fst snd out_fits].
      destruct (fraction_lost_est s b m la lt He) as (_ & He1 & _). cbv zeta in He1.
      pose proof (report_info_fits S r s b m la lt now He Hl) as Hfit.
      split; [split; [exact Hl|cbn [stream]; eauto]|]. split; [exact Hfit|].
      apply rr_bytes_ok; [exact Hrs| |exact Hfit]. unfold report_info. cbn [ri_ssrc]. exact HS.
    + unfold report. rewrite Hs. cbn [fst snd out_fits]. split; [|exact I]. split; [exact Hl|]. rewrite Hs. exact I.
  - cbn [step fst snd]. split; [split; assumption|]. unfold probe.
    destruct (stream r) as [s|] eqn:Hs; [|cbn; eauto].
    destruct Hst as (b & m & la & lt & He).
    rewrite (packets_expected_est _ _ _ _ _ He), (packets_lost_est _ _ _ _ _ He). cbn. eauto.
Qed.

Lemma good_recv0 : good recv0.
Proof. split; exact I. Qed.

Lemma run_good S rs : forall evs r,
  0 <= S < 4294967296 -> 0 <= rs < 4294967296 -> good r -> Forall ev_ok evs ->
  good (fst (run S rs r evs)) /\ Forall out_fits (snd (run S rs r evs)).
Proof.
  induction evs as [|e evs IH]; intros r HS Hrs Hg Hok; [split; [exact Hg|constructor]|].
  inversion Hok as [|? ? Hok1 Hok2]; subst.
  destruct (step_good S rs r e HS Hrs Hg Hok1) as [Hg1 Ho1].
  destruct (IH _ HS Hrs Hg1 Hok2) as [Hg2 Ho2].
  rewrite run_cons_fst, run_cons_snd. split; [exact Hg2|constructor; assumption].
Qed.
