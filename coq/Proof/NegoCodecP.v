(* Codec negotiation between two peers that share the same capability table (C03):
   offered = filter_preferred(table, prefs_a); answered = filter_preferred(find_common(table, offered), prefs_b);
   applied by the offerer = filter_preferred(find_common(table, answered), prefs_a); none of them is empty
   and none of the calls fails when the table passes Nego.tables_ok and the preferences are compatible. *)
From Coq Require Import ZArith List Bool Lia.
From AV Require Import Model.Nego Proof.NegoP.
Import ListNotations.
Local Open Scope Z_scope.

Lemma forallb_combine_seq : forall T (f : nat * T -> bool) (l : list T) s,
  forallb f (combine (seq s (length l)) l) = true -> forall i x, nth_error l i = Some x -> f ((s + i)%nat, x) = true.
Proof.
  induction l as [|a l IH]; intros s H i x Hi; [destruct i; discriminate|].
  cbn [length seq combine forallb] in H. apply andb_true_iff in H. destruct H as [H1 H2].
  destruct i as [|i]; cbn [nth_error] in Hi.
  - inversion Hi; subst. rewrite Nat.add_0_r. exact H1.
  - rewrite Nat.add_succ_r. apply (IH (Datatypes.S s) H2 i x Hi).
Qed.

Lemma nodup_z_NoDup : forall l, nodup_z l = true -> NoDup l.
Proof.
  induction l as [|a l IH]; intro H; [constructor|]. cbn [nodup_z] in H. apply andb_true_iff in H. destruct H as [H1 H2].
  constructor; [|apply IH; exact H2]. intro Hin. apply existsb_Z_In in Hin. rewrite Hin in H1. discriminate.
Qed.

Definition real (c : codec) : Prop := is_rtx c = false.
Definition cap_of (c : codec) : cap := mkCap (c_kind c) (c_name c) (c_clock c) (c_channels c) (c_params c).

Lemma codec_eq_dec : forall a b : codec, {a = b} + {a <> b}.
Proof.
  assert (Hz : forall x y : Z, {x = y} + {x <> y}) by exact Z.eq_dec.
  assert (Hs : forall x y : str, {x = y} + {x <> y}) by (apply list_eq_dec; exact Hz).
  assert (Ho : forall x y : option Z, {x = y} + {x <> y}) by (decide equality).
  assert (Hos : forall x y : option str, {x = y} + {x <> y}) by (decide equality).
  assert (Hfb : forall x y : fb, {x = y} + {x <> y}) by (decide equality).
  assert (Hpv : forall x y : pval, {x = y} + {x <> y}) by (decide equality).
  assert (Hkv : forall x y : str * pval, {x = y} + {x <> y}) by (decide equality).
  assert (Hfbl : forall x y : list fb, {x = y} + {x <> y}) by (apply list_eq_dec; exact Hfb).
  assert (Hp : forall x y : params, {x = y} + {x <> y}) by (apply list_eq_dec; exact Hkv).
  decide equality.
Qed.

Section Table.
  Variable table : list codec.
  Let nonrtx := filter (fun c => negb (is_rtx c)) table.

  Hypothesis H_nonempty : nonrtx <> [].
  Hypothesis H_compat : forall i j ci cj, nth_error nonrtx i = Some ci -> nth_error nonrtx j = Some cj ->
                                        is_codec_compatible cj ci = Ok (Nat.eqb j i).
  Hypothesis H_follow : rtx_follow_ok None table = true.
  Hypothesis H_pts : NoDup (map c_pt table).
  Hypothesis H_cap : forall i j ci cj, nth_error nonrtx i = Some ci -> nth_error nonrtx j = Some cj ->
                                     cap_matches ci (cap_of cj) = Nat.eqb i j.

  Lemma real_in_nonrtx : forall c, In c table -> real c -> In c nonrtx.
  Proof. intros c Hin Hr. apply filter_In. split; [exact Hin|]. unfold real in Hr. rewrite Hr. reflexivity. Qed.

  Lemma nonrtx_in : forall c, In c nonrtx -> In c table /\ real c.
  Proof. intros c H. apply filter_In in H. destruct H as [H1 H2]. split; [exact H1|]. unfold real. destruct (is_rtx c); [discriminate | reflexivity]. Qed.

  Lemma table_pt_inj : forall a b, In a table -> In b table -> c_pt a = c_pt b -> a = b.
  Proof.
    intros a b Ha Hb E. apply In_nth_error in Ha. apply In_nth_error in Hb. destruct Ha as [i Hi]. destruct Hb as [j Hj].
    assert (Eij : i = j).
    { apply (proj1 (NoDup_nth_error (map c_pt table)) H_pts).
      - rewrite map_length. apply nth_error_Some. congruence.
      - rewrite !nth_error_map, Hi, Hj. cbn. congruence. }
    subst j. congruence.
  Qed.

  Lemma nonrtx_index_inj : forall i j c, nth_error nonrtx i = Some c -> nth_error nonrtx j = Some c -> i = j.
  Proof.
    intros i j c Hi Hj. pose proof (H_compat i j c c Hi Hj) as E1. pose proof (H_compat i i c c Hi Hi) as E2.
    rewrite Nat.eqb_refl in E2. rewrite E2 in E1. inversion E1 as [E]. symmetry in E. apply Nat.eqb_eq in E. auto.
  Qed.

  Lemma compat_real : forall x c, In x table -> In c table -> real x -> real c ->
    (x = c -> is_codec_compatible x c = Ok true) /\ (x <> c -> is_codec_compatible x c = Ok false).
  Proof.
    intros x c Hx Hc Rx Rc. pose proof (real_in_nonrtx _ Hx Rx) as Nx. pose proof (real_in_nonrtx _ Hc Rc) as Nc.
    apply In_nth_error in Nx. apply In_nth_error in Nc. destruct Nx as [j Hj]. destruct Nc as [i Hi].
    pose proof (H_compat i j c x Hi Hj) as E. split; intro Hxc.
    - subst x. rewrite (nonrtx_index_inj _ _ _ Hj Hi) in E. rewrite Nat.eqb_refl in E. exact E.
    - destruct (Nat.eqb_spec j i) as [->|Hne]; [congruence | exact E].
  Qed.

  Lemma compat_rtx_real : forall x c, is_rtx x = true -> real c -> is_codec_compatible x c = Ok false.
  Proof.
    intros x c Hx Hc. unfold is_codec_compatible, mime_eqb.
    destruct (str_eqb (lower (c_name x)) (lower (c_name c))) eqn:E.
    - apply str_eqb_eq in E. unfold is_rtx, real in *. unfold is_rtx in Hc. rewrite E in Hx. congruence.
    - rewrite andb_false_r. reflexivity.
  Qed.

  Lemma first_compat_table_gen : forall l c, incl l table -> In c table -> real c -> In c l -> first_compat l c = Ok (Some c).
  Proof.
    induction l as [|x l IH]; intros c Hl Hc Rc Hin; [destruct Hin|]. cbn [first_compat].
    assert (Hx : In x table) by (apply Hl; left; reflexivity).
    destruct (is_rtx x) eqn:Ex.
    - rewrite (compat_rtx_real x c Ex Rc). cbn [bind]. apply IH; auto.
      + intros y Hy. apply Hl. right. exact Hy.
      + destruct Hin as [->|Hin]; [unfold real in Rc; congruence | exact Hin].
    - destruct (compat_real x c Hx Hc Ex Rc) as [G1 G2]. destruct (codec_eq_dec x c) as [->|Hne].
      + rewrite (G1 eq_refl). reflexivity.
      + rewrite (G2 Hne). cbn [bind]. apply IH; auto.
        * intros y Hy. apply Hl. right. exact Hy.
        * destruct Hin as [->|Hin]; [congruence | exact Hin].
  Qed.

  Lemma first_compat_table : forall c, In c table -> real c -> first_compat table c = Ok (Some c).
  Proof. intros c Hc Rc. apply first_compat_table_gen; auto. apply incl_refl. Qed.

  Lemma filter_fb_self : forall l : list fb, filter (fun x => existsb (fb_eqb x) l) l = l.
  Proof.
    intro l. assert (G : forall l', incl l' l -> filter (fun x => existsb (fb_eqb x) l) l' = l').
    { induction l' as [|a l' IH]; intro Hi; [reflexivity|]. cbn [filter].
      assert (E : existsb (fb_eqb a) l = true) by (apply existsb_fb_In; apply Hi; left; reflexivity).
      rewrite E, IH; [reflexivity|]. intros y Hy. apply Hi. right. exact Hy. }
    apply G. apply incl_refl.
  Qed.

  Lemma adapt_self : forall c, adapt c c = c.
  Proof. intro c. unfold adapt. rewrite filter_fb_self. destruct (dynamic_pt (c_pt c)); destruct c; reflexivity. Qed.

  (* the shape of every codec list the two peers exchange *)
  Inductive oshape : list codec -> Prop :=
  | os_nil : oshape []
  | os_one : forall c rest, real c -> In c table -> oshape rest -> oshape (c :: rest)
  | os_two : forall c r rest, real c -> In c table -> is_rtx r = true -> In r table ->
                              pget (c_params r) key_apt = Some (PInt (c_pt c)) -> c_clock r = c_clock c ->
                              oshape rest -> oshape (c :: r :: rest).

  Lemma oshape_in : forall O, oshape O -> forall x, In x O -> In x table.
  Proof.
    induction 1; intros x Hx.
    - destruct Hx.
    - destruct Hx as [<-|Hx]; auto.
    - destruct Hx as [<-|[<-|Hx]]; auto.
  Qed.

  Lemma oshape_apt : forall O, oshape O -> forall r, In r O -> is_rtx r = true -> exists v, pget (c_params r) key_apt = Some v.
  Proof.
    induction 1 as [|c rest Rc Hc Hr IH|c r0 rest Rc Hc Hr0 Hr0t Hapt Hclk Hr IH]; intros r Hr' Hx.
    - destruct Hr'.
    - destruct Hr' as [<-|Hr']; [unfold real in Rc; congruence | auto].
    - destruct Hr' as [<-|[<-|Hr']]; [unfold real in Rc; congruence | eexists; exact Hapt | auto].
  Qed.

  Lemma oshape_head_real : forall O c, oshape O -> In c O -> exists c', In c' O /\ real c'.
  Proof. intros O c H Hin. inversion H; subst; [destruct Hin | exists c0; split; [left; reflexivity | assumption] ..]. Qed.

  Lemma fcc_loop_self : forall O, oshape O -> forall base, fcc_loop table O base = Ok O.
  Proof.
    induction 1 as [|c rest Rc Hc Hr IH|c r rest Rc Hc Hrx Hrt Hapt Hclk Hr IH]; intro base; cbn [fcc_loop].
    - reflexivity.
    - unfold real in Rc. rewrite Rc. rewrite (first_compat_table c Hc Rc). cbn [bind]. rewrite adapt_self, IH. reflexivity.
    - unfold real in Rc. rewrite Rc. rewrite (first_compat_table c Hc Rc). cbn [bind]. rewrite adapt_self.
      cbn [fcc_loop]. rewrite Hrx, Hapt. cbn [base_get]. rewrite Z.eqb_refl. rewrite IH. cbn [bind].
      rewrite Hclk, Z.eqb_refl. reflexivity.
  Qed.

  Lemma find_common_self : forall O, oshape O -> find_common_codecs table O = Ok O.
  Proof. intros O H. apply fcc_loop_self. exact H. Qed.

  (* the table itself has that shape *)
  Lemma table_oshape_gen : forall n l prev, (length l <= n)%nat -> incl l table -> rtx_follow_ok prev l = true ->
    (match l with c :: _ => real c | [] => True end) -> oshape l.
  Proof.
    induction n as [|n IH]; intros l prev Hlen Hl Hf Hhd.
    - destruct l; [constructor | cbn in Hlen; lia].
    - destruct l as [|c l]; [constructor|]. cbn [rtx_follow_ok] in Hf. unfold real in Hhd. rewrite Hhd in Hf. cbn [andb] in Hf.
      assert (Hc : In c table) by (apply Hl; left; reflexivity).
      destruct l as [|d l].
      + apply os_one; auto. constructor.
      + cbn [rtx_follow_ok] in Hf. destruct (is_rtx d) eqn:Ed.
        * apply andb_true_iff in Hf. destruct Hf as [Hd Hf].
          destruct (pget (c_params d) key_apt) as [[apt|?|]|] eqn:Eapt; try discriminate.
          rewrite Hhd in Hd. cbn [negb andb] in Hd. apply andb_true_iff in Hd. destruct Hd as [Hd1 Hd2].
          apply Z.eqb_eq in Hd1. apply Z.eqb_eq in Hd2. subst apt.
          apply os_two; auto.
          -- apply Hl. right. left. reflexivity.
          -- apply (IH l (Some d)); [cbn in Hlen; lia | intros y Hy; apply Hl; right; right; exact Hy | exact Hf|].
             destruct l as [|e l]; [exact I|]. cbn [rtx_follow_ok] in Hf. unfold real. destruct (is_rtx e); [|reflexivity].
             rewrite Ed in Hf. cbn in Hf. destruct (pget (c_params e) key_apt) as [[?|?|]|]; discriminate.
        * apply os_one; auto. apply (IH (d :: l) (Some c)); [cbn in *; lia | intros y Hy; apply Hl; right; exact Hy | | exact Ed].
          cbn [rtx_follow_ok]. rewrite Ed. exact Hf.
  Qed.

  Lemma table_oshape : oshape table.
  Proof.
    apply (table_oshape_gen (length table) table None); [lia | apply incl_refl | exact H_follow|].
    destruct table as [|c l] eqn:E; [exact I|]. unfold real. destruct (is_rtx c) eqn:Ec; [|reflexivity].
    cbn [rtx_follow_ok] in H_follow. rewrite Ec in H_follow. discriminate.
  Qed.

  (* an RTX entry of the table follows its base: same clock rate as the codec whose payload type it names *)
  Lemma rtx_clock_gen : forall l prev r c, incl l table -> rtx_follow_ok prev l = true -> In r l -> is_rtx r = true ->
    In c table -> pget (c_params r) key_apt = Some (PInt (c_pt c)) ->
    (match prev with Some b => In b table | None => True end) -> c_clock r = c_clock c.
  Proof.
    induction l as [|x l IH]; intros prev r c Hl Hf Hr Hrx Hc Hapt Hprev; [destruct Hr|].
    cbn [rtx_follow_ok] in Hf. apply andb_true_iff in Hf. destruct Hf as [Hx Hf].
    assert (Hxt : In x table) by (apply Hl; left; reflexivity).
    destruct Hr as [->|Hr].
    - rewrite Hrx in Hx. destruct prev as [b|]; [|discriminate]. rewrite Hapt in Hx.
      apply andb_true_iff in Hx. destruct Hx as [Hx Hclk]. apply andb_true_iff in Hx. destruct Hx as [_ Hpt].
      apply Z.eqb_eq in Hpt. apply Z.eqb_eq in Hclk.
      rewrite (table_pt_inj c b Hc Hprev Hpt). exact Hclk.
    - apply (IH (Some x) r c); auto. intros y Hy. apply Hl. right. exact Hy.
  Qed.

  Lemma rtx_clock : forall r c, In r table -> is_rtx r = true -> In c table ->
    pget (c_params r) key_apt = Some (PInt (c_pt c)) -> c_clock r = c_clock c.
  Proof. intros r c Hr Hrx Hc Hapt. apply (rtx_clock_gen table None r c); auto. apply incl_refl. Qed.

  (* blocks cut out of a list of that shape have that shape again *)
  Lemma blocks_oshape : forall O prefs res, oshape O -> pref_blocks O prefs res -> oshape res.
  Proof.
    intros O prefs res HO H. induction H as [|p ps res Hb IH|p ps c res Hp Hin Hm Hb IH|p ps c r res Hp Hin Hm Hr Hrx Hapt Hb IH].
    - constructor.
    - exact IH.
    - apply os_one; [exact (cap_matches_not_rtx _ _ Hm Hp) | exact (oshape_in _ HO c Hin) | exact IH].
    - pose proof (oshape_in _ HO c Hin) as Hct. pose proof (oshape_in _ HO r Hr) as Hrt.
      apply os_two; [exact (cap_matches_not_rtx _ _ Hm Hp) | exact Hct | exact Hrx | exact Hrt | exact Hapt
                    | exact (rtx_clock r c Hrt Hrx Hct Hapt) | exact IH].
  Qed.

  (* filter_preferred_codecs never fails on such lists and honours every satisfiable real preference *)
  Lemma find_rtx_total : forall rtxs pt, (forall r, In r rtxs -> exists v, pget (c_params r) key_apt = Some v) ->
    exists o, find_rtx rtxs pt = Ok o.
  Proof.
    induction rtxs as [|r rtxs IH]; intros pt H; cbn [find_rtx]; [eexists; reflexivity|].
    destruct (H r (or_introl eq_refl)) as [v Hv]. rewrite Hv. destruct (pval_eqb v (PInt pt)); [eexists; reflexivity|].
    apply IH. intros x Hx. apply H. right. exact Hx.
  Qed.

  Lemma fpc_loop_total : forall codecs en prefs,
    (forall r, In r codecs -> is_rtx r = true -> exists v, pget (c_params r) key_apt = Some v) ->
    exists res, fpc_loop codecs (filter is_rtx codecs) en prefs = Ok res /\
                forall p c, In p prefs -> cap_is_rtx p = false -> find_pref codecs p = Some c -> In c res.
  Proof.
    intros codecs en prefs Hapt. induction prefs as [|p ps IH]; cbn [fpc_loop].
    - eexists. split; [reflexivity|]. intros p c [].
    - destruct IH as [rest [E IH]]. destruct (cap_is_rtx p) eqn:Ep.
      + exists rest. split; [exact E|]. intros q c [<-|Hq] Hr Hf; [congruence | eapply IH; eauto].
      + destruct (find_pref codecs p) as [c|] eqn:Ef.
        * assert (G : exists o, (if en then find_rtx (filter is_rtx codecs) (c_pt c) else Ok None) = Ok o).
          { destruct en; [|eexists; reflexivity]. apply find_rtx_total. intros r Hr. apply filter_In in Hr. destruct Hr. auto. }
          destruct G as [o Eo]. rewrite Eo, E. cbn [bind]. eexists. split; [reflexivity|].
          intros q c' [<-|Hq] Hr Hf; [rewrite Ef in Hf; inversion Hf; subst; left; reflexivity|].
          right. apply in_or_app. right. eapply IH; eauto.
        * exists rest. split; [exact E|]. intros q c [<-|Hq] Hr Hf; [congruence | eapply IH; eauto].
  Qed.

  Lemma filter_preferred_total : forall O prefs, oshape O ->
    exists res, filter_preferred_codecs O prefs = Ok res /\ oshape res /\
                (prefs = [] -> res = O) /\
                (forall p c, In p prefs -> cap_is_rtx p = false -> find_pref O p = Some c -> In c res).
  Proof.
    intros O prefs HO. destruct prefs as [|p ps].
    - exists O. split; [reflexivity|]. split; [exact HO|]. split; [reflexivity|]. intros p c [].
    - destruct (fpc_loop_total O (existsb cap_is_rtx (p :: ps)) (p :: ps)) as [res [E C]].
      { intros r Hr Hx. eapply oshape_apt; eauto. }
      exists res. split; [exact E|]. split; [|split; [discriminate | exact C]].
      eapply blocks_oshape; [exact HO|]. apply (filter_preferred_blocks O (p :: ps) res); [discriminate | exact E].
  Qed.

  Lemma find_pref_exists : forall codecs p c, In c codecs -> cap_matches c p = true -> exists c', find_pref codecs p = Some c'.
  Proof.
    induction codecs as [|x l IH]; intros p c Hin Hm; [destruct Hin|]. cbn [find_pref].
    destruct (cap_matches x p) eqn:E; [eexists; reflexivity|].
    destruct Hin as [->|Hin]; [congruence | eapply IH; eauto].
  Qed.

  (* capabilities *)
  Lemma caps_of_real : forall l added p, In p (caps_of l added) -> cap_is_rtx p = false ->
    exists c, In c l /\ real c /\ p = cap_of c.
  Proof.
    induction l as [|c l IH]; intros added p Hin Hp; cbn [caps_of] in Hin; [destruct Hin|].
    destruct (is_rtx c) eqn:Ec; cbn [negb] in Hin.
    - destruct added; cbn [negb] in Hin.
      + destruct (IH _ _ Hin Hp) as [x [Q1 Q2]]. exists x. split; [right; exact Q1 | exact Q2].
      + destruct Hin as [<-|Hin].
        * exfalso. unfold cap_is_rtx in Hp. cbn [k_name] in Hp. unfold is_rtx in Ec. congruence.
        * destruct (IH _ _ Hin Hp) as [x [Q1 Q2]]. exists x. split; [right; exact Q1 | exact Q2].
    - destruct Hin as [<-|Hin].
      + exists c. split; [left; reflexivity|]. split; [exact Ec | reflexivity].
      + destruct (IH _ _ Hin Hp) as [x [Q1 Q2]]. exists x. split; [right; exact Q1 | exact Q2].
  Qed.

  Lemma cap_matches_self : forall c, In c table -> real c -> cap_matches c (cap_of c) = true.
  Proof.
    intros c Hc Rc. pose proof (real_in_nonrtx _ Hc Rc) as N. apply In_nth_error in N. destruct N as [i Hi].
    rewrite (H_cap i i c c Hi Hi). apply Nat.eqb_refl.
  Qed.

  Definition drawn (prefs : list cap) : Prop := forall p, In p prefs -> In p (caps_of table false).
  Definition has_real (prefs : list cap) : Prop := prefs <> [] -> exists p, In p prefs /\ cap_is_rtx p = false.
  Definition compatible (pa pb : list cap) : Prop :=
    pa = [] \/ pb = [] \/ exists p, In p pa /\ In p pb /\ cap_is_rtx p = false.

  Lemma drawn_pref_found : forall O p, oshape O -> drawn [p] -> cap_is_rtx p = false ->
    exists c, In c table /\ real c /\ p = cap_of c /\ (In c O -> exists c', find_pref O p = Some c').
  Proof.
    intros O p HO Hd Hp. destruct (caps_of_real _ _ _ (Hd p (or_introl eq_refl)) Hp) as [c [Hc [Rc ->]]].
    exists c. repeat split; auto. intro Hin. eapply find_pref_exists; [exact Hin | apply cap_matches_self; auto].
  Qed.

  Lemma oshape_nonempty_real : forall O, oshape O -> O <> [] -> exists c, In c O /\ real c.
  Proof. intros O H Hne. inversion H; subst; [congruence | exists c; split; [left; reflexivity | assumption] ..]. Qed.

  (* offered list of a transceiver with preferences pa *)
  Lemma offered_ok : forall pa, drawn pa -> has_real pa ->
    exists O, filter_preferred_codecs table pa = Ok O /\ oshape O /\ O <> [] /\
              (pa = [] -> O = table) /\
              (forall p, In p pa -> cap_is_rtx p = false -> exists c, In c O /\ real c /\ p = cap_of c).
  Proof.
    intros pa Hd Hr. destruct (filter_preferred_total table pa table_oshape) as [O [E [HO [Hnil Hc]]]].
    exists O. split; [exact E|]. split; [exact HO|].
    assert (Hfound : forall p, In p pa -> cap_is_rtx p = false -> exists c, In c O /\ real c /\ p = cap_of c).
    { intros p Hp Hpr. destruct (caps_of_real _ _ _ (Hd p Hp) Hpr) as [c [Hct [Rc ->]]].
      destruct (find_pref_exists table (cap_of c) c Hct (cap_matches_self c Hct Rc)) as [c' Ef].
      pose proof (Hc _ _ Hp Hpr Ef) as Hin. apply find_pref_some in Ef. destruct Ef as [Hc't Hm].
      (* the codec found is c itself: matching is injective on the real codecs of the table *)
      assert (Rc' : real c') by (eapply cap_matches_not_rtx; eauto).
      pose proof (real_in_nonrtx _ Hct Rc) as N1. pose proof (real_in_nonrtx _ Hc't Rc') as N2.
      apply In_nth_error in N1. apply In_nth_error in N2. destruct N1 as [j Hj]. destruct N2 as [i Hi].
      rewrite (H_cap i j c' c Hi Hj) in Hm. apply Nat.eqb_eq in Hm. subst j. rewrite Hi in Hj. inversion Hj; subst c'.
      exists c. auto. }
    split; [|split; [exact Hnil | exact Hfound]].
    destruct pa as [|p ps].
    - rewrite (Hnil eq_refl). intro E0. apply H_nonempty. unfold nonrtx. rewrite E0. reflexivity.
    - destruct (Hr ltac:(discriminate)) as [q [Hq Hqr]]. destruct (Hfound q Hq Hqr) as [c [Hin _]]. intro E0. rewrite E0 in Hin. destruct Hin.
  Qed.

  (* the whole three-step negotiation of one section *)
  Theorem nego_ok : forall pa pb, drawn pa -> drawn pb -> has_real pa -> has_real pb -> compatible pa pb ->
    exists O N M,
      filter_preferred_codecs table pa = Ok O /\
      find_common_codecs table O = Ok O /\ filter_preferred_codecs O pb = Ok N /\ N <> [] /\
      find_common_codecs table N = Ok N /\ filter_preferred_codecs N pa = Ok M /\ M <> [].
  Proof.
    intros pa pb Da Db Ra Rb Hc.
    destruct (offered_ok pa Da Ra) as [O [EO [HO [HOne [HOnil HOf]]]]].
    destruct (filter_preferred_total O pb HO) as [N [EN [HN [HNnil HNc]]]].
    destruct (filter_preferred_total N pa HN) as [M [EM [HM [HMnil HMc]]]].
    exists O, N, M. split; [exact EO|]. split; [apply find_common_self; exact HO|]. split; [exact EN|].
    (* a preference of pb that is also offered *)
    assert (HNne : N <> [] /\ (pa <> [] -> exists p c, In p pa /\ cap_is_rtx p = false /\ In c N /\ cap_matches c p = true)).
    { destruct pb as [|qb pbs].
      - rewrite (HNnil eq_refl). split; [exact HOne|]. intros Hpa.
        destruct (oshape_nonempty_real O HO HOne) as [c [Hin Rc]].
        destruct pa as [|p ps]; [congruence|].
        assert (B : pref_blocks table (p :: ps) O) by (apply filter_preferred_blocks; [discriminate | exact EO]).
        destruct (pref_blocks_real_preferred _ _ _ B c Hin Rc) as [q [Q1 [Q2 Q3]]]. exists q, c. auto.
      - assert (Hp : exists p, In p (qb :: pbs) /\ cap_is_rtx p = false /\ (pa <> [] -> In p pa)).
        { destruct Hc as [->|[Hc|[p [P1 [P2 P3]]]]].
          - destruct (Rb ltac:(discriminate)) as [p [P1 P2]]. exists p. split; [exact P1|]. split; [exact P2 | congruence].
          - discriminate.
          - exists p. auto. }
        destruct Hp as [p [P1 [P2 P3]]].
        (* p is a capability of a real table codec c; c is offered *)
        destruct (caps_of_real _ _ _ (Db p P1) P2) as [c [Hct [Rc Ep]]].
        assert (HcO : In c O).
        { destruct pa as [|pa0 pas].
          - rewrite (HOnil eq_refl). exact Hct.
          - destruct (HOf p (P3 ltac:(discriminate)) P2) as [c' [Hin [Rc' Ep']]].
            assert (c' = c).
            { rewrite Ep in Ep'. pose proof (oshape_in _ HO c' Hin) as Hc't.
              pose proof (real_in_nonrtx _ Hct Rc) as N1. pose proof (real_in_nonrtx _ Hc't Rc') as N2.
              apply In_nth_error in N1. apply In_nth_error in N2. destruct N1 as [j Hj]. destruct N2 as [i Hi].
              pose proof (H_cap i j c' c Hi Hj) as E1. rewrite Ep' in E1. rewrite (cap_matches_self c' Hc't Rc') in E1.
              symmetry in E1. apply Nat.eqb_eq in E1. subst j. congruence. }
            subst c'. exact Hin. }
        destruct (find_pref_exists O p c HcO) as [c' Ef]; [rewrite Ep; apply cap_matches_self; auto|].
        pose proof (HNc p c' P1 P2 Ef) as HinN. apply find_pref_some in Ef. destruct Ef as [_ Hm].
        split; [intro E0; rewrite E0 in HinN; destruct HinN|].
        intro Hpa. exists p, c'. auto. }
    destruct HNne as [HNne HNpa]. split; [exact HNne|]. split; [apply find_common_self; exact HN|]. split; [exact EM|].
    destruct pa as [|p ps].
    - rewrite (HMnil eq_refl). exact HNne.
    - destruct (HNpa ltac:(discriminate)) as [q [c [Q1 [Q2 [Q3 Q4]]]]].
      destruct (find_pref_exists N q c Q3 Q4) as [c' Ef]. pose proof (HMc q c' Q1 Q2 Ef) as Hin.
      intro E0. rewrite E0 in Hin. destruct Hin.
  Qed.
End Table.

(* ---- the hypotheses of the section follow from the executable check Nego.tables_ok ------------------------- *)
Lemma kind_table_ok_facts : forall kind cs xs, kind_table_ok kind cs xs = true ->
  let nonrtx := filter (fun c => negb (is_rtx c)) cs in
  nonrtx <> [] /\
  (forall i j ci cj, nth_error nonrtx i = Some ci -> nth_error nonrtx j = Some cj -> is_codec_compatible cj ci = Ok (Nat.eqb j i)) /\
  rtx_follow_ok None cs = true /\ NoDup (map c_pt cs) /\
  (forall i j ci cj, nth_error nonrtx i = Some ci -> nth_error nonrtx j = Some cj -> cap_matches ci (cap_of cj) = Nat.eqb i j).
Proof.
  intros kind cs xs H nonrtx. unfold kind_table_ok in H. fold nonrtx in H.
  repeat (apply andb_true_iff in H; destruct H as [H ?]).
  split; [|split; [|split; [|split]]].
  - intro E. rewrite E in H. discriminate.
  - intros i j ci cj Hi Hj.
    match goal with Hc : forallb (fun ic => compat_row_ok nonrtx (fst ic) (snd ic)) _ = true |- _ =>
      pose proof (forallb_combine_seq _ _ nonrtx 0 Hc i ci Hi) as R end.
    cbn [fst snd Nat.add] in R. unfold compat_row_ok in R.
    pose proof (forallb_combine_seq _ _ nonrtx 0 R j cj Hj) as R2. cbn [fst snd Nat.add] in R2.
    destruct (is_codec_compatible cj ci) as [b| | |]; try discriminate. apply eqb_prop in R2. congruence.
  - assumption.
  - apply nodup_z_NoDup. assumption.
  - intros i j ci cj Hi Hj.
    match goal with Hc : forallb (fun ic => forallb _ _) _ = true |- _ =>
      pose proof (forallb_combine_seq _ _ nonrtx 0 Hc i ci Hi) as R end.
    cbn [fst snd Nat.add] in R.
    pose proof (forallb_combine_seq _ _ nonrtx 0 R j cj Hj) as R2. cbn [fst snd Nat.add] in R2.
    apply eqb_prop in R2. exact R2.
Qed.

Lemma tables_ok_kind : forall T k, tables_ok T = true -> is_av k = true ->
  exists xs, kind_table_ok k (CODECS T k) xs = true.
Proof.
  intros T k H Hk. unfold tables_ok in H. apply andb_true_iff in H. destruct H as [H0 H1].
  unfold is_av in Hk. apply orb_true_iff in Hk. destruct Hk as [Hk|Hk]; apply Z.eqb_eq in Hk; subst k.
  - exists (exts_audio T). exact H0.
  - exists (exts_video T). exact H1.
Qed.

Theorem nego_ok_tables : forall T k pa pb, tables_ok T = true -> is_av k = true ->
  drawn (CODECS T k) pa -> drawn (CODECS T k) pb -> has_real pa -> has_real pb -> compatible pa pb ->
  exists O N M,
    filter_preferred_codecs (CODECS T k) pa = Ok O /\
    find_common_codecs (CODECS T k) O = Ok O /\ filter_preferred_codecs O pb = Ok N /\ N <> [] /\
    find_common_codecs (CODECS T k) N = Ok N /\ filter_preferred_codecs N pa = Ok M /\ M <> [].
Proof.
  intros T k pa pb HT Hk Da Db Ra Rb Hc. destruct (tables_ok_kind T k HT Hk) as [xs Hx].
  destruct (kind_table_ok_facts _ _ _ Hx) as [F1 [F2 [F3 [F4 F5]]]].
  exact (nego_ok (CODECS T k) F1 F2 F3 F4 F5 pa pb Da Db Ra Rb Hc).
Qed.

Lemma offer_codecs_total : forall T trs, tables_ok T = true ->
  (forall t, In t trs -> is_av (t_kind t) = true /\ drawn (CODECS T (t_kind t)) (t_preferred t) /\ has_real (t_preferred t)) ->
  exists trs0, offer_codecs T trs = Ok trs0.
Proof.
  intros T trs HT. induction trs as [|t ts IH]; intro H; cbn [offer_codecs]; [eexists; reflexivity|].
  destruct (H t (or_introl eq_refl)) as [Hk [Hd Hr]].
  destruct (tables_ok_kind T _ HT Hk) as [xs Hx]. destruct (kind_table_ok_facts _ _ _ Hx) as [F1 [F2 [F3 [F4 F5]]]].
  destruct (offered_ok (CODECS T (t_kind t)) F1 F2 F3 F4 F5 _ Hd Hr) as [O [E _]]. rewrite E. cbn [bind].
  destruct IH as [ts' E']; [intros x Hx'; apply H; right; exact Hx'|]. rewrite E'. cbn [bind]. eexists. reflexivity.
Qed.
