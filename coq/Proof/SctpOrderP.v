(* C01: ordered delivery.  On an ordered stream the messages handed to the application
   are exactly a prefix of the messages sent on that stream, in sending order, each
   once -- for EVERY arrival order of distinct chunks (loss = never arriving;
   duplicates are filtered before the stream sees them, see SctpDupP). *)
From Coq Require Import ZArith List Bool Lia ZifyBool Arith.
From AV Require Import Lib.Bytes Gen.Utils Gen.SctpConst Model.SctpRecv Proof.SerialP Proof.SctpRecvP Proof.SctpC01P Proof.SctpDupP.
Import ListNotations.
Local Open Scope Z_scope.

Ltac Zify.zify_post_hook ::= Z.to_euclidean_division_equations.

Definition offc (base : Z) (c : chunk) : Z := off base (tsn c).

Section Sorted.
Variable base N : Z.
Hypothesis Hbase : r32 base.
Hypothesis HN : 0 <= N < 2147483648.
Local Notation offc := (offc base).

(* ---- sorted queues *)
Fixpoint sorted (l : list chunk) : Prop :=
  match l with [] => True | c :: l' => Forall (fun x => offc c < offc x) l' /\ sorted l' end.


Lemma sorted_app l1 l2 : sorted l1 -> sorted l2 -> (forall a b, In a l1 -> In b l2 -> offc a < offc b) -> sorted (l1 ++ l2).
Proof.
  induction l1 as [|c l1 IH]; cbn [app sorted]; intros S1 S2 H; [exact S2|].
  destruct S1 as [F1 S1]. split.
  - apply Forall_app. split; [exact F1|]. apply Forall_forall. intros x Hx. apply H; [now left|exact Hx].
  - apply IH; auto. intros a b Ha Hb. apply H; [now right|exact Hb].
Qed.

Lemma sorted_last_max l d : sorted l -> forall x, In x l -> offc x <= offc (List.last l d).
Proof.
  induction l as [|c l IH]; intros S x Hx; [destruct Hx|]. destruct S as [F S].
  destruct l as [|b l']; [destruct Hx as [<-|[]]; cbn; lia|].
  change (List.last (c :: b :: l') d) with (List.last (b :: l') d).
  destruct Hx as [<-|Hx]; [|now apply IH].
  rewrite Forall_forall in F. pose proof (F b (or_introl eq_refl)). pose proof (IH S b (or_introl eq_refl)). lia.
Qed.

Lemma add_scan_sorted c : forall l, sorted l -> Forall (fun x => inw base N (tsn x)) l -> inw base N (tsn c) ->
  (forall x, In x l -> offc x <> offc c) -> (exists x, In x l /\ offc c < offc x) ->
  exists l', add_scan l c = AddOk l' /\ sorted l' /\ forall x, In x l' <-> x = c \/ In x l.
Proof.
  induction l as [|r l IH]; intros S I Ic Hne (w & Hw & Hlt); [destruct Hw|]. cbn [add_scan].
  destruct S as [F S]. inversion I as [|? ? Ir Il]; subst.
  assert (Hrc : offc r <> offc c) by (apply Hne; now left).
  destruct (Z.eqb_spec (tsn r) (tsn c)) as [E|_]; [unfold offc in Hrc; congruence|].
  destruct (uint32_gt (tsn r) (tsn c)) eqn:G.
  - apply (gt_off base N Hbase HN _ _ Ir Ic) in G. exists (c :: r :: l). split; [reflexivity|]. split.
    + cbn [sorted]. split; [|split; assumption]. constructor; [exact G|].
      eapply Forall_impl; [|exact F]. intros x Hx. cbv beta in *. fold (offc c) (offc r) in G. lia.
    + intros x. cbn [In]. intuition (subst; auto).
  - assert (G' : offc r < offc c).
    { destruct (Z.lt_trichotomy (offc r) (offc c)) as [H|[H|H]]; [exact H|contradiction|].
      apply (gt_off base N Hbase HN _ _ Ir Ic) in H. congruence. }
    destruct Hw as [<-|Hw]; [lia|].
    destruct (IH S Il Ic (fun x Hx => Hne x (or_intror Hx)) (ex_intro _ w (conj Hw Hlt))) as (l2 & E2 & S2 & In2).
    rewrite E2. exists (r :: l2). split; [reflexivity|]. split.
    + cbn [sorted]. split; [|exact S2]. apply Forall_forall. intros x Hx. apply In2 in Hx as [->|Hx]; [exact G'|].
      rewrite Forall_forall in F. now apply F.
    + intros x. cbn [In]. rewrite In2. intuition (subst; auto).
Qed.

Lemma add_chunk_sorted c l : sorted l -> Forall (fun x => inw base N (tsn x)) l -> inw base N (tsn c) ->
  (forall x, In x l -> offc x <> offc c) ->
  exists l', add_chunk l c = AddOk l' /\ sorted l' /\ forall x, In x l' <-> x = c \/ In x l.
Proof.
  intros S I Ic Hne. unfold add_chunk. destruct l as [|a l0] eqn:El.
  - exists [c]. split; [reflexivity|]. split; [cbn; auto|]. intros x. cbn. intuition (subst; auto).
  - rewrite <- El in *. assert (Hl : In (List.last l c) l).
    { rewrite El. clear. revert a. induction l0 as [|b l0 IH]; intros a; [now left|]. right. apply IH. }
    assert (Il : inw base N (tsn (List.last l c))) by (rewrite Forall_forall in I; now apply I).
    destruct (uint32_gt (tsn c) (tsn (List.last l c))) eqn:G.
    + apply (gt_off base N Hbase HN _ _ Ic Il) in G. exists (l ++ [c]). split; [reflexivity|]. split.
      * apply sorted_app; [exact S|cbn; auto|]. intros x y Hx [<-|[]].
        pose proof (sorted_last_max l c S x Hx). fold (offc (List.last l c)) (offc c) in G. lia.
      * intros x. rewrite in_app_iff. cbn. intuition (subst; auto).
    + apply add_scan_sorted; auto. exists (List.last l c). split; [exact Hl|].
      pose proof (Hne _ Hl) as Hd.
      destruct (Z.lt_trichotomy (offc (List.last l c)) (offc c)) as [H|[H|H]]; [|contradiction|exact H].
      apply (gt_off base N Hbase HN _ _ Ic Il) in H. congruence.
Qed.
End Sorted.

Section Ordered.
Variable base N : Z.
Hypothesis Hbase : r32 base.
Hypothesis HN : 0 <= N < 2147483648.
(* the messages sent on this stream, as fragment lists, in sending order; o j is the
   TSN offset (from `base`) of the first fragment of message j; s0 the SSN of message 0 *)
Variable M : list (list chunk).
Variable o : nat -> Z.
Variable s0 : Z.

Local Notation offc := (offc base).
Local Notation sorted := (sorted base).

Definition ssn (j : nat) : Z := (s0 + Z.of_nat j) mod 65536.

Record chunk_ok (j i : nat) (f : list chunk) (c : chunk) : Prop := {
  ok_un : unordered c = false;
  ok_sseq : sseq c = ssn j;
  ok_first : first c = Nat.eqb i 0;
  ok_last : last c = Nat.eqb (S i) (length f);
  ok_inw : inw base N (tsn c);
  ok_off : offc c = o j + Z.of_nat i }.

Hypothesis wfM : forall j f, nth_error M j = Some f ->
  f <> [] /\ o j + Z.of_nat (length f) <= o (S j) /\ forall i c, nth_error f i = Some c -> chunk_ok j i f c.

Definition at_ (j i : nat) (c : chunk) : Prop := exists f, nth_error M j = Some f /\ nth_error f i = Some c.

Lemma o_mono : forall d j f, nth_error M j = Some f -> (j + d < length M)%nat ->
  o j + Z.of_nat (length f) <= o (j + S d)%nat.
Proof.
  induction d as [|d IH]; intros j f Hf Hl.
  - replace (j + 1)%nat with (S j) by lia. exact (proj1 (proj2 (wfM j f Hf))).
  - assert (Hl' : (j + d < length M)%nat) by lia. pose proof (IH j f Hf Hl') as H1.
    destruct (nth_error M (j + S d)) as [f2|] eqn:E2; [|apply nth_error_None in E2; lia].
    pose proof (proj1 (proj2 (wfM _ f2 E2))) as H2. replace (j + S (S d))%nat with (S (j + S d)) by lia. lia.
Qed.

Lemma at_lt j i c j' i' c' : at_ j i c -> at_ j' i' c' -> (j < j')%nat -> offc c < offc c'.
Proof.
  intros (f & Hf & Hc) (f' & Hf' & Hc') Hlt.
  pose proof (ok_off _ _ _ _ (proj2 (proj2 (wfM j f Hf)) i c Hc)) as E1.
  pose proof (ok_off _ _ _ _ (proj2 (proj2 (wfM j' f' Hf')) i' c' Hc')) as E2.
  assert (Hi : (i < length f)%nat) by (apply nth_error_Some; congruence).
  assert (Hj' : (j' < length M)%nat) by (apply nth_error_Some; congruence).
  pose proof (o_mono (j' - j - 1) j f Hf ltac:(lia)) as Hm. replace (j + S (j' - j - 1))%nat with j' in Hm by lia. lia.
Qed.

Lemma at_inj j i c j' i' c' : at_ j i c -> at_ j' i' c' -> offc c = offc c' -> j = j' /\ i = i' /\ c = c'.
Proof.
  intros A A' E.
  destruct (lt_eq_lt_dec j j') as [[Hlt|Heq]|Hgt].
  - pose proof (at_lt _ _ _ _ _ _ A A' Hlt). lia.
  - subst j'. destruct A as (f & Hf & Hc). destruct A' as (f' & Hf' & Hc'). rewrite Hf in Hf'. injection Hf' as <-.
    pose proof (ok_off _ _ _ _ (proj2 (proj2 (wfM j f Hf)) i c Hc)) as E1.
    pose proof (ok_off _ _ _ _ (proj2 (proj2 (wfM j f Hf)) i' c' Hc')) as E2.
    assert (i = i') by lia. subst i'. rewrite Hc in Hc'. injection Hc' as <-. auto.
  - pose proof (at_lt _ _ _ _ _ _ A' A Hgt). lia.
Qed.

Lemma at_ok j i c : at_ j i c -> exists f, nth_error M j = Some f /\ nth_error f i = Some c /\ chunk_ok j i f c.
Proof. intros (f & Hf & Hc). exists f. split; [exact Hf|]. split; [exact Hc|]. exact (proj2 (proj2 (wfM j f Hf)) i c Hc). Qed.

(* ---- 16-bit stream sequence numbers inside a window of 2^15 messages *)
Definition inwin (k j : nat) : Prop := Z.of_nat k <= Z.of_nat j < Z.of_nat k + 32768.
Lemma ssn_gt k j : inwin k j -> uint16_gt (ssn j) (ssn k) = true <-> (k < j)%nat.
Proof. unfold ssn, uint16_gt, inwin. intros H. lia. Qed.
Lemma ssn_eq k j : inwin k j -> (ssn j =? ssn k) = true <-> j = k.
Proof. unfold ssn, inwin. intros H. lia. Qed.
Lemma ssn_succ k : uint16_add (ssn k) 1 = ssn (S k).
Proof. rewrite uint16_add_mod. unfold ssn. lia. Qed.

Definition labelled (k : nat) (c : chunk) : Prop := exists j i, at_ j i c /\ inwin k j.
Definition qinv (k : nat) (Q : list chunk) : Prop := sorted Q /\ Forall (labelled k) Q.

Lemma labelled_inw k c : labelled k c -> inw base N (tsn c).
Proof. intros (j & i & A & _). destruct (at_ok _ _ _ A) as (f & _ & _ & K). exact (ok_inw _ _ _ _ K). Qed.


(* ---- generic list facts *)
Lemma skipn_nth {A} (l : list A) : forall k x, nth_error l k = Some x -> skipn k l = x :: skipn (S k) l.
Proof. induction l as [|a l IH]; intros [|k] x H; cbn in *; try discriminate; [now injection H as ->|now apply IH]. Qed.
Lemma firstn_S_nth {A} (l : list A) : forall i x, nth_error l i = Some x -> firstn (S i) l = firstn i l ++ [x].
Proof.
  induction l as [|a l IH]; intros [|i] x H; cbn in *; try discriminate; [now injection H as ->|].
  f_equal. now apply IH.
Qed.
Lemma nth_error_firstn {A} (l : list A) : forall i a, (a < i)%nat -> nth_error (firstn i l) a = nth_error l a.
Proof.
  induction l as [|x l IH]; intros [|i] [|a] H; cbn; try reflexivity; try lia. apply IH. lia.
Qed.

Lemma sorted_of_nth l : (forall a b x y, (a < b)%nat -> nth_error l a = Some x -> nth_error l b = Some y -> offc x < offc y) -> sorted l.
Proof.
  induction l as [|c l IH]; intros H; cbn [sorted]; [exact I|]. split.
  - apply Forall_forall. intros x Hx. apply In_nth_error in Hx as (b & Hb). apply (H 0%nat (S b) c x); [lia|reflexivity|exact Hb].
  - apply IH. intros a b x y Hab Ha Hb. apply (H (S a) (S b) x y); [lia|exact Ha|exact Hb].
Qed.

Lemma frags_prefix k f i : nth_error M k = Some f ->
  qinv k (firstn i f) /\ forall x, In x (firstn i f) -> exists a, (a < i)%nat /\ nth_error f a = Some x /\ offc x = o k + Z.of_nat a.
Proof.
  intros Hf.
  assert (Hel : forall x, In x (firstn i f) -> exists a, (a < i)%nat /\ nth_error f a = Some x /\ offc x = o k + Z.of_nat a).
  { intros x Hx. apply In_nth_error in Hx as (a & Ha).
    assert (Hai : (a < i)%nat).
    { assert (a < length (firstn i f))%nat by (apply nth_error_Some; congruence). rewrite firstn_length in H. lia. }
    rewrite nth_error_firstn in Ha by exact Hai. exists a. split; [exact Hai|]. split; [exact Ha|].
    exact (ok_off _ _ _ _ (proj2 (proj2 (wfM k f Hf)) a x Ha)). }
  split; [|exact Hel]. split.
  - apply sorted_of_nth. intros a b x y Hab Ha Hb.
    assert (Hbi : (b < i)%nat).
    { assert (b < length (firstn i f))%nat by (apply nth_error_Some; congruence). rewrite firstn_length in H. lia. }
    rewrite nth_error_firstn in Ha, Hb by lia.
    pose proof (ok_off _ _ _ _ (proj2 (proj2 (wfM k f Hf)) a x Ha)). pose proof (ok_off _ _ _ _ (proj2 (proj2 (wfM k f Hf)) b y Hb)). lia.
  - apply Forall_forall. intros x Hx. destruct (Hel x Hx) as (a & _ & Ha & _).
    exists k, a. split; [exists f; auto|unfold inwin; lia].
Qed.

(* after the last fragment of message k, everything later in the queue belongs to later messages *)
Lemma rest_after k f i c x : nth_error M k = Some f -> nth_error f i = Some c -> S i = length f ->
  labelled k x -> offc c < offc x -> labelled (S k) x.
Proof.
  intros Hf Hc Hlast (j & i' & A & W) Hlt. exists j, i'. split; [exact A|].
  destruct (Nat.eq_dec j k) as [->|Hne]; [|unfold inwin in *; lia].
  exfalso. destruct A as (f' & Hf' & Hx). rewrite Hf in Hf'. injection Hf' as <-.
  pose proof (ok_off _ _ _ _ (proj2 (proj2 (wfM k f Hf)) i c Hc)). pose proof (ok_off _ _ _ _ (proj2 (proj2 (wfM k f Hf)) i' x Hx)).
  assert (i' < length f)%nat by (apply nth_error_Some; congruence). lia.
Qed.

Definition dchunk : chunk := mkChunk 0 0 0 false false false 0 [].
Definition msgf (f : list chunk) : message := let c := List.last f dchunk in (sid c, ppid c, join_data f).
Definition delivered (k n : nat) : list message := map msgf (firstn n (skipn k M)).

Definition runinv (k : nat) (run : run_state) (rest : list chunk) : Prop :=
  match run with
  | None => True
  | Some (r, e, ord) =>
      ord = true /\ exists f i p, nth_error M k = Some f /\ (0 < i < length f)%nat /\ r = rev (firstn i f) /\
        nth_error f (i - 1) = Some p /\ e = tsn_plus_one (tsn p) /\ Forall (fun x => offc p < offc x) rest
  end.

Lemma pop_ord : forall rest run k l s ms, qinv k rest -> runinv k run rest ->
  pop_loop [] run rest (ssn k) = (l, s, ms) ->
  exists n, s = ssn (k + n) /\ ms = delivered k n /\ qinv (k + n) l /\
            incl (concat (firstn n (skipn k M))) (run_chunks run ++ rest) /\ length ms = n.
Proof.
  assert (Zero : forall k l (X : list chunk), qinv k l ->
    exists n, ssn k = ssn (k + n) /\ @nil message = delivered k n /\ qinv (k + n) l /\
              incl (concat (firstn n (skipn k M))) X /\ length (@nil message) = n).
  { intros k l X Q. exists 0%nat. rewrite Nat.add_0_r. split; [reflexivity|]. split; [reflexivity|]. split; [exact Q|].
    split; [cbn; intros x []|reflexivity]. }
  induction rest as [|c rest IH]; intros run k l s ms Q R H.
  - cbn [pop_loop] in H. injection H as <- <- <-. apply Zero.
    unfold retained. cbn [rev app]. destruct run as [[[r e] ord]|]; [|rewrite app_nil_r; exact Q].
    destruct R as (_ & f & i & p & Hf & Hi & -> & _). rewrite rev_involutive, !app_nil_r.
    exact (proj1 (frags_prefix k f i Hf)).
  - destruct Q as [[Fc Srest] Lq]. inversion Lq as [|? ? Lc Lrest]; subst.
    assert (Qrest : qinv k rest) by (split; assumption).
    (* the shared tail of both branches: c is fragment i of message k *)
    assert (Hin : forall f i r e, nth_error M k = Some f -> nth_error f i = Some c -> r = rev (firstn i f) ->
      (if last c
       then let '(l0, s1, ms0) := pop_loop [] None rest (if true && (sseq c =? ssn k) then uint16_add (ssn k) 1 else ssn k) in
            (l0, s1, (sid c, ppid c, join_data (rev (c :: r))) :: ms0)
       else pop_loop [] (Some (c :: r, tsn_plus_one e, true)) rest (ssn k)) = (l, s, ms) ->
      e = tsn c ->
      exists n, s = ssn (k + n) /\ ms = delivered k n /\ qinv (k + n) l /\
                incl (concat (firstn n (skipn k M))) (r ++ c :: rest) /\ length ms = n).
    { intros f i r e Hf Hc -> Heq ->.
      pose proof (proj2 (proj2 (wfM k f Hf)) i c Hc) as K.
      assert (Hil : (i < length f)%nat) by (apply nth_error_Some; congruence).
      assert (EfS : firstn (S i) f = firstn i f ++ [c]) by now apply firstn_S_nth.
      rewrite (ok_last _ _ _ _ K), (ok_sseq _ _ _ _ K), Z.eqb_refl in Heq. cbn [andb] in Heq. rewrite ssn_succ in Heq.
      destruct (Nat.eqb_spec (S i) (length f)) as [El|El].
      - destruct (pop_loop [] None rest (ssn (S k))) as [[l0 s1] ms0] eqn:E. injection Heq as <- <- <-.
        assert (Q1 : qinv (S k) rest).
        { split; [exact Srest|]. apply Forall_forall. intros x Hx. rewrite Forall_forall in Lrest, Fc.
          eapply rest_after; eauto. }
        destruct (IH None (S k) _ _ _ Q1 I E) as (n0 & Es & Em & Ql & Hincl & Hlen).
        exists (S n0). replace (k + S n0)%nat with (S k + n0)%nat by lia.
        assert (Eall : firstn (S i) f = f) by (rewrite El; apply firstn_all).
        assert (Ef : rev (c :: rev (firstn i f)) = f) by (cbn [rev]; rewrite rev_involutive, <- EfS; exact Eall).
        split; [exact Es|]. split; [|split; [exact Ql|split; [|cbn [length]; now rewrite Hlen]]].
        + unfold delivered. rewrite (skipn_nth M k f Hf). cbn [firstn map]. f_equal; [|exact Em].
          assert (Elast : List.last f dchunk = c) by (rewrite <- Eall, EfS; apply last_last).
          unfold msgf. rewrite Elast. cbn [rev] in *. rewrite Ef. reflexivity.
        + rewrite (skipn_nth M k f Hf). cbn [firstn concat]. intros x Hx. apply in_app_or in Hx as [Hx|Hx].
          * rewrite <- Eall, EfS in Hx. apply in_app_or in Hx as [Hx|[<-|[]]].
            -- apply in_or_app. left. now apply -> in_rev.
            -- apply in_or_app. right. now left.
          * apply in_or_app. right. right. apply Hincl in Hx. exact Hx.
      - assert (HSi : (S i < length f)%nat) by lia.
        assert (R1 : runinv k (Some (c :: rev (firstn i f), tsn_plus_one (tsn c), true)) rest).
        { split; [reflexivity|]. exists f, (S i), c. split; [exact Hf|]. split; [lia|]. split.
          - rewrite EfS, rev_app_distr. reflexivity.
          - replace (S i - 1)%nat with i by lia. split; [exact Hc|]. split; [reflexivity|exact Fc]. }
        destruct (IH _ k _ _ _ Qrest R1 Heq) as (n & Es & Em & Ql & Hincl & Hlen).
        exists n. split; [exact Es|]. split; [exact Em|]. split; [exact Ql|]. split; [|exact Hlen].
        intros x Hx. apply Hincl in Hx. cbn [run_chunks] in Hx. change (c :: rev (firstn i f)) with ([c] ++ rev (firstn i f)) in Hx.
        rewrite !in_app_iff in *. cbn [In] in *. tauto. }
    destruct Lc as (j & ic & A & W).
    destruct (at_ok _ _ _ A) as (fj & Hfj & Hcj & K).
    cbn [pop_loop] in H.
    destruct run as [[[r e] ord]|].
    + destruct R as (-> & f & i & p & Hf & Hi & -> & Hp & -> & Fp). cbn [run_chunks].
      destruct (Z.eqb_spec (tsn c) (tsn_plus_one (tsn p))) as [Et|Et]; cbn [negb] in H.
      * (* c continues the run: it is fragment i of message k *)
        pose proof (proj2 (proj2 (wfM k f Hf)) (i - 1)%nat p Hp) as Kp.
        pose proof (plus_one_off_inv base N HN _ _ (ok_inw _ _ _ _ Kp) (ok_inw _ _ _ _ K) Et) as Eo.
        fold (offc c) (offc p) in Eo. rewrite (ok_off _ _ _ _ Kp) in Eo.
        destruct (nth_error f i) as [ci|] eqn:Eci; [|apply nth_error_None in Eci; lia].
        pose proof (ok_off _ _ _ _ (proj2 (proj2 (wfM k f Hf)) i ci Eci)) as Eoi.
        assert (Aci : at_ k i ci) by (exists f; auto).
        destruct (at_inj _ _ _ _ _ _ A Aci ltac:(lia)) as (-> & -> & ->).
        apply (Hin f i _ (tsn_plus_one (tsn p)) Hf Eci eq_refl); [exact H|now symmetry].
      * injection H as <- <- <-. apply Zero.
        unfold retained. cbn [rev app]. rewrite rev_involutive.
        destruct (frags_prefix k f i Hf) as [[Sp Lp] Hel]. split.
        -- apply sorted_app; [exact Sp|split; assumption|].
           intros a b Ha Hb. destruct (Hel a Ha) as (ia & Hia & _ & Eoa).
           pose proof (ok_off _ _ _ _ (proj2 (proj2 (wfM k f Hf)) (i - 1)%nat p Hp)) as Eop.
           rewrite Forall_forall in Fp. pose proof (Fp b Hb). lia.
        -- apply Forall_app. split; [exact Lp|exact Lq].
    + cbn [run_chunks app].
      rewrite (ok_un _ _ _ _ K), (ok_first _ _ _ _ K), (ok_sseq _ _ _ _ K) in H. cbn [negb andb] in H.
      destruct ic as [|ic']; cbn [Nat.eqb negb] in H.
      * destruct (uint16_gt (ssn j) (ssn k)) eqn:G.
        -- injection H as <- <- <-. apply Zero. unfold retained. cbn [rev app]. split; [split; assumption|exact Lq].
        -- assert (j = k).
           { destruct (Nat.eq_dec j k) as [E|E]; [exact E|]. exfalso.
             assert (k < j)%nat by (unfold inwin in W; lia). apply (ssn_gt k j W) in H0. congruence. }
           subst j. apply (Hin fj 0%nat [] (tsn c) Hfj Hcj eq_refl); [|reflexivity].
           rewrite (ok_sseq _ _ _ _ K). exact H.
      * injection H as <- <- <-. apply Zero. unfold retained. cbn [rev app]. split; [split; assumption|exact Lq].
Qed.

(* ---- the stream over a whole arrival list *)
Fixpoint srun (Q : list chunk) (seq : Z) (cs : list chunk) : option (list message) :=
  match cs with
  | [] => Some []
  | c :: cs' =>
      match add_chunk Q c with
      | AddAssert => None
      | AddOk Q1 =>
          let '(Q2, seq2, ms) := pop_messages Q1 seq in
          match srun Q2 seq2 cs' with Some out => Some (ms ++ out) | None => None end
      end
  end.

(* every chunk arrives while fewer than 2^15 messages lie between the delivery point and its message *)
Fixpoint swin (Q : list chunk) (seq : Z) (k : nat) (cs : list chunk) : Prop :=
  match cs with
  | [] => True
  | c :: cs' =>
      (forall j i, at_ j i c -> Z.of_nat j < Z.of_nat k + 32768) /\
      match add_chunk Q c with
      | AddAssert => True
      | AddOk Q1 => let '(Q2, seq2, ms) := pop_messages Q1 seq in swin Q2 seq2 (k + length ms) cs'
      end
  end.

Lemma firstn_add {A} : forall n1 n2 (l : list A), firstn (n1 + n2) l = firstn n1 l ++ firstn n2 (skipn n1 l).
Proof. induction n1 as [|n1 IH]; intros n2 [|a l]; cbn; try reflexivity; [now rewrite firstn_nil|]. f_equal. apply IH. Qed.
Lemma skipn_add {A} : forall k n (l : list A), skipn n (skipn k l) = skipn (k + n) l.
Proof. induction k as [|k IH]; intros n [|a l]; cbn; try reflexivity; [now rewrite skipn_nil|]. apply IH. Qed.
Lemma nth_error_skipn' {A} : forall k a (l : list A), nth_error (skipn k l) a = nth_error l (k + a).
Proof. induction k as [|k IH]; intros a [|x l]; cbn; try reflexivity; [now destruct a|]. apply IH. Qed.

Lemma delivered_add k n1 n2 : delivered k n1 ++ delivered (k + n1) n2 = delivered k (n1 + n2).
Proof. unfold delivered. rewrite firstn_add, map_app, skipn_add. reflexivity. Qed.

Lemma in_window_frags k n j f : nth_error M j = Some f -> (k <= j < k + n)%nat -> In f (firstn n (skipn k M)).
Proof.
  intros Hf Hj. apply (nth_error_In _ (j - k)). rewrite nth_error_firstn by lia. rewrite nth_error_skipn'.
  replace (k + (j - k))%nat with j by lia. exact Hf.
Qed.

Theorem ordered_prefix_gen : forall cs Q k, qinv k Q -> NoDup cs ->
  (forall c, In c cs -> (exists j i, at_ j i c) /\ ~ In c Q /\ forall j i, at_ j i c -> (k <= j)%nat) ->
  swin Q (ssn k) k cs ->
  exists n, srun Q (ssn k) cs = Some (delivered k n).
Proof.
  induction cs as [|c cs IH]; intros Q k Qi Hnd Hcs Hw; cbn [srun].
  - exists 0%nat. reflexivity.
  - cbn [swin] in Hw. destruct Hw as [Hwc Hw].
    destruct (Hcs c (or_introl eq_refl)) as ((j & i & A) & HcQ & Hk).
    assert (Lc : labelled k c) by (exists j, i; split; [exact A|]; unfold inwin; pose proof (Hk j i A); pose proof (Hwc j i A); lia).
    destruct Qi as [SQ LQ].
    assert (IQ : Forall (fun x => inw base N (tsn x)) Q) by (eapply Forall_impl; [|exact LQ]; intros x; apply labelled_inw).
    assert (Hne : forall x, In x Q -> offc x <> offc c).
    { intros x Hx E. rewrite Forall_forall in LQ. destruct (LQ x Hx) as (jx & ix & Ax & _).
      destruct (at_inj _ _ _ _ _ _ Ax A E) as (_ & _ & ->). contradiction. }
    destruct (add_chunk_sorted base N Hbase HN c Q SQ IQ (labelled_inw k c Lc) Hne) as (Q1 & E1 & S1 & In1).
    rewrite E1 in *.
    assert (Q1i : qinv k Q1).
    { split; [exact S1|]. apply Forall_forall. intros x Hx. apply In1 in Hx as [->|Hx]; [exact Lc|].
      rewrite Forall_forall in LQ. now apply LQ. }
    destruct (pop_messages Q1 (ssn k)) as [[Q2 seq2] ms] eqn:Ep.
    pose proof (pop_messages_retains _ _ _ _ _ Ep) as Hret.
    unfold pop_messages in Ep. destruct (pop_ord Q1 None k _ _ _ Q1i I Ep) as (n1 & -> & -> & Q2i & Hinc & Hlen).
    rewrite Hlen in Hw. cbn [run_chunks app] in Hinc.
    inversion Hnd as [|? ? Hc_notin Hnd']; subst.
    destruct (IH Q2 (k + n1)%nat Q2i Hnd') as (n2 & E2).
    + intros x Hx. destruct (Hcs x (or_intror Hx)) as (Hlab & HxQ & Hxk).
      assert (HxQ1 : ~ In x Q1) by (intros H1; apply In1 in H1 as [->|H1]; contradiction).
      split; [exact Hlab|]. split; [intros H2; apply HxQ1, Hret, H2|].
      intros jx ix Ax. pose proof (Hxk jx ix Ax) as Hge.
      destruct (le_lt_dec (k + n1) jx) as [Hok|Hlt]; [exact Hok|]. exfalso.
      destruct Ax as (fx & Hfx & Hxi). apply HxQ1, Hinc. apply in_concat. exists fx. split.
      * apply (in_window_frags k n1 jx fx Hfx). lia.
      * eapply nth_error_In; eauto.
    + exact Hw.
    + rewrite E2. exists (n1 + n2)%nat. now rewrite delivered_add.
Qed.

(* the headline statement: from the empty stream, SSN counter at message 0 *)
Theorem ordered_prefix cs : NoDup cs -> (forall c, In c cs -> exists j i, at_ j i c) -> swin [] (ssn 0) 0 cs ->
  exists n, srun [] (ssn 0) cs = Some (map msgf (firstn n M)).
Proof.
  intros Hnd Hcs Hw. apply (ordered_prefix_gen cs [] 0%nat); auto.
  - split; [exact I|constructor].
  - intros c Hc. split; [now apply Hcs|]. split; [intros []|intros; lia].
Qed.

(* the window condition holds outright while the stream has carried fewer than 2^15 messages *)
Lemma swin_small : Z.of_nat (length M) <= 32768 -> forall cs Q seq k, swin Q seq k cs.
Proof.
  intros Hs. induction cs as [|c cs IH]; intros Q seq k; cbn [swin]; [exact I|]. split.
  - intros j i (f & Hf & _). assert (j < length M)%nat by (apply nth_error_Some; congruence). lia.
  - destruct (add_chunk Q c); [|exact I]. destruct (pop_messages l seq) as [[Q2 seq2] ms]. apply IH.
Qed.

(* ======================================================================================
   Ordered streams of partially reliable channels: FORWARD-TSN may move the expected sequence
   number past messages whose fragments are still queued ("stale" messages).  pop_messages in
   that situation: stale complete messages at the head of the queue come out first, in queue
   order, then the in-order ones. *)
Definition labg (b : nat) (U : Z) (c : chunk) : Prop :=
  exists j i, at_ j i c /\ (b <= j)%nat /\ Z.of_nat j < U.
(* b: every queued chunk belongs to message b or later; k: delivery point; U: beyond every queued message *)
Definition near (b k : nat) (U : Z) : Prop :=
  (b <= k)%nat /\ Z.of_nat k - Z.of_nat b < 32768 /\ Z.of_nat k <= U <= Z.of_nat k + 32768.

Lemma ssn_gt2 k j : - 32768 < Z.of_nat j - Z.of_nat k < 32768 -> uint16_gt (ssn j) (ssn k) = true <-> (k < j)%nat.
Proof. unfold ssn, uint16_gt. intros H. lia. Qed.
Lemma ssn_eq2 k j : - 32768 < Z.of_nat j - Z.of_nat k < 32768 -> (ssn j =? ssn k) = true <-> j = k.
Proof. unfold ssn. intros H. lia. Qed.

Definition msgs_of (J : list nat) : list message := map (fun j => msgf (nth j M [])) J.
Fixpoint incr_from (b : nat) (J : list nat) : Prop :=
  match J with [] => True | j :: J' => (b <= j)%nat /\ incr_from (S j) J' end.

Lemma incr_from_weaken b b' J : (b' <= b)%nat -> incr_from b J -> incr_from b' J.
Proof. destruct J as [|j J]; cbn; [auto|]. intros H [H1 H2]. split; [lia|exact H2]. Qed.

Definition runinvg (b k : nat) (run : run_state) (rest : list chunk) : Prop :=
  match run with
  | None => True
  | Some (r, e, ord) =>
      ord = true /\ (b <= k)%nat /\ exists f i p, nth_error M b = Some f /\ (0 < i < length f)%nat /\ r = rev (firstn i f) /\
        nth_error f (i - 1) = Some p /\ e = tsn_plus_one (tsn p) /\ Forall (fun x => offc p < offc x) rest
  end.

Lemma labg_weaken b b' U c : (b' <= b)%nat -> labg b U c -> labg b' U c.
Proof. intros Hb (j & i & A & H1 & H2). exists j, i. split; [exact A|]. split; [lia|exact H2]. Qed.

Lemma frags_prefix_g b U f i : nth_error M b = Some f -> Z.of_nat b < U -> Forall (labg b U) (firstn i f).
Proof.
  intros Hf Hk. destruct (frags_prefix b f i Hf) as [_ Hel]. apply Forall_forall. intros x Hx.
  destruct (Hel x Hx) as (a & _ & Ha & _). exists b, a. split; [exists f; auto|]. split; [lia|exact Hk].
Qed.

Lemma rest_after_g b U f i c x : nth_error M b = Some f -> nth_error f i = Some c -> S i = length f ->
  labg b U x -> offc c < offc x -> labg (S b) U x.
Proof.
  intros Hf Hc Hlast (j & i' & A & H1 & H2) Hlt. exists j, i'. split; [exact A|]. split; [|exact H2].
  destruct (Nat.eq_dec j b) as [->|Hne]; [|lia].
  exfalso. destruct A as (f' & Hf' & Hx). rewrite Hf in Hf'. injection Hf' as <-.
  pose proof (ok_off _ _ _ _ (proj2 (proj2 (wfM b f Hf)) i c Hc)). pose proof (ok_off _ _ _ _ (proj2 (proj2 (wfM b f Hf)) i' x Hx)).
  assert (i' < length f)%nat by (apply nth_error_Some; congruence). lia.
Qed.

Lemma pop_gen U : forall rest run b k l s ms, near b k U -> sorted rest -> Forall (labg b U) rest -> runinvg b k run rest ->
  (match run with Some _ => Z.of_nat b < U | None => True end) ->
  pop_loop [] run rest (ssn k) = (l, s, ms) ->
  exists J b' k', ms = msgs_of J /\ incr_from b J /\ Forall (fun j => (j < b')%nat /\ (j < k')%nat) J /\ s = ssn k' /\
    (k <= k')%nat /\ (b <= b')%nat /\ sorted l /\ Forall (labg b' U) l /\ (k' = k \/ (k' <= b')%nat) /\
    Z.of_nat k' - Z.of_nat b' < 32768 /\ Z.of_nat k' <= U.
Proof.
  assert (Zero : forall b k l, near b k U -> sorted l -> Forall (labg b U) l ->
    exists J b' k', @nil message = msgs_of J /\ incr_from b J /\ Forall (fun j => (j < b')%nat /\ (j < k')%nat) J /\ ssn k = ssn k' /\
      (k <= k')%nat /\ (b <= b')%nat /\ sorted l /\ Forall (labg b' U) l /\ (k' = k \/ (k' <= b')%nat) /\
      Z.of_nat k' - Z.of_nat b' < 32768 /\ Z.of_nat k' <= U).
  { intros b k l (N1 & N2 & N3) S L. exists [], b, k. cbn. repeat split; auto; lia. }
  induction rest as [|c rest IH]; intros run b k l s ms Hn Sr Lr R HbU H.
  - cbn [pop_loop] in H. injection H as <- <- <-. apply Zero; [exact Hn| |].
    + unfold retained. cbn [rev app]. destruct run as [[[r e] ord]|]; [|exact I].
      destruct R as (_ & _ & f & i & p & Hf & Hi & -> & _). rewrite rev_involutive, !app_nil_r.
      exact (proj1 (proj1 (frags_prefix b f i Hf))).
    + unfold retained. cbn [rev app]. destruct run as [[[r e] ord]|]; [|constructor].
      destruct R as (_ & Hbk & f & i & p & Hf & Hi & -> & _). rewrite rev_involutive, !app_nil_r. now apply frags_prefix_g.
  - destruct Sr as [Fc Srest]. inversion Lr as [|? ? Lc Lrest]; subst.
    assert (Hin : forall j f i r e, (b <= j)%nat -> (j <= k)%nat -> Z.of_nat j < U -> nth_error M j = Some f -> nth_error f i = Some c ->
      r = rev (firstn i f) ->
      (if last c
       then let '(l0, s1, ms0) := pop_loop [] None rest (if true && (sseq c =? ssn k) then uint16_add (ssn k) 1 else ssn k) in
            (l0, s1, (sid c, ppid c, join_data (rev (c :: r))) :: ms0)
       else pop_loop [] (Some (c :: r, tsn_plus_one e, true)) rest (ssn k)) = (l, s, ms) ->
      e = tsn c ->
      exists J b' k', ms = msgs_of J /\ incr_from b J /\ Forall (fun j0 => (j0 < b')%nat /\ (j0 < k')%nat) J /\ s = ssn k' /\
        (k <= k')%nat /\ (b <= b')%nat /\ sorted l /\ Forall (labg b' U) l /\ (k' = k \/ (k' <= b')%nat) /\
        Z.of_nat k' - Z.of_nat b' < 32768 /\ Z.of_nat k' <= U).
    { intros j f i r e Hbj Hjk HjU Hf Hc -> Heq ->.
      pose proof (proj2 (proj2 (wfM j f Hf)) i c Hc) as K.
      assert (Hil : (i < length f)%nat) by (apply nth_error_Some; congruence).
      assert (EfS : firstn (S i) f = firstn i f ++ [c]) by now apply firstn_S_nth.
      assert (Hnj : near j k U) by (destruct Hn as (A1 & A2 & A3); split; [lia|split; [lia|exact A3]]).
      assert (Lrest_j : Forall (labg j U) rest).
      { apply Forall_forall. intros x Hx. rewrite Forall_forall in Lrest, Fc. destruct (Lrest x Hx) as (jx & ix & Ax & H1 & H2).
        exists jx, ix. split; [exact Ax|]. split; [|exact H2].
        destruct (le_lt_dec j jx) as [Hok|Hlt]; [exact Hok|]. exfalso.
        pose proof (at_lt _ _ _ _ _ _ Ax (ex_intro _ f (conj Hf Hc)) Hlt). pose proof (Fc x Hx). lia. }
      rewrite (ok_last _ _ _ _ K), (ok_sseq _ _ _ _ K) in Heq. cbn [andb] in Heq.
      destruct (Nat.eqb_spec (S i) (length f)) as [El|El].
      - set (k2 := if Nat.eqb j k then S k else k).
        assert (Eseq : (if ssn j =? ssn k then uint16_add (ssn k) 1 else ssn k) = ssn k2).
        { unfold k2. destruct (Nat.eqb_spec j k) as [->|Hne].
          - rewrite Z.eqb_refl. apply ssn_succ.
          - destruct (ssn j =? ssn k) eqn:E; [|reflexivity]. exfalso. apply Hne. apply (ssn_eq2 k j); [destruct Hnj as (A1 & A2 & A3); lia|exact E]. }
        rewrite Eseq in Heq.
        destruct (pop_loop [] None rest (ssn k2)) as [[l0 s1] ms0] eqn:E. injection Heq as <- <- <-.
        assert (Hn2 : near (S j) k2 U).
        { unfold k2. destruct Hnj as (A1 & A2 & A3). destruct (Nat.eqb_spec j k); (split; [lia|split; lia]). }
        assert (L2 : Forall (labg (S j) U) rest).
        { apply Forall_forall. intros x Hx. rewrite Forall_forall in Lrest_j, Fc. eapply rest_after_g; eauto. }
        destruct (IH None (S j) k2 _ _ _ Hn2 Srest L2 I I E) as (J & b' & k' & Em & Hinc & Hlt & Es & Hk & Hb & Sl & Ll & Hor & Hw & HU).
        exists (j :: J), b', k'.
        assert (Eall : firstn (S i) f = f) by (rewrite El; apply firstn_all).
        assert (Ef : rev (c :: rev (firstn i f)) = f) by (cbn [rev]; rewrite rev_involutive, <- EfS; exact Eall).
        assert (Elast : List.last f dchunk = c) by (rewrite <- Eall, EfS; apply last_last).
        assert (Hk2 : (k <= k2)%nat /\ (j < k2)%nat) by (unfold k2; destruct (Nat.eqb_spec j k); lia).
        split.
        { unfold msgs_of. cbn [map]. f_equal; [|exact Em]. rewrite (nth_error_nth M j [] Hf). unfold msgf. rewrite Elast.
          cbn [rev] in *. rewrite Ef. reflexivity. }
        split; [cbn [incr_from]; split; [exact Hbj|exact Hinc]|].
        split; [constructor; [lia|exact Hlt]|]. split; [exact Es|].
        split; [lia|]. split; [lia|]. split; [exact Sl|]. split; [exact Ll|].
        split; [|split; [exact Hw|exact HU]].
        unfold k2 in *. destruct (Nat.eqb_spec j k) as [->|Hne].
        + destruct Hor as [->|Hor]; [right; lia|right; exact Hor].
        + exact Hor.
      - assert (HSi : (S i < length f)%nat) by lia.
        assert (R1 : runinvg j k (Some (c :: rev (firstn i f), tsn_plus_one (tsn c), true)) rest).
        { split; [reflexivity|]. split; [exact Hjk|]. exists f, (S i), c. split; [exact Hf|]. split; [lia|]. split.
          - rewrite EfS, rev_app_distr. reflexivity.
          - replace (S i - 1)%nat with i by lia. split; [exact Hc|]. split; [reflexivity|exact Fc]. }
        destruct (IH _ j k _ _ _ Hnj Srest Lrest_j R1 HjU Heq) as (J & b' & k' & Em & Hinc & Hlt & Es & Hk & Hb & Sl & Ll & Hor & Hw & HU).
        exists J, b', k'. split; [exact Em|]. split; [eapply incr_from_weaken; [exact Hbj|exact Hinc]|].
        split; [exact Hlt|]. split; [exact Es|]. split; [exact Hk|]. split; [lia|]. auto. }
    destruct Lc as (j & ic & A & Hbj & Hjw).
    destruct (at_ok _ _ _ A) as (fj & Hfj & Hcj & K).
    assert (Lall : Forall (labg b U) (c :: rest)) by exact Lr.
    cbn [pop_loop] in H.
    destruct run as [[[r e] ord]|].
    + destruct R as (-> & Hbk & f & i & p & Hf & Hi & -> & Hp & -> & Fp). cbn [run_chunks].
      destruct (Z.eqb_spec (tsn c) (tsn_plus_one (tsn p))) as [Et|Et]; cbn [negb] in H.
      * pose proof (proj2 (proj2 (wfM b f Hf)) (i - 1)%nat p Hp) as Kp.
        pose proof (plus_one_off_inv base N HN _ _ (ok_inw _ _ _ _ Kp) (ok_inw _ _ _ _ K) Et) as Eo.
        fold (offc c) (offc p) in Eo. rewrite (ok_off _ _ _ _ Kp) in Eo.
        destruct (nth_error f i) as [ci|] eqn:Eci; [|apply nth_error_None in Eci; lia].
        pose proof (ok_off _ _ _ _ (proj2 (proj2 (wfM b f Hf)) i ci Eci)) as Eoi.
        assert (Aci : at_ b i ci) by (exists f; auto).
        destruct (at_inj _ _ _ _ _ _ A Aci ltac:(lia)) as (-> & -> & ->).
        apply (Hin b f i _ (tsn_plus_one (tsn p)) (le_n b) Hbk HbU Hf Eci eq_refl); [exact H|now symmetry].
      * injection H as <- <- <-. apply Zero; [exact Hn| |].
        -- unfold retained. cbn [rev app]. rewrite rev_involutive.
           destruct (frags_prefix b f i Hf) as [[Sp _] Hel].
           apply sorted_app; [exact Sp|split; assumption|].
           intros a x Ha Hx. destruct (Hel a Ha) as (ia & Hia & _ & Eoa).
           pose proof (ok_off _ _ _ _ (proj2 (proj2 (wfM b f Hf)) (i - 1)%nat p Hp)) as Eop.
           rewrite Forall_forall in Fp. pose proof (Fp x Hx). lia.
        -- unfold retained. cbn [rev app]. rewrite rev_involutive. apply Forall_app. split; [now apply frags_prefix_g|exact Lall].
    + cbn [run_chunks app].
      rewrite (ok_un _ _ _ _ K), (ok_first _ _ _ _ K), (ok_sseq _ _ _ _ K) in H. cbn [negb andb] in H.
      assert (Hret : exists J b' k', @nil message = msgs_of J /\ incr_from b J /\ Forall (fun j0 => (j0 < b')%nat /\ (j0 < k')%nat) J /\ ssn k = ssn k' /\
        (k <= k')%nat /\ (b <= b')%nat /\ sorted (retained [] None (c :: rest)) /\ Forall (labg b' U) (retained [] None (c :: rest)) /\
        (k' = k \/ (k' <= b')%nat) /\ Z.of_nat k' - Z.of_nat b' < 32768 /\ Z.of_nat k' <= U).
      { apply Zero; [exact Hn| |]; unfold retained; cbn [rev app]; [split; assumption|exact Lall]. }
      destruct ic as [|ic']; cbn [Nat.eqb negb] in H.
      * destruct (uint16_gt (ssn j) (ssn k)) eqn:G.
        -- injection H as <- <- <-. exact Hret.
        -- assert (Hjk : (j <= k)%nat).
           { destruct (le_lt_dec j k) as [E|E]; [exact E|]. exfalso.
             apply (ssn_gt2 k j) in E; [congruence|]. destruct Hn as (A1 & A2 & A3). lia. }
           apply (Hin j fj 0%nat [] (tsn c) Hbj Hjk Hjw Hfj Hcj eq_refl); [|reflexivity]. rewrite (ok_sseq _ _ _ _ K). exact H.
      * injection H as <- <- <-. exact Hret.
Qed.

(* ---- pruning a sorted queue *)
Lemma prune_sorted cum : inw base N cum -> forall Q, sorted Q -> Forall (fun x => inw base N (tsn x)) Q ->
  sorted (fst (prune_chunks Q cum)) /\ incl (fst (prune_chunks Q cum)) Q /\
  Forall (fun x => off base cum < offc x) (fst (prune_chunks Q cum)).
Proof.
  intros Hc. induction Q as [|c Q IH]; intros S I; cbn [prune_chunks]; [cbn; auto using incl_refl|].
  destruct S as [F S]. inversion I as [|? ? Ic IQ]; subst.
  destruct (uint32_gte cum (tsn c)) eqn:G.
  - rewrite (surjective_pairing (prune_chunks Q cum)). cbn [fst]. destruct (IH S IQ) as (A1 & A2 & A3).
    split; [exact A1|]. split; [intros x Hx; right; now apply A2|exact A3].
  - cbn [fst]. split; [split; assumption|]. split; [apply incl_refl|].
    assert (Hlt : off base cum < offc c).
    { destruct (Z_lt_le_dec (off base cum) (offc c)) as [H|H]; [exact H|].
      apply (gte_off base N Hbase HN _ _ Hc Ic) in H. congruence. }
    constructor; [exact Hlt|]. eapply Forall_impl; [|exact F]. intros x Hx. cbv beta in *. lia.
Qed.

Lemma qinv_labg k Q : qinv k Q -> sorted Q /\ Forall (labg k (Z.of_nat k + 32768)) Q.
Proof.
  intros [S L]. split; [exact S|]. eapply Forall_impl; [|exact L]. intros c (j & i & A & W). unfold inwin in W.
  exists j, i. split; [exact A|]. split; lia.
Qed.

Lemma labg_qinv b U k Q : sorted Q -> Forall (labg b U) Q -> (k <= b)%nat -> U <= Z.of_nat k + 32768 -> qinv k Q.
Proof.
  intros S L Hb HU. split; [exact S|]. eapply Forall_impl; [|exact L]. intros c (j & i & A & H1 & H2).
  exists j, i. split; [exact A|]. unfold inwin. lia.
Qed.

Lemma incr_from_app b m J1 J2 : incr_from b J1 -> Forall (fun j => (j < m)%nat) J1 -> (b <= m)%nat -> incr_from m J2 -> incr_from b (J1 ++ J2).
Proof.
  revert b. induction J1 as [|j J1 IH]; intros b H1 HF Hbm H2; cbn [app].
  - eapply incr_from_weaken; eauto.
  - cbn [incr_from] in *. destruct H1 as [Hb H1]. inversion HF; subst. split; [exact Hb|]. apply IH; auto; lia.
Qed.

Lemma msgs_of_app J1 J2 : msgs_of (J1 ++ J2) = msgs_of J1 ++ msgs_of J2.
Proof. unfold msgs_of. apply map_app. Qed.

(* one pop on a queue without stale messages *)
Lemma pop_at k Q l s ms : qinv k Q -> pop_messages Q (ssn k) = (l, s, ms) ->
  exists J k', ms = msgs_of J /\ incr_from k J /\ Forall (fun j => (j < k')%nat) J /\ s = ssn k' /\ (k <= k')%nat /\
               Z.of_nat k' <= Z.of_nat k + 32768 /\ qinv k' l.
Proof.
  intros Q0 H. destruct (qinv_labg k Q Q0) as [SQ L]. unfold pop_messages in H.
  assert (Hn : near k k (Z.of_nat k + 32768)) by (split; [lia|split; lia]).
  destruct (pop_gen _ Q None k k l s ms Hn SQ L I I H) as (J & b' & k' & Em & Hinc & Hlt & Es & Hk & Hb & Sl & Ll & Hor & Hw & HU).
  exists J, k'. split; [exact Em|]. split; [exact Hinc|]. split; [eapply Forall_impl; [|exact Hlt]; intros j [_ H2]; exact H2|].
  split; [exact Es|]. split; [exact Hk|]. split; [exact HU|].
  apply (labg_qinv b' (Z.of_nat k + 32768)); [exact Sl|exact Ll| |lia]. destruct Hor as [->|Hor]; lia.
Qed.

(* ---- FORWARD-TSN naming this stream (one entry, as the sender's dict produces) *)
Definition sfwd (Q : list chunk) (seq cum sq : Z) : list chunk * Z * list message :=
  let seq1 := if uint16_gte sq seq then uint16_add sq 1 else seq in
  let '(Q1, seq2, ms1) := pop_messages Q seq1 in
  let Q2 := fst (prune_chunks Q1 cum) in
  let '(Q3, seq3, ms2) := pop_messages Q2 seq2 in
  (Q3, seq3, ms1 ++ ms2).

(* what the sender guarantees about a FORWARD-TSN (cum, (stream, sq)): sq is the sequence number of a
   message j near the delivery point, and every chunk of every message up to j lies at or below cum *)
Definition fwd_ok (k : nat) (cum sq : Z) : Prop :=
  inw base N cum /\ exists j, sq = ssn j /\ - 32768 < Z.of_nat j - Z.of_nat k < 32767 /\
    forall j' i' c', at_ j' i' c' -> (j' <= j)%nat -> offc c' <= off base cum.

Lemma sfwd_ok k Q cum sq Q3 s3 ms : qinv k Q -> fwd_ok k cum sq -> sfwd Q (ssn k) cum sq = (Q3, s3, ms) ->
  exists J k', ms = msgs_of J /\ incr_from k J /\ Forall (fun j => (j < k')%nat) J /\ s3 = ssn k' /\ (k <= k')%nat /\
               Z.of_nat k' <= Z.of_nat k + 32768 /\ qinv k' Q3.
Proof.
  intros Q0 (Hc & j & -> & Hj & Hdis) H. unfold sfwd in H.
  set (U := Z.of_nat k + 32768).
  set (k1 := if le_lt_dec k j then S j else k).
  assert (E1 : (if uint16_gte (ssn j) (ssn k) then uint16_add (ssn j) 1 else ssn k) = ssn k1).
  { unfold k1, uint16_gte. destruct (le_lt_dec k j) as [Hle|Hlt].
    - destruct (Nat.eq_dec j k) as [->|Hne]; [rewrite Z.eqb_refl; cbn [orb]; apply ssn_succ|].
      assert (G : uint16_gt (ssn j) (ssn k) = true) by (apply ssn_gt2; lia). rewrite G, orb_true_r. apply ssn_succ.
    - assert (G : uint16_gt (ssn j) (ssn k) = false).
      { destruct (uint16_gt (ssn j) (ssn k)) eqn:G; [|reflexivity]. apply ssn_gt2 in G; lia. }
      assert (E : (ssn j =? ssn k) = false).
      { destruct (ssn j =? ssn k) eqn:E; [|reflexivity]. apply ssn_eq2 in E; lia. }
      rewrite G, E. reflexivity. }
  rewrite E1 in H.
  destruct (qinv_labg k Q Q0) as [SQ L]. fold U in L.
  assert (Hk1 : (k <= k1)%nat /\ Z.of_nat k1 <= U) by (unfold k1, U; destruct (le_lt_dec k j); lia).
  assert (Hn1 : near k k1 U) by (unfold near, U in *; destruct Hk1; split; [lia|split; [unfold k1; destruct (le_lt_dec k j); lia|lia]]).
  destruct (pop_messages Q (ssn k1)) as [[Q1 seq2] ms1] eqn:Ep1. unfold pop_messages in Ep1.
  destruct (pop_gen U Q None k k1 Q1 seq2 ms1 Hn1 SQ L I I Ep1) as (J1 & b1 & k2 & Em1 & Hinc1 & Hlt1 & -> & Hk2 & Hb1 & S1 & L1 & Hor1 & Hw1 & HU1).
  assert (I1 : Forall (fun x => inw base N (tsn x)) Q1).
  { eapply Forall_impl; [|exact L1]. intros x (jx & ix & A & _). destruct (at_ok _ _ _ A) as (f & _ & _ & K). exact (ok_inw _ _ _ _ K). }
  destruct (prune_sorted cum Hc Q1 S1 I1) as (S2 & Inc2 & Gt2).
  set (Q2 := fst (prune_chunks Q1 cum)) in *.
  assert (L2 : Forall (labg k2 U) Q2).
  { apply Forall_forall. intros x Hx. rewrite Forall_forall in L1, Gt2.
    destruct (L1 x (Inc2 x Hx)) as (jx & ix & A & Hb & HUx). exists jx, ix. split; [exact A|]. split; [|exact HUx].
    destruct Hor1 as [->|Hor1]; [|lia].
    unfold k1. destruct (le_lt_dec k j) as [Hle|Hlt]; [|lia].
    destruct (le_lt_dec (S j) jx) as [Hok|Hbad]; [lia|]. exfalso.
    pose proof (Hdis jx ix x A ltac:(lia)). pose proof (Gt2 x Hx). lia. }
  destruct (pop_messages Q2 (ssn k2)) as [[Q3' seq3] ms2] eqn:Ep2. injection H as <- <- <-. unfold pop_messages in Ep2.
  assert (Hn2 : near k2 k2 U) by (unfold near, U in *; destruct Hk1; split; [lia|split; lia]).
  destruct (pop_gen U Q2 None k2 k2 Q3' seq3 ms2 Hn2 S2 L2 I I Ep2) as (J2 & b3 & k3 & Em2 & Hinc2 & Hlt2 & -> & Hk3 & Hb3 & S3 & L3 & Hor3 & Hw3 & HU3).
  exists (J1 ++ J2), k3. split; [now rewrite msgs_of_app, Em1, Em2|]. split.
  { apply (incr_from_app k k2); [exact Hinc1| |lia|exact Hinc2].
    eapply Forall_impl; [|exact Hlt1]. intros x [_ H2]. exact H2. }
  split.
  { apply Forall_app. split.
    - eapply Forall_impl; [|exact Hlt1]. intros x [_ H2]. lia.
    - eapply Forall_impl; [|exact Hlt2]. intros x [_ H2]. exact H2. }
  split; [reflexivity|]. split; [lia|]. split; [exact HU3|].
  apply (labg_qinv b3 U); [exact S3|exact L3| |unfold U; lia]. destruct Hor3 as [->|Hor3]; lia.
Qed.

(* ---- events on one ordered stream *)
Inductive sev := SData (c : chunk) | SFwd (cum sq : Z).

Definition sapply (Q : list chunk) (seq : Z) (ev : sev) : option (list chunk * Z * list message) :=
  match ev with
  | SData c => match add_chunk Q c with AddOk Q1 => Some (pop_messages Q1 seq) | AddAssert => None end
  | SFwd cum sq => Some (sfwd Q seq cum sq)
  end.

Definition admissible (k : nat) (Q : list chunk) (ev : sev) : Prop :=
  match ev with
  | SData c => labelled k c /\ forall x, In x Q -> offc x <> offc c
  | SFwd cum sq => fwd_ok k cum sq
  end.

Theorem sstep_ok k Q ev : qinv k Q -> admissible k Q ev ->
  exists Q' k' J, sapply Q (ssn k) ev = Some (Q', ssn k', msgs_of J) /\ (k <= k')%nat /\
    Z.of_nat k' <= Z.of_nat k + 32768 /\ incr_from k J /\ Forall (fun j => (j < k')%nat) J /\ qinv k' Q'.
Proof.
  intros Q0 Ha. destruct ev as [c|cum sq]; cbn [sapply admissible] in *.
  - destruct Ha as [Lc Hne]. destruct Q0 as [SQ LQ].
    assert (IQ : Forall (fun x => inw base N (tsn x)) Q) by (eapply Forall_impl; [|exact LQ]; intros x; apply labelled_inw).
    destruct (add_chunk_sorted base N Hbase HN c Q SQ IQ (labelled_inw k c Lc) Hne) as (Q1 & E1 & S1 & In1). rewrite E1.
    assert (Q1i : qinv k Q1).
    { split; [exact S1|]. apply Forall_forall. intros x Hx. apply In1 in Hx as [->|Hx]; [exact Lc|].
      rewrite Forall_forall in LQ. now apply LQ. }
    destruct (pop_messages Q1 (ssn k)) as [[Q2 s2] ms] eqn:Ep.
    destruct (pop_at k Q1 Q2 s2 ms Q1i Ep) as (J & k' & -> & Hinc & Hlt & -> & Hk & HU & Q2i).
    exists Q2, k', J. auto 10.
  - destruct (sfwd Q (ssn k) cum sq) as [[Q3 s3] ms] eqn:Ef.
    destruct (sfwd_ok k Q cum sq Q3 s3 ms Q0 Ha Ef) as (J & k' & -> & Hinc & Hlt & -> & Hk & HU & Q3i).
    exists Q3, k', J. auto 10.
Qed.

(* the delivery point after a step, recovered from the stream's counter *)
Definition knext (k : nat) (s' : Z) : nat := (k + Z.to_nat ((s' - ssn k) mod 65536))%nat.
Lemma knext_ssn k k' : (k <= k')%nat -> Z.of_nat k' <= Z.of_nat k + 32768 -> knext k (ssn k') = k'.
Proof. unfold knext, ssn. intros H1 H2. apply Nat2Z.inj. rewrite Nat2Z.inj_add, Z2Nat.id by lia. lia. Qed.

Fixpoint srunF (Q : list chunk) (seq : Z) (evs : list sev) : option (list message) :=
  match evs with
  | [] => Some []
  | ev :: evs' =>
      match sapply Q seq ev with
      | Some (Q', s', ms) => match srunF Q' s' evs' with Some out => Some (ms ++ out) | None => None end
      | None => None
      end
  end.

(* every event is admissible at the delivery point it meets *)
Fixpoint sokF (k : nat) (Q : list chunk) (evs : list sev) : Prop :=
  match evs with
  | [] => True
  | ev :: evs' =>
      admissible k Q ev /\
      match sapply Q (ssn k) ev with Some (Q', s', _) => sokF (knext k s') Q' evs' | None => True end
  end.

(* IN ORDER, WITH FORWARD-TSN.  On an ordered stream, for every list of admissible events -- chunks of
   messages at or beyond the delivery point, and FORWARD-TSN chunks as the sender builds them -- the
   delivered messages are the messages of a strictly increasing list of message indices: they come
   out in sending order and none comes out twice (some are skipped: that is partial reliability). *)
Theorem fwd_ordered : forall evs k Q, qinv k Q -> sokF k Q evs ->
  exists J, srunF Q (ssn k) evs = Some (msgs_of J) /\ incr_from k J.
Proof.
  induction evs as [|ev evs IH]; intros k Q Q0 Hok; cbn [srunF].
  - exists []. split; [reflexivity|exact I].
  - cbn [sokF] in Hok. destruct Hok as [Ha Hrest].
    destruct (sstep_ok k Q ev Q0 Ha) as (Q' & k' & J & E & Hk & HU & Hinc & Hlt & Q'i). rewrite E in *.
    rewrite (knext_ssn k k' Hk HU) in Hrest.
    destruct (IH k' Q' Q'i Hrest) as (J2 & E2 & Hinc2). rewrite E2.
    exists (J ++ J2). split; [now rewrite msgs_of_app|]. apply (incr_from_app k k'); auto.
Qed.
End Ordered.
