(* Totality of the offer/answer exchange between well-formed connections (C03_exchange_succeeds). *)
From Coq Require Import ZArith List Bool Lia.
From AV Require Import Model.Nego Proof.NegoP Proof.NegoExP Proof.NegoWfP Proof.NegoCodecP.
Import ListNotations.
Local Open Scope Z_scope.

(* the codec part of setRemoteDescription for section m succeeds on transceiver t *)
Definition good (T : tables) (t : transceiver) (m : media) : Prop :=
  m_dir m <> None /\
  exists c0 common, find_common_codecs (CODECS T (m_kind m)) (m_codecs m) = Ok c0 /\
                    filter_preferred_codecs c0 (t_preferred t) = Ok common /\ common <> [].

Definition good_all (T : tables) (all : list media) (trs : list transceiver) : Prop :=
  forall t m, In t trs -> In m all -> is_av (m_kind m) = true -> cand (m_kind m) (m_mid m) t -> good T t m.

Definition good_new (T : tables) (all : list media) : Prop :=
  forall t m, In m all -> is_av (m_kind m) = true -> t_preferred t = [] -> good T t m.

Lemma remote_av_total : forall T ty m i p0 all,
  good_all T all (p_trs p0) -> good_new T all -> In m all -> is_av (m_kind m) = true ->
  exists p', remote_av T ty m i p0 = Ok p'.
Proof.
  intros T ty m i p0 all G Gn Hm Hav. unfold remote_av.
  destruct (locate m p0) as [p1 k] eqn:El.
  destruct (locate_spec _ _ _ _ El) as [l1 [t0 [l2 [E1 [E2 [E3 [E4 [E5 _]]]]]]]].
  rewrite E1, <- E2, nth_error_split.
  set (t1 := match t_mid t0 with Some _ => t0 | None => set_mline i (set_mid (m_mid m) t0) end).
  assert (Ep : t_preferred t1 = t_preferred t0) by (subst t1; destruct (t_mid t0); reflexivity).
  assert (Hg : good T t0 m).
  { destruct E5 as [E5|[E5 E5']].
    - apply G; auto; [rewrite E5; apply in_or_app; right; left; reflexivity | apply media_match_cand; exact E3].
    - apply Gn; auto. unfold locate in El. destruct (find_idx (media_match m) (p_trs p0)) eqn:Ef.
      + exfalso. inversion El; subst p1 k. rewrite E5 in E1. subst l2.
        assert (Hl : length (l1 ++ [t0]) = length l1) by (rewrite <- E1; reflexivity). rewrite app_length in Hl. cbn in Hl. lia.
      + inversion El; subst p1 k. destruct (create_transceiver_spec p0 RecvOnly (m_kind m) false) as [bd [id [Et _]]].
        rewrite Et, E5 in E1. subst l2. apply app_inj_tail in E1. destruct E1 as [_ <-]. reflexivity. }
  destruct Hg as [Hd [c0 [common [F1 [F2 F3]]]]].
  rewrite F1. cbn [bind]. rewrite Ep, F2. cbn [bind].
  destruct common as [|c cs]; [congruence|]. destruct (m_dir m); [|congruence]. eexists. reflexivity.
Qed.

Lemma good_all_step : forall T all m l1 t0 t3 l2 base,
  good_all T all base -> base = l1 ++ t0 :: l2 ->
  t_preferred t3 = t_preferred t0 -> t_kind t3 = m_kind m -> t_mid t3 = Some (m_mid m) -> cand (m_kind m) (m_mid m) t0 ->
  NoDup (map m_mid all) -> In m all ->
  good_all T all (l1 ++ t3 :: l2).
Proof.
  intros T all m l1 t0 t3 l2 base G -> Ep Ek Em Hc Hnd Hm t m' Hin Hm' Hav Hcand.
  destruct (In_mid_cases _ _ _ _ _ Hin) as [H1|[->|H2]].
  - apply G; auto. apply In_mid_intro. left. exact H1.
  - (* t3 can only be a candidate for its own section *)
    assert (m' = m).
    { destruct Hcand as [_ [Hc'|Hc']]; [congruence|]. rewrite Em in Hc'. inversion Hc' as [E].
      clear - Hnd Hm Hm' E. induction all as [|x all IH]; [destruct Hm|]. cbn [map] in Hnd. inversion Hnd; subst.
      destruct Hm as [->|Hm]; destruct Hm' as [->|Hm']; auto.
      - exfalso. apply H1. rewrite E. apply in_map. exact Hm'.
      - exfalso. apply H1. rewrite <- E. apply in_map. exact Hm. }
    subst m'. destruct (G t0 m) as [Q1 Q2]; auto; [apply in_or_app; right; left; reflexivity|].
    split; [exact Q1|]. rewrite Ep. exact Q2.
  - apply G; auto. apply In_mid_intro. right. exact H2.
Qed.

Lemma remote_media_total : forall T ty s0 ss all ms i p,
  NoDup (map snd ss) -> app_unique ss -> NoDup (map m_mid all) -> good_new T all ->
  (forall j m, nth_error ms j = Some m -> nth_error ss (i + j) = Some (m_kind m, m_mid m)) ->
  incl ms all -> rinv T i s0 p ss -> good_all T all (p_trs p) ->
  exists p', remote_media T ty ms i p = Ok p'.
Proof.
  intros T ty s0 ss all. induction ms as [|m ms IH]; intros i p Hnd Hau Hnda Gn Hss Hinc R G; cbn [remote_media].
  - eexists. reflexivity.
  - pose proof (Hss O m eq_refl) as Hi. rewrite Nat.add_0_r in Hi.
    assert (Hss' : forall j x, nth_error ms j = Some x -> nth_error ss (Datatypes.S i + j) = Some (m_kind x, m_mid x)).
    { intros j x Hj. specialize (Hss (Datatypes.S j) x Hj). rewrite Nat.add_succ_r in Hss. exact Hss. }
    assert (Hinc' : incl ms all) by (intros x Hx; apply Hinc; right; exact Hx).
    assert (Hm : In m all) by (apply Hinc; left; reflexivity).
    pose proof (rinv_seen _ _ _ _ _ (sadd (m_mid m) (p_seen p)) R) as R0.
    destruct (is_av (m_kind m)) eqn:Eav.
    + destruct (remote_av_total T ty m i (set_seen p (sadd (m_mid m) (p_seen p))) all) as [p1 Hp1]; auto.
      rewrite Hp1. cbn [bind]. apply IH; auto.
      * eapply rinv_av; eauto.
      * destruct (remote_av_full _ _ _ _ _ _ Hp1 (ri_tr _ _ _ _ _ R0) (ri_tr_sctp _ _ _ _ _ R0)) as
          [base [l1 [t0 [t3 [l2 [B1 [B2 [B3 [B4 [B5 [B6 [B7 [B8 [B9 [B10 [B11 _]]]]]]]]]]]]]]]].
        rewrite B2. apply (good_all_step T all m l1 t0 t3 l2 base); auto.
        destruct B3 as [->|[tn [-> [N1 [N2 [N3 N4]]]]]]; [exact G|].
        intros t m' Hin Hm' Hav' Hc. apply in_app_or in Hin. destruct Hin as [Hin|[<-|[]]]; [apply G; auto | apply Gn; auto].
    + destruct (m_kind m =? 2) eqn:E2.
      * assert (Ht : exists p1, remote_app ty m i (set_seen p (sadd (m_mid m) (p_seen p))) = Ok p1).
        { unfold remote_app. destruct (p_sctp (set_seen p (sadd (m_mid m) (p_seen p)))) eqn:Es.
          - rewrite Es. eexists. reflexivity.
          - destruct (create_sctp_spec (set_seen p (sadd (m_mid m) (p_seen p)))) as [_ [_ [_ [s [Hs _]]]]]. rewrite Hs. eexists. reflexivity. }
        destruct Ht as [p1 Hp1]. rewrite Hp1. cbn [bind]. apply Z.eqb_eq in E2. rewrite E2 in Hi. apply IH; auto.
        -- eapply rinv_app; eauto.
        -- apply remote_app_trs in Hp1. destruct Hp1 as [-> _]. exact G.
      * apply IH; auto. destruct R0 as [A1 A2 A3 A4 A5 A6]. constructor; auto.
        -- eapply ali_skip; eauto.
        -- intros j mu Hj Hor. destruct (Nat.eq_dec j i) as [->|Hne].
           ++ rewrite Hi in Hj. inversion Hj as [[E E']]. rewrite E in E2. discriminate.
           ++ apply (A3 j mu Hj). destruct Hor; [left; lia | right; assumption].
Qed.

(* ---- setRemoteDescription succeeds -------------------------------------------------------------------------- *)
Lemma set_remote_description_total : forall fixed T p d s0,
  validate_description p d false = Ok tt ->
  wfs T p s0 -> extends (secs_of (d_media d)) s0 ->
  NoDup (map m_mid (d_media d)) -> app_unique (secs_of (d_media d)) -> kinds_ok (secs_of (d_media d)) ->
  d_bundle d = map m_mid (d_media d) ->
  good_all T (d_media d) (p_trs p) -> good_new T (d_media d) ->
  exists p', set_remote_description fixed T p d = Ok p'.
Proof.
  intros fixed T p d s0 Hv W Hext Hnd Hau Hk Hb G Gn. unfold set_remote_description. rewrite Hv. cbn [bind].
  set (ss := secs_of (d_media d)) in *.
  assert (Hnd' : NoDup (map snd ss)) by (subst ss; rewrite secs_of_mids; exact Hnd).
  pose proof W as [W1 W2 W3 W4 W5 W6 W7 W8 W9].
  assert (R0 : rinv T 0 s0 p ss).
  { constructor; auto.
    - apply ali_start; auto.
    - intros s mu Hs Hm. pose proof (W6 s mu Hs Hm) as Hin. apply In_nth_error in Hin. destruct Hin as [j Hj].
      eapply nth_error_In. apply Hext. exact Hj.
    - intros j mu Hj [Hlt|Hin]; [lia | apply W5; exact Hin]. }
  assert (Hss : forall j m, nth_error (d_media d) j = Some m -> nth_error ss (0 + j) = Some (m_kind m, m_mid m))
    by (intros j m Hj; apply nth_error_secs; exact Hj).
  destruct (remote_media_total T (d_type d) s0 ss (d_media d) (d_media d) 0 p Hnd' Hau Hnd Gn Hss (incl_refl _) R0 G) as [p1 Hp1].
  rewrite Hp1. cbn [bind].
  assert (R1 : rinv T (0 + length (d_media d)) s0 p1 ss) by (eapply remote_media_rinv; eauto).
  cbn [Nat.add] in R1. destruct R1 as [A1 A2 A3 A4 A5 A6].
  assert (Elen : length ss = length (d_media d)) by (subst ss; unfold secs_of; apply map_length).
  rewrite <- Elen in A1, A3. apply ali_end in A1.
  (* the transport of the first BUNDLE member exists *)
  assert (Hab : exists p2, apply_bundle fixed (d_bundle d) p1 = Ok p2).
  { rewrite Hb. unfold apply_bundle. destruct (d_media d) as [|m0 ms] eqn:Ed; [eexists; reflexivity|]. cbn [map].
    assert (H0 : nth_error ss 0 = Some (m_kind m0, m_mid m0)) by (subst ss; try rewrite Ed; reflexivity).
    assert (Hpt : exists prim,
              match p_sctp p1 with
              | Some s => if opt_eqb Z.eqb (s_mid s) (Some (m_mid m0)) then Some (s_transport s)
                          else match find (mid_is (m_mid m0)) (p_trs p1) with Some t => Some (t_transport t) | None => None end
              | None => match find (mid_is (m_mid m0)) (p_trs p1) with Some t => Some (t_transport t) | None => None end
              end = Some prim).
    { destruct (Hk (m_kind m0, m_mid m0) (nth_error_In _ _ H0)) as [Hav|H2]; cbn [fst] in *.
      - destruct (al_sec _ _ A1 0%nat _ _ H0 Hav) as [t [Hin Hm]].
        assert (Hf : exists t', find (mid_is (m_mid m0)) (p_trs p1) = Some t').
        { destruct (find (mid_is (m_mid m0)) (p_trs p1)) eqn:Ef; [eexists; reflexivity|].
          pose proof (find_none _ _ Ef t Hin) as Q. unfold mid_is in Q. rewrite Hm in Q. cbn in Q. rewrite Z.eqb_refl in Q. discriminate. }
        destruct Hf as [t' Hf]. rewrite Hf. destruct (p_sctp p1) as [s|]; [destruct (opt_eqb Z.eqb (s_mid s) (Some (m_mid m0)))|]; eexists; reflexivity.
      - rewrite H2 in H0. destruct (A3 0%nat _ H0) as [s [Hs Hm]]; [left; rewrite Elen; try rewrite Ed; cbn; lia|].
        rewrite Hs, Hm. cbn [opt_eqb]. rewrite Z.eqb_refl. eexists. reflexivity. }
    destruct Hpt as [prim Hpt]. rewrite Hpt. eexists. reflexivity. }
  destruct Hab as [p2 Hp2]. rewrite Hp2. cbn [bind]. eexists. reflexivity.
Qed.

(* ---- where the preferences of a transceiver come from after setRemoteDescription -------------------------------- *)
Definition prefs_from (trs0 trs : list transceiver) : Prop :=
  forall t, In t trs -> t_preferred t = [] \/ exists t0, In t0 trs0 /\ t_kind t0 = t_kind t /\ t_preferred t0 = t_preferred t.

Lemma remote_app_tr : forall ty m i p0 p1, remote_app ty m i p0 = Ok p1 ->
  (forall t, In t (p_trs p0) -> has_tr (p_transports p0) (t_transport t)) ->
  (forall s, p_sctp p0 = Some s -> has_tr (p_transports p0) (s_transport s)) ->
  (forall t, In t (p_trs p1) -> has_tr (p_transports p1) (t_transport t)) /\
  (forall s, p_sctp p1 = Some s -> has_tr (p_transports p1) (s_transport s)).
Proof.
  intros ty m i p0 p1 H W9 W10. unfold remote_app in H.
  set (q := match p_sctp p0 with Some _ => p0 | None => create_sctp p0 end) in *.
  assert (G : p_trs q = p_trs p0 /\ (forall id, has_tr (p_transports p0) id -> has_tr (p_transports q) id) /\
              (forall s', p_sctp q = Some s' -> has_tr (p_transports q) (s_transport s'))).
  { subst q. destruct (p_sctp p0) as [s|] eqn:Es.
    - split; [reflexivity|]. split; [auto|]. rewrite Es. exact W10.
    - destruct (create_sctp_spec p0) as [E1 _]. destruct (create_sctp_tr p0 W9) as [T1 T2]. auto. }
  destruct G as [G1 [G2 G3]].
  destruct (p_sctp q) as [s|] eqn:Es; [|discriminate]. inversion H; subst p1; clear H.
  destruct (s_mid s); cbn [p_trs p_sctp p_transports set_transports set_sctp set_sctp_mline]; rewrite ?G1; split.
  - intros t Hin. apply remote_transport_roles_has. apply G2. apply W9. exact Hin.
  - intros s' Hs'. rewrite Es in Hs'. inversion Hs'; subst s'. apply remote_transport_roles_has. apply G3. reflexivity.
  - intros t Hin. apply remote_transport_roles_has. apply G2. apply W9. exact Hin.
  - intros s' Hs'. inversion Hs'; subst s'. cbn. apply remote_transport_roles_has. apply G3. reflexivity.
Qed.

Lemma remote_media_prefs : forall T ty trs0 ms i p p', remote_media T ty ms i p = Ok p' ->
  (forall t, In t (p_trs p) -> has_tr (p_transports p) (t_transport t)) ->
  (forall s, p_sctp p = Some s -> has_tr (p_transports p) (s_transport s)) ->
  prefs_from trs0 (p_trs p) -> prefs_from trs0 (p_trs p').
Proof.
  intros T ty trs0. induction ms as [|m ms IH]; intros i p p' H W9 W10 P; cbn [remote_media] in H.
  - inversion H; subst. exact P.
  - destruct (is_av (m_kind m)) eqn:Eav.
    + bind_inv H p1 Hp1.
      destruct (remote_av_full _ _ _ _ _ _ Hp1 W9 W10) as
        [base [l1 [t0 [t3 [l2 [B1 [B2 [B3 [B4 [B5 [B6 [B7 [B8 [B9 [B10 [B11 [B12 [B13 B14]]]]]]]]]]]]]]]]]].
      apply (IH _ _ _ H).
      * rewrite B2. intros t Hin. destruct (In_mid_cases _ _ _ _ _ Hin) as [H1|[->|H2]].
        -- apply B4. subst base. apply In_mid_intro. left. exact H1.
        -- rewrite B10. apply B4. subst base. apply in_or_app. right. left. reflexivity.
        -- apply B4. subst base. apply In_mid_intro. right. exact H2.
      * rewrite B12. intros s Hs. apply B13. apply W10. exact Hs.
      * assert (Pb : prefs_from trs0 base).
        { destruct B3 as [->|[tn [-> [N1 [N2 [N3 N4]]]]]]; [exact P|].
          intros t Hin. apply in_app_or in Hin. destruct Hin as [Hin|[<-|[]]]; [apply P; exact Hin | left; exact N4]. }
        rewrite B2. intros t Hin. destruct (In_mid_cases _ _ _ _ _ Hin) as [H1|[->|H2]].
        -- apply Pb. subst base. apply In_mid_intro. left. exact H1.
        -- destruct (Pb t0) as [Q|[x [Q1 [Q2 Q3]]]]; [subst base; apply in_or_app; right; left; reflexivity | left; congruence|].
           right. exists x. destruct B5 as [K0 _]. split; [exact Q1|]. split; congruence.
        -- apply Pb. subst base. apply In_mid_intro. right. exact H2.
    + destruct (m_kind m =? 2).
      * bind_inv H p1 Hp1. pose proof Hp1 as Hp1'. apply remote_app_trs in Hp1'. destruct Hp1' as [Et _].
        assert (W9' : forall t, In t (p_trs (set_seen p (sadd (m_mid m) (p_seen p)))) ->
                       has_tr (p_transports (set_seen p (sadd (m_mid m) (p_seen p)))) (t_transport t)) by exact W9.
        assert (W10' : forall s, p_sctp (set_seen p (sadd (m_mid m) (p_seen p))) = Some s ->
                        has_tr (p_transports (set_seen p (sadd (m_mid m) (p_seen p)))) (s_transport s)) by exact W10.
        pose proof (remote_app_tr _ _ _ _ _ Hp1 W9' W10') as Htr.
        destruct Htr as [Htr1 Htr2]. apply (IH _ _ _ H Htr1 Htr2). rewrite Et. exact P.
      * apply (IH _ _ _ H); auto.
Qed.

Lemma set_remote_description_prefs : forall fixed T p d p', set_remote_description fixed T p d = Ok p' ->
  (forall t, In t (p_trs p) -> has_tr (p_transports p) (t_transport t)) ->
  (forall s, p_sctp p = Some s -> has_tr (p_transports p) (s_transport s)) ->
  prefs_from (p_trs p) (p_trs p').
Proof.
  intros fixed T p d p' H W9 W10. unfold set_remote_description in H.
  destruct (validate_description p d false) as [[]| | |]; cbn [bind] in H; try discriminate.
  bind_inv H p1 Hp1. bind_inv H p2 Hp2. inversion H; subst p'; clear H.
  assert (P1 : prefs_from (p_trs p) (p_trs p1)).
  { eapply remote_media_prefs; eauto. intros t Hin. right. exists t. auto. }
  destruct (apply_bundle_spec _ _ _ _ Hp2) as [[g [G1 G2]] _].
  assert (P2 : prefs_from (p_trs p) (p_trs p2)).
  { rewrite G1. intros t Hin. apply in_map_iff in Hin. destruct Hin as [t0 [<- Hin0]].
    pose proof (core_fields _ _ (G2 t0)) as [E1 [_ [_ [_ [_ [_ [E7 _]]]]]]]. rewrite E1, E7. apply P1. exact Hin0. }
  destruct (d_type d =? 1); exact P2.
Qed.

(* ---- createAnswer succeeds ------------------------------------------------------------------------------------------ *)
Lemma find_mid_unique : forall trs ss t mu, aligned trs ss -> In t trs -> t_mid t = Some mu -> find (mid_is mu) trs = Some t.
Proof.
  intros trs ss t mu A Hin Hm. apply In_nth_error in Hin. destruct Hin as [k Hk].
  apply (find_unique _ _ _ k t Hk).
  - unfold mid_is. rewrite Hm. cbn. apply Z.eqb_refl.
  - intros j y Hj Hy. apply mid_is_true in Hy. exact (al_uniq _ _ A j k y t mu Hj Hk Hy Hm).
Qed.

Lemma answer_media_total : forall T p ss ms, wfs T p ss ->
  (forall m, In m ms -> In (m_kind m, m_mid m) ss) ->
  (forall m, In m ms -> is_av (m_kind m) = true ->
     exists t, In t (p_trs p) /\ negotiated T 0 m t) ->
  exists out, answer_media p ms = Ok out /\ secs_of out = secs_of ms /\
              (forall x, In x out -> m_role x <> RAuto).
Proof.
  intros T p ss ms W. pose proof W as [W1 W2 W3 W4 W5 W6 W7 W8 W9].
  induction ms as [|m ms IH]; intros Hss Hneg; cbn [answer_media].
  - exists []. split; [reflexivity|]. split; [reflexivity | intros x []].
  - destruct IH as [rest [E [Es Er]]]; [intros x Hx; apply Hss; right; exact Hx | intros x Hx; apply Hneg; right; exact Hx|].
    destruct (is_av (m_kind m)) eqn:Eav.
    + destruct (Hneg m (or_introl eq_refl) Eav) as [t [Hin [Hk [Hm [c0 [md [_ [_ [_ [_ [_ Hod]]]]]]]]]]]. cbn [Z.eqb] in Hod.
      rewrite (find_mid_unique _ _ _ _ W4 Hin Hm). rewrite Hod.
      destruct (and_direction_total (t_direction t) (reverse_direction md)) as [dd Hdd]. rewrite Hdd. cbn [bind]. rewrite Hm.
      destruct (W7 t Hin) as [tr Htr]. rewrite Htr. rewrite E. cbn [bind].
      eexists. split; [reflexivity|]. split.
      * rewrite !secs_of_cons, Es. cbn [m_kind m_mid media_for_transceiver]. rewrite Hk. reflexivity.
      * intros x [<-|Hx]; [cbn; destruct (tr_role tr); discriminate | apply Er; exact Hx].
    + assert (H2 : m_kind m = 2).
      { destruct (W3 _ (Hss m (or_introl eq_refl))) as [Q|Q]; cbn [fst] in Q; [congruence | exact Q]. }
      pose proof (Hss m (or_introl eq_refl)) as Hin. rewrite H2 in Hin.
      destruct (W5 _ Hin) as [s [Hs Hm]]. rewrite Hs, Hm.
      destruct (W8 s Hs) as [tr Htr]. rewrite Htr. rewrite E. cbn [bind].
      eexists. split; [reflexivity|]. split.
      * rewrite !secs_of_cons, Es. cbn [m_kind m_mid media_for_sctp]. rewrite H2. reflexivity.
      * intros x [<-|Hx]; [cbn; destruct (tr_role tr); discriminate | apply Er; exact Hx].
Qed.

(* ---- setLocalDescription(answer) succeeds -------------------------------------------------------------------------- *)
Lemma sections_eqb_refl : forall a, sections_eqb a a = true.
Proof. induction a as [|[x y] a IH]; cbn; [reflexivity|]. unfold section_eqb. cbn. rewrite !Z.eqb_refl, IH. reflexivity. Qed.

Lemma local_roles_total : forall ms i p,
  (forall j m, nth_error ms j = Some m -> is_av (m_kind m) = true -> exists t, In t (p_trs p) /\ t_mline t = Some (i + j)%nat) ->
  (forall j m, nth_error ms j = Some m -> m_kind m = 2 -> p_sctp p <> None) ->
  exists p', local_roles ms i p = Ok p'.
Proof.
  induction ms as [|m ms IH]; intros i p H1 H2; cbn [local_roles]; [eexists; reflexivity|].
  assert (Hnext : forall l, exists p', local_roles ms (Datatypes.S i) (set_transports p l) = Ok p').
  { intro l. apply IH; cbn.
    - intros j x Hj Hav. destruct (H1 (Datatypes.S j) x Hj Hav) as [t [Q1 Q2]]. exists t. split; [exact Q1|]. rewrite Q2. f_equal. lia.
    - intros j x Hj Hk. apply (H2 (Datatypes.S j) x Hj Hk). }
  destruct (is_av (m_kind m)) eqn:Eav.
  - destruct (H1 O m eq_refl Eav) as [t [Hin Hl]]. rewrite Nat.add_0_r in Hl.
    destruct (find (mline_is i) (p_trs p)) eqn:Ef; [apply Hnext|].
    exfalso. pose proof (find_none _ _ Ef t Hin) as Q. unfold mline_is in Q. rewrite Hl in Q. cbn in Q. rewrite Nat.eqb_refl in Q. discriminate.
  - destruct (m_kind m =? 2) eqn:E2.
    + apply Z.eqb_eq in E2. pose proof (H2 O m eq_refl E2) as Hs. destruct (p_sctp p); [apply Hnext | congruence].
    + apply IH.
      * intros j x Hj Hav. destruct (H1 (Datatypes.S j) x Hj Hav) as [t [Q1 Q2]]. exists t. split; [exact Q1|]. rewrite Q2. f_equal. lia.
      * intros j x Hj Hk. apply (H2 (Datatypes.S j) x Hj Hk).
Qed.

Lemma local_directions_total : forall trs, exists trs', local_directions true trs = Ok trs'.
Proof.
  induction trs as [|t ts [ts' E]]; cbn [local_directions]; [eexists; reflexivity|].
  destruct (t_offerDirection t) as [o|].
  - destruct (and_direction_total (t_direction t) o) as [d Hd]. rewrite Hd. cbn [bind]. rewrite E. cbn [bind]. eexists. reflexivity.
  - cbn [bind]. rewrite E. cbn [bind]. eexists. reflexivity.
Qed.

Lemma set_local_answer_total : forall T p d o,
  wfs T p (secs_of (d_media d)) -> p_state p = HaveRemoteOffer -> remote_description p = Some o ->
  secs_of (d_media o) = secs_of (d_media d) -> d_type d = 1 -> (forall x, In x (d_media d) -> m_role x <> RAuto) ->
  exists p', set_local_description true p d = Ok p'.
Proof.
  intros T p d o W Hst Hr Hsec Ht Hroles. pose proof W as [W1 W2 W3 W4 W5 W6 W7 W8 W9].
  set (ss := secs_of (d_media d)) in *.
  unfold set_local_description. rewrite Hst.
  assert (Hv : validate_description p d true = Ok tt).
  { unfold validate_description. rewrite Ht, Hst, Hr. cbn [Z.eqb negb andb].
    assert (E : existsb (fun m => match m_role m with RAuto => true | _ => false end) (d_media d) = false).
    { destruct (existsb _ (d_media d)) eqn:Ex; [|reflexivity]. apply existsb_exists in Ex. destruct Ex as [x [Hx Hx']].
      specialize (Hroles x Hx). destruct (m_role x); [congruence | discriminate | discriminate]. }
    rewrite E. unfold sections. cbn [desc_media]. fold (secs_of (d_media d)). fold (secs_of (d_media o)). rewrite Hsec.
    rewrite sections_eqb_refl. reflexivity. }
  rewrite Hv. cbn [bind]. rewrite Ht. cbn [Z.eqb].
  assert (Hss : forall j m, nth_error (d_media d) j = Some m -> nth_error ss (0 + j) = Some (m_kind m, m_mid m))
    by (intros j m Hj; apply nth_error_secs; exact Hj).
  assert (Elen : length ss = length (d_media d)) by (subst ss; unfold secs_of; apply map_length).
  assert (Hcov : forall j k mu, nth_error ss j = Some (k, mu) -> is_av k = true -> exists t, In t (p_trs p) /\ t_mline t = Some j).
  { intros j k mu Hj Hav. destruct (al_sec _ _ W4 j k mu Hj Hav) as [t [Hin Hm]].
    destruct (al_mid _ _ W4 t mu Hin Hm) as [j' [G1 G2]]. destruct (secs_nth_mid_inj _ _ _ _ _ _ W1 G2 Hj) as [-> _].
    exists t. auto. }
  destruct (assign_mids_noop ss (length ss) (d_media d) 0 (set_state p Stable)) as [q [Q1 [Q2 [Q3 _]]]].
  { exact Hss. }
  { cbn. lia. }
  { intros j m Hj. pose proof (Hss j m Hj) as Hs. cbn in Hs. destruct (W3 _ (nth_error_In _ _ Hs)); auto. }
  { intros t j Hin Hl Hlt. cbn in Hin. destruct (nth_error ss j) as [[k mu]|] eqn:Ej; [|apply nth_error_None in Ej; lia].
    exists k, mu. split; [reflexivity|]. exact (proj1 (aligned_mline_mid _ _ _ _ _ _ W4 W1 Ej Hin Hl)). }
  { intros j k mu Hj Hav _. cbn. eapply Hcov; eauto. }
  { intros j mu Hj _. cbn. apply W5. eapply nth_error_In; eauto. }
  rewrite Q1. cbn [bind]. cbn in Q2, Q3.
  destruct (local_roles_total (d_media d) 0 q) as [q4 Hq4].
  { intros j m Hj Hav. cbn. rewrite Q2. pose proof (Hss j m Hj) as Hs. cbn in Hs. eapply Hcov; eauto. }
  { intros j m Hj Hk. rewrite Q3. pose proof (Hss j m Hj) as Hs. cbn in Hs. rewrite Hk in Hs.
    destruct (W5 _ (nth_error_In _ _ Hs)) as [s [Es _]]. congruence. }
  rewrite Hq4. cbn [bind Pos.eqb]. destruct (local_directions_total (p_trs q4)) as [trs' Htrs']. rewrite Htrs'. cbn [bind].
  eexists. reflexivity.
Qed.

(* ---- the exchange succeeds ---------------------------------------------------------------------------------------------- *)
Definition prefs_drawn (T : tables) (p : pc) : Prop :=
  forall t, In t (p_trs p) -> drawn (CODECS T (t_kind t)) (t_preferred t) /\ has_real (t_preferred t).

Definition prefs_compat (a b : pc) : Prop :=
  forall ta tb, In ta (p_trs a) -> In tb (p_trs b) -> t_kind ta = t_kind tb -> compatible (t_preferred ta) (t_preferred tb).

Lemma aligned_same_mid : forall trs ss t1 t2 mu, aligned trs ss -> In t1 trs -> In t2 trs ->
  t_mid t1 = Some mu -> t_mid t2 = Some mu -> t1 = t2.
Proof.
  intros trs ss t1 t2 mu A H1 H2 M1 M2. apply In_nth_error in H1. apply In_nth_error in H2.
  destruct H1 as [i1 E1]. destruct H2 as [i2 E2]. pose proof (al_uniq _ _ A i1 i2 t1 t2 mu E1 E2 M1 M2) as E. subst i2. congruence.
Qed.

Theorem exchange_ok : forall T a b, tables_ok T = true -> wf T a -> wf T b -> S a = S b ->
  prefs_drawn T a -> prefs_drawn T b -> prefs_compat a b -> exists x, exchange true T a b = Ok x.
Proof.
  intros T a b HT Wa Wb Hsync Da Db Hc.
  (* offerer: createOffer, setLocalDescription *)
  destruct (offer_codecs_total T (p_trs a) HT) as [trs0 Hoc].
  { intros t Hin. split; [apply (al_kind _ _ (wf_al _ _ Wa) t Hin) | apply Da; exact Hin]. }
  destruct (offer_phase true T a trs0 Wa Hoc) as [a1 [offer [a2 [G1 [G2 [G3 [G4 [G5 [G6 [G7 [G8 [G9 G10]]]]]]]]]]]].
  set (ss := secs_of (d_media offer)) in *.
  destruct (create_offer_spec _ _ _ _ G1) as [O1 [O2 _]].
  rewrite Forall_forall in G9.
  (* the codec negotiation of every offered audio/video section *)
  assert (NEG : forall m, In m (d_media offer) -> is_av (m_kind m) = true ->
            m_dir m <> None /\
            exists ta t2, In ta (p_trs a) /\ t_kind ta = m_kind m /\
              In t2 (p_trs a2) /\ t_mid t2 = Some (m_mid m) /\ t_preferred t2 = t_preferred ta /\
              forall pb, drawn (CODECS T (m_kind m)) pb -> has_real pb -> compatible (t_preferred ta) pb ->
                exists N M, find_common_codecs (CODECS T (m_kind m)) (m_codecs m) = Ok (m_codecs m) /\
                            filter_preferred_codecs (m_codecs m) pb = Ok N /\ N <> [] /\
                            find_common_codecs (CODECS T (m_kind m)) N = Ok N /\
                            filter_preferred_codecs N (t_preferred ta) = Ok M /\ M <> []).
  { intros m Hm Hav. destruct (G9 m Hm Hav) as [t2 [Hin2 [Hmid [Hk [Hcod [_ [Hdir _]]]]]]].
    split; [rewrite Hdir; discriminate|].
    destruct (G10 t2 Hin2) as [ta [Hina [Ek Ep]]]. exists ta, t2.
    split; [exact Hina|]. split; [congruence|]. split; [exact Hin2|]. split; [exact Hmid|]. split; [exact Ep|].
    intros pb Dpb Rpb Cpb. destruct (Da ta Hina) as [Dta Rta].
    assert (Eka : t_kind ta = m_kind m) by congruence. rewrite Eka in Dta.
    destruct (nego_ok_tables T (m_kind m) (t_preferred ta) pb HT Hav Dta Dpb Rta Rpb Cpb) as [O [N [M [E1 [E2 [E3 [E4 [E5 [E6 E7]]]]]]]]].
    destruct (G8 t2 Hin2) as [[Hoff _] _]. rewrite <- Hk, Ep, <- Hcod in Hoff. rewrite Hoff in E1. inversion E1; subst O.
    exists N, M. repeat split; assumption. }
  (* answerer: setRemoteDescription(offer) *)
  assert (Gb : good_all T (d_media offer) (p_trs b)).
  { intros t m Hin Hm Hav [Hk _]. destruct (NEG m Hm Hav) as [Hd [ta [t2 [Hina [Eka [_ [_ [_ Hneg]]]]]]]].
    destruct (Db t Hin) as [Dt Rt]. rewrite Hk in Dt.
    destruct (Hneg (t_preferred t) Dt Rt (Hc ta t Hina Hin ltac:(congruence))) as [N [M [E1 [E2 [E3 _]]]]].
    split; [exact Hd|]. exists (m_codecs m), N. auto. }
  assert (Gnb : good_new T (d_media offer)).
  { intros t m Hm Hav Hp. destruct (NEG m Hm Hav) as [Hd [ta [t2 [Hina [Eka [_ [_ [_ Hneg]]]]]]]].
    destruct (Hneg []) as [N [M [E1 [E2 [E3 _]]]]]; [intros q [] | intro Hne; congruence | right; left; reflexivity|].
    split; [exact Hd|]. exists (m_codecs m), N. rewrite Hp. auto. }
  assert (Hvb : validate_description b offer false = Ok tt).
  { unfold validate_description. rewrite O1, (wf_state _ _ Wb). reflexivity. }
  assert (Hextb : extends ss (S b)) by (rewrite <- Hsync; exact G4).
  destruct (set_remote_description_total true T b offer (S b) Hvb (wf_wfs_S _ _ Wb) Hextb G5 G6 G7 O2 Gb Gnb) as [b1 H3].
  assert (Wb1 : wfs T b1 ss).
  { apply (set_remote_description_wfs true T b offer b1 (S b) H3); [apply wf_wfs_S; exact Wb | exact Hextb | exact G5 | exact G6 | exact G7]. }
  destruct (set_remote_description_spec _ _ _ _ _ H3) as [_ [R2 [R3 [_ [_ [_ [_ R8]]]]]]]. rewrite O1 in R2, R8. cbn [Z.eqb] in R2.
  pose proof (set_remote_description_prefs _ _ _ _ _ H3 (wf_tr _ _ Wb) (wf_tr_sctp _ _ Wb)) as Pb1.
  (* answerer: createAnswer *)
  assert (Hneg1 : forall m, In m (d_media offer) -> is_av (m_kind m) = true -> exists t, In t (p_trs b1) /\ negotiated T 0 m t).
  { intros m Hm Hav. destruct (R8 G5 m Hm Hav) as [t [Hf Hn]]. exists t. split; [apply find_some in Hf; tauto | exact Hn]. }
  assert (Hssin : forall m, In m (d_media offer) -> In (m_kind m, m_mid m) ss).
  { intros m Hm. unfold ss, secs_of. apply in_map_iff. exists m. auto. }
  destruct (answer_media_total T b1 ss (d_media offer) Wb1 Hssin Hneg1) as [out [Eout [Es Er]]].
  set (answer := mkDesc 1 out (map m_mid out)).
  assert (H4 : create_answer b1 = Ok answer).
  { unfold create_answer. rewrite R2, R3, Eout. reflexivity. }
  (* answerer: setLocalDescription(answer) *)
  assert (Esa : secs_of (d_media answer) = ss) by exact Es.
  assert (Wb1' : wfs T b1 (secs_of (d_media answer))) by (rewrite Esa; exact Wb1).
  assert (Esao : secs_of (d_media offer) = secs_of (d_media answer)) by (symmetry; exact Esa).
  destruct (set_local_answer_total T b1 answer offer Wb1' R2 R3 Esao eq_refl Er) as [b2 H5].
  (* offerer: setRemoteDescription(answer) *)
  destruct (set_local_description_spec _ _ _ _ G2) as [_ [L2 [L3 _]]]. rewrite O1 in L2. cbn [Z.eqb] in L2.
  assert (Hva : validate_description a2 answer false = Ok tt).
  { unfold validate_description. rewrite L2, L3. cbn [d_type answer Z.eqb negb andb].
    assert (E : existsb (fun m => match m_role m with RAuto => true | _ => false end) (d_media answer) = false).
    { destruct (existsb _ (d_media answer)) eqn:Ex; [|reflexivity]. apply existsb_exists in Ex. destruct Ex as [x [Hx Hx']].
      specialize (Er x Hx). destruct (m_role x); [congruence | discriminate | discriminate]. }
    rewrite E. unfold sections. cbn [desc_media]. fold (secs_of (d_media answer)). fold (secs_of (d_media offer)). rewrite Esa.
    rewrite sections_eqb_refl. reflexivity. }
  (* every answered section is linked to the offered one *)
  pose proof (answer_media_spec _ _ _ Eout) as Hrel.
  assert (LINK : forall ma, In ma out -> is_av (m_kind ma) = true ->
            m_dir ma <> None /\
            exists pa, (forall t2, In t2 (p_trs a2) -> t_mid t2 = Some (m_mid ma) -> t_preferred t2 = pa) /\
              find_common_codecs (CODECS T (m_kind ma)) (m_codecs ma) = Ok (m_codecs ma) /\ m_codecs ma <> [] /\
              exists M, filter_preferred_codecs (m_codecs ma) pa = Ok M /\ M <> []).
  { intros ma Hma Hav. destruct (Forall2_In_l _ _ _ _ _ _ Hrel Hma) as [mo [Hmo Hr]].
    destruct Hr as [[Havo [tb [dd [tr [F1 [F2 [F3 ->]]]]]]]|[Havo [s [mid [tr [_ [_ [_ ->]]]]]]]]; [|cbn in Hav; discriminate].
    cbn [media_for_transceiver m_kind m_mid m_codecs m_dir] in *.
    destruct (Hneg1 mo Hmo Havo) as [t' [Hin' Hn']]. pose proof Hn' as [Hk' [Hm' [c0 [md [N1 [N2 [N3 _]]]]]]].
    rewrite (find_mid_unique _ _ _ _ (ws_al _ _ _ Wb1) Hin' Hm') in F1. inversion F1; subst tb.
    split; [discriminate|].
    destruct (NEG mo Hmo Havo) as [_ [ta [tx [Hina [Eka [Hinx [Hmidx [Epx Hneg]]]]]]]].
    assert (Hpb : drawn (CODECS T (m_kind mo)) (t_preferred t') /\ has_real (t_preferred t') /\ compatible (t_preferred ta) (t_preferred t')).
    { destruct (Pb1 t' Hin') as [E0|[t0 [Hin0 [Ek0 Ep0]]]].
      - rewrite E0. split; [intros q []|]. split; [intro Hne; congruence | right; left; reflexivity].
      - destruct (Db t0 Hin0) as [D0 R0]. rewrite Ek0, Hk' in D0. rewrite <- Ep0. split; [exact D0|]. split; [exact R0|].
        apply Hc; auto. congruence. }
    destruct Hpb as [Dpb [Rpb Cpb]].
    destruct (Hneg _ Dpb Rpb Cpb) as [N [M [E1 [E2 [E3 [E4 [E5 E6]]]]]]].
    rewrite E1 in N1. inversion N1; subst c0. rewrite E2 in N2. inversion N2 as [EN].
    exists (t_preferred ta). rewrite Hk', <- EN. split; [|split; [exact E4 | split; [exact E3 | exists M; auto]]].
    intros t2 Hin2 Hmid2. rewrite (aligned_same_mid _ _ t2 tx _ (ws_al _ _ _ G3) Hin2 Hinx Hmid2 Hmidx). exact Epx. }
  assert (Ga : good_all T (d_media answer) (p_trs a2)).
  { intros t ma Hin Hma Hav [Hk Hmid]. cbn [d_media answer] in Hma. destruct (LINK ma Hma Hav) as [Hd [pa [Hp [E1 [E2 [M [E3 E4]]]]]]].
    destruct (G8 t Hin) as [_ Hnn]. destruct Hmid as [Hmid|Hmid]; [congruence|].
    split; [exact Hd|]. exists (m_codecs ma), M. rewrite (Hp t Hin Hmid). auto. }
  assert (Gna : good_new T (d_media answer)).
  { intros t ma Hma Hav Hp. cbn [d_media answer] in Hma. destruct (LINK ma Hma Hav) as [Hd [pa [_ [E1 [E2 _]]]]].
    split; [exact Hd|]. exists (m_codecs ma), (m_codecs ma). rewrite Hp. auto. }
  assert (Hnda : NoDup (map m_mid (d_media answer))).
  { rewrite <- secs_of_mids, Esa. unfold ss. rewrite secs_of_mids. exact G5. }
  assert (Hexta : extends (secs_of (d_media answer)) ss) by (rewrite Esa; apply extends_refl).
  assert (Haua : app_unique (secs_of (d_media answer))) by (rewrite Esa; exact G6).
  assert (Hka : kinds_ok (secs_of (d_media answer))) by (rewrite Esa; exact G7).
  destruct (set_remote_description_total true T a2 answer ss Hva G3 Hexta Hnda Haua Hka eq_refl Ga Gna) as [a3 H6].
  exists (mkExchanged a3 b2 offer answer). unfold exchange. rewrite G1. cbn [bind]. rewrite G2. cbn [bind].
  rewrite H3. cbn [bind]. rewrite H4. cbn [bind]. rewrite H5. cbn [bind]. rewrite H6. reflexivity.
Qed.
