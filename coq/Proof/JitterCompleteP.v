(* Proofs about Model/Jitter.v, part 5 (T+): completeness.
   (a) An in-order, complete stream whose frames fit is released exactly: every frame except the
       last max(prefetch,1) comes out once, in order, byte for byte, and no key frame is requested.
   (b) The literal claim "complete and displaced by less than the capacity => everything but the
       trailing prefetch window is released" is FALSE after any reordering: add() releases at most
       one frame per call, so a backlog built while a hole was open is never worked off
       (refutation witness below, replayed on the implementation by the harness). *)
From Coq Require Import ZArith List Bool Lia.
From AV Require Import Lib.Sx Lib.Bytes Gen.Utils Gen.JbConst Model.Jitter Proof.JitterP Proof.JitterInvP
                       Proof.JitterOrderP.
Import ListNotations.
Local Open Scope Z_scope.

(* ---------------------------------------------------------------- (b) the witness *)
Definition wit_pkt (u : Z) : pkt := mkPkt u (u * 1000) [u].
Definition wit_stream : list pkt := map wit_pkt [0; 1; 2; 3; 4; 5; 6; 7].
Definition wit_arrivals : list pkt := map wit_pkt [0; 2; 3; 4; 5; 1; 6; 7].

(* eight one-packet frames, every packet delivered exactly once and at most 4 (< capacity 8)
   places from its position, prefetch 0 (trailing window: one frame) -- yet only 3 frames are
   released, 5 stay in the buffer, and nothing was discarded (no PLI). *)
Theorem jitter_complete_refuted :
  exists s outs,
    reaches 8 0 false wit_arrivals s outs /\
    Permutation.Permutation wit_arrivals wit_stream /\
    (forall i p, nth_error wit_arrivals i = Some p -> Z.abs (Z.of_nat i - pseq p) < 8) /\
    released outs = [mkFrame 0 [0]; mkFrame 1000 [1]; mkFrame 2000 [2]] /\
    (Z.of_nat (length (released outs)) < Z.of_nat (length wit_stream) - 1) /\
    held (slots s) = map wit_pkt [3; 4; 5; 6; 7].
Proof.
  eexists. eexists. split; [apply reaches_check; vm_compute; reflexivity|].
  split.
  { unfold wit_arrivals, wit_stream. cbn [map].
    apply (Permutation.Permutation_count_occ pkt_eq_dec). intros x. cbn [count_occ].
    repeat match goal with |- context [pkt_eq_dec ?a x] => destruct (pkt_eq_dec a x) end; lia. }
  split.
  { intros i p E. do 8 (destruct i as [|i]; [injection E as <-; cbn; lia|]). destruct i; discriminate. }
  split; [reflexivity|]. split; [cbn; lia|reflexivity].
Qed.

(* ---------------------------------------------------------------- (a) the frame scan on groups *)
(* a group = the packets of one frame: non-empty, one timestamp *)
Definition uniform (t : Z) (g : list pkt) : Prop := g <> [] /\ Forall (fun q => pts q = t) g.

(* consecutive groups carry different timestamps, starting after timestamp t *)
Fixpoint chain (t : Z) (gs : list (list pkt)) : Prop :=
  match gs with
  | [] => True
  | g :: gs' => exists t', t' <> t /\ uniform t' g /\ chain t' gs'
  end.

Definition tail_ok (rest : W) : Prop := rest = [] \/ exists r, rest = None :: r.

Lemma w_rf_tail rest count pf fr frames packets rem tsv : tail_ok rest ->
  w_rf rest count pf fr frames packets rem tsv = None.
Proof. intros [->|[r ->]]; reflexivity. Qed.

Lemma w_rf_group g : forall t rest count pf fr frames packets rem,
  Forall (fun q => pts q = t) g ->
  w_rf (map Some g ++ rest) count pf fr frames packets rem (Some t) =
  w_rf rest (count + Z.of_nat (length g)) pf fr frames (packets ++ g) rem (Some t).
Proof.
  induction g as [|q g IH]; intros t rest count pf fr frames packets rem HF.
  - cbn [map app length Z.of_nat]. rewrite Z.add_0_r, app_nil_r. reflexivity.
  - inversion HF as [|? ? Hq HF']; subst. cbn [map app w_rf]. rewrite Z.eqb_refl. cbn [negb].
    rewrite IH by exact HF'. cbn [length]. rewrite <- (app_assoc packets [q] g). cbn [app].
    f_equal. lia.
Qed.

Lemma w_rf_chain gs : forall t rest count pf f frames packets rem,
  chain t gs -> tail_ok rest -> frames < pf ->
  w_rf (map Some (concat gs) ++ rest) count pf (Some f) frames packets rem (Some t) =
  if pf <=? frames + Z.of_nat (length gs) then Some (f, rem) else None.
Proof.
  induction gs as [|g gs IH]; intros t rest count pf f frames packets rem HC HT Hlt.
  - cbn [concat map app length Z.of_nat]. rewrite w_rf_tail by exact HT.
    destruct (Z.leb_spec pf (frames + 0)); [lia|reflexivity].
  - destruct HC as (t' & Hne & [Hg HU] & HC'). destruct g as [|q g]; [contradiction|].
    inversion HU as [|? ? Hq HU']; subst.
    cbn [concat map app w_rf]. rewrite map_app, <- app_assoc.
    destruct (Z.eqb_spec (pts q) t) as [E|_]; [contradiction|]. cbn [negb].
    destruct (Z.geb_spec (frames + 1) pf) as [Hge|Hlt'].
    + cbn [length]. destruct (Z.leb_spec pf (frames + Z.of_nat (S (length gs)))); [reflexivity|lia].
    + rewrite w_rf_group by exact HU'. rewrite IH by (try assumption; lia).
      cbn [length]. destruct (Z.leb_spec pf (frames + 1 + Z.of_nat (length gs)));
        destruct (Z.leb_spec pf (frames + Z.of_nat (S (length gs)))); try reflexivity; lia.
Qed.

(* the scan releases the first group iff max(prefetch,1) timestamp changes follow it *)
Lemma w_frame_groups g1 gs t1 rest pf :
  uniform t1 g1 -> chain t1 gs -> tail_ok rest ->
  w_frame (map Some (concat (g1 :: gs)) ++ rest) pf =
  if Z.max pf 1 <=? Z.of_nat (length gs)
  then Some (mkFrame t1 (concat (map pdata g1)), Z.of_nat (length g1))
  else None.
Proof.
  intros [Hg HU] HC HT. destruct g1 as [|q g1]; [contradiction|].
  inversion HU as [|? ? Hq HU']; subst.
  unfold w_frame. cbn [concat map app w_rf]. rewrite map_app, <- app_assoc.
  rewrite w_rf_group by exact HU'. cbn [app].
  destruct gs as [|g2 gs].
  - cbn [concat map app length Z.of_nat]. rewrite w_rf_tail by exact HT.
    destruct (Z.leb_spec (Z.max pf 1) 0); [lia|reflexivity].
  - destruct HC as (t2 & Hne & [Hg2 HU2] & HC'). destruct g2 as [|q2 g2]; [contradiction|].
    inversion HU2 as [|? ? Hq2 HU2']; subst.
    cbn [concat map app w_rf]. rewrite map_app, <- app_assoc.
    destruct (Z.eqb_spec (pts q2) (pts q)) as [E|_]; [contradiction|]. cbn [negb].
    replace (0 + 1 + Z.of_nat (length g1)) with (Z.of_nat (length (q :: g1))) by (cbn [length]; lia).
    destruct (Z.geb_spec (0 + 1) pf) as [Hge|Hlt].
    + destruct (Z.leb_spec (Z.max pf 1) (Z.of_nat (length ((q2 :: g2) :: gs)))); [reflexivity|cbn [length] in *; lia].
    + rewrite w_rf_group by exact HU2'. rewrite w_rf_chain by (try assumption; lia).
      cbn [length]. destruct (Z.leb_spec pf (0 + 1 + Z.of_nat (length gs)));
        destruct (Z.leb_spec (Z.max pf 1) (Z.of_nat (S (length gs)))); try reflexivity; lia.
Qed.

(* ---------------------------------------------------------------- in-order arrival, one packet *)
Definition wfg (gs : list (list pkt)) : Prop :=
  match gs with
  | [] => True
  | g1 :: gs' => exists t1, uniform t1 g1 /\ chain t1 gs'
  end.

Definition gframe (g : list pkt) : frame :=
  mkFrame (match g with q :: _ => pts q | [] => 0 end) (concat (map pdata g)).

(* window-level state: origin o, the buffer holds exactly the groups gs, contiguously *)
Definition St (c pf : Z) (v : bool) (o : Z) (gs : list (list pkt)) : jb :=
  mkJb c pf v (Some o) (map Some (concat gs) ++ repeat None (Z.to_nat c - length (concat gs))).

Ltac Zify.zify_post_hook ::= Z.to_euclidean_division_equations.
Lemma inord_delta o h : 0 <= h < 32768 ->
  uint16_add (uint16_add o h) (- o) = h /\
  (uint16_add o (- uint16_add o h) <? uint16_add (uint16_add o h) (- o)) = false.
Proof.
  intros Hh. rewrite !uint16_add_mod. split; [lia|]. apply Z.ltb_ge. lia.
Qed.
Ltac Zify.zify_post_hook ::= idtac.

Lemma set_nth_mid {A} (l1 : list A) x y l2 : set_nth (l1 ++ x :: l2) (length l1) y = Some (l1 ++ y :: l2).
Proof.
  induction l1 as [|h t IH]; [reflexivity|]. cbn [app length set_nth]. rewrite IH. reflexivity.
Qed.

Lemma w_set_append (A : list pkt) k p : (1 <= k)%nat ->
  w_set (map Some A ++ repeat None k) (length A) (Some p) = map Some (A ++ [p]) ++ repeat None (k - 1).
Proof.
  intros Hk. destruct k as [|k]; [lia|]. cbn [repeat]. unfold w_set.
  rewrite <- (map_length Some A) at 1. rewrite set_nth_mid.
  rewrite map_app, <- app_assoc. cbn [map app]. replace (S k - 1)%nat with k by lia. reflexivity.
Qed.

Lemma tail_ok_repeat k : tail_ok (repeat None k).
Proof. destruct k; [left; reflexivity|right; eexists; reflexivity]. Qed.

Lemma uniform_head t g : uniform t g -> gframe g = mkFrame t (concat (map pdata g)).
Proof.
  intros [Hne HF]. destruct g as [|q g]; [contradiction|]. inversion HF; subst. reflexivity.
Qed.

Lemma pkt_step c pf v o gsA g1 gs p :
  0 < c <= 32768 -> 0 <= o < 65536 ->
  concat (g1 :: gs) = concat gsA ++ [p] -> wfg (g1 :: gs) ->
  (length (concat gsA) < Z.to_nat c)%nat ->
  pseq p = uint16_add o (Z.of_nat (length (concat gsA))) ->
  a_add (St c pf v o gsA) p =
  if Z.max pf 1 <=? Z.of_nat (length gs)
  then (St c pf v (uint16_add o (Z.of_nat (length g1))) gs, (false, Some (gframe g1)))
  else (St c pf v o (g1 :: gs), (false, None)).
Proof.
  intros Hc Ho EB (t1 & HU1 & HCh) Hh Hp.
  set (h := length (concat gsA)) in *.
  destruct (inord_delta o (Z.of_nat h) ltac:(lia)) as [Ed Em].
  unfold a_add, St. cbn [origin slots is_video cap]. rewrite Hp, Em, Ed.
  unfold a_place. cbn [cap]. destruct (Z.geb_spec (Z.of_nat h) c); [lia|].
  unfold a_tail. cbv zeta. cbn [cap prefetch is_video]. rewrite Hp, Ed, Nat2Z.id.
  subst h. rewrite !w_set_append by lia. rewrite <- EB.
  rewrite (w_frame_groups g1 gs t1 _ pf HU1 HCh (tail_ok_repeat _)).
  destruct (Z.max pf 1 <=? Z.of_nat (length gs)).
  - rewrite (uniform_head t1 g1 HU1). f_equal. f_equal.
    rewrite Nat2Z.id. unfold w_remove. cbn [concat]. rewrite map_app, <- app_assoc.
    rewrite <- (map_length Some g1) at 1. rewrite skipn_app, skipn_all, Nat.sub_diag. cbn [skipn app].
    rewrite <- app_assoc, <- repeat_app. f_equal. f_equal.
    assert (EL : length (concat (g1 :: gs)) = S (length (concat gsA))) by (rewrite EB, app_length; cbn [length]; lia).
    cbn [concat] in EL. rewrite app_length in EL. lia.
  - f_equal. f_equal. f_equal. f_equal.
    assert (EL : length (concat (g1 :: gs)) = S (length (concat gsA))) by (rewrite EB, app_length; cbn [length]; lia).
    lia.
Qed.

(* ---------------------------------------------------------------- chains of groups *)
Lemma uniform_prefix t g g' : g <> [] -> uniform t (g ++ g') -> uniform t g.
Proof.
  intros Hne [_ HF]. split; [exact Hne|]. apply Forall_app in HF. exact (proj1 HF).
Qed.

Lemma chain_prefix l1 : forall t l2, chain t (l1 ++ l2) -> chain t l1.
Proof.
  induction l1 as [|g l1 IH]; intros t l2 H; [exact I|].
  cbn [app chain] in *. destruct H as (t' & Hne & HU & HC). exists t'. eauto.
Qed.

Lemma chain_last_prefix l1 : forall t g g', g <> [] -> chain t (l1 ++ [g ++ g']) -> chain t (l1 ++ [g]).
Proof.
  induction l1 as [|h l1 IH]; intros t g g' Hne H; cbn [app chain] in *.
  - destruct H as (t' & Hd & HU & _). exists t'. split; [exact Hd|]. split; [|exact I].
    eapply uniform_prefix; eassumption.
  - destruct H as (t' & Hd & HU & HC). exists t'. split; [exact Hd|]. split; [exact HU|]. eapply IH; eassumption.
Qed.

Lemma wfg_prefix l1 l2 : wfg (l1 ++ l2) -> wfg l1.
Proof.
  destruct l1 as [|g l1]; [intros; exact I|]. cbn [app wfg]. intros (t1 & HU & HC).
  exists t1. split; [exact HU|]. eapply chain_prefix. exact HC.
Qed.

Lemma wfg_tail g L : wfg (g :: L) -> wfg L.
Proof.
  intros (t1 & _ & HC). destruct L as [|g2 L]; [exact I|]. destruct HC as (t' & _ & HU & HC'). exists t'. auto.
Qed.

Lemma wfg_last_prefix l1 g g' : g <> [] -> wfg (l1 ++ [g ++ g']) -> wfg (l1 ++ [g]).
Proof.
  intros Hne. destruct l1 as [|h l1]; cbn [app wfg].
  - intros (t1 & HU & _). exists t1. split; [|exact I]. eapply uniform_prefix; eassumption.
  - intros (t1 & HU & HC). exists t1. split; [exact HU|]. eapply chain_last_prefix; eassumption.
Qed.

Lemma a_run_app l1 : forall a l2,
  a_run a (l1 ++ l2) = (fst (a_run (fst (a_run a l1)) l2), snd (a_run a l1) ++ snd (a_run (fst (a_run a l1)) l2)).
Proof.
  induction l1 as [|p l1 IH]; intros a l2; cbn [app a_run fst snd]; [destruct (a_run a l2); reflexivity|].
  rewrite IH. reflexivity.
Qed.

Lemma concat_snoc {A} (l : list (list A)) g : concat (l ++ [g]) = concat l ++ g.
Proof. rewrite concat_app. cbn [concat]. rewrite app_nil_r. reflexivity. Qed.

(* ---------------------------------------------------------------- in-order arrival, one frame *)
Section InOrder.
Variables (c pf : Z) (v : bool).
Hypothesis Hc : 0 < c <= 32768.
Let P : Z := Z.max pf 1.

(* the rest of the current frame: nothing is released *)
Lemma within_frame todo : forall hs cur o,
  0 <= o < 65536 -> cur <> [] -> wfg (hs ++ [cur ++ todo]) ->
  Z.of_nat (length hs) < P ->
  (length (concat (hs ++ [cur ++ todo])) <= Z.to_nat c)%nat ->
  (forall j q, nth_error todo j = Some q ->
               pseq q = uint16_add o (Z.of_nat (length (concat (hs ++ [cur])) + j))) ->
  a_run (St c pf v o (hs ++ [cur])) todo =
  (St c pf v o (hs ++ [cur ++ todo]), repeat (false, None) (length todo)).
Proof.
  induction todo as [|p todo IH]; intros hs cur o Ho Hcur Hw HP HL Hseq.
  - rewrite app_nil_r. reflexivity.
  - cbn [a_run length repeat].
    assert (Ecat : cur ++ p :: todo = (cur ++ [p]) ++ todo) by (rewrite <- app_assoc; reflexivity).
    assert (HLp : (length (concat (hs ++ [cur])) < Z.to_nat c)%nat).
    { rewrite !concat_snoc, !app_length in *. cbn [length] in HL. lia. }
    assert (Hw1 : wfg (hs ++ [cur ++ [p]])).
    { rewrite Ecat in Hw. eapply wfg_last_prefix; [|exact Hw]. destruct cur; discriminate. }
    assert (Hstep : a_add (St c pf v o (hs ++ [cur])) p = (St c pf v o (hs ++ [cur ++ [p]]), (false, None))).
    { pose proof (Hseq 0%nat p eq_refl) as Hp. rewrite Nat.add_0_r in Hp.
      destruct hs as [|h1 hr].
      - cbn [app] in *.
        rewrite (pkt_step c pf v o [cur] (cur ++ [p]) [] p Hc Ho); try assumption.
        + cbn [length Z.of_nat]. destruct (Z.leb_spec (Z.max pf 1) 0); [lia|reflexivity].
        + cbn [concat]. rewrite !app_nil_r. reflexivity.
      - cbn [app] in *.
        rewrite (pkt_step c pf v o (h1 :: hr ++ [cur]) h1 (hr ++ [cur ++ [p]]) p Hc Ho); try assumption.
        + rewrite app_length. cbn [length] in *. fold P.
          destruct (Z.leb_spec P (Z.of_nat (length hr + 1))); [lia|reflexivity].
        + cbn [concat]. rewrite !concat_snoc, <- !app_assoc. reflexivity. }
    rewrite Hstep. cbn [fst snd]. rewrite (IH hs (cur ++ [p]) o Ho); try assumption.
    + rewrite <- Ecat. reflexivity.
    + destruct cur; discriminate.
    + rewrite <- Ecat. exact Hw.
    + rewrite <- Ecat. exact HL.
    + intros j q E. rewrite (Hseq (S j) q E). f_equal. rewrite !concat_snoc, !app_length. cbn [length]. lia.
Qed.
End InOrder.

Section InOrder2.
Variables (c pf : Z) (v : bool).
Hypothesis Hc : 0 < c <= 32768.
Let P : Z := Z.max pf 1.

(* one whole frame g arriving in order after the complete frames hs *)
Lemma frame_run hs p todo o :
  0 <= o < 65536 -> wfg (hs ++ [p :: todo]) -> Z.of_nat (length hs) <= P ->
  (length (concat hs) < Z.to_nat c)%nat ->
  (length (concat (match hs with h1 :: hr => if (P <=? Z.of_nat (length hs))%Z then hr else hs | [] => hs end
                   ++ [p :: todo])) <= Z.to_nat c)%nat ->
  (forall j q, nth_error (p :: todo) j = Some q ->
               pseq q = uint16_add o (Z.of_nat (length (concat hs) + j))) ->
  a_run (St c pf v o hs) (p :: todo) =
  match hs with
  | h1 :: hr =>
      if P <=? Z.of_nat (length hs)
      then (St c pf v (uint16_add o (Z.of_nat (length h1))) (hr ++ [p :: todo]),
            (false, Some (gframe h1)) :: repeat (false, None) (length todo))
      else (St c pf v o (hs ++ [p :: todo]), repeat (false, None) (S (length todo)))
  | [] => (St c pf v o [p :: todo], repeat (false, None) (S (length todo)))
  end.
Proof.
  intros Ho Hw HP HL1 HL2 Hseq.
  assert (Hw1 : wfg (hs ++ [[p]])).
  { change (p :: todo) with ([p] ++ todo) in Hw. eapply wfg_last_prefix; [discriminate|exact Hw]. }
  pose proof (Hseq 0%nat p eq_refl) as Hp. rewrite Nat.add_0_r in Hp.
  cbn [a_run].
  destruct hs as [|h1 hr].
  - cbn [app] in *.
    rewrite (pkt_step c pf v o [] [p] [] p Hc Ho); try assumption; try reflexivity.
    cbn [length Z.of_nat]. destruct (Z.leb_spec (Z.max pf 1) 0); [lia|]. cbn [fst snd].
    pose proof (within_frame c pf v Hc todo [] [p] o Ho ltac:(discriminate)) as X. cbn [app] in X.
    assert (S1 : Z.of_nat (@length (list pkt) []) < Z.max pf 1) by (cbn [length]; lia).
    assert (S2 : forall j q, nth_error todo j = Some q ->
                   pseq q = uint16_add o (Z.of_nat (length (concat [[p]]) + j))).
    { intros j q E. rewrite (Hseq (S j) q E). f_equal; cbn [app concat length]; lia. }
    rewrite X by assumption. reflexivity.
  - cbn [app] in *.
    rewrite (pkt_step c pf v o (h1 :: hr) h1 (hr ++ [[p]]) p Hc Ho); try assumption.
    2:{ cbn [concat]. rewrite concat_snoc, app_assoc. reflexivity. }
    rewrite app_length. cbn [length] in *. fold P.
    replace (Z.of_nat (length hr + 1)) with (Z.of_nat (S (length hr))) by lia.
    destruct (Z.leb_spec P (Z.of_nat (S (length hr)))) as [Hrel|Hno]; cbn [fst snd].
    + assert (Ho' : 0 <= uint16_add o (Z.of_nat (length h1)) < 65536) by apply uint16_add_range.
      pose proof (within_frame c pf v Hc todo hr [p] _ Ho' ltac:(discriminate)) as X. cbn [app] in X.
      assert (S0 : wfg (hr ++ [p :: todo])) by (apply wfg_tail in Hw; exact Hw).
      assert (S1 : Z.of_nat (length hr) < Z.max pf 1) by (fold P; lia).
      assert (S2 : forall j q, nth_error todo j = Some q ->
                     pseq q = uint16_add (uint16_add o (Z.of_nat (length h1)))
                                         (Z.of_nat (length (concat (hr ++ [[p]])) + j))).
      { intros j q E. rewrite (Hseq (S j) q E), uint16_add_add. f_equal.
        cbn [concat]. rewrite concat_snoc, !app_length. cbn [length]. lia. }
      rewrite X by assumption. reflexivity.
    + pose proof (within_frame c pf v Hc todo (h1 :: hr) [p] o Ho ltac:(discriminate)) as X. cbn [app] in X.
      assert (S1 : Z.of_nat (length (h1 :: hr)) < Z.max pf 1) by (fold P; cbn [length]; lia).
      assert (S2 : forall j q, nth_error todo j = Some q ->
                     pseq q = uint16_add o (Z.of_nat (length (concat (h1 :: hr ++ [[p]])) + j))).
      { intros j q E. rewrite (Hseq (S j) q E). f_equal.
        change (h1 :: hr ++ [[p]]) with ((h1 :: hr) ++ [[p]]). rewrite concat_snoc, !app_length. cbn [length]. lia. }
      rewrite X by assumption. reflexivity.
Qed.
End InOrder2.

(* ---------------------------------------------------------------- in-order arrival, whole stream *)
Definition Fit (Pn : nat) (c : Z) (L : list (list pkt)) : Prop :=
  forall i n, (n <= Pn)%nat -> (length (concat (firstn n (skipn i L))) <= Z.to_nat c - 1)%nat.

Lemma Fit_tail Pn c g L : Fit Pn c (g :: L) -> Fit Pn c L.
Proof. intros H i n Hn. exact (H (S i) n Hn). Qed.

Lemma chain_last_nonempty l : forall t g, chain t (l ++ [g]) -> g <> [].
Proof.
  induction l as [|h l IH]; intros t g H; cbn [app chain] in H.
  - destruct H as (t' & _ & [Hne _] & _). exact Hne.
  - destruct H as (t' & _ & _ & HC). eapply IH. exact HC.
Qed.

Lemma wfg_last_nonempty l g : wfg (l ++ [g]) -> g <> [].
Proof.
  destruct l as [|h l]; cbn [app wfg].
  - intros (t & [Hne _] & _). exact Hne.
  - intros (t & _ & HC). eapply chain_last_nonempty. exact HC.
Qed.

Lemma released_app o1 o2 : released (o1 ++ o2) = released o1 ++ released o2.
Proof. apply flat_map_app. Qed.

Lemma released_none n : released (repeat (false, None) n) = [].
Proof. induction n as [|n IH]; [reflexivity|]. exact IH. Qed.

Lemma nopli_none n : Forall (fun x : out => fst x = false) (repeat (false, None) n).
Proof. induction n as [|n IH]; constructor; [reflexivity|exact IH]. Qed.

Section InOrder3.
Variables (c pf : Z) (v : bool).
Hypothesis Hc : 0 < c <= 32768.
Let P : Z := Z.max pf 1.
Let Pn : nat := Z.to_nat (Z.max pf 1).

Lemma stream_run rest : forall hs o,
  0 <= o < 65536 -> wfg (hs ++ rest) -> (length hs <= Pn)%nat -> Fit Pn c (hs ++ rest) ->
  (forall j q, nth_error (concat rest) j = Some q ->
               pseq q = uint16_add o (Z.of_nat (length (concat hs) + j))) ->
  released (snd (a_run (St c pf v o hs) (concat rest))) =
    map gframe (firstn (length hs + length rest - Pn) (hs ++ rest)) /\
  Forall (fun x : out => fst x = false) (snd (a_run (St c pf v o hs) (concat rest))).
Proof.
  induction rest as [|g rest IH]; intros hs o Ho Hw HP HFit Hseq.
  - cbn [concat a_run snd released flat_map length]. rewrite Nat.add_0_r.
    replace (length hs - Pn)%nat with 0%nat by lia. split; [reflexivity|constructor].
  - assert (Hw1 : wfg (hs ++ [g])).
    { apply (wfg_prefix _ rest). rewrite <- app_assoc. exact Hw. }
    destruct g as [|p todo]; [exfalso; exact (wfg_last_nonempty _ _ Hw1 eq_refl)|].
    cbn [concat]. rewrite a_run_app. cbn [snd fst].
    assert (HL1 : (length (concat hs) < Z.to_nat c)%nat).
    { pose proof (HFit 0%nat (length hs) HP) as H0. cbn [skipn] in H0.
      rewrite firstn_app, firstn_all, Nat.sub_diag in H0. cbn [firstn] in H0. rewrite app_nil_r in H0. lia. }
    assert (Hseq1 : forall j q, nth_error (p :: todo) j = Some q ->
                      pseq q = uint16_add o (Z.of_nat (length (concat hs) + j))).
    { intros j q E. apply Hseq. cbn [concat]. rewrite nth_error_app1; [exact E|].
      apply nth_error_some_lt in E. exact E. }
    assert (HPz : Z.of_nat (length hs) <= Z.max pf 1) by (unfold Pn in HP; lia).
    assert (Hseq2 : forall j q, nth_error (concat rest) j = Some q ->
               pseq q = uint16_add o (Z.of_nat (length (concat hs) + length (p :: todo) + j))).
    { intros j q E. rewrite (Hseq (length (p :: todo) + j)%nat q).
      - f_equal. lia.
      - cbn [concat]. rewrite nth_error_app2 by lia.
        replace (length (p :: todo) + j - length (p :: todo))%nat with j by lia. exact E. }
    destruct hs as [|h1 hr].
    + (* nothing held yet *)
      rewrite (frame_run c pf v Hc [] p todo o Ho Hw1 HPz HL1); [|cbn [app]|exact Hseq1].
      2:{ pose proof (HFit 0%nat 1%nat ltac:(unfold Pn; lia)) as H1. cbn [app skipn firstn concat] in *.
          rewrite app_nil_r in *. lia. }
      cbn [fst snd]. rewrite released_app, released_none. cbn [app].
      destruct (IH [p :: todo] o Ho Hw ltac:(unfold Pn; cbn [length]; lia) HFit) as [IH1 IH2].
      { intros j q E. rewrite (Hseq2 j q E). f_equal. cbn [concat app length] in *. rewrite app_nil_r. lia. }
      cbn [app length] in *. split.
      * rewrite IH1. do 2 f_equal; lia.
      * apply Forall_app. split; [apply nopli_none|exact IH2].
    + fold P in HPz.
      rewrite (frame_run c pf v Hc (h1 :: hr) p todo o Ho Hw1 HPz HL1); [| |exact Hseq1].
      2:{ fold P. destruct (Z.leb_spec P (Z.of_nat (length (h1 :: hr)))) as [Hrel|Hno].
          - pose proof (HFit 1%nat Pn (le_n _)) as H1. cbn [app skipn] in H1.
            assert (EPn : Pn = S (length hr)) by (unfold Pn, P in *; cbn [length] in *; lia).
            rewrite EPn in H1. replace (S (length hr)) with (length (hr ++ [p :: todo])) in H1
              by (rewrite app_length; cbn [length]; lia).
            change (hr ++ (p :: todo) :: rest) with (hr ++ [p :: todo] ++ rest) in H1.
            rewrite app_assoc, firstn_app, firstn_all, Nat.sub_diag in H1. cbn [firstn] in H1.
            rewrite app_nil_r in H1. lia.
          - pose proof (HFit 0%nat (S (length (h1 :: hr))) ltac:(unfold Pn, P in *; lia)) as H1.
            cbn [skipn] in H1.
            replace (S (length (h1 :: hr))) with (length ((h1 :: hr) ++ [p :: todo])) in H1
              by (rewrite app_length; cbn [length]; lia).
            change ((h1 :: hr) ++ (p :: todo) :: rest) with ((h1 :: hr) ++ [p :: todo] ++ rest) in H1.
            rewrite app_assoc, firstn_app, firstn_all, Nat.sub_diag in H1. cbn [firstn] in H1.
            rewrite app_nil_r in H1. lia. }
      fold P. destruct (Z.leb_spec P (Z.of_nat (length (h1 :: hr)))) as [Hrel|Hno]; cbn [fst snd].
      * (* the oldest held frame comes out *)
        assert (EPn : Pn = S (length hr)) by (unfold Pn, P in *; cbn [length] in *; lia).
        destruct (IH (hr ++ [p :: todo]) (uint16_add o (Z.of_nat (length h1))) (uint16_add_range _ _))
          as [IH1 IH2].
        { rewrite <- app_assoc. cbn [app]. apply (wfg_tail h1). exact Hw. }
        { rewrite app_length. cbn [length]. lia. }
        { rewrite <- app_assoc. cbn [app]. apply (Fit_tail _ _ h1). exact HFit. }
        { intros j q E. rewrite (Hseq2 j q E), uint16_add_add. f_equal.
          cbn [concat]. rewrite concat_snoc, !app_length. lia. }
        change ((false, Some (gframe h1)) :: repeat (false, None) (length todo))
          with ([(false, Some (gframe h1))] ++ repeat (false, @None frame) (length todo)).
        rewrite !released_app, released_none. cbn [released flat_map snd app]. split.
        -- rewrite IH1. rewrite <- app_assoc. cbn [app length]. rewrite app_length. cbn [length].
           replace (S (length hr) + S (length rest) - Pn)%nat with (S (length hr + 1 + length rest - Pn)) by lia.
           reflexivity.
        -- constructor; [reflexivity|]. apply Forall_app. split; [apply nopli_none|exact IH2].
      * destruct (IH ((h1 :: hr) ++ [p :: todo]) o Ho) as [IH1 IH2].
        { rewrite <- app_assoc. exact Hw. }
        { rewrite app_length. unfold Pn, P in *. cbn [length] in *. lia. }
        { rewrite <- app_assoc. exact HFit. }
        { intros j q E. rewrite (Hseq2 j q E). f_equal. rewrite concat_snoc, !app_length. lia. }
        cbn [app] in IH1, IH2. rewrite released_app, released_none. cbn [app]. split.
        -- rewrite IH1. rewrite <- app_assoc. cbn [app].
           replace (length (h1 :: hr ++ [p :: todo]) + length rest)%nat
             with (length (h1 :: hr) + length ((p :: todo) :: rest))%nat
             by (cbn [length]; rewrite app_length; cbn [length]; lia).
           reflexivity.
        -- apply Forall_app. split; [apply nopli_none|exact IH2].
Qed.
End InOrder3.

(* the first add() on the empty buffer behaves like add() on a buffer whose origin already is
   that packet's sequence number *)
Lemma a_add_init_St c pf v p : seq16 p ->
  a_add (a_init c pf v) p = a_add (St c pf v (pseq p) []) p.
Proof.
  intros Hp. unfold a_add, a_init, St. cbn [origin slots is_video concat map app length].
  rewrite Nat.sub_0_r.
  assert (E0 : uint16_add (pseq p) (- pseq p) = 0).
  { rewrite uint16_add_mod. replace (pseq p + - pseq p) with 0 by lia. reflexivity. }
  rewrite E0. cbn [Z.ltb Z.compare]. reflexivity.
Qed.

(* C10_complete, in-order case.  gs = the sender's frames (each a non-empty list of packets with
   one timestamp, neighbouring frames with different timestamps), numbered consecutively from b
   (mod 2^16) and delivered in order, completely; every max(prefetch,1) consecutive frames have at
   most capacity-1 packets in total.  Then exactly the frames except the last max(prefetch,1)
   are released, each once, in order, byte for byte -- and no key frame is ever requested. *)
Theorem jitter_complete_inorder c pf v gs b s outs :
  cap_ok c -> c <= 32768 -> 0 <= b < 65536 ->
  wfg gs -> Fit (Z.to_nat (Z.max pf 1)) c gs ->
  (forall j q, nth_error (concat gs) j = Some q -> pseq q = uint16_add b (Z.of_nat j)) ->
  reaches c pf v (concat gs) s outs ->
  released outs = map gframe (firstn (length gs - Z.to_nat (Z.max pf 1)) gs) /\
  Forall (fun x : out => fst x = false) outs.
Proof.
  intros Hc Hle Hb Hw HFit Hseq HR. pose proof (cap_ok_pos _ Hc) as Hpos.
  assert (HF : Forall seq16 (concat gs)).
  { apply Forall_forall. intros q Hq. apply In_nth_error in Hq. destruct Hq as [j Ej].
    unfold seq16. rewrite (Hseq j q Ej). apply uint16_add_range. }
  destruct (reaches_abs c pf v _ s outs Hc HF HR) as [-> _].
  destruct gs as [|g gs].
  - cbn [concat a_run snd released flat_map length firstn map]. split; [reflexivity|constructor].
  - assert (Hg : g <> []) by (destruct Hw as (t & [Hne _] & _); exact Hne).
    destruct g as [|p todo]; [contradiction|].
    assert (Ep : pseq p = b).
    { rewrite (Hseq 0%nat p eq_refl). apply uint16_add_0. exact Hb. }
    assert (E : a_run (a_init c pf v) (concat ((p :: todo) :: gs)) =
                a_run (St c pf v b []) (concat ((p :: todo) :: gs))).
    { cbn [concat app a_run]. rewrite a_add_init_St, Ep; [reflexivity|].
      unfold seq16. rewrite Ep. exact Hb. }
    rewrite E.
    destruct (stream_run c pf v ltac:(lia) ((p :: todo) :: gs) [] b Hb Hw ltac:(cbn [length]; lia) HFit)
      as [H1 H2].
    { intros j q Ej. rewrite (Hseq j q Ej). reflexivity. }
    cbn [app length] in H1. split; [exact H1|exact H2].
Qed.
