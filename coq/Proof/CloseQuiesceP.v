(* Proofs about Model/Close.v (property C19), part 5: what is still live on a transport after
   close() (an in-flight DTLS handshake, the DTLS pump, an ICE start() about to fail) winds down. *)
From Coq Require Import ZArith List Bool Arith Lia.
From AV Require Import Lib.Sx Model.Close Proof.CloseP Proof.CloseInvP Proof.CloseThmP.
Import ListNotations.

(* ------------------------------------------------------------------ what may still run on a transport
   whose ICE side has been shut down: a DTLS handshake in progress, the DTLS pump (cancelled, or
   about to read ConnectionError from the closed ICE connection), a start() about to fail *)
Definition tresid (tp : transport) : nat :=
  (match d_state tp with DNew => 3 | DConnecting => 2 | _ => 0 end) +
  (match d_pump tp with PRunning | PCancelling => 1 | _ => 0 end) +
  (if i_starting tp then 1 else 0).

Lemma tps_set_sub c s : c_tps (set_sub c s) = c_tps c.
Proof. unfold set_sub. destruct (c_main c) as [[[? ?] ?]|]; reflexivity. Qed.

Lemma tresid_set_tp c t0 tp0 tp0' t tp :
  nth_error (c_tps c) t0 = Some tp0 -> nth_error (c_tps c) t = Some tp -> iquiet tp ->
  (iquiet tp0 -> iquiet tp0' /\ tresid tp0' <= tresid tp0) ->
  exists tp', nth_error (upd (c_tps c) t0 tp0') t = Some tp' /\ iquiet tp' /\ tresid tp' <= tresid tp.
Proof.
  intros H0 Ht Hq Hi. rewrite nth_error_upd. destruct (Nat.eqb_spec t t0) as [->|Hne].
  - rewrite H0. rewrite H0 in Ht. injection Ht as ->. destruct (Hi Hq). eauto.
  - eauto.
Qed.

Lemma tresid_step c e c' t tp :
  step true c e = Some c' -> nth_error (c_tps c) t = Some tp -> iquiet tp ->
  exists tp', nth_error (c_tps c') t = Some tp' /\ iquiet tp' /\ tresid tp' <= tresid tp.
Proof.
  intros HS Ht Hq.
  assert (Hsame : c_tps c' = c_tps c -> exists tp', nth_error (c_tps c') t = Some tp' /\ iquiet tp' /\ tresid tp' <= tresid tp).
  { intros ->. eauto. }
  destruct e; cbn [step] in HS.
  all: try (inv_step HS; try (apply Hsame; reflexivity); cbn [c_tps set_tp];
            eapply tresid_set_tp; eauto; unfold iquiet, tresid; cbn;
            intros (Q1 & Q2 & Q3 & Q4 & Q5); repeat split; auto; try congruence;
            repeat match goal with |- context [match ?x with _ => _ end] => destruct x eqn:?; try congruence end;
            cbn; try lia; fail).
  - (* EIceStartRet *)
    inv_step HS. cbn [c_tps set_tp]. eapply tresid_set_tp; eauto.
    intros (Q1 & Q2 & Q3 & Q4 & Q5). unfold iquiet, tresid. cbn. rewrite Q1. cbn.
    destruct ok; cbn; repeat split; auto; try lia.
    all: apply andb_prop in E0; destruct E0 as [E0 _]; rewrite E0; lia.
  - (* EStopCall *)
    destruct (head c) as [[o' s]|]; [|discriminate]. destruct s; try discriminate.
    destruct (op_eqb o o'); [|discriminate]. unfold stop_call in HS.
    destruct o; inv_step HS; rewrite tps_set_sub; try (cbn [c_tps set_trx set_sctp]; eexists; split; [exact Ht|split; [exact Hq|lia]]).
    all: cbn [c_tps set_tp]; eapply tresid_set_tp; eauto; unfold iquiet, tresid; cbn;
      intros (Q1 & Q2 & Q3 & Q4 & Q5); congruence.
  - (* EStopRet *) inv_step HS. unfold pop_main in HS. inv_step HS. apply Hsame. reflexivity.
  - (* ECancel *)
    unfold do_cancel in HS. inv_step HS; rewrite tps_set_sub; try (cbn [c_tps set_trx set_sctp]; eexists; split; [exact Ht|split; [exact Hq|lia]]).
    cbn [c_tps set_tp]. eapply tresid_set_tp; eauto. unfold iquiet, tresid; cbn.
    intros (Q1 & Q2 & Q3 & Q4 & Q5). repeat split; auto. destruct (d_pump t1); lia.
  - (* EIceConnClosed *)
    inv_step HS; rewrite tps_set_sub; cbn [c_tps set_tp]; eapply tresid_set_tp; eauto; unfold iquiet, tresid; cbn;
      intros (Q1 & Q2 & Q3 & Q4 & Q5); repeat split; auto; lia.
Qed.

Definition tp_live (tp : transport) : Prop :=
  d_pump tp = PRunning \/ d_pump tp = PCancelling \/ d_state tp = DConnecting \/ i_starting tp = true.

Lemma tresid_zero tp : tresid tp = 0 -> ~ tp_live tp /\ d_state tp <> DNew.
Proof.
  unfold tresid, tp_live. destruct (d_state tp), (d_pump tp), (i_starting tp); cbn; intros H; try lia;
    split; try congruence; intros [H1|[H1|[H1|H1]]]; congruence.
Qed.

(* whatever is still live on such a transport can finish by itself *)
Lemma tresid_enabled c t tp :
  nth_error (c_tps c) t = Some tp -> iquiet tp -> tp_live tp ->
  exists e c' tp', step true c e = Some c' /\ nth_error (c_tps c') t = Some tp' /\ tresid tp' < tresid tp.
Proof.
  intros Ht (Q1 & Q2 & Q3 & Q4 & Q5) Hl.
  destruct (d_pump tp) eqn:Ep.
  - (* no pump *)
    destruct (i_starting tp) eqn:Es.
    + exists (EIceStartRet t false). cbn [step]. rewrite Ht, Es, Q5. cbn. do 2 eexists. split; [reflexivity|].
      cbn [c_tps set_tp]. rewrite nth_error_upd_same with (y := tp) by exact Ht. split; [reflexivity|].
      unfold tresid. cbn. rewrite Ep, Es. lia.
    + destruct Hl as [H|[H|[H|H]]]; try congruence.
      exists (EDtlsStartRet t false). cbn [step]. rewrite Ht, H. do 2 eexists. split; [reflexivity|].
      cbn [c_tps set_tp]. rewrite nth_error_upd_same with (y := tp) by exact Ht. split; [reflexivity|].
      unfold tresid. cbn. rewrite Ep, Es, H. lia.
  - exists (EPumpEnd t 1). cbn [step]. rewrite Ht, Ep. do 2 eexists. split; [reflexivity|].
    cbn [c_tps set_tp]. rewrite nth_error_upd_same with (y := tp) by exact Ht. split; [reflexivity|].
    unfold tresid. cbn. rewrite Ep. destruct (d_state tp), (i_starting tp); lia.
  - exists (EPumpEnd t 0). cbn [step]. rewrite Ht, Ep. do 2 eexists. split; [reflexivity|].
    cbn [c_tps set_tp]. rewrite nth_error_upd_same with (y := tp) by exact Ht. split; [reflexivity|].
    unfold tresid. cbn. rewrite Ep. destruct (d_state tp), (i_starting tp); lia.
  - (* pump done *)
    destruct (i_starting tp) eqn:Es.
    + exists (EIceStartRet t false). cbn [step]. rewrite Ht, Es, Q5. cbn. do 2 eexists. split; [reflexivity|].
      cbn [c_tps set_tp]. rewrite nth_error_upd_same with (y := tp) by exact Ht. split; [reflexivity|].
      unfold tresid. cbn. rewrite Ep, Es. lia.
    + destruct Hl as [H|[H|[H|H]]]; try congruence.
      exists (EDtlsStartRet t false). cbn [step]. rewrite Ht, H. do 2 eexists. split; [reflexivity|].
      cbn [c_tps set_tp]. rewrite nth_error_upd_same with (y := tp) by exact Ht. split; [reflexivity|].
      unfold tresid. cbn. rewrite Ep, Es, H. lia.
Qed.

(* the steps of the parties that may still be live on the transport strictly decrease tresid *)
Definition tp_event (t : nat) (e : ev) : bool :=
  match e with
  | EPumpEnd t' _ | EDtlsStart t' | EDtlsStartRet t' _ | EIceStartRet t' _ => Nat.eqb t t'
  | _ => false
  end.

Lemma tresid_own_step c e c' t tp :
  step true c e = Some c' -> nth_error (c_tps c) t = Some tp -> iquiet tp -> tp_event t e = true ->
  exists tp', nth_error (c_tps c') t = Some tp' /\ tresid tp' < tresid tp.
Proof.
  intros HS Ht (Q1 & Q2 & Q3 & Q4 & Q5) He.
  destruct e; cbn [tp_event] in He; try discriminate; apply Nat.eqb_eq in He; subst t0; cbn [step] in HS;
    rewrite Ht in HS; inv_step HS; cbn [c_tps set_tp];
    rewrite nth_error_upd_same with (y := tp) by exact Ht; eexists; (split; [reflexivity|]);
    unfold tresid; cbn; rewrite ?E, ?E0, ?E1; cbn.
  all: try (apply andb_prop in E; destruct E as [E _]; rewrite E).
  all: repeat match goal with |- context [match ?x with _ => _ end] => destruct x end; try lia.
  all: repeat match goal with |- context [if ?x then _ else _] => destruct x end; lia.
Qed.
