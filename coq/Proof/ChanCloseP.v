(* C13: closing an open channel of an established association resets its stream and, once the
   peer has answered, the channel is closed and its id is free for reuse. *)
From Coq Require Import ZArith List Bool Lia Arith.
From AV Require Import Lib.Bytes Gen.Utils Gen.SctpConst Model.Chan Proof.ChanP Proof.ChanBufP.
Import ListNotations.
Local Open Scope Z_scope.

Lemma set_ready_no1 s h r : ~ In (EvRaise 1) (snd (set_ready s h r)).
Proof. unfold set_ready. destruct (rstate_eqb _ _); cbn [snd]; [intros []|]. destruct r; cbn; intuition discriminate. Qed.

Lemma create_free_id s neg i ordered maxrt maxlt label proto : tget (table s) i = None ->
  ~ In (EvRaise 1) (snd (create s neg (Some i) ordered maxrt maxlt label proto)).
Proof.
  intros Ht. unfold create. rewrite Ht. rewrite (pair_eta (add_chan s _)).
  destruct neg.
  - destruct (established _); [apply set_ready_no1|intros []].
  - cbn [snd]. intros [H|[]]. discriminate.
Qed.

Theorem close_frees_id s h i hs : cinv s -> (h < length (chans s))%nat ->
  ch_state (getc s h) = Open -> ch_id (getc s h) = Some i ->
  established s = true -> rq_request s = None -> rq_queue s = [] ->
  let s1 := fst (step s (IClose h hs)) in
  let s2 := fst (step s1 ITransmitReconfig) in
  let s3 := fst (step s2 (IResetResponse (rq_req_seq s))) in
  (* close(): closing, a RE-CONFIG task is scheduled; the task sends the reset request for stream i *)
  ch_state (getc s1 h) = Closing /\ snd (step s (IClose h hs)) = [EvSchedReconfig] /\
  snd (step s1 ITransmitReconfig) = [EvReconfigRequest (rq_req_seq s) [i]] /\
  (* the peer's response: closed, `close` event, id unregistered and usable again *)
  ch_state (getc s3 h) = Closed /\ snd (step s2 (IResetResponse (rq_req_seq s))) = [EvClose h] /\
  tget (table s3) i = None /\
  (forall neg ordered maxrt maxlt label proto, ~ In (EvRaise 1) (snd (create s3 neg (Some i) ordered maxrt maxlt label proto))).
Proof.
  intros (W & B & T) Hh Hst Hid He Hrq Hq. cbv zeta.
  assert (Hlt : Nat.ltb h (length (chans s)) = true) by (apply Nat.ltb_lt; exact Hh).
  (* step 1 *)
  assert (E1 : step s (IClose h hs) =
               (mkSt true (dc_id s) (upd (chans s) h (with_state (getc s h) Closing)) (table s) (queue s) [i] None (rq_req_seq s) (rq_resp_seq s),
                [EvSchedReconfig])).
  { cbn [step]. rewrite Hlt. unfold chan_close. rewrite Hst. unfold close_body, set_ready. rewrite Hst.
    cbn [rstate_eqb rank Z.eqb Pos.eqb]. cbv beta iota zeta. cbn [setc established]. rewrite He, Hid. cbn [orb].
    cbn [setc dc_id chans table queue rq_queue rq_request rq_req_seq rq_resp_seq]. rewrite Hq, Hrq. reflexivity. }
  rewrite E1. cbn [fst snd].
  set (s1 := mkSt true (dc_id s) (upd (chans s) h (with_state (getc s h) Closing)) (table s) (queue s) [i] None (rq_req_seq s) (rq_resp_seq s)).
  assert (G1 : getc s1 h = with_state (getc s h) Closing).
  { unfold getc, s1. cbn [chans]. rewrite nth_upd, Nat.eqb_refl, Hlt. reflexivity. }
  split; [rewrite G1; reflexivity|]. split; [reflexivity|].
  (* step 2 *)
  assert (E2 : step s1 ITransmitReconfig =
               (mkSt true (dc_id s) (chans s1) (table s) (queue s) [] (Some (rq_req_seq s, [i])) (tsn_plus_one (rq_req_seq s)) (rq_resp_seq s),
                [EvReconfigRequest (rq_req_seq s) [i]])) by reflexivity.
  rewrite E2. cbn [fst snd]. split; [reflexivity|].
  set (s2 := mkSt true (dc_id s) (chans s1) (table s) (queue s) [] (Some (rq_req_seq s, [i])) (tsn_plus_one (rq_req_seq s)) (rq_resp_seq s)).
  (* step 3 *)
  assert (Et : tget (table s) i = Some h).
  { apply T; [exact Hh|rewrite Hst; discriminate|exact Hid]. }
  assert (G2 : getc s2 h = with_state (getc s h) Closing) by exact G1.
  cbn [step established s2]. unfold recv_reset_response. cbn [rq_request s2]. rewrite Z.eqb_refl.
  cbn [closed_streams]. unfold chan_closed. cbn [table s2]. rewrite Et.
  cbv zeta. change (queue (set_table s2 (tdel (table s) i))) with (queue s).
  set (X := set_queue (set_table s2 (tdel (table s) i)) (filter (fun it => negb (Nat.eqb (fst (fst it)) h)) (queue s))).
  unfold set_ready. change (getc X h) with (getc s2 h). rewrite G2.
  cbn [with_state ch_state rstate_eqb rank Z.eqb Pos.eqb]. cbv beta iota zeta.
  set (s3 := setc X h (with_state (with_state (getc s h) Closing) Closed)).
  assert (E3 : transmit_reconfig (mkSt (established s3) (dc_id s3) (chans s3) (table s3) (queue s3) (rq_queue s3) None (rq_req_seq s3) (rq_resp_seq s3)) =
               (mkSt (established s3) (dc_id s3) (chans s3) (table s3) (queue s3) (rq_queue s3) None (rq_req_seq s3) (rq_resp_seq s3), [])) by reflexivity.
  rewrite E3. cbv beta iota zeta. cbn [fst snd app].
  assert (G3 : ch_state (nth h (chans s3) dummy) = Closed).
  { unfold s3, setc, X. cbn [chans set_table set_queue s2 s1]. rewrite nth_upd, Nat.eqb_refl, upd_length, Hlt. reflexivity. }
  split; [exact G3|]. split; [reflexivity|].
  assert (Ht3 : tget (tdel (table s) i) i = None) by (rewrite tget_tdel, Z.eqb_refl; reflexivity).
  split; [exact Ht3|].
  intros neg ordered maxrt maxlt label proto. apply create_free_id. exact Ht3.
Qed.

(* ---------------------------------------------------------------- close() while the association is being set up *)
Definition rqf (s : st) := (established s, rq_queue s, rq_request s, rq_req_seq s).

Lemma set_ready_rqf s h r : rqf (fst (set_ready s h r)) = rqf s.
Proof. unfold set_ready. destruct (rstate_eqb _ _); reflexivity. Qed.

Lemma open_negotiated_rqf : forall t s, rqf (fst (open_negotiated s t)) = rqf s.
Proof.
  induction t as [|[k h] t IH]; intros s; cbn [open_negotiated]; [reflexivity|].
  set (p := if ch_neg (getc s h) && rstate_eqb (ch_state (getc s h)) Connecting then set_ready s h Open else (s, [])).
  rewrite (pair_eta p). rewrite (pair_eta (open_negotiated (fst p) t)). cbn [fst]. rewrite IH.
  unfold p. destruct (_ && _); [apply set_ready_rqf|reflexivity].
Qed.

(* The peer opened the channel (it has an id and is registered) but this end's association is
   still in COOKIE_WAIT / COOKIE_ECHOED.  close() must not forget the channel locally - the peer
   would keep it open for ever: the stream reset is queued, and sent once the association is up. *)
Theorem close_during_handshake s h i : (h < length (chans s))%nat ->
  rank (ch_state (getc s h)) <= 1 -> ch_id (getc s h) = Some i ->
  established s = false -> rq_request s = None -> rq_queue s = [] ->
  let s1 := fst (step s (IClose h true)) in
  let s2 := fst (step s1 IEstablished) in
  ch_state (getc s1 h) = Closing /\ table s1 = table s /\ rq_queue s1 = [i] /\
  (* becoming established schedules the RE-CONFIG task, which requests the reset of stream i *)
  In EvSchedReconfig (snd (step s1 IEstablished)) /\
  snd (step s2 ITransmitReconfig) = [EvReconfigRequest (rq_req_seq s) [i]].
Proof.
  intros Hh Hr Hid He Hrq Hq. cbv zeta.
  assert (Hlt : Nat.ltb h (length (chans s)) = true) by (apply Nat.ltb_lt; exact Hh).
  assert (Hcc : chan_close s h true = close_body s h true).
  { unfold chan_close. destruct (ch_state (getc s h)); try reflexivity; cbn in Hr; lia. }
  pose proof (set_ready_rqf s h Closing) as R1. pose proof (set_ready_table s h Closing) as T1.
  assert (G1 : ch_state (getc (fst (set_ready s h Closing)) h) = Closing).
  { rewrite getc_set_ready, Nat.eqb_refl, Hlt. cbn [andb].
    destruct (rstate_eqb (ch_state (getc s h)) Closing) eqn:E; cbn [negb]; [now apply rstate_eqb_eq in E|reflexivity]. }
  assert (E1 : fst (step s (IClose h true)) =
               let s1 := fst (set_ready s h Closing) in
               mkSt (established s1) (dc_id s1) (chans s1) (table s1) (queue s1) (rq_queue s1 ++ [i]) (rq_request s1) (rq_req_seq s1) (rq_resp_seq s1)).
  { cbn [step]. rewrite Hlt, Hcc. unfold close_body. rewrite (pair_eta (set_ready s h Closing)).
    rewrite orb_true_r, Hid. reflexivity. }
  rewrite E1. cbv zeta. set (s0 := fst (set_ready s h Closing)) in *.
  unfold rqf in R1. injection R1 as Re Rq Rr Rs. rewrite Rq, Hq. cbn [app].
  set (s1 := mkSt (established s0) (dc_id s0) (chans s0) (table s0) (queue s0) [i] (rq_request s0) (rq_req_seq s0) (rq_resp_seq s0)).
  split; [exact G1|]. split; [exact T1|]. split; [reflexivity|].
  cbn [step]. unfold set_established.
  set (s1e := mkSt true (dc_id s1) (chans s1) (table s1) (queue s1) (rq_queue s1) (rq_request s1) (rq_req_seq s1) (rq_resp_seq s1)).
  rewrite (pair_eta (open_negotiated s1e (table s1e))). cbn [fst snd].
  pose proof (open_negotiated_rqf (table s1e) s1e) as R2. unfold rqf in R2. injection R2 as Re2 Rq2 Rr2 Rs2.
  cbn [established rq_queue rq_request rq_req_seq s1e s1] in Re2, Rq2, Rr2, Rs2.
  change (table s1e) with (table s0).
  split.
  - rewrite Rq2. apply in_or_app. right. right. left. reflexivity.
  - unfold transmit_reconfig. rewrite Rr2, Rr, Hrq, Re2, Rq2, Rs2, Rs. reflexivity.
Qed.
