(* C13: closing an open channel of an established association resets its stream and, once the
   peer has answered, the channel is closed and its id is free for reuse. *)
From Coq Require Import ZArith List Bool Lia Arith.
From AV Require Import Lib.Bytes Gen.Utils Gen.SctpConst Model.Chan Proof.ChanP Proof.ChanBufP.
Import ListNotations.
Local Open Scope Z_scope.

Lemma set_ready_no1 s h r : ~ In (EvRaise 1) (snd (set_ready s h r)).
Proof. unfold set_ready. destruct (rstate_eqb _ _); cbn [snd]; [intros []|]. destruct r; cbn; intuition discriminate. Qed.

Lemma create_free_id s neg i ordered maxrt maxlt label proto : tget (table s) i = None ->
  ~ In (EvRaise 1) (snd (create s neg (Some i) ordered maxrt maxlt label proto)).
Proof.
  intros Ht. unfold create. rewrite Ht. rewrite (pair_eta (add_chan s _)).
  destruct neg.
  - destruct (established _); [apply set_ready_no1|intros []].
  - cbn [snd]. intros [H|[]]. discriminate.
Qed.

Theorem close_frees_id s h i : cinv s -> (h < length (chans s))%nat ->
  ch_state (getc s h) = Open -> ch_id (getc s h) = Some i ->
  established s = true -> rq_request s = None -> rq_queue s = [] ->
  let s1 := fst (step s (IClose h)) in
  let s2 := fst (step s1 ITransmitReconfig) in
  let s3 := fst (step s2 (IResetResponse (rq_req_seq s))) in
  (* close(): closing, a RE-CONFIG task is scheduled; the task sends the reset request for stream i *)
  ch_state (getc s1 h) = Closing /\ snd (step s (IClose h)) = [EvSchedReconfig] /\
  snd (step s1 ITransmitReconfig) = [EvReconfigRequest (rq_req_seq s) [i]] /\
  (* the peer's response: closed, `close` event, id unregistered and usable again *)
  ch_state (getc s3 h) = Closed /\ snd (step s2 (IResetResponse (rq_req_seq s))) = [EvClose h] /\
  tget (table s3) i = None /\
  (forall neg ordered maxrt maxlt label proto, ~ In (EvRaise 1) (snd (create s3 neg (Some i) ordered maxrt maxlt label proto))).
Proof.
  intros (W & B & T) Hh Hst Hid He Hrq Hq. cbv zeta.
  assert (Hlt : Nat.ltb h (length (chans s)) = true) by (apply Nat.ltb_lt; exact Hh).
  (* step 1 *)
  assert (E1 : step s (IClose h) =
               (mkSt true (dc_id s) (upd (chans s) h (with_state (getc s h) Closing)) (table s) (queue s) [i] None (rq_req_seq s) (rq_resp_seq s),
                [EvSchedReconfig])).
  { cbn [step]. rewrite Hlt. unfold chan_close. rewrite Hst. unfold close_body, set_ready. rewrite Hst.
    cbn [rstate_eqb rank Z.eqb Pos.eqb]. cbv beta iota zeta. cbn [setc established]. rewrite He, Hid.
    cbn [setc dc_id chans table queue rq_queue rq_request rq_req_seq rq_resp_seq]. rewrite Hq, Hrq. reflexivity. }
  rewrite E1. cbn [fst snd].
  set (s1 := mkSt true (dc_id s) (upd (chans s) h (with_state (getc s h) Closing)) (table s) (queue s) [i] None (rq_req_seq s) (rq_resp_seq s)).
  assert (G1 : getc s1 h = with_state (getc s h) Closing).
  { unfold getc, s1. cbn [chans]. rewrite nth_upd, Nat.eqb_refl, Hlt. reflexivity. }
  split; [rewrite G1; reflexivity|]. split; [reflexivity|].
  (* step 2 *)
  assert (E2 : step s1 ITransmitReconfig =
               (mkSt true (dc_id s) (chans s1) (table s) (queue s) [] (Some (rq_req_seq s, [i])) (tsn_plus_one (rq_req_seq s)) (rq_resp_seq s),
                [EvReconfigRequest (rq_req_seq s) [i]])) by reflexivity.
  rewrite E2. cbn [fst snd]. split; [reflexivity|].
  set (s2 := mkSt true (dc_id s) (chans s1) (table s) (queue s) [] (Some (rq_req_seq s, [i])) (tsn_plus_one (rq_req_seq s)) (rq_resp_seq s)).
  (* step 3 *)
  assert (Et : tget (table s) i = Some h).
  { apply T; [exact Hh|rewrite Hst; discriminate|exact Hid]. }
  assert (G2 : getc s2 h = with_state (getc s h) Closing) by exact G1.
  cbn [step established s2]. unfold recv_reset_response. cbn [rq_request s2]. rewrite Z.eqb_refl.
  cbn [closed_streams]. unfold chan_closed. cbn [table s2]. rewrite Et.
  unfold set_ready. change (getc (set_table s2 (tdel (table s) i)) h) with (getc s2 h). rewrite G2.
  cbn [with_state ch_state rstate_eqb rank Z.eqb Pos.eqb]. cbv beta iota zeta.
  set (s3 := setc (set_table s2 (tdel (table s) i)) h (with_state (with_state (getc s h) Closing) Closed)).
  assert (E3 : transmit_reconfig (mkSt (established s3) (dc_id s3) (chans s3) (table s3) (queue s3) (rq_queue s3) None (rq_req_seq s3) (rq_resp_seq s3)) =
               (mkSt (established s3) (dc_id s3) (chans s3) (table s3) (queue s3) (rq_queue s3) None (rq_req_seq s3) (rq_resp_seq s3), [])) by reflexivity.
  rewrite E3. cbv beta iota zeta. cbn [fst snd app].
  assert (G3 : ch_state (nth h (chans s3) dummy) = Closed).
  { unfold s3, setc. cbn [chans set_table s2 s1]. rewrite nth_upd, Nat.eqb_refl, upd_length, Hlt. reflexivity. }
  split; [exact G3|]. split; [reflexivity|].
  assert (Ht3 : tget (tdel (table s) i) i = None) by (rewrite tget_tdel, Z.eqb_refl; reflexivity).
  split; [exact Ht3|].
  intros neg ordered maxrt maxlt label proto. apply create_free_id. exact Ht3.
Qed.
